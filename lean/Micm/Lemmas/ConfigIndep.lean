import Micm.Lemmas.LUCellBridge
import Micm.Lemmas.JacobianPattern
import Micm.Lemmas.Special
import Micm.Lemmas.RosLoop
import Micm.Properties.C01
import Mathlib.Algebra.BigOperators.Group.List.Basic
import Mathlib.Data.List.Nodup
import Mathlib.Data.List.Count

/-!
Lemmas for C12 (configuration independence in exact arithmetic):

1. an LU-factorisable matrix with non-zero pivots is injective (`lu_injective`), and dense
   Doolittle only looks at the leading block (`lu_congr`);
2. `Factor; Solve` of every `LinAlg.build kind (Pattern.mk' n csc L set)` solves the same linear
   system, hence returns the same vector;
3. the logical view of the Jacobian does not depend on the pattern it is stored in;
4. the visiting order of `NormalizedError` for group length `L` is a permutation of the
   row-major one.
-/
open Finset
namespace Micm
set_option linter.unusedSectionVars false
variable {K : Type} [Field K]

/-! ## 1. uniqueness of the solution -/

/-- a unit lower triangular matrix has trivial kernel -/
theorem lower_unit_kernel (n : Nat) (Lm : Nat → Nat → K) (w : Nat → K)
    (hd : ∀ i, i < n → Lm i i = 1) (hu : ∀ r c, r < n → c < n → r < c → Lm r c = 0)
    (h : ∀ i, i < n → ∑ k ∈ range n, Lm i k * w k = 0) : ∀ i, i < n → w i = 0 := by
  intro i
  induction i using Nat.strong_induction_on with
  | _ i ih =>
    intro hi
    have h1 := h i hi
    rw [sum_lower n i hi (fun k => Lm i k * w k)
      (fun j hij hj => by rw [hu i j hi hj hij]; ring)] at h1
    have h2 : ∑ j ∈ range i, Lm i j * w j = 0 := by
      apply sum_eq_zero
      intro j hj
      have hj' := mem_range.mp hj
      rw [ih j hj' (by omega)]; ring
    rw [h2, hd i hi] at h1
    simpa using h1

/-- an upper triangular matrix with non-zero diagonal has trivial kernel -/
theorem upper_kernel (n : Nat) (Um : Nat → Nat → K) (z : Nat → K)
    (hd : ∀ i, i < n → Um i i ≠ 0) (hl : ∀ r c, r < n → c < n → c < r → Um r c = 0)
    (h : ∀ k, k < n → ∑ j ∈ range n, Um k j * z j = 0) : ∀ k, k < n → z k = 0 := by
  have key : ∀ m, m ≤ n → ∀ k, n - m ≤ k → k < n → z k = 0 := by
    intro m
    induction m with
    | zero => intro _ k h1 h2; omega
    | succ m ih =>
      intro hm k h1 h2
      by_cases hk : n - m ≤ k
      · exact ih (by omega) k hk h2
      · have hk' : k = n - (m + 1) := by omega
        have h3 := h k h2
        rw [sum_upper n k h2 (fun j => Um k j * z j)
          (fun j hj => by rw [hl k j h2 (by omega) hj]; ring)] at h3
        have h4 : ∑ j ∈ Ico (k + 1) n, Um k j * z j = 0 := by
          apply sum_eq_zero
          intro j hj
          have hj' := mem_Ico.mp hj
          rw [ih (by omega) j (by omega) hj'.2]; ring
        rw [h4, zero_add] at h3
        rcases mul_eq_zero.mp h3 with h5 | h5
        · exact absurd h5 (hd k h2)
        · exact h5
  intro k hk
  exact key n (le_refl n) k (by omega) hk

/-- **uniqueness**: if `A = L·U` on the leading `n × n` block with `L` unit lower triangular and
    `U` upper triangular with non-zero pivots, then `A` is injective on vectors of length `n`. -/
theorem lu_injective (n : Nat) (A Lm Um : Nat → Nat → K) (h : DenseLU.IsLU n A Lm Um)
    (hp : ∀ i, i < n → Um i i ≠ 0) (x y : Nat → K)
    (hxy : ∀ i, i < n → ∑ j ∈ range n, A i j * x j = ∑ j ∈ range n, A i j * y j) :
    ∀ j, j < n → x j = y j := by
  -- z = x − y is in the kernel of A
  have hz : ∀ i, i < n → ∑ j ∈ range n, A i j * (x j - y j) = 0 := by
    intro i hi
    have : ∀ j, A i j * (x j - y j) = A i j * x j - A i j * y j := fun j => by ring
    simp only [this, sum_sub_distrib, hxy i hi, sub_self]
  -- A z = L (U z)
  have hcomp : ∀ i, i < n →
      ∑ k ∈ range n, Lm i k * (∑ j ∈ range n, Um k j * (x j - y j)) = 0 := by
    intro i hi
    have := lu_compose n Lm Um (fun i => ∑ k ∈ range n, Lm i k * (∑ j ∈ range n, Um k j * (x j - y j)))
      (fun k => ∑ j ∈ range n, Um k j * (x j - y j)) (fun j => x j - y j)
      (fun _ _ => rfl) (fun _ _ => rfl) i hi
    rw [← this, ← hz i hi]
    apply sum_congr rfl
    intro j hj
    rw [h.prod i j hi (mem_range.mp hj)]
  have hw := lower_unit_kernel n Lm (fun k => ∑ j ∈ range n, Um k j * (x j - y j))
    h.L_diag h.L_up hcomp
  have hzz := upper_kernel n Um (fun j => x j - y j) hp h.U_low hw
  intro j hj
  exact sub_eq_zero.mp (hzz j hj)

/-- dense Doolittle on the leading `n × n` block only reads that block -/
theorem lu_congr (A A' : Nat → Nat → K) (n : Nat)
    (hA : ∀ r c, r < n → c < n → A r c = A' r c) (m : Nat) (hm : m ≤ n) :
    ∀ r c, r < n → c < n →
      (DenseLU.lu A m).L r c = (DenseLU.lu A' m).L r c ∧
      (DenseLU.lu A m).U r c = (DenseLU.lu A' m).U r c := by
  induction m with
  | zero => intro r c _ _; exact ⟨rfl, rfl⟩
  | succ m ih =>
    have ih := ih (by omega)
    have hU : ∀ r c, r < n → c < n →
        (DenseLU.lu A (m + 1)).U r c = (DenseLU.lu A' (m + 1)).U r c := by
      intro r c hr hc
      show (DenseLU.stage A m (DenseLU.lu A m)).U r c = (DenseLU.stage A' m (DenseLU.lu A' m)).U r c
      simp only [DenseLU.stage]
      split
      · rw [hA m c (by omega) hc]
        congr 1
        apply sum_congr rfl
        intro j hj
        have hj' := mem_range.mp hj
        rw [(ih m j (by omega) (by omega)).1, (ih j c (by omega) hc).2]
      · exact (ih r c hr hc).2
    intro r c hr hc
    refine ⟨?_, hU r c hr hc⟩
    have hU' := hU
    show (DenseLU.stage A m (DenseLU.lu A m)).L r c = (DenseLU.stage A' m (DenseLU.lu A' m)).L r c
    have e1 : ∀ r c, (DenseLU.stage A m (DenseLU.lu A m)).U r c = (DenseLU.lu A (m + 1)).U r c :=
      fun _ _ => rfl
    have e2 : ∀ r c, (DenseLU.stage A' m (DenseLU.lu A' m)).U r c = (DenseLU.lu A' (m + 1)).U r c :=
      fun _ _ => rfl
    simp only [DenseLU.stage]
    split
    · next hcm =>
      obtain ⟨rfl, hmr⟩ := hcm
      have hs : ∀ j ∈ range c,
          (DenseLU.lu A c).L r j * (if j = c ∧ c ≤ c then A c c - ∑ j ∈ range c,
              (DenseLU.lu A c).L c j * (DenseLU.lu A c).U j c else (DenseLU.lu A c).U j c)
          = (DenseLU.lu A' c).L r j * (if j = c ∧ c ≤ c then A' c c - ∑ j ∈ range c,
              (DenseLU.lu A' c).L c j * (DenseLU.lu A' c).U j c else (DenseLU.lu A' c).U j c) := by
        intro j hj
        have hj' := mem_range.mp hj
        have hne : ¬ (j = c ∧ c ≤ c) := by omega
        rw [if_neg hne, if_neg hne, (ih r j hr (by omega)).1, (ih j c (by omega) hc).2]
      rw [sum_congr rfl hs, hA r c hr hc]
      have hpiv := hU' c c hc hc
      simp only [← e1, ← e2, DenseLU.stage] at hpiv
      rw [hpiv]
    · split
      · rfl
      · exact (ih r c hr hc).1

/-! ## 4. the visiting order of `NormalizedError` -/

theorem group_index_inj {L g g' l l' : Nat} (hl : l < L) (hl' : l' < L)
    (h : g * L + l = g' * L + l') : g = g' := by
  rcases Nat.lt_trichotomy g g' with hg | hg | hg
  · have := Nat.mul_le_mul_right L (show g + 1 ≤ g' from hg)
    rw [Nat.succ_mul] at this; omega
  · exact hg
  · have := Nat.mul_le_mul_right L (show g' + 1 ≤ g from hg)
    rw [Nat.succ_mul] at this; omega

theorem nodup_cellVar_block (nVars cnt : Nat) (cell : Nat → Nat) (hc : ∀ l l', cell l = cell l' → l = l') :
    ((List.range nVars).flatMap fun v => (List.range cnt).map fun l => (cell l, v)).Nodup := by
  rw [List.nodup_flatMap]
  refine ⟨fun v _ => ?_, ?_⟩
  · exact List.nodup_range.map (fun a b h => hc a b (Prod.mk.inj h).1)
  · refine List.nodup_range.imp ?_
    intro v v' hne x hx hx'
    simp only [List.mem_map, List.mem_range] at hx hx'
    obtain ⟨l, _, rfl⟩ := hx
    obtain ⟨l', _, h⟩ := hx'
    exact hne (Prod.mk.inj h).2.symm

theorem normOrder_nodup (L nCells nVars : Nat) : (normOrder L nCells nVars).Nodup := by
  unfold normOrder
  by_cases hL : L = 0
  · rw [if_pos hL, List.nodup_flatMap]
    refine ⟨fun c _ => ?_, ?_⟩
    · exact List.nodup_range.map (fun a b h => (Prod.mk.inj h).2)
    · refine List.nodup_range.imp ?_
      intro c c' hne x hx hx'
      simp only [List.mem_map, List.mem_range] at hx hx'
      obtain ⟨v, _, rfl⟩ := hx
      obtain ⟨v', _, h⟩ := hx'
      exact hne (Prod.mk.inj h).1.symm
  · rw [if_neg hL]
    simp only []
    rw [List.nodup_append]
    refine ⟨?_, ?_, ?_⟩
    · rw [List.nodup_flatMap]
      refine ⟨fun g _ => ?_, ?_⟩
      · exact nodup_cellVar_block nVars L (fun l => g * L + l) (fun l l' h => by omega)
      · refine List.nodup_range.imp ?_
        intro g g' hne x hx hx'
        simp only [List.mem_flatMap, List.mem_map, List.mem_range] at hx hx'
        obtain ⟨v, _, l, hl, rfl⟩ := hx
        obtain ⟨v', _, l', hl', h⟩ := hx'
        exact hne (group_index_inj hl' hl (Prod.mk.inj h).1).symm
    · exact nodup_cellVar_block nVars (nCells % L) (fun l => nCells / L * L + l)
        (fun l l' h => by omega)
    · intro a ha b hb hab
      simp only [List.mem_flatMap, List.mem_map, List.mem_range] at ha hb
      obtain ⟨g, hg, v, _, l, hl, rfl⟩ := ha
      obtain ⟨v', _, l', _, rfl⟩ := hb
      have h1 := (Prod.mk.inj hab).1
      have h2 : (g + 1) * L ≤ nCells / L * L := Nat.mul_le_mul_right L hg
      rw [Nat.succ_mul] at h2
      omega

/-- the group-major visiting order of `VectorMatrix<L>` is a permutation of the row-major one,
    for every `L` and every cell count (partial last group included) -/
theorem normOrder_perm (L nCells nVars : Nat) :
    (normOrder L nCells nVars).Perm (normOrder 0 nCells nVars) := by
  rw [List.perm_ext_iff_of_nodup (normOrder_nodup _ _ _) (normOrder_nodup _ _ _)]
  rintro ⟨c, v⟩
  rw [mem_normOrder, mem_normOrder]

theorem foldl_add_perm {β : Type} (f : β → K) {l₁ l₂ : List β} (h : l₁.Perm l₂) (init : K) :
    l₁.foldl (fun acc x => acc + f x) init = l₂.foldl (fun acc x => acc + f x) init :=
  h.foldl_eq' (fun x _ y _ z => by ring) init

theorem foldl_add_eq_sum {β : Type} (f : β → K) (l : List β) (init : K) :
    l.foldl (fun acc x => acc + f x) init = init + (l.map f).sum := by
  induction l generalizing init with
  | nil => simp
  | cons a l ih => simp only [List.foldl_cons, List.map_cons, List.sum_cons, ih]; ring

/-- `NormalizedError` does not depend on the dense layout (exact arithmetic): the same terms are
    added, in a different order -/
theorem normalizedError_layout_indep (o : Ops K) (cs : Consts K) (L nVars : Nat) (atol : Array K)
    (rtol : K) (y ynew err : Mat K) :
    normalizedError o cs L nVars atol rtol y ynew err
      = normalizedError o cs 0 nVars atol rtol y ynew err := by
  unfold normalizedError
  simp only []
  rw [foldl_add_perm (fun cv : Nat × Nat => errTerm o atol rtol y ynew err cv.1 cv.2)
    (normOrder_perm L y.size nVars) 0]

/-! ## 2. `Factor; Solve` is independent of the linear-algebra configuration -/

/-- `Factor` followed by `Solve` on one cell, for the configured variant (`l0`, `u0`: prior
    contents of the `L`/`U` storage, unused by the in-place variants) -/
def LinAlg.factorSolveCell (la : LinAlg) (a l0 u0 b : Array K) : Array K :=
  match la.kind with
  | .doolittle =>
    solveCell la.fw la.bw (doolittleCell la.dRows a (l0, u0)).1 (doolittleCell la.dRows a (l0, u0)).2 b
  | .mozart =>
    solveCell la.fw la.bw (mozartCell la.mInit la.mRows a (l0, u0)).1
      (mozartCell la.mInit la.mRows a (l0, u0)).2 b
  | .doolittleInPlace => solveInPlaceCell la.fw la.bw (doolittleInPlaceCell la.diRows a) b
  | .mozartInPlace => solveInPlaceCell la.fw la.bw (mozartInPlaceCell la.miRows a) b

/-- the `i`-th pivot (diagonal element of the computed `U`) of the configured variant -/
def LinAlg.pivot (la : LinAlg) (a l0 u0 : Array K) (i : Nat) : K :=
  match la.kind with
  | .doolittle => view la.Up (doolittleCell la.dRows a (l0, u0)).2 i i
  | .mozart => view la.Up (mozartCell la.mInit la.mRows a (l0, u0)).2 i i
  | .doolittleInPlace => view la.A (doolittleInPlaceCell la.diRows a) i i
  | .mozartInPlace => view la.A (mozartInPlaceCell la.miRows a) i i

/-- the storage sizes the cell theorems need: `L`/`U` storage for the separate variants, the
    (ALU-pattern) matrix itself for the in-place variants -/
def LinAlg.SizesOK (la : LinAlg) (a l0 u0 : Array K) : Prop :=
  match la.kind with
  | .doolittle | .mozart => l0.size = la.Lp.nnz ∧ u0.size = la.Up.nnz
  | .doolittleInPlace | .mozartInPlace => a.size = la.A.nnz

/-- the Mozart variants assume a structurally full diagonal (`BuildJacobian` adds it) -/
def LUKind.needsDiag : LUKind → Bool
  | .mozart | .mozartInPlace => true
  | _ => false

theorem cfg_build_kind (kind : LUKind) (jac : Pattern) : (LinAlg.build kind jac).kind = kind := by
  cases kind <;> rfl

theorem cfg_build_A_n (kind : LUKind) (jac : Pattern) : (LinAlg.build kind jac).A.n = jac.n := by
  cases kind <;> rfl

/-- C04 in uniform notation: for every variant, `Factor; Solve` solves `A y = b` -/
theorem build_factorSolve_spec (kind : LUKind) (jac : Pattern) (n : Nat) (hn : jac.n = n)
    (hdiag : kind.needsDiag = true → ∀ i, i < n → jac.zero? i i = false)
    (a l0 u0 b : Array K) (hs : (LinAlg.build kind jac).SizesOK a l0 u0) (hb : b.size = n)
    (hpiv : ∀ i, i < n → (LinAlg.build kind jac).pivot a l0 u0 i ≠ 0) :
    ∀ i, i < n → ∑ j ∈ range n, view (LinAlg.build kind jac).A a i j *
        rd ((LinAlg.build kind jac).factorSolveCell a l0 u0 b) j = rd b i := by
  subst hn
  cases kind with
  | doolittle => exact C04_build_doolittle jac a l0 u0 b hs.1 hs.2 hb hpiv
  | mozart => exact C04_build_mozart jac (hdiag rfl) a l0 u0 b hs.1 hs.2 hb hpiv
  | doolittleInPlace => exact C04_build_doolittleInPlace jac a b hs hb hpiv
  | mozartInPlace => exact C04_build_mozartInPlace jac (hdiag rfl) a b hs hb hpiv

/-- C03 in uniform notation: for every variant the pivots are those of dense Doolittle applied to
    the logical matrix -/
theorem build_pivot_eq (kind : LUKind) (jac : Pattern) (n : Nat) (hn : jac.n = n)
    (hdiag : kind.needsDiag = true → ∀ i, i < n → jac.zero? i i = false)
    (a l0 u0 : Array K) (hs : (LinAlg.build kind jac).SizesOK a l0 u0) :
    ∀ i, i < n → (LinAlg.build kind jac).pivot a l0 u0 i
      = (DenseLU.lu (view (LinAlg.build kind jac).A a) n).U i i := by
  subst hn
  intro i hi
  cases kind with
  | doolittle => exact (C03_build_doolittle jac a l0 u0 hs.1 hs.2 i i hi hi).2
  | mozart => exact (C03_build_mozart jac (hdiag rfl) a l0 u0 hs.1 hs.2 i i hi hi).2
  | doolittleInPlace =>
    have := C03_build_doolittleInPlace jac a hs i i hi hi
    rw [if_neg (Nat.lt_irrefl i)] at this
    exact this
  | mozartInPlace =>
    have := C03_build_mozartInPlace jac (hdiag rfl) a hs i i hi hi
    rw [if_neg (Nat.lt_irrefl i)] at this
    exact this

/-- the pivots do not depend on the configuration: they are a function of the logical matrix -/
theorem pivot_config_indep (kind₁ kind₂ : LUKind) (jac₁ jac₂ : Pattern) (n : Nat)
    (hn₁ : jac₁.n = n) (hn₂ : jac₂.n = n)
    (hd₁ : kind₁.needsDiag = true → ∀ i, i < n → jac₁.zero? i i = false)
    (hd₂ : kind₂.needsDiag = true → ∀ i, i < n → jac₂.zero? i i = false)
    (a₁ l₁ u₁ a₂ l₂ u₂ : Array K)
    (hs₁ : (LinAlg.build kind₁ jac₁).SizesOK a₁ l₁ u₁) (hs₂ : (LinAlg.build kind₂ jac₂).SizesOK a₂ l₂ u₂)
    (hview : ∀ r c, r < n → c < n →
      view (LinAlg.build kind₁ jac₁).A a₁ r c = view (LinAlg.build kind₂ jac₂).A a₂ r c) :
    ∀ i, i < n → (LinAlg.build kind₁ jac₁).pivot a₁ l₁ u₁ i = (LinAlg.build kind₂ jac₂).pivot a₂ l₂ u₂ i := by
  intro i hi
  rw [build_pivot_eq kind₁ jac₁ n hn₁ hd₁ a₁ l₁ u₁ hs₁ i hi,
    build_pivot_eq kind₂ jac₂ n hn₂ hd₂ a₂ l₂ u₂ hs₂ i hi]
  exact (lu_congr _ _ n hview n (le_refl n) i i hi hi).2

/-- **configuration independence of `Factor; Solve`** (one cell): two variants (any of the four LU
    algorithms, built on any two patterns of the same block size) applied to arrays holding the
    same logical matrix and to the same right-hand side return the same vector, provided no pivot
    vanishes (stated for the first configuration; it then holds for the second). -/
theorem factorSolve_config_indep (kind₁ kind₂ : LUKind) (jac₁ jac₂ : Pattern) (n : Nat)
    (hn₁ : jac₁.n = n) (hn₂ : jac₂.n = n)
    (hd₁ : kind₁.needsDiag = true → ∀ i, i < n → jac₁.zero? i i = false)
    (hd₂ : kind₂.needsDiag = true → ∀ i, i < n → jac₂.zero? i i = false)
    (a₁ l₁ u₁ a₂ l₂ u₂ b : Array K)
    (hs₁ : (LinAlg.build kind₁ jac₁).SizesOK a₁ l₁ u₁) (hs₂ : (LinAlg.build kind₂ jac₂).SizesOK a₂ l₂ u₂)
    (hb : b.size = n)
    (hpiv : ∀ i, i < n → (LinAlg.build kind₁ jac₁).pivot a₁ l₁ u₁ i ≠ 0)
    (hview : ∀ r c, r < n → c < n →
      view (LinAlg.build kind₁ jac₁).A a₁ r c = view (LinAlg.build kind₂ jac₂).A a₂ r c) :
    ∀ j, j < n → rd ((LinAlg.build kind₁ jac₁).factorSolveCell a₁ l₁ u₁ b) j
      = rd ((LinAlg.build kind₂ jac₂).factorSolveCell a₂ l₂ u₂ b) j := by
  have hpiv₂ : ∀ i, i < n → (LinAlg.build kind₂ jac₂).pivot a₂ l₂ u₂ i ≠ 0 := fun i hi => by
    rw [← pivot_config_indep kind₁ kind₂ jac₁ jac₂ n hn₁ hn₂ hd₁ hd₂ a₁ l₁ u₁ a₂ l₂ u₂ hs₁ hs₂ hview i hi]
    exact hpiv i hi
  have e₁ := build_factorSolve_spec kind₁ jac₁ n hn₁ hd₁ a₁ l₁ u₁ b hs₁ hb hpiv
  have e₂ := build_factorSolve_spec kind₂ jac₂ n hn₂ hd₂ a₂ l₂ u₂ b hs₂ hb hpiv₂
  have hlu : DenseLU.IsLU n (view (LinAlg.build kind₁ jac₁).A a₁)
      (DenseLU.lu (view (LinAlg.build kind₁ jac₁).A a₁) n).L
      (DenseLU.lu (view (LinAlg.build kind₁ jac₁).A a₁) n).U :=
    DenseLU.lu_isLU _ n (fun i hi => by
      rw [← build_pivot_eq kind₁ jac₁ n hn₁ hd₁ a₁ l₁ u₁ hs₁ i hi]; exact hpiv i hi)
  refine lu_injective n _ _ _ hlu (fun i hi => ?_) _ _ (fun i hi => ?_)
  · rw [← build_pivot_eq kind₁ jac₁ n hn₁ hd₁ a₁ l₁ u₁ hs₁ i hi]; exact hpiv i hi
  · rw [e₁ i hi, ← e₂ i hi]
    apply sum_congr rfl
    intro j hj
    rw [hview i j hi (mem_range.mp hj)]

/-! ### sizes -/

theorem cfg_subRowFold_size (M : Array K) (t : Nat) (ps : List (Nat × Nat)) (x : Array K) :
    (ps.foldl (fun x p => wr x t (rd x t - rd M p.1 * rd x p.2)) x).size = x.size := by
  induction ps generalizing x with
  | nil => rfl
  | cons p ps ih => simp only [List.foldl_cons, ih, wr_size]

theorem foldl_step_size (step : Array K × Nat → SubRow → Array K × Nat)
    (hstep : ∀ s r, (step s r).1.size = s.1.size) (rows : List SubRow) (s : Array K × Nat) :
    (rows.foldl step s).1.size = s.1.size := by
  induction rows generalizing s with
  | nil => rfl
  | cons r rows ih => simp only [List.foldl_cons, ih, hstep]

theorem cfg_solveCell_size (fw bw : List SubRow) (L U x : Array K) :
    (solveCell fw bw L U x).size = x.size := by
  rw [solveCell_eq, foldl_step_size (bwStep U) (fun s r => by simp [bwStep, cfg_subRowFold_size, wr_size]),
    foldl_step_size (fwStep L) (fun s r => by simp [fwStep, cfg_subRowFold_size, wr_size])]

theorem cfg_solveInPlaceCell_size (fw bw : List SubRow) (M x : Array K) :
    (solveInPlaceCell fw bw M x).size = x.size := by
  rw [solveInPlaceCell_eq,
    foldl_step_size (bwStep M) (fun s r => by simp [bwStep, cfg_subRowFold_size, wr_size]),
    foldl_step_size (fwStepIP M) (fun s r => by simp [fwStepIP, cfg_subRowFold_size])]

theorem factorSolveCell_size (la : LinAlg) (a l0 u0 b : Array K) :
    (la.factorSolveCell a l0 u0 b).size = b.size := by
  unfold LinAlg.factorSolveCell
  split <;> first | exact cfg_solveCell_size _ _ _ _ _ | exact cfg_solveInPlaceCell_size _ _ _ _

/-! ### the model's `factor` / `linSolve` on whole matrices -/

/-- cell `c` of `linSolve` after `factor` is `factorSolveCell` of cell `c` of the inputs -/
theorem linSolve_factor_getD (s : SolverCfg K) (J Lo Up x : Mat K) (c : Nat) (hc : c < x.size)
    (hcJ : c < J.size) :
    (s.linSolve (s.factor J Lo Up).1 (s.factor J Lo Up).2.1 (s.factor J Lo Up).2.2 x).getD c #[]
      = s.la.factorSolveCell (J.getD c #[]) (Lo.getD c #[]) (Up.getD c #[]) (x.getD c #[]) := by
  unfold SolverCfg.linSolve SolverCfg.factor LinAlg.factorSolveCell
  cases hk : s.la.kind <;> simp [LUKind.inPlace, Array.getD, hc, hcJ]

theorem cfg_linSolve_size (s : SolverCfg K) (J Lo Up x : Mat K) : (s.linSolve J Lo Up x).size = x.size := by
  unfold SolverCfg.linSolve
  split <;> simp

/-! ## 3. the logical view of the Jacobian does not depend on the pattern that stores it -/

/-- the formal partial derivative `∂f_i/∂y_j` of the mass-action forcing (the right-hand side of
    C02's theorems, `jacNet`/`dMonomial` of `Micm/Lemmas/Jacobian.lean`) -/
def jacEntrySpec (procs : List (Process K)) (m : NameMap) (k y : Array K) (i j : Nat) : K :=
  (procs.zipIdx.map fun pi =>
    jacNet (specReactIds m pi.1.reactants) (specProdIds m pi.1.products) i
      * (rd k pi.2 * dMonomial (rd y) (specReactIds m pi.1.reactants) j)).sum

/-- outside `NonZeroJacobianElements` the formal derivative vanishes identically -/
theorem jacEntrySpec_eq_zero (procs : List (Process K)) (m : NameMap) (t : PSTables K)
    (hb : ProcessSet.build procs m = .ok t) (k y : Array K) (i j : Nat)
    (h : (i, j) ∉ t.nonZeroJacobianElements) : jacEntrySpec procs m k y i j = 0 := by
  unfold jacEntrySpec
  apply jac_sum_map_zero
  intro pi hpi
  have hp : pi.1 ∈ procs := List.fst_mem_of_mem_zipIdx hpi
  have hno := mt (mem_nonZero_of_build procs m t hb (i, j)).mpr h
  by_cases hj : j ∈ specReactIds m pi.1.reactants
  · have hi1 : i ∉ specReactIds m pi.1.reactants := fun hi => hno ⟨pi.1, hp, hj, Or.inl hi⟩
    have hi2 : i ∉ (specProdIds m pi.1.products).map (·.1) := fun hi => hno ⟨pi.1, hp, hj, Or.inr hi⟩
    have hf : (specProdIds m pi.1.products).filter (fun p => p.1 = i) = [] := by
      rw [List.filter_eq_nil_iff]
      intro a ha hai
      exact hi2 (List.mem_map.mpr ⟨a, ha, by simpa using hai⟩)
    simp [jacNet, hf, List.count_eq_zero_of_not_mem hi1]
  · rw [dMonomial_of_not_mem _ _ _ hj]; ring

/-- **the logical Jacobian, on every pattern.**  For a successfully built process set and *any*
    well-formed element set `set'` that contains the declared elements (the builder's
    `BuildJacobian` set, or the fill-closed ALU set of an in-place LU), CSR or CSC, any group
    length: `SetJacobianFlatIds` succeeds and `SubtractJacobianTerms` on a zeroed block leaves a
    block whose logical view is `−∂f_r/∂y_c` at *every* position `(r, c)` of the `n × n` block
    (structural zeros and fill-in slots included: there the derivative is identically `0`). -/
theorem jacobian_view (procs : List (Process K)) (m : NameMap) (t : PSTables K)
    (hb : ProcessSet.build procs m = .ok t)
    (hk : (m.map (·.1)).Nodup) (hv : (m.map (·.2)).Nodup)
    (hparam : ∀ p ∈ procs, ∀ r ∈ p.reactants, r.param = true → nmLookup m r.name = none)
    (n : Nat) (csc : Bool) (L : Nat) (set' : List Pair) (hw : WF n set')
    (hsup : ∀ x ∈ t.nonZeroJacobianElements, x ∈ set') :
    ∃ flat, t.jacobianFlatIds (Pattern.mk' n csc L set') = .ok flat ∧
      ∀ (k y : Array K) (r c : Nat),
        view (Pattern.mk' n csc L set')
          (t.subtractJacobianCell flat k y (Array.replicate (Pattern.mk' n csc L set').nnz 0)) r c
          = - jacEntrySpec procs m k y r c := by
  have hg := good_mk hw csc L
  have hpres : ∀ r c, (r, c) ∈ set' → ∃ q, (Pattern.mk' n csc L set').rank r c = .ok q :=
    fun r c h => (zero?_false_iff_rank _ r c).mp ((zero?_mk_iff hw csc L r c).mpr h)
  obtain ⟨flat, hflat⟩ := C02_flatids_defined procs m t hb hk hparam (Pattern.mk' n csc L set')
    (fun x hx => hpres x.1 x.2 (hsup x hx))
  refine ⟨flat, hflat, fun k y r c => ?_⟩
  cases hz : (Pattern.mk' n csc L set').zero? r c
  · obtain ⟨q, hq⟩ := (zero?_false_iff_rank _ r c).mp hz
    rw [view_present _ _ _ _ hz, rk_of_rank hq]
    exact C02_jacobian_zero procs m t hb hk hv hparam _ flat hflat
      (fun _ _ _ _ _ h1 h2 => hg.rank_inj h1 h2) k y _ (fun _ _ _ h => hg.rank_lt h) r c q hq
  · rw [view_absent _ _ _ _ hz]
    have hns : (r, c) ∉ set' := fun h => by
      have := (zero?_mk_iff hw csc L r c).mpr h
      rw [hz] at this; cases this
    rw [jacEntrySpec_eq_zero procs m t hb k y r c (fun h => hns (hsup _ h)), neg_zero]

/-- the element sets `LinAlg.build` stores the Jacobian in: the declared set itself for the
    separate-storage variants, the ALU set for the in-place variants -/
def aluSet (kind : LUKind) (jac : Pattern) : List Pair :=
  match kind with
  | .doolittle | .mozart => []
  | .doolittleInPlace => doolittleInPlaceSymbolic jac.n (fun r c => jac.zero? r c)
  | .mozartInPlace => mozartInPlaceSymbolic jac.n (fun r c => jac.zero? r c)

/-- the pattern of `state.jacobian_` for each variant, as an explicit `Pattern.mk'` -/
theorem build_A_eq (kind : LUKind) (n : Nat) (csc : Bool) (L : Nat) (set : List Pair) :
    (LinAlg.build kind (Pattern.mk' n csc L set)).A =
      Pattern.mk' n csc L (if kind.inPlace then aluSet kind (Pattern.mk' n csc L set) else set) := by
  cases kind <;> rfl

theorem aluSet_wf_sup (kind : LUKind) (hip : kind.inPlace = true) (n : Nat) (csc : Bool) (L : Nat)
    (set : List Pair) (hw : WF n set) :
    WF n (aluSet kind (Pattern.mk' n csc L set)) ∧
      ∀ x ∈ set, x ∈ aluSet kind (Pattern.mk' n csc L set) := by
  cases kind with
  | doolittle => cases hip
  | mozart => cases hip
  | doolittleInPlace =>
    refine ⟨wf_doolittleInPlaceSymbolic n _, fun x hx => ?_⟩
    obtain ⟨h1, h2⟩ := hw.range x hx
    exact doolittleInPlaceSymbolic_support n _ x.1 x.2 h1 h2 ((zero?_mk_iff hw csc L x.1 x.2).mpr hx)
  | mozartInPlace =>
    refine ⟨wf_mozartInPlaceSymbolic n _, fun x hx => ?_⟩
    obtain ⟨h1, h2⟩ := hw.range x hx
    exact mozartInPlaceSymbolic_support n _ x.1 x.2 h1 h2 ((zero?_mk_iff hw csc L x.1 x.2).mpr hx)

/-- the Jacobian that `LinAlg.build kind` stores (declared pattern for the separate-storage
    variants, ALU pattern for the in-place ones; CSR or CSC; any `L`) has the same logical view:
    `−∂f_r/∂y_c` everywhere on the block -/
theorem jacobian_view_build (procs : List (Process K)) (m : NameMap) (t : PSTables K)
    (hb : ProcessSet.build procs m = .ok t)
    (hk : (m.map (·.1)).Nodup) (hv : (m.map (·.2)).Nodup)
    (hparam : ∀ p ∈ procs, ∀ r ∈ p.reactants, r.param = true → nmLookup m r.name = none)
    (n : Nat) (hn : ∀ e ∈ m, e.2 < n) (kind : LUKind) (csc : Bool) (L : Nat) :
    ∃ flat, t.jacobianFlatIds (LinAlg.build kind
        (Pattern.mk' n csc L (buildJacobianSet n t.nonZeroJacobianElements))).A = .ok flat ∧
      ∀ (k y : Array K) (r c : Nat),
        view (LinAlg.build kind (Pattern.mk' n csc L (buildJacobianSet n t.nonZeroJacobianElements))).A
          (t.subtractJacobianCell flat k y (Array.replicate (LinAlg.build kind
            (Pattern.mk' n csc L (buildJacobianSet n t.nonZeroJacobianElements))).A.nnz 0)) r c
          = - jacEntrySpec procs m k y r c := by
  have hw : WF n (buildJacobianSet n t.nonZeroJacobianElements) :=
    jac_buildJacobianSet_WF procs m t hb n hn
  have hsup : ∀ x ∈ t.nonZeroJacobianElements, x ∈ buildJacobianSet n t.nonZeroJacobianElements :=
    fun x hx => (jac_mem_buildJacobianSet n _ x).mpr (Or.inl hx)
  rw [build_A_eq]
  cases hip : kind.inPlace
  · simp only [Bool.false_eq_true, if_false]
    exact jacobian_view procs m t hb hk hv hparam n csc L _ hw hsup
  · simp only [if_true]
    obtain ⟨hw', hsup'⟩ := aluSet_wf_sup kind hip n csc L _ hw
    exact jacobian_view procs m t hb hk hv hparam n csc L _ hw' (fun x hx => hsup' x (hsup x hx))

/-! ## 5. the stages of one attempt -/

/-- a logical dense matrix with `nCells` rows of `n` entries -/
def MatShape (nCells n : Nat) (M : Mat K) : Prop :=
  M.size = nCells ∧ ∀ c, c < nCells → (M.getD c #[]).size = n

theorem getD_lt {β : Type} (a : Array β) (c : Nat) (d : β) (h : c < a.size) : a.getD c d = a[c] := by
  simp [Array.getD, h]

theorem mat_ext_getD {A B : Mat K} (hs : A.size = B.size)
    (h : ∀ c, c < A.size → A.getD c #[] = B.getD c #[]) : A = B := by
  apply Array.ext hs
  intro c h1 h2
  have := h c h1
  simpa [Array.getD, h1, h2] using this

theorem MatShape.axpyM {nCells n : Nat} {y : Mat K} (hy : MatShape nCells n y) (a : K) (x : Mat K) :
    MatShape nCells n (axpyM a x y) := by
  refine ⟨by rw [axpyM_size]; exact hy.1, fun c hc => ?_⟩
  rw [axpyM_getD _ _ _ _ (by rw [hy.1]; exact hc), axpyRow_size]
  exact hy.2 c hc

theorem MatShape.axpy_fold {nCells n : Nat} {F : Mat K} (hF : MatShape nCells n F) (coef : Nat → K)
    (X : Nat → Mat K) (l : List Nat) :
    MatShape nCells n (l.foldl (fun ks j => Micm.axpyM (coef j) (X j) ks) F) := by
  induction l generalizing F with
  | nil => exact hF
  | cons j l ih => exact ih (hF.axpyM _ _)

theorem MatShape.fillM {nCells n : Nat} {M : Mat K} (hM : MatShape nCells n M) (v : K) :
    MatShape nCells n (fillM M v) := by
  refine ⟨by simp [Micm.fillM, hM.1], fun c hc => ?_⟩
  have hc' : c < M.size := by rw [hM.1]; exact hc
  have := hM.2 c hc
  rw [getD_lt _ _ _ hc'] at this
  simp [Micm.fillM, Array.getD, hc', this]

theorem MatShape.forcing {nCells n : Nat} {f : Mat K} (hf : MatShape nCells n f) (s : SolverCfg K)
    (k y : Mat K) : MatShape nCells n (s.forcing k y f) := by
  refine ⟨by simp [SolverCfg.forcing, hf.1], fun c hc => ?_⟩
  have hc' : c < f.size := by rw [hf.1]; exact hc
  have := hf.2 c hc
  rw [getD_lt _ _ _ hc'] at this
  simp [SolverCfg.forcing, Array.getD, hc', C01_frame_size, this]

theorem MatShape.linSolve {nCells n : Nat} {x : Mat K} (hx : MatShape nCells n x) (s : SolverCfg K)
    (J Lo Up : Mat K) : MatShape nCells n (s.linSolve J Lo Up x) := by
  refine ⟨by rw [cfg_linSolve_size]; exact hx.1, fun c hc => ?_⟩
  have hc' : c < x.size := by rw [hx.1]; exact hc
  have := hx.2 c hc
  rw [getD_lt _ _ _ hc'] at this
  unfold SolverCfg.linSolve
  split <;> simp [Array.getD, hc', cfg_solveCell_size, cfg_solveInPlaceCell_size, this]

/-- every stage vector held in `K` has the logical shape -/
def KShape (nCells n : Nat) (Ks : Array (Mat K)) : Prop :=
  ∀ j, j < Ks.size → MatShape nCells n (Ks.getD j #[])

theorem KShape.set {nCells n : Nat} {Ks : Array (Mat K)} (h : KShape nCells n Ks) (i : Nat) (M : Mat K)
    (hM : MatShape nCells n M) : KShape nCells n (Ks.setIfInBounds i M) := by
  intro j hj
  rw [Array.size_setIfInBounds] at hj
  by_cases hij : i = j
  · subst hij; rw [getD_set_eq _ _ _ _ hj]; exact hM
  · rw [getD_set_ne _ _ _ _ _ hij]; exact h j hj

theorem forcing_congr_tables (s₁ s₂ : SolverCfg K) (ht : s₁.tables = s₂.tables) (k y f : Mat K) :
    s₁.forcing k y f = s₂.forcing k y f := by
  unfold SolverCfg.forcing; rw [ht]

theorem stagePre_congr_tables (s₁ s₂ : SolverCfg K) (ht : s₁.tables = s₂.tables) (p : RosParams K)
    (kc Y : Mat K) (stage : Nat) (Ks : Array (Mat K)) (ynew : Mat K) (st : Stats) :
    stagePre s₁ p kc Y stage Ks ynew st = stagePre s₂ p kc Y stage Ks ynew st := by
  unfold stagePre
  simp only [forcing_congr_tables s₁ s₂ ht]

theorem stagePre_shape (s : SolverCfg K) (p : RosParams K) (kc Y : Mat K) (stage : Nat)
    (Ks : Array (Mat K)) (ynew : Mat K) (st : Stats) {nCells n : Nat} (hK : KShape nCells n Ks) :
    KShape nCells n (stagePre s p kc Y stage Ks ynew st).1 := by
  unfold stagePre
  split
  · exact hK
  · split
    · by_cases hs : stage < Ks.size
      · exact hK.set _ _ (((hK stage hs).fillM 0).forcing s _ _)
      · show KShape nCells n (Ks.setIfInBounds stage _)
        rw [Array.setIfInBounds_eq_of_size_le (by omega)]; exact hK
    · exact hK

theorem stageCopy_shape (p : RosParams K) (stage : Nat) (Ks : Array (Mat K)) {nCells n : Nat}
    (hK : KShape nCells n Ks) (hs : stage < Ks.size) : KShape nCells n (stageCopy p stage Ks) := by
  unfold stageCopy
  by_cases hcond : (decide (stage + 1 < p.stages) && !(p.newF.getD (stage + 1) false)) = true
  · rw [if_pos hcond]; exact hK.set _ _ (hK stage hs)
  · rw [if_neg hcond]; exact hK

theorem stageRhs_shape (p : RosParams K) (h : K) (stage : Nat) (Ks : Array (Mat K)) {nCells n : Nat}
    (hK : KShape nCells n Ks) (hs : stage < Ks.size) : MatShape nCells n (stageRhs p h stage Ks) := by
  unfold stageRhs
  exact (hK stage hs).axpy_fold _ _ _

/-- **the stage loop depends on the configuration only through the forcing tables and the
    `Factor; Solve` map**: if two configurations share the tables and their `linSolve` (with
    their own factor storage) agree on every right-hand side of the logical shape, the stage
    loops return the same stage vectors, the same `ynew` and the same statistics. -/
theorem stagesGo_config_indep (s₁ s₂ : SolverCfg K) (ht : s₁.tables = s₂.tables) (p : RosParams K)
    (kc Y J₁ Lo₁ Up₁ J₂ Lo₂ Up₂ : Mat K) (h : K) (nCells n : Nat)
    (hsolve : ∀ x, MatShape nCells n x → s₁.linSolve J₁ Lo₁ Up₁ x = s₂.linSolve J₂ Lo₂ Up₂ x)
    (fuel stage : Nat) (Ks : Array (Mat K)) (ynew : Mat K) (st : Stats)
    (hK : KShape nCells n Ks) (hsz : stage + fuel ≤ Ks.size) :
    stagesGo s₁ p kc Y J₁ Lo₁ Up₁ h fuel stage Ks ynew st
      = stagesGo s₂ p kc Y J₂ Lo₂ Up₂ h fuel stage Ks ynew st := by
  induction fuel generalizing stage Ks ynew st with
  | zero => rfl
  | succ fuel ih =>
    rw [stagesGo_succ, stagesGo_succ, ← stagePre_congr_tables s₁ s₂ ht]
    have hpre := stagePre_shape s₁ p kc Y stage Ks ynew st hK
    have hpsz := stagePre_size s₁ p kc Y stage Ks ynew st
    generalize stagePre s₁ p kc Y stage Ks ynew st = pre at hpre hpsz
    have hcp := stageCopy_shape p stage pre.1 hpre (by omega)
    have hcsz := stageCopy_size p stage pre.1
    have hrhs := stageRhs_shape p h stage _ hcp (by omega)
    rw [← hsolve _ hrhs]
    apply ih
    · exact hcp.set _ _ (hrhs.linSolve s₁ _ _ _)
    · rw [Array.size_setIfInBounds]; omega

/-- the `K` output of the stage loop does not depend on the incoming `ynew` buffer and counters -/
theorem stagePre_fst_indep (s : SolverCfg K) (p : RosParams K) (kc Y : Mat K) (stage : Nat)
    (Ks : Array (Mat K)) (ynew ynew' : Mat K) (st st' : Stats) :
    (stagePre s p kc Y stage Ks ynew st).1 = (stagePre s p kc Y stage Ks ynew' st').1 := by
  unfold stagePre
  split
  · rfl
  · split <;> rfl

theorem stagesGo_fst_indep (s : SolverCfg K) (p : RosParams K) (kc Y J Lo Up : Mat K) (h : K)
    (fuel stage : Nat) (Ks : Array (Mat K)) (ynew ynew' : Mat K) (st st' : Stats) :
    (stagesGo s p kc Y J Lo Up h fuel stage Ks ynew st).1
      = (stagesGo s p kc Y J Lo Up h fuel stage Ks ynew' st').1 := by
  induction fuel generalizing stage Ks ynew ynew' st st' with
  | zero => rfl
  | succ fuel ih =>
    rw [stagesGo_succ, stagesGo_succ, stagePre_fst_indep s p kc Y stage Ks ynew ynew' st st']
    exact ih _ _ _ _ _ _

/-- **`Factor; Solve` on whole matrices**: two configurations whose matrices have the same logical
    view in every cell solve every right-hand side of the logical shape identically. -/
theorem linSolve_config_indep (s₁ s₂ : SolverCfg K) (kind₁ kind₂ : LUKind) (jac₁ jac₂ : Pattern)
    (n : Nat) (hla₁ : s₁.la = LinAlg.build kind₁ jac₁) (hla₂ : s₂.la = LinAlg.build kind₂ jac₂)
    (hn₁ : jac₁.n = n) (hn₂ : jac₂.n = n)
    (hd₁ : kind₁.needsDiag = true → ∀ i, i < n → jac₁.zero? i i = false)
    (hd₂ : kind₂.needsDiag = true → ∀ i, i < n → jac₂.zero? i i = false)
    (M₁ Lo₁ Up₁ M₂ Lo₂ Up₂ : Mat K) (nCells : Nat) (hM₁ : M₁.size = nCells) (hM₂ : M₂.size = nCells)
    (hs₁ : ∀ c, c < nCells → s₁.la.SizesOK (M₁.getD c #[]) (Lo₁.getD c #[]) (Up₁.getD c #[]))
    (hs₂ : ∀ c, c < nCells → s₂.la.SizesOK (M₂.getD c #[]) (Lo₂.getD c #[]) (Up₂.getD c #[]))
    (hpiv : ∀ c, c < nCells → ∀ i, i < n →
      s₁.la.pivot (M₁.getD c #[]) (Lo₁.getD c #[]) (Up₁.getD c #[]) i ≠ 0)
    (hview : ∀ c, c < nCells → ∀ r c', r < n → c' < n →
      view s₁.la.A (M₁.getD c #[]) r c' = view s₂.la.A (M₂.getD c #[]) r c')
    (x : Mat K) (hx : MatShape nCells n x) :
    s₁.linSolve (s₁.factor M₁ Lo₁ Up₁).1 (s₁.factor M₁ Lo₁ Up₁).2.1 (s₁.factor M₁ Lo₁ Up₁).2.2 x
      = s₂.linSolve (s₂.factor M₂ Lo₂ Up₂).1 (s₂.factor M₂ Lo₂ Up₂).2.1 (s₂.factor M₂ Lo₂ Up₂).2.2 x := by
  apply mat_ext_getD (by rw [cfg_linSolve_size, cfg_linSolve_size])
  intro c hc
  rw [cfg_linSolve_size] at hc
  have hcn : c < nCells := by rw [← hx.1]; exact hc
  rw [linSolve_factor_getD s₁ _ _ _ _ c hc (by omega), linSolve_factor_getD s₂ _ _ _ _ c hc (by omega)]
  apply arr_ext_rd (by rw [factorSolveCell_size, factorSolveCell_size])
  intro j hj
  rw [factorSolveCell_size, hx.2 c hcn] at hj
  have h1 := hs₁ c hcn
  have h2 := hs₂ c hcn
  have h3 := hpiv c hcn
  have h4 := hview c hcn
  rw [hla₁] at h1 h3 h4 ⊢
  rw [hla₂] at h2 h4 ⊢
  exact factorSolve_config_indep kind₁ kind₂ jac₁ jac₂ n hn₁ hn₂ hd₁ hd₂ _ _ _ _ _ _ _ h1 h2
    (hx.2 c hcn) h3 h4 j hj

/-! ### the shifted matrix `α·I − J` through the pattern -/

/-- adding `a` on the diagonal ranks adds `a·I` to the logical view -/
theorem view_shiftRow (p : Pattern) (hg : p.Good) (Jr : Array K) (hsz : Jr.size = p.nnz) (a : K)
    (r c : Nat) (hdiag : r = c → p.zero? r r = false) :
    view p (shiftRow p.diagRanks Jr a) r c = view p Jr r c + if r = c then a else 0 := by
  cases hz : p.zero? r c
  · obtain ⟨q, hq⟩ := (zero?_false_iff_rank p r c).mp hz
    rw [view_present _ _ _ _ hz, view_present _ _ _ _ hz, rk_of_rank hq,
      rd_shiftRow _ hg.diagRanks_nodup]
    have hqs : q < Jr.size := by rw [hsz]; exact hg.rank_lt hq
    by_cases hrc : r = c
    · subst hrc
      have hm : q ∈ p.diagRanks := by
        rw [hg.mem_diagRanks]
        exact ⟨r, by rw [← p.key_diag r]; exact (hg.rank_ok r r q).mp hq⟩
      rw [if_pos ⟨hm, hqs⟩, if_pos rfl]
    · have hm : q ∉ p.diagRanks := by
        rw [hg.mem_diagRanks]
        rintro ⟨i, hi⟩
        rw [← p.key_diag i, ← hg.rank_ok] at hi
        obtain ⟨h1, h2⟩ := hg.rank_inj hq hi
        exact hrc (h1.trans h2.symm)
      rw [if_neg (fun h => hm h.1), if_neg hrc, add_zero]
  · rw [view_absent _ _ _ _ hz, view_absent _ _ _ _ hz]
    have hrc : r ≠ c := fun h => by
      have := hdiag h
      subst h
      rw [hz] at this; cases this
    rw [if_neg hrc, add_zero]

/-! ### configurations produced by the builder -/

/-- the element set of the pattern of `state.jacobian_` for each variant -/
def cfgSet (kind : LUKind) (n : Nat) (csc : Bool) (L : Nat) (set : List Pair) : List Pair :=
  if kind.inPlace then aluSet kind (Pattern.mk' n csc L set) else set

theorem build_A_cfgSet (kind : LUKind) (n : Nat) (csc : Bool) (L : Nat) (set : List Pair) :
    (LinAlg.build kind (Pattern.mk' n csc L set)).A = Pattern.mk' n csc L (cfgSet kind n csc L set) :=
  build_A_eq kind n csc L set

theorem cfgSet_wf_sup (kind : LUKind) (n : Nat) (csc : Bool) (L : Nat) (set : List Pair) (hw : WF n set) :
    WF n (cfgSet kind n csc L set) ∧ ∀ x ∈ set, x ∈ cfgSet kind n csc L set := by
  unfold cfgSet
  cases hip : kind.inPlace
  · simp only [Bool.false_eq_true, if_false]; exact ⟨hw, fun _ h => h⟩
  · simp only [if_true]; exact aluSet_wf_sup kind hip n csc L set hw

/-- what the builder (`mkCfg` of `Micm/Model/Driver.lean`) produces for one configuration:
    `n` species, forcing/Jacobian tables `t`, storage order `csc`, sparse group length `Ls`
    (the source pairs it with the dense group length `s.L`), LU variant `kind` -/
structure CfgBuilt (s : SolverCfg K) (t : PSTables K) (n : Nat) (csc : Bool) (Ls : Nat)
    (kind : LUKind) : Prop where
  nSpecies : s.nSpecies = n
  tables : s.tables = t
  la : s.la = LinAlg.build kind (Pattern.mk' n csc Ls (buildJacobianSet n t.nonZeroJacobianElements))
  flat : t.jacobianFlatIds s.la.A = .ok s.flatIds
  diag : s.diag = s.la.A.diagRanks

theorem cfg_jacobian_size (s : SolverCfg K) (kc Y J : Mat K) : (s.jacobian kc Y J).size = J.size := by
  simp [SolverCfg.jacobian]

theorem cfg_jacobian_getD (s : SolverCfg K) (kc Y J : Mat K) (c : Nat) (hc : c < J.size) :
    (s.jacobian kc Y J).getD c #[]
      = s.tables.subtractJacobianCell s.flatIds (kc.getD c #[]) (Y.getD c #[]) (J.getD c #[]) := by
  simp [SolverCfg.jacobian, Array.getD, hc]

theorem fillM_size (B : Mat K) (v : K) : (fillM B v).size = B.size := by simp [fillM]

theorem fillM_getD (B : Mat K) (v : K) (c : Nat) (hc : c < B.size) :
    (fillM B v).getD c #[] = Array.replicate (B.getD c #[]).size v := by
  apply Array.ext
  · simp [fillM, Array.getD, hc]
  · intro i h1 h2
    simp [fillM, Array.getD, hc]

theorem cfg_alphaMinusJacobian_size (s : SolverCfg K) (J : Mat K) (a : K) :
    (s.alphaMinusJacobian J a).size = J.size := by simp [alphaMinusJacobian_eq]

theorem cfg_alphaMinusJacobian_getD (s : SolverCfg K) (J : Mat K) (a : K) (c : Nat) (hc : c < J.size) :
    (s.alphaMinusJacobian J a).getD c #[] = shiftRow s.diag (J.getD c #[]) a := by
  simp [alphaMinusJacobian_eq, Array.getD, hc]

/-- **the matrix of an attempt, logically.**  For a built configuration (any variant, CSR/CSC,
    any group length), cell `c` of `α·I − J(Y)` as the model forms it
    (`alphaMinusJacobian (jacobian kc Y (zeroed B)) α`, cf. `C05_matrix_step`) has the logical view
    `−∂f_r/∂y_c' + α·[r = c']` — an expression in which the configuration does not occur. -/
theorem built_matrix_view (procs : List (Process K)) (m : NameMap) (t : PSTables K)
    (hb : ProcessSet.build procs m = .ok t)
    (hk : (m.map (·.1)).Nodup) (hv : (m.map (·.2)).Nodup)
    (hparam : ∀ p ∈ procs, ∀ r ∈ p.reactants, r.param = true → nmLookup m r.name = none)
    (n : Nat) (hn : ∀ e ∈ m, e.2 < n) (s : SolverCfg K) (csc : Bool) (Ls : Nat) (kind : LUKind)
    (hs : CfgBuilt s t n csc Ls kind) (kc Y B : Mat K) (a : K) (c : Nat) (hc : c < B.size)
    (hB : (B.getD c #[]).size = s.la.A.nnz) (r c' : Nat) (hr : r < n) :
    ((s.alphaMinusJacobian (s.jacobian kc Y (fillM B 0)) a).getD c #[]).size = s.la.A.nnz ∧
    view s.la.A ((s.alphaMinusJacobian (s.jacobian kc Y (fillM B 0)) a).getD c #[]) r c'
      = - jacEntrySpec procs m (kc.getD c #[]) (Y.getD c #[]) r c' + if r = c' then a else 0 := by
  have hw : WF n (buildJacobianSet n t.nonZeroJacobianElements) :=
    jac_buildJacobianSet_WF procs m t hb n hn
  obtain ⟨hw', hsup'⟩ := cfgSet_wf_sup kind n csc Ls _ hw
  have hA : s.la.A = Pattern.mk' n csc Ls (cfgSet kind n csc Ls (buildJacobianSet n t.nonZeroJacobianElements)) := by
    rw [hs.la]; exact build_A_cfgSet _ _ _ _ _
  have hg := good_mk hw' csc Ls
  obtain ⟨flat, hflat, hview⟩ := jacobian_view procs m t hb hk hv hparam n csc Ls _ hw'
    (fun x hx => hsup' x ((jac_mem_buildJacobianSet n _ x).mpr (Or.inl hx)))
  have hfl : flat = s.flatIds := by
    have := hs.flat
    rw [hA, hflat] at this
    exact Except.ok.inj this
  subst hfl
  rw [cfg_alphaMinusJacobian_getD _ _ _ _ (by rw [cfg_jacobian_size, fillM_size]; exact hc),
    cfg_jacobian_getD _ _ _ _ _ (by rw [fillM_size]; exact hc), fillM_getD _ _ _ hc, hs.diag, hs.tables, hB, hA]
  have hsz : (t.subtractJacobianCell s.flatIds (kc.getD c #[]) (Y.getD c #[])
      (Array.replicate (Pattern.mk' n csc Ls (cfgSet kind n csc Ls
        (buildJacobianSet n t.nonZeroJacobianElements))).nnz 0)).size
      = (Pattern.mk' n csc Ls (cfgSet kind n csc Ls (buildJacobianSet n t.nonZeroJacobianElements))).nnz := by
    rw [show ∀ J : Array K, (t.subtractJacobianCell s.flatIds (kc.getD c #[]) (Y.getD c #[]) J).size
      = J.size from fun J => jacGo_size _ _ _ _ _ _ J]; simp
  refine ⟨by rw [shiftRow_size, hsz], ?_⟩
  rw [view_shiftRow _ hg _ hsz a r c' ?_, hview]
  intro hrc
  exact (zero?_mk_iff hw' csc Ls r r).mpr
    (hsup' _ ((jac_mem_buildJacobianSet n _ (r, r)).mpr (Or.inr ⟨rfl, hr⟩)))

/-! ### one attempt -/

/-- **one attempt is configuration independent** (exact arithmetic).  Two configurations with the
    same forcing tables and species count — any two LU variants on any two patterns of block size
    `n`, any two dense layouts `s₁.L`, `s₂.L` — started from states that agree on the logical data
    (`Y`, step-size control, stage vectors, initial forcing, error buffer) and whose attempt matrices
    have the same logical view in every cell, with no vanishing pivot: the stage vectors `K_i`, the
    new solution, the error estimate, the error norm and the accept/reject decision with the new
    step size all coincide. -/
theorem attempt_config_indep (o : Ops K) (cs : Consts K) (p : RosParams K) (kc : Mat K)
    (atol : Array K) (rtol hm : K)
    (s₁ s₂ : SolverCfg K) (kind₁ kind₂ : LUKind) (jac₁ jac₂ : Pattern)
    (n : Nat) (hla₁ : s₁.la = LinAlg.build kind₁ jac₁) (hla₂ : s₂.la = LinAlg.build kind₂ jac₂)
    (hn₁ : jac₁.n = n) (hn₂ : jac₂.n = n)
    (hd₁ : kind₁.needsDiag = true → ∀ i, i < n → jac₁.zero? i i = false)
    (hd₂ : kind₂.needsDiag = true → ∀ i, i < n → jac₂.zero? i i = false)
    (ht : s₁.tables = s₂.tables) (hns : s₁.nSpecies = s₂.nSpecies)
    (r₁ r₂ : RState K) (hY : r₁.Y = r₂.Y) (hctl : r₁.ctl = r₂.ctl) (hk : r₁.sc.k = r₂.sc.k)
    (hf0 : r₁.sc.f0 = r₂.sc.f0) (hyerr : r₁.sc.yerr = r₂.sc.yerr)
    (nCells : Nat) (hKs : KShape nCells n r₁.sc.k) (hf0s : MatShape nCells n r₁.sc.f0)
    (hst : p.stages ≤ r₁.sc.k.size)
    (hM₁ : (attMatrix s₁ p r₁).size = nCells) (hM₂ : (attMatrix s₂ p r₂).size = nCells)
    (hs₁ : ∀ c, c < nCells → s₁.la.SizesOK ((attMatrix s₁ p r₁).getD c #[])
      (r₁.sc.lower.getD c #[]) (r₁.sc.upper.getD c #[]))
    (hs₂ : ∀ c, c < nCells → s₂.la.SizesOK ((attMatrix s₂ p r₂).getD c #[])
      (r₂.sc.lower.getD c #[]) (r₂.sc.upper.getD c #[]))
    (hpiv : ∀ c, c < nCells → ∀ i, i < n → s₁.la.pivot ((attMatrix s₁ p r₁).getD c #[])
      (r₁.sc.lower.getD c #[]) (r₁.sc.upper.getD c #[]) i ≠ 0)
    (hview : ∀ c, c < nCells → ∀ r c', r < n → c' < n →
      view s₁.la.A ((attMatrix s₁ p r₁).getD c #[]) r c'
        = view s₂.la.A ((attMatrix s₂ p r₂).getD c #[]) r c') :
    (attStages s₁ p kc r₁).1 = (attStages s₂ p kc r₂).1 ∧
    attYnew s₁ p kc r₁ = attYnew s₂ p kc r₂ ∧
    attYerr s₁ p kc r₁ = attYerr s₂ p kc r₂ ∧
    attError o cs s₁ p kc atol rtol r₁ = attError o cs s₂ p kc atol rtol r₂ ∧
    attDecide o cs s₁ p kc atol rtol hm r₁ = attDecide o cs s₂ p kc atol rtol hm r₂ := by
  have hK : (attStages s₁ p kc r₁).1 = (attStages s₂ p kc r₂).1 := by
    unfold attStages attFactor
    have hsolve := fun x hx => linSolve_config_indep s₁ s₂ kind₁ kind₂ jac₁ jac₂ n hla₁ hla₂ hn₁ hn₂
      hd₁ hd₂ (attMatrix s₁ p r₁) r₁.sc.lower r₁.sc.upper (attMatrix s₂ p r₂) r₂.sc.lower r₂.sc.upper
      nCells hM₁ hM₂ hs₁ hs₂ hpiv hview x hx
    have h1 := stagesGo_config_indep s₁ s₂ ht p kc r₁.Y _ _ _ _ _ _ r₁.ctl.h nCells n hsolve
      p.stages 0 (r₁.sc.k.setIfInBounds 0 r₁.sc.f0) r₁.sc.ynew
      { r₁.stats with decompositions := r₁.stats.decompositions + 1 }
      (hKs.set 0 _ hf0s) (by rw [Array.size_setIfInBounds]; omega)
    rw [h1, ← hY, ← hctl, ← hk, ← hf0]
    exact stagesGo_fst_indep _ _ _ _ _ _ _ _ _ _ _ _ _ _ _
  have hYn : attYnew s₁ p kc r₁ = attYnew s₂ p kc r₂ := by
    unfold attYnew; rw [hK, hY]
  have hYe : attYerr s₁ p kc r₁ = attYerr s₂ p kc r₂ := by
    unfold attYerr; rw [hK, hyerr]
  have hE : attError o cs s₁ p kc atol rtol r₁ = attError o cs s₂ p kc atol rtol r₂ := by
    unfold attError
    rw [normalizedError_layout_indep o cs s₁.L, normalizedError_layout_indep o cs s₂.L, hYn, hYe, hY, hns]
  refine ⟨hK, hYn, hYe, hE, ?_⟩
  unfold attDecide
  rw [hE, hctl]

/-! ## 3b. reordering of the state (relabelling of the species indices) -/

/-- the name map with the species indices relabelled by `σ` -/
def relabel (σ : Nat → Nat) (m : NameMap) : NameMap := m.map fun e => (e.1, σ e.2)

theorem nmLookup_relabel (σ : Nat → Nat) (m : NameMap) (name : String) :
    nmLookup (relabel σ m) name = (nmLookup m name).map σ := by
  unfold nmLookup relabel
  rw [List.find?_map]
  simp only [Option.map_map]
  rfl

theorem reactIdsP_relabel (σ : Nat → Nat) (m : NameMap) (l : List SpecRef) :
    reactIdsP (relabel σ m) l = (reactIdsP m l).map σ := by
  unfold reactIdsP
  rw [List.map_filterMap]
  congr 1
  funext r
  rw [nmLookup_relabel]
  split <;> rfl

theorem prodIdsP_relabel (σ : Nat → Nat) (m : NameMap) (l : List (SpecRef × K)) :
    prodIdsP (relabel σ m) l = (prodIdsP m l).map fun p => (σ p.1, p.2) := by
  unfold prodIdsP
  rw [List.map_filterMap]
  congr 1
  funext r
  rw [nmLookup_relabel]
  split
  · rfl
  · cases nmLookup m r.1.name <;> rfl

/-- relabelling does not change which names are known: the builds succeed together -/
theorem relabel_build_ok_iff (σ : Nat → Nat) (m : NameMap) (procs : List (Process K)) :
    (∃ t, ProcessSet.build procs (relabel σ m) = .ok t) ↔ ∃ t, ProcessSet.build procs m = .ok t := by
  rw [(C01_build_extends (relabel σ m) procs).2.2, (C01_build_extends m procs).2.2,
    C01_build_ok_iff, C01_build_ok_iff]
  simp only [nmLookup_relabel, Option.isSome_map]

theorem sum_filter_relabel (σ : Nat → Nat) (hσ : Function.Injective σ) (l : List (Nat × K)) (i : Nat) :
    (((l.map fun p => (σ p.1, p.2)).filter (fun p => p.1 = σ i)).map (·.2)).sum
      = ((l.filter (fun p => p.1 = i)).map (·.2)).sum := by
  rw [List.filter_map, List.map_map]
  congr 2
  apply List.filter_congr
  intro p _
  simp [hσ.eq_iff]

/-- **equivariance of the forcing** under a relabelling `σ` (injective) of the species: entry
    `σ i` of the forcing of the relabelled problem, evaluated on a relabelled state, equals entry
    `i` of the original forcing.  (The sums over reactions consist of the same terms.) -/
theorem forcing_relabel (σ : Nat → Nat) (hσ : Function.Injective σ) (m : NameMap)
    (procs : List (Process K)) (t t' : PSTables K)
    (h : buildForcing m procs = .ok t ∨ ProcessSet.build procs m = .ok t)
    (h' : buildForcing (relabel σ m) procs = .ok t' ∨ ProcessSet.build procs (relabel σ m) = .ok t')
    (k y y' f f' : Array K) (hy : ∀ j, rd y' (σ j) = rd y j)
    (i : Nat) (hi : i < f.size) (hi' : σ i < f'.size) (hf : rd f' (σ i) = rd f i) :
    rd (t'.addForcingCell k y' f') (σ i) = rd (t.addForcingCell k y f) i := by
  rw [C01_forcing_mass_action' m procs t h k y f i hi,
    C01_forcing_mass_action' (relabel σ m) procs t' h' k y' f' (σ i) hi', hf]
  congr 2
  apply List.map_congr_left
  intro pk _
  rw [reactIdsP_relabel, prodIdsP_relabel, sum_filter_relabel σ hσ,
    List.count_map_of_injective _ σ hσ, List.map_map]
  congr 3
  apply List.map_congr_left
  intro j _
  exact hy j

theorem jacNet_relabel (σ : Nat → Nat) (hσ : Function.Injective σ) (rs : List Nat)
    (pr : List (Nat × K)) (i : Nat) :
    jacNet (rs.map σ) (pr.map fun p => (σ p.1, p.2)) (σ i) = jacNet rs pr i := by
  unfold jacNet
  rw [sum_filter_relabel σ hσ, List.count_map_of_injective _ σ hσ]

theorem dMonomial_relabel (σ : Nat → Nat) (hσ : Function.Injective σ) (y y' : Nat → K)
    (hy : ∀ j, y' (σ j) = y j) (rs : List Nat) (j : Nat) :
    dMonomial y' (rs.map σ) (σ j) = dMonomial y rs j := by
  unfold dMonomial
  rw [List.count_map_of_injective _ σ hσ, ← List.map_erase hσ, List.map_map]
  congr 3
  funext a
  exact hy a

/-- **equivariance of the Jacobian**: the formal derivative `∂f_{σ i}/∂y_{σ j}` of the relabelled
    problem equals `∂f_i/∂y_j` of the original -/
theorem jacEntrySpec_relabel (σ : Nat → Nat) (hσ : Function.Injective σ) (m : NameMap)
    (procs : List (Process K)) (k y y' : Array K) (hy : ∀ j, rd y' (σ j) = rd y j) (i j : Nat) :
    jacEntrySpec procs (relabel σ m) k y' (σ i) (σ j) = jacEntrySpec procs m k y i j := by
  unfold jacEntrySpec
  congr 1
  apply List.map_congr_left
  intro pi _
  have e1 : specReactIds (relabel σ m) pi.1.reactants = (specReactIds m pi.1.reactants).map σ :=
    reactIdsP_relabel σ m _
  have e2 : specProdIds (relabel σ m) pi.1.products
      = (specProdIds m pi.1.products).map fun p => (σ p.1, p.2) := prodIdsP_relabel σ m _
  rw [e1, e2, jacNet_relabel σ hσ, dMonomial_relabel σ hσ (rd y) (rd y') hy]

/-! ### reordering and the linear solve -/

theorem image_perm_range (σ : Nat → Nat) (n : Nat) (hinj : ∀ i, i < n → ∀ j, j < n → σ i = σ j → i = j)
    (hr : ∀ i, i < n → σ i < n) : (range n).image σ = range n := by
  apply Finset.eq_of_subset_of_card_le
  · intro x hx
    obtain ⟨i, hi, rfl⟩ := Finset.mem_image.mp hx
    exact mem_range.mpr (hr i (mem_range.mp hi))
  · rw [Finset.card_image_of_injOn]
    intro i hi j hj h
    exact hinj i (mem_range.mp hi) j (mem_range.mp hj) h

theorem sum_perm_range (σ : Nat → Nat) (n : Nat) (hinj : ∀ i, i < n → ∀ j, j < n → σ i = σ j → i = j)
    (hr : ∀ i, i < n → σ i < n) (f : Nat → K) :
    ∑ j ∈ range n, f (σ j) = ∑ j ∈ range n, f j := by
  conv_rhs => rw [← image_perm_range σ n hinj hr]
  rw [Finset.sum_image]
  intro i hi j hj h
  exact hinj i (mem_range.mp hi) j (mem_range.mp hj) h

/-- **`Factor; Solve` is equivariant under a relabelling of the unknowns**: if configuration 2
    stores the symmetrically permuted matrix `A₂[σ r, σ c] = A₁[r, c]` and right-hand side
    `b₂[σ i] = b₁[i]` (`σ` a permutation of `0 … n−1`; any two LU variants / patterns) and no pivot
    vanishes in either ordering, then `y₂[σ j] = y₁[j]`.  (Unlike for a change of storage, the
    pivots of the two orderings differ, so both pivot hypotheses are needed.) -/
theorem factorSolve_relabel (σ : Nat → Nat) (n : Nat)
    (hinj : ∀ i, i < n → ∀ j, j < n → σ i = σ j → i = j) (hr : ∀ i, i < n → σ i < n)
    (kind₁ kind₂ : LUKind) (jac₁ jac₂ : Pattern) (hn₁ : jac₁.n = n) (hn₂ : jac₂.n = n)
    (hd₁ : kind₁.needsDiag = true → ∀ i, i < n → jac₁.zero? i i = false)
    (hd₂ : kind₂.needsDiag = true → ∀ i, i < n → jac₂.zero? i i = false)
    (a₁ l₁ u₁ b₁ a₂ l₂ u₂ b₂ : Array K)
    (hs₁ : (LinAlg.build kind₁ jac₁).SizesOK a₁ l₁ u₁) (hs₂ : (LinAlg.build kind₂ jac₂).SizesOK a₂ l₂ u₂)
    (hb₁ : b₁.size = n) (hb₂ : b₂.size = n)
    (hpiv₁ : ∀ i, i < n → (LinAlg.build kind₁ jac₁).pivot a₁ l₁ u₁ i ≠ 0)
    (hpiv₂ : ∀ i, i < n → (LinAlg.build kind₂ jac₂).pivot a₂ l₂ u₂ i ≠ 0)
    (hview : ∀ r c, r < n → c < n →
      view (LinAlg.build kind₂ jac₂).A a₂ (σ r) (σ c) = view (LinAlg.build kind₁ jac₁).A a₁ r c)
    (hb : ∀ i, i < n → rd b₂ (σ i) = rd b₁ i) :
    ∀ j, j < n → rd ((LinAlg.build kind₂ jac₂).factorSolveCell a₂ l₂ u₂ b₂) (σ j)
      = rd ((LinAlg.build kind₁ jac₁).factorSolveCell a₁ l₁ u₁ b₁) j := by
  have e₁ := build_factorSolve_spec kind₁ jac₁ n hn₁ hd₁ a₁ l₁ u₁ b₁ hs₁ hb₁ hpiv₁
  have e₂ := build_factorSolve_spec kind₂ jac₂ n hn₂ hd₂ a₂ l₂ u₂ b₂ hs₂ hb₂ hpiv₂
  have hlu : DenseLU.IsLU n (view (LinAlg.build kind₁ jac₁).A a₁)
      (DenseLU.lu (view (LinAlg.build kind₁ jac₁).A a₁) n).L
      (DenseLU.lu (view (LinAlg.build kind₁ jac₁).A a₁) n).U :=
    DenseLU.lu_isLU _ n (fun i hi => by
      rw [← build_pivot_eq kind₁ jac₁ n hn₁ hd₁ a₁ l₁ u₁ hs₁ i hi]; exact hpiv₁ i hi)
  refine lu_injective n _ _ _ hlu (fun i hi => ?_)
    (fun j => rd ((LinAlg.build kind₂ jac₂).factorSolveCell a₂ l₂ u₂ b₂) (σ j)) _ (fun i hi => ?_)
  · rw [← build_pivot_eq kind₁ jac₁ n hn₁ hd₁ a₁ l₁ u₁ hs₁ i hi]; exact hpiv₁ i hi
  · rw [e₁ i hi, ← hb i hi, ← e₂ (σ i) (hr i hi),
      ← sum_perm_range σ n hinj hr (fun j => view (LinAlg.build kind₂ jac₂).A a₂ (σ i) j *
        rd ((LinAlg.build kind₂ jac₂).factorSolveCell a₂ l₂ u₂ b₂) j)]
    apply sum_congr rfl
    intro j hj
    rw [hview i j hi (mem_range.mp hj)]

end Micm
