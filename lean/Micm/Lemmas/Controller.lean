/-
Lemmas for C07 (and the ordered parts of C06): the comparison record `Ops` instantiated from a
linear order, `cmax`/`cmin` = `max`/`min`, and the accept/reject/step-size logic `ctlDecide`.
-/
import Mathlib.Algebra.Order.Field.Basic
import Mathlib.Algebra.Order.Ring.Rat
import Mathlib.Algebra.Order.Ring.Abs
import Mathlib.Tactic.Ring
import Mathlib.Tactic.Linarith
import Mathlib.Tactic.FieldSimp
import Mathlib.Tactic.NormNum
import Micm.Model.Rosenbrock

namespace Micm
set_option linter.unusedSectionVars false

/-! ### `Ops` from a linear order -/

section Ordered
variable {K : Type} [Field K] [LinearOrder K] [IsStrictOrderedRing K]

/-- The comparison record of the model agrees with the order of the field `K`; there are no special
    values.  `sqrt`, `pow`, `ofNat` are left arbitrary. -/
structure OrderedOps (o : Ops K) : Prop where
  lt : ∀ a b, o.lt a b = decide (a < b)
  le : ∀ a b, o.le a b = decide (a ≤ b)
  eq : ∀ a b, o.eq a b = decide (a = b)
  abs : ∀ a, o.abs a = |a|
  isNaN : ∀ a, o.isNaN a = false
  isInf : ∀ a, o.isInf a = false
  isFinite : ∀ a, o.isFinite a = true

/-- the canonical ordered instance with given `sqrt`, `pow`, `ofNat` -/
def orderOps (sqrt : K → K) (pow : K → K → K) (ofNat : Nat → K) : Ops K where
  lt a b := decide (a < b)
  le a b := decide (a ≤ b)
  eq a b := decide (a = b)
  abs a := |a|
  sqrt := sqrt
  pow := pow
  isNaN _ := false
  isInf _ := false
  isFinite _ := true
  ofNat := ofNat

theorem orderOps_ordered (sqrt : K → K) (pow : K → K → K) (ofNat : Nat → K) :
    OrderedOps (orderOps sqrt pow ofNat) :=
  ⟨fun _ _ => rfl, fun _ _ => rfl, fun _ _ => rfl, fun _ => rfl, fun _ => rfl, fun _ => rfl,
   fun _ => rfl⟩

theorem OrderedOps.cmax_eq {o : Ops K} (ho : OrderedOps o) (a b : K) : cmax o a b = max a b := by
  unfold cmax
  rw [ho.lt]
  by_cases h : a < b
  · simp [h, max_eq_right (le_of_lt h)]
  · simp [h, max_eq_left (not_lt.mp h)]

theorem OrderedOps.cmin_eq {o : Ops K} (ho : OrderedOps o) (a b : K) : cmin o a b = min a b := by
  unfold cmin
  rw [ho.lt]
  by_cases h : b < a
  · simp [h, min_eq_right (le_of_lt h)]
  · simp [h, min_eq_left (not_lt.mp h)]

end Ordered

/-- satisfiability witness: `Ops ℚ` from the order of `ℚ` (identity `sqrt`, `pow x _ = x`) -/
def ratOps : Ops ℚ := orderOps id (fun x _ => x) Nat.cast

theorem ratOps_ordered : OrderedOps ratOps := orderOps_ordered _ _ _

/-! ### `ctlDecide`: carrier-independent facts -/

section Any
variable {α : Type} [OfNat α 0] [OfNat α 1] [Add α] [Sub α] [Mul α] [Div α]

/-- the step-size factor `fac` of the source: `min(fmax, max(fmin, safety / error^(1/order)))` -/
def stepFac (o : Ops α) (p : RosParams α) (e : α) : α :=
  cmin o p.fmax (cmax o p.fmin (p.safety / o.pow e (1 / p.order)))

/-- `ctlDecide` written as a decision tree on the four tests -/
theorem ctlDecide_eq (o : Ops α) (p : RosParams α) (hm : α) (c : Ctl α) (e : α) :
    ctlDecide o p hm c e =
      if o.isNaN e then (.nan, c)
      else if o.isInf e then (.inf, c)
      else if o.lt e 1 || o.lt c.h p.hmin then
        (.accept, { t := c.t + c.h,
                    h := if c.rejectLast then cmin o (cmax o p.hmin (cmin o (c.h * stepFac o p e) hm)) c.h
                         else cmax o p.hmin (cmin o (c.h * stepFac o p e) hm),
                    rejectLast := false, rejectMore := false })
      else
        (.reject, { t := c.t,
                    h := if c.rejectMore then c.h * p.rejDec else c.h * stepFac o p e,
                    rejectLast := true, rejectMore := c.rejectLast }) := rfl

/-- the time after an attempt: advanced by `h` exactly on acceptance -/
theorem ctlDecide_t (o : Ops α) (p : RosParams α) (hm : α) (c : Ctl α) (e : α) :
    (ctlDecide o p hm c e).2.t = if (ctlDecide o p hm c e).1 = .accept then c.t + c.h else c.t := by
  rw [ctlDecide_eq]
  split
  · simp
  split
  · simp
  split <;> simp

/-- on `nan`/`inf` the controller state is returned unchanged -/
theorem ctlDecide_nan (o : Ops α) (p : RosParams α) (hm : α) (c : Ctl α) (e : α)
    (h : (ctlDecide o p hm c e).1 = .nan) : (ctlDecide o p hm c e).2 = c := by
  rw [ctlDecide_eq] at h ⊢
  split
  · rfl
  · rename_i h1
    rw [if_neg h1] at h
    split
    · rfl
    · rename_i h2
      rw [if_neg h2] at h
      split at h <;> simp at h

theorem ctlDecide_inf (o : Ops α) (p : RosParams α) (hm : α) (c : Ctl α) (e : α)
    (h : (ctlDecide o p hm c e).1 = .inf) : (ctlDecide o p hm c e).2 = c := by
  rw [ctlDecide_eq] at h ⊢
  split
  · rfl
  · rename_i h1
    rw [if_neg h1] at h
    split
    · rfl
    · rename_i h2
      rw [if_neg h2] at h
      split at h <;> simp at h

end Any

/-! ### `ctlDecide` over an ordered field -/

section OrderedCtl
variable {K : Type} [Field K] [LinearOrder K] [IsStrictOrderedRing K]

/-- the clamp of the step-size ratio in order notation -/
def clampFac (o : Ops K) (p : RosParams K) (e : K) : K :=
  min p.fmax (max p.fmin (p.safety / o.pow e (1 / p.order)))

theorem OrderedOps.stepFac_eq {o : Ops K} (ho : OrderedOps o) (p : RosParams K) (e : K) :
    stepFac o p e = clampFac o p e := by
  unfold stepFac clampFac
  rw [ho.cmin_eq, ho.cmax_eq]

/-- `ctlDecide` over an ordered field: no nan/inf branch, `min`/`max` for the clamps -/
theorem OrderedOps.ctlDecide_eq {o : Ops K} (ho : OrderedOps o) (p : RosParams K) (hm : K)
    (c : Ctl K) (e : K) :
    ctlDecide o p hm c e =
      if e < 1 ∨ c.h < p.hmin then
        (.accept, { t := c.t + c.h,
                    h := if c.rejectLast then min (max p.hmin (min (c.h * clampFac o p e) hm)) c.h
                         else max p.hmin (min (c.h * clampFac o p e) hm),
                    rejectLast := false, rejectMore := false })
      else
        (.reject, { t := c.t,
                    h := if c.rejectMore then c.h * p.rejDec else c.h * clampFac o p e,
                    rejectLast := true, rejectMore := c.rejectLast }) := by
  rw [Micm.ctlDecide_eq, ho.isNaN, ho.isInf, ho.lt, ho.lt, ho.stepFac_eq]
  simp only [Bool.false_eq_true, if_false, ho.cmin_eq, ho.cmax_eq, Bool.or_eq_true,
    decide_eq_true_eq]

/-- over an ordered field the decision is never `nan`/`inf` -/
theorem OrderedOps.ctlDecide_fst {o : Ops K} (ho : OrderedOps o) (p : RosParams K) (hm : K)
    (c : Ctl K) (e : K) :
    (ctlDecide o p hm c e).1 = if e < 1 ∨ c.h < p.hmin then .accept else .reject := by
  rw [ho.ctlDecide_eq]; split <;> rfl

theorem OrderedOps.accept_iff {o : Ops K} (ho : OrderedOps o) (p : RosParams K) (hm : K)
    (c : Ctl K) (e : K) :
    (ctlDecide o p hm c e).1 = .accept ↔ (e < 1 ∨ c.h < p.hmin) := by
  rw [ho.ctlDecide_fst]; split <;> simp [*]

theorem OrderedOps.reject_iff {o : Ops K} (ho : OrderedOps o) (p : RosParams K) (hm : K)
    (c : Ctl K) (e : K) :
    (ctlDecide o p hm c e).1 = .reject ↔ (1 ≤ e ∧ p.hmin ≤ c.h) := by
  rw [ho.ctlDecide_fst]; split
  · rename_i h; simp only [reduceCtorEq, false_iff, not_and, not_le]
    intro h1; rcases h with h | h
    · exact absurd h (not_lt.mpr h1)
    · exact h
  · rename_i h; simp only [not_or, not_lt] at h; simp [h]

theorem OrderedOps.accept_next {o : Ops K} (ho : OrderedOps o) (p : RosParams K) (hm : K)
    (c : Ctl K) (e : K) (h : (ctlDecide o p hm c e).1 = .accept) :
    (ctlDecide o p hm c e).2 =
      { t := c.t + c.h,
        h := if c.rejectLast then min (max p.hmin (min (c.h * clampFac o p e) hm)) c.h
             else max p.hmin (min (c.h * clampFac o p e) hm),
        rejectLast := false, rejectMore := false } := by
  have h' := (ho.accept_iff p hm c e).mp h
  rw [ho.ctlDecide_eq, if_pos h']

theorem OrderedOps.reject_next {o : Ops K} (ho : OrderedOps o) (p : RosParams K) (hm : K)
    (c : Ctl K) (e : K) (h : (ctlDecide o p hm c e).1 = .reject) :
    (ctlDecide o p hm c e).2 =
      { t := c.t,
        h := if c.rejectMore then c.h * p.rejDec else c.h * clampFac o p e,
        rejectLast := true, rejectMore := c.rejectLast } := by
  have h' := (ho.reject_iff p hm c e).mp h
  have h'' : ¬ (e < 1 ∨ c.h < p.hmin) := by
    simp only [not_or, not_lt]; exact h'
  rw [ho.ctlDecide_eq, if_neg h'']

/-- the clamp lies in `[fmin, fmax]` (given `fmin ≤ fmax`) -/
theorem clampFac_le_fmax (o : Ops K) (p : RosParams K) (e : K) : clampFac o p e ≤ p.fmax :=
  min_le_left _ _

theorem fmin_le_clampFac (o : Ops K) (p : RosParams K) (e : K) (h : p.fmin ≤ p.fmax) :
    p.fmin ≤ clampFac o p e :=
  le_min h (le_max_left _ _)

/-- `clamp < 1` exactly when the raw ratio is `< 1` (for `fmin < 1 ≤ fmax`) -/
theorem clampFac_lt_one_iff (o : Ops K) (p : RosParams K) (e : K) (h1 : p.fmin < 1) (h2 : 1 ≤ p.fmax) :
    clampFac o p e < 1 ↔ p.safety / o.pow e (1 / p.order) < 1 := by
  unfold clampFac
  rw [min_lt_iff, max_lt_iff]
  constructor
  · rintro (h | h)
    · exact absurd h (not_lt.mpr h2)
    · exact h.2
  · intro h; exact Or.inr ⟨h1, h⟩

/-- legal controller parameters (each C07 theorem states which of these it uses) -/
structure LegalParams (p : RosParams K) : Prop where
  hmin_nonneg : 0 ≤ p.hmin
  fmin_pos : 0 < p.fmin
  fmin_lt_one : p.fmin < 1
  one_le_fmax : 1 ≤ p.fmax
  rejDec_pos : 0 < p.rejDec
  rejDec_lt_one : p.rejDec < 1
  safety_pos : 0 < p.safety

theorem clampFac_pos (o : Ops K) (p : RosParams K) (e : K) (h1 : 0 < p.fmin) (h2 : p.fmin ≤ p.fmax) :
    0 < clampFac o p e :=
  lt_of_lt_of_le h1 (fmin_le_clampFac o p e h2)

end OrderedCtl

/-! ### the initial step size of `rosSolve` -/

section Init
variable {α : Type} [OfNat α 0] [OfNat α 1] [Add α] [Sub α] [Mul α] [Div α]

/-- `h_max` of the source: `h_max_ == 0 ? time_step : min(time_step, h_max_)` -/
def hmaxEff (o : Ops α) (p : RosParams α) (timeStep : α) : α :=
  if o.eq p.hmax 0 then timeStep else cmin o timeStep p.hmax

/-- `h_start` of the source -/
def hstartEff (o : Ops α) (cs : Consts α) (p : RosParams α) (timeStep : α) : α :=
  if o.eq p.hstart 0 then cmax o p.hmin cs.deltaMin else cmin o (hmaxEff o p timeStep) p.hstart

/-- the first `H` of the source (including the `DELTA_MIN` substitution) -/
def initialH (o : Ops α) (cs : Consts α) (p : RosParams α) (timeStep : α) : α :=
  let h := cmin o (cmax o (o.abs p.hmin) (o.abs (hstartEff o cs p timeStep))) (o.abs (hmaxEff o p timeStep))
  if o.le (o.abs h) (cs.ten * p.roundOff) then cs.deltaMin else h

end Init

section InitOrdered
variable {K : Type} [Field K] [LinearOrder K] [IsStrictOrderedRing K]

theorem OrderedOps.hmaxEff_eq {o : Ops K} (ho : OrderedOps o) (p : RosParams K) (T : K) :
    hmaxEff o p T = if p.hmax = 0 then T else min T p.hmax := by
  unfold hmaxEff; rw [ho.eq, ho.cmin_eq]; simp only [decide_eq_true_eq]

theorem OrderedOps.hstartEff_eq {o : Ops K} (ho : OrderedOps o) (cs : Consts K) (p : RosParams K) (T : K) :
    hstartEff o cs p T =
      if p.hstart = 0 then max p.hmin cs.deltaMin else min (hmaxEff o p T) p.hstart := by
  unfold hstartEff; rw [ho.eq, ho.cmin_eq, ho.cmax_eq]; simp only [decide_eq_true_eq]

/-- the un-substituted first step `min (max |hmin| |hstart'|) |hmax'|` -/
def rawInitialH (o : Ops K) (cs : Consts K) (p : RosParams K) (T : K) : K :=
  min (max |p.hmin| |hstartEff o cs p T|) |hmaxEff o p T|

theorem OrderedOps.initialH_eq {o : Ops K} (ho : OrderedOps o) (cs : Consts K) (p : RosParams K) (T : K) :
    initialH o cs p T =
      if |rawInitialH o cs p T| ≤ cs.ten * p.roundOff then cs.deltaMin else rawInitialH o cs p T := by
  unfold initialH rawInitialH
  simp only [ho.le, ho.abs, ho.cmin_eq, ho.cmax_eq, decide_eq_true_eq]

theorem OrderedOps.hmaxEff_nonneg {o : Ops K} (ho : OrderedOps o) (p : RosParams K) (T : K)
    (hT : 0 < T) (hmax : 0 ≤ p.hmax) : 0 ≤ hmaxEff o p T := by
  rw [ho.hmaxEff_eq]; split
  · exact le_of_lt hT
  · exact le_min (le_of_lt hT) hmax

theorem OrderedOps.hmaxEff_le {o : Ops K} (ho : OrderedOps o) (p : RosParams K) (T : K) :
    hmaxEff o p T ≤ T := by
  rw [ho.hmaxEff_eq]; split
  · exact le_refl _
  · exact min_le_left _ _

theorem rawInitialH_nonneg (o : Ops K) (cs : Consts K) (p : RosParams K) (T : K) :
    0 ≤ rawInitialH o cs p T :=
  le_min (le_max_of_le_left (abs_nonneg _)) (abs_nonneg _)

/-- with non-negative parameters the absolute values disappear: the raw first step is
    `h_start'` clamped into `[h_min, h_max']` (as `min (max h_min h_start') h_max'`) -/
theorem OrderedOps.rawInitialH_eq_clamp {o : Ops K} (ho : OrderedOps o) (cs : Consts K)
    (p : RosParams K) (T : K) (hT : 0 < T) (hmin : 0 ≤ p.hmin) (hmax : 0 ≤ p.hmax)
    (hstart : 0 ≤ p.hstart) :
    rawInitialH o cs p T = min (max p.hmin (hstartEff o cs p T)) (hmaxEff o p T) := by
  have h1 := ho.hmaxEff_nonneg p T hT hmax
  have h2 : 0 ≤ hstartEff o cs p T := by
    rw [ho.hstartEff_eq]; split
    · exact le_max_of_le_left hmin
    · exact le_min h1 hstart
  unfold rawInitialH
  rw [abs_of_nonneg hmin, abs_of_nonneg h1, abs_of_nonneg h2]

/-- the raw first step never exceeds `h_max' ≤ time_step` -/
theorem OrderedOps.rawInitialH_le {o : Ops K} (ho : OrderedOps o) (cs : Consts K)
    (p : RosParams K) (T : K) (hT : 0 < T) (hmax : 0 ≤ p.hmax) :
    rawInitialH o cs p T ≤ hmaxEff o p T ∧ rawInitialH o cs p T ≤ T := by
  have h1 := ho.hmaxEff_nonneg p T hT hmax
  have h : rawInitialH o cs p T ≤ hmaxEff o p T := by
    unfold rawInitialH; rw [abs_of_nonneg h1]; exact min_le_right _ _
  exact ⟨h, le_trans h (ho.hmaxEff_le p T)⟩

end InitOrdered
end Micm
