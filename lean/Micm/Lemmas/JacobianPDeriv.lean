/-
C02, link to Mathlib's polynomial derivative: the closed form `dMonomial` used in the Jacobian
theorems is the evaluation of `MvPolynomial.pderiv` applied to the rate rateMonomial.
-/
import Micm.Lemmas.Jacobian
import Mathlib.Algebra.MvPolynomial.PDeriv

namespace Micm
open MvPolynomial

variable {K : Type} [CommRing K]

/-- the rate rateMonomial `Π_{l ∈ rs} X_l` as a multivariate polynomial -/
noncomputable def monomialPoly (K : Type) [CommRing K] (rs : List Nat) : MvPolynomial Nat K :=
  (rs.map fun i => (X i : MvPolynomial Nat K)).prod

theorem eval_monomialPoly (y : Nat → K) (rs : List Nat) :
    eval y (monomialPoly K rs) = rateMonomial y rs := by
  unfold monomialPoly rateMonomial
  induction rs with
  | nil => simp
  | cons a l ih => simp [ih]

/-- `dMonomial y rs j` is the value at `y` of the formal partial derivative `∂/∂X_j` of the rate
    rateMonomial (Mathlib's `MvPolynomial.pderiv`) -/
theorem eval_pderiv_monomialPoly (y : Nat → K) (rs : List Nat) (j : Nat) :
    eval y (pderiv j (monomialPoly K rs)) = dMonomial y rs j := by
  rw [dMonomial_eq_leibniz]
  unfold monomialPoly
  induction rs with
  | nil => simp [dMonomialLeibniz]
  | cons a l ih =>
    rw [List.map_cons, List.prod_cons, Derivation.leibniz, dMonomialLeibniz, ← ih, pderiv_X]
    have hl : eval y ((l.map fun i => (X i : MvPolynomial Nat K)).prod) = (l.map y).prod := by
      have := eval_monomialPoly y l
      unfold monomialPoly rateMonomial at this
      exact this
    by_cases h : a = j
    · subst h
      simp [smul_eq_mul, hl]
      ring
    · simp [smul_eq_mul, h]

end Micm
