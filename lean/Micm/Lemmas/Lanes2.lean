/-
Lemmas for C13, second part (lane theorems for the Jacobian, Doolittle-LU and linear-solve kernels
of `Micm/Model/FlatKernels2.lean`): on the slots of one logical cell / block the flat kernels
(`jacVecGo`, `doolittleVecGroup`, `solveVecGroup`, for the standard layout run with one lane of
stride 1) compute exactly the per-cell kernels `jacGo`, `doolittleCell`, `solveCell`; all other
lanes / groups are framed out by address injectivity.  Core Lean only, no algebraic law on the carrier.

Method as in `Lanes.lean` (`View n p F f`: the small array `f` is what the flat array `F` holds at
`p 0 … p (n-1)`), with one more general step lemma, `View.lanes_step`: a lane loop
`for l < nc: F[off + t*L + l] := v F l` whose value for lane `m` is a function `w` of the view of
lane `m` is the single write `f[t] := w f` on the view (the value may read the array being written —
at other element ranks of the same lane — and any other array).
-/
import Micm.Model.FlatKernels2
import Micm.Lemmas.Lanes
namespace Micm

/-! ### sparse block storage (`Pattern.slot`, `Pattern.vectorSize` as functions of `L`, `nnz`) -/

/-- storage slot of element rank `k` of block `b`; `L = 0`: standard ordering, `L ≥ 1`: vector
    ordering with groups of `L` blocks -/
def slot (L nnz b k : Nat) : Nat :=
  if L = 0 then k + b * nnz else k * L + b % L + (b / L) * L * nnz

/-- size of the flat storage of `blocks` blocks -/
def vectorSize (L nnz blocks : Nat) : Nat :=
  if L = 0 then blocks * nnz else ((blocks + L - 1) / L) * L * nnz

theorem slot_pattern (p : Pattern) (b k : Nat) : p.slot b k = slot p.L p.nnz b k := rfl
theorem vectorSize_pattern (p : Pattern) (blocks : Nat) :
    p.vectorSize blocks = vectorSize p.L p.nnz blocks := rfl

/-- logical block `b` of a flat sparse block matrix -/
def sparseRow {α : Type} [OfNat α 0] (L nnz : Nat) (data : Array α) (b : Nat) : Array α :=
  ((List.range nnz).map fun k => rd data (slot L nnz b k)).toArray

theorem slot_row (nnz b : Nat) : slot 0 nnz b = fun k => b * nnz + k * 1 + 0 := by
  funext k; simp only [slot, if_true]; omega

theorem slot_vec (L nnz b : Nat) (hL : L ≠ 0) :
    slot L nnz b = fun k => b / L * (L * nnz) + k * L + b % L := by
  funext k; simp only [slot, hL, if_false]; rw [Nat.mul_assoc]; omega

/-- the kernels' address of lane `l` of group `g` is the slot of block `g * L + l` -/
theorem slot_vec_lane (L nnz g l k : Nat) (hL : L ≠ 0) (hl : l < L) :
    slot L nnz (g * L + l) k = g * (L * nnz) + k * L + l := by
  rw [slot_vec L nnz _ hL]; simp only [mul_add_div hl, mul_add_mod hl]

theorem slot_lt' {L nnz blocks b k : Nat} (hb : b < blocks) (hk : k < nnz) :
    slot L nnz b k < vectorSize L nnz blocks := by
  unfold slot vectorSize
  by_cases hL : L = 0
  · simp only [hL, if_true]
    rw [Nat.add_comm]
    exact mul_add_lt hb hk
  · simp only [hL, if_false]
    have hL' : 0 < L := Nat.pos_of_ne_zero hL
    have h1 : k * L + b % L < nnz * L := mul_add_lt hk (Nat.mod_lt _ hL')
    have h2 := mul_add_lt (div_lt_ceil hL' hb) h1
    have e1 : b / L * L * nnz = b / L * (nnz * L) := by ac_rfl
    have e2 : (blocks + L - 1) / L * L * nnz = (blocks + L - 1) / L * (nnz * L) := by ac_rfl
    rw [e1, e2]
    omega

theorem slot_inj' {L nnz b k b' k' : Nat} (hk : k < nnz) (hk' : k' < nnz)
    (h : slot L nnz b k = slot L nnz b' k') : b = b' ∧ k = k' := by
  unfold slot at h
  by_cases hL : L = 0
  · simp only [hL, if_true] at h
    have h' : b * nnz + k = b' * nnz + k' := by omega
    exact mul_add_inj hk hk' h'
  · simp only [hL, if_false] at h
    have hL' : 0 < L := Nat.pos_of_ne_zero hL
    have h1 : k * L + b % L < nnz * L := mul_add_lt hk (Nat.mod_lt _ hL')
    have h1' : k' * L + b' % L < nnz * L := mul_add_lt hk' (Nat.mod_lt _ hL')
    have e1 : b / L * L * nnz = b / L * (nnz * L) := by ac_rfl
    have e2 : b' / L * L * nnz = b' / L * (nnz * L) := by ac_rfl
    rw [e1, e2] at h
    have h' : b / L * (nnz * L) + (k * L + b % L) = b' / L * (nnz * L) + (k' * L + b' % L) := by omega
    obtain ⟨h2, h3⟩ := mul_add_inj h1 h1' h'
    obtain ⟨h4, h5⟩ := mul_add_inj (Nat.mod_lt _ hL') (Nat.mod_lt _ hL') h3
    refine ⟨?_, h4⟩
    rw [← Nat.div_add_mod b L, ← Nat.div_add_mod b' L, h2, h5]

theorem addr_row1 (r n c : Nat) : (DenseShape.mk r n 0).addr c = fun j => c * n + j * 1 + 0 := by
  funext j; simp [DenseShape.addr]

/-! ### generic facts -/
section Generic
variable {α : Type} [OfNat α 0]

theorem rd_sparseRow (L nnz : Nat) (F : Array α) (b k : Nat) (hk : k < nnz) :
    rd (sparseRow L nnz F b) k = rd F (slot L nnz b k) := by
  unfold sparseRow; exact rd_map_range _ _ _ hk

theorem sparseRow_size (L nnz : Nat) (F : Array α) (b : Nat) : (sparseRow L nnz F b).size = nnz := by
  simp [sparseRow]

/-- a logical block is a view of the flat storage -/
theorem View.initSparse (L nnz blocks : Nat) (F : Array α) (hF : F.size = vectorSize L nnz blocks)
    (b : Nat) (hb : b < blocks) : View nnz (slot L nnz b) F (sparseRow L nnz F b) :=
  ⟨sparseRow_size L nnz F b, fun j hj => by rw [hF]; exact slot_lt' hb hj,
    fun j hj => (rd_sparseRow L nnz F b j hj).symm⟩

theorem View.sparseRow_eq {L nnz b : Nat} {F f : Array α} (h : View nnz (slot L nnz b) F f) :
    sparseRow L nnz F b = f := by
  apply Array.ext
  · rw [sparseRow_size, h.size]
  · intro i h1 h2
    rw [← rd_eq_getElem _ _ h1, ← rd_eq_getElem _ _ h2,
      rd_sparseRow L nnz F b i (by rw [sparseRow_size] at h1; exact h1), h.val i (by rw [← h.size]; exact h2)]

/-- a fold of related steps keeps the relation -/
theorem foldl_rel {σ τ β : Type} (P : σ → τ → Prop) (S : σ → β → σ) (s : τ → β → τ) (bs : List β)
    (h : ∀ b ∈ bs, ∀ X x, P X x → P (S X b) (s x b)) {X : σ} {x : τ} (h0 : P X x) :
    P (bs.foldl S X) (bs.foldl s x) := by
  induction bs generalizing X x with
  | nil => exact h0
  | cons b bs ih =>
    rw [List.foldl_cons, List.foldl_cons]
    exact ih (fun c hc => h c (List.mem_cons_of_mem _ hc)) (h b List.mem_cons_self X x h0)

/-- a fold of steps keeping an invariant keeps it -/
theorem foldl_inv {σ β : Type} (Q : σ → Prop) (S : σ → β → σ) (bs : List β)
    (h : ∀ b ∈ bs, ∀ X, Q X → Q (S X b)) {X : σ} (h0 : Q X) : Q (bs.foldl S X) := by
  induction bs generalizing X with
  | nil => exact h0
  | cons b bs ih =>
    rw [List.foldl_cons]
    exact ih (fun c hc => h c (List.mem_cons_of_mem _ hc)) (h b List.mem_cons_self X h0)

/-- cell / group loop over any state: one iteration transforms the small state by `G`, the others
    keep the relation (`View.foldl_cells` for an arbitrary relation, e.g. a pair of views) -/
theorem foldl_cells_rel {σ τ : Type} (P : σ → τ → Prop) (T : σ → Nat → σ) (G : τ → τ) (c : Nat)
    (cs : List Nat) (hnd : cs.Nodup) (hc : c ∈ cs)
    (hframe : ∀ c' ∈ cs, c' ≠ c → ∀ S s, P S s → P (T S c') s)
    (hhit : ∀ S s, P S s → P (T S c) (G s)) {S : σ} {s : τ} (h : P S s) :
    P (cs.foldl T S) (G s) := by
  have frames : ∀ (l : List Nat), (∀ c' ∈ l, c' ∈ cs ∧ c' ≠ c) → ∀ S s, P S s → P (l.foldl T S) s := by
    intro l
    induction l with
    | nil => intro _ S s h; exact h
    | cons a l ih =>
      intro hl S s h
      rw [List.foldl_cons]
      exact ih (fun c' hc' => hl c' (List.mem_cons_of_mem _ hc')) _ _
        (hframe a (hl a List.mem_cons_self).1 (hl a List.mem_cons_self).2 S s h)
  have key : ∀ (l : List Nat), l.Nodup → c ∈ l → (∀ c' ∈ l, c' ∈ cs) → ∀ S s, P S s →
      P (l.foldl T S) (G s) := by
    intro l
    induction l with
    | nil => intro _ hc; cases hc
    | cons a l ih =>
      intro hnd hc hsub S s h
      rw [List.foldl_cons]
      have hnd' := List.nodup_cons.1 hnd
      by_cases e : a = c
      · subst e
        refine frames l (fun c' hc' => ⟨hsub c' (List.mem_cons_of_mem _ hc'), ?_⟩) _ _ (hhit S s h)
        intro e'
        exact hnd'.1 (e' ▸ hc')
      · have hc' : c ∈ l := by
          rcases List.mem_cons.1 hc with h' | h'
          · exact absurd h'.symm e
          · exact h'
        exact ih hnd'.2 hc' (fun c' hc'' => hsub c' (List.mem_cons_of_mem _ hc'')) _ _
          (hframe a (hsub a List.mem_cons_self) e S s h)
  exact key cs hnd hc (fun _ h => h) S s h

/-! ### lane loops -/

omit [OfNat α 0] in
theorem lanesDo_size (nc : Nat) (a : Nat → Nat) (v : Array α → Nat → α) (F : Array α) :
    (lanesDo nc (fun F l => wr F (a l) (v F l)) F).size = F.size :=
  foldl_wr_size a v _ F

theorem lanesDo_rd_miss (nc : Nat) (a : Nat → Nat) (v : Array α → Nat → α) (F : Array α) (x : Nat)
    (h : ∀ l, l < nc → a l ≠ x) : rd (lanesDo nc (fun F l => wr F (a l) (v F l)) F) x = rd F x :=
  foldl_wr_rd_of_not_mem a v _ F x (fun b hb => h b (List.mem_range.1 hb))

/-- a write at a view address is the write on the view -/
theorem View.wr_hit {n : Nat} {p : Nat → Nat} {F f : Array α} (h : View n p F f)
    (hinj : ∀ i j, i < n → j < n → p i = p j → i = j) (i : Nat) (hi : i < n) (a : α) :
    View n p (wr F (p i) a) (wr f i a) :=
  h.step i (fun _ => a) hi (wr_size _ _ _) (rd_wr_same _ _ _ (h.inb i hi))
    (fun _ hj hne => rd_wr_ne _ _ _ _ (fun e => hne (hinj _ _ hi hj e).symm))

/-- a write elsewhere keeps the view -/
theorem View.wr_miss {n : Nat} {p : Nat → Nat} {F f : Array α} (h : View n p F f) (x : Nat)
    (hx : ∀ j, j < n → p j ≠ x) (a : α) : View n p (wr F x a) f :=
  h.frame (wr_size _ _ _) (fun j hj => rd_wr_ne _ _ _ _ (fun e => hx j hj e.symm))

theorem lane_addr_inj {L m off : Nat} (hm : m < L) (i j : Nat)
    (e : (fun j => off + j * L + m) i = (fun j => off + j * L + m) j) : i = j := by
  simp only at e
  exact (mul_add_inj hm hm (by omega : i * L + m = j * L + m)).1

/-- lanes other than `m` keep the view of lane `m` -/
theorem View.lanes_list_miss {n : Nat} (L m off : Nat) (hm : m < L) (t : Nat)
    (v : Array α → Nat → α) (ls : List Nat) (hls : ∀ l ∈ ls, l < L) (hnot : m ∉ ls) {F f : Array α}
    (h : View n (fun j => off + j * L + m) F f) :
    View n (fun j => off + j * L + m) (ls.foldl (fun F l => wr F (off + t * L + l) (v F l)) F) f := by
  induction ls generalizing F with
  | nil => exact h
  | cons l ls ih =>
    rw [List.foldl_cons]
    refine ih (fun b hb => hls b (List.mem_cons_of_mem _ hb))
      (fun hb => hnot (List.mem_cons_of_mem _ hb)) (h.wr_miss _ ?_ _)
    intro j' _ e
    have hl := hls l List.mem_cons_self
    have e' : j' * L + m = t * L + l := by omega
    exact hnot ((mul_add_inj hm hl e').2 ▸ List.mem_cons_self)

theorem View.lanes_list_hit {n : Nat} (L m off : Nat) (hm : m < L) (t : Nat) (ht : t < n)
    (v : Array α → Nat → α) (w : Array α → α)
    (hvw : ∀ F f, View n (fun j => off + j * L + m) F f → v F m = w f)
    (ls : List Nat) (hls : ∀ l ∈ ls, l < L) (hnd : ls.Nodup) (hmem : m ∈ ls) {F f : Array α}
    (h : View n (fun j => off + j * L + m) F f) :
    View n (fun j => off + j * L + m) (ls.foldl (fun F l => wr F (off + t * L + l) (v F l)) F)
      (wr f t (w f)) := by
  induction ls generalizing F with
  | nil => cases hmem
  | cons l ls ih =>
    rw [List.foldl_cons]
    have hnd' := List.nodup_cons.1 hnd
    by_cases e : l = m
    · subst e
      refine View.lanes_list_miss L l off hm t v ls (fun b hb => hls b (List.mem_cons_of_mem _ hb))
        hnd'.1 ?_
      rw [hvw F f h]
      exact h.wr_hit (fun i j _ _ e => lane_addr_inj hm i j e) t ht (w f)
    · have hmem' : m ∈ ls := by
        rcases List.mem_cons.1 hmem with h' | h'
        · exact absurd h'.symm e
        · exact h'
      refine ih (fun b hb => hls b (List.mem_cons_of_mem _ hb)) hnd'.2 hmem' (h.wr_miss _ ?_ _)
      intro j _ e'
      have hl := hls l List.mem_cons_self
      have e'' : j * L + m = t * L + l := by omega
      exact e (mul_add_inj hm hl e'').2.symm

/-- **the lane step**: `for l < nc: F[off + t*L + l] := v F l`, seen through lane `m < nc ≤ L`,
    is `f[t] := w f` when `v · m` is the function `w` of the view -/
theorem View.lanes_step {n : Nat} (L nc m off : Nat) (hm : m < nc) (hnc : nc ≤ L) (t : Nat) (ht : t < n)
    (v : Array α → Nat → α) (w : Array α → α)
    (hvw : ∀ F f, View n (fun j => off + j * L + m) F f → v F m = w f)
    {F f : Array α} (h : View n (fun j => off + j * L + m) F f) :
    View n (fun j => off + j * L + m) (lanesDo nc (fun F l => wr F (off + t * L + l) (v F l)) F)
      (wr f t (w f)) :=
  View.lanes_list_hit L m off (by omega) t ht v w hvw (List.range nc)
    (fun l hl => by have := List.mem_range.1 hl; omega) List.nodup_range (List.mem_range.2 hm) h

end Generic

/-! ### SubtractJacobianTerms -/
section Jac
variable {α : Type} [OfNat α 0] [Add α] [Sub α] [Mul α]

/-- one `ProcessInfo` entry of a group, seen through lane `m`, is the per-cell entry step with
    `d = K[lane m, pid] * Π y[dep]` -/
theorem jacVecEntry_view (L m : Nat) (hm : m < L) (K Y y : Array α) (offK offY offJ nS nnz : Nat)
    (hY : ∀ j, j < nS → rd Y (offY + j * L + m) = rd y j)
    (pid : Nat) (deps : List Nat) (hd : ∀ i ∈ deps, i < nS)
    (flatA : List Nat) (flatB : List (Nat × α)) (hA : ∀ f ∈ flatA, f < nnz) (hB : ∀ b ∈ flatB, b.1 < nnz)
    (J j : Array α) (h : View nnz (fun q => offJ + q * L + m) J j) :
    View nnz (fun q => offJ + q * L + m) (jacVecEntry L K Y offK offY offJ pid deps flatA flatB J)
      (flatB.foldl (fun J p => wr J p.1 (rd J p.1 - p.2 *
          deps.foldl (fun acc i => acc * rd y i) (rd K (offK + pid * L + m))))
        (flatA.foldl (fun J id => wr J id (rd J id +
          deps.foldl (fun acc i => acc * rd y i) (rd K (offK + pid * L + m)))) j)) := by
  unfold jacVecEntry
  simp only [lanesDo]
  have e : rd ((List.range L).map fun l => rd K (offK + pid * L + l)).toArray m
      = rd K (offK + pid * L + m) := rd_map_range _ _ _ hm
  rw [← foldl_rate_congr Y y (fun i => offY + i * L + m) nS hY deps hd, ← e,
    ← rate_fold L Y offY deps _ m hm (by simp)]
  exact View.foldl_lanes L m offJ hm (fun b : Nat × α => b.1) (fun b l x => x - b.2 * rd _ l) flatB hB
    (View.foldl_lanes L m offJ hm (fun i : Nat => i) (fun _ l x => x + rd _ l) flatA hA h)

theorem jacVecEntry_size (L : Nat) (K Y : Array α) (offK offY offJ pid : Nat) (deps flatA : List Nat)
    (flatB : List (Nat × α)) (J : Array α) :
    (jacVecEntry L K Y offK offY offJ pid deps flatA flatB J).size = J.size := by
  unfold jacVecEntry
  simp only
  rw [foldl_size_of_step _ (fun F b => lanesDo_size L _ _ F),
    foldl_size_of_step _ (fun F b => lanesDo_size L _ _ F)]

/-- an entry of a group writes only `offJ + f * L + l`, `f` a flat id, `l < L` -/
theorem jacVecEntry_frame (L : Nat) (K Y : Array α) (offK offY offJ pid nnz : Nat) (deps flatA : List Nat)
    (flatB : List (Nat × α)) (J : Array α) (hA : ∀ f ∈ flatA, f < nnz) (hB : ∀ b ∈ flatB, b.1 < nnz)
    (x : Nat) (hx : ∀ i l, i < nnz → l < L → offJ + i * L + l ≠ x) :
    rd (jacVecEntry L K Y offK offY offJ pid deps flatA flatB J) x = rd J x := by
  unfold jacVecEntry
  simp only
  rw [foldl_rd_of_step, foldl_rd_of_step]
  · intro F i hi
    exact lanesDo_rd_miss L _ _ F x (fun l hl => hx i l (hA i hi) hl)
  · intro F b hb
    exact lanesDo_rd_miss L _ _ F x (fun l hl => hx b.1 l (hB b hb) hl)

/-- one group of the Jacobian kernel, seen through lane `m`, is `jacGo` on that lane's cell -/
theorem jacVecGo_view (L m : Nat) (hm : m < L) (K Y k y : Array α) (offK offY offJ nR nS nnz : Nat)
    (hK : ∀ q, q < nR → rd K (offK + q * L + m) = rd k q)
    (hY : ∀ j, j < nS → rd Y (offY + j * L + m) = rd y j)
    (infos : List ProcessInfo) (jr : List Nat) (jy : List α) (flat : List Nat)
    (hpid : ∀ info ∈ infos, info.pid < nR) (hjr : ∀ i ∈ jr, i < nS) (hflat : ∀ f ∈ flat, f < nnz)
    (J j : Array α) (h : View nnz (fun q => offJ + q * L + m) J j) :
    View nnz (fun q => offJ + q * L + m) (jacVecGo L K Y offK offY offJ infos jr jy flat J)
      (jacGo k y infos jr jy flat j) := by
  induction infos generalizing jr jy flat J j with
  | nil => simpa [jacVecGo, jacGo] using h
  | cons info infos ih =>
    simp only [jacVecGo, jacGo]
    apply ih
    · exact fun i hi => hpid i (List.mem_cons_of_mem _ hi)
    · exact fun i hi => hjr i (List.mem_of_mem_drop hi)
    · exact fun i hi => hflat i (List.mem_of_mem_drop (List.mem_of_mem_drop hi))
    · have hv := jacVecEntry_view L m hm K Y y offK offY offJ nS nnz hY info.pid (jr.take info.nDep)
        (fun i hi => hjr i (List.mem_of_mem_take hi)) (flat.take (info.nDep + 1))
        (((flat.drop (info.nDep + 1)).take info.nProd).zip (jy.take info.nProd))
        (fun i hi => hflat i (List.mem_of_mem_take hi))
        (zip_take_fst_lt (fun i hi => hflat i (List.mem_of_mem_drop hi))) J j h
      rw [hK _ (hpid info List.mem_cons_self)] at hv
      exact hv

theorem jacVecGo_size (L : Nat) (K Y : Array α) (offK offY offJ : Nat) (infos : List ProcessInfo)
    (jr : List Nat) (jy : List α) (flat : List Nat) (J : Array α) :
    (jacVecGo L K Y offK offY offJ infos jr jy flat J).size = J.size := by
  induction infos generalizing jr jy flat J with
  | nil => simp [jacVecGo]
  | cons info infos ih =>
    simp only [jacVecGo]
    rw [ih, jacVecEntry_size]

theorem jacVecGo_frame (L : Nat) (K Y : Array α) (offK offY offJ nnz : Nat) (infos : List ProcessInfo)
    (jr : List Nat) (jy : List α) (flat : List Nat) (J : Array α) (hflat : ∀ f ∈ flat, f < nnz)
    (x : Nat) (hx : ∀ i l, i < nnz → l < L → offJ + i * L + l ≠ x) :
    rd (jacVecGo L K Y offK offY offJ infos jr jy flat J) x = rd J x := by
  induction infos generalizing jr jy flat J with
  | nil => simp [jacVecGo]
  | cons info infos ih =>
    simp only [jacVecGo]
    rw [ih _ _ _ _ (fun i hi => hflat i (List.mem_of_mem_drop (List.mem_of_mem_drop hi))),
      jacVecEntry_frame L K Y offK offY offJ info.pid nnz _ _ _ _
        (fun i hi => hflat i (List.mem_of_mem_take hi))
        (zip_take_fst_lt (fun i hi => hflat i (List.mem_of_mem_drop hi))) x hx]

theorem subtractJacobianFlat_size (t : PSTables α) (flat : List Nat) (L nCells nRxn nSpecies nnz : Nat)
    (K Y J : Array α) : (t.subtractJacobianFlat flat L nCells nRxn nSpecies nnz K Y J).size = J.size := by
  unfold PSTables.subtractJacobianFlat PSTables.subtractJacobianFlatRow PSTables.subtractJacobianFlatVec
  split
  · exact foldl_size_of_step _ (fun F _ => jacVecGo_size 1 K Y _ _ _ _ _ _ _ F) _ J
  · exact foldl_size_of_step _ (fun F _ => jacVecGo_size L K Y _ _ _ _ _ _ _ F) _ J

/-- standard layout -/
theorem subtractJacobianFlatRow_cell (t : PSTables α) (flat : List Nat) (nCells nRxn nSpecies nnz : Nat)
    (K Y J : Array α) (hJ : J.size = vectorSize 0 nnz nCells)
    (hjr : ∀ i ∈ t.jReactIds, i < nSpecies) (hpid : ∀ info ∈ t.jInfo, info.pid < nRxn)
    (hflat : ∀ f ∈ flat, f < nnz) (c : Nat) (hc : c < nCells) :
    sparseRow 0 nnz (t.subtractJacobianFlatRow flat nCells nRxn nSpecies nnz K Y J) c
      = t.subtractJacobianCell flat (flatRow ⟨nCells, nRxn, 0⟩ K c) (flatRow ⟨nCells, nSpecies, 0⟩ Y c)
          (sparseRow 0 nnz J c) := by
  have V0 := View.initSparse 0 nnz nCells J hJ c hc
  apply View.sparseRow_eq
  unfold PSTables.subtractJacobianFlatRow PSTables.subtractJacobianCell
  simp only [slot_row] at V0 ⊢
  have hK : ∀ q, q < nRxn → rd K (c * nRxn + q * 1 + 0) = rd (flatRow ⟨nCells, nRxn, 0⟩ K c) q := by
    intro q hq
    rw [rd_flatRow _ _ _ _ hq, addr_row1]
  have hY : ∀ j, j < nSpecies → rd Y (c * nSpecies + j * 1 + 0) = rd (flatRow ⟨nCells, nSpecies, 0⟩ Y c) j := by
    intro j hj
    rw [rd_flatRow _ _ _ _ hj, addr_row1]
  refine View.foldl_cells
    (fun J c' => jacVecGo 1 K Y (c' * nRxn) (c' * nSpecies) (c' * nnz) t.jInfo t.jReactIds t.jYields flat J)
    (fun j => jacGo (flatRow ⟨nCells, nRxn, 0⟩ K c) (flatRow ⟨nCells, nSpecies, 0⟩ Y c) t.jInfo t.jReactIds
      t.jYields flat j)
    c (List.range nCells) List.nodup_range (List.mem_range.2 hc) ?_ ?_ V0
  · intro c' _ hne F f h
    refine h.frame (jacVecGo_size ..) (fun j hj => ?_)
    refine jacVecGo_frame 1 K Y _ _ _ nnz _ _ _ _ F hflat _ ?_
    intro i l hi hl e
    have e' : c' * nnz + i = c * nnz + j := by omega
    exact hne (mul_add_inj hi hj e').1
  · intro F f h
    exact jacVecGo_view 1 0 (by omega) K Y _ _ (c * nRxn) (c * nSpecies) (c * nnz) nRxn nSpecies nnz hK hY
      _ _ _ _ hpid hjr hflat F f h

/-- vector layout: every `L ≥ 1`, every cell count (partial last group included) -/
theorem subtractJacobianFlatVec_cell (t : PSTables α) (flat : List Nat) (L nCells nRxn nSpecies nnz : Nat)
    (hL : L ≠ 0) (K Y J : Array α) (hJ : J.size = vectorSize L nnz nCells)
    (hjr : ∀ i ∈ t.jReactIds, i < nSpecies) (hpid : ∀ info ∈ t.jInfo, info.pid < nRxn)
    (hflat : ∀ f ∈ flat, f < nnz) (c : Nat) (hc : c < nCells) :
    sparseRow L nnz (t.subtractJacobianFlatVec flat L nCells nRxn nSpecies nnz K Y J) c
      = t.subtractJacobianCell flat (flatRow ⟨nCells, nRxn, L⟩ K c) (flatRow ⟨nCells, nSpecies, L⟩ Y c)
          (sparseRow L nnz J c) := by
  have hL' : 0 < L := Nat.pos_of_ne_zero hL
  have hm : c % L < L := Nat.mod_lt c hL'
  have V0 := View.initSparse L nnz nCells J hJ c hc
  apply View.sparseRow_eq
  unfold PSTables.subtractJacobianFlatVec PSTables.subtractJacobianCell
  simp only [slot_vec _ _ _ hL] at V0 ⊢
  have hK : ∀ q, q < nRxn →
      rd K (c / L * (L * nRxn) + q * L + c % L) = rd (flatRow ⟨nCells, nRxn, L⟩ K c) q := by
    intro q hq
    rw [rd_flatRow _ _ _ _ hq, addr_vec _ _ _ _ hL]
  have hY : ∀ j, j < nSpecies →
      rd Y (c / L * (L * nSpecies) + j * L + c % L) = rd (flatRow ⟨nCells, nSpecies, L⟩ Y c) j := by
    intro j hj
    rw [rd_flatRow _ _ _ _ hj, addr_vec _ _ _ _ hL]
  refine View.foldl_cells
    (fun J g => jacVecGo L K Y (g * (L * nRxn)) (g * (L * nSpecies)) (g * (L * nnz)) t.jInfo t.jReactIds
      t.jYields flat J)
    (fun j => jacGo (flatRow ⟨nCells, nRxn, L⟩ K c) (flatRow ⟨nCells, nSpecies, L⟩ Y c) t.jInfo t.jReactIds
      t.jYields flat j)
    (c / L) (List.range ((nCells + L - 1) / L)) List.nodup_range
    (List.mem_range.2 (div_lt_ceil hL' hc)) ?_ ?_ V0
  · intro g _ hne F f h
    refine h.frame (jacVecGo_size ..) (fun j hj => ?_)
    refine jacVecGo_frame L K Y _ _ _ nnz _ _ _ _ F hflat _ ?_
    intro i l hi hl e
    rw [vec_addr_eq, vec_addr_eq] at e
    exact hne (mul_add_inj hi hj (mul_add_inj hl hm e).1).1
  · intro F f h
    exact jacVecGo_view L (c % L) hm K Y _ _ (c / L * (L * nRxn)) (c / L * (L * nSpecies))
      (c / L * (L * nnz)) nRxn nSpecies nnz hK hY _ _ _ _ hpid hjr hflat F f h

end Jac

/-! ### LuDecompositionDoolittle::Decompose -/

/-- element ranks of a table entry are inside the patterns: source `a < nnzA`, target `t < nnzT`,
    pairs `(< nnzL, < nnzU)` -/
def DEntry.InRange (e : DEntry) (nnzA nnzT nnzL nnzU : Nat) : Prop :=
  (∀ a, e.a = some a → a < nnzA) ∧ e.t < nnzT ∧ ∀ p ∈ e.pairs, p.1 < nnzL ∧ p.2 < nnzU

/-- all element ranks of one row of the Doolittle tables are inside the patterns of A, L, U -/
def DRow.InRange (r : DRow) (nnzA nnzL nnzU : Nat) : Prop :=
  (∀ e ∈ r.u, e.InRange nnzA nnzU nnzL nnzU) ∧ r.lii < nnzL ∧
  (∀ e ∈ r.l, e.InRange nnzA nnzL nnzL nnzU) ∧ r.uii < nnzU

instance (e : DEntry) (nnzA nnzT nnzL nnzU : Nat) : Decidable (e.InRange nnzA nnzT nnzL nnzU) := by
  unfold DEntry.InRange
  cases h : e.a with
  | none => exact decidable_of_iff (e.t < nnzT ∧ ∀ p ∈ e.pairs, p.1 < nnzL ∧ p.2 < nnzU) (by simp)
  | some a => exact decidable_of_iff (a < nnzA ∧ e.t < nnzT ∧ ∀ p ∈ e.pairs, p.1 < nnzL ∧ p.2 < nnzU) (by simp)

instance (r : DRow) (nnzA nnzL nnzU : Nat) : Decidable (r.InRange nnzA nnzL nnzU) := by
  unfold DRow.InRange; infer_instance

section Doolittle
variable {α : Type} [OfNat α 0] [OfNat α 1] [Sub α] [Mul α] [Div α]

/-- the `U` loop of one row of `doolittleVecGroup` (`Lo` is read only) -/
def dooUFlat (L nc : Nat) (A : Array α) (offA offL offU : Nat) (Lo : Array α) (es : List DEntry)
    (U : Array α) : Array α :=
  es.foldl (fun U e =>
    let U := lanesDo nc (fun U l => wr U (offU + e.t * L + l) (match e.a with | some a => rd A (offA + a * L + l) | none => 0)) U
    e.pairs.foldl (fun U p => lanesDo nc (fun U l =>
      wr U (offU + e.t * L + l) (rd U (offU + e.t * L + l) - rd Lo (offL + p.1 * L + l) * rd U (offU + p.2 * L + l))) U) U) U

/-- the `L` loop of one row of `doolittleVecGroup` (`U` is read only) -/
def dooLFlat (L nc : Nat) (A : Array α) (offA offL offU : Nat) (U : Array α) (uii : Nat)
    (es : List DEntry) (Lo : Array α) : Array α :=
  es.foldl (fun Lo e =>
    let Lo := lanesDo nc (fun Lo l => wr Lo (offL + e.t * L + l) (match e.a with | some a => rd A (offA + a * L + l) | none => 0)) Lo
    let Lo := e.pairs.foldl (fun Lo p => lanesDo nc (fun Lo l =>
      wr Lo (offL + e.t * L + l) (rd Lo (offL + e.t * L + l) - rd Lo (offL + p.1 * L + l) * rd U (offU + p.2 * L + l))) Lo) Lo
    lanesDo nc (fun Lo l => wr Lo (offL + e.t * L + l) (rd Lo (offL + e.t * L + l) / rd U (offU + uii * L + l))) Lo) Lo

/-- the `U` loop of one row of `doolittleCell` -/
def dooUCell (A Lo : Array α) (es : List DEntry) (U : Array α) : Array α :=
  es.foldl (fun U e =>
    let U := wr U e.t (match e.a with | some a => rd A a | none => 0)
    e.pairs.foldl (fun U p => wr U e.t (rd U e.t - rd Lo p.1 * rd U p.2)) U) U

/-- the `L` loop of one row of `doolittleCell` -/
def dooLCell (A U : Array α) (uii : Nat) (es : List DEntry) (Lo : Array α) : Array α :=
  es.foldl (fun L e =>
    let L := wr L e.t (match e.a with | some a => rd A a | none => 0)
    let L := e.pairs.foldl (fun L p => wr L e.t (rd L e.t - rd L p.1 * rd U p.2)) L
    wr L e.t (rd L e.t / rd U uii)) Lo

theorem doolittleVecGroup_eq (L nc : Nat) (rows : List DRow) (A : Array α) (offA offL offU : Nat)
    (LU : Array α × Array α) :
    doolittleVecGroup L nc rows A offA offL offU LU =
      rows.foldl (fun (LU : Array α × Array α) r =>
        (dooLFlat L nc A offA offL offU (dooUFlat L nc A offA offL offU LU.1 r.u LU.2) r.uii r.l
            (lanesDo nc (fun Lo l => wr Lo (offL + r.lii * L + l) 1) LU.1),
          dooUFlat L nc A offA offL offU LU.1 r.u LU.2)) LU := rfl

theorem doolittleCell_eq_split (rows : List DRow) (A : Array α) (LU : Array α × Array α) :
    doolittleCell rows A LU =
      rows.foldl (fun (LU : Array α × Array α) r =>
        (dooLCell A (dooUCell A LU.1 r.u LU.2) r.uii r.l (wr LU.1 r.lii 1), dooUCell A LU.1 r.u LU.2)) LU := rfl

omit [OfNat α 1] [Div α] in
theorem dooUFlat_view (L nc m : Nat) (hm : m < nc) (hnc : nc ≤ L) (nnzA nnzL nnzU : Nat)
    (A a : Array α) (offA offL offU : Nat) (hA : ∀ k, k < nnzA → rd A (offA + k * L + m) = rd a k)
    (Lo lo : Array α) (hLo : ∀ k, k < nnzL → rd Lo (offL + k * L + m) = rd lo k)
    (es : List DEntry) (hes : ∀ e ∈ es, e.InRange nnzA nnzU nnzL nnzU) (U u : Array α)
    (h : View nnzU (fun j => offU + j * L + m) U u) :
    View nnzU (fun j => offU + j * L + m) (dooUFlat L nc A offA offL offU Lo es U) (dooUCell a lo es u) := by
  unfold dooUFlat dooUCell
  refine foldl_rel (View nnzU (fun j => offU + j * L + m)) _ _ es ?_ h
  intro e he X x hX
  obtain ⟨hea, het, hep⟩ := hes e he
  simp only
  refine foldl_rel (View nnzU (fun j => offU + j * L + m)) _ _ e.pairs ?_ ?_
  · intro p hp X x hX
    refine View.lanes_step L nc m offU hm hnc e.t het
      (fun U l => rd U (offU + e.t * L + l) - rd Lo (offL + p.1 * L + l) * rd U (offU + p.2 * L + l))
      (fun u => rd u e.t - rd lo p.1 * rd u p.2) ?_ hX
    intro F f hF
    rw [hF.val e.t het, hF.val p.2 (hep p hp).2, hLo p.1 (hep p hp).1]
  · refine View.lanes_step L nc m offU hm hnc e.t het _ (fun _ => _) ?_ hX
    intro F f _
    cases hea' : e.a with
    | none => rfl
    | some a0 => exact hA a0 (hea a0 hea')

omit [OfNat α 1] in
theorem dooLFlat_view (L nc m : Nat) (hm : m < nc) (hnc : nc ≤ L) (nnzA nnzL nnzU : Nat)
    (A a : Array α) (offA offL offU : Nat) (hA : ∀ k, k < nnzA → rd A (offA + k * L + m) = rd a k)
    (U u : Array α) (hU : ∀ k, k < nnzU → rd U (offU + k * L + m) = rd u k) (uii : Nat) (huii : uii < nnzU)
    (es : List DEntry) (hes : ∀ e ∈ es, e.InRange nnzA nnzL nnzL nnzU) (Lo lo : Array α)
    (h : View nnzL (fun j => offL + j * L + m) Lo lo) :
    View nnzL (fun j => offL + j * L + m) (dooLFlat L nc A offA offL offU U uii es Lo)
      (dooLCell a u uii es lo) := by
  unfold dooLFlat dooLCell
  refine foldl_rel (View nnzL (fun j => offL + j * L + m)) _ _ es ?_ h
  intro e he X x hX
  obtain ⟨hea, het, hep⟩ := hes e he
  simp only
  refine View.lanes_step L nc m offL hm hnc e.t het
    (fun Lo l => rd Lo (offL + e.t * L + l) / rd U (offU + uii * L + l))
    (fun lo => rd lo e.t / rd u uii) ?_ ?_
  · intro F f hF
    rw [hF.val e.t het, hU uii huii]
  refine foldl_rel (View nnzL (fun j => offL + j * L + m)) _ _ e.pairs ?_ ?_
  · intro p hp X x hX
    refine View.lanes_step L nc m offL hm hnc e.t het
      (fun Lo l => rd Lo (offL + e.t * L + l) - rd Lo (offL + p.1 * L + l) * rd U (offU + p.2 * L + l))
      (fun lo => rd lo e.t - rd lo p.1 * rd u p.2) ?_ hX
    intro F f hF
    rw [hF.val e.t het, hF.val p.1 (hep p hp).1, hU p.2 (hep p hp).2]
  · refine View.lanes_step L nc m offL hm hnc e.t het _ (fun _ => _) ?_ hX
    intro F f _
    cases hea' : e.a with
    | none => rfl
    | some a0 => exact hA a0 (hea a0 hea')

omit [OfNat α 1] [Div α] in
/-- size and frame of the `U` loop: it writes only `offU + k * L + l`, `k < nnzU`, `l < nc` -/
theorem dooUFlat_frame (L nc : Nat) (nnzA nnzL nnzU : Nat) (A : Array α) (offA offL offU : Nat)
    (Lo : Array α) (es : List DEntry) (hes : ∀ e ∈ es, e.InRange nnzA nnzU nnzL nnzU) (U : Array α) :
    (dooUFlat L nc A offA offL offU Lo es U).size = U.size ∧
    ∀ x, (∀ k l, k < nnzU → l < nc → offU + k * L + l ≠ x) →
      rd (dooUFlat L nc A offA offL offU Lo es U) x = rd U x := by
  unfold dooUFlat
  refine foldl_inv (fun X : Array α => X.size = U.size ∧
    ∀ x, (∀ k l, k < nnzU → l < nc → offU + k * L + l ≠ x) → rd X x = rd U x) _ es ?_ ⟨rfl, fun _ _ => rfl⟩
  intro e he X hX
  obtain ⟨_, het, _⟩ := hes e he
  simp only
  refine foldl_inv (fun X : Array α => X.size = U.size ∧
    ∀ x, (∀ k l, k < nnzU → l < nc → offU + k * L + l ≠ x) → rd X x = rd U x) _ e.pairs ?_ ?_
  · intro p _ X hX
    refine ⟨by rw [lanesDo_size]; exact hX.1, fun x hx => ?_⟩
    rw [lanesDo_rd_miss nc _ _ X x (fun l hl => hx e.t l het hl)]
    exact hX.2 x hx
  · refine ⟨by rw [lanesDo_size]; exact hX.1, fun x hx => ?_⟩
    rw [lanesDo_rd_miss nc _ _ X x (fun l hl => hx e.t l het hl)]
    exact hX.2 x hx

omit [OfNat α 1] in
theorem dooLFlat_frame (L nc : Nat) (nnzA nnzL nnzU : Nat) (A : Array α) (offA offL offU : Nat)
    (U : Array α) (uii : Nat) (es : List DEntry) (hes : ∀ e ∈ es, e.InRange nnzA nnzL nnzL nnzU)
    (Lo : Array α) :
    (dooLFlat L nc A offA offL offU U uii es Lo).size = Lo.size ∧
    ∀ x, (∀ k l, k < nnzL → l < nc → offL + k * L + l ≠ x) →
      rd (dooLFlat L nc A offA offL offU U uii es Lo) x = rd Lo x := by
  unfold dooLFlat
  refine foldl_inv (fun X : Array α => X.size = Lo.size ∧
    ∀ x, (∀ k l, k < nnzL → l < nc → offL + k * L + l ≠ x) → rd X x = rd Lo x) _ es ?_ ⟨rfl, fun _ _ => rfl⟩
  intro e he X hX
  obtain ⟨_, het, _⟩ := hes e he
  simp only
  have step : ∀ (v : Array α → Nat → α) (X : Array α), (X.size = Lo.size ∧
      ∀ x, (∀ k l, k < nnzL → l < nc → offL + k * L + l ≠ x) → rd X x = rd Lo x) →
      ((lanesDo nc (fun Lo l => wr Lo (offL + e.t * L + l) (v Lo l)) X).size = Lo.size ∧
      ∀ x, (∀ k l, k < nnzL → l < nc → offL + k * L + l ≠ x) →
        rd (lanesDo nc (fun Lo l => wr Lo (offL + e.t * L + l) (v Lo l)) X) x = rd Lo x) := by
    intro v X hX
    refine ⟨by rw [lanesDo_size]; exact hX.1, fun x hx => ?_⟩
    rw [lanesDo_rd_miss nc _ _ X x (fun l hl => hx e.t l het hl)]
    exact hX.2 x hx
  refine step _ _ ?_
  refine foldl_inv (fun X : Array α => X.size = Lo.size ∧
    ∀ x, (∀ k l, k < nnzL → l < nc → offL + k * L + l ≠ x) → rd X x = rd Lo x) _ e.pairs ?_ ?_
  · intro p _ X hX
    exact step _ X hX
  · exact step _ X hX

/-- one group of the LU kernel, seen through lane `m < nc`, is `doolittleCell` on that lane's block -/
theorem doolittleVecGroup_view (L nc m : Nat) (hm : m < nc) (hnc : nc ≤ L) (rows : List DRow)
    (nnzA nnzL nnzU : Nat) (hrows : ∀ r ∈ rows, r.InRange nnzA nnzL nnzU)
    (A a : Array α) (offA offL offU : Nat) (hA : ∀ k, k < nnzA → rd A (offA + k * L + m) = rd a k)
    (S s : Array α × Array α)
    (h : View nnzL (fun j => offL + j * L + m) S.1 s.1 ∧ View nnzU (fun j => offU + j * L + m) S.2 s.2) :
    View nnzL (fun j => offL + j * L + m) (doolittleVecGroup L nc rows A offA offL offU S).1
        (doolittleCell rows a s).1 ∧
    View nnzU (fun j => offU + j * L + m) (doolittleVecGroup L nc rows A offA offL offU S).2
        (doolittleCell rows a s).2 := by
  rw [doolittleVecGroup_eq, doolittleCell_eq_split]
  refine foldl_rel (fun (S s : Array α × Array α) =>
    View nnzL (fun j => offL + j * L + m) S.1 s.1 ∧ View nnzU (fun j => offU + j * L + m) S.2 s.2)
    _ _ rows ?_ h
  intro r hr X x ⟨hXL, hXU⟩
  obtain ⟨hu, hlii, hl, huii⟩ := hrows r hr
  have hU' := dooUFlat_view L nc m hm hnc nnzA nnzL nnzU A a offA offL offU hA X.1 x.1
    (fun k hk => hXL.val k hk) r.u hu X.2 x.2 hXU
  refine ⟨?_, hU'⟩
  refine dooLFlat_view L nc m hm hnc nnzA nnzL nnzU A a offA offL offU hA _ _
    (fun k hk => hU'.val k hk) r.uii huii r.l hl _ _ ?_
  exact View.lanes_step L nc m offL hm hnc r.lii hlii (fun _ _ => 1) (fun _ => 1) (fun _ _ _ => rfl) hXL

/-- size and frame of one group: only `off + k * L + l`, `k < nnz`, `l < nc`, are written -/
theorem doolittleVecGroup_frame (L nc : Nat) (rows : List DRow) (nnzA nnzL nnzU : Nat)
    (hrows : ∀ r ∈ rows, r.InRange nnzA nnzL nnzU) (A : Array α) (offA offL offU : Nat)
    (S : Array α × Array α) :
    ((doolittleVecGroup L nc rows A offA offL offU S).1.size = S.1.size ∧
      ∀ x, (∀ k l, k < nnzL → l < nc → offL + k * L + l ≠ x) →
        rd (doolittleVecGroup L nc rows A offA offL offU S).1 x = rd S.1 x) ∧
    ((doolittleVecGroup L nc rows A offA offL offU S).2.size = S.2.size ∧
      ∀ x, (∀ k l, k < nnzU → l < nc → offU + k * L + l ≠ x) →
        rd (doolittleVecGroup L nc rows A offA offL offU S).2 x = rd S.2 x) := by
  rw [doolittleVecGroup_eq]
  refine foldl_inv (fun X : Array α × Array α =>
    (X.1.size = S.1.size ∧ ∀ x, (∀ k l, k < nnzL → l < nc → offL + k * L + l ≠ x) → rd X.1 x = rd S.1 x) ∧
    (X.2.size = S.2.size ∧ ∀ x, (∀ k l, k < nnzU → l < nc → offU + k * L + l ≠ x) → rd X.2 x = rd S.2 x))
    _ rows ?_ ⟨⟨rfl, fun _ _ => rfl⟩, ⟨rfl, fun _ _ => rfl⟩⟩
  intro r hr X ⟨hXL, hXU⟩
  obtain ⟨hu, hlii, hl, _⟩ := hrows r hr
  have fU := dooUFlat_frame L nc nnzA nnzL nnzU A offA offL offU X.1 r.u hu X.2
  have fL := dooLFlat_frame L nc nnzA nnzL nnzU A offA offL offU
    (dooUFlat L nc A offA offL offU X.1 r.u X.2) r.uii r.l hl
    (lanesDo nc (fun Lo l => wr Lo (offL + r.lii * L + l) 1) X.1)
  refine ⟨⟨?_, fun x hx => ?_⟩, ⟨?_, fun x hx => ?_⟩⟩
  · show (dooLFlat _ _ _ _ _ _ _ _ _ _).size = _
    rw [fL.1, lanesDo_size nc _ (fun _ _ => (1 : α)), hXL.1]
  · show rd (dooLFlat _ _ _ _ _ _ _ _ _ _) x = _
    rw [fL.2 x hx, lanesDo_rd_miss nc _ (fun _ _ => (1 : α)) _ x (fun l hl' => hx r.lii l hlii hl'), hXL.2 x hx]
  · show (dooUFlat _ _ _ _ _ _ _ _ _).size = _
    rw [fU.1, hXU.1]
  · show rd (dooUFlat _ _ _ _ _ _ _ _ _) x = _
    rw [fU.2 x hx, hXU.2 x hx]

/-- frame of a group as preservation of a pair of views at addresses the group does not write -/
theorem doolittleVecGroup_keeps (L nc : Nat) (rows : List DRow) (nnzA nnzL nnzU : Nat)
    (hrows : ∀ r ∈ rows, r.InRange nnzA nnzL nnzU) (A : Array α) (offA offL offU : Nat)
    (pL pU : Nat → Nat)
    (hpL : ∀ j k l, j < nnzL → k < nnzL → l < nc → offL + k * L + l ≠ pL j)
    (hpU : ∀ j k l, j < nnzU → k < nnzU → l < nc → offU + k * L + l ≠ pU j)
    (S s : Array α × Array α) (h : View nnzL pL S.1 s.1 ∧ View nnzU pU S.2 s.2) :
    View nnzL pL (doolittleVecGroup L nc rows A offA offL offU S).1 s.1 ∧
    View nnzU pU (doolittleVecGroup L nc rows A offA offL offU S).2 s.2 := by
  obtain ⟨fL, fU⟩ := doolittleVecGroup_frame L nc rows nnzA nnzL nnzU hrows A offA offL offU S
  exact ⟨h.1.frame fL.1 (fun j hj => fL.2 _ (fun k l hk hl => hpL j k l hj hk hl)),
    h.2.frame fU.1 (fun j hj => fU.2 _ (fun k l hk hl => hpU j k l hj hk hl))⟩

/-- the flat LU, block by block: both layouts, every block count -/
theorem doolittleFlat_views (L blocks : Nat) (rows : List DRow) (nnzA nnzL nnzU : Nat)
    (hrows : ∀ r ∈ rows, r.InRange nnzA nnzL nnzU) (A Lo Up : Array α)
    (hLo : Lo.size = vectorSize L nnzL blocks) (hUp : Up.size = vectorSize L nnzU blocks)
    (b : Nat) (hb : b < blocks) :
    View nnzL (slot L nnzL b) (doolittleFlat L blocks rows nnzA nnzL nnzU A (Lo, Up)).1
      (doolittleCell rows (sparseRow L nnzA A b) (sparseRow L nnzL Lo b, sparseRow L nnzU Up b)).1 ∧
    View nnzU (slot L nnzU b) (doolittleFlat L blocks rows nnzA nnzL nnzU A (Lo, Up)).2
      (doolittleCell rows (sparseRow L nnzA A b) (sparseRow L nnzL Lo b, sparseRow L nnzU Up b)).2 := by
  have VL := View.initSparse L nnzL blocks Lo hLo b hb
  have VU := View.initSparse L nnzU blocks Up hUp b hb
  unfold doolittleFlat
  by_cases hL : L = 0
  · subst hL
    rw [if_pos rfl]
    simp only [slot_row] at VL VU ⊢
    have hA : ∀ k, k < nnzA → rd A (b * nnzA + k * 1 + 0) = rd (sparseRow 0 nnzA A b) k := by
      intro k hk
      rw [rd_sparseRow _ _ _ _ _ hk, slot_row]
    refine foldl_cells_rel
      (fun (S s : Array α × Array α) => View nnzL (fun k => b * nnzL + k * 1 + 0) S.1 s.1 ∧
        View nnzU (fun k => b * nnzU + k * 1 + 0) S.2 s.2)
      (fun S b' => doolittleVecGroup 1 1 rows A (b' * nnzA) (b' * nnzL) (b' * nnzU) S)
      (fun s => doolittleCell rows (sparseRow 0 nnzA A b) s)
      b (List.range blocks) List.nodup_range (List.mem_range.2 hb) ?_ ?_
      (S := (Lo, Up)) (s := (sparseRow 0 nnzL Lo b, sparseRow 0 nnzU Up b)) ⟨VL, VU⟩
    · intro b' _ hne S s h
      refine doolittleVecGroup_keeps 1 1 rows nnzA nnzL nnzU hrows A _ _ _ _ _ ?_ ?_ S s h
      · intro j k l hj hk hl e
        exact hne (mul_add_inj hk hj (by omega : b' * nnzL + k = b * nnzL + j)).1
      · intro j k l hj hk hl e
        exact hne (mul_add_inj hk hj (by omega : b' * nnzU + k = b * nnzU + j)).1
    · intro S s h
      exact doolittleVecGroup_view 1 1 0 (by omega) (by omega) rows nnzA nnzL nnzU hrows A _ _ _ _ hA S s h
  · rw [if_neg hL]
    have hL' : 0 < L := Nat.pos_of_ne_zero hL
    have hm : b % L < L := Nat.mod_lt b hL'
    have hmc : b % L < min L (blocks - b / L * L) := by
      have := Nat.div_add_mod b L
      have e : L * (b / L) = b / L * L := Nat.mul_comm _ _
      omega
    simp only [slot_vec _ _ _ hL] at VL VU ⊢
    have hA : ∀ k, k < nnzA →
        rd A (b / L * (L * nnzA) + k * L + b % L) = rd (sparseRow L nnzA A b) k := by
      intro k hk
      rw [rd_sparseRow _ _ _ _ _ hk, slot_vec _ _ _ hL]
    refine foldl_cells_rel
      (fun (S s : Array α × Array α) => View nnzL (fun k => b / L * (L * nnzL) + k * L + b % L) S.1 s.1 ∧
        View nnzU (fun k => b / L * (L * nnzU) + k * L + b % L) S.2 s.2)
      (fun S g => doolittleVecGroup L (min L (blocks - g * L)) rows A (g * (L * nnzA)) (g * (L * nnzL))
        (g * (L * nnzU)) S)
      (fun s => doolittleCell rows (sparseRow L nnzA A b) s)
      (b / L) (List.range ((blocks + L - 1) / L)) List.nodup_range
      (List.mem_range.2 (div_lt_ceil hL' hb)) ?_ ?_
      (S := (Lo, Up)) (s := (sparseRow L nnzL Lo b, sparseRow L nnzU Up b)) ⟨VL, VU⟩
    · intro g _ hne S s h
      refine doolittleVecGroup_keeps L _ rows nnzA nnzL nnzU hrows A _ _ _ _ _ ?_ ?_ S s h
      · intro j k l hj hk hl e
        rw [vec_addr_eq, vec_addr_eq] at e
        exact hne (mul_add_inj hk hj (mul_add_inj (by omega) hm e).1).1
      · intro j k l hj hk hl e
        rw [vec_addr_eq, vec_addr_eq] at e
        exact hne (mul_add_inj hk hj (mul_add_inj (by omega) hm e).1).1
    · intro S s h
      exact doolittleVecGroup_view L _ (b % L) hmc (Nat.min_le_left _ _) rows nnzA nnzL nnzU hrows A _ _ _ _
        hA S s h

/-- the flat LU keeps the sizes and writes only slots of real blocks (padding lanes untouched) -/
theorem doolittleFlat_frame (L blocks : Nat) (rows : List DRow) (nnzA nnzL nnzU : Nat)
    (hrows : ∀ r ∈ rows, r.InRange nnzA nnzL nnzU) (A : Array α) (LU : Array α × Array α) :
    ((doolittleFlat L blocks rows nnzA nnzL nnzU A LU).1.size = LU.1.size ∧
      ∀ x, (∀ b k, b < blocks → k < nnzL → slot L nnzL b k ≠ x) →
        rd (doolittleFlat L blocks rows nnzA nnzL nnzU A LU).1 x = rd LU.1 x) ∧
    ((doolittleFlat L blocks rows nnzA nnzL nnzU A LU).2.size = LU.2.size ∧
      ∀ x, (∀ b k, b < blocks → k < nnzU → slot L nnzU b k ≠ x) →
        rd (doolittleFlat L blocks rows nnzA nnzL nnzU A LU).2 x = rd LU.2 x) := by
  unfold doolittleFlat
  by_cases hL : L = 0
  · subst hL
    rw [if_pos rfl]
    refine foldl_inv (fun X : Array α × Array α =>
      (X.1.size = LU.1.size ∧ ∀ x, (∀ b k, b < blocks → k < nnzL → slot 0 nnzL b k ≠ x) → rd X.1 x = rd LU.1 x) ∧
      (X.2.size = LU.2.size ∧ ∀ x, (∀ b k, b < blocks → k < nnzU → slot 0 nnzU b k ≠ x) → rd X.2 x = rd LU.2 x))
      _ _ ?_ ⟨⟨rfl, fun _ _ => rfl⟩, ⟨rfl, fun _ _ => rfl⟩⟩
    intro b hb X ⟨hXL, hXU⟩
    have hb' := List.mem_range.1 hb
    obtain ⟨fL, fU⟩ := doolittleVecGroup_frame 1 1 rows nnzA nnzL nnzU hrows A (b * nnzA) (b * nnzL) (b * nnzU) X
    refine ⟨⟨fL.1.trans hXL.1, fun x hx => ?_⟩, ⟨fU.1.trans hXU.1, fun x hx => ?_⟩⟩
    · rw [fL.2 x (fun k l hk hl e => hx b k hb' hk (by simp only [slot_row]; omega)), hXL.2 x hx]
    · rw [fU.2 x (fun k l hk hl e => hx b k hb' hk (by simp only [slot_row]; omega)), hXU.2 x hx]
  · rw [if_neg hL]
    refine foldl_inv (fun X : Array α × Array α =>
      (X.1.size = LU.1.size ∧ ∀ x, (∀ b k, b < blocks → k < nnzL → slot L nnzL b k ≠ x) → rd X.1 x = rd LU.1 x) ∧
      (X.2.size = LU.2.size ∧ ∀ x, (∀ b k, b < blocks → k < nnzU → slot L nnzU b k ≠ x) → rd X.2 x = rd LU.2 x))
      _ _ ?_ ⟨⟨rfl, fun _ _ => rfl⟩, ⟨rfl, fun _ _ => rfl⟩⟩
    intro g _ X ⟨hXL, hXU⟩
    obtain ⟨fL, fU⟩ := doolittleVecGroup_frame L (min L (blocks - g * L)) rows nnzA nnzL nnzU hrows A
      (g * (L * nnzA)) (g * (L * nnzL)) (g * (L * nnzU)) X
    refine ⟨⟨fL.1.trans hXL.1, fun x hx => ?_⟩, ⟨fU.1.trans hXU.1, fun x hx => ?_⟩⟩
    · rw [fL.2 x (fun k l hk hl e => hx (g * L + l) k (by omega) hk
        (by rw [slot_vec_lane L nnzL g l k hL (by omega)]; exact e)), hXL.2 x hx]
    · rw [fU.2 x (fun k l hk hl e => hx (g * L + l) k (by omega) hk
        (by rw [slot_vec_lane L nnzU g l k hL (by omega)]; exact e)), hXU.2 x hx]

end Doolittle

/-! ### LinearSolver::Solve -/

/-- element ranks of a substitution row are inside the pattern (`< nnz`), its columns `< n` -/
def SubRow.InRange (r : SubRow) (nnz n : Nat) : Prop :=
  r.diag < nnz ∧ ∀ p ∈ r.pairs, p.1 < nnz ∧ p.2 < n

instance (r : SubRow) (nnz n : Nat) : Decidable (r.InRange nnz n) := by
  unfold SubRow.InRange; infer_instance

section Solve
variable {α : Type} [OfNat α 0] [Sub α] [Mul α] [Div α]

/-- one row of a substitution pass of `solveVecGroup` (row index `i`, matrix `M` = L or U) -/
def subRowFlat (L : Nat) (M : Array α) (offX offM : Nat) (r : SubRow) (i : Nat) (x : Array α) : Array α :=
  lanesDo L (fun x l => wr x (offX + i * L + l) (rd x (offX + i * L + l) / rd M (offM + r.diag * L + l)))
    (r.pairs.foldl (fun x p => lanesDo L (fun x l =>
      wr x (offX + i * L + l) (rd x (offX + i * L + l) - rd M (offM + p.1 * L + l) * rd x (offX + p.2 * L + l))) x) x)

/-- one row of a substitution pass of `solveCell` -/
def subRowCell (M : Array α) (r : SubRow) (i : Nat) (x : Array α) : Array α :=
  wr (r.pairs.foldl (fun x p => wr x i (rd x i - rd M p.1 * rd x p.2)) x) i
    (rd (r.pairs.foldl (fun x p => wr x i (rd x i - rd M p.1 * rd x p.2)) x) i / rd M r.diag)

def subPassFlat (L : Nat) (M : Array α) (offX offM : Nat) (next : Nat → Nat) (rows : List SubRow)
    (s : Array α × Nat) : Array α × Nat :=
  rows.foldl (fun s r => (subRowFlat L M offX offM r s.2 s.1, next s.2)) s

def subPassCell (M : Array α) (next : Nat → Nat) (rows : List SubRow) (s : Array α × Nat) : Array α × Nat :=
  rows.foldl (fun s r => (subRowCell M r s.2 s.1, next s.2)) s

theorem solveVecGroup_eq (L n : Nat) (fw bw : List SubRow) (Lo Up : Array α) (offX offL offU : Nat)
    (x : Array α) :
    solveVecGroup L n fw bw Lo Up offX offL offU x =
      (subPassFlat L Up offX offU (fun i => if i = 0 then 0 else i - 1) bw
        ((subPassFlat L Lo offX offL (fun i => i + 1) fw (x, 0)).1, n - 1)).1 := rfl

theorem solveCell_eq_split (fw bw : List SubRow) (Lo Up x : Array α) :
    solveCell fw bw Lo Up x =
      (subPassCell Up (fun i => if i = 0 then 0 else i - 1) bw
        ((subPassCell Lo (fun i => i + 1) fw (x, 0)).1, (subPassCell Lo (fun i => i + 1) fw (x, 0)).1.size - 1)).1 := rfl

theorem subRowFlat_view (L m : Nat) (hm : m < L) (n nnz : Nat) (M mm : Array α) (offX offM : Nat)
    (hM : ∀ k, k < nnz → rd M (offM + k * L + m) = rd mm k) (r : SubRow) (hr : r.InRange nnz n)
    (i : Nat) (hi : i < n) (X x : Array α) (h : View n (fun j => offX + j * L + m) X x) :
    View n (fun j => offX + j * L + m) (subRowFlat L M offX offM r i X) (subRowCell mm r i x) := by
  unfold subRowFlat subRowCell
  refine View.lanes_step L L m offX hm (Nat.le_refl _) i hi
    (fun x l => rd x (offX + i * L + l) / rd M (offM + r.diag * L + l))
    (fun x => rd x i / rd mm r.diag) ?_ ?_
  · intro F f hF
    rw [hF.val i hi, hM r.diag hr.1]
  refine foldl_rel (View n (fun j => offX + j * L + m)) _ _ r.pairs ?_ h
  intro p hp X x hX
  refine View.lanes_step L L m offX hm (Nat.le_refl _) i hi
    (fun x l => rd x (offX + i * L + l) - rd M (offM + p.1 * L + l) * rd x (offX + p.2 * L + l))
    (fun x => rd x i - rd mm p.1 * rd x p.2) ?_ hX
  intro F f hF
  rw [hF.val i hi, hF.val p.2 (hr.2 p hp).2, hM p.1 (hr.2 p hp).1]

/-- a row writes only `offX + i * L + l`, `l < L` -/
theorem subRowFlat_frame (L : Nat) (M : Array α) (offX offM : Nat) (r : SubRow) (i : Nat) (X : Array α) :
    (subRowFlat L M offX offM r i X).size = X.size ∧
    ∀ x0, (∀ l, l < L → offX + i * L + l ≠ x0) → rd (subRowFlat L M offX offM r i X) x0 = rd X x0 := by
  unfold subRowFlat
  have hp : (r.pairs.foldl (fun x p => lanesDo L (fun x l =>
      wr x (offX + i * L + l) (rd x (offX + i * L + l) - rd M (offM + p.1 * L + l) * rd x (offX + p.2 * L + l))) x) X).size = X.size ∧
      ∀ x0, (∀ l, l < L → offX + i * L + l ≠ x0) → rd (r.pairs.foldl (fun x p => lanesDo L (fun x l =>
      wr x (offX + i * L + l) (rd x (offX + i * L + l) - rd M (offM + p.1 * L + l) * rd x (offX + p.2 * L + l))) x) X) x0 = rd X x0 := by
    refine foldl_inv (fun Z : Array α => Z.size = X.size ∧
      ∀ x0, (∀ l, l < L → offX + i * L + l ≠ x0) → rd Z x0 = rd X x0) _ r.pairs ?_ ⟨rfl, fun _ _ => rfl⟩
    intro p _ Z hZ
    refine ⟨by rw [lanesDo_size]; exact hZ.1, fun x0 hx => ?_⟩
    rw [lanesDo_rd_miss L _ _ Z x0 hx]
    exact hZ.2 x0 hx
  refine ⟨by rw [lanesDo_size]; exact hp.1, fun x0 hx => ?_⟩
  rw [lanesDo_rd_miss L _ _ _ x0 hx]
  exact hp.2 x0 hx

/-- a substitution pass of a group, seen through lane `m`, is the per-cell pass.  `Q i k` (index
    `i` with `k` rows still to do) keeps the row index inside `[0, n)`. -/
theorem subPassFlat_view (L m : Nat) (hm : m < L) (n nnz : Nat) (M mm : Array α) (offX offM : Nat)
    (hM : ∀ k, k < nnz → rd M (offM + k * L + m) = rd mm k) (next : Nat → Nat) (Q : Nat → Nat → Prop)
    (hQ : ∀ i k, Q i (k + 1) → i < n ∧ Q (next i) k)
    (rows : List SubRow) (hrows : ∀ r ∈ rows, r.InRange nnz n) (X x : Array α) (i : Nat)
    (hi : Q i rows.length) (h : View n (fun j => offX + j * L + m) X x) :
    View n (fun j => offX + j * L + m) (subPassFlat L M offX offM next rows (X, i)).1
      (subPassCell mm next rows (x, i)).1 := by
  induction rows generalizing X x i with
  | nil => exact h
  | cons r rows ih =>
    obtain ⟨hi', hq⟩ := hQ i rows.length hi
    show View n _ (subPassFlat L M offX offM next rows (subRowFlat L M offX offM r i X, next i)).1
      (subPassCell mm next rows (subRowCell mm r i x, next i)).1
    exact ih (fun r' hr' => hrows r' (List.mem_cons_of_mem _ hr')) _ _ _ hq
      (subRowFlat_view L m hm n nnz M mm offX offM hM r (hrows r List.mem_cons_self) i hi' X x h)

theorem subPassFlat_frame (L n : Nat) (M : Array α) (offX offM : Nat) (next : Nat → Nat)
    (Q : Nat → Nat → Prop) (hQ : ∀ i k, Q i (k + 1) → i < n ∧ Q (next i) k)
    (rows : List SubRow) (X : Array α) (i : Nat) (hi : Q i rows.length) :
    (subPassFlat L M offX offM next rows (X, i)).1.size = X.size ∧
    ∀ x0, (∀ j l, j < n → l < L → offX + j * L + l ≠ x0) →
      rd (subPassFlat L M offX offM next rows (X, i)).1 x0 = rd X x0 := by
  induction rows generalizing X i with
  | nil => exact ⟨rfl, fun _ _ => rfl⟩
  | cons r rows ih =>
    obtain ⟨hi', hq⟩ := hQ i rows.length hi
    show (subPassFlat L M offX offM next rows (subRowFlat L M offX offM r i X, next i)).1.size = X.size ∧
      ∀ x0, (∀ j l, j < n → l < L → offX + j * L + l ≠ x0) →
        rd (subPassFlat L M offX offM next rows (subRowFlat L M offX offM r i X, next i)).1 x0 = rd X x0
    have f1 := subRowFlat_frame L M offX offM r i X
    have f2 := ih (subRowFlat L M offX offM r i X) (next i) hq
    refine ⟨f2.1.trans f1.1, fun x0 hx => ?_⟩
    rw [f2.2 x0 hx, f1.2 x0 (fun l hl => hx i l hi' hl)]

/-- one group of the solve kernel, seen through lane `m`, is `solveCell` on that lane's cell -/
theorem solveVecGroup_view (L m : Nat) (hm : m < L) (n nnzL nnzU : Nat) (fw bw : List SubRow)
    (hfw : ∀ r ∈ fw, r.InRange nnzL n) (hbw : ∀ r ∈ bw, r.InRange nnzU n)
    (hfwl : fw.length ≤ n) (hbwl : bw.length ≤ n)
    (Lo Up lo up : Array α) (offX offL offU : Nat)
    (hLo : ∀ k, k < nnzL → rd Lo (offL + k * L + m) = rd lo k)
    (hUp : ∀ k, k < nnzU → rd Up (offU + k * L + m) = rd up k)
    (X x : Array α) (h : View n (fun j => offX + j * L + m) X x) :
    View n (fun j => offX + j * L + m) (solveVecGroup L n fw bw Lo Up offX offL offU X)
      (solveCell fw bw lo up x) := by
  rw [solveVecGroup_eq, solveCell_eq_split]
  have h1 := subPassFlat_view L m hm n nnzL Lo lo offX offL hLo (fun i => i + 1) (fun i k => i + k ≤ n)
    (fun i k hik => ⟨by omega, by omega⟩) fw hfw X x 0 (by omega) h
  rw [h1.size]
  exact subPassFlat_view L m hm n nnzU Up up offX offU hUp (fun i => if i = 0 then 0 else i - 1)
    (fun i k => k = 0 ∨ i < n)
    (fun i k hik => by
      have hi : i < n := by omega
      refine ⟨hi, Or.inr ?_⟩
      show (if i = 0 then 0 else i - 1) < n
      split <;> omega) bw hbw _ _ (n - 1) (by omega) h1

/-- a group keeps the size and writes only `offX + j * L + l`, `j < n`, `l < L` -/
theorem solveVecGroup_frame (L n : Nat) (fw bw : List SubRow) (hfwl : fw.length ≤ n) (hbwl : bw.length ≤ n)
    (Lo Up : Array α) (offX offL offU : Nat) (X : Array α) :
    (solveVecGroup L n fw bw Lo Up offX offL offU X).size = X.size ∧
    ∀ x0, (∀ j l, j < n → l < L → offX + j * L + l ≠ x0) →
      rd (solveVecGroup L n fw bw Lo Up offX offL offU X) x0 = rd X x0 := by
  rw [solveVecGroup_eq]
  have f1 := subPassFlat_frame L n Lo offX offL (fun i => i + 1) (fun i k => i + k ≤ n)
    (fun i k hik => ⟨by omega, by omega⟩) fw X 0 (by omega)
  have f2 := subPassFlat_frame L n Up offX offU (fun i => if i = 0 then 0 else i - 1)
    (fun i k => k = 0 ∨ i < n)
    (fun i k hik => by
      have hi : i < n := by omega
      refine ⟨hi, Or.inr ?_⟩
      show (if i = 0 then 0 else i - 1) < n
      split <;> omega) bw (subPassFlat L Lo offX offL (fun i => i + 1) fw (X, 0)).1 (n - 1) (by omega)
  refine ⟨f2.1.trans f1.1, fun x0 hx => ?_⟩
  rw [f2.2 x0 hx, f1.2 x0 hx]

theorem solveFlat_size (L nCells n : Nat) (fw bw : List SubRow) (hfwl : fw.length ≤ n) (hbwl : bw.length ≤ n)
    (nnzL nnzU : Nat) (Lo Up x : Array α) :
    (solveFlat L nCells n fw bw nnzL nnzU Lo Up x).size = x.size := by
  unfold solveFlat
  split
  · exact foldl_size_of_step _ (fun F _ => (solveVecGroup_frame 1 n fw bw hfwl hbwl Lo Up _ _ _ F).1) _ x
  · exact foldl_size_of_step _ (fun F _ => (solveVecGroup_frame L n fw bw hfwl hbwl Lo Up _ _ _ F).1) _ x

/-- the flat solve, cell by cell: both layouts, every cell count -/
theorem solveFlat_cell (L nCells n : Nat) (fw bw : List SubRow) (nnzL nnzU : Nat)
    (hfw : ∀ r ∈ fw, r.InRange nnzL n) (hbw : ∀ r ∈ bw, r.InRange nnzU n)
    (hfwl : fw.length ≤ n) (hbwl : bw.length ≤ n) (Lo Up x : Array α)
    (hx : x.size = (DenseShape.mk nCells n L).size) (c : Nat) (hc : c < nCells) :
    flatRow ⟨nCells, n, L⟩ (solveFlat L nCells n fw bw nnzL nnzU Lo Up x) c
      = solveCell fw bw (sparseRow L nnzL Lo c) (sparseRow L nnzU Up c) (flatRow ⟨nCells, n, L⟩ x c) := by
  have V0 := View.init ⟨nCells, n, L⟩ x hx c hc
  apply View.flatRow_eq
  unfold solveFlat
  by_cases hL : L = 0
  · subst hL
    rw [if_pos rfl]
    simp only [addr_row1] at V0 ⊢
    have hLo : ∀ k, k < nnzL → rd Lo (c * nnzL + k * 1 + 0) = rd (sparseRow 0 nnzL Lo c) k := by
      intro k hk
      rw [rd_sparseRow _ _ _ _ _ hk, slot_row]
    have hUp : ∀ k, k < nnzU → rd Up (c * nnzU + k * 1 + 0) = rd (sparseRow 0 nnzU Up c) k := by
      intro k hk
      rw [rd_sparseRow _ _ _ _ _ hk, slot_row]
    refine View.foldl_cells
      (fun x c' => solveVecGroup 1 n fw bw Lo Up (c' * n) (c' * nnzL) (c' * nnzU) x)
      (fun x => solveCell fw bw (sparseRow 0 nnzL Lo c) (sparseRow 0 nnzU Up c) x)
      c (List.range nCells) List.nodup_range (List.mem_range.2 hc) ?_ ?_ V0
    · intro c' _ hne F f h
      obtain ⟨fs, fr⟩ := solveVecGroup_frame 1 n fw bw hfwl hbwl Lo Up (c' * n) (c' * nnzL) (c' * nnzU) F
      refine h.frame fs (fun j hj => fr _ ?_)
      intro i l hi hl e
      exact hne (mul_add_inj hi hj (by omega : c' * n + i = c * n + j)).1
    · intro F f h
      exact solveVecGroup_view 1 0 (by omega) n nnzL nnzU fw bw hfw hbw hfwl hbwl Lo Up _ _ _ _ _ hLo hUp F f h
  · rw [if_neg hL]
    have hL' : 0 < L := Nat.pos_of_ne_zero hL
    have hm : c % L < L := Nat.mod_lt c hL'
    simp only [addr_vec _ _ _ _ hL] at V0 ⊢
    have hLo : ∀ k, k < nnzL →
        rd Lo (c / L * (L * nnzL) + k * L + c % L) = rd (sparseRow L nnzL Lo c) k := by
      intro k hk
      rw [rd_sparseRow _ _ _ _ _ hk, slot_vec _ _ _ hL]
    have hUp : ∀ k, k < nnzU →
        rd Up (c / L * (L * nnzU) + k * L + c % L) = rd (sparseRow L nnzU Up c) k := by
      intro k hk
      rw [rd_sparseRow _ _ _ _ _ hk, slot_vec _ _ _ hL]
    refine View.foldl_cells
      (fun x g => solveVecGroup L n fw bw Lo Up (g * (L * n)) (g * (L * nnzL)) (g * (L * nnzU)) x)
      (fun x => solveCell fw bw (sparseRow L nnzL Lo c) (sparseRow L nnzU Up c) x)
      (c / L) (List.range ((nCells + L - 1) / L)) List.nodup_range
      (List.mem_range.2 (div_lt_ceil hL' hc)) ?_ ?_ V0
    · intro g _ hne F f h
      obtain ⟨fs, fr⟩ := solveVecGroup_frame L n fw bw hfwl hbwl Lo Up (g * (L * n)) (g * (L * nnzL))
        (g * (L * nnzU)) F
      refine h.frame fs (fun j hj => fr _ ?_)
      intro i l hi hl e
      rw [vec_addr_eq, vec_addr_eq] at e
      exact hne (mul_add_inj hi hj (mul_add_inj hl hm e).1).1
    · intro F f h
      exact solveVecGroup_view L (c % L) hm n nnzL nnzU fw bw hfw hbw hfwl hbwl Lo Up _ _ _ _ _ hLo hUp F f h

end Solve

end Micm
