/-
Lemmas for C02 (Jacobian = minus the formal partial derivatives of the forcing).

Sections
  A  decode: `jacGo` / `flatIdsGo` replaying concatenated streams = fold over entries (any carrier)
  B  frame: ids that are not written are unchanged (any carrier)
  C  numeric value of the entry fold over a commutative ring
  D  formal derivative of a monomial listed with multiplicity
  E  the second constructor loop (`dependents`, `buildJacobianEntries`, `ProcessSet.build`)
  F  `nonZeroGo` / `setInsert` membership, pattern completeness
  G  assembling the sums
-/
import Micm.Model.ProcessSet
import Mathlib.Tactic.Ring
import Mathlib.Algebra.BigOperators.Group.List.Basic
import Mathlib.Algebra.Field.Basic

namespace Micm

/-! ## A. decode -/

section Decode
variable {α : Type}

/-- counts recorded in the `ProcessInfo` agree with the entry's lists -/
def JEntry.WF (e : JEntry α) : Prop :=
  e.info.nDep = e.deps.length ∧ e.info.nProd = e.prods.length

/-- flat ids of the `+=` writes of one entry: one per dependent reactant, then the diagonal -/
def entryAddIds (rk : Nat → Nat → Nat) (e : JEntry α) : List Nat :=
  e.deps.map (fun x => rk x e.info.ind) ++ [rk e.info.ind e.info.ind]

/-- flat ids of the `-=` writes of one entry: one per product -/
def entryProdIds (rk : Nat → Nat → Nat) (e : JEntry α) : List Nat :=
  e.prods.map (fun p => rk p.1 e.info.ind)

/-- `-=` writes of one entry paired with their yields -/
def entrySubIds (rk : Nat → Nat → Nat) (e : JEntry α) : List (Nat × α) :=
  e.prods.map (fun p => (rk p.1 e.info.ind, p.2))

/-- all flat ids pushed by `SetJacobianFlatIds` for one entry, in the code's order -/
def entryFlatIds (rk : Nat → Nat → Nat) (e : JEntry α) : List Nat :=
  entryAddIds rk e ++ entryProdIds rk e

theorem entryAddIds_length (rk : Nat → Nat → Nat) (e : JEntry α) :
    (entryAddIds rk e).length = e.deps.length + 1 := by simp [entryAddIds]

theorem entryProdIds_length (rk : Nat → Nat → Nat) (e : JEntry α) :
    (entryProdIds rk e).length = e.prods.length := by simp [entryProdIds]

theorem entryProdIds_zip (rk : Nat → Nat → Nat) (e : JEntry α) :
    (entryProdIds rk e).zip (e.prods.map (·.2)) = entrySubIds rk e := by
  unfold entryProdIds entrySubIds
  induction e.prods with
  | nil => rfl
  | cons a l ih => simp [ih]

variable [OfNat α 0] [Add α] [Sub α] [Mul α]

/-- the update `SubtractJacobianTerms` performs for one `ProcessInfo`, with its operands decoded:
    `d := k[pid] * Π_{x ∈ deps} y[x]` (left fold), `J[id] += d` for `id ∈ addIds`,
    `J[id] -= yield * d` for `(id, yield) ∈ subIds`. -/
def jacEntryStep (k y : Array α) (pid : Nat) (deps addIds : List Nat) (subIds : List (Nat × α))
    (J : Array α) : Array α :=
  let d := deps.foldl (fun acc i => acc * rd y i) (rd k pid)
  let J := addIds.foldl (fun J id => wr J id (rd J id + d)) J
  subIds.foldl (fun J p => wr J p.1 (rd J p.1 - p.2 * d)) J

/-- Generic decode (cursors never desynchronise): for *any* per-entry id lists `fa`, `fb` of the
    right lengths, `jacGo` on the concatenated streams is the fold of the single-entry update.
    Trailing garbage `r1 r2 r3` in the streams is ignored. -/
theorem jacGo_decode_gen (k y : Array α) (fa fb : JEntry α → List Nat) (es : List (JEntry α))
    (hwf : ∀ e ∈ es, e.WF)
    (hfa : ∀ e ∈ es, (fa e).length = e.deps.length + 1)
    (hfb : ∀ e ∈ es, (fb e).length = e.prods.length)
    (r1 : List Nat) (r2 : List α) (r3 : List Nat) (J : Array α) :
    jacGo k y (es.map (·.info)) (es.flatMap (·.deps) ++ r1)
        (es.flatMap (fun e => e.prods.map (·.2)) ++ r2)
        (es.flatMap (fun e => fa e ++ fb e) ++ r3) J
      = es.foldl (fun J e => jacEntryStep k y e.info.pid e.deps (fa e)
          ((fb e).zip (e.prods.map (·.2))) J) J := by
  induction es generalizing J with
  | nil => simp [jacGo]
  | cons e es ih =>
    obtain ⟨h1, h2⟩ := hwf e (by simp)
    have h3 := hfa e (by simp)
    have h4 := hfb e (by simp)
    have ih' := fun J => ih (fun e he => hwf e (by simp [he])) (fun e he => hfa e (by simp [he]))
      (fun e he => hfb e (by simp [he])) J
    simp only [List.map_cons, List.flatMap_cons, List.append_assoc, jacGo, List.foldl_cons]
    have e1 : ∀ r, List.take e.info.nDep (e.deps ++ r) = e.deps :=
      fun r => List.take_left' h1.symm
    have e2 : ∀ r, List.drop e.info.nDep (e.deps ++ r) = r := fun r => List.drop_left' h1.symm
    have e3 : ∀ r, List.take (e.info.nDep + 1) (fa e ++ r) = fa e :=
      fun r => List.take_left' (by omega)
    have e4 : ∀ r, List.drop (e.info.nDep + 1) (fa e ++ r) = r :=
      fun r => List.drop_left' (by omega)
    have e5 : ∀ r, List.take e.info.nProd (fb e ++ r) = fb e :=
      fun r => List.take_left' (by omega)
    have e6 : ∀ r, List.drop e.info.nProd (fb e ++ r) = r := fun r => List.drop_left' (by omega)
    have e7 : ∀ r, List.take e.info.nProd (e.prods.map (·.2) ++ r) = e.prods.map (·.2) :=
      fun r => List.take_left' (by simp; omega)
    have e8 : ∀ r, List.drop e.info.nProd (e.prods.map (·.2) ++ r) = r :=
      fun r => List.drop_left' (by simp; omega)
    simp only [e1, e2, e3, e4, e5, e6, e7, e8]
    rw [ih']
    rfl

/-- decode with the flat ids given by a total rank function -/
theorem jacGo_decode (k y : Array α) (rk : Nat → Nat → Nat) (es : List (JEntry α))
    (hwf : ∀ e ∈ es, e.WF) (r1 : List Nat) (r2 : List α) (r3 : List Nat) (J : Array α) :
    jacGo k y (es.map (·.info)) (es.flatMap (·.deps) ++ r1)
        (es.flatMap (fun e => e.prods.map (·.2)) ++ r2)
        (es.flatMap (entryFlatIds rk) ++ r3) J
      = es.foldl (fun J e => jacEntryStep k y e.info.pid e.deps (entryAddIds rk e)
          (entrySubIds rk e) J) J := by
  have h := jacGo_decode_gen k y (entryAddIds rk) (entryProdIds rk) es hwf
    (fun e _ => entryAddIds_length rk e) (fun e _ => entryProdIds_length rk e) r1 r2 r3 J
  simp only [entryProdIds_zip] at h
  exact h

/-! ### `flatIdsGo` -/

omit [OfNat α 0] [Add α] [Sub α] [Mul α] in
theorem mapM_except_ok_iff {ε β γ : Type} (f : β → Except ε γ) (g : β → γ)
    (hg : ∀ x v, f x = .ok v → g x = v) (l : List β) (r : List γ) :
    l.mapM f = .ok r ↔ (∀ x ∈ l, f x = .ok (g x)) ∧ r = l.map g := by
  induction l generalizing r with
  | nil => simp [pure, Except.pure, eq_comm]
  | cons a l ih =>
    rw [List.mapM_cons]
    cases hfa : f a with
    | error e => simp [bind, Except.bind, hfa]
    | ok v =>
      have hv := hg a v hfa
      cases hl : l.mapM f with
      | error e =>
        have := (ih (l.map g)).not.mp (by simp [hl])
        simp only [bind, Except.bind, reduceCtorEq, false_iff, not_and]
        intro h
        exfalso
        exact this ⟨fun x hx => h x (by simp [hx]), rfl⟩
      | ok bs =>
        obtain ⟨h1, h2⟩ := (ih bs).mp hl
        simp only [bind, Except.bind, pure, Except.pure, Except.ok.injEq, List.mem_cons,
          forall_eq_or_imp, List.map_cons, hfa, hv, true_and, h2]
        constructor
        · intro h; exact ⟨h1, h.symm⟩
        · intro h; exact h.2.symm

/-- the element is present and `Pattern.rk` is its rank -/
def Pattern.Present (p : Pattern) (r c : Nat) : Prop := p.rank r c = .ok (p.rk r c)

theorem Pattern.rank_ok_rk (p : Pattern) (r c v : Nat) (h : p.rank r c = .ok v) : p.rk r c = v := by
  simp [Pattern.rk, h]

theorem Pattern.present_of_ok (p : Pattern) (r c v : Nat) (h : p.rank r c = .ok v) :
    p.Present r c := by
  unfold Pattern.Present; rw [p.rank_ok_rk r c v h]; exact h

/-- every position an entry writes is a present element of the pattern -/
def JEntry.Present (p : Pattern) (e : JEntry α) : Prop :=
  (∀ x ∈ e.deps, p.Present x e.info.ind) ∧ p.Present e.info.ind e.info.ind ∧
    ∀ pr ∈ e.prods, p.Present pr.1 e.info.ind

omit [OfNat α 0] [Add α] [Sub α] [Mul α] in
/-- `SetJacobianFlatIds` succeeds iff every written position is present, and then the flat ids
    are the per-entry concatenation `dep ranks ++ [diag rank] ++ product ranks`. -/
theorem flatIdsGo_decode (p : Pattern) (es : List (JEntry α)) (hwf : ∀ e ∈ es, e.WF)
    (r1 r2 : List Nat) (flat : List Nat) :
    flatIdsGo p (es.map (·.info)) (es.flatMap (·.deps) ++ r1)
        (es.flatMap (fun e => e.prods.map (·.1)) ++ r2) = .ok flat
      ↔ (∀ e ∈ es, e.Present p) ∧ flat = es.flatMap (entryFlatIds p.rk) := by
  induction es generalizing flat with
  | nil => simp [flatIdsGo, eq_comm]
  | cons e es ih =>
    obtain ⟨h1, h2⟩ := hwf e (by simp)
    have ih' := fun flat => ih (fun e he => hwf e (by simp [he])) flat
    have e1 : ∀ r, List.take e.info.nDep (e.deps ++ r) = e.deps :=
      fun r => List.take_left' h1.symm
    have e2 : ∀ r, List.drop e.info.nDep (e.deps ++ r) = r := fun r => List.drop_left' h1.symm
    have e7 : ∀ r, List.take e.info.nProd (e.prods.map (·.1) ++ r) = e.prods.map (·.1) :=
      fun r => List.take_left' (by simp; omega)
    have e8 : ∀ r, List.drop e.info.nProd (e.prods.map (·.1) ++ r) = r :=
      fun r => List.drop_left' (by simp; omega)
    simp only [List.map_cons, List.flatMap_cons, List.append_assoc, flatIdsGo, e1, e2, e7, e8]
    have ma := fun r => mapM_except_ok_iff (fun r => p.rank r e.info.ind) (fun r => p.rk r e.info.ind)
      (fun x v h => p.rank_ok_rk x _ v h) e.deps r
    have mb := fun r => mapM_except_ok_iff (fun r => p.rank r e.info.ind) (fun r => p.rk r e.info.ind)
      (fun x v h => p.rank_ok_rk x _ v h) (e.prods.map (·.1)) r
    cases ha : List.mapM (fun r => p.rank r e.info.ind) e.deps with
    | error err =>
      simp only [bind, Except.bind, reduceCtorEq, false_iff, not_and, List.mem_cons, forall_eq_or_imp]
      intro h; exfalso
      have := ((ma (e.deps.map fun r => p.rk r e.info.ind)).mpr ⟨h.1.1, rfl⟩)
      rw [ha] at this; cases this
    | ok a =>
      obtain ⟨ha1, ha2⟩ := (ma a).mp ha
      cases hd : p.rank e.info.ind e.info.ind with
      | error err =>
        simp only [bind, Except.bind, reduceCtorEq, false_iff, not_and, List.mem_cons, forall_eq_or_imp]
        intro h; exfalso
        have := h.1.2.1
        unfold Pattern.Present at this
        rw [hd] at this; cases this
      | ok d =>
        have hd1 := p.present_of_ok _ _ _ hd
        have hd2 := p.rank_ok_rk _ _ _ hd
        cases hb : List.mapM (fun r => p.rank r e.info.ind) (e.prods.map (·.1)) with
        | error err =>
          simp only [bind, Except.bind, reduceCtorEq, false_iff, not_and, List.mem_cons, forall_eq_or_imp]
          intro h; exfalso
          have := ((mb ((e.prods.map (·.1)).map fun r => p.rk r e.info.ind)).mpr
            ⟨fun x hx => by
              obtain ⟨pr, hpr, rfl⟩ := List.mem_map.mp hx
              exact h.1.2.2 pr hpr, rfl⟩)
          rw [hb] at this; cases this
        | ok b =>
          obtain ⟨hb1, hb2⟩ := (mb b).mp hb
          have hpres : e.Present p := ⟨ha1, hd1, fun pr hpr => hb1 pr.1 (List.mem_map.mpr ⟨pr, hpr, rfl⟩)⟩
          cases hr : flatIdsGo p (es.map (·.info)) (es.flatMap (·.deps) ++ r1)
              (es.flatMap (fun e => e.prods.map (·.1)) ++ r2) with
          | error err =>
            have := (ih' (es.flatMap (entryFlatIds p.rk))).not.mp (by rw [hr]; simp)
            simp only [bind, Except.bind, reduceCtorEq, false_iff, not_and, List.mem_cons,
              forall_eq_or_imp]
            intro h; exfalso
            exact this ⟨h.2, rfl⟩
          | ok rest =>
            obtain ⟨hr1, hr2⟩ := (ih' rest).mp hr
            simp only [bind, Except.bind, pure, Except.pure, Except.ok.injEq, List.mem_cons,
              forall_eq_or_imp, hpres, true_and]
            subst ha2 hb2 hr2 hd2
            simp only [entryFlatIds, entryAddIds, entryProdIds, List.map_map, List.append_assoc,
              List.cons_append, List.nil_append, Function.comp_def]
            exact ⟨fun h => ⟨hr1, h.symm⟩, fun h => h.2.symm⟩

end Decode

/-! ## B. frame -/

section Frame
variable {α : Type} [OfNat α 0]

omit [OfNat α 0] in
theorem foldl_wr_size {β : Type} (h : Array α → β → α) (ix : β → Nat) (l : List β) (J : Array α) :
    (l.foldl (fun J b => wr J (ix b) (h J b)) J).size = J.size := by
  induction l generalizing J with
  | nil => rfl
  | cons a l ih => simp [List.foldl_cons, ih]

theorem foldl_wr_untouched {β : Type} (h : Array α → β → α) (ix : β → Nat) (l : List β)
    (J : Array α) (q : Nat) (hq : ∀ b ∈ l, ix b ≠ q) :
    rd (l.foldl (fun J b => wr J (ix b) (h J b)) J) q = rd J q := by
  induction l generalizing J with
  | nil => rfl
  | cons a l ih =>
    rw [List.foldl_cons, ih _ (fun b hb => hq b (by simp [hb])), rd_wr_ne _ _ _ _ (hq a (by simp))]

variable [Add α] [Sub α] [Mul α]

omit [Sub α] [Mul α] in
theorem addFold_size (d : α) (ids : List Nat) (J : Array α) :
    (ids.foldl (fun J id => wr J id (rd J id + d)) J).size = J.size :=
  foldl_wr_size (fun J id => rd J id + d) (fun b => b) ids J

omit [Add α] in
theorem subFold_size (d : α) (l : List (Nat × α)) (J : Array α) :
    (l.foldl (fun J p => wr J p.1 (rd J p.1 - p.2 * d)) J).size = J.size :=
  foldl_wr_size (fun J (p : Nat × α) => rd J p.1 - p.2 * d) (fun p => p.1) l J

omit [Sub α] [Mul α] in
theorem addFold_untouched (d : α) (ids : List Nat) (J : Array α) (q : Nat) (hq : q ∉ ids) :
    rd (ids.foldl (fun J id => wr J id (rd J id + d)) J) q = rd J q :=
  foldl_wr_untouched (fun J id => rd J id + d) (fun b => b) ids J q
    (fun _ hb hbq => hq (hbq ▸ hb))

omit [Add α] in
theorem subFold_untouched (d : α) (l : List (Nat × α)) (J : Array α) (q : Nat)
    (hq : ∀ p ∈ l, p.1 ≠ q) :
    rd (l.foldl (fun J p => wr J p.1 (rd J p.1 - p.2 * d)) J) q = rd J q :=
  foldl_wr_untouched (fun J (p : Nat × α) => rd J p.1 - p.2 * d) (fun p => p.1) l J q hq

theorem jacEntryStep_size (k y : Array α) (pid : Nat) (deps addIds : List Nat)
    (subIds : List (Nat × α)) (J : Array α) :
    (jacEntryStep k y pid deps addIds subIds J).size = J.size := by
  unfold jacEntryStep
  simp only []
  rw [subFold_size, addFold_size]

theorem jacGo_size (k y : Array α) (infos : List ProcessInfo) (jr : List Nat) (jy : List α)
    (flat : List Nat) (J : Array α) : (jacGo k y infos jr jy flat J).size = J.size := by
  induction infos generalizing jr jy flat J with
  | nil => simp [jacGo]
  | cons info infos ih =>
    simp only [jacGo]
    rw [ih, subFold_size, addFold_size]

/-- `SubtractJacobianTerms` writes only at the flat ids: any other slot is unchanged
    (no hypothesis on the streams at all). -/
theorem jacGo_untouched (k y : Array α) (infos : List ProcessInfo) (jr : List Nat) (jy : List α)
    (flat : List Nat) (J : Array α) (q : Nat) (hq : q ∉ flat) :
    rd (jacGo k y infos jr jy flat J) q = rd J q := by
  induction infos generalizing jr jy flat J with
  | nil => simp [jacGo]
  | cons info infos ih =>
    simp only [jacGo]
    rw [ih]
    · rw [subFold_untouched, addFold_untouched]
      · intro hb
        exact hq (List.mem_of_mem_take hb)
      · intro b hb hbq
        have := (List.of_mem_zip (a := b.1) (b := b.2) hb).1
        exact hq (hbq ▸ List.mem_of_mem_drop (List.mem_of_mem_take this))
    · intro h
      exact hq (List.mem_of_mem_drop (List.mem_of_mem_drop h))

end Frame

/-! ## C. numeric value of the entry fold -/

section Numeric
variable {K : Type} [CommRing K]

theorem foldl_mul_eq {β : Type} (f : β → K) (l : List β) (k : K) :
    l.foldl (fun acc i => acc * f i) k = k * (l.map f).prod := by
  induction l generalizing k with
  | nil => simp
  | cons a l ih => simp [List.foldl_cons, ih, mul_assoc]

theorem add_fold (ids : List Nat) (d : K) (J : Array K) (q : Nat) (hq : q < J.size) :
    rd (ids.foldl (fun J id => wr J id (rd J id + d)) J) q = rd J q + (ids.count q : K) * d := by
  induction ids generalizing J with
  | nil => simp
  | cons a l ih =>
    rw [List.foldl_cons, ih _ (by simpa using hq), List.count_cons, rd_wr]
    by_cases h : a = q
    · subst h; simp [hq]; ring
    · simp [h]

theorem sub_fold (l : List (Nat × K)) (d : K) (J : Array K) (q : Nat) (hq : q < J.size) :
    rd (l.foldl (fun J p => wr J p.1 (rd J p.1 - p.2 * d)) J) q
      = rd J q - ((l.filter (fun p => p.1 = q)).map (·.2)).sum * d := by
  induction l generalizing J with
  | nil => simp
  | cons a l ih =>
    rw [List.foldl_cons, ih _ (by simpa using hq), List.filter_cons, rd_wr]
    by_cases h : a.1 = q
    · simp [h, hq]; ring
    · simp [h]

/-- value of one slot after one entry -/
theorem jacEntryStep_rd (k y : Array K) (pid : Nat) (deps addIds : List Nat)
    (subIds : List (Nat × K)) (J : Array K) (q : Nat) (hq : q < J.size) :
    rd (jacEntryStep k y pid deps addIds subIds J) q
      = rd J q + ((addIds.count q : K) - ((subIds.filter (fun p => p.1 = q)).map (·.2)).sum)
          * (rd k pid * (deps.map (rd y)).prod) := by
  unfold jacEntryStep
  simp only []
  rw [sub_fold _ _ _ _ (by rw [addFold_size]; exact hq),
    add_fold _ _ _ _ hq, foldl_mul_eq]
  ring

/-- value of one slot after all entries -/
theorem jacEntries_rd (k y : Array K) {E : Type} (pid : E → Nat) (deps addIds : E → List Nat)
    (subIds : E → List (Nat × K)) (es : List E) (J : Array K) (q : Nat) (hq : q < J.size) :
    rd (es.foldl (fun J e => jacEntryStep k y (pid e) (deps e) (addIds e) (subIds e) J) J) q
      = rd J q + (es.map fun e =>
          (((addIds e).count q : K) - (((subIds e).filter (fun p => p.1 = q)).map (·.2)).sum)
            * (rd k (pid e) * ((deps e).map (rd y)).prod)).sum := by
  induction es generalizing J with
  | nil => simp
  | cons e es ih =>
    rw [List.foldl_cons, ih _ (by rw [jacEntryStep_size]; exact hq), jacEntryStep_rd _ _ _ _ _ _ _ _ hq,
      List.map_cons, List.sum_cons]
    ring

end Numeric

/-! ## D. formal derivative of a monomial listed with multiplicity -/

section Deriv
variable {K : Type} [CommRing K]

/-- the monomial `Π_{l ∈ rs} y l` (variables listed with multiplicity) -/
def monomial (y : Nat → K) (rs : List Nat) : K := (rs.map y).prod

/-- formal partial derivative of `monomial y rs` with respect to the variable `j`:
    `(multiplicity of j) * Π (rs with one occurrence of j removed)`. -/
def dMonomial (y : Nat → K) (rs : List Nat) (j : Nat) : K :=
  (rs.count j : K) * ((rs.erase j).map y).prod

/-- the derivative by the Leibniz rule, `∂(y_a · M) = (∂y_a)·M + y_a·∂M` with `∂y_a = [a = j]` -/
def dMonomialLeibniz (y : Nat → K) : List Nat → Nat → K
  | [], _ => 0
  | a :: l, j => (if a = j then 1 else 0) * (l.map y).prod + y a * dMonomialLeibniz y l j

/-- the derivative by the expanded product rule: sum over the positions `q` holding the variable
    `j` of the product of all the other factors -/
def dMonomialPos (y : Nat → K) (rs : List Nat) (j : Nat) : K :=
  (((List.range rs.length).filter (fun q => rs[q]? = some j)).map
    (fun q => ((rs.eraseIdx q).map y).prod)).sum

theorem dMonomial_eq_leibniz (y : Nat → K) (rs : List Nat) (j : Nat) :
    dMonomial y rs j = dMonomialLeibniz y rs j := by
  induction rs with
  | nil => simp [dMonomial, dMonomialLeibniz]
  | cons a l ih =>
    rw [dMonomialLeibniz, ← ih]
    unfold dMonomial
    by_cases h : a = j
    · subst h
      simp only [List.count_cons_self, List.erase_cons_head, if_true, Nat.cast_add, Nat.cast_one]
      by_cases hm : a ∈ l
      · have := List.prod_map_erase y hm
        rw [← this]; ring
      · simp [List.count_eq_zero_of_not_mem hm]
    · have h' : ¬ (a == j) = true := by simpa using h
      simp only [List.count_cons_of_ne h, List.erase_cons_tail h', h, if_false, List.map_cons,
        List.prod_cons]
      ring

theorem dMonomialLeibniz_eq_pos (y : Nat → K) (rs : List Nat) (j : Nat) :
    dMonomialLeibniz y rs j = dMonomialPos y rs j := by
  induction rs with
  | nil => simp [dMonomialPos, dMonomialLeibniz]
  | cons a l ih =>
    rw [dMonomialLeibniz, ih]
    unfold dMonomialPos
    rw [List.length_cons, List.range_succ_eq_map, List.filter_cons, List.filter_map]
    have hf : ((fun q => decide ((a :: l)[q]? = some j)) ∘ Nat.succ) = fun q => decide (l[q]? = some j) := by
      funext q; simp
    rw [hf]
    have hm : List.map (fun q => (List.map y ((a :: l).eraseIdx q)).prod)
        (List.map Nat.succ (List.filter (fun q => decide (l[q]? = some j)) (List.range l.length)))
        = List.map (fun x => y a * x) (List.map (fun q => (List.map y (l.eraseIdx q)).prod)
          (List.filter (fun q => decide (l[q]? = some j)) (List.range l.length))) := by
      rw [List.map_map, List.map_map]
      apply List.map_congr_left
      intro q _
      simp
    by_cases h : a = j
    · subst h
      simp only [List.getElem?_cons_zero, decide_true, if_true, List.map_cons, List.sum_cons,
        List.eraseIdx_cons_zero, one_mul]
      rw [hm, List.sum_map_mul_left]
    · have : ¬ (some a = some j) := by simpa using h
      simp only [h, List.getElem?_cons_zero, this, decide_false, if_false, zero_mul, zero_add,
        Bool.false_eq_true]
      rw [hm, List.sum_map_mul_left]

/-- `dMonomial` is the product-rule derivative (the closed form is not ad hoc) -/
theorem dMonomial_eq_pos (y : Nat → K) (rs : List Nat) (j : Nat) :
    dMonomial y rs j = dMonomialPos y rs j :=
  (dMonomial_eq_leibniz y rs j).trans (dMonomialLeibniz_eq_pos y rs j)

theorem dMonomial_of_not_mem (y : Nat → K) (rs : List Nat) (j : Nat) (h : j ∉ rs) :
    dMonomial y rs j = 0 := by
  simp [dMonomial, List.count_eq_zero_of_not_mem h]

/-- removing the differentiated occurrence and counting the diagonal write restores the
    multiplicity: `count i (rs.erase j) + [i = j] = count i rs` when `j ∈ rs` -/
theorem count_erase_add (rs : List Nat) (i j : Nat) (h : j ∈ rs) :
    (rs.erase j).count i + (if i = j then 1 else 0) = rs.count i := by
  rw [List.count_erase]
  by_cases hij : i = j
  · subst hij
    have : 0 < rs.count i := List.count_pos_iff.mpr h
    simp; omega
  · have : ¬ (j = i) := fun h => hij h.symm
    simp [hij, this]

end Deriv

end Micm
