/-
Lemmas for C02 (Jacobian = minus the formal partial derivatives of the forcing).

Sections
  A  decode: `jacGo` / `flatIdsGo` replaying concatenated streams = fold over entries (any carrier)
  B  frame: ids that are not written are unchanged (any carrier)
  C  numeric value of the entry fold over a commutative ring
  D  formal derivative of a rateMonomial listed with multiplicity
  E  the second constructor loop (`dependents`, `buildJacobianEntries`, `ProcessSet.build`)
  F  `nonZeroGo` / `setInsert` membership, pattern completeness
  G  assembling the sums
-/
import Micm.Model.ProcessSet
import Mathlib.Tactic.Ring
import Mathlib.Algebra.BigOperators.Group.List.Basic
import Mathlib.Algebra.Field.Basic
import Mathlib.Data.List.Nodup

namespace Micm

/-! ## A. decode -/

section Decode
variable {α : Type}

/-- counts recorded in the `ProcessInfo` agree with the entry's lists -/
def JEntry.WF (e : JEntry α) : Prop :=
  e.info.nDep = e.deps.length ∧ e.info.nProd = e.prods.length

/-- flat ids of the `+=` writes of one entry: one per dependent reactant, then the diagonal -/
def entryAddIds (rk : Nat → Nat → Nat) (e : JEntry α) : List Nat :=
  e.deps.map (fun x => rk x e.info.ind) ++ [rk e.info.ind e.info.ind]

/-- flat ids of the `-=` writes of one entry: one per product -/
def entryProdIds (rk : Nat → Nat → Nat) (e : JEntry α) : List Nat :=
  e.prods.map (fun p => rk p.1 e.info.ind)

/-- `-=` writes of one entry paired with their yields -/
def entrySubIds (rk : Nat → Nat → Nat) (e : JEntry α) : List (Nat × α) :=
  e.prods.map (fun p => (rk p.1 e.info.ind, p.2))

/-- all flat ids pushed by `SetJacobianFlatIds` for one entry, in the code's order -/
def entryFlatIds (rk : Nat → Nat → Nat) (e : JEntry α) : List Nat :=
  entryAddIds rk e ++ entryProdIds rk e

theorem entryAddIds_length (rk : Nat → Nat → Nat) (e : JEntry α) :
    (entryAddIds rk e).length = e.deps.length + 1 := by simp [entryAddIds]

theorem entryProdIds_length (rk : Nat → Nat → Nat) (e : JEntry α) :
    (entryProdIds rk e).length = e.prods.length := by simp [entryProdIds]

theorem entryProdIds_zip (rk : Nat → Nat → Nat) (e : JEntry α) :
    (entryProdIds rk e).zip (e.prods.map (·.2)) = entrySubIds rk e := by
  unfold entryProdIds entrySubIds
  induction e.prods with
  | nil => rfl
  | cons a l ih => simp [ih]

variable [OfNat α 0] [Add α] [Sub α] [Mul α]

/-- the update `SubtractJacobianTerms` performs for one `ProcessInfo`, with its operands decoded:
    `d := k[pid] * Π_{x ∈ deps} y[x]` (left fold), `J[id] += d` for `id ∈ addIds`,
    `J[id] -= yield * d` for `(id, yield) ∈ subIds`. -/
def jacEntryStep (k y : Array α) (pid : Nat) (deps addIds : List Nat) (subIds : List (Nat × α))
    (J : Array α) : Array α :=
  let d := deps.foldl (fun acc i => acc * rd y i) (rd k pid)
  let J := addIds.foldl (fun J id => wr J id (rd J id + d)) J
  subIds.foldl (fun J p => wr J p.1 (rd J p.1 - p.2 * d)) J

/-- Generic decode (cursors never desynchronise): for *any* per-entry id lists `fa`, `fb` of the
    right lengths, `jacGo` on the concatenated streams is the fold of the single-entry update.
    Trailing garbage `r1 r2 r3` in the streams is ignored. -/
theorem jacGo_decode_gen (k y : Array α) (fa fb : JEntry α → List Nat) (es : List (JEntry α))
    (hwf : ∀ e ∈ es, e.WF)
    (hfa : ∀ e ∈ es, (fa e).length = e.deps.length + 1)
    (hfb : ∀ e ∈ es, (fb e).length = e.prods.length)
    (r1 : List Nat) (r2 : List α) (r3 : List Nat) (J : Array α) :
    jacGo k y (es.map (·.info)) (es.flatMap (·.deps) ++ r1)
        (es.flatMap (fun e => e.prods.map (·.2)) ++ r2)
        (es.flatMap (fun e => fa e ++ fb e) ++ r3) J
      = es.foldl (fun J e => jacEntryStep k y e.info.pid e.deps (fa e)
          ((fb e).zip (e.prods.map (·.2))) J) J := by
  induction es generalizing J with
  | nil => simp [jacGo]
  | cons e es ih =>
    obtain ⟨h1, h2⟩ := hwf e (by simp)
    have h3 := hfa e (by simp)
    have h4 := hfb e (by simp)
    have ih' := fun J => ih (fun e he => hwf e (by simp [he])) (fun e he => hfa e (by simp [he]))
      (fun e he => hfb e (by simp [he])) J
    simp only [List.map_cons, List.flatMap_cons, List.append_assoc, jacGo, List.foldl_cons]
    have e1 : ∀ r, List.take e.info.nDep (e.deps ++ r) = e.deps :=
      fun r => List.take_left' h1.symm
    have e2 : ∀ r, List.drop e.info.nDep (e.deps ++ r) = r := fun r => List.drop_left' h1.symm
    have e3 : ∀ r, List.take (e.info.nDep + 1) (fa e ++ r) = fa e :=
      fun r => List.take_left' (by omega)
    have e4 : ∀ r, List.drop (e.info.nDep + 1) (fa e ++ r) = r :=
      fun r => List.drop_left' (by omega)
    have e5 : ∀ r, List.take e.info.nProd (fb e ++ r) = fb e :=
      fun r => List.take_left' (by omega)
    have e6 : ∀ r, List.drop e.info.nProd (fb e ++ r) = r := fun r => List.drop_left' (by omega)
    have e7 : ∀ r, List.take e.info.nProd (e.prods.map (·.2) ++ r) = e.prods.map (·.2) :=
      fun r => List.take_left' (by simp; omega)
    have e8 : ∀ r, List.drop e.info.nProd (e.prods.map (·.2) ++ r) = r :=
      fun r => List.drop_left' (by simp; omega)
    simp only [e1, e2, e3, e4, e5, e6, e7, e8]
    rw [ih']
    rfl

/-- decode with the flat ids given by a total rank function -/
theorem jacGo_decode (k y : Array α) (rk : Nat → Nat → Nat) (es : List (JEntry α))
    (hwf : ∀ e ∈ es, e.WF) (r1 : List Nat) (r2 : List α) (r3 : List Nat) (J : Array α) :
    jacGo k y (es.map (·.info)) (es.flatMap (·.deps) ++ r1)
        (es.flatMap (fun e => e.prods.map (·.2)) ++ r2)
        (es.flatMap (entryFlatIds rk) ++ r3) J
      = es.foldl (fun J e => jacEntryStep k y e.info.pid e.deps (entryAddIds rk e)
          (entrySubIds rk e) J) J := by
  have h := jacGo_decode_gen k y (entryAddIds rk) (entryProdIds rk) es hwf
    (fun e _ => entryAddIds_length rk e) (fun e _ => entryProdIds_length rk e) r1 r2 r3 J
  simp only [entryProdIds_zip] at h
  exact h

/-! ### `flatIdsGo` -/

omit [OfNat α 0] [Add α] [Sub α] [Mul α] in
theorem jac_mapM_except_ok_iff {ε β γ : Type} (f : β → Except ε γ) (g : β → γ)
    (hg : ∀ x v, f x = .ok v → g x = v) (l : List β) (r : List γ) :
    l.mapM f = .ok r ↔ (∀ x ∈ l, f x = .ok (g x)) ∧ r = l.map g := by
  induction l generalizing r with
  | nil => simp [pure, Except.pure, eq_comm]
  | cons a l ih =>
    rw [List.mapM_cons]
    cases hfa : f a with
    | error e => simp [bind, Except.bind, hfa]
    | ok v =>
      have hv := hg a v hfa
      cases hl : l.mapM f with
      | error e =>
        have := (ih (l.map g)).not.mp (by simp [hl])
        simp only [bind, Except.bind, reduceCtorEq, false_iff, not_and]
        intro h
        exfalso
        exact this ⟨fun x hx => h x (by simp [hx]), rfl⟩
      | ok bs =>
        obtain ⟨h1, h2⟩ := (ih bs).mp hl
        simp only [bind, Except.bind, pure, Except.pure, Except.ok.injEq, List.mem_cons,
          forall_eq_or_imp, List.map_cons, hfa, hv, true_and, h2]
        constructor
        · intro h; exact ⟨h1, h.symm⟩
        · intro h; exact h.2.symm

/-- the element is present and `Pattern.rk` is its rank -/
def Pattern.Present (p : Pattern) (r c : Nat) : Prop := p.rank r c = .ok (p.rk r c)

theorem Pattern.rank_ok_rk (p : Pattern) (r c v : Nat) (h : p.rank r c = .ok v) : p.rk r c = v := by
  simp [Pattern.rk, h]

theorem Pattern.present_of_ok (p : Pattern) (r c v : Nat) (h : p.rank r c = .ok v) :
    p.Present r c := by
  unfold Pattern.Present; rw [p.rank_ok_rk r c v h]; exact h

/-- every position an entry writes is a present element of the pattern -/
def JEntry.Present (p : Pattern) (e : JEntry α) : Prop :=
  (∀ x ∈ e.deps, p.Present x e.info.ind) ∧ p.Present e.info.ind e.info.ind ∧
    ∀ pr ∈ e.prods, p.Present pr.1 e.info.ind

omit [OfNat α 0] [Add α] [Sub α] [Mul α] in
/-- `SetJacobianFlatIds` succeeds iff every written position is present, and then the flat ids
    are the per-entry concatenation `dep ranks ++ [diag rank] ++ product ranks`. -/
theorem flatIdsGo_decode (p : Pattern) (es : List (JEntry α)) (hwf : ∀ e ∈ es, e.WF)
    (r1 r2 : List Nat) (flat : List Nat) :
    flatIdsGo p (es.map (·.info)) (es.flatMap (·.deps) ++ r1)
        (es.flatMap (fun e => e.prods.map (·.1)) ++ r2) = .ok flat
      ↔ (∀ e ∈ es, e.Present p) ∧ flat = es.flatMap (entryFlatIds p.rk) := by
  induction es generalizing flat with
  | nil => simp [flatIdsGo, eq_comm]
  | cons e es ih =>
    obtain ⟨h1, h2⟩ := hwf e (by simp)
    have ih' := fun flat => ih (fun e he => hwf e (by simp [he])) flat
    have e1 : ∀ r, List.take e.info.nDep (e.deps ++ r) = e.deps :=
      fun r => List.take_left' h1.symm
    have e2 : ∀ r, List.drop e.info.nDep (e.deps ++ r) = r := fun r => List.drop_left' h1.symm
    have e7 : ∀ r, List.take e.info.nProd (e.prods.map (·.1) ++ r) = e.prods.map (·.1) :=
      fun r => List.take_left' (by simp; omega)
    have e8 : ∀ r, List.drop e.info.nProd (e.prods.map (·.1) ++ r) = r :=
      fun r => List.drop_left' (by simp; omega)
    simp only [List.map_cons, List.flatMap_cons, List.append_assoc, flatIdsGo, e1, e2, e7, e8]
    have ma := fun r => jac_mapM_except_ok_iff (fun r => p.rank r e.info.ind) (fun r => p.rk r e.info.ind)
      (fun x v h => p.rank_ok_rk x _ v h) e.deps r
    have mb := fun r => jac_mapM_except_ok_iff (fun r => p.rank r e.info.ind) (fun r => p.rk r e.info.ind)
      (fun x v h => p.rank_ok_rk x _ v h) (e.prods.map (·.1)) r
    cases ha : List.mapM (fun r => p.rank r e.info.ind) e.deps with
    | error err =>
      simp only [bind, Except.bind, reduceCtorEq, false_iff, not_and, List.mem_cons, forall_eq_or_imp]
      intro h; exfalso
      have := ((ma (e.deps.map fun r => p.rk r e.info.ind)).mpr ⟨h.1.1, rfl⟩)
      rw [ha] at this; cases this
    | ok a =>
      obtain ⟨ha1, ha2⟩ := (ma a).mp ha
      cases hd : p.rank e.info.ind e.info.ind with
      | error err =>
        simp only [bind, Except.bind, reduceCtorEq, false_iff, not_and, List.mem_cons, forall_eq_or_imp]
        intro h; exfalso
        have := h.1.2.1
        unfold Pattern.Present at this
        rw [hd] at this; cases this
      | ok d =>
        have hd1 := p.present_of_ok _ _ _ hd
        have hd2 := p.rank_ok_rk _ _ _ hd
        cases hb : List.mapM (fun r => p.rank r e.info.ind) (e.prods.map (·.1)) with
        | error err =>
          simp only [bind, Except.bind, reduceCtorEq, false_iff, not_and, List.mem_cons, forall_eq_or_imp]
          intro h; exfalso
          have := ((mb ((e.prods.map (·.1)).map fun r => p.rk r e.info.ind)).mpr
            ⟨fun x hx => by
              obtain ⟨pr, hpr, rfl⟩ := List.mem_map.mp hx
              exact h.1.2.2 pr hpr, rfl⟩)
          rw [hb] at this; cases this
        | ok b =>
          obtain ⟨hb1, hb2⟩ := (mb b).mp hb
          have hpres : e.Present p := ⟨ha1, hd1, fun pr hpr => hb1 pr.1 (List.mem_map.mpr ⟨pr, hpr, rfl⟩)⟩
          cases hr : flatIdsGo p (es.map (·.info)) (es.flatMap (·.deps) ++ r1)
              (es.flatMap (fun e => e.prods.map (·.1)) ++ r2) with
          | error err =>
            have := (ih' (es.flatMap (entryFlatIds p.rk))).not.mp (by rw [hr]; simp)
            simp only [bind, Except.bind, reduceCtorEq, false_iff, not_and, List.mem_cons,
              forall_eq_or_imp]
            intro h; exfalso
            exact this ⟨h.2, rfl⟩
          | ok rest =>
            obtain ⟨hr1, hr2⟩ := (ih' rest).mp hr
            simp only [bind, Except.bind, pure, Except.pure, Except.ok.injEq, List.mem_cons,
              forall_eq_or_imp, hpres, true_and]
            subst ha2 hb2 hr2 hd2
            simp only [entryFlatIds, entryAddIds, entryProdIds, List.map_map, List.append_assoc,
              List.cons_append, List.nil_append, Function.comp_def]
            exact ⟨fun h => ⟨hr1, h.symm⟩, fun h => h.2.symm⟩

end Decode

/-! ## B. frame -/

section Frame
variable {α : Type} [OfNat α 0]

omit [OfNat α 0] in
theorem jac_foldl_wr_size {β : Type} (h : Array α → β → α) (ix : β → Nat) (l : List β) (J : Array α) :
    (l.foldl (fun J b => wr J (ix b) (h J b)) J).size = J.size := by
  induction l generalizing J with
  | nil => rfl
  | cons a l ih => simp [List.foldl_cons, ih]

theorem jac_foldl_wr_untouched {β : Type} (h : Array α → β → α) (ix : β → Nat) (l : List β)
    (J : Array α) (q : Nat) (hq : ∀ b ∈ l, ix b ≠ q) :
    rd (l.foldl (fun J b => wr J (ix b) (h J b)) J) q = rd J q := by
  induction l generalizing J with
  | nil => rfl
  | cons a l ih =>
    rw [List.foldl_cons, ih _ (fun b hb => hq b (by simp [hb])), rd_wr_ne _ _ _ _ (hq a (by simp))]

variable [Add α] [Sub α] [Mul α]

omit [Sub α] [Mul α] in
theorem addFold_size (d : α) (ids : List Nat) (J : Array α) :
    (ids.foldl (fun J id => wr J id (rd J id + d)) J).size = J.size :=
  jac_foldl_wr_size (fun J id => rd J id + d) (fun b => b) ids J

omit [Add α] in
theorem subFold_size (d : α) (l : List (Nat × α)) (J : Array α) :
    (l.foldl (fun J p => wr J p.1 (rd J p.1 - p.2 * d)) J).size = J.size :=
  jac_foldl_wr_size (fun J (p : Nat × α) => rd J p.1 - p.2 * d) (fun p => p.1) l J

omit [Sub α] [Mul α] in
theorem addFold_untouched (d : α) (ids : List Nat) (J : Array α) (q : Nat) (hq : q ∉ ids) :
    rd (ids.foldl (fun J id => wr J id (rd J id + d)) J) q = rd J q :=
  jac_foldl_wr_untouched (fun J id => rd J id + d) (fun b => b) ids J q
    (fun _ hb hbq => hq (hbq ▸ hb))

omit [Add α] in
theorem subFold_untouched (d : α) (l : List (Nat × α)) (J : Array α) (q : Nat)
    (hq : ∀ p ∈ l, p.1 ≠ q) :
    rd (l.foldl (fun J p => wr J p.1 (rd J p.1 - p.2 * d)) J) q = rd J q :=
  jac_foldl_wr_untouched (fun J (p : Nat × α) => rd J p.1 - p.2 * d) (fun p => p.1) l J q hq

theorem jacEntryStep_size (k y : Array α) (pid : Nat) (deps addIds : List Nat)
    (subIds : List (Nat × α)) (J : Array α) :
    (jacEntryStep k y pid deps addIds subIds J).size = J.size := by
  unfold jacEntryStep
  simp only []
  rw [subFold_size, addFold_size]

theorem jacGo_size (k y : Array α) (infos : List ProcessInfo) (jr : List Nat) (jy : List α)
    (flat : List Nat) (J : Array α) : (jacGo k y infos jr jy flat J).size = J.size := by
  induction infos generalizing jr jy flat J with
  | nil => simp [jacGo]
  | cons info infos ih =>
    simp only [jacGo]
    rw [ih, subFold_size, addFold_size]

/-- `SubtractJacobianTerms` writes only at the flat ids: any other slot is unchanged
    (no hypothesis on the streams at all). -/
theorem jacGo_untouched (k y : Array α) (infos : List ProcessInfo) (jr : List Nat) (jy : List α)
    (flat : List Nat) (J : Array α) (q : Nat) (hq : q ∉ flat) :
    rd (jacGo k y infos jr jy flat J) q = rd J q := by
  induction infos generalizing jr jy flat J with
  | nil => simp [jacGo]
  | cons info infos ih =>
    simp only [jacGo]
    rw [ih]
    · rw [subFold_untouched, addFold_untouched]
      · intro hb
        exact hq (List.mem_of_mem_take hb)
      · intro b hb hbq
        have := (List.of_mem_zip (a := b.1) (b := b.2) hb).1
        exact hq (hbq ▸ List.mem_of_mem_drop (List.mem_of_mem_take this))
    · intro h
      exact hq (List.mem_of_mem_drop (List.mem_of_mem_drop h))

end Frame

/-! ## C. numeric value of the entry fold -/

section Numeric
variable {K : Type} [CommRing K]

theorem jac_foldl_mul_eq {β : Type} (f : β → K) (l : List β) (k : K) :
    l.foldl (fun acc i => acc * f i) k = k * (l.map f).prod := by
  induction l generalizing k with
  | nil => simp
  | cons a l ih => simp [List.foldl_cons, ih, mul_assoc]

theorem jac_add_fold (ids : List Nat) (d : K) (J : Array K) (q : Nat) (hq : q < J.size) :
    rd (ids.foldl (fun J id => wr J id (rd J id + d)) J) q = rd J q + (ids.count q : K) * d := by
  induction ids generalizing J with
  | nil => simp
  | cons a l ih =>
    rw [List.foldl_cons, ih _ (by simpa using hq), List.count_cons, rd_wr]
    by_cases h : a = q
    · subst h; simp [hq]; ring
    · simp [h]

theorem jac_sub_fold (l : List (Nat × K)) (d : K) (J : Array K) (q : Nat) (hq : q < J.size) :
    rd (l.foldl (fun J p => wr J p.1 (rd J p.1 - p.2 * d)) J) q
      = rd J q - ((l.filter (fun p => p.1 = q)).map (·.2)).sum * d := by
  induction l generalizing J with
  | nil => simp
  | cons a l ih =>
    rw [List.foldl_cons, ih _ (by simpa using hq), List.filter_cons, rd_wr]
    by_cases h : a.1 = q
    · simp [h, hq]; ring
    · simp [h]

/-- value of one slot after one entry -/
theorem jacEntryStep_rd (k y : Array K) (pid : Nat) (deps addIds : List Nat)
    (subIds : List (Nat × K)) (J : Array K) (q : Nat) (hq : q < J.size) :
    rd (jacEntryStep k y pid deps addIds subIds J) q
      = rd J q + ((addIds.count q : K) - ((subIds.filter (fun p => p.1 = q)).map (·.2)).sum)
          * (rd k pid * (deps.map (rd y)).prod) := by
  unfold jacEntryStep
  simp only []
  rw [jac_sub_fold _ _ _ _ (by rw [addFold_size]; exact hq),
    jac_add_fold _ _ _ _ hq, jac_foldl_mul_eq]
  ring

/-- value of one slot after all entries -/
theorem jacEntries_rd (k y : Array K) {E : Type} (pid : E → Nat) (deps addIds : E → List Nat)
    (subIds : E → List (Nat × K)) (es : List E) (J : Array K) (q : Nat) (hq : q < J.size) :
    rd (es.foldl (fun J e => jacEntryStep k y (pid e) (deps e) (addIds e) (subIds e) J) J) q
      = rd J q + (es.map fun e =>
          (((addIds e).count q : K) - (((subIds e).filter (fun p => p.1 = q)).map (·.2)).sum)
            * (rd k (pid e) * ((deps e).map (rd y)).prod)).sum := by
  induction es generalizing J with
  | nil => simp
  | cons e es ih =>
    rw [List.foldl_cons, ih _ (by rw [jacEntryStep_size]; exact hq), jacEntryStep_rd _ _ _ _ _ _ _ _ hq,
      List.map_cons, List.sum_cons]
    ring

end Numeric

/-! ## D. formal derivative of a rateMonomial listed with multiplicity -/

section Deriv
variable {K : Type} [CommRing K]

/-- the rateMonomial `Π_{l ∈ rs} y l` (variables listed with multiplicity) -/
def rateMonomial (y : Nat → K) (rs : List Nat) : K := (rs.map y).prod

/-- formal partial derivative of `rateMonomial y rs` with respect to the variable `j`:
    `(multiplicity of j) * Π (rs with one occurrence of j removed)`. -/
def dMonomial (y : Nat → K) (rs : List Nat) (j : Nat) : K :=
  (rs.count j : K) * ((rs.erase j).map y).prod

/-- the derivative by the Leibniz rule, `∂(y_a · M) = (∂y_a)·M + y_a·∂M` with `∂y_a = [a = j]` -/
def dMonomialLeibniz (y : Nat → K) : List Nat → Nat → K
  | [], _ => 0
  | a :: l, j => (if a = j then 1 else 0) * (l.map y).prod + y a * dMonomialLeibniz y l j

/-- the derivative by the expanded product rule: sum over the positions `q` holding the variable
    `j` of the product of all the other factors -/
def dMonomialPos (y : Nat → K) (rs : List Nat) (j : Nat) : K :=
  (((List.range rs.length).filter (fun q => rs[q]? = some j)).map
    (fun q => ((rs.eraseIdx q).map y).prod)).sum

theorem dMonomial_eq_leibniz (y : Nat → K) (rs : List Nat) (j : Nat) :
    dMonomial y rs j = dMonomialLeibniz y rs j := by
  induction rs with
  | nil => simp [dMonomial, dMonomialLeibniz]
  | cons a l ih =>
    rw [dMonomialLeibniz, ← ih]
    unfold dMonomial
    by_cases h : a = j
    · subst h
      simp only [List.count_cons_self, List.erase_cons_head, if_true, Nat.cast_add, Nat.cast_one]
      by_cases hm : a ∈ l
      · have := List.prod_map_erase y hm
        rw [← this]; ring
      · simp [List.count_eq_zero_of_not_mem hm]
    · have h' : ¬ (a == j) = true := by simpa using h
      simp only [List.count_cons_of_ne h, List.erase_cons_tail h', h, if_false, List.map_cons,
        List.prod_cons]
      ring

theorem jac_sum_map_mul_left (c : K) (l : List K) : (l.map (fun x => c * x)).sum = c * l.sum := by
  induction l with
  | nil => simp
  | cons a l ih => simp [ih, mul_add]

theorem dMonomialLeibniz_eq_pos (y : Nat → K) (rs : List Nat) (j : Nat) :
    dMonomialLeibniz y rs j = dMonomialPos y rs j := by
  induction rs with
  | nil => simp [dMonomialPos, dMonomialLeibniz]
  | cons a l ih =>
    rw [dMonomialLeibniz, ih]
    unfold dMonomialPos
    rw [List.length_cons, List.range_succ_eq_map, List.filter_cons, List.filter_map]
    have hf : ((fun q => decide ((a :: l)[q]? = some j)) ∘ Nat.succ) = fun q => decide (l[q]? = some j) := by
      funext q; simp
    rw [hf]
    have hm : List.map (fun q => (List.map y ((a :: l).eraseIdx q)).prod)
        (List.map Nat.succ (List.filter (fun q => decide (l[q]? = some j)) (List.range l.length)))
        = List.map (fun x => y a * x) (List.map (fun q => (List.map y (l.eraseIdx q)).prod)
          (List.filter (fun q => decide (l[q]? = some j)) (List.range l.length))) := by
      rw [List.map_map, List.map_map]
      apply List.map_congr_left
      intro q _
      simp
    by_cases h : a = j
    · subst h
      simp only [List.getElem?_cons_zero, decide_true, if_true, List.map_cons, List.sum_cons,
        List.eraseIdx_cons_zero, one_mul]
      rw [hm, jac_sum_map_mul_left]
    · have : ¬ (some a = some j) := by simpa using h
      simp only [h, List.getElem?_cons_zero, this, decide_false, if_false, zero_mul, zero_add,
        Bool.false_eq_true]
      rw [hm, jac_sum_map_mul_left]

/-- `dMonomial` is the product-rule derivative (the closed form is not ad hoc) -/
theorem dMonomial_eq_pos (y : Nat → K) (rs : List Nat) (j : Nat) :
    dMonomial y rs j = dMonomialPos y rs j :=
  (dMonomial_eq_leibniz y rs j).trans (dMonomialLeibniz_eq_pos y rs j)

theorem dMonomial_of_not_mem (y : Nat → K) (rs : List Nat) (j : Nat) (h : j ∉ rs) :
    dMonomial y rs j = 0 := by
  simp [dMonomial, List.count_eq_zero_of_not_mem h]

/-- removing the differentiated occurrence and counting the diagonal write restores the
    multiplicity: `count i (rs.erase j) + [i = j] = count i rs` when `j ∈ rs` -/
theorem count_erase_add (rs : List Nat) (i j : Nat) (h : j ∈ rs) :
    (rs.erase j).count i + (if i = j then 1 else 0) = rs.count i := by
  rw [List.count_erase]
  by_cases hij : i = j
  · subst hij
    have : 0 < rs.count i := List.count_pos_iff.mpr h
    simp; omega
  · have : ¬ (j = i) := fun h => hij h.symm
    simp [hij, this]

end Deriv

/-! ## E. the second constructor loop -/

section Build
variable {α : Type}

theorem dependents_true (ind : Nat) (l : List Nat) : dependents ind l true = l := by
  induction l with
  | nil => rfl
  | cons a l ih => simp [dependents, ih]

/-- the `found` flag removes exactly the first occurrence of `ind` -/
theorem dependents_false (ind : Nat) (l : List Nat) : dependents ind l false = l.erase ind := by
  induction l with
  | nil => rfl
  | cons a l ih =>
    by_cases h : a = ind
    · subst h; simp [dependents, dependents_true]
    · have h' : ¬ (a == ind) = true := by simpa using h
      simp [dependents, h, ih, List.erase_cons_tail h']

/-- resolved ids of the non-parameterized reactants (unknown names dropped; `reactIdsOf` fails
    on those) -/
def specReactIds (m : NameMap) (l : List SpecRef) : List Nat :=
  l.filterMap fun r => if r.param then none else nmLookup m r.name

/-- resolved (id, yield) of the non-parameterized products -/
def specProdIds (m : NameMap) (l : List (SpecRef × α)) : List (Nat × α) :=
  l.filterMap fun p => if p.1.param then none else (nmLookup m p.1.name).map fun i => (i, p.2)

/-- a process with its resolved reactant ids and products, as `ProcessSet.build` uses it -/
def resolveProc (m : NameMap) (p : Process α) : Process α × List Nat × List (Nat × α) :=
  (p, specReactIds m p.reactants, specProdIds m p.products)

theorem jac_reactIdsOf_ok (m : NameMap) (l : List SpecRef) (rs : List Nat)
    (h : reactIdsOf m l = .ok rs) : specReactIds m l = rs := by
  induction l generalizing rs with
  | nil => simp [reactIdsOf] at h; simp [specReactIds, h]
  | cons r l ih =>
    unfold reactIdsOf at h
    unfold specReactIds
    rw [List.filterMap_cons]
    by_cases hp : r.param = true
    · simp only [hp, if_true] at h ⊢
      exact ih rs h
    · simp only [hp] at h ⊢
      cases hl : nmLookup m r.name with
      | none => simp [hl] at h
      | some i =>
        simp only [hl] at h
        cases hr : reactIdsOf m l with
        | error e => simp [hr, bind, Except.bind] at h
        | ok rs' =>
          simp only [hr, bind, Except.bind, pure, Except.pure, Bool.false_eq_true, if_false,
            Except.ok.injEq] at h
          have := ih rs' hr
          unfold specReactIds at this
          simp [this, h]

theorem jac_prodIdsOf_ok (m : NameMap) (l : List (SpecRef × α)) (pr : List (Nat × α))
    (h : prodIdsOf m l = .ok pr) : specProdIds m l = pr := by
  induction l generalizing pr with
  | nil => simp [prodIdsOf] at h; simp [specProdIds, h]
  | cons r l ih =>
    unfold prodIdsOf at h
    unfold specProdIds
    rw [List.filterMap_cons]
    by_cases hp : r.1.param = true
    · simp only [hp, if_true] at h ⊢
      exact ih pr h
    · simp only [hp] at h ⊢
      cases hl : nmLookup m r.1.name with
      | none => simp [hl] at h
      | some i =>
        simp only [hl] at h
        cases hr : prodIdsOf m l with
        | error e => simp [hr, bind, Except.bind] at h
        | ok pr' =>
          simp only [hr, bind, Except.bind, pure, Except.pure, Bool.false_eq_true, if_false,
            Except.ok.injEq] at h
          have := ih pr' hr
          unfold specProdIds at this
          simp [this, h]

theorem jac_resolve_mapM_ok (m : NameMap) (procs : List (Process α))
    (R : List (Process α × List Nat × List (Nat × α)))
    (h : (procs.mapM fun p => do
        let rs ← reactIdsOf m p.reactants
        let pr ← prodIdsOf m p.products
        pure (p, rs, pr)) = Except.ok R) : R = procs.map (resolveProc m) := by
  refine ((jac_mapM_except_ok_iff _ (resolveProc m) ?_ procs R).mp h).2
  intro p v hv
  cases hr : reactIdsOf m p.reactants with
  | error e => simp [hr, bind, Except.bind] at hv
  | ok rs =>
    cases hp : prodIdsOf m p.products with
    | error e => simp [hr, hp, bind, Except.bind] at hv
    | ok pr =>
      simp only [hr, hp, bind, Except.bind, pure, Except.pure, Except.ok.injEq] at hv
      rw [← hv, resolveProc, jac_reactIdsOf_ok m _ _ hr, jac_prodIdsOf_ok m _ _ hp]

/-- the forcing tables are the per-process concatenations -/
theorem jac_buildForcing_ok (m : NameMap) (procs : List (Process α)) (t : PSTables α)
    (h : buildForcing m procs = .ok t) :
    t.nReact = procs.map (fun p => (specReactIds m p.reactants).length) ∧
    t.reactIds = procs.flatMap (fun p => specReactIds m p.reactants) ∧
    t.nProd = procs.map (fun p => (specProdIds m p.products).length) ∧
    t.prodIds = procs.flatMap (fun p => (specProdIds m p.products).map (·.1)) ∧
    t.yields = procs.flatMap (fun p => (specProdIds m p.products).map (·.2)) := by
  induction procs generalizing t with
  | nil => simp [buildForcing] at h; subst h; simp
  | cons p ps ih =>
    unfold buildForcing at h
    cases hr : reactIdsOf m p.reactants with
    | error e => simp [hr, bind, Except.bind] at h
    | ok rs =>
      cases hp : prodIdsOf m p.products with
      | error e => simp [hr, hp, bind, Except.bind] at h
      | ok pr =>
        cases ht : buildForcing m ps with
        | error e => simp [hr, hp, ht, bind, Except.bind] at h
        | ok t' =>
          simp only [hr, hp, ht, bind, Except.bind, pure, Except.pure, Except.ok.injEq] at h
          obtain ⟨h1, h2, h3, h4, h5⟩ := ih t' ht
          subst h
          simp [jac_reactIdsOf_ok m _ _ hr, jac_prodIdsOf_ok m _ _ hp, h1, h2, h3, h4, h5]

/-- `C02_build_entries`: the Jacobian tables of a successfully built process set are the
    concatenated streams of `buildJacobianEntries (sortByIdx m) (procs.map (resolveProc m))`;
    the forcing tables are those of `buildForcing`. -/
theorem jac_build_ok (procs : List (Process α)) (m : NameMap) (t : PSTables α)
    (h : ProcessSet.build procs m = .ok t) :
    let es := buildJacobianEntries (sortByIdx m) (procs.map (resolveProc m))
    t.jInfo = es.map (·.info) ∧ t.jReactIds = es.flatMap (·.deps) ∧
    t.jProdIds = es.flatMap (fun e => e.prods.map (·.1)) ∧
    t.jYields = es.flatMap (fun e => e.prods.map (·.2)) ∧
    t.nReact = procs.map (fun p => (specReactIds m p.reactants).length) ∧
    t.reactIds = procs.flatMap (fun p => specReactIds m p.reactants) ∧
    t.nProd = procs.map (fun p => (specProdIds m p.products).length) ∧
    t.prodIds = procs.flatMap (fun p => (specProdIds m p.products).map (·.1)) ∧
    t.yields = procs.flatMap (fun p => (specProdIds m p.products).map (·.2)) := by
  unfold ProcessSet.build at h
  cases ht : buildForcing m procs with
  | error e => simp [ht, bind, Except.bind] at h
  | ok t0 =>
    simp only [ht, bind, Except.bind] at h
    split at h
    · cases h
    · rename_i R hR
      have := jac_resolve_mapM_ok m procs R hR
      subst this
      simp only [pure, Except.pure, Except.ok.injEq] at h
      subst h
      exact ⟨rfl, rfl, rfl, rfl, jac_buildForcing_ok m procs t0 ht⟩

/-! ### the name map -/

omit α in
theorem jac_nmLookup_of_mem (m : NameMap) (hk : (m.map (·.1)).Nodup) (nv : String × Nat) (h : nv ∈ m) :
    nmLookup m nv.1 = some nv.2 := by
  induction m with
  | nil => cases h
  | cons e m ih =>
    rw [List.map_cons, List.nodup_cons] at hk
    unfold nmLookup
    rw [List.find?_cons]
    rcases List.mem_cons.mp h with rfl | h'
    · simp
    · have hne : ¬ (e.1 == nv.1) = true := by
        intro he
        have : e.1 = nv.1 := by simpa using he
        exact hk.1 (this ▸ List.mem_map.mpr ⟨nv, h', rfl⟩)
      simp only [hne]
      exact ih hk.2 h'

omit α in
theorem jac_mem_of_nmLookup (m : NameMap) (s : String) (v : Nat) (h : nmLookup m s = some v) :
    (s, v) ∈ m := by
  unfold nmLookup at h
  cases hf : List.find? (fun e => e.1 == s) m with
  | none => simp [hf] at h
  | some e =>
    simp only [hf, Option.map_some, Option.some.injEq] at h
    have h1 := List.find?_some hf
    have h2 := List.mem_of_find?_eq_some hf
    have : e.1 = s := by simpa using h1
    rw [← this, ← h]; exact h2

omit α in
theorem specReactIds_cons_param (m : NameMap) (r : SpecRef) (l : List SpecRef) (h : r.param = true) :
    specReactIds m (r :: l) = specReactIds m l := by simp [specReactIds, h]

omit α in
theorem specReactIds_cons_none (m : NameMap) (r : SpecRef) (l : List SpecRef) (h : ¬ r.param = true)
    (hl : nmLookup m r.name = none) : specReactIds m (r :: l) = specReactIds m l := by
  simp [specReactIds, h, hl]

omit α in
theorem specReactIds_cons_some (m : NameMap) (r : SpecRef) (l : List SpecRef) (h : ¬ r.param = true)
    (i : Nat) (hl : nmLookup m r.name = some i) :
    specReactIds m (r :: l) = i :: specReactIds m l := by
  simp [specReactIds, h, hl]

omit α in
/-- under distinct keys and distinct indices, "name equals the variable's name" and "resolved id
    equals the variable's index" select the same reactant occurrences -/
theorem count_name_eq_count_id (m : NameMap) (hk : (m.map (·.1)).Nodup) (hv : (m.map (·.2)).Nodup)
    (nv : String × Nat) (hnv : nv ∈ m) (l : List SpecRef)
    (hparam : ∀ r ∈ l, r.param = true → nmLookup m r.name = none) :
    (l.filter (fun r => r.name == nv.1)).length = (specReactIds m l).count nv.2 := by
  induction l with
  | nil => rfl
  | cons r l ih =>
    have ih' := ih (fun r hr => hparam r (by simp [hr]))
    by_cases hn : r.name = nv.1
    · have hl : nmLookup m r.name = some nv.2 := hn ▸ jac_nmLookup_of_mem m hk nv hnv
      have hp : ¬ r.param = true := fun hp => by
        have := hparam r (by simp) hp
        rw [hl] at this; cases this
      rw [specReactIds_cons_some m r l hp _ hl, List.count_cons_self,
        List.filter_cons_of_pos (p := fun r : SpecRef => r.name == nv.1) (a := r) (by simp [hn]),
        List.length_cons, ih']
    · have hne : ¬ (r.name == nv.1) = true := by simpa using hn
      rw [List.filter_cons_of_neg (p := fun r : SpecRef => r.name == nv.1) (a := r) hne, ih']
      by_cases hp : r.param = true
      · rw [specReactIds_cons_param m r l hp]
      · cases hl : nmLookup m r.name with
        | none => rw [specReactIds_cons_none m r l hp hl]
        | some v =>
          have hmem := jac_mem_of_nmLookup m _ _ hl
          have : v ≠ nv.2 := by
            intro hvv
            have := List.inj_on_of_nodup_map hv hmem hnv hvv
            exact hn (by rw [← this])
          rw [specReactIds_cons_some m r l hp _ hl, List.count_cons_of_ne this]

omit α in
theorem specReactIds_subset (m : NameMap) (l : List SpecRef) :
    ∀ x ∈ specReactIds m l, x ∈ m.map (·.2) := by
  intro x hx
  unfold specReactIds at hx
  obtain ⟨r, _, hr⟩ := List.mem_filterMap.mp hx
  by_cases hp : r.param = true
  · simp [hp] at hr
  · simp only [hp] at hr
    exact List.mem_map.mpr ⟨_, jac_mem_of_nmLookup m _ _ hr, rfl⟩

omit α in
theorem jac_insertByIdx_perm (a : String × Nat) (l : List (String × Nat)) :
    (insertByIdx a l).Perm (a :: l) := by
  induction l with
  | nil => exact List.Perm.refl _
  | cons b l ih =>
    unfold insertByIdx
    split
    · exact List.Perm.refl _
    · exact (List.Perm.cons b ih).trans (List.Perm.swap a b l)

omit α in
theorem jac_sortByIdx_perm (m : NameMap) : (sortByIdx m).Perm m := by
  unfold sortByIdx
  induction m with
  | nil => exact List.Perm.refl _
  | cons a m ih => exact (jac_insertByIdx_perm a _).trans (List.Perm.cons a ih)

/-! ### the entry list -/

/-- the entry created for variable `nv`, process `pip.1` (resolved) with index `pip.2` -/
def mkEntry (nv : String × Nat) (pip : (Process α × List Nat × List (Nat × α)) × Nat) : JEntry α :=
  { info := ⟨pip.2, nv.2, (pip.1.2.1.erase nv.2).length, pip.1.2.2.length⟩,
    deps := pip.1.2.1.erase nv.2, prods := pip.1.2.2 }

theorem buildJacobianEntries_eq (names : List (String × Nat))
    (R : List (Process α × List Nat × List (Nat × α))) :
    buildJacobianEntries names R = names.flatMap fun nv => R.zipIdx.flatMap fun pip =>
      List.replicate (pip.1.1.reactants.filter (fun r => r.name == nv.1)).length (mkEntry nv pip) := by
  unfold buildJacobianEntries
  congr 1
  funext nv
  congr 1
  funext pip
  obtain ⟨⟨p, rs, pr⟩, ip⟩ := pip
  simp only [dependents_false, mkEntry]
  rw [List.map_const']

theorem mkEntry_WF (nv : String × Nat) (pip : (Process α × List Nat × List (Nat × α)) × Nat) :
    (mkEntry nv pip).WF := ⟨rfl, rfl⟩

theorem mem_buildJacobianEntries (names : List (String × Nat))
    (R : List (Process α × List Nat × List (Nat × α))) (e : JEntry α)
    (h : e ∈ buildJacobianEntries names R) :
    ∃ nv ∈ names, ∃ pip ∈ R.zipIdx, (∃ r ∈ pip.1.1.reactants, r.name = nv.1) ∧ e = mkEntry nv pip := by
  rw [buildJacobianEntries_eq] at h
  obtain ⟨nv, hnv, h⟩ := List.mem_flatMap.mp h
  obtain ⟨pip, hpip, h⟩ := List.mem_flatMap.mp h
  obtain ⟨hne, he⟩ := List.mem_replicate.mp h
  refine ⟨nv, hnv, pip, hpip, ?_, he⟩
  have : 0 < (pip.1.1.reactants.filter (fun r => r.name == nv.1)).length := Nat.pos_of_ne_zero hne
  obtain ⟨r, hr⟩ := List.exists_mem_of_length_pos this
  obtain ⟨hr1, hr2⟩ := List.mem_filter.mp hr
  exact ⟨r, hr1, by simpa using hr2⟩

theorem buildJacobianEntries_WF (names : List (String × Nat))
    (R : List (Process α × List Nat × List (Nat × α))) :
    ∀ e ∈ buildJacobianEntries names R, e.WF := by
  intro e he
  obtain ⟨nv, _, pip, _, _, rfl⟩ := mem_buildJacobianEntries names R e he
  exact mkEntry_WF nv pip

end Build

/-! ## F. `NonZeroJacobianElements` -/

section NonZero

theorem jac_mem_setInsert (x a : Pair) (s : List Pair) : x ∈ setInsert a s ↔ x = a ∨ x ∈ s := by
  induction s with
  | nil => simp [setInsert]
  | cons b l ih =>
    unfold setInsert
    split
    · simp
    · split
      · rename_i h
        have : a = b := by simpa using h
        subst this; simp
      · simp only [List.mem_cons, ih]
        constructor
        · rintro (h | h | h) <;> simp [h]
        · rintro (h | h | h) <;> simp [h]

theorem jac_mem_foldl_setInsert {β : Type} (f : β → Pair) (l : List β) (s : List Pair) (x : Pair) :
    x ∈ l.foldl (fun s d => setInsert (f d) s) s ↔ x ∈ s ∨ ∃ d ∈ l, x = f d := by
  induction l generalizing s with
  | nil => simp
  | cons a l ih =>
    rw [List.foldl_cons, ih, jac_mem_setInsert]
    simp only [List.mem_cons, exists_eq_or_imp]
    constructor
    · rintro ((h | h) | h) <;> simp [h]
    · rintro (h | h | h) <;> simp [h]

/-- the double loop of one reaction (`l` = the independent variables still to visit) -/
theorem mem_nonZero_step (rs ps l : List Nat) (s : List Pair) (x : Pair) :
    x ∈ l.foldl (fun s ind =>
        let s := rs.foldl (fun s dep => setInsert (dep, ind) s) s
        ps.foldl (fun s dep => setInsert (dep, ind) s) s) s
      ↔ x ∈ s ∨ (x.2 ∈ l ∧ (x.1 ∈ rs ∨ x.1 ∈ ps)) := by
  induction l generalizing s with
  | nil => simp
  | cons a l ih =>
    rw [List.foldl_cons, ih]
    simp only []
    rw [jac_mem_foldl_setInsert (fun dep => (dep, a)), jac_mem_foldl_setInsert (fun dep => (dep, a))]
    obtain ⟨x1, x2⟩ := x
    simp only [Prod.mk.injEq, List.mem_cons]
    constructor
    · rintro (((h | ⟨d, hd, rfl, rfl⟩) | ⟨d, hd, rfl, rfl⟩) | ⟨h1, h2⟩)
      · exact Or.inl h
      · exact Or.inr ⟨Or.inl rfl, Or.inl hd⟩
      · exact Or.inr ⟨Or.inl rfl, Or.inr hd⟩
      · exact Or.inr ⟨Or.inr h1, h2⟩
    · rintro (h | ⟨rfl | h1, h2⟩)
      · exact Or.inl (Or.inl (Or.inl h))
      · rcases h2 with h2 | h2
        · exact Or.inl (Or.inl (Or.inr ⟨x1, h2, rfl, rfl⟩))
        · exact Or.inl (Or.inr ⟨x1, h2, rfl, rfl⟩)
      · exact Or.inr ⟨h1, h2⟩

/-- `nonZeroGo` on concatenated streams: the result contains exactly the initial set and, for
    every reaction, every (dependent, independent) pair with the independent variable among the
    reactants and the dependent one among the reactants or the products. -/
theorem mem_nonZeroGo (rxs : List (List Nat × List Nat)) (r1 r2 : List Nat) (s : List Pair)
    (x : Pair) :
    x ∈ nonZeroGo (rxs.map (·.1.length)) (rxs.map (·.2.length)) (rxs.flatMap (·.1) ++ r1)
        (rxs.flatMap (·.2) ++ r2) s
      ↔ x ∈ s ∨ ∃ rx ∈ rxs, x.2 ∈ rx.1 ∧ (x.1 ∈ rx.1 ∨ x.1 ∈ rx.2) := by
  induction rxs generalizing s with
  | nil => simp [nonZeroGo]
  | cons rx rxs ih =>
    simp only [List.map_cons, List.flatMap_cons, List.append_assoc, nonZeroGo]
    rw [List.take_left' rfl, List.drop_left' rfl, List.take_left' rfl, List.drop_left' rfl, ih,
      mem_nonZero_step]
    simp only [List.mem_cons, exists_eq_or_imp]
    constructor
    · rintro ((h | h) | h) <;> simp [h]
    · rintro (h | h | h) <;> simp [h]

/-! ### the result is a strictly sorted (hence duplicate-free) list, like `std::set` -/

/-- strictly increasing in the lexicographic order of `std::pair` -/
def JacSorted (s : List Pair) : Prop := s.Pairwise (fun a b => pairLt a b = true)

theorem jac_pairLt_trans {a b c : Pair} (h1 : pairLt a b = true) (h2 : pairLt b c = true) :
    pairLt a c = true := by
  simp only [pairLt, Bool.or_eq_true, Bool.and_eq_true, decide_eq_true_eq, beq_iff_eq] at *
  omega

theorem jac_pairLt_of_not {a b : Pair} (h1 : ¬ pairLt a b = true) (h2 : ¬ (a == b) = true) :
    pairLt b a = true := by
  have h2' : a ≠ b := by simpa using h2
  have : a.1 ≠ b.1 ∨ a.2 ≠ b.2 := by
    by_contra hc
    have hc1 : a.1 = b.1 := by omega
    have hc2 : a.2 = b.2 := by omega
    exact h2' (Prod.ext hc1 hc2)
  simp only [pairLt, Bool.or_eq_true, Bool.and_eq_true, decide_eq_true_eq, beq_iff_eq] at *
  omega

theorem jac_setInsert_sorted (a : Pair) (s : List Pair) (h : JacSorted s) : JacSorted (setInsert a s) := by
  induction s with
  | nil => simp [setInsert, JacSorted]
  | cons b l ih =>
    unfold JacSorted at h ih ⊢
    rw [List.pairwise_cons] at h
    unfold setInsert
    split
    · rename_i hab
      rw [List.pairwise_cons]
      refine ⟨?_, List.pairwise_cons.mpr h⟩
      intro c hc
      rcases List.mem_cons.mp hc with rfl | hc
      · exact hab
      · exact jac_pairLt_trans hab (h.1 c hc)
    · split
      · exact List.pairwise_cons.mpr h
      · rename_i hab hne
        rw [List.pairwise_cons]
        refine ⟨?_, ih h.2⟩
        intro c hc
        rcases (jac_mem_setInsert c a l).mp hc with rfl | hc
        · exact jac_pairLt_of_not hab hne
        · exact h.1 c hc

theorem jac_foldl_setInsert_sorted {β : Type} (f : β → Pair) (l : List β) (s : List Pair)
    (h : JacSorted s) : JacSorted (l.foldl (fun s d => setInsert (f d) s) s) := by
  induction l generalizing s with
  | nil => exact h
  | cons a l ih => exact ih _ (jac_setInsert_sorted _ _ h)

theorem nonZeroGo_sorted (nr np rids pids : List Nat) (s : List Pair) (h : JacSorted s) :
    JacSorted (nonZeroGo nr np rids pids s) := by
  fun_induction nonZeroGo nr np rids pids s with
  | case1 nr nrs np nps rids pids s rs ps s' ih =>
    apply ih
    have : ∀ (l : List Nat) (s : List Pair), JacSorted s → JacSorted (l.foldl (fun s ind =>
        let s := rs.foldl (fun s dep => setInsert (dep, ind) s) s
        ps.foldl (fun s dep => setInsert (dep, ind) s) s) s) := by
      intro l
      induction l with
      | nil => intro s hs; exact hs
      | cons a l ihl =>
        intro s hs
        exact ihl _ (jac_foldl_setInsert_sorted (fun dep => (dep, a)) ps _
          (jac_foldl_setInsert_sorted (fun dep => (dep, a)) rs _ hs))
    exact this rs s h
  | case2 => exact h

theorem JacSorted.nodup {s : List Pair} (h : JacSorted s) : s.Nodup := by
  unfold JacSorted at h
  refine List.Pairwise.imp ?_ h
  intro a b hab heq
  subst heq
  simp [pairLt] at hab

end NonZero

/-! ### pattern completeness -/

section Complete
variable {α : Type}

/-- `NonZeroJacobianElements` of a built process set, in terms of the resolved reactions -/
theorem mem_nonZero_of_build (procs : List (Process α)) (m : NameMap) (t : PSTables α)
    (hb : ProcessSet.build procs m = .ok t) (x : Pair) :
    x ∈ t.nonZeroJacobianElements ↔ ∃ p ∈ procs, x.2 ∈ specReactIds m p.reactants ∧
      (x.1 ∈ specReactIds m p.reactants ∨ x.1 ∈ (specProdIds m p.products).map (·.1)) := by
  obtain ⟨_, _, _, _, h1, h2, h3, h4, _⟩ := jac_build_ok procs m t hb
  unfold PSTables.nonZeroJacobianElements
  rw [h1, h2, h3, h4]
  have := mem_nonZeroGo (procs.map fun p => (specReactIds m p.reactants,
    (specProdIds m p.products).map (·.1))) [] [] [] x
  simp only [List.map_map, List.flatMap_map, Function.comp_def, List.append_nil, List.length_map,
    List.not_mem_nil, false_or] at this
  rw [this]
  constructor
  · rintro ⟨_, hrx, h⟩
    obtain ⟨p, hp, rfl⟩ := List.mem_map.mp hrx
    exact ⟨p, hp, h⟩
  · rintro ⟨p, hp, h⟩
    exact ⟨_, List.mem_map.mpr ⟨p, hp, rfl⟩, h⟩

omit α in
theorem ind_mem_specReactIds (m : NameMap) (hk : (m.map (·.1)).Nodup) (nv : String × Nat)
    (hnv : nv ∈ m) (l : List SpecRef)
    (hparam : ∀ r ∈ l, r.param = true → nmLookup m r.name = none)
    (h : ∃ r ∈ l, r.name = nv.1) : nv.2 ∈ specReactIds m l := by
  obtain ⟨r, hr, hn⟩ := h
  have hl : nmLookup m r.name = some nv.2 := hn ▸ jac_nmLookup_of_mem m hk nv hnv
  have hp : ¬ r.param = true := fun hp => by
    have := hparam r hr hp
    rw [hl] at this; cases this
  exact List.mem_filterMap.mpr ⟨r, hr, by simp [hp, hl]⟩

/-- every position a Jacobian entry writes is a declared non-zero element -/
theorem entries_in_nonZero (procs : List (Process α)) (m : NameMap) (t : PSTables α)
    (hb : ProcessSet.build procs m = .ok t) (hk : (m.map (·.1)).Nodup)
    (hparam : ∀ p ∈ procs, ∀ r ∈ p.reactants, r.param = true → nmLookup m r.name = none) :
    ∀ e ∈ buildJacobianEntries (sortByIdx m) (procs.map (resolveProc m)),
      (∀ x ∈ e.deps, (x, e.info.ind) ∈ t.nonZeroJacobianElements) ∧
      (e.info.ind, e.info.ind) ∈ t.nonZeroJacobianElements ∧
      ∀ pr ∈ e.prods, (pr.1, e.info.ind) ∈ t.nonZeroJacobianElements := by
  intro e he
  obtain ⟨nv, hnv, pip, hpip, hr, rfl⟩ := mem_buildJacobianEntries _ _ e he
  have hnv' : nv ∈ m := (jac_sortByIdx_perm m).mem_iff.mp hnv
  obtain ⟨p, hp, hpe⟩ := List.mem_map.mp (List.fst_mem_of_mem_zipIdx hpip)
  obtain ⟨pp, ip⟩ := pip
  simp only at hpe hr
  subst hpe
  have hind := ind_mem_specReactIds m hk nv hnv' p.reactants (hparam p hp) hr
  simp only [mkEntry, resolveProc, mem_nonZero_of_build procs m t hb]
  refine ⟨fun x hx => ⟨p, hp, hind, Or.inl (List.mem_of_mem_erase hx)⟩, ⟨p, hp, hind, Or.inl hind⟩,
    fun pr hpr => ⟨p, hp, hind, Or.inr (List.mem_map.mpr ⟨pr, hpr, rfl⟩)⟩⟩

end Complete

/-! ## G. assembling the sums -/

section Assemble
variable {K : Type} [CommRing K]

/-- net stoichiometric coefficient of species `i` in a reaction with resolved reactants `rs` and
    products `pr`: `Σ yields of the products equal to i − multiplicity of i among the reactants`
    (the forcing is `f_i = Σ_r jacNet_r(i) · k_r · Π_{l ∈ rs_r} y_l`, cf. C01) -/
def jacNet (rs : List Nat) (pr : List (Nat × K)) (i : Nat) : K :=
  ((pr.filter (fun p => p.1 = i)).map (·.2)).sum - (rs.count i : K)

theorem jac_sum_map_flatMap {β γ : Type} (l : List β) (f : β → List γ) (g : γ → K) :
    ((l.flatMap f).map g).sum = (l.map fun a => ((f a).map g).sum).sum := by
  induction l with
  | nil => simp
  | cons a l ih => simp [List.flatMap_cons, ih]

theorem jac_sum_map_replicate {γ : Type} (n : Nat) (c : γ) (g : γ → K) :
    ((List.replicate n c).map g).sum = (n : K) * g c := by
  induction n with
  | zero => simp
  | succ n ih =>
    rw [List.replicate_succ, List.map_cons, List.sum_cons, ih]; push_cast; ring

theorem jac_sum_map_neg {β : Type} (l : List β) (f : β → K) :
    (l.map fun a => - f a).sum = - (l.map f).sum := by
  induction l with
  | nil => simp
  | cons a l ih => simp [ih]; ring

theorem jac_sum_map_zero {β : Type} (l : List β) (f : β → K) (h : ∀ a ∈ l, f a = 0) :
    (l.map f).sum = 0 := by
  induction l with
  | nil => simp
  | cons a l ih => simp [h a (by simp), ih (fun a ha => h a (by simp [ha]))]

/-- a sum over a list with distinct keys selects at most one term -/
theorem jac_sum_ite_nodup (l : List (String × Nat)) (hv : (l.map (·.2)).Nodup) (j : Nat) (S : K) :
    (l.map fun nv => if nv.2 = j then S else 0).sum = if j ∈ l.map (·.2) then S else 0 := by
  induction l with
  | nil => simp
  | cons a l ih =>
    rw [List.map_cons, List.nodup_cons] at hv
    rw [List.map_cons, List.sum_cons, ih hv.2]
    by_cases h : a.2 = j
    · have : j ∉ l.map (·.2) := h ▸ hv.1
      simp [h, this]
    · have h' : ¬ j = a.2 := fun e => h e.symm
      have hm : (j ∈ List.map (·.2) (a :: l)) ↔ (j ∈ List.map (·.2) l) := by
        rw [List.map_cons, List.mem_cons]
        exact ⟨fun h0 => h0.resolve_left h', Or.inr⟩
      simp only [h, if_false, zero_add, hm]

/-- sum over the entry list = sum over variables and processes, weighted by the number of
    occurrences of the variable's name -/
theorem sum_buildJacobianEntries (names : List (String × Nat))
    (R : List (Process K × List Nat × List (Nat × K))) (G : JEntry K → K) :
    ((buildJacobianEntries names R).map G).sum
      = (names.map fun nv => (R.zipIdx.map fun pip =>
          ((pip.1.1.reactants.filter (fun r => r.name == nv.1)).length : K)
            * G (mkEntry nv pip)).sum).sum := by
  rw [buildJacobianEntries_eq, jac_sum_map_flatMap]
  congr 1
  apply List.map_congr_left
  intro nv _
  rw [jac_sum_map_flatMap]
  congr 1
  apply List.map_congr_left
  intro pip _
  rw [jac_sum_map_replicate]

section Rank
variable (P : Nat → Nat → Prop) (rk : Nat → Nat → Nat)
  (hinj : ∀ r c r' c', P r c → P r' c' → rk r c = rk r' c' → r = r' ∧ c = c')
include hinj

omit [CommRing K] in
theorem count_map_rk (l : List Nat) (ind i j : Nat) (hl : ∀ x ∈ l, P x ind) (hij : P i j) :
    (l.map (fun x => rk x ind)).count (rk i j) = if ind = j then l.count i else 0 := by
  induction l with
  | nil => simp
  | cons a l ih =>
    rw [List.map_cons, List.count_cons, ih (fun x hx => hl x (by simp [hx])), List.count_cons]
    by_cases h : rk a ind = rk i j
    · obtain ⟨rfl, rfl⟩ := hinj _ _ _ _ (hl a (by simp)) hij h
      simp
    · have : ¬ (a = i ∧ ind = j) := fun ⟨h1, h2⟩ => h (by rw [h1, h2])
      by_cases hj : ind = j
      · subst hj
        have : ¬ a = i := fun h1 => this ⟨h1, rfl⟩
        simp [h, this]
      · simp [h, hj]

theorem sum_filter_rk (l : List (Nat × K)) (ind i j : Nat) (hl : ∀ pr ∈ l, P pr.1 ind)
    (hij : P i j) :
    (((l.map fun p => (rk p.1 ind, p.2)).filter (fun p => p.1 = rk i j)).map (·.2)).sum
      = if ind = j then ((l.filter (fun p => p.1 = i)).map (·.2)).sum else 0 := by
  induction l with
  | nil => simp
  | cons a l ih =>
    rw [List.map_cons, List.filter_cons, List.filter_cons]
    have ih' := ih (fun x hx => hl x (by simp [hx]))
    by_cases h : rk a.1 ind = rk i j
    · obtain ⟨h1, rfl⟩ := hinj _ _ _ _ (hl a (by simp)) hij h
      simp only [decide_true, if_true, List.map_cons, List.sum_cons, ih', h1]
    · have : ¬ (a.1 = i ∧ ind = j) := fun ⟨h1, h2⟩ => h (by rw [h1, h2])
      by_cases hj : ind = j
      · subst hj
        have : ¬ a.1 = i := fun h1 => this ⟨h1, rfl⟩
        simp only [h, decide_false, Bool.false_eq_true, if_false, ih', if_true, this]
      · simp only [h, decide_false, Bool.false_eq_true, if_false, ih', hj]

/-- coefficient with which one entry hits the slot of element `(i, j)`: zero unless the entry's
    independent variable is `j`; then (occurrences of `i` among the dependents) + [i = j] − Σ yields
    of the products equal to `i`. -/
theorem entry_coef (e : JEntry K) (i j : Nat) (hd : ∀ x ∈ e.deps, P x e.info.ind)
    (hdiag : P e.info.ind e.info.ind) (hp : ∀ pr ∈ e.prods, P pr.1 e.info.ind) (hij : P i j) :
    (((entryAddIds rk e).count (rk i j) : Nat) : K)
        - (((entrySubIds rk e).filter (fun p => p.1 = rk i j)).map (·.2)).sum
      = if e.info.ind = j then
          (((e.deps.count i + (if i = j then 1 else 0) : Nat) : K)
            - ((e.prods.filter (fun p => p.1 = i)).map (·.2)).sum)
        else 0 := by
  unfold entryAddIds entrySubIds
  rw [List.count_append, count_map_rk P rk hinj e.deps e.info.ind i j hd hij,
    sum_filter_rk P rk hinj e.prods e.info.ind i j hp hij, List.count_singleton]
  by_cases hj : e.info.ind = j
  · subst hj
    by_cases hi : i = e.info.ind
    · subst hi; simp
    · have : ¬ (rk e.info.ind e.info.ind = rk i e.info.ind) := fun h =>
        hi (hinj _ _ _ _ hdiag hij h).1.symm
      simp [hi, this]
  · have : ¬ (rk e.info.ind e.info.ind = rk i j) := fun h => hj (hinj _ _ _ _ hdiag hij h).2
    simp [hj, this]

end Rank

/-- one (variable, process) pair: (number of entries) × (entry contribution) is minus the net
    coefficient times the rate constant times the formal derivative of the rate rateMonomial -/
theorem pair_contribution (y : Nat → K) (kr : K) (rs : List Nat) (pr : List (Nat × K)) (i j : Nat) :
    (rs.count j : K) * ((((rs.erase j).count i + (if i = j then 1 else 0) : Nat) : K)
        - ((pr.filter (fun p => p.1 = i)).map (·.2)).sum) * (kr * ((rs.erase j).map y).prod)
      = - (jacNet rs pr i * (kr * dMonomial y rs j)) := by
  unfold jacNet dMonomial
  by_cases h : j ∈ rs
  · rw [count_erase_add rs i j h]; ring
  · simp [List.count_eq_zero_of_not_mem h]

/-- The value of every present slot after `SubtractJacobianTerms`, through `ProcessSet.build`. -/
theorem jacobian_value (procs : List (Process K)) (m : NameMap) (t : PSTables K)
    (hb : ProcessSet.build procs m = .ok t)
    (hk : (m.map (·.1)).Nodup) (hv : (m.map (·.2)).Nodup)
    (hparam : ∀ p ∈ procs, ∀ r ∈ p.reactants, r.param = true → nmLookup m r.name = none)
    (p : Pattern) (flat : List Nat) (hf : t.jacobianFlatIds p = .ok flat)
    (hinj : ∀ r c r' c' q, p.rank r c = .ok q → p.rank r' c' = .ok q → r = r' ∧ c = c')
    (k y J0 : Array K) (hrange : ∀ r c q, p.rank r c = .ok q → q < J0.size)
    (i j q : Nat) (hq : p.rank i j = .ok q) :
    rd (t.subtractJacobianCell flat k y J0) q
      = rd J0 q - (procs.zipIdx.map fun pi =>
          jacNet (specReactIds m pi.1.reactants) (specProdIds m pi.1.products) i
            * (rd k pi.2 * dMonomial (rd y) (specReactIds m pi.1.reactants) j)).sum := by
  obtain ⟨h1, h2, h3, h4, _⟩ := jac_build_ok procs m t hb
  generalize hes : buildJacobianEntries (sortByIdx m) (procs.map (resolveProc m)) = es at h1 h2 h3 h4
  have hwf : ∀ e ∈ es, e.WF := hes ▸ buildJacobianEntries_WF _ _
  -- flat ids
  unfold PSTables.jacobianFlatIds at hf
  rw [h1, h2, h3] at hf
  have hf' := (flatIdsGo_decode p es hwf [] [] flat).mp (by simpa using hf)
  obtain ⟨hpres, hflat⟩ := hf'
  -- decode
  unfold PSTables.subtractJacobianCell
  rw [h1, h2, h4, hflat]
  have hdec := jacGo_decode k y p.rk es hwf [] [] [] J0
  simp only [List.append_nil] at hdec
  rw [hdec]
  have hqs : q < J0.size := hrange i j q hq
  rw [jacEntries_rd k y (fun e : JEntry K => e.info.pid) (fun e => e.deps) (entryAddIds p.rk)
    (entrySubIds p.rk) es J0 q hqs]
  -- rank injectivity in the `Present`/`rk` form
  have hinj' : ∀ r c r' c', p.Present r c → p.Present r' c' → p.rk r c = p.rk r' c' →
      r = r' ∧ c = c' := by
    intro r c r' c' h h' he
    unfold Pattern.Present at h h'
    rw [he] at h
    exact hinj r c r' c' _ h h'
  have hij : p.Present i j := p.present_of_ok i j q hq
  have hqk : q = p.rk i j := (p.rank_ok_rk i j q hq).symm
  -- per-entry coefficient
  have hcoef : ∀ e ∈ es,
      (((entryAddIds p.rk e).count q : K)
          - (((entrySubIds p.rk e).filter (fun p => p.1 = q)).map (·.2)).sum)
        * (rd k e.info.pid * (e.deps.map (rd y)).prod)
      = (if e.info.ind = j then
          (((e.deps.count i + (if i = j then 1 else 0) : Nat) : K)
            - ((e.prods.filter (fun p => p.1 = i)).map (·.2)).sum)
        else 0) * (rd k e.info.pid * (e.deps.map (rd y)).prod) := by
    intro e he
    obtain ⟨hd, hdiag, hp⟩ := hpres e he
    rw [hqk, entry_coef p.Present p.rk hinj' e i j hd hdiag hp hij]
  rw [List.map_congr_left hcoef, ← hes, sum_buildJacobianEntries]
  -- per (variable, process) pair
  have hnames : ∀ nv ∈ sortByIdx m,
      ((procs.map (resolveProc m)).zipIdx.map fun pip =>
          ((pip.1.1.reactants.filter (fun r => r.name == nv.1)).length : K)
            * ((if (mkEntry nv pip).info.ind = j then
                ((((mkEntry nv pip).deps.count i + (if i = j then 1 else 0) : Nat) : K)
                  - (((mkEntry nv pip).prods.filter (fun p => p.1 = i)).map (·.2)).sum)
              else 0) * (rd k (mkEntry nv pip).info.pid * ((mkEntry nv pip).deps.map (rd y)).prod))).sum
      = if nv.2 = j then
          - (procs.zipIdx.map fun pi =>
            jacNet (specReactIds m pi.1.reactants) (specProdIds m pi.1.products) i
              * (rd k pi.2 * dMonomial (rd y) (specReactIds m pi.1.reactants) j)).sum
        else 0 := by
    intro nv hnv
    have hnv' : nv ∈ m := (jac_sortByIdx_perm m).mem_iff.mp hnv
    rw [List.zipIdx_map, List.map_map]
    by_cases hj : nv.2 = j
    · rw [if_pos hj, ← jac_sum_map_neg]
      congr 1
      apply List.map_congr_left
      intro pi hpi
      have hpp : pi.1 ∈ procs := List.fst_mem_of_mem_zipIdx hpi
      simp only [Function.comp_def, Prod.map, id, mkEntry, resolveProc, hj, if_true]
      rw [count_name_eq_count_id m hk hv nv hnv' pi.1.reactants (hparam pi.1 hpp), hj,
        ← pair_contribution]
      ring
    · rw [if_neg hj]
      apply jac_sum_map_zero
      intro pi _
      simp [mkEntry, hj]
  rw [List.map_congr_left hnames, jac_sum_ite_nodup _ (((jac_sortByIdx_perm m).map _).nodup_iff.mpr hv)]
  by_cases hjm : j ∈ (sortByIdx m).map (·.2)
  · rw [if_pos hjm]; ring
  · rw [if_neg hjm]
    have hjm' : j ∉ m.map (·.2) := fun h => hjm (((jac_sortByIdx_perm m).map _).mem_iff.mpr h)
    rw [jac_sum_map_zero _ _ (fun pi _ => by
      rw [dMonomial_of_not_mem _ _ _ (fun h => hjm' (specReactIds_subset m _ _ h))]; ring)]
    ring

omit [CommRing K] in
/-- one reaction, one independent variable: one entry per occurrence of the variable, each with
    the first occurrence removed from the dependents -/
theorem entries_single (m : NameMap) (hk : (m.map (·.1)).Nodup) (hv : (m.map (·.2)).Nodup)
    (nv : String × Nat) (hnv : nv ∈ m) (p : Process K)
    (hparam : ∀ r ∈ p.reactants, r.param = true → nmLookup m r.name = none) :
    buildJacobianEntries [nv] [resolveProc m p]
      = List.replicate ((specReactIds m p.reactants).count nv.2) (mkEntry nv (resolveProc m p, 0)) := by
  rw [buildJacobianEntries_eq]
  simp only [List.zipIdx_cons, List.zipIdx_nil, List.flatMap_cons, List.flatMap_nil, List.append_nil]
  rw [← count_name_eq_count_id m hk hv nv hnv p.reactants hparam]
  rfl

/-- ... and the `d_rate_d_ind` values of these entries add up to `k · ∂(Π y)/∂y_ind` -/
theorem entries_single_sum (m : NameMap) (hk : (m.map (·.1)).Nodup) (hv : (m.map (·.2)).Nodup)
    (nv : String × Nat) (hnv : nv ∈ m) (p : Process K)
    (hparam : ∀ r ∈ p.reactants, r.param = true → nmLookup m r.name = none) (y : Array K) (kr : K) :
    ((buildJacobianEntries [nv] [resolveProc m p]).map
        (fun e => e.deps.foldl (fun acc i => acc * rd y i) kr)).sum
      = kr * dMonomial (rd y) (specReactIds m p.reactants) nv.2 := by
  rw [entries_single m hk hv nv hnv p hparam, jac_sum_map_replicate, jac_foldl_mul_eq]
  simp only [mkEntry, resolveProc, dMonomial]
  ring

end Assemble

section Defined
variable {α : Type}

/-- `SetJacobianFlatIds` cannot throw on any pattern that contains the declared elements -/
theorem flatIds_defined (procs : List (Process α)) (m : NameMap) (t : PSTables α)
    (hb : ProcessSet.build procs m = .ok t) (hk : (m.map (·.1)).Nodup)
    (hparam : ∀ p ∈ procs, ∀ r ∈ p.reactants, r.param = true → nmLookup m r.name = none)
    (p : Pattern) (hp : ∀ x ∈ t.nonZeroJacobianElements, ∃ q, p.rank x.1 x.2 = .ok q) :
    t.jacobianFlatIds p = .ok ((buildJacobianEntries (sortByIdx m) (procs.map (resolveProc m))).flatMap
      (entryFlatIds p.rk)) := by
  obtain ⟨h1, h2, h3, _⟩ := jac_build_ok procs m t hb
  unfold PSTables.jacobianFlatIds
  rw [h1, h2, h3]
  have := (flatIdsGo_decode p _ (buildJacobianEntries_WF (sortByIdx m) (procs.map (resolveProc m)))
    [] [] _).mpr ⟨?_, rfl⟩
  · simpa using this
  · intro e he
    obtain ⟨hd, hdiag, hpr⟩ := entries_in_nonZero procs m t hb hk hparam e he
    have pres : ∀ x, x ∈ t.nonZeroJacobianElements → p.Present x.1 x.2 := fun x hx => by
      obtain ⟨q, hq⟩ := hp x hx
      exact p.present_of_ok _ _ q hq
    exact ⟨fun x hx => pres _ (hd x hx), pres _ hdiag, fun pr hpr' => pres _ (hpr pr hpr')⟩

end Defined

end Micm
