/-
Helper lemmas for `Properties/C18b.lean`: what a lane loop does to the memory when its destination is the lane
buffer or the third argument, and how runs of generated segments compose.
-/
import Micm.Model.JitProg
namespace Micm
set_option linter.unusedSectionVars false

section
variable {α : Type} [OfNat α 0] [Add α] [Sub α] [Mul α] [Div α]

theorem JProg.run_append (L : Nat) (p q : JProg α) (m : JMem α) :
    JProg.run L (p ++ q) m = JProg.run L q (JProg.run L p m) := by
  simp [JProg.run, List.foldl_append]

theorem JProg.run_cons (L : Nat) (lp : JLoop α) (p : JProg α) (m : JMem α) :
    JProg.run L (lp :: p) m = JProg.run L p (lp.run L m) := rfl

theorem JProg.run_nil (L : Nat) (m : JMem α) : JProg.run L ([] : JProg α) m = m := rfl

theorem JProg.run_map {β : Type} (L : Nat) (f : β → JLoop α) (l : List β) (m : JMem α) :
    JProg.run L (l.map f) m = l.foldl (fun m b => (f b).run L m) m := by
  simp [JProg.run, List.foldl_map]

/-- a loop that stores into the lane buffer changes nothing else; the buffer evolves lane by lane -/
theorem fold_store_buf (e : JExpr α) (ls : List Nat) (m : JMem α) :
    ls.foldl (fun m i => m.store i (e.eval m i) .buf) m =
      { m with buf := ls.foldl (fun b i => wr b i (e.eval { m with buf := b } i)) m.buf } := by
  induction ls generalizing m with
  | nil => rfl
  | cons i ls ih =>
    simp only [List.foldl_cons]
    rw [ih]
    rfl

/-- a loop that stores into the third argument changes nothing else -/
theorem fold_store_a2 (e : JExpr α) (off : Nat) (ls : List Nat) (m : JMem α) :
    ls.foldl (fun m i => m.store i (e.eval m i) (.arg 2 off)) m =
      { m with a2 := ls.foldl (fun b i => wr b (i + off) (e.eval { m with a2 := b } i)) m.a2 } := by
  induction ls generalizing m with
  | nil => rfl
  | cons i ls ih =>
    simp only [List.foldl_cons]
    rw [ih]
    rfl

theorem fold_store_a1 (e : JExpr α) (off : Nat) (ls : List Nat) (m : JMem α) :
    ls.foldl (fun m i => m.store i (e.eval m i) (.arg 1 off)) m =
      { m with a1 := ls.foldl (fun b i => wr b (i + off) (e.eval { m with a1 := b } i)) m.a1 } := by
  induction ls generalizing m with
  | nil => rfl
  | cons i ls ih =>
    simp only [List.foldl_cons]
    rw [ih]
    rfl

theorem fold_store_a0 (e : JExpr α) (off : Nat) (ls : List Nat) (m : JMem α) :
    ls.foldl (fun m i => m.store i (e.eval m i) (.arg 0 off)) m =
      { m with a0 := ls.foldl (fun b i => wr b (i + off) (e.eval { m with a0 := b } i)) m.a0 } := by
  induction ls generalizing m with
  | nil => rfl
  | cons i ls ih =>
    simp only [List.foldl_cons]
    rw [ih]
    rfl

/-- writing lanes `0 … n-1` of a buffer of exactly `n` elements with values that do not depend on the buffer
    leaves exactly those values (whatever the buffer held: the `alloca` is uninitialised) -/
theorem fold_wr_range (f : Nat → α) (n : Nat) (b : Array α) (hb : b.size = n) :
    (List.range n).foldl (fun b i => wr b i (f i)) b = ((List.range n).map f).toArray := by
  have key : ∀ k, k ≤ n → ∀ b : Array α, b.size = n →
      ((List.range k).foldl (fun b i => wr b i (f i)) b).size = n ∧
      ∀ j, j < n → rd ((List.range k).foldl (fun b i => wr b i (f i)) b) j = if j < k then f j else rd b j := by
    intro k
    induction k with
    | zero => intro _ b hb; exact ⟨by simpa using hb, fun j _ => by simp⟩
    | succ k ih =>
      intro hk b hb
      obtain ⟨hs, hv⟩ := ih (by omega) b hb
      rw [List.range_succ, List.foldl_append]
      refine ⟨by simp [hs], fun j hj => ?_⟩
      simp only [List.foldl_cons, List.foldl_nil]
      rw [rd_wr]
      by_cases hjk : k = j
      · subst hjk
        have : k < ((List.range k).foldl (fun b i => wr b i (f i)) b).size := by rw [hs]; exact hj
        simp [this]
      · rw [if_neg (fun h => hjk h.1), hv j hj]
        by_cases h1 : j < k
        · simp [h1, Nat.lt_succ_of_lt h1]
        · have : ¬ j < k + 1 := by omega
          simp [h1, this]
  obtain ⟨hs, hv⟩ := key n (Nat.le_refl n) b hb
  apply Array.ext
  · simp [hs]
  · intro j h1 h2
    have hj : j < n := by rw [hs] at h1; exact h1
    have h := hv j hj
    rw [if_pos hj] at h
    have e1 : rd ((List.range n).foldl (fun b i => wr b i (f i)) b) j
        = ((List.range n).foldl (fun b i => wr b i (f i)) b)[j] := by
      simp [rd, Array.getD_eq_getD_getElem?, Array.getElem?_eq_getElem h1]
    rw [e1] at h
    rw [h]
    simp

end
end Micm

namespace Micm
set_option linter.unusedSectionVars false
section
variable {α : Type} [OfNat α 0] [Add α] [Sub α] [Mul α] [Div α]

theorem JProg.run_flatMap {β : Type} (L : Nat) (f : β → JProg α) (l : List β) (m : JMem α) :
    JProg.run L (l.flatMap f) m = l.foldl (fun m b => JProg.run L (f b) m) m := by
  induction l generalizing m with
  | nil => rfl
  | cons b l ih => rw [List.flatMap_cons, JProg.run_append, ih]; rfl

theorem JProg.run_singleton (L : Nat) (lp : JLoop α) (m : JMem α) : JProg.run L [lp] m = lp.run L m := rfl

end
end Micm
