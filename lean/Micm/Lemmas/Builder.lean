/-
Helper lemmas for C14 / C20 (core Lean only):
 * `nmInsert` / `nmOfNames` / `nmLookup`: lookup after insertion, key set, strict sortedness of the
   keys (the `std::map` invariant), the summary predicate `NmIndexes m names`
   ("`m` is exactly `names[i] ↦ i`");
 * `SystemDecl.stateSize = uniqueNames.length`;
 * `getSpeciesMap` (reordering off / on, using `markowitz_perm`);
 * `setAbsoluteTolerances` as a sequential list of assignments (`tolAssigns`, `applyTol`);
 * `build` as a decision tree (`build_eq`) and the outcome function `buildOutcome`.
-/
import Micm.Lemmas.Forcing
import Micm.Lemmas.Markowitz
namespace Micm

/-! ### name maps -/

def nmKeys (m : NameMap) : List String := m.map (·.1)

/-- the `std::map` invariant: keys strictly increasing -/
def NmSorted (m : NameMap) : Prop := m.Pairwise fun a b => a.1 < b.1

theorem nmLookup_nil (k : String) : nmLookup [] k = none := rfl

theorem nmLookup_cons (e : String × Nat) (l : NameMap) (k : String) :
    nmLookup (e :: l) k = if e.1 = k then some e.2 else nmLookup l k := by
  unfold nmLookup
  by_cases h : e.1 = k
  · simp [h]
  · simp [h]

/-- lookup after `m[k] = v` (holds for every association list, sorted or not) -/
theorem nmLookup_nmInsert (m : NameMap) (k : String) (v : Nat) (k' : String) :
    nmLookup (nmInsert m k v) k' = if k' = k then some v else nmLookup m k' := by
  induction m with
  | nil =>
    unfold nmInsert
    rw [nmLookup_cons]
    by_cases h : k = k'
    · simp [h]
    · simp [h, Ne.symm h, nmLookup_nil]
  | cons e l ih =>
    unfold nmInsert
    by_cases h1 : k < e.1
    · rw [if_pos h1, nmLookup_cons]
      by_cases h : k = k'
      · simp [h]
      · simp [h, Ne.symm h]
    · rw [if_neg h1]
      by_cases h2 : k = e.1
      · have h2' : (k == e.1) = true := by simp [h2]
        rw [if_pos h2', nmLookup_cons, nmLookup_cons]
        by_cases h : k = k'
        · simp [h]
        · have : ¬ e.1 = k' := by rw [← h2]; exact h
          simp [h, Ne.symm h, this]
      · have h2' : ¬ (k == e.1) = true := by simp [h2]
        rw [if_neg h2', nmLookup_cons, nmLookup_cons, ih]
        by_cases h : e.1 = k'
        · have : ¬ k' = k := by rw [← h]; exact Ne.symm h2
          simp [h, this]
        · simp [h]

theorem nmLookup_isSome_iff (m : NameMap) (k : String) : (nmLookup m k).isSome = true ↔ k ∈ nmKeys m := by
  induction m with
  | nil => simp [nmLookup_nil, nmKeys]
  | cons e l ih =>
    rw [nmLookup_cons]
    by_cases h : e.1 = k
    · simp [h, nmKeys]
    · simp only [h, if_false, ih, nmKeys, List.map_cons, List.mem_cons]
      constructor
      · exact .inr
      · rintro (h' | h')
        · exact absurd h'.symm h
        · exact h'

theorem nmLookup_eq_none_iff (m : NameMap) (k : String) : nmLookup m k = none ↔ k ∉ nmKeys m := by
  rw [← nmLookup_isSome_iff]
  cases nmLookup m k <;> simp

theorem nmLookup_eq_some_mem {m : NameMap} {k : String} {v : Nat} (h : nmLookup m k = some v) : (k, v) ∈ m := by
  induction m with
  | nil => simp [nmLookup_nil] at h
  | cons e l ih =>
    rw [nmLookup_cons] at h
    by_cases he : e.1 = k
    · simp only [he, if_true, Option.some.injEq] at h
      have : e = (k, v) := Prod.ext he h
      rw [this]; exact List.mem_cons_self
    · simp only [he, if_false] at h
      exact List.mem_cons_of_mem _ (ih h)

theorem mem_nmKeys_nmInsert (m : NameMap) (k : String) (v : Nat) (k' : String) :
    k' ∈ nmKeys (nmInsert m k v) ↔ k' = k ∨ k' ∈ nmKeys m := by
  rw [← nmLookup_isSome_iff, ← nmLookup_isSome_iff, nmLookup_nmInsert]
  by_cases h : k' = k <;> simp [h]

theorem mem_nmInsert {m : NameMap} {k : String} {v : Nat} {b : String × Nat} (h : b ∈ nmInsert m k v) :
    b = (k, v) ∨ b ∈ m := by
  induction m with
  | nil => unfold nmInsert at h; simpa using h
  | cons e l ih =>
    unfold nmInsert at h
    split at h
    · rcases List.mem_cons.1 h with h | h
      · exact .inl h
      · exact .inr h
    · split at h
      · rcases List.mem_cons.1 h with h | h
        · exact .inl h
        · exact .inr (List.mem_cons_of_mem _ h)
      · rcases List.mem_cons.1 h with h | h
        · exact .inr (h ▸ List.mem_cons_self)
        · rcases ih h with h | h
          · exact .inl h
          · exact .inr (List.mem_cons_of_mem _ h)

theorem NmSorted.nil : NmSorted [] := List.Pairwise.nil

/-- insertion keeps the keys strictly increasing -/
theorem NmSorted.nmInsert {m : NameMap} (hm : NmSorted m) (k : String) (v : Nat) : NmSorted (nmInsert m k v) := by
  induction m with
  | nil => unfold Micm.nmInsert; exact List.pairwise_singleton _ _
  | cons e l ih =>
    unfold NmSorted at hm ih ⊢
    rw [List.pairwise_cons] at hm
    unfold Micm.nmInsert
    by_cases h1 : k < e.1
    · rw [if_pos h1]
      refine List.Pairwise.cons ?_ (List.pairwise_cons.2 hm)
      intro b hb
      rcases List.mem_cons.1 hb with hb | hb
      · rw [hb]; exact h1
      · exact String.lt_trans h1 (hm.1 b hb)
    · rw [if_neg h1]
      by_cases h2 : k = e.1
      · have h2' : (k == e.1) = true := by simp [h2]
        rw [if_pos h2']
        refine List.Pairwise.cons ?_ hm.2
        intro b hb
        show k < b.1
        rw [h2]; exact hm.1 b hb
      · have h2' : ¬ (k == e.1) = true := by simp [h2]
        rw [if_neg h2']
        refine List.Pairwise.cons ?_ (ih hm.2)
        intro b hb
        rcases mem_nmInsert hb with hb | hb
        · rw [hb]
          show e.1 < k
          have hle : e.1 ≤ k := String.not_lt.1 h1
          apply Decidable.byContradiction
          intro hn
          exact h2 (String.le_antisymm (String.not_lt.1 hn) hle)
        · exact hm.1 b hb

theorem NmSorted.nodup_keys {m : NameMap} (hm : NmSorted m) : (nmKeys m).Nodup := by
  unfold nmKeys List.Nodup
  rw [List.pairwise_map]
  exact List.Pairwise.imp (fun h => String.ne_of_lt h) hm

/-- with distinct keys every entry is found by its key -/
theorem nmLookup_of_mem {m : NameMap} (hn : (nmKeys m).Nodup) {e : String × Nat} (he : e ∈ m) :
    nmLookup m e.1 = some e.2 := by
  induction m with
  | nil => cases he
  | cons a l ih =>
    unfold nmKeys at hn ih
    rw [List.map_cons, List.nodup_cons] at hn
    rw [nmLookup_cons]
    rcases List.mem_cons.1 he with h | h
    · simp [h]
    · have : ¬ a.1 = e.1 := by
        intro heq
        exact hn.1 (heq ▸ List.mem_map_of_mem h)
      simp only [this, if_false]
      exact ih hn.2 h

/-- `species_map[name] = index` for a list of (name, index) pairs, in order -/
def nmInsertAll (m0 : NameMap) (ps : List (String × Nat)) : NameMap :=
  ps.foldl (fun m p => nmInsert m p.1 p.2) m0

theorem nmOfNames_eq (names : List String) : nmOfNames names = nmInsertAll [] names.zipIdx := rfl

theorem nmInsertAll_cons (m0 : NameMap) (p : String × Nat) (ps : List (String × Nat)) :
    nmInsertAll m0 (p :: ps) = nmInsertAll (nmInsert m0 p.1 p.2) ps := rfl

theorem nmLookup_nmInsertAll_of_not_mem (m0 : NameMap) (ps : List (String × Nat)) (k : String)
    (h : k ∉ ps.map (·.1)) : nmLookup (nmInsertAll m0 ps) k = nmLookup m0 k := by
  induction ps generalizing m0 with
  | nil => rfl
  | cons p ps ih =>
    rw [List.map_cons, List.mem_cons, not_or] at h
    rw [nmInsertAll_cons, ih _ h.2, nmLookup_nmInsert, if_neg h.1]

theorem nmLookup_nmInsertAll_of_mem (m0 : NameMap) (ps : List (String × Nat)) (k : String) (v : Nat)
    (hn : (ps.map (·.1)).Nodup) (h : (k, v) ∈ ps) : nmLookup (nmInsertAll m0 ps) k = some v := by
  induction ps generalizing m0 with
  | nil => cases h
  | cons p ps ih =>
    rw [List.map_cons, List.nodup_cons] at hn
    rw [nmInsertAll_cons]
    rcases List.mem_cons.1 h with h | h
    · subst h
      rw [nmLookup_nmInsertAll_of_not_mem _ _ _ hn.1, nmLookup_nmInsert, if_pos rfl]
    · exact ih _ hn.2 h

theorem mem_nmKeys_nmInsertAll (m0 : NameMap) (ps : List (String × Nat)) (k : String) :
    k ∈ nmKeys (nmInsertAll m0 ps) ↔ k ∈ nmKeys m0 ∨ k ∈ ps.map (·.1) := by
  induction ps generalizing m0 with
  | nil => simp [nmInsertAll]
  | cons p ps ih =>
    rw [nmInsertAll_cons, ih, mem_nmKeys_nmInsert, List.map_cons, List.mem_cons]
    constructor
    · rintro ((h | h) | h)
      · exact .inr (.inl h)
      · exact .inl h
      · exact .inr (.inr h)
    · rintro (h | h | h)
      · exact .inl (.inr h)
      · exact .inl (.inl h)
      · exact .inr h

theorem NmSorted.nmInsertAll {m0 : NameMap} (hm : NmSorted m0) (ps : List (String × Nat)) :
    NmSorted (nmInsertAll m0 ps) := by
  induction ps generalizing m0 with
  | nil => exact hm
  | cons p ps ih => rw [nmInsertAll_cons]; exact ih (hm.nmInsert _ _)

theorem map_fst_zipIdx (names : List String) : names.zipIdx.map (·.1) = names := by
  simp [List.zipIdx_map_fst]

theorem getElem_mem_zipIdx (names : List String) (i : Nat) (h : i < names.length) :
    (names[i], i) ∈ names.zipIdx := by
  rw [List.mem_zipIdx_iff_getElem?]
  simp [h]

/-- `m` is exactly the map `names[i] ↦ i` (as a strictly sorted association list) -/
structure NmIndexes (m : NameMap) (names : List String) : Prop where
  sorted : NmSorted m
  keys : ∀ k, k ∈ nmKeys m ↔ k ∈ names
  lookup : ∀ i (h : i < names.length), nmLookup m names[i] = some i

/-- inserting `names[i] ↦ i` for a duplicate-free list, on top of any sorted map whose keys are
    among the names -/
theorem NmIndexes.of_insertAll {m0 : NameMap} (h0 : NmSorted m0) (names : List String)
    (hk : ∀ k ∈ nmKeys m0, k ∈ names) (hn : names.Nodup) : NmIndexes (nmInsertAll m0 names.zipIdx) names where
  sorted := h0.nmInsertAll _
  keys k := by
    rw [mem_nmKeys_nmInsertAll, map_fst_zipIdx]
    exact ⟨fun h => h.elim (hk k) id, .inr⟩
  lookup i h := nmLookup_nmInsertAll_of_mem _ _ _ _ (by rw [map_fst_zipIdx]; exact hn) (getElem_mem_zipIdx names i h)

theorem NmIndexes.nmOfNames {names : List String} (hn : names.Nodup) : NmIndexes (nmOfNames names) names :=
  NmIndexes.of_insertAll NmSorted.nil names (fun _ h => by cases h) hn

section NmIndexesFacts
variable {m : NameMap} {names : List String}

theorem NmIndexes.keys_perm (h : NmIndexes m names) (hn : names.Nodup) : (nmKeys m).Perm names :=
  (List.perm_ext_iff_of_nodup h.sorted.nodup_keys hn).2 h.keys

theorem NmIndexes.length_eq (h : NmIndexes m names) (hn : names.Nodup) : m.length = names.length := by
  have := (h.keys_perm hn).length_eq
  simpa [nmKeys] using this

/-- the lookup, completely: `m[k] = i ↔ names[i] = k` -/
theorem NmIndexes.lookup_eq_some_iff (h : NmIndexes m names) (_hn : names.Nodup) (k : String) (i : Nat) :
    nmLookup m k = some i ↔ names[i]? = some k := by
  constructor
  · intro hl
    have hk : k ∈ names := (h.keys k).1 ((nmLookup_isSome_iff m k).1 (by simp [hl]))
    obtain ⟨j, hj, rfl⟩ := List.getElem_of_mem hk
    have := h.lookup j hj
    rw [hl] at this
    cases this
    simp [hj]
  · intro hi
    obtain ⟨hlt, rfl⟩ := List.getElem?_eq_some_iff.1 hi
    exact h.lookup i hlt

theorem NmIndexes.mem_iff (h : NmIndexes m names) (hn : names.Nodup) (e : String × Nat) :
    e ∈ m ↔ names[e.2]? = some e.1 := by
  rw [← h.lookup_eq_some_iff hn]
  exact ⟨nmLookup_of_mem h.sorted.nodup_keys, nmLookup_eq_some_mem⟩

theorem NmIndexes.lookup_lt (h : NmIndexes m names) (hn : names.Nodup) {k : String} {i : Nat}
    (hl : nmLookup m k = some i) : i < names.length :=
  (List.getElem?_eq_some_iff.1 ((h.lookup_eq_some_iff hn k i).1 hl)).1

theorem NmIndexes.lookup_inj (h : NmIndexes m names) (hn : names.Nodup) {k k' : String} {i : Nat}
    (hl : nmLookup m k = some i) (hl' : nmLookup m k' = some i) : k = k' := by
  have a := (h.lookup_eq_some_iff hn k i).1 hl
  have b := (h.lookup_eq_some_iff hn k' i).1 hl'
  rw [a] at b
  exact Option.some.inj b

theorem NmIndexes.lookup_of_mem (h : NmIndexes m names) {k : String} (hk : k ∈ names) :
    ∃ i, i < names.length ∧ nmLookup m k = some i := by
  obtain ⟨j, hj, rfl⟩ := List.getElem_of_mem hk
  exact ⟨j, hj, h.lookup j hj⟩

/-- the inverse search used for `variable_names_` -/
theorem NmIndexes.find_value (h : NmIndexes m names) (hn : names.Nodup) (i : Nat) (hi : i < names.length) :
    m.find? (·.2 == i) = some (names[i], i) := by
  have hmem : (names[i], i) ∈ m := (h.mem_iff hn _).2 (by simp [hi])
  cases hf : m.find? (·.2 == i) with
  | none =>
    have := List.find?_eq_none.1 hf _ hmem
    simp at this
  | some e =>
    have he : e ∈ m := List.mem_of_find?_eq_some hf
    have h2 : e.2 = i := by simpa using List.find?_some hf
    have := (h.mem_iff hn e).1 he
    rw [h2] at this
    have h1 : names[i] = e.1 := by simpa [hi] using this
    rw [h1, ← h2]

theorem NmIndexes.variableNames (h : NmIndexes m names) (hn : names.Nodup) :
    ((List.range names.length).map fun i => ((m.find? (·.2 == i)).map (·.1)).getD "") = names := by
  apply List.ext_getElem
  · simp
  · intro i h1 h2
    simp only [List.length_map, List.length_range] at h1
    simp [h.find_value hn i h1]

end NmIndexesFacts

end Micm
