/-
Helper lemmas for C14 / C20 (core Lean only):
 * `nmInsert` / `nmOfNames` / `nmLookup`: lookup after insertion, key set, strict sortedness of the
   keys (the `std::map` invariant), the summary predicate `NmIndexes m names`
   ("`m` is exactly `names[i] ↦ i`");
 * `SystemDecl.stateSize = uniqueNames.length`;
 * `getSpeciesMap` (reordering off / on, using `markowitz_perm`);
 * `setAbsoluteTolerances` as a sequential list of assignments (`tolAssigns`, `applyTol`);
 * `build` as a decision tree (`build_eq`) and the outcome function `buildOutcome`.
-/
import Micm.Lemmas.Forcing
import Micm.Lemmas.Markowitz
namespace Micm

/-! ### name maps -/

def nmKeys (m : NameMap) : List String := m.map (·.1)

/-- the `std::map` invariant: keys strictly increasing -/
def NmSorted (m : NameMap) : Prop := m.Pairwise fun a b => a.1 < b.1

theorem nmLookup_nil (k : String) : nmLookup [] k = none := rfl

theorem nmLookup_cons (e : String × Nat) (l : NameMap) (k : String) :
    nmLookup (e :: l) k = if e.1 = k then some e.2 else nmLookup l k := by
  unfold nmLookup
  by_cases h : e.1 = k
  · simp [h]
  · simp [h]

/-- lookup after `m[k] = v` (holds for every association list, sorted or not) -/
theorem nmLookup_nmInsert (m : NameMap) (k : String) (v : Nat) (k' : String) :
    nmLookup (nmInsert m k v) k' = if k' = k then some v else nmLookup m k' := by
  induction m with
  | nil =>
    unfold nmInsert
    rw [nmLookup_cons]
    by_cases h : k = k'
    · simp [h]
    · simp [h, Ne.symm h, nmLookup_nil]
  | cons e l ih =>
    unfold nmInsert
    by_cases h1 : k < e.1
    · rw [if_pos h1, nmLookup_cons]
      by_cases h : k = k'
      · simp [h]
      · simp [h, Ne.symm h]
    · rw [if_neg h1]
      by_cases h2 : k = e.1
      · have h2' : (k == e.1) = true := by simp [h2]
        rw [if_pos h2', nmLookup_cons, nmLookup_cons]
        by_cases h : k = k'
        · simp [h]
        · have : ¬ e.1 = k' := by rw [← h2]; exact h
          simp [h, Ne.symm h, this]
      · have h2' : ¬ (k == e.1) = true := by simp [h2]
        rw [if_neg h2', nmLookup_cons, nmLookup_cons, ih]
        by_cases h : e.1 = k'
        · have : ¬ k' = k := by rw [← h]; exact Ne.symm h2
          simp [h, this]
        · simp [h]

theorem nmLookup_isSome_iff (m : NameMap) (k : String) : (nmLookup m k).isSome = true ↔ k ∈ nmKeys m := by
  induction m with
  | nil => simp [nmLookup_nil, nmKeys]
  | cons e l ih =>
    rw [nmLookup_cons]
    by_cases h : e.1 = k
    · simp [h, nmKeys]
    · simp only [h, if_false, ih, nmKeys, List.map_cons, List.mem_cons]
      constructor
      · exact .inr
      · rintro (h' | h')
        · exact absurd h'.symm h
        · exact h'

theorem nmLookup_eq_none_iff (m : NameMap) (k : String) : nmLookup m k = none ↔ k ∉ nmKeys m := by
  rw [← nmLookup_isSome_iff]
  cases nmLookup m k <;> simp

theorem nmLookup_eq_some_mem {m : NameMap} {k : String} {v : Nat} (h : nmLookup m k = some v) : (k, v) ∈ m := by
  induction m with
  | nil => simp [nmLookup_nil] at h
  | cons e l ih =>
    rw [nmLookup_cons] at h
    by_cases he : e.1 = k
    · simp only [he, if_true, Option.some.injEq] at h
      have : e = (k, v) := Prod.ext he h
      rw [this]; exact List.mem_cons_self
    · simp only [he, if_false] at h
      exact List.mem_cons_of_mem _ (ih h)

theorem mem_nmKeys_nmInsert (m : NameMap) (k : String) (v : Nat) (k' : String) :
    k' ∈ nmKeys (nmInsert m k v) ↔ k' = k ∨ k' ∈ nmKeys m := by
  rw [← nmLookup_isSome_iff, ← nmLookup_isSome_iff, nmLookup_nmInsert]
  by_cases h : k' = k <;> simp [h]

theorem mem_nmInsert {m : NameMap} {k : String} {v : Nat} {b : String × Nat} (h : b ∈ nmInsert m k v) :
    b = (k, v) ∨ b ∈ m := by
  induction m with
  | nil => unfold nmInsert at h; simpa using h
  | cons e l ih =>
    unfold nmInsert at h
    split at h
    · rcases List.mem_cons.1 h with h | h
      · exact .inl h
      · exact .inr h
    · split at h
      · rcases List.mem_cons.1 h with h | h
        · exact .inl h
        · exact .inr (List.mem_cons_of_mem _ h)
      · rcases List.mem_cons.1 h with h | h
        · exact .inr (h ▸ List.mem_cons_self)
        · rcases ih h with h | h
          · exact .inl h
          · exact .inr (List.mem_cons_of_mem _ h)

theorem NmSorted.nil : NmSorted [] := List.Pairwise.nil

/-- insertion keeps the keys strictly increasing -/
theorem NmSorted.nmInsert {m : NameMap} (hm : NmSorted m) (k : String) (v : Nat) : NmSorted (nmInsert m k v) := by
  induction m with
  | nil => unfold Micm.nmInsert; exact List.pairwise_singleton _ _
  | cons e l ih =>
    unfold NmSorted at hm ih ⊢
    rw [List.pairwise_cons] at hm
    unfold Micm.nmInsert
    by_cases h1 : k < e.1
    · rw [if_pos h1]
      refine List.Pairwise.cons ?_ (List.pairwise_cons.2 hm)
      intro b hb
      rcases List.mem_cons.1 hb with hb | hb
      · rw [hb]; exact h1
      · exact String.lt_trans h1 (hm.1 b hb)
    · rw [if_neg h1]
      by_cases h2 : k = e.1
      · have h2' : (k == e.1) = true := by simp [h2]
        rw [if_pos h2']
        refine List.Pairwise.cons ?_ hm.2
        intro b hb
        show k < b.1
        rw [h2]; exact hm.1 b hb
      · have h2' : ¬ (k == e.1) = true := by simp [h2]
        rw [if_neg h2']
        refine List.Pairwise.cons ?_ (ih hm.2)
        intro b hb
        rcases mem_nmInsert hb with hb | hb
        · rw [hb]
          show e.1 < k
          have hle : e.1 ≤ k := String.not_lt.1 h1
          apply Decidable.byContradiction
          intro hn
          exact h2 (String.le_antisymm (String.not_lt.1 hn) hle)
        · exact hm.1 b hb

theorem NmSorted.nodup_keys {m : NameMap} (hm : NmSorted m) : (nmKeys m).Nodup := by
  unfold nmKeys List.Nodup
  rw [List.pairwise_map]
  exact List.Pairwise.imp (fun h => String.ne_of_lt h) hm

/-- with distinct keys every entry is found by its key -/
theorem nmLookup_of_mem {m : NameMap} (hn : (nmKeys m).Nodup) {e : String × Nat} (he : e ∈ m) :
    nmLookup m e.1 = some e.2 := by
  induction m with
  | nil => cases he
  | cons a l ih =>
    unfold nmKeys at hn ih
    rw [List.map_cons, List.nodup_cons] at hn
    rw [nmLookup_cons]
    rcases List.mem_cons.1 he with h | h
    · simp [h]
    · have : ¬ a.1 = e.1 := by
        intro heq
        exact hn.1 (heq ▸ List.mem_map_of_mem h)
      simp only [this, if_false]
      exact ih hn.2 h

/-- `species_map[name] = index` for a list of (name, index) pairs, in order -/
def nmInsertAll (m0 : NameMap) (ps : List (String × Nat)) : NameMap :=
  ps.foldl (fun m p => nmInsert m p.1 p.2) m0

theorem nmOfNames_eq (names : List String) : nmOfNames names = nmInsertAll [] names.zipIdx := rfl

theorem nmInsertAll_cons (m0 : NameMap) (p : String × Nat) (ps : List (String × Nat)) :
    nmInsertAll m0 (p :: ps) = nmInsertAll (nmInsert m0 p.1 p.2) ps := rfl

theorem nmLookup_nmInsertAll_of_not_mem (m0 : NameMap) (ps : List (String × Nat)) (k : String)
    (h : k ∉ ps.map (·.1)) : nmLookup (nmInsertAll m0 ps) k = nmLookup m0 k := by
  induction ps generalizing m0 with
  | nil => rfl
  | cons p ps ih =>
    rw [List.map_cons, List.mem_cons, not_or] at h
    rw [nmInsertAll_cons, ih _ h.2, nmLookup_nmInsert, if_neg h.1]

theorem nmLookup_nmInsertAll_of_mem (m0 : NameMap) (ps : List (String × Nat)) (k : String) (v : Nat)
    (hn : (ps.map (·.1)).Nodup) (h : (k, v) ∈ ps) : nmLookup (nmInsertAll m0 ps) k = some v := by
  induction ps generalizing m0 with
  | nil => cases h
  | cons p ps ih =>
    rw [List.map_cons, List.nodup_cons] at hn
    rw [nmInsertAll_cons]
    rcases List.mem_cons.1 h with h | h
    · subst h
      rw [nmLookup_nmInsertAll_of_not_mem _ _ _ hn.1, nmLookup_nmInsert, if_pos rfl]
    · exact ih _ hn.2 h

theorem mem_nmKeys_nmInsertAll (m0 : NameMap) (ps : List (String × Nat)) (k : String) :
    k ∈ nmKeys (nmInsertAll m0 ps) ↔ k ∈ nmKeys m0 ∨ k ∈ ps.map (·.1) := by
  induction ps generalizing m0 with
  | nil => simp [nmInsertAll]
  | cons p ps ih =>
    rw [nmInsertAll_cons, ih, mem_nmKeys_nmInsert, List.map_cons, List.mem_cons]
    constructor
    · rintro ((h | h) | h)
      · exact .inr (.inl h)
      · exact .inl h
      · exact .inr (.inr h)
    · rintro (h | h | h)
      · exact .inl (.inr h)
      · exact .inl (.inl h)
      · exact .inr h

theorem NmSorted.nmInsertAll {m0 : NameMap} (hm : NmSorted m0) (ps : List (String × Nat)) :
    NmSorted (nmInsertAll m0 ps) := by
  induction ps generalizing m0 with
  | nil => exact hm
  | cons p ps ih => rw [nmInsertAll_cons]; exact ih (hm.nmInsert _ _)

theorem map_fst_zipIdx (names : List String) : names.zipIdx.map (·.1) = names := by
  simp [List.zipIdx_map_fst]

theorem getElem_mem_zipIdx (names : List String) (i : Nat) (h : i < names.length) :
    (names[i], i) ∈ names.zipIdx := by
  rw [List.mem_zipIdx_iff_getElem?]
  simp [h]

/-- `m` is exactly the map `names[i] ↦ i` (as a strictly sorted association list) -/
structure NmIndexes (m : NameMap) (names : List String) : Prop where
  sorted : NmSorted m
  keys : ∀ k, k ∈ nmKeys m ↔ k ∈ names
  lookup : ∀ i (h : i < names.length), nmLookup m names[i] = some i

/-- inserting `names[i] ↦ i` for a duplicate-free list, on top of any sorted map whose keys are
    among the names -/
theorem NmIndexes.of_insertAll {m0 : NameMap} (h0 : NmSorted m0) (names : List String)
    (hk : ∀ k ∈ nmKeys m0, k ∈ names) (hn : names.Nodup) : NmIndexes (nmInsertAll m0 names.zipIdx) names where
  sorted := h0.nmInsertAll _
  keys k := by
    rw [mem_nmKeys_nmInsertAll, map_fst_zipIdx]
    exact ⟨fun h => h.elim (hk k) id, .inr⟩
  lookup i h := nmLookup_nmInsertAll_of_mem _ _ _ _ (by rw [map_fst_zipIdx]; exact hn) (getElem_mem_zipIdx names i h)

theorem NmIndexes.nmOfNames {names : List String} (hn : names.Nodup) : NmIndexes (nmOfNames names) names :=
  NmIndexes.of_insertAll NmSorted.nil names (fun _ h => by cases h) hn

section NmIndexesFacts
variable {m : NameMap} {names : List String}

theorem NmIndexes.keys_perm (h : NmIndexes m names) (hn : names.Nodup) : (nmKeys m).Perm names :=
  (List.perm_ext_iff_of_nodup h.sorted.nodup_keys hn).2 h.keys

theorem NmIndexes.length_eq (h : NmIndexes m names) (hn : names.Nodup) : m.length = names.length := by
  have := (h.keys_perm hn).length_eq
  simpa [nmKeys] using this

/-- the lookup, completely: `m[k] = i ↔ names[i] = k` -/
theorem NmIndexes.lookup_eq_some_iff (h : NmIndexes m names) (_hn : names.Nodup) (k : String) (i : Nat) :
    nmLookup m k = some i ↔ names[i]? = some k := by
  constructor
  · intro hl
    have hk : k ∈ names := (h.keys k).1 ((nmLookup_isSome_iff m k).1 (by simp [hl]))
    obtain ⟨j, hj, rfl⟩ := List.getElem_of_mem hk
    have := h.lookup j hj
    rw [hl] at this
    cases this
    simp [hj]
  · intro hi
    obtain ⟨hlt, rfl⟩ := List.getElem?_eq_some_iff.1 hi
    exact h.lookup i hlt

theorem NmIndexes.mem_iff (h : NmIndexes m names) (hn : names.Nodup) (e : String × Nat) :
    e ∈ m ↔ names[e.2]? = some e.1 := by
  rw [← h.lookup_eq_some_iff hn]
  exact ⟨nmLookup_of_mem h.sorted.nodup_keys, nmLookup_eq_some_mem⟩

theorem NmIndexes.lookup_lt (h : NmIndexes m names) (hn : names.Nodup) {k : String} {i : Nat}
    (hl : nmLookup m k = some i) : i < names.length :=
  (List.getElem?_eq_some_iff.1 ((h.lookup_eq_some_iff hn k i).1 hl)).1

theorem NmIndexes.lookup_inj (h : NmIndexes m names) (hn : names.Nodup) {k k' : String} {i : Nat}
    (hl : nmLookup m k = some i) (hl' : nmLookup m k' = some i) : k = k' := by
  have a := (h.lookup_eq_some_iff hn k i).1 hl
  have b := (h.lookup_eq_some_iff hn k' i).1 hl'
  rw [a] at b
  exact Option.some.inj b

theorem NmIndexes.lookup_of_mem (h : NmIndexes m names) {k : String} (hk : k ∈ names) :
    ∃ i, i < names.length ∧ nmLookup m k = some i := by
  obtain ⟨j, hj, rfl⟩ := List.getElem_of_mem hk
  exact ⟨j, hj, h.lookup j hj⟩

/-- the inverse search used for `variable_names_` -/
theorem NmIndexes.find_value (h : NmIndexes m names) (hn : names.Nodup) (i : Nat) (hi : i < names.length) :
    m.find? (·.2 == i) = some (names[i], i) := by
  have hmem : (names[i], i) ∈ m := (h.mem_iff hn _).2 (by simp [hi])
  cases hf : m.find? (·.2 == i) with
  | none =>
    have := List.find?_eq_none.1 hf _ hmem
    simp at this
  | some e =>
    have he : e ∈ m := List.mem_of_find?_eq_some hf
    have h2 : e.2 = i := by simpa using List.find?_some hf
    have := (h.mem_iff hn e).1 he
    rw [h2] at this
    have h1 : names[i] = e.1 := by simpa [hi] using this
    rw [h1, ← h2]

theorem NmIndexes.variableNames (h : NmIndexes m names) (hn : names.Nodup) :
    ((List.range names.length).map fun i => ((m.find? (·.2 == i)).map (·.1)).getD "") = names := by
  apply List.ext_getElem
  · simp
  · intro i h1 h2
    simp only [List.length_map, List.length_range] at h1
    simp [h.find_value hn i h1]

end NmIndexesFacts

/-! ### system, species map -/
section Sys
variable {α : Type}

theorem SystemDecl.stateSize_eq (s : SystemDecl α) : s.stateSize = s.uniqueNames.length := by
  unfold SystemDecl.stateSize SystemDecl.uniqueNames phaseUnique
  simp [List.length_flatMap, Function.comp_def]

def reorderNames (names : List String) (perm : Array Nat) : List String :=
  (List.range names.length).map fun i => names.getD (perm.getD i 0) ""

def jacPattern (n : Nat) (t : PSTables α) : IMat :=
  t.nonZeroJacobianElements.foldl (fun p e => p.set e.1 e.2 1) (Array.replicate n (Array.replicate n 0))

theorem getSpeciesMap_false (sys : SystemDecl α) (procs : List (Process α)) :
    getSpeciesMap sys procs false = .ok (nmOfNames sys.uniqueNames) := rfl

theorem getSpeciesMap_true (sys : SystemDecl α) (procs : List (Process α)) :
    getSpeciesMap sys procs true =
      match ProcessSet.build procs (nmOfNames sys.uniqueNames) with
      | .error e => .error e.toErr
      | .ok t => match markowitz sys.stateSize (jacPattern sys.stateSize t) with
        | .error e => .error e
        | .ok perm => .ok (nmInsertAll (nmOfNames sys.uniqueNames) (reorderNames sys.uniqueNames perm).zipIdx) := by
  unfold getSpeciesMap
  simp only [jacPattern, reorderNames, nmInsertAll, Bool.not_true, Bool.false_eq_true, if_false]
  cases ProcessSet.build procs (nmOfNames sys.uniqueNames) with
  | error e => rfl
  | ok t =>
    simp only [Except.mapError]
    show (do let perm ← markowitz _ _; _) = _
    cases markowitz sys.stateSize (List.foldl (fun p e => p.set e.fst e.snd 1)
              (Array.replicate sys.stateSize (Array.replicate sys.stateSize 0)) t.nonZeroJacobianElements) with
    | error e => rfl
    | ok perm => rfl

theorem map_getD_range (l : List String) (d : String) :
    (List.range l.length).map (fun i => l.getD i d) = l := by
  apply List.ext_getElem
  · simp
  · intro i h1 h2
    simp [h2]

theorem map_getD_range_array (a : Array Nat) :
    (List.range a.size).map (fun i => a.getD i 0) = a.toList := by
  apply List.ext_getElem
  · simp
  · intro i h1 h2
    simp only [List.length_map, List.length_range] at h1
    simp [Array.getD, h1]

theorem reorderNames_eq (names : List String) (perm : Array Nat) (hs : perm.size = names.length) :
    reorderNames names perm = perm.toList.map fun j => names.getD j "" := by
  unfold reorderNames
  rw [← map_getD_range_array, List.map_map, hs]
  rfl

theorem reorderNames_perm (names : List String) (perm : Array Nat) (hs : perm.size = names.length)
    (hp : perm.toList.Perm (List.range names.length)) : (reorderNames names perm).Perm names := by
  rw [reorderNames_eq names perm hs]
  have := hp.map fun j => names.getD j ""
  rw [map_getD_range] at this
  exact this

/-- what a successful `getSpeciesMap` returns (distinct unique names) -/
theorem getSpeciesMap_ok_indexes {sys : SystemDecl α} {procs : List (Process α)} {reorder : Bool} {m : NameMap}
    (h : getSpeciesMap sys procs reorder = .ok m) (hn : sys.uniqueNames.Nodup) :
    ∃ names', names'.Perm sys.uniqueNames ∧ NmIndexes m names' ∧
      (reorder = false → names' = sys.uniqueNames) ∧
      (reorder = true → ∃ t perm, ProcessSet.build procs (nmOfNames sys.uniqueNames) = .ok t ∧
        markowitz sys.stateSize (jacPattern sys.stateSize t) = .ok perm ∧
        perm.size = sys.uniqueNames.length ∧ perm.toList.Perm (List.range sys.uniqueNames.length) ∧
        names' = reorderNames sys.uniqueNames perm) := by
  cases reorder with
  | false =>
    rw [getSpeciesMap_false] at h
    cases h
    exact ⟨_, List.Perm.refl _, NmIndexes.nmOfNames hn, (fun _ => rfl), (fun h => by cases h)⟩
  | true =>
    rw [getSpeciesMap_true] at h
    cases hb : ProcessSet.build procs (nmOfNames sys.uniqueNames) with
    | error e => rw [hb] at h; cases h
    | ok t =>
      rw [hb] at h
      simp only [] at h
      by_cases h0 : sys.stateSize = 0
      · rw [h0] at h; cases h
      · obtain ⟨perm, hm, hs, hp⟩ := markowitz_perm sys.stateSize (jacPattern sys.stateSize t) (by omega)
        rw [hm] at h
        cases h
        rw [sys.stateSize_eq] at hs hp
        have hperm := reorderNames_perm _ perm hs hp
        refine ⟨_, hperm, ?_, (fun h => by cases h), (fun _ => ⟨t, perm, rfl, hm, hs, hp, rfl⟩)⟩
        apply NmIndexes.of_insertAll (NmIndexes.nmOfNames hn).sorted
        · intro k hk
          exact hperm.mem_iff.2 (((NmIndexes.nmOfNames hn).keys k).1 hk)
        · exact hperm.nodup_iff.2 hn

theorem mem_nmKeys_nmOfNames (names : List String) (k : String) : k ∈ nmKeys (nmOfNames names) ↔ k ∈ names := by
  rw [nmOfNames_eq, mem_nmKeys_nmInsertAll, map_fst_zipIdx]
  simp [nmKeys]

/-- the key set of a successful `getSpeciesMap` (no distinctness needed) -/
theorem getSpeciesMap_ok_keys {sys : SystemDecl α} {procs : List (Process α)} {reorder : Bool} {m : NameMap}
    (h : getSpeciesMap sys procs reorder = .ok m) : ∀ k, k ∈ nmKeys m ↔ k ∈ sys.uniqueNames := by
  intro k
  cases reorder with
  | false =>
    rw [getSpeciesMap_false] at h
    cases h
    exact mem_nmKeys_nmOfNames _ k
  | true =>
    rw [getSpeciesMap_true] at h
    cases hb : ProcessSet.build procs (nmOfNames sys.uniqueNames) with
    | error e => rw [hb] at h; cases h
    | ok t =>
      rw [hb] at h
      simp only [] at h
      by_cases h0 : sys.stateSize = 0
      · rw [h0] at h; cases h
      · obtain ⟨perm, hm, hs, hp⟩ := markowitz_perm sys.stateSize (jacPattern sys.stateSize t) (by omega)
        rw [hm] at h
        cases h
        rw [sys.stateSize_eq] at hs hp
        have hperm := reorderNames_perm _ perm hs hp
        rw [mem_nmKeys_nmInsertAll, map_fst_zipIdx, mem_nmKeys_nmOfNames, hperm.mem_iff, or_self]

end Sys

/-! ### tolerances -/
section Tol
variable {α : Type}

def specAssigns (key : String → String) (sp : List (SpeciesDecl α)) : List (String × α) :=
  sp.filterMap fun s => s.atol.map fun v => (key s.name, v)

/-- the tolerance assignments in execution order -/
def tolAssigns (sys : SystemDecl α) : List (String × α) :=
  specAssigns id sys.gas ++ sys.phases.flatMap fun ph => specAssigns (fun n => ph.1 ++ "." ++ n) ph.2

def applyTol [OfNat α 0] (m : NameMap) : Array α → List (String × α) → Except Err (Array α)
  | tol, [] => .ok tol
  | tol, kv :: l => match nmLookup m kv.1 with
    | some i => applyTol m (wr tol i kv.2) l
    | none => .error .outOfRange

theorem specAssigns_keys_sublist (key : String → String) (sp : List (SpeciesDecl α))
    (h : ∀ s ∈ sp, s.atol.isSome = true → s.param = false) :
    ((specAssigns key sp).map (·.1)).Sublist ((phaseUnique sp).map key) := by
  induction sp with
  | nil => exact List.Sublist.slnil
  | cons s sp ih =>
    have ih := ih fun s' hs' => h s' (List.mem_cons_of_mem _ hs')
    unfold specAssigns phaseUnique at ih ⊢
    rw [List.filterMap_cons, List.filter_cons]
    cases ha : s.atol with
    | none =>
      simp only [Option.map_none]
      cases hp : s.param with
      | true => simpa using ih
      | false => simpa using List.Sublist.cons (key s.name) ih
    | some v =>
      have hp : s.param = false := h s List.mem_cons_self (by simp [ha])
      simpa [hp] using List.Sublist.cons_cons (key s.name) ih

/-- the species carrying a tolerance are non-parameterized -/
def TolOnNonParam (sys : SystemDecl α) : Prop :=
  (∀ s ∈ sys.gas, s.atol.isSome = true → s.param = false) ∧
  ∀ ph ∈ sys.phases, ∀ s ∈ ph.2, s.atol.isSome = true → s.param = false

theorem tolAssigns_keys_sublist (sys : SystemDecl α) (h : TolOnNonParam sys) :
    ((tolAssigns sys).map (·.1)).Sublist sys.uniqueNames := by
  unfold tolAssigns SystemDecl.uniqueNames
  rw [List.map_append]
  apply List.Sublist.append
  · have := specAssigns_keys_sublist id sys.gas h.1
    simpa using this
  · have h2 := h.2
    generalize sys.phases = phs at h2
    induction phs with
    | nil => exact List.Sublist.slnil
    | cons ph phs ih =>
      rw [List.flatMap_cons, List.flatMap_cons, List.map_append]
      apply List.Sublist.append
      · exact specAssigns_keys_sublist _ ph.2 (h2 ph List.mem_cons_self)
      · exact ih fun ph' hph' => h2 ph' (List.mem_cons_of_mem _ hph')

theorem mem_tolAssigns {sys : SystemDecl α} {kv : String × α} :
    kv ∈ tolAssigns sys ↔
      (∃ s ∈ sys.gas, s.atol = some kv.2 ∧ kv.1 = s.name) ∨
      (∃ ph ∈ sys.phases, ∃ s ∈ ph.2, s.atol = some kv.2 ∧ kv.1 = ph.1 ++ "." ++ s.name) := by
  unfold tolAssigns specAssigns
  simp only [List.mem_append, List.mem_filterMap, List.mem_flatMap, Option.map_eq_some_iff, id]
  constructor
  · rintro (⟨s, hs, v, hv, rfl⟩ | ⟨ph, hph, s, hs, v, hv, rfl⟩)
    · exact .inl ⟨s, hs, hv, rfl⟩
    · exact .inr ⟨ph, hph, s, hs, hv, rfl⟩
  · rintro (⟨s, hs, hv, hk⟩ | ⟨ph, hph, s, hs, hv, hk⟩)
    · exact .inl ⟨s, hs, kv.2, hv, by rw [← hk]⟩
    · exact .inr ⟨ph, hph, s, hs, kv.2, hv, by rw [← hk]⟩

variable [OfNat α 0]

theorem applyTol_append (m : NameMap) (tol : Array α) (l1 l2 : List (String × α)) :
    applyTol m tol (l1 ++ l2) = (applyTol m tol l1 >>= fun t => applyTol m t l2) := by
  induction l1 generalizing tol with
  | nil => rfl
  | cons kv l ih =>
    simp only [List.cons_append, applyTol]
    cases nmLookup m kv.1 with
    | none => rfl
    | some i => exact ih _

theorem foldlM_species (m : NameMap) (key : String → String) (sp : List (SpeciesDecl α)) (tol : Array α) :
    sp.foldlM (fun tol s =>
      match s.atol with
      | none => pure tol
      | some v => match nmLookup m (key s.name) with
        | some i => pure (wr tol i v)
        | none => throw Err.outOfRange) tol = applyTol m tol (specAssigns key sp) := by
  induction sp generalizing tol with
  | nil => rfl
  | cons s sp ih =>
    rw [List.foldlM_cons]
    unfold specAssigns
    rw [List.filterMap_cons]
    cases ha : s.atol with
    | none => simp only [Option.map_none]; exact ih tol
    | some v =>
      simp only [Option.map_some, applyTol]
      cases nmLookup m (key s.name) with
      | none => rfl
      | some i => exact ih _

theorem setAbsoluteTolerances_eq (dflt : α) (sys : SystemDecl α) (m : NameMap) :
    setAbsoluteTolerances dflt sys m = applyTol m (Array.replicate m.length dflt) (tolAssigns sys) := by
  unfold setAbsoluteTolerances tolAssigns
  rw [applyTol_append]
  simp only []
  erw [foldlM_species m id]
  congr 1
  funext tol
  induction sys.phases generalizing tol with
  | nil => rfl
  | cons ph phs ih =>
    rw [List.foldlM_cons, List.flatMap_cons, applyTol_append]
    erw [foldlM_species m (fun n => ph.1 ++ "." ++ n)]
    congr 1
    funext t
    exact ih t

theorem applyTol_size {m : NameMap} {tol r : Array α} {l : List (String × α)}
    (h : applyTol m tol l = .ok r) : r.size = tol.size := by
  induction l generalizing tol with
  | nil => cases h; rfl
  | cons kv l ih =>
    unfold applyTol at h
    cases hl : nmLookup m kv.1 with
    | none => rw [hl] at h; cases h
    | some i => rw [hl] at h; rw [ih h, wr_size]

theorem applyTol_error {m : NameMap} {tol : Array α} {l : List (String × α)} {e : Err}
    (h : applyTol m tol l = .error e) : e = .outOfRange := by
  induction l generalizing tol with
  | nil => cases h
  | cons kv l ih =>
    unfold applyTol at h
    cases hl : nmLookup m kv.1 with
    | none => rw [hl] at h; cases h; rfl
    | some i => rw [hl] at h; exact ih h

theorem applyTol_isOk_iff (m : NameMap) (tol : Array α) (l : List (String × α)) :
    (∃ r, applyTol m tol l = .ok r) ↔ ∀ kv ∈ l, kv.1 ∈ nmKeys m := by
  induction l generalizing tol with
  | nil => exact ⟨(fun _ _ h => by cases h), (fun _ => ⟨tol, rfl⟩)⟩
  | cons kv l ih =>
    unfold applyTol
    cases hl : nmLookup m kv.1 with
    | none =>
      have : kv.1 ∉ nmKeys m := (nmLookup_eq_none_iff m _).1 hl
      constructor
      · rintro ⟨r, h⟩; cases h
      · intro h; exact absurd (h kv List.mem_cons_self) this
    | some i =>
      have : kv.1 ∈ nmKeys m := (nmLookup_isSome_iff m _).1 (by simp [hl])
      simp only []
      rw [ih]
      constructor
      · intro h kv' hkv'
        rcases List.mem_cons.1 hkv' with h' | h'
        · rw [h']; exact this
        · exact h kv' h'
      · intro h kv' hkv'
        exact h kv' (List.mem_cons_of_mem _ hkv')

/-- an index no assignment maps to keeps its value -/
theorem applyTol_rd_of_not_mem {m : NameMap} {tol r : Array α} {l : List (String × α)} {i : Nat}
    (h : applyTol m tol l = .ok r) (hi : ∀ kv ∈ l, nmLookup m kv.1 ≠ some i) : rd r i = rd tol i := by
  induction l generalizing tol with
  | nil => cases h; rfl
  | cons kv l ih =>
    unfold applyTol at h
    cases hl : nmLookup m kv.1 with
    | none => rw [hl] at h; cases h
    | some j =>
      rw [hl] at h
      have hj : j ≠ i := fun hji => hi kv List.mem_cons_self (by rw [hl, hji])
      rw [ih h fun kv' hkv' => hi kv' (List.mem_cons_of_mem _ hkv'), rd_wr_ne _ _ _ _ hj]

/-- the last assignment to an index wins -/
theorem applyTol_rd_last {m : NameMap} {tol r : Array α} {l1 l2 : List (String × α)} {k : String} {v : α} {i : Nat}
    (h : applyTol m tol (l1 ++ (k, v) :: l2) = .ok r) (hk : nmLookup m k = some i) (hi : i < tol.size)
    (h2 : ∀ kv ∈ l2, nmLookup m kv.1 ≠ some i) : rd r i = v := by
  rw [applyTol_append] at h
  cases h1 : applyTol m tol l1 with
  | error e => rw [h1] at h; cases h
  | ok t1 =>
    rw [h1] at h
    have h' : applyTol m t1 ((k, v) :: l2) = .ok r := h
    unfold applyTol at h'
    simp only [hk] at h'
    rw [applyTol_rd_of_not_mem h' h2, rd_wr_same]
    rw [applyTol_size h1]; exact hi


end Tol

/-! ### `build` as a decision tree -/
section Build
variable {α : Type}

set_option linter.unusedSimpArgs false in
theorem build_eq [OfNat α 0] (dflt : α) (labelsOf : List (Process α) → List String) (b : BuildInput α) :
    build dflt labelsOf b =
      match b.system with
      | none => .error (.sys catBuilder 2)
      | some sys =>
        if (b.reactions.getD []).isEmpty then .error (.sys catBuilder 3)
        else if sys.stateSize = 0 then .error (.sys catBuilder 4)
        else match getSpeciesMap sys (b.reactions.getD []) b.reorder with
          | .error e => .error e
          | .ok m =>
            if (!b.ignoreUnused && sys.uniqueNames.any fun s => !(speciesUsed (b.reactions.getD [])).contains s)
            then .error (.sys catBuilder 1)
            else match ProcessSet.build (b.reactions.getD []) m with
              | .error e => .error e.toErr
              | .ok t => match setAbsoluteTolerances dflt sys m with
                | .error e => .error e
                | .ok atol => .ok { speciesMap := m,
                                    variableNames := (List.range sys.stateSize).map fun i => ((m.find? (·.2 == i)).map (·.1)).getD "",
                                    nSpecies := sys.stateSize, labels := labelsOf (b.reactions.getD []),
                                    tables := t, nonZero := t.nonZeroJacobianElements, atol := atol } := by
  unfold build
  cases b.system with
  | none => rfl
  | some sys =>
    simp only []
    by_cases h1 : (b.reactions.getD []).isEmpty = true
    · simp only [h1, if_true]; rfl
    · simp only [h1]
      by_cases h2 : sys.stateSize = 0
      · simp only [h2, if_true]; rfl
      · simp only [h2, if_false]
        simp only [Bool.false_eq_true, if_false]
        generalize getSpeciesMap sys (b.reactions.getD []) b.reorder = r
        cases r with
        | error e => rfl
        | ok m =>
          generalize (sys.uniqueNames.any fun s => !(speciesUsed (b.reactions.getD [])).contains s) = u
          show (if (!b.ignoreUnused) = true then (if u = true then _ else _) else _ : Except Err (Built α)) = _
          cases b.ignoreUnused <;> cases u
          all_goals
            simp only [Bool.not_true, Bool.not_false, Bool.and_true, Bool.and_false, Bool.false_and, Bool.true_and,
              Bool.false_eq_true, if_false, if_true]
          all_goals
            first
            | rfl
            | (show (do let t ← Except.mapError PSErr.toErr (ProcessSet.build (b.reactions.getD []) m); _) = _
               generalize ProcessSet.build (b.reactions.getD []) m = r2
               cases r2 with
               | error e => rfl
               | ok t =>
                 simp only [Except.mapError]
                 show (do let atol ← setAbsoluteTolerances dflt sys m; _) = _
                 generalize setAbsoluteTolerances dflt sys m = r3
                 cases r3 <;> rfl)

/-- the errors of all non-parameterized reactant / product names that are not in `names`, in source
    order (processes in order; within a process reactants before products) -/
def unknownIn (names : List String) (procs : List (Process α)) : List PSErr :=
  procs.flatMap fun p =>
    (p.reactants.filterMap fun r =>
      if !r.param && !names.contains r.name then some (PSErr.reactantDoesNotExist r.name) else none) ++
    (p.products.filterMap fun q =>
      if !q.1.param && !names.contains q.1.name then some (PSErr.productDoesNotExist q.1.name) else none)

theorem unknownNames_eq_unknownIn {m : NameMap} {names : List String} (hk : ∀ k, k ∈ nmKeys m ↔ k ∈ names)
    (procs : List (Process α)) : unknownNames m procs = unknownIn names procs := by
  have key : ∀ k, (nmLookup m k).isNone = !names.contains k := by
    intro k
    by_cases h : k ∈ names
    · have := (nmLookup_isSome_iff m k).2 ((hk k).2 h)
      cases hl : nmLookup m k <;> simp_all
    · have := (nmLookup_eq_none_iff m k).2 (fun h' => h ((hk k).1 h'))
      simp [this, h]
  unfold unknownNames unknownIn unknownReactants unknownProducts
  congr 1
  funext p
  congr 1
  · congr 1
    funext r
    rw [key]
    cases r.param <;> cases names.contains r.name <;> rfl
  · congr 1
    funext r
    rw [key]
    cases r.1.param <;> cases names.contains r.1.name <;> rfl

theorem unknownIn_eq_nil_iff (names : List String) (procs : List (Process α)) :
    unknownIn names procs = [] ↔
      ∀ p ∈ procs, (∀ r ∈ p.reactants, r.param = false → r.name ∈ names) ∧
                   (∀ q ∈ p.products, q.1.param = false → q.1.name ∈ names) := by
  unfold unknownIn
  simp only [List.flatMap_eq_nil_iff, List.append_eq_nil_iff, List.filterMap_eq_nil_iff]
  constructor
  · intro h p hp
    refine ⟨fun r hr hpar => ?_, fun q hq hpar => ?_⟩
    · have := (h p hp).1 r hr
      simpa [hpar] using this
    · have := (h p hp).2 q hq
      simpa [hpar] using this
  · intro h p hp
    refine ⟨fun r hr => ?_, fun q hq => ?_⟩
    · cases hpar : r.param
      · simpa [hpar] using (h p hp).1 r hr hpar
      · simp
    · cases hpar : q.1.param
      · simpa [hpar] using (h p hp).2 q hq hpar
      · simp

theorem PSErr.toErr_cases (e : PSErr) : e.toErr = .sys catProcessSet 1 ∨ e.toErr = .sys catProcessSet 2 := by
  cases e
  · exact .inl rfl
  · exact .inr rfl

/-- the outcome of `build` (`none` = success), in the order in which the source performs the checks -/
def buildOutcome (b : BuildInput α) : Option Err :=
  match b.system with
  | none => some (.sys catBuilder 2)
  | some sys =>
    if (b.reactions.getD []).isEmpty then some (.sys catBuilder 3)
    else if sys.stateSize = 0 then some (.sys catBuilder 4)
    else match (if b.reorder then (unknownIn sys.uniqueNames (b.reactions.getD [])).head? else none) with
      | some e => some e.toErr
      | none =>
        if (!b.ignoreUnused && sys.uniqueNames.any fun s => !(speciesUsed (b.reactions.getD [])).contains s)
        then some (.sys catBuilder 1)
        else match (unknownIn sys.uniqueNames (b.reactions.getD [])).head? with
          | some e => some e.toErr
          | none =>
            if (tolAssigns sys).all (fun kv => sys.uniqueNames.contains kv.1) then none else some .outOfRange

theorem psBuild_outcome {m : NameMap} {names : List String} (hk : ∀ k, k ∈ nmKeys m ↔ k ∈ names)
    (procs : List (Process α)) :
    match (unknownIn names procs).head? with
    | some e => ProcessSet.build procs m = .error e
    | none => ∃ t, ProcessSet.build procs m = .ok t := by
  rw [← unknownNames_eq_unknownIn hk]
  cases h : (unknownNames m procs).head? with
  | some e =>
    exact (ProcessSet.build_error_iff m procs e).2 ((buildForcing_error_iff m procs e).2 h)
  | none =>
    have : unknownNames m procs = [] := List.head?_eq_none_iff.1 h
    exact (ProcessSet.build_isOk_iff m procs).2 ((buildForcing_isOk_iff m procs).2 this)

theorem getSpeciesMap_outcome (sys : SystemDecl α) (procs : List (Process α)) (reorder : Bool)
    (h0 : sys.stateSize ≠ 0) :
    match (if reorder then (unknownIn sys.uniqueNames procs).head? else none) with
    | some e => getSpeciesMap sys procs reorder = .error e.toErr
    | none => ∃ m, getSpeciesMap sys procs reorder = .ok m := by
  cases reorder with
  | false => exact ⟨_, getSpeciesMap_false sys procs⟩
  | true =>
    simp only [if_true]
    have := psBuild_outcome (mem_nmKeys_nmOfNames sys.uniqueNames) procs
    rw [getSpeciesMap_true]
    cases hh : (unknownIn sys.uniqueNames procs).head? with
    | some e =>
      rw [hh] at this
      simp only [] at this ⊢
      rw [this]
    | none =>
      rw [hh] at this
      obtain ⟨t, ht⟩ := this
      simp only []
      rw [ht]
      obtain ⟨perm, hm, -, -⟩ := markowitz_perm sys.stateSize (jacPattern sys.stateSize t) (by omega)
      simp only [hm]
      exact ⟨_, rfl⟩

theorem setAbsoluteTolerances_outcome [OfNat α 0] (dflt : α) (sys : SystemDecl α) {m : NameMap}
    (hk : ∀ k, k ∈ nmKeys m ↔ k ∈ sys.uniqueNames) :
    if (tolAssigns sys).all (fun kv => sys.uniqueNames.contains kv.1) then
      ∃ a, setAbsoluteTolerances dflt sys m = .ok a
    else setAbsoluteTolerances dflt sys m = .error .outOfRange := by
  rw [setAbsoluteTolerances_eq]
  have hiff := applyTol_isOk_iff m (Array.replicate m.length dflt) (tolAssigns sys)
  split
  · rename_i h
    apply hiff.2
    intro kv hkv
    rw [hk]
    simpa using (List.all_eq_true.1 h) kv hkv
  · rename_i h
    cases hr : applyTol m (Array.replicate m.length dflt) (tolAssigns sys) with
    | error e => rw [applyTol_error hr]
    | ok r =>
      exfalso
      apply h
      rw [List.all_eq_true]
      intro kv hkv
      have := hiff.1 ⟨r, hr⟩ kv hkv
      rw [hk] at this
      simpa using this

/-- `build` against its outcome function -/
theorem build_outcome [OfNat α 0] (dflt : α) (labelsOf : List (Process α) → List String) (b : BuildInput α) :
    match buildOutcome b with
    | some e => build dflt labelsOf b = .error e
    | none => ∃ r, build dflt labelsOf b = .ok r := by
  rw [build_eq]
  unfold buildOutcome
  cases b.system with
  | none => rfl
  | some sys =>
    simp only []
    by_cases h1 : (b.reactions.getD []).isEmpty = true
    · simp only [h1, if_true]
    · simp only [h1, Bool.false_eq_true, if_false]
      by_cases h2 : sys.stateSize = 0
      · simp only [h2, if_true]
      · simp only [h2, if_false]
        have hg := getSpeciesMap_outcome sys (b.reactions.getD []) b.reorder h2
        cases hu : (if b.reorder = true then (unknownIn sys.uniqueNames (b.reactions.getD [])).head? else none) with
        | some e =>
          rw [hu] at hg
          simp only [] at hg ⊢
          rw [hg]
        | none =>
          rw [hu] at hg
          obtain ⟨m, hm⟩ := hg
          have hk := getSpeciesMap_ok_keys hm
          simp only [hm]
          generalize (!b.ignoreUnused && sys.uniqueNames.any fun s => !(speciesUsed (b.reactions.getD [])).contains s) = u
          cases u with
          | true => simp only [if_true]
          | false =>
            simp only [Bool.false_eq_true, if_false]
            have hp := psBuild_outcome hk (b.reactions.getD [])
            cases hu2 : (unknownIn sys.uniqueNames (b.reactions.getD [])).head? with
            | some e =>
              rw [hu2] at hp
              simp only [] at hp ⊢
              rw [hp]
            | none =>
              rw [hu2] at hp
              obtain ⟨t, ht⟩ := hp
              simp only [ht]
              have hs := setAbsoluteTolerances_outcome dflt sys hk
              generalize ((tolAssigns sys).all fun kv => sys.uniqueNames.contains kv.1) = c at hs ⊢
              cases c with
              | true =>
                simp only [if_true] at hs ⊢
                obtain ⟨a, ha⟩ := hs
                simp only [ha]
                exact ⟨_, rfl⟩
              | false =>
                simp only [Bool.false_eq_true, if_false] at hs ⊢
                simp only [hs]

/-- what a successful `build` went through -/
theorem build_ok_fields [OfNat α 0] {dflt : α} {labelsOf : List (Process α) → List String} {inp : BuildInput α}
    {b : Built α} (h : build dflt labelsOf inp = .ok b) :
    ∃ sys, inp.system = some sys ∧ (inp.reactions.getD []).isEmpty = false ∧ sys.stateSize ≠ 0 ∧
      getSpeciesMap sys (inp.reactions.getD []) inp.reorder = .ok b.speciesMap ∧
      ProcessSet.build (inp.reactions.getD []) b.speciesMap = .ok b.tables ∧
      setAbsoluteTolerances dflt sys b.speciesMap = .ok b.atol ∧
      b.variableNames = ((List.range sys.stateSize).map fun i => ((b.speciesMap.find? (·.2 == i)).map (·.1)).getD "") ∧
      b.nSpecies = sys.stateSize ∧ b.nonZero = b.tables.nonZeroJacobianElements ∧
      b.labels = labelsOf (inp.reactions.getD []) := by
  rw [build_eq] at h
  cases hs : inp.system with
  | none => rw [hs] at h; cases h
  | some sys =>
    rw [hs] at h
    simp only [] at h
    refine ⟨sys, rfl, ?_⟩
    cases h1 : (inp.reactions.getD []).isEmpty with
    | true => rw [h1] at h; cases h
    | false =>
      simp only [h1, Bool.false_eq_true, if_false] at h
      by_cases h2 : sys.stateSize = 0
      · rw [if_pos h2] at h; cases h
      · rw [if_neg h2] at h
        cases hg : getSpeciesMap sys (inp.reactions.getD []) inp.reorder with
        | error e => rw [hg] at h; cases h
        | ok m =>
          rw [hg] at h
          simp only [] at h
          split at h
          · cases h
          · cases hp : ProcessSet.build (inp.reactions.getD []) m with
            | error e => rw [hp] at h; cases h
            | ok t =>
              rw [hp] at h
              simp only [] at h
              cases ha : setAbsoluteTolerances dflt sys m with
              | error e => rw [ha] at h; cases h
              | ok atol =>
                rw [ha] at h
                cases h
                exact ⟨rfl, h2, rfl, hp, ha, rfl, rfl, rfl, rfl⟩

end Build

end Micm
