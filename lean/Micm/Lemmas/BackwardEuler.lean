/-
Lemmas about the flattened backward-Euler loop (`beStep`, `beLoop`, `beSolve`):
case analysis of one iteration (exit / continue / give up / retry / accept), an induction principle
for `beLoop`, the relation of `beLoop` to the iterates of `beStep`, and the invariants used by
C05 / C06 / C07 / C08 / C09 (backward-Euler parts).

Built on `Micm/Lemmas/Special.lean` (`beStep_eq`: head, Newton update, continue / reject / accept).
-/
import Micm.Lemmas.Conservation

namespace Micm
set_option linter.unusedSectionVars false
open Finset

/-! ## Part 1 — any carrier: one iteration, case by case -/

section BEAny
variable {α : Type} [OfNat α 0] [OfNat α 1] [OfNat α 2] [Add α] [Sub α] [Mul α] [Div α]
variable (o : Ops α) (s : SolverCfg α) (p : BEParams α) (kc : Mat α) (atol : Array α) (rtol : α)
    (T : α)

/-! ### the loop head touches only `status` and `done` -/

theorem beHead_cases (r : BEState α) :
    (r.iterations = 0 ∧ o.lt r.t T = true ∧ beHead o T r = { r with status := .running }) ∨
    (r.iterations = 0 ∧ o.lt r.t T = false ∧ beHead o T r = { r with done := true }) ∨
    (r.iterations ≠ 0 ∧ beHead o T r = r) := by
  unfold beHead
  by_cases h0 : r.iterations = 0
  · cases hl : o.lt r.t T
    · right; left; exact ⟨h0, rfl, by simp [h0]⟩
    · left; exact ⟨h0, rfl, by simp [h0]⟩
  · right; right; exact ⟨h0, by simp [h0]⟩

@[simp] theorem beHead_Yn1 (r : BEState α) : (beHead o T r).Yn1 = r.Yn1 := by
  rcases beHead_cases o T r with ⟨_, _, h⟩ | ⟨_, _, h⟩ | ⟨_, h⟩ <;> rw [h]
@[simp] theorem beHead_Yn (r : BEState α) : (beHead o T r).Yn = r.Yn := by
  rcases beHead_cases o T r with ⟨_, _, h⟩ | ⟨_, _, h⟩ | ⟨_, h⟩ <;> rw [h]
@[simp] theorem beHead_t (r : BEState α) : (beHead o T r).t = r.t := by
  rcases beHead_cases o T r with ⟨_, _, h⟩ | ⟨_, _, h⟩ | ⟨_, h⟩ <;> rw [h]
@[simp] theorem beHead_h (r : BEState α) : (beHead o T r).h = r.h := by
  rcases beHead_cases o T r with ⟨_, _, h⟩ | ⟨_, _, h⟩ | ⟨_, h⟩ <;> rw [h]
@[simp] theorem beHead_nSucc (r : BEState α) : (beHead o T r).nSucc = r.nSucc := by
  rcases beHead_cases o T r with ⟨_, _, h⟩ | ⟨_, _, h⟩ | ⟨_, h⟩ <;> rw [h]
@[simp] theorem beHead_nFail (r : BEState α) : (beHead o T r).nFail = r.nFail := by
  rcases beHead_cases o T r with ⟨_, _, h⟩ | ⟨_, _, h⟩ | ⟨_, h⟩ <;> rw [h]
@[simp] theorem beHead_iterations (r : BEState α) : (beHead o T r).iterations = r.iterations := by
  rcases beHead_cases o T r with ⟨_, _, h⟩ | ⟨_, _, h⟩ | ⟨_, h⟩ <;> rw [h]
@[simp] theorem beHead_stats (r : BEState α) : (beHead o T r).stats = r.stats := by
  rcases beHead_cases o T r with ⟨_, _, h⟩ | ⟨_, _, h⟩ | ⟨_, h⟩ <;> rw [h]
@[simp] theorem beHead_sc (r : BEState α) : (beHead o T r).sc = r.sc := by
  rcases beHead_cases o T r with ⟨_, _, h⟩ | ⟨_, _, h⟩ | ⟨_, h⟩ <;> rw [h]
@[simp] theorem beHead_trace (r : BEState α) : (beHead o T r).trace = r.trace := by
  rcases beHead_cases o T r with ⟨_, _, h⟩ | ⟨_, _, h⟩ | ⟨_, h⟩ <;> rw [h]

/-- from a state that is not `done`, the head sets `done` exactly when a new outer iteration would
    start (`iterations = 0`) and the test `t < time_step` fails -/
theorem beHead_done (r : BEState α) (hd : r.done = false) :
    (beHead o T r).done = (decide (r.iterations = 0) && !o.lt r.t T) := by
  rcases beHead_cases o T r with ⟨h0, hl, h⟩ | ⟨h0, hl, h⟩ | ⟨h0, h⟩
  · rw [h]; simp [h0, hl, hd]
  · rw [h]; simp [h0, hl]
  · rw [h]; simp [h0, hd]

theorem beHead_status_eq (r : BEState α) :
    (beHead o T r).status = if r.iterations = 0 ∧ o.lt r.t T = true then .running else r.status := by
  rcases beHead_cases o T r with ⟨h0, hl, h⟩ | ⟨h0, hl, h⟩ | ⟨h0, h⟩
  · rw [h]; simp [h0, hl]
  · rw [h]; simp [hl]
  · rw [h]; simp [h0]

/-! the pieces of the Newton update only depend on `Yn1`, `Yn`, `h`, `sc` -/

@[simp] theorem beMatrix_head (r : BEState α) : beMatrix s kc (beHead o T r) = beMatrix s kc r := by
  unfold beMatrix; simp
@[simp] theorem beForcing_head (r : BEState α) : beForcing s kc (beHead o T r) = beForcing s kc r := by
  unfold beForcing; simp
@[simp] theorem beFactor_head (r : BEState α) : beFactor s kc (beHead o T r) = beFactor s kc r := by
  unfold beFactor; simp
@[simp] theorem beResidual_head (r : BEState α) :
    beResidual s kc (beHead o T r) = beResidual s kc r := by
  unfold beResidual; simp
@[simp] theorem beNewY_head (r : BEState α) : beNewY o s kc (beHead o T r) = beNewY o s kc r := by
  unfold beNewY; simp
@[simp] theorem beConv_head (r : BEState α) :
    beConv o s p kc atol rtol (beHead o T r) = beConv o s p kc atol rtol r := by
  unfold beConv; simp

/-! ### the two ways an un-converged outer iteration ends -/

/-- `n_convergence_failures >= time_step_reductions.size()`: accept the un-converged `H`, stop -/
def beGiveUp (r : BEState α) : BEState α :=
  { r with iterations := 0, stats := { r.stats with rejected := r.stats.rejected + 1 }, nSucc := 0,
           t := r.t + r.h, status := .acceptingUnconvergedIntegration, done := true }

/-- otherwise: reset `Yn1` to `Yn`, reduce `H` by the next factor, clip -/
def beRetry (r : BEState α) : BEState α :=
  { r with iterations := 0, stats := { r.stats with rejected := r.stats.rejected + 1 }, nSucc := 0,
           Yn1 := r.Yn, h := cmin o (r.h * p.reductions.getD r.nFail 1) (T - r.t),
           nFail := r.nFail + 1 }

theorem beReject_eq (r : BEState α) :
    beReject o p T r = if p.reductions.length ≤ r.nFail then beGiveUp r else beRetry o p T r := by
  unfold beReject beGiveUp beRetry
  simp only [ge_iff_le]

/-- the accepted tail, with the pair `(n_successful_integrations, H)` spelled out -/
theorem beAccept_eq (r : BEState α) :
    beAccept o T r =
      { r with iterations := 0, stats := { r.stats with accepted := r.stats.accepted + 1 },
               status := .converged, t := r.t + r.h, Yn := r.Yn1,
               nSucc := if r.nSucc + 1 ≥ 2 then 0 else r.nSucc + 1,
               h := cmin o (if r.nSucc + 1 ≥ 2 then r.h * 2 else r.h) (T - (r.t + r.h)) } := by
  unfold beAccept
  simp only []
  split <;> rfl

/-- the five ways through one iteration of the flattened loop; `r1 = beHead r` is the state after
    the `while (t < time_step)` test, `beNewton r1` the state after the Newton update -/
inductive BEStepCase (r : BEState α) : BEState α → Prop
  | exit : (beHead o T r).done = true → BEStepCase r (beHead o T r)
  | cont : (beHead o T r).done = false → beConv o s p kc atol rtol r = false →
      r.iterations + 1 < p.maxSteps → BEStepCase r (beNewton o s kc (beHead o T r))
  | giveUp : (beHead o T r).done = false → beConv o s p kc atol rtol r = false →
      ¬ r.iterations + 1 < p.maxSteps → p.reductions.length ≤ r.nFail →
      BEStepCase r (beGiveUp (beNewton o s kc (beHead o T r)))
  | retry : (beHead o T r).done = false → beConv o s p kc atol rtol r = false →
      ¬ r.iterations + 1 < p.maxSteps → r.nFail < p.reductions.length →
      BEStepCase r (beRetry o p T (beNewton o s kc (beHead o T r)))
  | accept : (beHead o T r).done = false → beConv o s p kc atol rtol r = true →
      BEStepCase r (beAccept o T (beNewton o s kc (beHead o T r)))

theorem beStep_cases (r : BEState α) :
    BEStepCase o s p kc atol rtol T r (beStep o s p kc atol rtol T r) := by
  rw [beStep_eq]
  simp only [beConv_head, beHead_iterations]
  cases hd : (beHead o T r).done
  · simp only [Bool.false_eq_true, if_false]
    cases hc : beConv o s p kc atol rtol r
    · simp only [Bool.not_false, Bool.true_and, decide_eq_true_eq, if_true]
      by_cases hm : r.iterations + 1 < p.maxSteps
      · rw [if_pos hm]; exact .cont hd hc hm
      · rw [if_neg hm, beReject_eq]
        have hn : (beNewton o s kc (beHead o T r)).nFail = r.nFail := by simp [beNewton]
        by_cases hf : p.reductions.length ≤ r.nFail
        · rw [if_pos (by rw [hn]; exact hf)]; exact .giveUp hd hc hm hf
        · rw [if_neg (by rw [hn]; exact hf)]; exact .retry hd hc hm (by omega)
    · simp only [Bool.not_true, Bool.false_and, Bool.false_eq_true, if_false]
      exact .accept hd hc
  · simp only [if_true]; exact .exit hd

/-- the first Newton iteration of an outer iteration never tests convergence -/
theorem beConv_first (r : BEState α) (h : r.iterations = 0) :
    beConv o s p kc atol rtol r = false := by
  unfold beConv; simp [h]

/-! ### induction along `beLoop` -/

theorem beLoop_zero (r : BEState α) :
    beLoop o s p kc atol rtol T 0 r = if r.done then r else { r with status := .outOfFuel } := rfl

theorem beLoop_succ (fuel : Nat) (r : BEState α) :
    beLoop o s p kc atol rtol T (fuel + 1) r =
      if r.done then r else beLoop o s p kc atol rtol T fuel (beStep o s p kc atol rtol T r) := rfl

/-- invariants of `beStep` (from states that are not `done`) that survive the `outOfFuel` marking
    hold where `beLoop` stops -/
theorem beLoop_inv (P : BEState α → Prop)
    (hstep : ∀ r, r.done = false → P r → P (beStep o s p kc atol rtol T r))
    (hout : ∀ r, r.done = false → P r → P { r with status := .outOfFuel })
    (fuel : Nat) (r : BEState α) (h : P r) : P (beLoop o s p kc atol rtol T fuel r) := by
  induction fuel generalizing r with
  | zero =>
    rw [beLoop_zero]; split
    · exact h
    · exact hout r (by simpa using ‹¬ r.done = true›) h
  | succ n ih =>
    rw [beLoop_succ]; split
    · exact h
    · exact ih _ (hstep r (by simpa using ‹¬ r.done = true›) h)

/-- `beLoop` runs `beStep` until `done` (at most `fuel` times); if the fuel runs out first it only
    overwrites the status -/
theorem beLoop_eq_iterate (fuel : Nat) (r : BEState α) :
    ∃ N, N ≤ fuel ∧ (∀ k, k < N → ((beStep o s p kc atol rtol T)^[k] r).done = false) ∧
      ((((beStep o s p kc atol rtol T)^[N] r).done = true ∧
          beLoop o s p kc atol rtol T fuel r = (beStep o s p kc atol rtol T)^[N] r) ∨
       (N = fuel ∧ ((beStep o s p kc atol rtol T)^[N] r).done = false ∧
          beLoop o s p kc atol rtol T fuel r =
            { (beStep o s p kc atol rtol T)^[N] r with status := .outOfFuel })) := by
  induction fuel generalizing r with
  | zero =>
    refine ⟨0, Nat.le_refl _, fun k hk => by omega, ?_⟩
    rw [beLoop_zero]
    cases hd : r.done
    · right; exact ⟨rfl, hd, by simp [hd]⟩
    · left; exact ⟨hd, by simp⟩
  | succ n ih =>
    rw [beLoop_succ]
    cases hd : r.done
    · obtain ⟨N, hN, hk, hcase⟩ := ih (beStep o s p kc atol rtol T r)
      refine ⟨N + 1, by omega, ?_, ?_⟩
      · intro k hk'
        cases k with
        | zero => exact hd
        | succ k => rw [Function.iterate_succ_apply]; exact hk k (by omega)
      · simp only [Bool.false_eq_true, if_false, Function.iterate_succ_apply]
        rcases hcase with h | ⟨h1, h2, h3⟩
        · left; exact h
        · right; exact ⟨by omega, h2, h3⟩
    · exact ⟨0, by omega, fun k hk => by omega, Or.inl ⟨hd, by simp⟩⟩

/-- variant of `beLoop_inv` for invariants that mention the status: `beLoop` stops either in a `done`
    state satisfying `P`, or (fuel exhausted) in a state that differs from a not-`done` state
    satisfying `P` only by the status `outOfFuel` -/
theorem beLoop_inv' (P : BEState α → Prop)
    (hstep : ∀ r, r.done = false → P r → P (beStep o s p kc atol rtol T r))
    (fuel : Nat) (r : BEState α) (h : P r) :
    (P (beLoop o s p kc atol rtol T fuel r) ∧ (beLoop o s p kc atol rtol T fuel r).done = true) ∨
    (∃ r', P r' ∧ r'.done = false ∧
      beLoop o s p kc atol rtol T fuel r = { r' with status := .outOfFuel }) := by
  induction fuel generalizing r with
  | zero =>
    rw [beLoop_zero]
    cases hd : r.done
    · right; exact ⟨r, h, hd, by simp [hd]⟩
    · left; simp [h, hd]
  | succ n ih =>
    rw [beLoop_succ]
    cases hd : r.done
    · simpa using ih _ (hstep r hd h)
    · left; simp [h, hd]

/-! ### one iteration, equationally, and its projections -/

theorem beStep_of_exit (r : BEState α) (hd : (beHead o T r).done = true) :
    beStep o s p kc atol rtol T r = beHead o T r := by
  rw [beStep_eq]; simp [hd]

theorem beStep_of_cont (r : BEState α) (hd : (beHead o T r).done = false)
    (hc : beConv o s p kc atol rtol r = false) (hm : r.iterations + 1 < p.maxSteps) :
    beStep o s p kc atol rtol T r = beNewton o s kc (beHead o T r) := by
  rw [beStep_eq]; simp [hd, hc, hm]

theorem beStep_of_giveUp (r : BEState α) (hd : (beHead o T r).done = false)
    (hc : beConv o s p kc atol rtol r = false) (hm : ¬ r.iterations + 1 < p.maxSteps)
    (hf : p.reductions.length ≤ r.nFail) :
    beStep o s p kc atol rtol T r = beGiveUp (beNewton o s kc (beHead o T r)) := by
  rw [beStep_eq]; simp [hd, hc, hm, hf, beReject_eq, beNewton]

theorem beStep_of_retry (r : BEState α) (hd : (beHead o T r).done = false)
    (hc : beConv o s p kc atol rtol r = false) (hm : ¬ r.iterations + 1 < p.maxSteps)
    (hf : r.nFail < p.reductions.length) :
    beStep o s p kc atol rtol T r = beRetry o p T (beNewton o s kc (beHead o T r)) := by
  rw [beStep_eq]; simp [hd, hc, hm, hf, beReject_eq, beNewton]

theorem beStep_of_accept (r : BEState α) (hd : (beHead o T r).done = false)
    (hc : beConv o s p kc atol rtol r = true) :
    beStep o s p kc atol rtol T r = beAccept o T (beNewton o s kc (beHead o T r)) := by
  rw [beStep_eq]; simp [hd, hc]

/-- the record pushed on the trace by the Newton update of this iteration -/
def beIter (r : BEState α) : BEIter α := { h := r.h, matrix := beMatrix s kc r }

/-- exactly one `BEIter` is recorded per iteration that passes the loop head -/
theorem beStep_trace (r : BEState α) :
    (beStep o s p kc atol rtol T r).trace =
      if (beHead o T r).done then r.trace else beIter s kc r :: r.trace := by
  have hc := beStep_cases o s p kc atol rtol T r
  generalize beStep o s p kc atol rtol T r = r' at hc ⊢
  cases hc <;> simp [*, beNewton, beGiveUp, beRetry, beAccept_eq, beIter]

/-- the scratch after an iteration that passed the head: `forcing_` holds the Newton update `δ`,
    the sparse buffers the factorisation -/
theorem beStep_sc (r : BEState α) (hd : (beHead o T r).done = false) :
    (beStep o s p kc atol rtol T r).sc =
      { r.sc with f0 := beResidual s kc r, jac := (beFactor s kc r).1,
                  lower := (beFactor s kc r).2.1, upper := (beFactor s kc r).2.2 } := by
  have hc := beStep_cases o s p kc atol rtol T r
  generalize beStep o s p kc atol rtol T r = r' at hc ⊢
  cases hc <;> simp_all [beNewton, beGiveUp, beRetry, beAccept_eq]

/-- `Yn1` after an iteration that passed the head: the clamped Newton iterate, except after a
    failed outer iteration that is retried, where it is reset to `Yn` -/
theorem beStep_Yn1 (r : BEState α) (hd : (beHead o T r).done = false) :
    (beStep o s p kc atol rtol T r).Yn1 =
      if beConv o s p kc atol rtol r = false ∧ ¬ r.iterations + 1 < p.maxSteps ∧
         r.nFail < p.reductions.length then r.Yn else beNewY o s kc r := by
  have hc := beStep_cases o s p kc atol rtol T r
  generalize beStep o s p kc atol rtol T r = r' at hc ⊢
  cases hc with
  | exit h => rw [hd] at h; cases h
  | cont _ h1 h2 => simp [beNewton, h1, h2]
  | giveUp _ h1 h2 h3 => simp [beNewton, beGiveUp, h1, h2, Nat.not_lt.mpr h3]
  | retry _ h1 h2 h3 => simp [beNewton, beRetry, h1, h2, h3]
  | accept _ h1 => simp [beNewton, beAccept_eq, h1]

/-! ### C05: every recorded matrix is `I/H − J(Yn1)` for the current `Yn1`, `H` -/

/-- every `BEIter` in the trace at the end of `beLoop` was either there at the start or was recorded
    by the `k`-th iteration (`k < fuel`) from the `Yn1`, `h`, Jacobian buffer current at that
    iteration: its matrix is `addDiag diag (jacobian(Yn1) into the zeroed buffer) (1/h)` -/
theorem beLoop_trace_mem (fuel : Nat) (r : BEState α) (it : BEIter α)
    (h : it ∈ (beLoop o s p kc atol rtol T fuel r).trace) :
    it ∈ r.trace ∨ ∃ k, k < fuel ∧
      it = { h := ((beStep o s p kc atol rtol T)^[k] r).h,
             matrix := addDiag s.diag
               (s.jacobian kc ((beStep o s p kc atol rtol T)^[k] r).Yn1
                 (fillM ((beStep o s p kc atol rtol T)^[k] r).sc.jac 0))
               (1 / ((beStep o s p kc atol rtol T)^[k] r).h) } := by
  induction fuel generalizing r with
  | zero =>
    rw [beLoop_zero] at h
    left; split at h <;> exact h
  | succ n ih =>
    rw [beLoop_succ] at h
    split at h
    · exact Or.inl h
    · rcases ih _ h with h1 | ⟨k, hk, h1⟩
      · rw [beStep_trace] at h1
        split at h1
        · exact Or.inl h1
        · rcases List.mem_cons.mp h1 with h2 | h2
          · exact Or.inr ⟨0, by omega, h2⟩
          · exact Or.inl h2
      · exact Or.inr ⟨k + 1, by omega, by rw [Function.iterate_succ_apply]; exact h1⟩

/-! ### C06: counters -/

/-- the five per-iteration counters agree with the ghost trace -/
def BECountInv (r : BEState α) : Prop :=
  r.stats.functionCalls = r.trace.length ∧ r.stats.jacobianUpdates = r.trace.length ∧
  r.stats.decompositions = r.trace.length ∧ r.stats.solves = r.trace.length ∧
  r.stats.numberOfSteps = r.trace.length

theorem BECountInv_step (r : BEState α) (h : BECountInv r) :
    BECountInv (beStep o s p kc atol rtol T r) := by
  obtain ⟨h1, h2, h3, h4, h5⟩ := h
  have hc := beStep_cases o s p kc atol rtol T r
  generalize beStep o s p kc atol rtol T r = r' at hc ⊢
  unfold BECountInv
  cases hc <;> simp [*, beNewton, beGiveUp, beRetry, beAccept_eq]

theorem BECountInv_loop (fuel : Nat) (r : BEState α) (h : BECountInv r) :
    BECountInv (beLoop o s p kc atol rtol T fuel r) :=
  beLoop_inv o s p kc atol rtol T BECountInv (fun r _ h => BECountInv_step o s p kc atol rtol T r h)
    (fun _ _ h => h) fuel r h

/-- does the iteration from `r` complete an outer iteration (accept or reject)? -/
def beCompletes (r : BEState α) : Bool :=
  !(beHead o T r).done && !(!(beConv o s p kc atol rtol r) && decide (r.iterations + 1 < p.maxSteps))

/-- `accepted`/`rejected` never decrease and their sum grows by one exactly when an outer
    iteration completes -/
theorem beStep_acc_rej (r : BEState α) :
    r.stats.accepted ≤ (beStep o s p kc atol rtol T r).stats.accepted ∧
    r.stats.rejected ≤ (beStep o s p kc atol rtol T r).stats.rejected ∧
    (beStep o s p kc atol rtol T r).stats.accepted + (beStep o s p kc atol rtol T r).stats.rejected =
      r.stats.accepted + r.stats.rejected +
        (if beCompletes o s p kc atol rtol T r then 1 else 0) := by
  have hc := beStep_cases o s p kc atol rtol T r
  generalize beStep o s p kc atol rtol T r = r' at hc ⊢
  unfold beCompletes
  cases hc <;> simp [*, beNewton, beGiveUp, beRetry, beAccept_eq] <;> omega

/-- number of outer iterations completed by the first `N` iterations from `r` -/
def beOuterCount (N : Nat) (r : BEState α) : Nat :=
  ((List.range N).filter fun k =>
    beCompletes o s p kc atol rtol T ((beStep o s p kc atol rtol T)^[k] r)).length

theorem beIter_acc_rej (N : Nat) (r : BEState α) :
    ((beStep o s p kc atol rtol T)^[N] r).stats.accepted +
      ((beStep o s p kc atol rtol T)^[N] r).stats.rejected =
      r.stats.accepted + r.stats.rejected + beOuterCount o s p kc atol rtol T N r := by
  induction N with
  | zero => simp [beOuterCount]
  | succ N ih =>
    rw [Function.iterate_succ_apply',
      (beStep_acc_rej o s p kc atol rtol T _).2.2, ih]
    unfold beOuterCount
    rw [List.range_succ, List.filter_append, List.length_append]
    by_cases hcpl : beCompletes o s p kc atol rtol T ((beStep o s p kc atol rtol T)^[N] r) = true
    · simp [hcpl]; omega
    · simp [hcpl]

/-- control invariants of the loop (from the initial state of `beSolve`) -/
structure BECtlInv (p : BEParams α) (r : BEState α) : Prop where
  nSucc : r.nSucc ≤ 1
  nFail : r.nFail ≤ p.reductions.length
  accDone : r.status = .acceptingUnconvergedIntegration → r.done = true
  rej : r.stats.rejected = r.nFail + (if r.status = .acceptingUnconvergedIntegration then 1 else 0)
  iters : r.iterations = 0 ∨ r.iterations < p.maxSteps
  lower : r.stats.accepted + r.stats.rejected + r.iterations ≤ r.trace.length
  upper : r.trace.length ≤ (r.stats.accepted + r.stats.rejected) * max 1 p.maxSteps + r.iterations
  start : r.iterations = 0 → r.done = false → r.Yn1 = r.Yn

theorem BECtlInv_step (r : BEState α) (hd : r.done = false) (h : BECtlInv p r) :
    BECtlInv p (beStep o s p kc atol rtol T r) := by
  obtain ⟨i1, i2, i3, i4, i5, i6, i7, i8⟩ := h
  have hna : r.status ≠ .acceptingUnconvergedIntegration := fun h => by
    rw [i3 h] at hd; cases hd
  have hst : (beHead o T r).status ≠ .acceptingUnconvergedIntegration := by
    rw [beHead_status_eq]; split
    · simp
    · exact hna
  have hM : 1 ≤ max 1 p.maxSteps := Nat.le_max_left _ _
  have hM2 : p.maxSteps ≤ max 1 p.maxSteps := Nat.le_max_right _ _
  have hc := beStep_cases o s p kc atol rtol T r
  generalize beStep o s p kc atol rtol T r = r' at hc ⊢
  cases hc with
  | exit h =>
    refine ⟨by simpa using i1, by simpa using i2, fun _ => h, ?_, by simpa using i5,
      by simpa using i6, by simpa using i7, fun _ h' => by rw [h] at h'; cases h'⟩
    simp only [beHead_stats, beHead_nFail, hst, if_false]
    simpa [hna] using i4
  | cont h1 h2 h3 =>
    refine ⟨by simpa [beNewton] using i1, by simpa [beNewton] using i2, ?_, ?_, ?_, ?_, ?_, ?_⟩
    · intro h'; exact absurd h' hst
    · simp only [beNewton, hst, if_false, beHead_stats, beHead_nFail]
      simpa [hna] using i4
    · right; simpa [beNewton] using h3
    · simp only [beNewton, beHead_stats, beHead_iterations, beHead_trace, List.length_cons]; omega
    · simp only [beNewton, beHead_stats, beHead_iterations, beHead_trace, List.length_cons]; omega
    · intro h'; simp [beNewton] at h'
  | giveUp h1 h2 h3 h4 =>
    have hk : r.iterations + 1 ≤ max 1 p.maxSteps := by rcases i5 with h | h <;> omega
    refine ⟨by simp [beGiveUp], by simpa [beGiveUp, beNewton] using i2, fun _ => rfl, ?_,
      Or.inl rfl, ?_, ?_, fun _ h' => by simp [beGiveUp] at h'⟩
    · simp only [beGiveUp, beNewton, beHead_stats, beHead_nFail, if_true]
      have := i4; simp only [hna, if_false] at this; omega
    · simp only [beGiveUp, beNewton, beHead_stats, beHead_trace, List.length_cons]; omega
    · simp only [beGiveUp, beNewton, beHead_stats, beHead_trace, List.length_cons]
      rw [Nat.add_mul] at *
      have e : (r.stats.accepted + (r.stats.rejected + 1)) * max 1 p.maxSteps
          = (r.stats.accepted + r.stats.rejected) * max 1 p.maxSteps + max 1 p.maxSteps := by
        rw [← Nat.add_assoc, Nat.add_mul, Nat.one_mul]
      rw [Nat.add_zero, ← Nat.add_mul, e]; rw [← Nat.add_mul] at i7; omega
  | retry h1 h2 h3 h4 =>
    have hk : r.iterations + 1 ≤ max 1 p.maxSteps := by rcases i5 with h | h <;> omega
    refine ⟨by simp [beRetry], by simp only [beRetry, beNewton, beHead_nFail]; omega, ?_, ?_,
      Or.inl rfl, ?_, ?_, fun _ _ => by simp [beRetry, beNewton]⟩
    · intro h'; exact absurd h' hst
    · simp only [beRetry, beNewton, beHead_stats, beHead_nFail, hst, if_false]
      have := i4; simp only [hna, if_false] at this; omega
    · simp only [beRetry, beNewton, beHead_stats, beHead_trace, List.length_cons]; omega
    · simp only [beRetry, beNewton, beHead_stats, beHead_trace, List.length_cons]
      have e : (r.stats.accepted + (r.stats.rejected + 1)) * max 1 p.maxSteps
          = (r.stats.accepted + r.stats.rejected) * max 1 p.maxSteps + max 1 p.maxSteps := by
        rw [← Nat.add_assoc, Nat.add_mul, Nat.one_mul]
      rw [Nat.add_zero, e]; omega
  | accept h1 h2 =>
    have hk : r.iterations + 1 ≤ max 1 p.maxSteps := by rcases i5 with h | h <;> omega
    refine ⟨?_, by simpa [beAccept_eq, beNewton] using i2, fun h' => by simp [beAccept_eq] at h', ?_,
      Or.inl rfl, ?_, ?_, fun _ _ => by simp [beAccept_eq, beNewton]⟩
    · simp only [beAccept_eq, beNewton, beHead_nSucc]; split <;> omega
    · simp only [beAccept_eq, beNewton, beHead_stats, beHead_nFail, reduceCtorEq, if_false]
      have := i4; simp only [hna, if_false] at this; omega
    · simp only [beAccept_eq, beNewton, beHead_stats, beHead_trace, List.length_cons]; omega
    · simp only [beAccept_eq, beNewton, beHead_stats, beHead_trace, List.length_cons]
      have e : (r.stats.accepted + 1 + r.stats.rejected) * max 1 p.maxSteps
          = (r.stats.accepted + r.stats.rejected) * max 1 p.maxSteps + max 1 p.maxSteps := by
        rw [Nat.add_right_comm, Nat.add_mul, Nat.one_mul]
      rw [Nat.add_zero, e]; omega

theorem BECtlInv_outOfFuel (r : BEState α) (hd : r.done = false) (h : BECtlInv p r) :
    BECtlInv p { r with status := .outOfFuel } := by
  obtain ⟨i1, i2, i3, i4, i5, i6, i7, i8⟩ := h
  have hna : r.status ≠ .acceptingUnconvergedIntegration := fun h => by
    rw [i3 h] at hd; cases hd
  refine ⟨i1, i2, fun h' => by simp at h', ?_, i5, i6, i7, i8⟩
  simpa [hna] using i4

theorem BECtlInv_loop (fuel : Nat) (r : BEState α) (h : BECtlInv p r) :
    BECtlInv p (beLoop o s p kc atol rtol T fuel r) :=
  beLoop_inv o s p kc atol rtol T (BECtlInv p)
    (fun r hd h => BECtlInv_step o s p kc atol rtol T r hd h)
    (fun r hd h => BECtlInv_outOfFuel p r hd h) fuel r h

/-- the state in which `beSolve` enters the loop -/
def beInit (h : α) (Y : Mat α) (sc : Scratch α) : BEState α :=
  { Yn1 := Y, Yn := Y, t := 0, h, nSucc := 0, nFail := 0, iterations := 0, stats := {},
    status := .notYetCalled, done := false, sc, trace := [] }

/-- the first `H` of the source: `h_start == 0 ? time_step : h_start` (not clipped to `time_step`) -/
def beInitialH (T : α) : α := if o.eq p.hstart 0 then T else p.hstart

theorem beSolve_eq (Y : Mat α) (sc : Scratch α) (fuel : Nat) :
    beSolve o s p kc atol rtol T Y sc fuel =
      let r := beLoop o s p kc atol rtol T fuel (beInit (beInitialH o p T) Y sc)
      { status := r.status, finalTime := r.t, stats := r.stats, Y := r.Yn1,
        sc := { r.sc with ynew := r.Yn },
        trace := r.trace.reverse.map fun it =>
          { h := it.h, alpha := 1 / it.h, matrix := it.matrix, error := 0, accepted := true } } := rfl

theorem BECountInv_init (h : α) (Y : Mat α) (sc : Scratch α) : BECountInv (beInit h Y sc) :=
  ⟨rfl, rfl, rfl, rfl, rfl⟩

theorem BECtlInv_init (h : α) (Y : Mat α) (sc : Scratch α) : BECtlInv p (beInit h Y sc) :=
  ⟨Nat.zero_le _, Nat.zero_le _, fun h => (by cases h), rfl, Or.inl rfl, Nat.le_refl _,
    (by simp [beInit]), fun _ _ => rfl⟩

/-! ### C06: `Yn` only changes on acceptance; a retried failure resets `Yn1` -/

theorem beStep_Yn (r : BEState α) :
    ((beStep o s p kc atol rtol T r).Yn = r.Yn ∧
      (beStep o s p kc atol rtol T r).stats.accepted = r.stats.accepted) ∨
    ((beStep o s p kc atol rtol T r).Yn = (beStep o s p kc atol rtol T r).Yn1 ∧
      (beStep o s p kc atol rtol T r).stats.accepted = r.stats.accepted + 1 ∧
      (beStep o s p kc atol rtol T r).status = .converged) := by
  have hc := beStep_cases o s p kc atol rtol T r
  generalize beStep o s p kc atol rtol T r = r' at hc ⊢
  cases hc <;> simp [beNewton, beGiveUp, beRetry, beAccept_eq]

/-- an iteration (from a not-`done` state) that increments `rejected` and does not end the solve is a
    retried failure: it is the `retry` case -/
theorem beStep_retry_of_rejected (r : BEState α)
    (h1 : (beStep o s p kc atol rtol T r).stats.rejected = r.stats.rejected + 1)
    (h2 : (beStep o s p kc atol rtol T r).done = false) :
    (beHead o T r).done = false ∧ beConv o s p kc atol rtol r = false ∧
    ¬ r.iterations + 1 < p.maxSteps ∧ r.nFail < p.reductions.length := by
  have hc := beStep_cases o s p kc atol rtol T r
  generalize beStep o s p kc atol rtol T r = r' at hc h1 h2
  cases hc with
  | exit h => simp at h1
  | cont _ _ _ => simp [beNewton] at h1
  | giveUp _ _ _ _ => simp [beGiveUp] at h2
  | retry a b c d => exact ⟨a, b, c, d⟩
  | accept _ _ => simp [beAccept_eq, beNewton] at h1

end BEAny

end Micm
