/-
Lemmas about the flattened backward-Euler loop (`beStep`, `beLoop`, `beSolve`):
case analysis of one iteration (exit / continue / give up / retry / accept), an induction principle
for `beLoop`, the relation of `beLoop` to the iterates of `beStep`, and the invariants used by
C05 / C06 / C07 / C08 / C09 (backward-Euler parts).

Built on `Micm/Lemmas/Special.lean` (`beStep_eq`: head, Newton update, continue / reject / accept).
-/
import Micm.Lemmas.Conservation

namespace Micm
set_option linter.unusedSectionVars false
open Finset

/-! ## Part 1 — any carrier: one iteration, case by case -/

section BEAny
variable {α : Type} [OfNat α 0] [OfNat α 1] [OfNat α 2] [Add α] [Sub α] [Mul α] [Div α]
variable (o : Ops α) (s : SolverCfg α) (p : BEParams α) (kc : Mat α) (atol : Array α) (rtol : α)
    (T : α)

/-! ### the loop head touches only `status` and `done` -/

theorem beHead_cases (r : BEState α) :
    (r.iterations = 0 ∧ o.lt r.t T = true ∧ beHead o T r = { r with status := .running }) ∨
    (r.iterations = 0 ∧ o.lt r.t T = false ∧ beHead o T r = { r with done := true }) ∨
    (r.iterations ≠ 0 ∧ beHead o T r = r) := by
  unfold beHead
  by_cases h0 : r.iterations = 0
  · cases hl : o.lt r.t T
    · right; left; exact ⟨h0, rfl, by simp [h0]⟩
    · left; exact ⟨h0, rfl, by simp [h0]⟩
  · right; right; exact ⟨h0, by simp [h0]⟩

@[simp] theorem beHead_Yn1 (r : BEState α) : (beHead o T r).Yn1 = r.Yn1 := by
  rcases beHead_cases o T r with ⟨_, _, h⟩ | ⟨_, _, h⟩ | ⟨_, h⟩ <;> rw [h]
@[simp] theorem beHead_Yn (r : BEState α) : (beHead o T r).Yn = r.Yn := by
  rcases beHead_cases o T r with ⟨_, _, h⟩ | ⟨_, _, h⟩ | ⟨_, h⟩ <;> rw [h]
@[simp] theorem beHead_t (r : BEState α) : (beHead o T r).t = r.t := by
  rcases beHead_cases o T r with ⟨_, _, h⟩ | ⟨_, _, h⟩ | ⟨_, h⟩ <;> rw [h]
@[simp] theorem beHead_h (r : BEState α) : (beHead o T r).h = r.h := by
  rcases beHead_cases o T r with ⟨_, _, h⟩ | ⟨_, _, h⟩ | ⟨_, h⟩ <;> rw [h]
@[simp] theorem beHead_nSucc (r : BEState α) : (beHead o T r).nSucc = r.nSucc := by
  rcases beHead_cases o T r with ⟨_, _, h⟩ | ⟨_, _, h⟩ | ⟨_, h⟩ <;> rw [h]
@[simp] theorem beHead_nFail (r : BEState α) : (beHead o T r).nFail = r.nFail := by
  rcases beHead_cases o T r with ⟨_, _, h⟩ | ⟨_, _, h⟩ | ⟨_, h⟩ <;> rw [h]
@[simp] theorem beHead_iterations (r : BEState α) : (beHead o T r).iterations = r.iterations := by
  rcases beHead_cases o T r with ⟨_, _, h⟩ | ⟨_, _, h⟩ | ⟨_, h⟩ <;> rw [h]
@[simp] theorem beHead_stats (r : BEState α) : (beHead o T r).stats = r.stats := by
  rcases beHead_cases o T r with ⟨_, _, h⟩ | ⟨_, _, h⟩ | ⟨_, h⟩ <;> rw [h]
@[simp] theorem beHead_sc (r : BEState α) : (beHead o T r).sc = r.sc := by
  rcases beHead_cases o T r with ⟨_, _, h⟩ | ⟨_, _, h⟩ | ⟨_, h⟩ <;> rw [h]
@[simp] theorem beHead_trace (r : BEState α) : (beHead o T r).trace = r.trace := by
  rcases beHead_cases o T r with ⟨_, _, h⟩ | ⟨_, _, h⟩ | ⟨_, h⟩ <;> rw [h]

/-- from a state that is not `done`, the head sets `done` exactly when a new outer iteration would
    start (`iterations = 0`) and the test `t < time_step` fails -/
theorem beHead_done (r : BEState α) (hd : r.done = false) :
    (beHead o T r).done = (decide (r.iterations = 0) && !o.lt r.t T) := by
  rcases beHead_cases o T r with ⟨h0, hl, h⟩ | ⟨h0, hl, h⟩ | ⟨h0, h⟩
  · rw [h]; simp [h0, hl, hd]
  · rw [h]; simp [h0, hl]
  · rw [h]; simp [h0, hd]

theorem beHead_status_eq (r : BEState α) :
    (beHead o T r).status = if r.iterations = 0 ∧ o.lt r.t T = true then .running else r.status := by
  rcases beHead_cases o T r with ⟨h0, hl, h⟩ | ⟨h0, hl, h⟩ | ⟨h0, h⟩
  · rw [h]; simp [h0, hl]
  · rw [h]; simp [hl]
  · rw [h]; simp [h0]

/-! the pieces of the Newton update only depend on `Yn1`, `Yn`, `h`, `sc` -/

@[simp] theorem beMatrix_head (r : BEState α) : beMatrix s kc (beHead o T r) = beMatrix s kc r := by
  unfold beMatrix; simp
@[simp] theorem beForcing_head (r : BEState α) : beForcing s kc (beHead o T r) = beForcing s kc r := by
  unfold beForcing; simp
@[simp] theorem beFactor_head (r : BEState α) : beFactor s kc (beHead o T r) = beFactor s kc r := by
  unfold beFactor; simp
@[simp] theorem beResidual_head (r : BEState α) :
    beResidual s kc (beHead o T r) = beResidual s kc r := by
  unfold beResidual; simp
@[simp] theorem beNewY_head (r : BEState α) : beNewY o s kc (beHead o T r) = beNewY o s kc r := by
  unfold beNewY; simp
@[simp] theorem beConv_head (r : BEState α) :
    beConv o s p kc atol rtol (beHead o T r) = beConv o s p kc atol rtol r := by
  unfold beConv; simp

/-! ### the two ways an un-converged outer iteration ends -/

/-- `n_convergence_failures >= time_step_reductions.size()`: accept the un-converged `H`, stop -/
def beGiveUp (r : BEState α) : BEState α :=
  { r with iterations := 0, stats := { r.stats with rejected := r.stats.rejected + 1 }, nSucc := 0,
           t := r.t + r.h, status := .acceptingUnconvergedIntegration, done := true }

/-- otherwise: reset `Yn1` to `Yn`, reduce `H` by the next factor, clip -/
def beRetry (r : BEState α) : BEState α :=
  { r with iterations := 0, stats := { r.stats with rejected := r.stats.rejected + 1 }, nSucc := 0,
           Yn1 := r.Yn, h := cmin o (r.h * p.reductions.getD r.nFail 1) (T - r.t),
           nFail := r.nFail + 1 }

theorem beReject_eq (r : BEState α) :
    beReject o p T r = if p.reductions.length ≤ r.nFail then beGiveUp r else beRetry o p T r := by
  unfold beReject beGiveUp beRetry
  simp only [ge_iff_le]

/-- the accepted tail, with the pair `(n_successful_integrations, H)` spelled out -/
theorem beAccept_eq (r : BEState α) :
    beAccept o T r =
      { r with iterations := 0, stats := { r.stats with accepted := r.stats.accepted + 1 },
               status := .converged, t := r.t + r.h, Yn := r.Yn1,
               nSucc := if r.nSucc + 1 ≥ 2 then 0 else r.nSucc + 1,
               h := cmin o (if r.nSucc + 1 ≥ 2 then r.h * 2 else r.h) (T - (r.t + r.h)) } := by
  unfold beAccept
  simp only []
  split <;> rfl

/-- the five ways through one iteration of the flattened loop; `r1 = beHead r` is the state after
    the `while (t < time_step)` test, `beNewton r1` the state after the Newton update -/
inductive BEStepCase (r : BEState α) : BEState α → Prop
  | exit : (beHead o T r).done = true → BEStepCase r (beHead o T r)
  | cont : (beHead o T r).done = false → beConv o s p kc atol rtol r = false →
      r.iterations + 1 < p.maxSteps → BEStepCase r (beNewton o s kc (beHead o T r))
  | giveUp : (beHead o T r).done = false → beConv o s p kc atol rtol r = false →
      ¬ r.iterations + 1 < p.maxSteps → p.reductions.length ≤ r.nFail →
      BEStepCase r (beGiveUp (beNewton o s kc (beHead o T r)))
  | retry : (beHead o T r).done = false → beConv o s p kc atol rtol r = false →
      ¬ r.iterations + 1 < p.maxSteps → r.nFail < p.reductions.length →
      BEStepCase r (beRetry o p T (beNewton o s kc (beHead o T r)))
  | accept : (beHead o T r).done = false → beConv o s p kc atol rtol r = true →
      BEStepCase r (beAccept o T (beNewton o s kc (beHead o T r)))

theorem beStep_cases (r : BEState α) :
    BEStepCase o s p kc atol rtol T r (beStep o s p kc atol rtol T r) := by
  rw [beStep_eq]
  simp only [beConv_head, beHead_iterations]
  cases hd : (beHead o T r).done
  · simp only [Bool.false_eq_true, if_false]
    cases hc : beConv o s p kc atol rtol r
    · simp only [Bool.not_false, Bool.true_and, decide_eq_true_eq, if_true]
      by_cases hm : r.iterations + 1 < p.maxSteps
      · rw [if_pos hm]; exact .cont hd hc hm
      · rw [if_neg hm, beReject_eq]
        have hn : (beNewton o s kc (beHead o T r)).nFail = r.nFail := by simp [beNewton]
        by_cases hf : p.reductions.length ≤ r.nFail
        · rw [if_pos (by rw [hn]; exact hf)]; exact .giveUp hd hc hm hf
        · rw [if_neg (by rw [hn]; exact hf)]; exact .retry hd hc hm (by omega)
    · simp only [Bool.not_true, Bool.false_and, Bool.false_eq_true, if_false]
      exact .accept hd hc
  · simp only [if_true]; exact .exit hd

/-- the first Newton iteration of an outer iteration never tests convergence -/
theorem beConv_first (r : BEState α) (h : r.iterations = 0) :
    beConv o s p kc atol rtol r = false := by
  unfold beConv; simp [h]

/-! ### induction along `beLoop` -/

theorem beLoop_zero (r : BEState α) :
    beLoop o s p kc atol rtol T 0 r = if r.done then r else { r with status := .outOfFuel } := rfl

theorem beLoop_succ (fuel : Nat) (r : BEState α) :
    beLoop o s p kc atol rtol T (fuel + 1) r =
      if r.done then r else beLoop o s p kc atol rtol T fuel (beStep o s p kc atol rtol T r) := rfl

/-- invariants of `beStep` (from states that are not `done`) that survive the `outOfFuel` marking
    hold where `beLoop` stops -/
theorem beLoop_inv (P : BEState α → Prop)
    (hstep : ∀ r, r.done = false → P r → P (beStep o s p kc atol rtol T r))
    (hout : ∀ r, r.done = false → P r → P { r with status := .outOfFuel })
    (fuel : Nat) (r : BEState α) (h : P r) : P (beLoop o s p kc atol rtol T fuel r) := by
  induction fuel generalizing r with
  | zero =>
    rw [beLoop_zero]; split
    · exact h
    · exact hout r (by simpa using ‹¬ r.done = true›) h
  | succ n ih =>
    rw [beLoop_succ]; split
    · exact h
    · exact ih _ (hstep r (by simpa using ‹¬ r.done = true›) h)

/-- `beLoop` runs `beStep` until `done` (at most `fuel` times); if the fuel runs out first it only
    overwrites the status -/
theorem beLoop_eq_iterate (fuel : Nat) (r : BEState α) :
    ∃ N, N ≤ fuel ∧ (∀ k, k < N → ((beStep o s p kc atol rtol T)^[k] r).done = false) ∧
      ((((beStep o s p kc atol rtol T)^[N] r).done = true ∧
          beLoop o s p kc atol rtol T fuel r = (beStep o s p kc atol rtol T)^[N] r) ∨
       (N = fuel ∧ ((beStep o s p kc atol rtol T)^[N] r).done = false ∧
          beLoop o s p kc atol rtol T fuel r =
            { (beStep o s p kc atol rtol T)^[N] r with status := .outOfFuel })) := by
  induction fuel generalizing r with
  | zero =>
    refine ⟨0, Nat.le_refl _, fun k hk => by omega, ?_⟩
    rw [beLoop_zero]
    cases hd : r.done
    · right; exact ⟨rfl, hd, by simp [hd]⟩
    · left; exact ⟨hd, by simp⟩
  | succ n ih =>
    rw [beLoop_succ]
    cases hd : r.done
    · obtain ⟨N, hN, hk, hcase⟩ := ih (beStep o s p kc atol rtol T r)
      refine ⟨N + 1, by omega, ?_, ?_⟩
      · intro k hk'
        cases k with
        | zero => exact hd
        | succ k => rw [Function.iterate_succ_apply]; exact hk k (by omega)
      · simp only [Bool.false_eq_true, if_false, Function.iterate_succ_apply]
        rcases hcase with h | ⟨h1, h2, h3⟩
        · left; exact h
        · right; exact ⟨by omega, h2, h3⟩
    · exact ⟨0, by omega, fun k hk => by omega, Or.inl ⟨hd, by simp⟩⟩

/-- variant of `beLoop_inv` for invariants that mention the status: `beLoop` stops either in a `done`
    state satisfying `P`, or (fuel exhausted) in a state that differs from a not-`done` state
    satisfying `P` only by the status `outOfFuel` -/
theorem beLoop_inv' (P : BEState α → Prop)
    (hstep : ∀ r, r.done = false → P r → P (beStep o s p kc atol rtol T r))
    (fuel : Nat) (r : BEState α) (h : P r) :
    (P (beLoop o s p kc atol rtol T fuel r) ∧ (beLoop o s p kc atol rtol T fuel r).done = true) ∨
    (∃ r', P r' ∧ r'.done = false ∧
      beLoop o s p kc atol rtol T fuel r = { r' with status := .outOfFuel }) := by
  induction fuel generalizing r with
  | zero =>
    rw [beLoop_zero]
    cases hd : r.done
    · right; exact ⟨r, h, hd, by simp [hd]⟩
    · left; simp [h, hd]
  | succ n ih =>
    rw [beLoop_succ]
    cases hd : r.done
    · simpa using ih _ (hstep r hd h)
    · left; simp [h, hd]

/-! ### one iteration, equationally, and its projections -/

theorem beStep_of_exit (r : BEState α) (hd : (beHead o T r).done = true) :
    beStep o s p kc atol rtol T r = beHead o T r := by
  rw [beStep_eq]; simp [hd]

theorem beStep_of_cont (r : BEState α) (hd : (beHead o T r).done = false)
    (hc : beConv o s p kc atol rtol r = false) (hm : r.iterations + 1 < p.maxSteps) :
    beStep o s p kc atol rtol T r = beNewton o s kc (beHead o T r) := by
  rw [beStep_eq]; simp [hd, hc, hm]

theorem beStep_of_giveUp (r : BEState α) (hd : (beHead o T r).done = false)
    (hc : beConv o s p kc atol rtol r = false) (hm : ¬ r.iterations + 1 < p.maxSteps)
    (hf : p.reductions.length ≤ r.nFail) :
    beStep o s p kc atol rtol T r = beGiveUp (beNewton o s kc (beHead o T r)) := by
  rw [beStep_eq]; simp [hd, hc, hm, hf, beReject_eq, beNewton]

theorem beStep_of_retry (r : BEState α) (hd : (beHead o T r).done = false)
    (hc : beConv o s p kc atol rtol r = false) (hm : ¬ r.iterations + 1 < p.maxSteps)
    (hf : r.nFail < p.reductions.length) :
    beStep o s p kc atol rtol T r = beRetry o p T (beNewton o s kc (beHead o T r)) := by
  rw [beStep_eq]; simp [hd, hc, hm, hf, beReject_eq, beNewton]

theorem beStep_of_accept (r : BEState α) (hd : (beHead o T r).done = false)
    (hc : beConv o s p kc atol rtol r = true) :
    beStep o s p kc atol rtol T r = beAccept o T (beNewton o s kc (beHead o T r)) := by
  rw [beStep_eq]; simp [hd, hc]

/-- the record pushed on the trace by the Newton update of this iteration -/
def beIter (r : BEState α) : BEIter α := { h := r.h, matrix := beMatrix s kc r }

/-- exactly one `BEIter` is recorded per iteration that passes the loop head -/
theorem beStep_trace (r : BEState α) :
    (beStep o s p kc atol rtol T r).trace =
      if (beHead o T r).done then r.trace else beIter s kc r :: r.trace := by
  have hc := beStep_cases o s p kc atol rtol T r
  generalize beStep o s p kc atol rtol T r = r' at hc ⊢
  cases hc <;> simp [*, beNewton, beGiveUp, beRetry, beAccept_eq, beIter]

/-- the scratch after an iteration that passed the head: `forcing_` holds the Newton update `δ`,
    the sparse buffers the factorisation -/
theorem beStep_sc (r : BEState α) (hd : (beHead o T r).done = false) :
    (beStep o s p kc atol rtol T r).sc =
      { r.sc with f0 := beResidual s kc r, jac := (beFactor s kc r).1,
                  lower := (beFactor s kc r).2.1, upper := (beFactor s kc r).2.2 } := by
  have hc := beStep_cases o s p kc atol rtol T r
  generalize beStep o s p kc atol rtol T r = r' at hc ⊢
  cases hc <;> simp_all [beNewton, beGiveUp, beRetry, beAccept_eq]

/-- `Yn1` after an iteration that passed the head: the clamped Newton iterate, except after a
    failed outer iteration that is retried, where it is reset to `Yn` -/
theorem beStep_Yn1 (r : BEState α) (hd : (beHead o T r).done = false) :
    (beStep o s p kc atol rtol T r).Yn1 =
      if beConv o s p kc atol rtol r = false ∧ ¬ r.iterations + 1 < p.maxSteps ∧
         r.nFail < p.reductions.length then r.Yn else beNewY o s kc r := by
  have hc := beStep_cases o s p kc atol rtol T r
  generalize beStep o s p kc atol rtol T r = r' at hc ⊢
  cases hc with
  | exit h => rw [hd] at h; cases h
  | cont _ h1 h2 => simp [beNewton, h1, h2]
  | giveUp _ h1 h2 h3 => simp [beNewton, beGiveUp, h1, h2, Nat.not_lt.mpr h3]
  | retry _ h1 h2 h3 => simp [beNewton, beRetry, h1, h2, h3]
  | accept _ h1 => simp [beNewton, beAccept_eq, h1]

/-! ### C05: every recorded matrix is `I/H − J(Yn1)` for the current `Yn1`, `H` -/

/-- every `BEIter` in the trace at the end of `beLoop` was either there at the start or was recorded
    by the `k`-th iteration (`k < fuel`) from the `Yn1`, `h`, Jacobian buffer current at that
    iteration: its matrix is `addDiag diag (jacobian(Yn1) into the zeroed buffer) (1/h)` -/
theorem beLoop_trace_mem (fuel : Nat) (r : BEState α) (it : BEIter α)
    (h : it ∈ (beLoop o s p kc atol rtol T fuel r).trace) :
    it ∈ r.trace ∨ ∃ k, k < fuel ∧
      it = { h := ((beStep o s p kc atol rtol T)^[k] r).h,
             matrix := addDiag s.diag
               (s.jacobian kc ((beStep o s p kc atol rtol T)^[k] r).Yn1
                 (fillM ((beStep o s p kc atol rtol T)^[k] r).sc.jac 0))
               (1 / ((beStep o s p kc atol rtol T)^[k] r).h) } := by
  induction fuel generalizing r with
  | zero =>
    rw [beLoop_zero] at h
    left; split at h <;> exact h
  | succ n ih =>
    rw [beLoop_succ] at h
    split at h
    · exact Or.inl h
    · rcases ih _ h with h1 | ⟨k, hk, h1⟩
      · rw [beStep_trace] at h1
        split at h1
        · exact Or.inl h1
        · rcases List.mem_cons.mp h1 with h2 | h2
          · exact Or.inr ⟨0, by omega, h2⟩
          · exact Or.inl h2
      · exact Or.inr ⟨k + 1, by omega, by rw [Function.iterate_succ_apply]; exact h1⟩

/-! ### C06: counters -/

/-- the five per-iteration counters agree with the ghost trace -/
def BECountInv (r : BEState α) : Prop :=
  r.stats.functionCalls = r.trace.length ∧ r.stats.jacobianUpdates = r.trace.length ∧
  r.stats.decompositions = r.trace.length ∧ r.stats.solves = r.trace.length ∧
  r.stats.numberOfSteps = r.trace.length

theorem BECountInv_step (r : BEState α) (h : BECountInv r) :
    BECountInv (beStep o s p kc atol rtol T r) := by
  obtain ⟨h1, h2, h3, h4, h5⟩ := h
  have hc := beStep_cases o s p kc atol rtol T r
  generalize beStep o s p kc atol rtol T r = r' at hc ⊢
  unfold BECountInv
  cases hc <;> simp [*, beNewton, beGiveUp, beRetry, beAccept_eq]

theorem BECountInv_loop (fuel : Nat) (r : BEState α) (h : BECountInv r) :
    BECountInv (beLoop o s p kc atol rtol T fuel r) :=
  beLoop_inv o s p kc atol rtol T BECountInv (fun r _ h => BECountInv_step o s p kc atol rtol T r h)
    (fun _ _ h => h) fuel r h

/-- does the iteration from `r` complete an outer iteration (accept or reject)? -/
def beCompletes (r : BEState α) : Bool :=
  !(beHead o T r).done && !(!(beConv o s p kc atol rtol r) && decide (r.iterations + 1 < p.maxSteps))

/-- `accepted`/`rejected` never decrease and their sum grows by one exactly when an outer
    iteration completes -/
theorem beStep_acc_rej (r : BEState α) :
    r.stats.accepted ≤ (beStep o s p kc atol rtol T r).stats.accepted ∧
    r.stats.rejected ≤ (beStep o s p kc atol rtol T r).stats.rejected ∧
    (beStep o s p kc atol rtol T r).stats.accepted + (beStep o s p kc atol rtol T r).stats.rejected =
      r.stats.accepted + r.stats.rejected +
        (if beCompletes o s p kc atol rtol T r then 1 else 0) := by
  have hc := beStep_cases o s p kc atol rtol T r
  generalize beStep o s p kc atol rtol T r = r' at hc ⊢
  unfold beCompletes
  cases hc <;> simp [*, beNewton, beGiveUp, beRetry, beAccept_eq] <;> omega

/-- number of outer iterations completed by the first `N` iterations from `r` -/
def beOuterCount (N : Nat) (r : BEState α) : Nat :=
  ((List.range N).filter fun k =>
    beCompletes o s p kc atol rtol T ((beStep o s p kc atol rtol T)^[k] r)).length

theorem beIter_acc_rej (N : Nat) (r : BEState α) :
    ((beStep o s p kc atol rtol T)^[N] r).stats.accepted +
      ((beStep o s p kc atol rtol T)^[N] r).stats.rejected =
      r.stats.accepted + r.stats.rejected + beOuterCount o s p kc atol rtol T N r := by
  induction N with
  | zero => simp [beOuterCount]
  | succ N ih =>
    rw [Function.iterate_succ_apply',
      (beStep_acc_rej o s p kc atol rtol T _).2.2, ih]
    unfold beOuterCount
    rw [List.range_succ, List.filter_append, List.length_append]
    by_cases hcpl : beCompletes o s p kc atol rtol T ((beStep o s p kc atol rtol T)^[N] r) = true
    · simp [hcpl]; omega
    · simp [hcpl]

/-- control invariants of the loop (from the initial state of `beSolve`) -/
structure BECtlInv (p : BEParams α) (r : BEState α) : Prop where
  nSucc : r.nSucc ≤ 1
  nFail : r.nFail ≤ p.reductions.length
  accDone : r.status = .acceptingUnconvergedIntegration → r.done = true
  rej : r.stats.rejected = r.nFail + (if r.status = .acceptingUnconvergedIntegration then 1 else 0)
  iters : r.iterations = 0 ∨ r.iterations < p.maxSteps
  lower : r.stats.accepted + r.stats.rejected + r.iterations ≤ r.trace.length
  upper : r.trace.length ≤ (r.stats.accepted + r.stats.rejected) * max 1 p.maxSteps + r.iterations
  start : r.iterations = 0 → r.done = false → r.Yn1 = r.Yn

theorem BECtlInv_step (r : BEState α) (hd : r.done = false) (h : BECtlInv p r) :
    BECtlInv p (beStep o s p kc atol rtol T r) := by
  obtain ⟨i1, i2, i3, i4, i5, i6, i7, i8⟩ := h
  have hna : r.status ≠ .acceptingUnconvergedIntegration := fun h => by
    rw [i3 h] at hd; cases hd
  have hst : (beHead o T r).status ≠ .acceptingUnconvergedIntegration := by
    rw [beHead_status_eq]; split
    · simp
    · exact hna
  have hM : 1 ≤ max 1 p.maxSteps := Nat.le_max_left _ _
  have hM2 : p.maxSteps ≤ max 1 p.maxSteps := Nat.le_max_right _ _
  have hc := beStep_cases o s p kc atol rtol T r
  generalize beStep o s p kc atol rtol T r = r' at hc ⊢
  cases hc with
  | exit h =>
    refine ⟨by simpa using i1, by simpa using i2, fun _ => h, ?_, by simpa using i5,
      by simpa using i6, by simpa using i7, fun _ h' => by rw [h] at h'; cases h'⟩
    simp only [beHead_stats, beHead_nFail, hst, if_false]
    simpa [hna] using i4
  | cont h1 h2 h3 =>
    refine ⟨by simpa [beNewton] using i1, by simpa [beNewton] using i2, ?_, ?_, ?_, ?_, ?_, ?_⟩
    · intro h'; exact absurd h' hst
    · simp only [beNewton, hst, if_false, beHead_stats, beHead_nFail]
      simpa [hna] using i4
    · right; simpa [beNewton] using h3
    · simp only [beNewton, beHead_stats, beHead_iterations, beHead_trace, List.length_cons]; omega
    · simp only [beNewton, beHead_stats, beHead_iterations, beHead_trace, List.length_cons]; omega
    · intro h'; simp [beNewton] at h'
  | giveUp h1 h2 h3 h4 =>
    have hk : r.iterations + 1 ≤ max 1 p.maxSteps := by rcases i5 with h | h <;> omega
    refine ⟨by simp [beGiveUp], by simpa [beGiveUp, beNewton] using i2, fun _ => rfl, ?_,
      Or.inl rfl, ?_, ?_, fun _ h' => by simp [beGiveUp] at h'⟩
    · simp only [beGiveUp, beNewton, beHead_stats, beHead_nFail, if_true]
      have := i4; simp only [hna, if_false] at this; omega
    · simp only [beGiveUp, beNewton, beHead_stats, beHead_trace, List.length_cons]; omega
    · simp only [beGiveUp, beNewton, beHead_stats, beHead_trace, List.length_cons]
      rw [Nat.add_mul] at *
      have e : (r.stats.accepted + (r.stats.rejected + 1)) * max 1 p.maxSteps
          = (r.stats.accepted + r.stats.rejected) * max 1 p.maxSteps + max 1 p.maxSteps := by
        rw [← Nat.add_assoc, Nat.add_mul, Nat.one_mul]
      rw [Nat.add_zero, ← Nat.add_mul, e]; rw [← Nat.add_mul] at i7; omega
  | retry h1 h2 h3 h4 =>
    have hk : r.iterations + 1 ≤ max 1 p.maxSteps := by rcases i5 with h | h <;> omega
    refine ⟨by simp [beRetry], by simp only [beRetry, beNewton, beHead_nFail]; omega, ?_, ?_,
      Or.inl rfl, ?_, ?_, fun _ _ => by simp [beRetry, beNewton]⟩
    · intro h'; exact absurd h' hst
    · simp only [beRetry, beNewton, beHead_stats, beHead_nFail, hst, if_false]
      have := i4; simp only [hna, if_false] at this; omega
    · simp only [beRetry, beNewton, beHead_stats, beHead_trace, List.length_cons]; omega
    · simp only [beRetry, beNewton, beHead_stats, beHead_trace, List.length_cons]
      have e : (r.stats.accepted + (r.stats.rejected + 1)) * max 1 p.maxSteps
          = (r.stats.accepted + r.stats.rejected) * max 1 p.maxSteps + max 1 p.maxSteps := by
        rw [← Nat.add_assoc, Nat.add_mul, Nat.one_mul]
      rw [Nat.add_zero, e]; omega
  | accept h1 h2 =>
    have hk : r.iterations + 1 ≤ max 1 p.maxSteps := by rcases i5 with h | h <;> omega
    refine ⟨?_, by simpa [beAccept_eq, beNewton] using i2, fun h' => by simp [beAccept_eq] at h', ?_,
      Or.inl rfl, ?_, ?_, fun _ _ => by simp [beAccept_eq, beNewton]⟩
    · simp only [beAccept_eq, beNewton, beHead_nSucc]; split <;> omega
    · simp only [beAccept_eq, beNewton, beHead_stats, beHead_nFail, reduceCtorEq, if_false]
      have := i4; simp only [hna, if_false] at this; omega
    · simp only [beAccept_eq, beNewton, beHead_stats, beHead_trace, List.length_cons]; omega
    · simp only [beAccept_eq, beNewton, beHead_stats, beHead_trace, List.length_cons]
      have e : (r.stats.accepted + 1 + r.stats.rejected) * max 1 p.maxSteps
          = (r.stats.accepted + r.stats.rejected) * max 1 p.maxSteps + max 1 p.maxSteps := by
        rw [Nat.add_right_comm, Nat.add_mul, Nat.one_mul]
      rw [Nat.add_zero, e]; omega

theorem BECtlInv_outOfFuel (r : BEState α) (hd : r.done = false) (h : BECtlInv p r) :
    BECtlInv p { r with status := .outOfFuel } := by
  obtain ⟨i1, i2, i3, i4, i5, i6, i7, i8⟩ := h
  have hna : r.status ≠ .acceptingUnconvergedIntegration := fun h => by
    rw [i3 h] at hd; cases hd
  refine ⟨i1, i2, fun h' => by simp at h', ?_, i5, i6, i7, i8⟩
  simpa [hna] using i4

theorem BECtlInv_loop (fuel : Nat) (r : BEState α) (h : BECtlInv p r) :
    BECtlInv p (beLoop o s p kc atol rtol T fuel r) :=
  beLoop_inv o s p kc atol rtol T (BECtlInv p)
    (fun r hd h => BECtlInv_step o s p kc atol rtol T r hd h)
    (fun r hd h => BECtlInv_outOfFuel p r hd h) fuel r h

/-- the state in which `beSolve` enters the loop -/
def beInit (h : α) (Y : Mat α) (sc : Scratch α) : BEState α :=
  { Yn1 := Y, Yn := Y, t := 0, h, nSucc := 0, nFail := 0, iterations := 0, stats := {},
    status := .notYetCalled, done := false, sc, trace := [] }

/-- the first `H` of the source: `h_start == 0 ? time_step : std::min(h_start, time_step)` -/
def beInitialH (T : α) : α := if o.eq p.hstart 0 then T else cmin o p.hstart T

theorem beSolve_eq (Y : Mat α) (sc : Scratch α) (fuel : Nat) :
    beSolve o s p kc atol rtol T Y sc fuel =
      let r := beLoop o s p kc atol rtol T fuel (beInit (beInitialH o p T) Y sc)
      { status := r.status, finalTime := r.t, stats := r.stats, Y := r.Yn1,
        sc := { r.sc with ynew := r.Yn },
        trace := r.trace.reverse.map fun it =>
          { h := it.h, alpha := 1 / it.h, matrix := it.matrix, error := 0, accepted := true } } := rfl

theorem BECountInv_init (h : α) (Y : Mat α) (sc : Scratch α) : BECountInv (beInit h Y sc) :=
  ⟨rfl, rfl, rfl, rfl, rfl⟩

theorem BECtlInv_init (h : α) (Y : Mat α) (sc : Scratch α) : BECtlInv p (beInit h Y sc) :=
  ⟨Nat.zero_le _, Nat.zero_le _, fun h => (by cases h), rfl, Or.inl rfl, Nat.le_refl _,
    (by simp [beInit]), fun _ _ => rfl⟩

/-! ### C06: `Yn` only changes on acceptance; a retried failure resets `Yn1` -/

theorem beStep_Yn (r : BEState α) :
    ((beStep o s p kc atol rtol T r).Yn = r.Yn ∧
      (beStep o s p kc atol rtol T r).stats.accepted = r.stats.accepted) ∨
    ((beStep o s p kc atol rtol T r).Yn = (beStep o s p kc atol rtol T r).Yn1 ∧
      (beStep o s p kc atol rtol T r).stats.accepted = r.stats.accepted + 1 ∧
      (beStep o s p kc atol rtol T r).status = .converged) := by
  have hc := beStep_cases o s p kc atol rtol T r
  generalize beStep o s p kc atol rtol T r = r' at hc ⊢
  cases hc <;> simp [beNewton, beGiveUp, beRetry, beAccept_eq]

/-- an iteration (from a not-`done` state) that increments `rejected` and does not end the solve is a
    retried failure: it is the `retry` case -/
theorem beStep_retry_of_rejected (r : BEState α)
    (h1 : (beStep o s p kc atol rtol T r).stats.rejected = r.stats.rejected + 1)
    (h2 : (beStep o s p kc atol rtol T r).done = false) :
    (beHead o T r).done = false ∧ beConv o s p kc atol rtol r = false ∧
    ¬ r.iterations + 1 < p.maxSteps ∧ r.nFail < p.reductions.length := by
  have hc := beStep_cases o s p kc atol rtol T r
  generalize beStep o s p kc atol rtol T r = r' at hc h1 h2
  cases hc with
  | exit h => simp at h1
  | cont _ _ _ => simp [beNewton] at h1
  | giveUp _ _ _ _ => simp [beGiveUp] at h2
  | retry a b c d => exact ⟨a, b, c, d⟩
  | accept _ _ => simp [beAccept_eq, beNewton] at h1

end BEAny

/-! ## Part 2 — ordered field: time and step-size bounds (C06) -/

section BEOrdered
variable {K : Type} [Field K] [LinearOrder K] [IsStrictOrderedRing K]
variable {o : Ops K} (ho : OrderedOps o) (s : SolverCfg K) (p : BEParams K) (kc : Mat K)
    (atol : Array K) (rtol : K) (T : K)

/-- time invariant of the loop when the first `H` does not exceed `time_step` -/
structure BETimeInv (T : K) (r : BEState K) : Prop where
  t0 : 0 ≤ r.t
  h0 : 0 ≤ r.h
  tT : r.t ≤ T
  hle : r.done = false → r.h ≤ T - r.t
  fin : r.done = true →
    r.status = .acceptingUnconvergedIntegration ∨ (r.status = .converged ∧ r.t = T)
  stat : r.done = false →
    r.status = .converged ∨ ((r.status = .running ∨ r.status = .notYetCalled) ∧ r.t < T)

include ho in
theorem BETimeInv_step (hred : ∀ x ∈ p.reductions, 0 ≤ x) (r : BEState K) (hd : r.done = false)
    (h : BETimeInv T r) : BETimeInv T (beStep o s p kc atol rtol T r) := by
  obtain ⟨i1, i2, i3, i4, i5, i6⟩ := h
  have i4 := i4 hd
  have i6 := i6 hd
  have hhead : ((beHead o T r).done = true → (beHead o T r).status = .converged ∧ r.t = T) ∧
      ((beHead o T r).done = false → (beHead o T r).status = .converged ∨
        (((beHead o T r).status = .running ∨ (beHead o T r).status = .notYetCalled) ∧ r.t < T)) := by
    rcases beHead_cases o T r with ⟨h0, hl, h⟩ | ⟨h0, hl, h⟩ | ⟨h0, h⟩
    · rw [ho.lt] at hl
      have hl : r.t < T := by simpa using hl
      rw [h]; exact ⟨fun h' => (by simp [hd] at h'), fun _ => Or.inr ⟨Or.inl rfl, hl⟩⟩
    · rw [ho.lt] at hl
      have hl : ¬ r.t < T := by simpa using hl
      rw [h]
      refine ⟨fun _ => ?_, fun h' => (by simp at h')⟩
      rcases i6 with h6 | ⟨_, h6⟩
      · exact ⟨h6, le_antisymm i3 (not_lt.mp hl)⟩
      · exact absurd h6 hl
    · rw [h]; exact ⟨fun h' => (by rw [hd] at h'; cases h'), fun _ => i6⟩
  have hc := beStep_cases o s p kc atol rtol T r
  generalize beStep o s p kc atol rtol T r = r' at hc ⊢
  cases hc with
  | exit h =>
    obtain ⟨h1, h2⟩ := hhead.1 h
    exact ⟨by simpa using i1, by simpa using i2, by simpa using i3,
      fun h' => (by rw [h] at h'; cases h'), fun _ => Or.inr ⟨h1, by simpa using h2⟩,
      fun h' => (by rw [h] at h'; cases h')⟩
  | cont h1 _ _ =>
    exact ⟨by simpa [beNewton] using i1, by simpa [beNewton] using i2, by simpa [beNewton] using i3,
      fun _ => (by simpa [beNewton] using i4), fun h' => (by simp [beNewton, h1] at h'),
      fun _ => (by simpa [beNewton] using hhead.2 h1)⟩
  | giveUp h1 _ _ _ =>
    refine ⟨?_, by simpa [beGiveUp, beNewton] using i2, ?_, fun h' => (by simp [beGiveUp] at h'),
      fun _ => Or.inl rfl, fun h' => (by simp [beGiveUp] at h')⟩
    · simp only [beGiveUp, beNewton, beHead_t, beHead_h]; linarith
    · simp only [beGiveUp, beNewton, beHead_t, beHead_h]; linarith
  | retry h1 _ _ h4 =>
    have hr : 0 ≤ p.reductions.getD r.nFail 1 := by
      have e : p.reductions.getD r.nFail 1 = p.reductions[r.nFail] := by simp [List.getD, h4]
      rw [e]; exact hred _ (List.getElem_mem h4)
    refine ⟨by simpa [beRetry, beNewton] using i1, ?_, by simpa [beRetry, beNewton] using i3, ?_,
      fun h' => (by simp [beRetry, beNewton, h1] at h'),
      fun _ => (by simpa [beRetry, beNewton] using hhead.2 h1)⟩
    · simp only [beRetry, beNewton, beHead_t, beHead_h, beHead_nFail, ho.cmin_eq]
      exact le_min (mul_nonneg i2 hr) (by linarith)
    · intro _
      simp only [beRetry, beNewton, beHead_t, beHead_h, beHead_nFail, ho.cmin_eq]
      exact min_le_right _ _
  | accept h1 _ =>
    refine ⟨?_, ?_, ?_, ?_, fun h' => (by simp [beAccept_eq, beNewton, h1] at h'),
      fun _ => Or.inl (by simp [beAccept_eq])⟩
    · simp only [beAccept_eq, beNewton, beHead_t, beHead_h]; linarith
    · simp only [beAccept_eq, beNewton, beHead_t, beHead_h, beHead_nSucc, ho.cmin_eq]
      refine le_min ?_ (by linarith)
      split
      · exact mul_nonneg i2 (by norm_num)
      · exact i2
    · simp only [beAccept_eq, beNewton, beHead_t, beHead_h]; linarith
    · intro _
      simp only [beAccept_eq, beNewton, beHead_t, beHead_h, beHead_nSucc, ho.cmin_eq]
      exact min_le_right _ _

include ho in
theorem beInitialH_eq : beInitialH o p T = if p.hstart = 0 then T else min p.hstart T := by
  unfold beInitialH; rw [ho.eq, ho.cmin_eq]; simp only [decide_eq_true_eq]

include ho in
/-- the first `H` is clipped to the time step: `0 ≤ H ≤ T` as soon as `0 < T`, `0 ≤ h_start` -/
theorem beInitialH_bounds (hT : 0 < T) (hs0 : 0 ≤ p.hstart) :
    0 ≤ beInitialH o p T ∧ beInitialH o p T ≤ T := by
  rw [beInitialH_eq ho]; split
  · exact ⟨le_of_lt hT, le_refl _⟩
  · exact ⟨le_min hs0 (le_of_lt hT), min_le_right _ _⟩

theorem BETimeInv_init (hT : 0 < T) (h : K) (h0 : 0 ≤ h) (hle : h ≤ T) (Y : Mat K) (sc : Scratch K) :
    BETimeInv T (beInit h Y sc) :=
  ⟨le_refl _, h0, le_of_lt hT, fun _ => (by simpa [beInit] using hle),
    fun h' => (by simp [beInit] at h'), fun _ => Or.inr ⟨Or.inr rfl, hT⟩⟩

include ho in
/-- where `beLoop` stops: `0 ≤ t ≤ T`, `0 ≤ h`, the status is `converged`,
    `acceptingUnconvergedIntegration` or `outOfFuel`, and `converged` means `t = T` exactly -/
theorem beLoop_time (hred : ∀ x ∈ p.reductions, 0 ≤ x) (fuel : Nat) (r : BEState K)
    (h : BETimeInv T r) :
    0 ≤ (beLoop o s p kc atol rtol T fuel r).t ∧ (beLoop o s p kc atol rtol T fuel r).t ≤ T ∧
    0 ≤ (beLoop o s p kc atol rtol T fuel r).h ∧
    ((beLoop o s p kc atol rtol T fuel r).status = .converged →
      (beLoop o s p kc atol rtol T fuel r).t = T) ∧
    ((beLoop o s p kc atol rtol T fuel r).status = .converged ∨
     (beLoop o s p kc atol rtol T fuel r).status = .acceptingUnconvergedIntegration ∨
     (beLoop o s p kc atol rtol T fuel r).status = .outOfFuel) := by
  rcases beLoop_inv' o s p kc atol rtol T (BETimeInv T)
    (fun r hd h => BETimeInv_step ho s p kc atol rtol T hred r hd h) fuel r h with ⟨h1, h2⟩ | ⟨r', h1, _, h3⟩
  · refine ⟨h1.t0, h1.tT, h1.h0, fun hc => ?_, ?_⟩
    · rcases h1.fin h2 with h4 | ⟨_, h4⟩
      · rw [hc] at h4; cases h4
      · exact h4
    · rcases h1.fin h2 with h4 | ⟨h4, _⟩
      · exact Or.inr (Or.inl h4)
      · exact Or.inl h4
  · rw [h3]
    exact ⟨h1.t0, h1.tT, h1.h0, fun hc => (by simp at hc), Or.inr (Or.inr rfl)⟩

/-- without any assumption on `h_start`: a `done` state that is not the give-up exit has `T ≤ t` -/
def BEFinInv (T : K) (r : BEState K) : Prop :=
  r.done = true → r.status = .acceptingUnconvergedIntegration ∨ T ≤ r.t

include ho in
theorem BEFinInv_step (r : BEState K) (hd : r.done = false) :
    BEFinInv T (beStep o s p kc atol rtol T r) := by
  have hc := beStep_cases o s p kc atol rtol T r
  generalize beStep o s p kc atol rtol T r = r' at hc ⊢
  cases hc with
  | exit h =>
    intro _
    rcases beHead_cases o T r with ⟨h0, hl, h'⟩ | ⟨h0, hl, h'⟩ | ⟨h0, h'⟩
    · rw [h'] at h; simp [hd] at h
    · rw [ho.lt] at hl
      have hl : ¬ r.t < T := by simpa using hl
      right; simpa using not_lt.mp hl
    · rw [h', hd] at h; cases h
  | cont h1 _ _ => intro h'; simp [beNewton, h1] at h'
  | giveUp _ _ _ _ => intro _; exact Or.inl rfl
  | retry h1 _ _ _ => intro h'; simp [beRetry, beNewton, h1] at h'
  | accept h1 _ => intro h'; simp [beAccept_eq, beNewton, h1] at h'

end BEOrdered

/-! ## Part 3 — exact arithmetic: the Newton update of one cell (C05, C08, C09) -/

section BEField
variable {K : Type} [Field K]

/-- `AddToDiagonal(v)` and `AlphaMinusJacobian(v)` are the same operation on the model's cells -/
theorem addDiag_eq (s : SolverCfg K) (J : Mat K) (v : K) :
    addDiag s.diag J v = s.alphaMinusJacobian J v := rfl

theorem beMatrix_eq (s : SolverCfg K) (kc : Mat K) (r : BEState K) :
    beMatrix s kc r = s.alphaMinusJacobian (s.jacobian kc r.Yn1 (fillM r.sc.jac 0)) (1 / r.h) := rfl

/-- the right-hand side handed to `Solve`: `forcing − (Yn1 − Yn)/H` -/
def beRhs (s : SolverCfg K) (kc : Mat K) (r : BEState K) : Mat K :=
  (beForcing s kc r).mapIdx fun c fr => fr.mapIdx fun v f =>
    f - (rd (r.Yn1.getD c #[]) v - rd (r.Yn.getD c #[]) v) / r.h

theorem beResidual_eq (s : SolverCfg K) (kc : Mat K) (r : BEState K) :
    beResidual s kc r =
      s.linSolve (beFactor s kc r).1 (beFactor s kc r).2.1 (beFactor s kc r).2.2 (beRhs s kc r) := rfl

/-- the Newton iterate before the clamp `max(·, 0)` -/
def beUnclipped (s : SolverCfg K) (kc : Mat K) (r : BEState K) : Mat K :=
  r.Yn1.mapIdx fun c yr => yr.mapIdx fun v y => y + rd ((beResidual s kc r).getD c #[]) v

theorem rd_mapIdx_lt (f : Nat → K → K) (a : Array K) (v : Nat) (hv : v < a.size) :
    rd (a.mapIdx f) v = f v (rd a v) := by
  simp [rd, Array.getD, hv]

variable (o : Ops K) {s : SolverCfg K} (kc : Mat K) {n : Nat} (c : Nat)
    {m : NameMap} {procs : List (Process K)} {kind : LUKind} {jac : Pattern}

/-- entry-wise: the un-clipped iterate is `y + δ` -/
theorem rd_beUnclipped (s : SolverCfg K) (r : BEState K) (hY : CellShape n c r.Yn1) (v : Nat)
    (hv : v < n) :
    rd ((beUnclipped s kc r).getD c #[]) v
      = rd (r.Yn1.getD c #[]) v + rd ((beResidual s kc r).getD c #[]) v := by
  have hv' : v < (r.Yn1.getD c #[]).size := by rw [hY.2]; exact hv
  unfold beUnclipped
  rw [getD_mapIdx _ r.Yn1 c hY.1 #[] #[], rd_mapIdx_lt _ _ _ hv']

/-- entry-wise: the new `Yn1` is the clamp of the un-clipped iterate `y + δ` -/
theorem rd_beNewY (r : BEState K) (hY : CellShape n c r.Yn1) (v : Nat) (hv : v < n) :
    rd ((beNewY o s kc r).getD c #[]) v = cmax o (rd ((beUnclipped s kc r).getD c #[]) v) 0 := by
  have hv' : v < (r.Yn1.getD c #[]).size := by rw [hY.2]; exact hv
  rw [rd_beUnclipped kc c s r hY v hv]
  unfold beNewY
  rw [getD_mapIdx _ r.Yn1 c hY.1 #[] #[], rd_mapIdx_lt _ _ _ hv']

theorem beNewY_shape (r : BEState K) (hY : CellShape n c r.Yn1) :
    CellShape n c (beNewY o s kc r) ∧ CellShape n c (beUnclipped s kc r) := by
  refine ⟨⟨by simpa [beNewY] using hY.1, ?_⟩, ⟨by simpa [beUnclipped] using hY.1, ?_⟩⟩
  · unfold beNewY; rw [getD_mapIdx _ r.Yn1 c hY.1 #[] #[]]; simpa using hY.2
  · unfold beUnclipped; rw [getD_mapIdx _ r.Yn1 c hY.1 #[] #[]]; simpa using hY.2

/-- cell `c` of the forcing is the mass-action forcing of `Yn1[c]` assembled into a zero vector -/
theorem beForcing_cell (s : SolverCfg K) (r : BEState K) (hf0 : CellShape n c r.sc.f0) :
    CellShape n c (beForcing s kc r) ∧
    (beForcing s kc r).getD c #[] =
      s.tables.addForcingCell (kc.getD c #[]) (r.Yn1.getD c #[]) (Array.replicate n 0) := by
  obtain ⟨z1, z2⟩ := cellShape_fillM hf0 (0 : K)
  refine ⟨cellShape_forcing s kc _ _ z1, ?_⟩
  unfold beForcing
  rw [forcing_getD s kc r.Yn1 _ c z1.1, z2]

theorem beRhs_cell (s : SolverCfg K) (r : BEState K) (hf0 : CellShape n c r.sc.f0) :
    CellShape n c (beRhs s kc r) ∧
    ∀ i, i < n → rd ((beRhs s kc r).getD c #[]) i =
      rd ((beForcing s kc r).getD c #[]) i
        - (rd (r.Yn1.getD c #[]) i - rd (r.Yn.getD c #[]) i) / r.h := by
  obtain ⟨f1, _⟩ := beForcing_cell kc c s r hf0
  have e : (beRhs s kc r).getD c #[] = ((beForcing s kc r).getD c #[]).mapIdx fun v f =>
      f - (rd (r.Yn1.getD c #[]) v - rd (r.Yn.getD c #[]) v) / r.h := by
    unfold beRhs; rw [getD_mapIdx _ _ c f1.1 #[] #[]]
  refine ⟨⟨by simpa [beRhs] using f1.1, by rw [e]; simpa using f1.2⟩, ?_⟩
  intro i hi
  rw [e, rd_mapIdx_lt _ _ _ (by rw [f1.2]; exact hi)]

/-- **C05, one cell**: the Newton update `δ = beResidual` of cell `c` solves
    `(I/H − ∂f/∂y(Yn1)) δ = f(Yn1) − (Yn1 − Yn)/H` on the logical rows, for a configuration built as
    the builder does (all four LU variants), provided no pivot of the cell is zero -/
theorem be_newton_system (hb : BuiltCfg s m procs n kind jac) (r : BEState K)
    (hf0 : CellShape n c r.sc.f0) (hj : CellShape s.la.A.nnz c r.sc.jac)
    (hl : CellShape s.la.Lp.nnz c r.sc.lower) (hu : CellShape s.la.Up.nnz c r.sc.upper)
    (hpiv : ∀ i, i < n → attPivot s (beFactor s kc r) c i ≠ 0) (i : Nat) (hi : i < n) :
    ∑ j ∈ range n,
      ((if i = j then 1 / r.h else 0) + negJac m procs (kc.getD c #[]) (r.Yn1.getD c #[]) i j)
        * rd ((beResidual s kc r).getD c #[]) j
      = rd ((beForcing s kc r).getD c #[]) i
          - (rd (r.Yn1.getD c #[]) i - rd (r.Yn.getD c #[]) i) / r.h := by
  obtain ⟨x1, x2⟩ := beRhs_cell kc c s r hf0
  have hM : CellShape s.la.A.nnz c (beMatrix s kc r) := by
    rw [beMatrix_eq]
    exact cellShape_shift s _ _ (cellShape_jacobian s kc _ _ (cellShape_fillM hj 0).1)
  have h := factor_solve_cell hb.la hb.jn hb.jdiag (beMatrix s kc r) r.sc.lower r.sc.upper
    (beRhs s kc r) c hM hl hu x1 hpiv i hi
  rw [x2 i hi] at h
  rw [← h, beResidual_eq]
  apply sum_congr rfl
  intro j hj'
  rw [beMatrix_eq, view_shifted_jacobian hb kc r.Yn1 r.sc.jac c hj (1 / r.h) i j hi (mem_range.mp hj')]
  rfl

/-! ### C09: the un-clipped iterate conserves every linear invariant -/

/-- `w·(y + δ) = w·y_n` for every Newton iterate before clipping, whatever the previous iterate `y` -/
theorem be_unclipped_conserves (hb : BuiltCfg s m procs n kind jac) (rxns : List (RRxn K))
    (hr : Resolves m procs rxns) (w : Nat → K)
    (hbal : ∀ rx ∈ rxns, (rx.2.map fun p => w p.1 * p.2).sum = (rx.1.map w).sum)
    (r : BEState K) (hh : r.h ≠ 0) (hY : CellShape n c r.Yn1)
    (hf0 : CellShape n c r.sc.f0) (hj : CellShape s.la.A.nnz c r.sc.jac)
    (hl : CellShape s.la.Lp.nnz c r.sc.lower) (hu : CellShape s.la.Up.nnz c r.sc.upper)
    (hpiv : ∀ i, i < n → attPivot s (beFactor s kc r) c i ≠ 0) :
    wdot w n ((beResidual s kc r).getD c #[])
      = - (wdot w n (r.Yn1.getD c #[]) - wdot w n (r.Yn.getD c #[])) ∧
    wdot w n ((beUnclipped s kc r).getD c #[]) = wdot w n (r.Yn.getD c #[]) := by
  have hsys := be_newton_system kc c hb r hf0 hj hl hu hpiv
  -- columns of the matrix
  have hM : ∀ j, j < n → ∑ i ∈ range n, w i *
      ((if i = j then 1 / r.h else 0) + negJac m procs (kc.getD c #[]) (r.Yn1.getD c #[]) i j)
      = (1 / r.h) * w j := by
    intro j hj'
    have e : ∀ i ∈ range n, w i *
        ((if i = j then 1 / r.h else 0) + negJac m procs (kc.getD c #[]) (r.Yn1.getD c #[]) i j)
        = (if i = j then w i * (1 / r.h) else 0)
          + w i * negJac m procs (kc.getD c #[]) (r.Yn1.getD c #[]) i j := by
      intro i _
      by_cases hij : i = j <;> simp [hij, mul_add]
    rw [sum_congr rfl e, sum_add_distrib, negJac_orthogonal m procs rxns hr n hb.idlt w hbal,
      sum_ite_eq', add_zero]
    simp only [mem_range, hj', if_true]; ring
  have hdot := wdot_of_solve n w _ (1 / r.h) (fun j => rd ((beResidual s kc r).getD c #[]) j)
    (fun i => rd ((beForcing s kc r).getD c #[]) i
        - (rd (r.Yn1.getD c #[]) i - rd (r.Yn.getD c #[]) i) / r.h) hM hsys
  -- the forcing is orthogonal to `w`
  have hF : ∑ i ∈ range n, w i * rd ((beForcing s kc r).getD c #[]) i = 0 := by
    rw [(beForcing_cell kc c s r hf0).2]
    exact C09_forcing_orthogonal m procs s.tables rxns (.inr hb.tables) hr n hb.idlt w hbal _ _
  have hb' : ∑ i ∈ range n, w i * (rd ((beForcing s kc r).getD c #[]) i
        - (rd (r.Yn1.getD c #[]) i - rd (r.Yn.getD c #[]) i) / r.h)
      = - ((wdot w n (r.Yn1.getD c #[]) - wdot w n (r.Yn.getD c #[])) / r.h) := by
    have e : ∀ i ∈ range n, w i * (rd ((beForcing s kc r).getD c #[]) i
          - (rd (r.Yn1.getD c #[]) i - rd (r.Yn.getD c #[]) i) / r.h)
        = w i * rd ((beForcing s kc r).getD c #[]) i
          - (w i * rd (r.Yn1.getD c #[]) i - w i * rd (r.Yn.getD c #[]) i) * r.h⁻¹ := by
      intro i _; ring
    rw [sum_congr rfl e, sum_sub_distrib, hF, ← sum_mul, sum_sub_distrib]
    unfold wdot; ring
  have hδ : wdot w n ((beResidual s kc r).getD c #[])
      = - (wdot w n (r.Yn1.getD c #[]) - wdot w n (r.Yn.getD c #[])) := by
    rw [hb'] at hdot
    have e1 : wdot w n ((beResidual s kc r).getD c #[])
        = r.h * (1 / r.h * ∑ j ∈ range n, w j * rd ((beResidual s kc r).getD c #[]) j) := by
      unfold wdot; field_simp
    rw [e1, ← hdot]; field_simp
  refine ⟨hδ, ?_⟩
  have e : wdot w n ((beUnclipped s kc r).getD c #[])
      = wdot w n (r.Yn1.getD c #[]) + wdot w n ((beResidual s kc r).getD c #[]) := by
    unfold wdot
    rw [← sum_add_distrib]
    apply sum_congr rfl
    intro v hv
    rw [rd_beUnclipped kc c s r hY v (mem_range.mp hv)]; ring
  rw [e, hδ]; ring

/-! ### C08: linear mechanisms -/

/-- algebra of the first Newton iteration from `y = y_n` for `f(y) = A y`, `J = A`:
    `(I/H − A) δ = A y_n` gives `(I − H A)(y_n + δ) = y_n` -/
theorem be_linear_first_alg (n : Nat) (A : Nat → Nat → K) (h : K) (hh : h ≠ 0) (yn δ : Nat → K)
    (hs : ∀ i, i < n → ∑ j ∈ range n, ((if i = j then 1 / h else 0) - A i j) * δ j
      = ∑ j ∈ range n, A i j * yn j) (i : Nat) (hi : i < n) :
    ∑ j ∈ range n, ((if i = j then 1 else 0) - h * A i j) * (yn j + δ j) = yn i := by
  have e : ∀ j ∈ range n, ((if i = j then (1 : K) else 0) - h * A i j) * (yn j + δ j)
      = (if i = j then yn j else 0) - h * (A i j * yn j)
        + h * (((if i = j then 1 / h else 0) - A i j) * δ j) := by
    intro j _
    by_cases hij : i = j
    · simp only [hij, if_true]; field_simp
    · simp only [hij, if_false]; ring
  rw [sum_congr rfl e, sum_add_distrib, sum_sub_distrib, ← mul_sum, ← mul_sum, hs i hi, sum_ite_eq]
  simp only [mem_range, hi, if_true]; ring

theorem rd_ge_size (x : Array K) (j : Nat) (h : x.size ≤ j) : rd x j = 0 := by
  unfold rd
  rw [Array.getD_eq_getD_getElem?, Array.getElem?_eq_none h]; rfl

/-- a vector all of whose (total) reads are zero -/
def AllZero (x : Array K) : Prop := ∀ j, rd x j = 0

theorem allZero_wr_zero (x : Array K) (h : AllZero x) (i : Nat) (v : K) (hv : v = 0) :
    AllZero (wr x i v) := by
  intro j; rw [rd_wr]; split
  · exact hv
  · exact h j

theorem allZero_elim_fold (M : Array K) (l : List (Nat × Nat)) (i : Nat) (x : Array K)
    (h : AllZero x) :
    AllZero (l.foldl (fun x p => wr x i (rd x i - rd M p.1 * rd x p.2)) x) := by
  induction l generalizing x with
  | nil => exact h
  | cons q l ih =>
    simp only [List.foldl_cons]
    apply ih
    exact allZero_wr_zero x h i _ (by rw [h i, h q.2]; ring)

theorem allZero_sub_fold (M : Array K) (rows : List SubRow) (dv : Bool)
    (next : Nat → Nat) (st : Array K × Nat) (h : AllZero st.1) :
    AllZero (rows.foldl (fun (s : Array K × Nat) r =>
      let x := r.pairs.foldl (fun x p => wr x s.2 (rd x s.2 - rd M p.1 * rd x p.2)) s.1
      ((if dv then wr x s.2 (rd x s.2 / rd M r.diag) else x), next s.2)) st).1 := by
  induction rows generalizing st with
  | nil => exact h
  | cons r rows ih =>
    simp only [List.foldl_cons]
    apply ih
    have h1 := allZero_elim_fold M r.pairs st.2 st.1 h
    cases dv
    · exact h1
    · exact allZero_wr_zero _ h1 _ _ (by rw [h1 st.2]; simp)

theorem solveCell_allZero (fw bw : List SubRow) (L U x : Array K) (h : AllZero x) :
    AllZero (solveCell fw bw L U x) := by
  unfold solveCell
  simp only []
  have h1 := allZero_sub_fold L fw true (fun i => i + 1) (x, 0) h
  simp only [if_true] at h1
  generalize (fw.foldl _ (x, 0)) = st1 at h1 ⊢
  have h2 := allZero_sub_fold U bw true (fun i => if i = 0 then 0 else i - 1)
    (st1.1, st1.1.size - 1) h1
  simp only [if_true] at h2
  exact h2

theorem solveInPlaceCell_allZero (fw bw : List SubRow) (M x : Array K) (h : AllZero x) :
    AllZero (solveInPlaceCell fw bw M x) := by
  unfold solveInPlaceCell
  simp only []
  have h1 := allZero_sub_fold M fw false (fun i => i + 1) (x, 0) h
  simp only [Bool.false_eq_true, if_false] at h1
  generalize (fw.foldl _ (x, 0)) = st1 at h1 ⊢
  have h2 := allZero_sub_fold M bw true (fun i => if i = 0 then 0 else i - 1)
    (st1.1, st1.1.size - 1) h1
  simp only [if_true] at h2
  exact h2

/-- `Solve` of a zero right-hand side is zero, whatever the factors hold (no pivot hypothesis:
    `0 / x = 0` in a field also for `x = 0`) -/
theorem linSolve_allZero (s : SolverCfg K) (J Lo Up X : Mat K) (c : Nat) (hc : c < X.size)
    (h : AllZero (X.getD c #[])) : AllZero ((s.linSolve J Lo Up X).getD c #[]) := by
  rw [linSolve_getD s J Lo Up X c hc]
  by_cases hk : s.la.kind.inPlace = true
  · rw [if_pos hk]; exact solveInPlaceCell_allZero _ _ _ _ h
  · rw [if_neg hk]; exact solveCell_allZero _ _ _ _ _ h

/-- **fixed point**: if the residual `f(Yn1) − (Yn1 − Yn)/H` of cell `c` vanishes, the Newton update
    of that cell is zero -/
theorem be_residual_zero (s : SolverCfg K) (r : BEState K) (hf0 : CellShape n c r.sc.f0)
    (h0 : ∀ i, i < n → rd ((beForcing s kc r).getD c #[]) i
      - (rd (r.Yn1.getD c #[]) i - rd (r.Yn.getD c #[]) i) / r.h = 0) :
    ∀ v, rd ((beResidual s kc r).getD c #[]) v = 0 := by
  obtain ⟨x1, x2⟩ := beRhs_cell kc c s r hf0
  rw [beResidual_eq]
  apply linSolve_allZero s _ _ _ _ c x1.1
  intro j
  by_cases hj : j < n
  · rw [x2 j hj, h0 j hj]
  · exact rd_ge_size _ _ (by rw [x1.2]; omega)

end BEField


/-! ### C08 / C09 : statements about one or two iterations of `beStep`, and the whole loop -/

section BEField2
variable {K : Type} [Field K]
variable (o : Ops K) {s : SolverCfg K} (p : BEParams K) (kc : Mat K) (atol : Array K) (rtol : K)
    (T : K) {n : Nat} (c : Nat) {m : NameMap} {procs : List (Process K)} {kind : LUKind}
    {jac : Pattern}

/-- first Newton iteration of an outer iteration (`Yn1 = Yn` on the cell) when, at `Yn1`, the
    forcing is `A·y` and `−∂f/∂y = −A`: the un-clipped iterate `y` satisfies `(I − H A) y = y_n` -/
theorem be_linear_first (hb : BuiltCfg s m procs n kind jac) (A : Nat → Nat → K) (r : BEState K)
    (hh : r.h ≠ 0) (hY : CellShape n c r.Yn1) (hf0 : CellShape n c r.sc.f0)
    (hj : CellShape s.la.A.nnz c r.sc.jac) (hl : CellShape s.la.Lp.nnz c r.sc.lower)
    (hu : CellShape s.la.Up.nnz c r.sc.upper)
    (hpiv : ∀ i, i < n → attPivot s (beFactor s kc r) c i ≠ 0)
    (hstart : ∀ i, i < n → rd (r.Yn1.getD c #[]) i = rd (r.Yn.getD c #[]) i)
    (hlinF : ∀ i, i < n → rd ((beForcing s kc r).getD c #[]) i
      = ∑ j ∈ range n, A i j * rd (r.Yn1.getD c #[]) j)
    (hlinJ : ∀ i j, i < n → j < n →
      negJac m procs (kc.getD c #[]) (r.Yn1.getD c #[]) i j = - A i j)
    (i : Nat) (hi : i < n) :
    ∑ j ∈ range n, ((if i = j then 1 else 0) - r.h * A i j)
      * rd ((beUnclipped s kc r).getD c #[]) j = rd (r.Yn.getD c #[]) i := by
  have hsys := be_newton_system kc c hb r hf0 hj hl hu hpiv
  have hs : ∀ i, i < n → ∑ j ∈ range n, ((if i = j then 1 / r.h else 0) - A i j)
      * rd ((beResidual s kc r).getD c #[]) j = ∑ j ∈ range n, A i j * rd (r.Yn.getD c #[]) j := by
    intro i hi
    have h1 := hsys i hi
    rw [hlinF i hi, hstart i hi, sub_self, zero_div, sub_zero] at h1
    have e2 : ∑ j ∈ range n, A i j * rd (r.Yn.getD c #[]) j
        = ∑ j ∈ range n, A i j * rd (r.Yn1.getD c #[]) j :=
      sum_congr rfl (fun j hj' => by rw [hstart j (mem_range.mp hj')])
    rw [e2, ← h1]
    apply sum_congr rfl
    intro j hj'
    rw [hlinJ i j hi (mem_range.mp hj')]; ring
  have := be_linear_first_alg n A r.h hh (fun j => rd (r.Yn.getD c #[]) j)
    (fun j => rd ((beResidual s kc r).getD c #[]) j) hs i hi
  rw [← this]
  apply sum_congr rfl
  intro j hj'
  rw [rd_beUnclipped kc c s r hY j (mem_range.mp hj'), hstart j (mem_range.mp hj')]

/-- if the current iterate already satisfies `(I − H A) y = y_n` and the forcing at it is `A·y`,
    the Newton update of the cell is zero (the residual vanishes) -/
theorem be_linear_fixed (s : SolverCfg K) (A : Nat → Nat → K) (r : BEState K) (hh : r.h ≠ 0)
    (hf0 : CellShape n c r.sc.f0)
    (hlinF : ∀ i, i < n → rd ((beForcing s kc r).getD c #[]) i
      = ∑ j ∈ range n, A i j * rd (r.Yn1.getD c #[]) j)
    (hfix : ∀ i, i < n → ∑ j ∈ range n, ((if i = j then 1 else 0) - r.h * A i j)
      * rd (r.Yn1.getD c #[]) j = rd (r.Yn.getD c #[]) i) :
    ∀ v, rd ((beResidual s kc r).getD c #[]) v = 0 := by
  apply be_residual_zero kc c s r hf0
  intro i hi
  have h1 := hfix i hi
  have e : ∀ j ∈ range n, ((if i = j then (1 : K) else 0) - r.h * A i j) * rd (r.Yn1.getD c #[]) j
      = (if i = j then rd (r.Yn1.getD c #[]) j else 0) - r.h * (A i j * rd (r.Yn1.getD c #[]) j) := by
    intro j _
    by_cases hij : i = j
    · simp only [hij, if_true]; ring
    · simp only [hij, if_false]; ring
  rw [sum_congr rfl e, sum_sub_distrib, sum_ite_eq, ← mul_sum] at h1
  simp only [mem_range, hi, if_true] at h1
  rw [hlinF i hi, ← h1]
  field_simp
  ring

/-- the state after a continuing Newton iteration, field by field -/
theorem beStep_cont_fields (r : BEState K) (hd : (beHead o T r).done = false)
    (hc : beConv o s p kc atol rtol r = false) (hm : r.iterations + 1 < p.maxSteps) :
    let r1 := beStep o s p kc atol rtol T r
    r1.Yn1 = beNewY o s kc r ∧ r1.Yn = r.Yn ∧ r1.h = r.h ∧ r1.t = r.t ∧
    r1.sc.f0 = beResidual s kc r ∧ r1.iterations = r.iterations + 1 ∧
    (beHead o T r1).done = false := by
  intro r1
  have e : r1 = beNewton o s kc (beHead o T r) := beStep_of_cont o s p kc atol rtol T r hd hc hm
  refine ⟨by rw [e]; simp [beNewton], by rw [e]; simp [beNewton], by rw [e]; simp [beNewton],
    by rw [e]; simp [beNewton], by rw [e]; simp [beNewton], by rw [e]; simp [beNewton], ?_⟩
  have hit : r1.iterations ≠ 0 := by rw [e]; simp [beNewton]
  have hdn : r1.done = false := by rw [e]; simpa [beNewton] using hd
  rcases beHead_cases o T r1 with ⟨h0, _, _⟩ | ⟨h0, _, _⟩ | ⟨_, h⟩
  · exact absurd h0 hit
  · exact absurd h0 hit
  · rw [h]; exact hdn

theorem beResidual_shape (s : SolverCfg K) (r : BEState K) (hf0 : CellShape n c r.sc.f0) :
    CellShape n c (beResidual s kc r) := by
  rw [beResidual_eq]
  exact cellShape_linSolve s _ _ _ _ (beRhs_cell kc c s r hf0).1

/-- **C08, two iterations.**  Start of an outer iteration (`iterations = 0`, `Yn1 = Yn` on the
    cell), `max_number_of_steps > 1`, a mechanism that is linear on cell `c` (`f(y) = A y`,
    `∂f/∂y = A` for every `y`), no zero pivot, and a first iterate that is not clipped.  Then after
    the first iteration `(I − H A) Yn1 = Yn`, and the second iteration computes `δ = 0`. -/
theorem be_linear_two_steps (hb : BuiltCfg s m procs n kind jac) (A : Nat → Nat → K) (r : BEState K)
    (h0 : r.iterations = 0) (hd : (beHead o T r).done = false) (hm : 1 < p.maxSteps)
    (hh : r.h ≠ 0) (hY : CellShape n c r.Yn1) (hf0 : CellShape n c r.sc.f0)
    (hj : CellShape s.la.A.nnz c r.sc.jac) (hl : CellShape s.la.Lp.nnz c r.sc.lower)
    (hu : CellShape s.la.Up.nnz c r.sc.upper)
    (hpiv : ∀ i, i < n → attPivot s (beFactor s kc r) c i ≠ 0)
    (hstart : ∀ i, i < n → rd (r.Yn1.getD c #[]) i = rd (r.Yn.getD c #[]) i)
    (hlinF : ∀ y : Array K, ∀ i, i < n →
      rd (s.tables.addForcingCell (kc.getD c #[]) y (Array.replicate n 0)) i
        = ∑ j ∈ range n, A i j * rd y j)
    (hlinJ : ∀ y : Array K, ∀ i j, i < n → j < n → negJac m procs (kc.getD c #[]) y i j = - A i j)
    (hnoclip : ∀ v, v < n → rd ((beNewY o s kc r).getD c #[]) v
      = rd ((beUnclipped s kc r).getD c #[]) v) :
    (∀ i, i < n → ∑ j ∈ range n, ((if i = j then 1 else 0) - r.h * A i j)
      * rd ((beStep o s p kc atol rtol T r).Yn1.getD c #[]) j = rd (r.Yn.getD c #[]) i) ∧
    (∀ v, rd ((beStep o s p kc atol rtol T (beStep o s p kc atol rtol T r)).sc.f0.getD c #[]) v = 0) := by
  have hc := beConv_first o s p kc atol rtol r h0
  obtain ⟨e1, e2, e3, _, e5, _, e7⟩ :=
    beStep_cont_fields o p kc atol rtol T r hd hc (by omega)
  have hfirst : ∀ i, i < n → ∑ j ∈ range n, ((if i = j then 1 else 0) - r.h * A i j)
      * rd ((beStep o s p kc atol rtol T r).Yn1.getD c #[]) j = rd (r.Yn.getD c #[]) i := by
    intro i hi
    rw [e1, ← be_linear_first kc c hb A r hh hY hf0 hj hl hu hpiv hstart
      (fun i hi => by rw [(beForcing_cell kc c s r hf0).2]; exact hlinF _ i hi)
      (fun i j hi hj' => hlinJ _ i j hi hj') i hi]
    apply sum_congr rfl
    intro j hj'
    rw [hnoclip j (mem_range.mp hj')]
  refine ⟨hfirst, ?_⟩
  have hsc := beStep_sc o s p kc atol rtol T (beStep o s p kc atol rtol T r) e7
  rw [hsc]
  simp only []
  have hf0' : CellShape n c (beStep o s p kc atol rtol T r).sc.f0 := by
    rw [e5]; exact beResidual_shape kc c s r hf0
  apply be_linear_fixed kc c s A _ (by rw [e3]; exact hh) hf0'
  · intro i hi
    rw [(beForcing_cell kc c s _ hf0').2]; exact hlinF _ i hi
  · intro i hi
    rw [e3, e2]; exact hfirst i hi

/-! ### C09: the whole loop when nothing is clipped -/

/-- invariant of cell `c`: buffers of the configured sizes, and both `Yn1` and `Yn` carry the
    conserved sum `σ` -/
structure BEConsInv (s : SolverCfg K) (w : Nat → K) (n c : Nat) (σ : K) (r : BEState K) : Prop where
  Y1 : CellShape n c r.Yn1
  Y : CellShape n c r.Yn
  f0 : CellShape n c r.sc.f0
  jac : CellShape s.la.A.nnz c r.sc.jac
  lower : CellShape s.la.Lp.nnz c r.sc.lower
  upper : CellShape s.la.Up.nnz c r.sc.upper
  sum1 : wdot w n (r.Yn1.getD c #[]) = σ
  sum : wdot w n (r.Yn.getD c #[]) = σ

/-- what has to hold of the Newton iteration made from `r` (if one is made): `H ≠ 0`, no zero pivot
    in cell `c`, and the clamp does not change cell `c` -/
def BENoClip (s : SolverCfg K) (n c : Nat) (r : BEState K) : Prop :=
  (beHead o T r).done = false →
    r.h ≠ 0 ∧ (∀ i, i < n → attPivot s (beFactor s kc r) c i ≠ 0) ∧
    ∀ v, v < n → rd ((beNewY o s kc r).getD c #[]) v = rd ((beUnclipped s kc r).getD c #[]) v

theorem BEConsInv_step (hb : BuiltCfg s m procs n kind jac) (rxns : List (RRxn K))
    (hr : Resolves m procs rxns) (w : Nat → K)
    (hbal : ∀ rx ∈ rxns, (rx.2.map fun p => w p.1 * p.2).sum = (rx.1.map w).sum)
    (σ : K) (r : BEState K) (h : BEConsInv s w n c σ r) (hnc : BENoClip o kc T s n c r) :
    BEConsInv s w n c σ (beStep o s p kc atol rtol T r) := by
  cases hd : (beHead o T r).done
  · obtain ⟨hh, hpiv, hno⟩ := hnc hd
    have hcons := (be_unclipped_conserves kc c hb rxns hr w hbal r hh h.Y1 h.f0 h.jac h.lower h.upper
      hpiv).2
    have hN : CellShape n c (beNewY o s kc r) := (beNewY_shape o kc c r h.Y1).1
    have hNs : wdot w n ((beNewY o s kc r).getD c #[]) = σ := by
      rw [← h.sum, ← hcons]
      unfold wdot
      apply sum_congr rfl
      intro v hv
      rw [hno v (mem_range.mp hv)]
    have hM : CellShape s.la.A.nnz c (beMatrix s kc r) := by
      rw [beMatrix_eq]
      exact cellShape_shift s _ _ (cellShape_jacobian s kc _ _ (cellShape_fillM h.jac 0).1)
    obtain ⟨f1, f2, f3⟩ := cellShape_factor s (beMatrix s kc r) r.sc.lower r.sc.upper hM h.lower h.upper
    have hsc := beStep_sc o s p kc atol rtol T r hd
    have hY1 := beStep_Yn1 o s p kc atol rtol T r hd
    have hY1' : CellShape n c (beStep o s p kc atol rtol T r).Yn1 ∧
        wdot w n ((beStep o s p kc atol rtol T r).Yn1.getD c #[]) = σ := by
      rw [hY1]; split
      · exact ⟨h.Y, h.sum⟩
      · exact ⟨hN, hNs⟩
    have hYn : CellShape n c (beStep o s p kc atol rtol T r).Yn ∧
        wdot w n ((beStep o s p kc atol rtol T r).Yn.getD c #[]) = σ := by
      rcases beStep_Yn o s p kc atol rtol T r with ⟨e, _⟩ | ⟨e, _⟩
      · rw [e]; exact ⟨h.Y, h.sum⟩
      · rw [e]; exact hY1'
    refine ⟨hY1'.1, hYn.1, ?_, ?_, ?_, ?_, hY1'.2, hYn.2⟩
    · rw [hsc]; exact beResidual_shape kc c s r h.f0
    · rw [hsc]; exact f1
    · rw [hsc]; exact f2
    · rw [hsc]; exact f3
  · rw [beStep_of_exit o s p kc atol rtol T r hd]
    exact ⟨by simpa using h.Y1, by simpa using h.Y, by simpa using h.f0, by simpa using h.jac,
      by simpa using h.lower, by simpa using h.upper, by simpa using h.sum1, by simpa using h.sum⟩

theorem BEConsInv_loop (hb : BuiltCfg s m procs n kind jac) (rxns : List (RRxn K))
    (hr : Resolves m procs rxns) (w : Nat → K)
    (hbal : ∀ rx ∈ rxns, (rx.2.map fun p => w p.1 * p.2).sum = (rx.1.map w).sum)
    (σ : K) (fuel : Nat) (r : BEState K) (h : BEConsInv s w n c σ r)
    (hnc : ∀ k, k < fuel → BENoClip o kc T s n c ((beStep o s p kc atol rtol T)^[k] r)) :
    BEConsInv s w n c σ (beLoop o s p kc atol rtol T fuel r) := by
  induction fuel generalizing r with
  | zero =>
    rw [beLoop_zero]; split
    · exact h
    · exact ⟨h.1, h.2, h.3, h.4, h.5, h.6, h.7, h.8⟩
  | succ fuel ih =>
    rw [beLoop_succ]; split
    · exact h
    · apply ih _ (BEConsInv_step o p kc atol rtol T c hb rxns hr w hbal σ r h (hnc 0 (by omega)))
      intro k hk
      have := hnc (k + 1) (by omega)
      rwa [Function.iterate_succ_apply] at this

end BEField2

/-! ### a concrete instance over `ℚ` used by the `example`s of C05b/C06c/C07b/C08b/C09c:
    `A → B` (rate constant `k`), which conserves `A + B` and is linear: `f(y) = (−k y₀, k y₀)` -/

namespace BEEx

def procs : List (Process ℚ) :=
  [ { reactants := [⟨"A", false⟩], products := [(⟨"B", false⟩, 1)] } ]

def nmap : NameMap := [("A", 0), ("B", 1)]

def rxns : List (RRxn ℚ) := [([0], [(1, 1)])]

def w : Nat → ℚ
  | 0 => 1
  | 1 => 1
  | _ => 0

def tables : PSTables ℚ :=
  { nReact := [1], reactIds := [0], nProd := [1], prodIds := [1], yields := [1],
    jInfo := [⟨0, 0, 0, 1⟩], jReactIds := [], jProdIds := [1], jYields := [1] }

theorem exBuild : ProcessSet.build procs nmap = .ok tables := rfl

theorem exResolves : Resolves nmap procs rxns := by unfold Resolves; rfl

theorem exBalanced : ∀ rx ∈ rxns, (rx.2.map fun p => w p.1 * p.2).sum = (rx.1.map w).sum := by
  decide +kernel

/-- the Jacobian pattern the builder creates: `(0,0) (1,0) (1,1)` -/
def jacP : Pattern := Pattern.mk' 2 false 0 (buildJacobianSet 2 tables.nonZeroJacobianElements)

def flat : List Nat := [0, 1]

theorem exFlat (kind : LUKind) : tables.jacobianFlatIds (LinAlg.build kind jacP).A = .ok flat := by
  cases kind <;> decide +kernel

/-- the configuration, assembled as the builder does -/
def cfg (kind : LUKind) : SolverCfg ℚ :=
  { nSpecies := 2, L := 0, tables := tables, flatIds := flat, la := LinAlg.build kind jacP,
    diag := (LinAlg.build kind jacP).A.diagRanks }

/-- `BuiltCfg` is satisfiable: it holds for this configuration, for every LU variant -/
theorem exBuilt (kind : LUKind) : BuiltCfg (cfg kind) nmap procs 2 kind jacP :=
  builtCfg_of_builder procs nmap tables exBuild (by decide) (by decide) (by simp [procs])
    2 (by decide) false 0 0 kind flat (exFlat kind)

/-- scratch buffers of the configured sizes, filled with junk (`7`) -/
def scratch (kind : LUKind) : Scratch ℚ :=
  let d : Mat ℚ := #[#[7, 7]]
  { jac := #[Array.replicate (cfg kind).la.A.nnz 7], lower := #[Array.replicate (cfg kind).la.Lp.nnz 7],
    upper := #[Array.replicate (cfg kind).la.Up.nnz 7], ynew := d, f0 := d, k := #[], yerr := d }

/-- the defaults of `BackwardEulerSolverParameters` (`small = 1e-40`, `h_start = 0`,
    `max_number_of_steps = 11`, reductions `½ ½ ½ ½ 0.1`) -/
def params : BEParams ℚ :=
  { small := 1 / 10 ^ 40, hstart := 0, maxSteps := 11, reductions := [1/2, 1/2, 1/2, 1/2, 1/10] }

/-- rate constant `k = 1`, `Y₀ = (1, 0)`, `atol = rtol = 1/10` -/
def run (kind : LUKind) (p : BEParams ℚ) (T : ℚ) (fuel : Nat) : SolveResult ℚ :=
  beSolve ratOps (cfg kind) p #[#[1]] #[1/10, 1/10] (1/10) T #[#[1, 0]] (scratch kind) fuel

/-- the state in which `run` enters the loop -/
def init (kind : LUKind) (p : BEParams ℚ) (T : ℚ) : BEState ℚ :=
  beInit (beInitialH ratOps p T) #[#[1, 0]] (scratch kind)

/-- the `k`-th loop state of `run` -/
def iter (kind : LUKind) (p : BEParams ℚ) (T : ℚ) (k : Nat) : BEState ℚ :=
  (beStep ratOps (cfg kind) p #[#[1]] #[1/10, 1/10] (1/10) T)^[k] (init kind p T)

end BEEx

end Micm
