/-
The range hypotheses of the lane theorems (C13b, C13c) hold for the tables the model builds:
every element rank in the tables of `doolittleRows`, `mozartInit`, `mozartRows`,
`doolittleInPlaceRows`, `mozartInPlaceRows`, `solverRows` is the rank of a *present* element of its
pattern (the tables are built by `filterMap` over present elements, fill-in elements are present by
the closure properties `LUSetup` / `MozSetup` / `IPSetup`), hence `< nnz` (`GoodPattern.rk_lt`).
Also `MIRow.Distinct` (`a_jk ≠ a_ik` for `j > i`, by rank injectivity).
Then: the patterns / tables of `LinAlg.build kind (Pattern.mk' n csc L set)`, all four kinds.
-/
import Micm.Lemmas.Lanes3
import Micm.Lemmas.LUCellBridge
namespace Micm

/-! ### small facts -/

theorem tir_mem_filterMap_rangeFrom {β : Type} (g : Nat → Option β) (a b : Nat) (p : β)
    (h : p ∈ (rangeFrom a b).filterMap g) : ∃ j, a ≤ j ∧ j < b ∧ g j = some p := by
  obtain ⟨j, h1, h2, h3⟩ := mem_filterMap_range' g a (b - a) p h
  exact ⟨j, h1, by omega, h3⟩

theorem tir_ite_none_some {β : Type} {c : Bool} {x p : β}
    (h : (if c = true then none else some x) = some p) : c = false ∧ x = p := by
  cases c <;> simp_all

theorem tir_ite_some_none {β : Type} {c : Bool} {x p : β}
    (h : (if c = true then some x else none) = some p) : c = true ∧ x = p := by
  cases c <;> simp_all

theorem tir_nil {β : Type} (P : β → Prop) : ∀ r ∈ ([] : List β), P r := fun _ h => nomatch h

theorem tir_pairsOf_lt {n : Nat} {Lp Up : Pattern} (gL : GoodPattern n Lp) (gU : GoodPattern n Up)
    (m r c : Nat) (hm : m ≤ n) (hr : r < n) (hc : c < n) (p : Nat × Nat) (hp : p ∈ pairsOf Lp Up m r c) :
    p.1 < Lp.nnz ∧ p.2 < Up.nnz := by
  obtain ⟨j, hj, h1, h2, rfl⟩ := mem_pairsOf Lp Up m r c p hp
  exact ⟨gL.rk_lt r j hr (by omega) h1, gU.rk_lt j c (by omega) hc h2⟩

/-! ### Doolittle (separate `L`, `U`) -/

theorem doolittleRows_inRange {n : Nat} {A Lp Up : Pattern} (gA : GoodPattern n A)
    (h : LUSetup n A Lp Up) (hn : A.n = n) :
    ∀ r ∈ doolittleRows A Lp Up, r.InRange A.nnz Lp.nnz Up.nnz := by
  intro r hr
  rw [doolittleRows_eq, hn, List.mem_map] at hr
  obtain ⟨i, hi, rfl⟩ := hr
  have hi := List.mem_range.1 hi
  refine ⟨?_, h.gL.rk_lt i i hi hi (h.diagL i hi), ?_,
    h.gU.rk_lt i i hi hi ((pres_true _ _ _).mp (h.closed.diagU i hi))⟩
  · intro e he
    obtain ⟨k, hik, hk, hek⟩ := tir_mem_filterMap_rangeFrom _ _ _ _ he
    obtain ⟨ht, hp, ha, _⟩ := uEntry_some A Lp Up i k e hek
    have hpres := uEntry_present h i k hik hk e hek
    refine ⟨?_, ?_, ?_⟩
    · intro a hea
      rw [ha] at hea
      obtain ⟨hz, rfl⟩ := tir_ite_none_some hea
      exact gA.rk_lt i k hi hk hz
    · rw [ht]; exact h.gU.rk_lt i k hi hk hpres
    · intro p hp'
      rw [hp] at hp'
      exact tir_pairsOf_lt h.gL h.gU i i k (by omega) hi hk p hp'
  · intro e he
    obtain ⟨k, hik, hk, hek⟩ := tir_mem_filterMap_rangeFrom _ _ _ _ he
    obtain ⟨ht, hp, ha, _⟩ := lEntry_some A Lp Up i k e hek
    have hpres := lEntry_present h i k (by omega) hk e hek
    refine ⟨?_, ?_, ?_⟩
    · intro a hea
      rw [ha] at hea
      obtain ⟨hz, rfl⟩ := tir_ite_none_some hea
      exact gA.rk_lt k i hk hi hz
    · rw [ht]; exact h.gL.rk_lt k i hk hi hpres
    · intro p hp'
      rw [hp] at hp'
      exact tir_pairsOf_lt h.gL h.gU i k i (by omega) hk hi p hp'

/-! ### Doolittle in place -/

theorem doolittleInPlaceRows_inRange {n : Nat} {P : Pattern} (h : IPSetup n P) (hn : P.n = n) :
    ∀ r ∈ doolittleInPlaceRows P, r.InRange P.nnz := by
  intro r hr
  rw [doolittleInPlaceRows_eq, hn, List.mem_map] at hr
  obtain ⟨i, hi, rfl⟩ := hr
  have hi := List.mem_range.1 hi
  refine ⟨h.g.rk_lt i i hi hi (h.diag i hi), ?_, ?_⟩
  · intro e he
    obtain ⟨k, hik, hk, hek⟩ := tir_mem_filterMap_rangeFrom _ _ _ _ he
    obtain ⟨hz, rfl⟩ := tir_ite_none_some (c := P.zero? i k) hek
    exact ⟨h.g.rk_lt i k hi hk hz, fun p hp => tir_pairsOf_lt h.g h.g i i k (by omega) hi hk p hp⟩
  · intro e he
    obtain ⟨k, hik, hk, hek⟩ := tir_mem_filterMap_rangeFrom _ _ _ _ he
    obtain ⟨hz, rfl⟩ := tir_ite_none_some (c := P.zero? k i) hek
    exact ⟨h.g.rk_lt k i hk hi hz, fun p hp => tir_pairsOf_lt h.g h.g i k i (by omega) hk hi p hp⟩

/-! ### Mozart in place -/

theorem tir_mem_miPairs {n : Nat} {P : Pattern} (h : IPSetup n P) (i k : Nat) (hk : k < n) (hik : i < k)
    (hz : P.zero? i k = false) (p : Nat × Nat) (hp : p ∈ miPairs P n i k) :
    ∃ j, i < j ∧ j < n ∧ P.zero? j i = false ∧ P.zero? j k = false ∧ p = (P.rk j k, P.rk j i) := by
  obtain ⟨j, hij, hj, hg⟩ := tir_mem_filterMap_rangeFrom _ _ _ _ hp
  obtain ⟨hz', rfl⟩ := tir_ite_none_some (c := P.zero? j i) hg
  exact ⟨j, by omega, hj, hz', h.fill j k i hj hk (by omega) hik hz' hz, rfl⟩

theorem mozartInPlaceRows_inRange {n : Nat} {P : Pattern} (h : IPSetup n P) (hn : P.n = n) :
    ∀ r ∈ mozartInPlaceRows P, r.InRange P.nnz ∧ r.Distinct := by
  intro r hr
  rw [mozartInPlaceRows_eq, hn, List.mem_map] at hr
  obtain ⟨i, hi, rfl⟩ := hr
  have hi := List.mem_range.1 hi
  refine ⟨⟨h.g.rk_lt i i hi hi (h.diag i hi), ?_, ?_⟩, ?_⟩
  · intro x hx
    obtain ⟨j, hij, hj, hg⟩ := tir_mem_filterMap_rangeFrom _ _ _ _ hx
    obtain ⟨hz, rfl⟩ := tir_ite_none_some (c := P.zero? j i) hg
    exact h.g.rk_lt j i hj hi hz
  · intro kk hkk
    obtain ⟨k, hik, hk, hg⟩ := tir_mem_filterMap_rangeFrom _ _ _ _ hkk
    obtain ⟨hz, rfl⟩ := tir_ite_none_some (c := P.zero? i k) hg
    refine ⟨h.g.rk_lt i k hi hk hz, ?_⟩
    intro p hp
    obtain ⟨j, hij, hj, hz1, hz2, rfl⟩ := tir_mem_miPairs h i k hk (by omega) hz p hp
    exact ⟨h.g.rk_lt j k hj hk hz2, h.g.rk_lt j i hj hi hz1⟩
  · intro kk hkk p hp
    obtain ⟨k, hik, hk, hg⟩ := tir_mem_filterMap_rangeFrom _ _ _ _ hkk
    obtain ⟨hz, rfl⟩ := tir_ite_none_some (c := P.zero? i k) hg
    obtain ⟨j, hij, hj, hz1, hz2, rfl⟩ := tir_mem_miPairs h i k hk (by omega) hz p hp
    intro e
    have := (h.g.rk_inj j k i k hj hk hi hk hz2 hz e).1
    omega

/-! ### Mozart (separate `L`, `U`) -/

theorem mozartInit_inRange {n : Nat} {A Lp Up : Pattern} (gA : GoodPattern n A)
    (h : MozSetup n A Lp Up) (hn : A.n = n) :
    ∀ r ∈ mozartInit A Lp Up, r.InRange A.nnz Lp.nnz Up.nnz := by
  intro r hr
  rw [mozartInit_eq, hn, List.mem_map] at hr
  obtain ⟨i, hi, rfl⟩ := hr
  have hi := List.mem_range.1 hi
  refine ⟨h.gL.rk_lt i i hi hi (h.diagL i hi), ?_, ?_, ?_, ?_⟩
  · intro p hp
    obtain ⟨j, hj, hg⟩ := mem_filterMap_range _ _ _ hp
    obtain ⟨hz, rfl⟩ := tir_ite_none_some (c := A.zero? j i) hg
    have hU := (pres_true _ _ _).mp (h.closed.supU j i (by omega) hi ((pres_true _ _ _).mpr hz))
    exact ⟨h.gU.rk_lt j i (by omega) hi hU, gA.rk_lt j i (by omega) hi hz⟩
  · intro p hp
    obtain ⟨j, hij, hj, hg⟩ := tir_mem_filterMap_rangeFrom _ _ _ _ hp
    obtain ⟨hz, rfl⟩ := tir_ite_none_some (c := A.zero? j i) hg
    have hL := (pres_true _ _ _).mp (h.closed.supL j i (by omega) hj ((pres_true _ _ _).mpr hz))
    exact ⟨h.gL.rk_lt j i hj hi hL, gA.rk_lt j i hj hi hz⟩
  · intro x hx
    obtain ⟨j, hj, hg⟩ := mem_filterMap_range _ _ _ hx
    obtain ⟨hc, rfl⟩ := tir_ite_some_none (c := A.zero? j i && !Up.zero? j i) hg
    simp only [Bool.and_eq_true, Bool.not_eq_true'] at hc
    exact h.gU.rk_lt j i (by omega) hi hc.2
  · intro x hx
    obtain ⟨j, hij, hj, hg⟩ := tir_mem_filterMap_rangeFrom _ _ _ _ hx
    obtain ⟨hc, rfl⟩ := tir_ite_some_none (c := A.zero? j i && !Lp.zero? j i) hg
    simp only [Bool.and_eq_true, Bool.not_eq_true'] at hc
    exact h.gL.rk_lt j i hj hi hc.2

theorem mozartRows_inRange {n : Nat} {A Lp Up : Pattern} (h : MozSetup n A Lp Up) (hn : A.n = n) :
    ∀ r ∈ mozartRows A Lp Up, r.InRange Lp.nnz Up.nnz := by
  intro r hr
  rw [mozartRows_eq, hn, List.mem_map] at hr
  obtain ⟨i, hi, rfl⟩ := hr
  have hi := List.mem_range.1 hi
  refine ⟨h.gU.rk_lt i i hi hi ((pres_true _ _ _).mp (h.closed.diagU i hi)), ?_, ?_⟩
  · intro x hx
    obtain ⟨j, hij, hj, hg⟩ := tir_mem_filterMap_rangeFrom _ _ _ _ hx
    obtain ⟨hz, rfl⟩ := tir_ite_none_some (c := Lp.zero? j i) hg
    exact h.gL.rk_lt j i hj hi hz
  · intro kk hkk
    obtain ⟨k, hik, hk, hg⟩ := tir_mem_filterMap_rangeFrom _ _ _ _ hkk
    obtain ⟨hz, rfl⟩ := tir_ite_none_some (c := Up.zero? i k) hg
    refine ⟨h.gU.rk_lt i k hi hk hz, ?_, ?_⟩
    · intro p hp
      obtain ⟨j, hij, hj, hg'⟩ := tir_mem_filterMap_rangeFrom _ _ _ _ hp
      obtain ⟨hz', rfl⟩ := tir_ite_none_some (c := Lp.zero? j i) hg'
      have hU := (pres_true _ _ _).mp (h.closed.fillU j i k (by omega) (by omega) hk
        ((pres_true _ _ _).mpr hz') ((pres_true _ _ _).mpr hz))
      exact ⟨h.gU.rk_lt j k (by omega) hk hU, h.gL.rk_lt j i (by omega) hi hz'⟩
    · intro p hp
      obtain ⟨j, hkj, hj, hg'⟩ := tir_mem_filterMap_rangeFrom _ _ _ _ hp
      obtain ⟨hz', rfl⟩ := tir_ite_none_some (c := Lp.zero? j i) hg'
      have hL := (pres_true _ _ _).mp (h.closed.fillL k i j (by omega) (by omega) hj
        ((pres_true _ _ _).mpr hz') ((pres_true _ _ _).mpr hz))
      exact ⟨h.gL.rk_lt j k hj hk hL, h.gL.rk_lt j i hj hi hz'⟩

/-! ### substitution tables -/

theorem solverRows_inRange {n : Nat} {Lp Up : Pattern} (gL : GoodPattern n Lp) (gU : GoodPattern n Up)
    (hn : Lp.n = n) (dL : ∀ i, i < n → Lp.zero? i i = false) (dU : ∀ i, i < n → Up.zero? i i = false) :
    (∀ r ∈ (solverRows Lp Up).1, r.InRange Lp.nnz n) ∧ (∀ r ∈ (solverRows Lp Up).2, r.InRange Up.nnz n) ∧
    (solverRows Lp Up).1.length = n ∧ (solverRows Lp Up).2.length = n := by
  rw [solverRows_eq, hn]
  refine ⟨?_, ?_, by simp, by simp⟩
  · intro r hr
    rw [List.mem_map] at hr
    obtain ⟨i, hi, rfl⟩ := hr
    have hi := List.mem_range.1 hi
    refine ⟨gL.rk_lt i i hi hi (dL i hi), ?_⟩
    intro p hp
    obtain ⟨j, hj, hg⟩ := mem_filterMap_range _ _ _ hp
    obtain ⟨hz, rfl⟩ := tir_ite_none_some (c := Lp.zero? i j) hg
    exact ⟨gL.rk_lt i j hi (by omega) hz, by omega⟩
  · intro r hr
    rw [List.mem_map] at hr
    obtain ⟨i, hi, rfl⟩ := hr
    have hi := List.mem_range.1 (List.mem_reverse.1 hi)
    refine ⟨gU.rk_lt i i hi hi (dU i hi), ?_⟩
    intro p hp
    obtain ⟨j, hij, hj, hg⟩ := tir_mem_filterMap_rangeFrom _ _ _ _ hp
    obtain ⟨hz, rfl⟩ := tir_ite_none_some (c := Up.zero? i j) hg
    exact ⟨gU.rk_lt i j hi hj hz, hj⟩

/-! ### the tables of `LinAlg.build` -/

/-- what the lane theorems need of one configured linear-algebra variant with `n` rows -/
structure LinAlg.TablesInRange (la : LinAlg) (n : Nat) : Prop where
  dRows : ∀ r ∈ la.dRows, r.InRange la.A.nnz la.Lp.nnz la.Up.nnz
  mInit : ∀ r ∈ la.mInit, r.InRange la.A.nnz la.Lp.nnz la.Up.nnz
  mRows : ∀ r ∈ la.mRows, r.InRange la.Lp.nnz la.Up.nnz
  diRows : ∀ r ∈ la.diRows, r.InRange la.A.nnz
  miRows : ∀ r ∈ la.miRows, r.InRange la.A.nnz ∧ r.Distinct
  fw : ∀ r ∈ la.fw, r.InRange la.Lp.nnz n
  bw : ∀ r ∈ la.bw, r.InRange la.Up.nnz n
  fwLen : la.fw.length = n
  bwLen : la.bw.length = n

theorem tablesInRange_build {n : Nat} {set : List Pair} (hw : WF n set) (hdiag : ∀ i, i < n → (i, i) ∈ set)
    (csc : Bool) (L : Nat) (kind : LUKind) :
    (LinAlg.build kind (Pattern.mk' n csc L set)).TablesInRange n := by
  have gJ : GoodPattern n (Pattern.mk' n csc L set) := GoodPattern_of_Good (good_mk hw csc L) n
  have hd : ∀ i, i < (Pattern.mk' n csc L set).n → (Pattern.mk' n csc L set).zero? i i = false :=
    fun i hi => (zero?_mk_iff hw csc L i i).mpr (hdiag i hi)
  cases kind with
  | doolittle =>
    have h : LUSetup n _ _ _ := LUSetup_build (Pattern.mk' n csc L set)
    obtain ⟨s1, s2, s3, s4⟩ := solverRows_inRange h.gL h.gU rfl h.diagL
      (fun i hi => (pres_true _ _ _).mp (h.closed.diagU i hi))
    exact ⟨doolittleRows_inRange gJ h rfl, tir_nil _, tir_nil _,
      tir_nil _, tir_nil _, s1, s2, s3, s4⟩
  | mozart =>
    have h : MozSetup n _ _ _ := MozSetup_build (Pattern.mk' n csc L set) hd
    obtain ⟨s1, s2, s3, s4⟩ := solverRows_inRange h.gL h.gU rfl h.diagL
      (fun i hi => (pres_true _ _ _).mp (h.closed.diagU i hi))
    exact ⟨tir_nil _, mozartInit_inRange gJ h rfl, mozartRows_inRange h rfl,
      tir_nil _, tir_nil _, s1, s2, s3, s4⟩
  | doolittleInPlace =>
    have h : IPSetup n _ := IPSetup_build (Pattern.mk' n csc L set)
    obtain ⟨s1, s2, s3, s4⟩ := solverRows_inRange h.g h.g rfl h.diag h.diag
    exact ⟨tir_nil _, tir_nil _, tir_nil _,
      doolittleInPlaceRows_inRange h rfl, tir_nil _, s1, s2, s3, s4⟩
  | mozartInPlace =>
    have h : IPSetup n _ := IPSetup_build_mozart (Pattern.mk' n csc L set) hd
    obtain ⟨s1, s2, s3, s4⟩ := solverRows_inRange h.g h.g rfl h.diag h.diag
    exact ⟨tir_nil _, tir_nil _, tir_nil _,
      tir_nil _, mozartInPlaceRows_inRange h rfl, s1, s2, s3, s4⟩

end Micm
