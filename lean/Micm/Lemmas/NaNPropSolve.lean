/-
Helper lemmas for C10 (second part), loop level: the first iteration of `rosSolve` when the first
attempt's error norm is NaN; the two other ways through the first prologue.
Uses `C10_ros_nan_error` / `C10_ros_nan_final` of `Properties/C10.lean`.
-/
import Micm.Lemmas.NaNProp
import Micm.Properties.C10
namespace Micm
set_option linter.unusedSectionVars false

section
variable {α : Type} [OfNat α 0] [OfNat α 1] [Add α] [Sub α] [Mul α] [Div α]
variable (o : Ops α) (cs : Consts α) (s : SolverCfg α) (p : RosParams α) (kc : Mat α)
    (atol : Array α) (rtol : α) (timeStep : α) (Y : Mat α) (sc : Scratch α) (fuel : Nat)

/-- the post-prologue state of the first iteration of `rosSolve`, when the loop is entered -/
def firstAttemptState : RState α :=
  startStep o s kc timeStep (rosInit (initialH o cs p timeStep) Y sc)

theorem firstAttemptState_f0 :
    (firstAttemptState o cs s p kc timeStep Y sc).sc.f0 = s.forcing kc Y (fillM sc.f0 0) := rfl
theorem firstAttemptState_Y : (firstAttemptState o cs s p kc timeStep Y sc).Y = Y := rfl
theorem firstAttemptState_k : (firstAttemptState o cs s p kc timeStep Y sc).sc.k = sc.k := rfl
theorem firstAttemptState_yerr : (firstAttemptState o cs s p kc timeStep Y sc).sc.yerr = sc.yerr := rfl

/-- loop entered and NaN error norm in the first attempt ⇒ `rosSolve` ends `NaNDetected` -/
theorem rosSolve_nan_first (he : LoopEntered o cs p timeStep (initialH o cs p timeStep))
    (hnan : o.isNaN (attError o cs s p kc atol rtol (firstAttemptState o cs s p kc timeStep Y sc)) = true) :
    (rosSolve o cs s p kc atol rtol timeStep Y sc (fuel + 1)).status = .nanDetected := by
  rw [rosSolve_eq]
  simp only []
  have hp := rosPrologue_init o cs s p kc timeStep (initialH o cs p timeStep) Y sc he
  refine C10_ros_nan_final cs s p kc atol rtol timeStep (hmaxEff o p timeStep) o fuel _ rfl ?_ ?_
  · rw [hp]; rfl
  · rw [hp]; exact hnan

/-- the outer test holds but the first `H` is rejected by the step-size test ⇒ `StepSizeTooSmall` -/
theorem rosSolve_first_tooSmall (h1 : o.le (0 - timeStep + p.roundOff) 0 = true)
    (h2 : (o.eq (0 + cs.tenth * initialH o cs p timeStep) 0 ||
           o.le (initialH o cs p timeStep) p.roundOff) = true) :
    (rosSolve o cs s p kc atol rtol timeStep Y sc (fuel + 1)).status = .stepSizeTooSmall := by
  rw [rosSolve_eq]
  simp only []
  have hp : rosPrologue o cs s p kc timeStep (rosInit (initialH o cs p timeStep) Y sc) =
      { rosInit (initialH o cs p timeStep) Y sc with status := .stepSizeTooSmall } := by
    unfold rosPrologue
    simp [rosInit, h1, h2]
  have hr : (rosInit (initialH o cs p timeStep) Y sc).status = Status.running := rfl
  rw [rosLoop_succ, if_pos hr, rosStep_no_attempt _ _ _ _ _ _ _ _ _ _ (by rw [hp]; simp), hp,
    rosLoop_not_running _ _ _ _ _ _ _ _ _ _ _ (by simp)]

/-- the outer test fails at `t = 0` (KF-C06-1) ⇒ `Converged`, the state — NaN included — untouched -/
theorem rosSolve_first_converged (h1 : o.le (0 - timeStep + p.roundOff) 0 = false) :
    (rosSolve o cs s p kc atol rtol timeStep Y sc (fuel + 1)).status = .converged ∧
    (rosSolve o cs s p kc atol rtol timeStep Y sc (fuel + 1)).Y = Y := by
  rw [rosSolve_eq]
  simp only []
  rw [rosLoop_no_progress o cs s p kc atol rtol timeStep (hmaxEff o p timeStep) fuel _ rfl rfl h1]
  exact ⟨rfl, rfl⟩

/-- **exact status after a NaN first attempt**, assuming only that the outer loop test holds at
    `t = 0`: `StepSizeTooSmall` if the first `H` fails the step-size test, else `NaNDetected` -/
theorem rosSolve_nan_first_exact (h1 : o.le (0 - timeStep + p.roundOff) 0 = true)
    (hnan : o.isNaN (attError o cs s p kc atol rtol (firstAttemptState o cs s p kc timeStep Y sc)) = true) :
    (rosSolve o cs s p kc atol rtol timeStep Y sc (fuel + 1)).status =
      if (o.eq (0 + cs.tenth * initialH o cs p timeStep) 0 ||
          o.le (initialH o cs p timeStep) p.roundOff) = true
      then .stepSizeTooSmall else .nanDetected := by
  cases h2 : (o.eq (0 + cs.tenth * initialH o cs p timeStep) 0 || o.le (initialH o cs p timeStep) p.roundOff)
  · rw [if_neg (by simp)]
    exact rosSolve_nan_first o cs s p kc atol rtol timeStep Y sc fuel ⟨h1, h2⟩ hnan
  · rw [if_pos rfl]
    exact rosSolve_first_tooSmall o cs s p kc atol rtol timeStep Y sc fuel h1 h2

theorem rosSolve_nan_first_ne_converged (h1 : o.le (0 - timeStep + p.roundOff) 0 = true)
    (hnan : o.isNaN (attError o cs s p kc atol rtol (firstAttemptState o cs s p kc timeStep Y sc)) = true) :
    (rosSolve o cs s p kc atol rtol timeStep Y sc (fuel + 1)).status ≠ .converged := by
  rw [rosSolve_nan_first_exact o cs s p kc atol rtol timeStep Y sc fuel h1 hnan]
  split <;> simp

/-! ### any iteration of the loop (not only the first) -/

variable {o} (hm : α)

/-- an iteration that makes an attempt with a NaN in `initial_forcing` at a real (cell, variable)
    ends `NaNDetected` -/
theorem NaNLaws.rosStep_nan_f0 (hl : NaNLaws o) (r : RState α)
    (hrun : (rosPrologue o cs s p kc timeStep r).status = .running)
    (hst : 0 < p.stages) (hk : 0 < r.sc.k.size) (c v : Nat) (hc : c < r.Y.size) (hv : v < s.nSpecies)
    (hce : c < r.sc.yerr.size) (hve : v < (r.sc.yerr.getD c #[]).size)
    (hnan : o.isNaN (rd ((rosPrologue o cs s p kc timeStep r).sc.f0.getD c #[]) v) = true) :
    (rosStep o cs s p kc atol rtol timeStep hm r).status = .nanDetected := by
  refine (C10_ros_nan_error cs s p kc atol rtol timeStep hm o r hrun ?_).1
  obtain ⟨k1, _, _, _, k5⟩ := rosPrologue_frame_sc o cs s p kc timeStep r
  have hY := (rosPrologue_frame o cs s p kc timeStep r).2.1
  exact hl.attError_nan_f0 s p kc cs atol rtol _ hst (by rw [k1]; exact hk) c v (by rw [hY]; exact hc) hv
    (by rw [k5]; exact hce) (by rw [k5]; exact hve) hnan

/-- at the start of a step the prologue evaluates the forcing at the current `Y` -/
theorem rosPrologue_f0_of_new_step (r : RState α) (hi : r.inStep = false)
    (hrun : (rosPrologue o cs s p kc timeStep r).status = .running) :
    (rosPrologue o cs s p kc timeStep r).sc.f0 = s.forcing kc r.Y (fillM r.sc.f0 0) := by
  have hc := rosPrologue_cases o cs s p kc timeStep r
  generalize rosPrologue o cs s p kc timeStep r = r' at hc hrun ⊢
  cases hc with
  | inStep h => rw [hi] at h; cases h
  | converged => cases hrun
  | maxSteps => cases hrun
  | tooSmall => cases hrun
  | start => rfl

end
end Micm
