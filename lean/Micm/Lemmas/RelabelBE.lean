import Micm.Lemmas.RelabelLoop
import Micm.Lemmas.BackwardEuler

/-!
C12, "reordered or unreordered state", backward Euler: `beSolve` on the relabelled mechanism stays
in lockstep with the original run.  The Newton update uses the same kernels as Rosenbrock (forcing,
Jacobian, `Factor; Solve`); the residual, the clamp `max(·, 0)` and the convergence test
`IsConverged` are element-wise, hence commute with the relabelling.
-/
open Finset
namespace Micm
set_option linter.unusedSectionVars false
variable {K : Type} [Field K]

section Elementwise
variable {σ : Nat → Nat} {nCells n : Nat}

/-- an element-wise map with relabelled coefficients keeps the relation -/
theorem PermMat.mapIdx₂ (hσ : IsRelabel σ n) (g g' : Nat → Nat → K → K) {X X' : Mat K}
    (hX : PermMat σ nCells n X X')
    (hg : ∀ c, c < nCells → ∀ v, v < n → ∀ a, g' c (σ v) a = g c v a) :
    PermMat σ nCells n (X.mapIdx fun c xr => xr.mapIdx fun v x => g c v x)
      (X'.mapIdx fun c xr => xr.mapIdx fun v x => g' c v x) := by
  refine ⟨by simp [hX.1], by simp [hX.2.1], fun c hc => ?_⟩
  have h1 : c < X.size := by rw [hX.1]; exact hc
  have h2 : c < X'.size := by rw [hX.2.1]; exact hc
  obtain ⟨s1, s2, e⟩ := hX.2.2 c hc
  rw [getD_mapIdx _ X c h1 #[] #[], getD_mapIdx _ X' c h2 #[] #[]]
  refine ⟨by rw [Array.size_mapIdx]; exact s1, by rw [Array.size_mapIdx]; exact s2, fun v hv => ?_⟩
  rw [rd_mapIdx_lt _ _ _ (by rw [s2]; exact hσ.lt v hv), rd_mapIdx_lt _ _ _ (by rw [s1]; exact hv),
    e v hv, hg c hc v hv]

theorem all_congr_mem {β : Type} {l : List β} {f g : β → Bool} (h : ∀ x ∈ l, f x = g x) :
    l.all f = l.all g := by
  induction l with
  | nil => rfl
  | cons a l ih =>
    simp only [List.all_cons]
    rw [h a List.mem_cons_self, ih (fun x hx => h x (List.mem_cons_of_mem _ hx))]

theorem all_range_relabel (hσ : IsRelabel σ n) (P P' : Nat → Bool)
    (h : ∀ v, v < n → P' (σ v) = P v) : (List.range n).all P' = (List.range n).all P := by
  rw [Bool.eq_iff_iff, List.all_eq_true, List.all_eq_true]
  constructor
  · intro H v hv
    rw [← h v (List.mem_range.mp hv)]
    exact H _ (List.mem_range.mpr (hσ.lt v (List.mem_range.mp hv)))
  · intro H w hw
    obtain ⟨v, hv, rfl⟩ := hσ.surj w (List.mem_range.mp hw)
    rw [h v hv]
    exact H v (List.mem_range.mpr hv)

/-- **`IsConverged` is invariant under the relabelling** (tolerances relabelled with the species) -/
theorem beIsConverged_relabel (hσ : IsRelabel σ n) (o : Ops K) (small : K) (atol atol' : Array K)
    (rtol : K) (hat : ∀ v, v < n → rd atol' (σ v) = rd atol v)
    {res res' yn1 yn1' : Mat K} (hr : PermMat σ nCells n res res') (hy : PermMat σ nCells n yn1 yn1') :
    beIsConverged o small atol' rtol res' yn1' = beIsConverged o small atol rtol res yn1 := by
  unfold beIsConverged
  rw [hr.1, hr.2.1]
  apply all_congr_mem
  intro c hc
  have hc' := List.mem_range.mp hc
  simp only []
  rw [(hr.2.2 c hc').1, (hr.2.2 c hc').2.1]
  apply all_range_relabel hσ
  intro v hv
  simp only [hr.rd c v hc' hv, hy.rd c v hc' hv, hat v hv]

end Elementwise

/-! ### storage invariant and logical relation for the backward-Euler loop -/

/-- shapes of the scratch the Newton update reads -/
structure BEStoreInv (s : SolverCfg K) (nCells n : Nat) (r : BEState K) : Prop where
  f0 : MatShape nCells n r.sc.f0
  jac : MatShape nCells s.la.A.nnz r.sc.jac
  lower : s.la.kind.inPlace = false → MatShape nCells s.la.Lp.nnz r.sc.lower
  upper : s.la.kind.inPlace = false → MatShape nCells s.la.Up.nnz r.sc.upper

/-- the two backward-Euler states agree up to `σ`: `Yn1`, `Yn` relabelled copies; time, step size,
    counters, status, all statistics and the history of step sizes equal -/
structure BERelabelEq (σ : Nat → Nat) (nCells n : Nat) (r₁ r₂ : BEState K) : Prop where
  Yn1 : PermMat σ nCells n r₁.Yn1 r₂.Yn1
  Yn : PermMat σ nCells n r₁.Yn r₂.Yn
  t : r₁.t = r₂.t
  h : r₁.h = r₂.h
  nSucc : r₁.nSucc = r₂.nSucc
  nFail : r₁.nFail = r₂.nFail
  iterations : r₁.iterations = r₂.iterations
  status : r₁.status = r₂.status
  done : r₁.done = r₂.done
  stats : r₁.stats = r₂.stats
  trace : r₁.trace.map (·.h) = r₂.trace.map (·.h)

section BE
variable (o : Ops K) (p : BEParams K) (kc : Mat K) (atol atol' : Array K) (rtol T : K)
variable {σ : Nat → Nat} {procs : List (Process K)} {m : NameMap} {t t' : PSTables K} {n : Nat}

theorem beMatrix_shape (s : SolverCfg K) (nCells : Nat) (r : BEState K)
    (hj : MatShape nCells s.la.A.nnz r.sc.jac) : MatShape nCells s.la.A.nnz (beMatrix s kc r) := by
  rw [beMatrix_eq]
  exact ((hj.fillM 0).jacobian s _ _).alphaMinusJacobian s _

theorem beForcing_shape (s : SolverCfg K) (nCells n : Nat) (r : BEState K)
    (hf : MatShape nCells n r.sc.f0) : MatShape nCells n (beForcing s kc r) := by
  unfold beForcing
  exact (hf.fillM 0).forcing s _ _

theorem MatShape.mapIdx₂ {nCells n : Nat} {X : Mat K} (hX : MatShape nCells n X) (g : Nat → Nat → K → K) :
    MatShape nCells n (X.mapIdx fun c xr => xr.mapIdx fun v x => g c v x) := by
  refine ⟨by simp [hX.1], fun c hc => ?_⟩
  rw [getD_mapIdx _ X c (by rw [hX.1]; exact hc) #[] #[], Array.size_mapIdx]
  exact hX.2 c hc

theorem BEStoreInv_newton (s : SolverCfg K) (nCells n : Nat) (r : BEState K)
    (h : BEStoreInv s nCells n r) : BEStoreInv s nCells n (beNewton o s kc r) := by
  have hfa := factor_shapes s nCells (beMatrix s kc r) r.sc.lower r.sc.upper
    (beMatrix_shape kc s nCells r h.jac) h.lower h.upper
  refine ⟨?_, hfa.1, hfa.2.1, hfa.2.2⟩
  show MatShape nCells n (beResidual s kc r)
  unfold beResidual
  exact ((beForcing_shape kc s nCells n r h.f0).mapIdx₂ _).linSolve s _ _ _

theorem BEStoreInv_step (s : SolverCfg K) (nCells n : Nat) (r : BEState K)
    (h : BEStoreInv s nCells n r) : BEStoreInv s nCells n (beStep o s p kc atol rtol T r) := by
  have hN := BEStoreInv_newton o kc s nCells n (beHead o T r) ⟨by simpa using h.f0, by simpa using h.jac,
    by simpa using h.lower, by simpa using h.upper⟩
  obtain ⟨n1, n2, n3, n4⟩ := hN
  have hc := beStep_cases o s p kc atol rtol T r
  generalize beStep o s p kc atol rtol T r = r' at hc ⊢
  cases hc with
  | exit _ => exact ⟨by simpa using h.f0, by simpa using h.jac, by simpa using h.lower, by simpa using h.upper⟩
  | cont => exact ⟨n1, n2, n3, n4⟩
  | giveUp => exact ⟨n1, n2, n3, n4⟩
  | retry => exact ⟨n1, n2, n3, n4⟩
  | accept => rw [beAccept_eq]; exact ⟨n1, n2, n3, n4⟩

theorem BERelabelEq_head (nCells : Nat) (r₁ r₂ : BEState K) (h : BERelabelEq σ nCells n r₁ r₂) :
    BERelabelEq σ nCells n (beHead o T r₁) (beHead o T r₂) := by
  have e1 : o.lt r₁.t T = o.lt r₂.t T := by rw [h.t]
  unfold beHead
  by_cases h0 : r₂.iterations = 0
  · rw [if_pos (h.iterations.trans h0), if_pos h0, e1]
    cases o.lt r₂.t T
    · exact ⟨h.Yn1, h.Yn, h.t, h.h, h.nSucc, h.nFail, h.iterations, h.status, rfl, h.stats, h.trace⟩
    · exact ⟨h.Yn1, h.Yn, h.t, h.h, h.nSucc, h.nFail, h.iterations, rfl, h.done, h.stats, h.trace⟩
  · rw [if_neg (fun e => h0 (h.iterations.symm.trans e)), if_neg h0]; exact h

theorem BERelabelEq_reject (nCells : Nat) (q₁ q₂ : BEState K) (h : BERelabelEq σ nCells n q₁ q₂) :
    BERelabelEq σ nCells n (beReject o p T q₁) (beReject o p T q₂) := by
  rw [beReject_eq, beReject_eq]
  by_cases hf : p.reductions.length ≤ q₂.nFail
  · rw [if_pos (by rw [h.nFail]; exact hf), if_pos hf]
    exact ⟨h.Yn1, h.Yn, by show q₁.t + q₁.h = q₂.t + q₂.h; rw [h.t, h.h], h.h, rfl, h.nFail, rfl, rfl,
      rfl, by show ({ q₁.stats with rejected := q₁.stats.rejected + 1 } : Stats) = _; rw [h.stats]; rfl,
      h.trace⟩
  · rw [if_neg (by rw [h.nFail]; exact hf), if_neg hf]
    exact ⟨h.Yn, h.Yn, h.t, by
        show cmin o (q₁.h * p.reductions.getD q₁.nFail 1) (T - q₁.t)
          = cmin o (q₂.h * p.reductions.getD q₂.nFail 1) (T - q₂.t)
        rw [h.t, h.h, h.nFail],
      rfl, by show q₁.nFail + 1 = q₂.nFail + 1; rw [h.nFail], rfl, h.status, h.done,
      by show ({ q₁.stats with rejected := q₁.stats.rejected + 1 } : Stats) = _; rw [h.stats]; rfl, h.trace⟩

theorem BERelabelEq_accept (nCells : Nat) (q₁ q₂ : BEState K) (h : BERelabelEq σ nCells n q₁ q₂) :
    BERelabelEq σ nCells n (beAccept o T q₁) (beAccept o T q₂) := by
  rw [beAccept_eq, beAccept_eq]
  exact ⟨h.Yn1, h.Yn1, by show q₁.t + q₁.h = q₂.t + q₂.h; rw [h.t, h.h], by
      show cmin o (if q₁.nSucc + 1 ≥ 2 then q₁.h * 2 else q₁.h) (T - (q₁.t + q₁.h))
        = cmin o (if q₂.nSucc + 1 ≥ 2 then q₂.h * 2 else q₂.h) (T - (q₂.t + q₂.h))
      rw [h.t, h.h, h.nSucc],
    by show (if q₁.nSucc + 1 ≥ 2 then 0 else q₁.nSucc + 1) = (if q₂.nSucc + 1 ≥ 2 then 0 else q₂.nSucc + 1)
       rw [h.nSucc],
    h.nFail, rfl, rfl, h.done,
    by show ({ q₁.stats with accepted := q₁.stats.accepted + 1 } : Stats) = _; rw [h.stats], h.trace⟩

/-- "no pivot vanishes in the Newton iteration made from `r`" (if one is made) -/
def BEPivotsOK (s : SolverCfg K) (nCells n : Nat) (r : BEState K) : Prop :=
  (beHead o T r).done = false →
    ∀ c, c < nCells → ∀ i, i < n →
      s.la.pivot ((beMatrix s kc r).getD c #[]) (r.sc.lower.getD c #[]) (r.sc.upper.getD c #[]) i ≠ 0

/-- **the Newton update in lockstep up to `σ`**: the update `δ` and the clamped new iterate are
    relabelled copies -/
theorem newton_relabel (hset : RelabelSetup σ procs m t t' n)
    (s₁ s₂ : SolverCfg K) (csc₁ csc₂ : Bool) (Ls₁ Ls₂ : Nat) (kind₁ kind₂ : LUKind)
    (hs₁ : CfgBuilt s₁ t n csc₁ Ls₁ kind₁) (hs₂ : CfgBuilt s₂ t' n csc₂ Ls₂ kind₂)
    (nCells : Nat) (q₁ q₂ : BEState K)
    (hI₁ : BEStoreInv s₁ nCells n q₁) (hI₂ : BEStoreInv s₂ nCells n q₂)
    (hE : BERelabelEq σ nCells n q₁ q₂)
    (hpiv₁ : ∀ c, c < nCells → ∀ i, i < n → s₁.la.pivot ((beMatrix s₁ kc q₁).getD c #[])
      (q₁.sc.lower.getD c #[]) (q₁.sc.upper.getD c #[]) i ≠ 0)
    (hpiv₂ : ∀ c, c < nCells → ∀ i, i < n → s₂.la.pivot ((beMatrix s₂ kc q₂).getD c #[])
      (q₂.sc.lower.getD c #[]) (q₂.sc.upper.getD c #[]) i ≠ 0) :
    PermMat σ nCells n (beResidual s₁ kc q₁) (beResidual s₂ kc q₂) ∧
    PermMat σ nCells n (beNewY o s₁ kc q₁) (beNewY o s₂ kc q₂) := by
  have hσ := hset.perm
  have hmech := hset.mech
  have hmech' := hset.mech'
  have hw : WF n (buildJacobianSet n t.nonZeroJacobianElements) :=
    jac_buildJacobianSet_WF procs m t hmech.built n hmech.range
  have hw' : WF n (buildJacobianSet n t'.nonZeroJacobianElements) :=
    jac_buildJacobianSet_WF procs (relabel σ m) t' hmech'.built n hmech'.range
  have hdiag : ∀ (csc : Bool) (Ls i : Nat), i < n →
      (Pattern.mk' n csc Ls (buildJacobianSet n t.nonZeroJacobianElements)).zero? i i = false :=
    fun csc Ls i hi' => (zero?_mk_iff hw csc Ls i i).mpr
      ((jac_mem_buildJacobianSet n _ (i, i)).mpr (Or.inr ⟨rfl, hi'⟩))
  have hdiag' : ∀ (csc : Bool) (Ls i : Nat), i < n →
      (Pattern.mk' n csc Ls (buildJacobianSet n t'.nonZeroJacobianElements)).zero? i i = false :=
    fun csc Ls i hi' => (zero?_mk_iff hw' csc Ls i i).mpr
      ((jac_mem_buildJacobianSet n _ (i, i)).mpr (Or.inr ⟨rfl, hi'⟩))
  have hM₁ := beMatrix_shape kc s₁ nCells q₁ hI₁.jac
  have hM₂ := beMatrix_shape kc s₂ nCells q₂ hI₂.jac
  have hview : ∀ c, c < nCells → ∀ r c', r < n → c' < n →
      view s₂.la.A ((beMatrix s₂ kc q₂).getD c #[]) (σ r) (σ c')
        = view s₁.la.A ((beMatrix s₁ kc q₁).getD c #[]) r c' := by
    intro c hc r c' hr' _
    rw [beMatrix_eq, beMatrix_eq,
      (built_matrix_view procs m t hmech.built hmech.names hmech.ids hmech.param n hmech.range
        s₁ csc₁ Ls₁ kind₁ hs₁ kc q₁.Yn1 q₁.sc.jac _ c (by rw [hI₁.jac.1]; exact hc) (hI₁.jac.2 c hc)
        r c' hr').2,
      (built_matrix_view procs (relabel σ m) t' hmech'.built hmech'.names hmech'.ids hmech'.param n
        hmech'.range s₂ csc₂ Ls₂ kind₂ hs₂ kc q₂.Yn1 q₂.sc.jac _ c (by rw [hI₂.jac.1]; exact hc)
        (hI₂.jac.2 c hc) (σ r) (σ c') (hσ.lt r hr')).2,
      jacEntrySpec_relabel σ hσ.inj m procs _ _ _ ((hE.Yn1.2.2 c hc).all hσ), hE.h]
    congr 1
    by_cases hrc : r = c'
    · rw [if_pos hrc, if_pos (by rw [hrc])]
    · rw [if_neg hrc, if_neg (fun e => hrc (hσ.inj e))]
  have hsz₁ : ∀ c, c < nCells → s₁.la.SizesOK ((beMatrix s₁ kc q₁).getD c #[])
      (q₁.sc.lower.getD c #[]) (q₁.sc.upper.getD c #[]) := fun c hc =>
    SizesOK_of_inPlace _ _ _ _
      (fun hk' => ⟨(hI₁.lower hk').2 c hc, (hI₁.upper hk').2 c hc⟩) (fun _ => hM₁.2 c hc)
  have hsz₂ : ∀ c, c < nCells → s₂.la.SizesOK ((beMatrix s₂ kc q₂).getD c #[])
      (q₂.sc.lower.getD c #[]) (q₂.sc.upper.getD c #[]) := fun c hc =>
    SizesOK_of_inPlace _ _ _ _
      (fun hk' => ⟨(hI₂.lower hk').2 c hc, (hI₂.upper hk').2 c hc⟩) (fun _ => hM₂.2 c hc)
  have hF : PermMat σ nCells n (beForcing s₁ kc q₁) (beForcing s₂ kc q₂) := by
    unfold beForcing
    exact hset.forcing s₁ s₂ hs₁.tables hs₂.tables kc hE.Yn1 (PermMat.fillM_zero hI₁.f0 hI₂.f0)
  have hR : PermMat σ nCells n (beResidual s₁ kc q₁) (beResidual s₂ kc q₂) := by
    unfold beResidual beFactor
    refine linSolve_relabel hσ s₁ s₂ kind₁ kind₂ _ _ hs₁.la hs₂.la rfl rfl
      (fun _ i hi' => hdiag csc₁ Ls₁ i hi') (fun _ i hi' => hdiag' csc₂ Ls₂ i hi')
      _ _ _ _ _ _ hM₁.1 hM₂.1 hsz₁ hsz₂ hpiv₁ hpiv₂ hview ?_
    exact PermMat.mapIdx₂ hσ
      (fun c v f => f - (rd (q₁.Yn1.getD c #[]) v - rd (q₁.Yn.getD c #[]) v) / q₁.h)
      (fun c v f => f - (rd (q₂.Yn1.getD c #[]) v - rd (q₂.Yn.getD c #[]) v) / q₂.h) hF
      (fun c hc v hv a => by simp only [hE.Yn1.rd c v hc hv, hE.Yn.rd c v hc hv, hE.h])
  refine ⟨hR, ?_⟩
  unfold beNewY
  exact PermMat.mapIdx₂ hσ
    (fun c v y => cmax o (y + rd ((beResidual s₁ kc q₁).getD c #[]) v) 0)
    (fun c v y => cmax o (y + rd ((beResidual s₂ kc q₂).getD c #[]) v) 0) hE.Yn1
    (fun c hc v hv a => by simp only [hR.rd c v hc hv])

/-- **one iteration of the backward-Euler loop in lockstep up to `σ`** -/
theorem beStep_relabel (hset : RelabelSetup σ procs m t t' n)
    (hat : ∀ v, v < n → rd atol' (σ v) = rd atol v)
    (s₁ s₂ : SolverCfg K) (csc₁ csc₂ : Bool) (Ls₁ Ls₂ : Nat) (kind₁ kind₂ : LUKind)
    (hs₁ : CfgBuilt s₁ t n csc₁ Ls₁ kind₁) (hs₂ : CfgBuilt s₂ t' n csc₂ Ls₂ kind₂)
    (nCells : Nat) (r₁ r₂ : BEState K)
    (hI₁ : BEStoreInv s₁ nCells n r₁) (hI₂ : BEStoreInv s₂ nCells n r₂)
    (hE : BERelabelEq σ nCells n r₁ r₂)
    (hpiv₁ : BEPivotsOK o kc T s₁ nCells n r₁) (hpiv₂ : BEPivotsOK o kc T s₂ nCells n r₂) :
    BERelabelEq σ nCells n (beStep o s₁ p kc atol rtol T r₁) (beStep o s₂ p kc atol' rtol T r₂) := by
  have hH := BERelabelEq_head o T nCells r₁ r₂ hE
  rw [beStep_eq, beStep_eq]
  simp only []
  by_cases hd : (beHead o T r₁).done = true
  · rw [if_pos hd, if_pos (hH.done ▸ hd)]; exact hH
  have hd₁ : (beHead o T r₁).done = false := by simpa using hd
  have hd₂ : (beHead o T r₂).done = false := hH.done ▸ hd₁
  have hd₂' : ¬ (beHead o T r₂).done = true := by rw [hd₂]; simp
  rw [if_neg hd, if_neg hd₂']
  have hJ₁ : BEStoreInv s₁ nCells n (beHead o T r₁) :=
    ⟨by simpa using hI₁.f0, by simpa using hI₁.jac, by simpa using hI₁.lower, by simpa using hI₁.upper⟩
  have hJ₂ : BEStoreInv s₂ nCells n (beHead o T r₂) :=
    ⟨by simpa using hI₂.f0, by simpa using hI₂.jac, by simpa using hI₂.lower, by simpa using hI₂.upper⟩
  obtain ⟨hR, hNY⟩ := newton_relabel o kc hset s₁ s₂ csc₁ csc₂ Ls₁ Ls₂ kind₁ kind₂ hs₁ hs₂ nCells
    (beHead o T r₁) (beHead o T r₂) hJ₁ hJ₂ hH
    (by simpa using hpiv₁ hd₁) (by simpa using hpiv₂ hd₂)
  have hconv : beConv o s₁ p kc atol rtol (beHead o T r₁) = beConv o s₂ p kc atol' rtol (beHead o T r₂) := by
    unfold beConv
    rw [hH.iterations]
    split
    · rfl
    · exact (beIsConverged_relabel hset.perm o p.small atol atol' rtol hat hR hNY).symm
  have hN : BERelabelEq σ nCells n (beNewton o s₁ kc (beHead o T r₁)) (beNewton o s₂ kc (beHead o T r₂)) := by
    refine ⟨hNY, hH.Yn, hH.t, hH.h, hH.nSucc, hH.nFail, ?_, hH.status, hH.done, ?_, ?_⟩
    · show (beHead o T r₁).iterations + 1 = (beHead o T r₂).iterations + 1
      rw [hH.iterations]
    · simp only [beNewton, hH.stats]
    · simp only [beNewton, List.map_cons, hH.h, hH.trace]
  rw [hconv, hH.iterations]
  split
  · exact hN
  · split
    · exact BERelabelEq_reject o p T nCells _ _ hN
    · exact BERelabelEq_accept o T nCells _ _ hN

/-- **the backward-Euler loop in lockstep up to `σ`** -/
theorem beLoop_relabel (hset : RelabelSetup σ procs m t t' n)
    (hat : ∀ v, v < n → rd atol' (σ v) = rd atol v)
    (s₁ s₂ : SolverCfg K) (csc₁ csc₂ : Bool) (Ls₁ Ls₂ : Nat) (kind₁ kind₂ : LUKind)
    (hs₁ : CfgBuilt s₁ t n csc₁ Ls₁ kind₁) (hs₂ : CfgBuilt s₂ t' n csc₂ Ls₂ kind₂)
    (nCells : Nat) (fuel : Nat) (r₁ r₂ : BEState K)
    (hI₁ : BEStoreInv s₁ nCells n r₁) (hI₂ : BEStoreInv s₂ nCells n r₂)
    (hE : BERelabelEq σ nCells n r₁ r₂)
    (hpiv₁ : ∀ j, j < fuel → BEPivotsOK o kc T s₁ nCells n ((beStep o s₁ p kc atol rtol T)^[j] r₁))
    (hpiv₂ : ∀ j, j < fuel → BEPivotsOK o kc T s₂ nCells n ((beStep o s₂ p kc atol' rtol T)^[j] r₂)) :
    BERelabelEq σ nCells n (beLoop o s₁ p kc atol rtol T fuel r₁) (beLoop o s₂ p kc atol' rtol T fuel r₂) := by
  induction fuel generalizing r₁ r₂ with
  | zero =>
    rw [beLoop_zero, beLoop_zero, hE.done]
    split
    · exact hE
    · exact ⟨hE.Yn1, hE.Yn, hE.t, hE.h, hE.nSucc, hE.nFail, hE.iterations, rfl, rfl, hE.stats,
        hE.trace⟩
  | succ fuel ih =>
    rw [beLoop_succ, beLoop_succ, hE.done]
    split
    · exact hE
    · apply ih
      · exact BEStoreInv_step o p kc atol rtol T s₁ nCells n r₁ hI₁
      · exact BEStoreInv_step o p kc atol' rtol T s₂ nCells n r₂ hI₂
      · exact beStep_relabel o p kc atol atol' rtol T hset hat s₁ s₂ csc₁ csc₂ Ls₁ Ls₂ kind₁ kind₂ hs₁ hs₂
          nCells r₁ r₂ hI₁ hI₂ hE (hpiv₁ 0 (by omega)) (hpiv₂ 0 (by omega))
      · intro j hj
        have := hpiv₁ (j + 1) (by omega)
        rwa [Function.iterate_succ_apply] at this
      · intro j hj
        have := hpiv₂ (j + 1) (by omega)
        rwa [Function.iterate_succ_apply] at this

/-- **the whole backward-Euler solve in lockstep up to `σ`** -/
theorem beSolve_relabel (hset : RelabelSetup σ procs m t t' n)
    (hat : ∀ v, v < n → rd atol' (σ v) = rd atol v)
    (s₁ s₂ : SolverCfg K) (csc₁ csc₂ : Bool) (Ls₁ Ls₂ : Nat) (kind₁ kind₂ : LUKind)
    (hs₁ : CfgBuilt s₁ t n csc₁ Ls₁ kind₁) (hs₂ : CfgBuilt s₂ t' n csc₂ Ls₂ kind₂)
    (nCells : Nat) (Y Y' : Mat K) (sc₁ sc₂ : Scratch K) (fuel : Nat)
    (hY : PermMat σ nCells n Y Y')
    (hI₁ : BEStoreInv s₁ nCells n (beInit (beInitialH o p T) Y sc₁))
    (hI₂ : BEStoreInv s₂ nCells n (beInit (beInitialH o p T) Y' sc₂))
    (hpiv₁ : ∀ j, j < fuel → BEPivotsOK o kc T s₁ nCells n
      ((beStep o s₁ p kc atol rtol T)^[j] (beInit (beInitialH o p T) Y sc₁)))
    (hpiv₂ : ∀ j, j < fuel → BEPivotsOK o kc T s₂ nCells n
      ((beStep o s₂ p kc atol' rtol T)^[j] (beInit (beInitialH o p T) Y' sc₂))) :
    (beSolve o s₂ p kc atol' rtol T Y' sc₂ fuel).status = (beSolve o s₁ p kc atol rtol T Y sc₁ fuel).status ∧
    (beSolve o s₂ p kc atol' rtol T Y' sc₂ fuel).finalTime
      = (beSolve o s₁ p kc atol rtol T Y sc₁ fuel).finalTime ∧
    (beSolve o s₂ p kc atol' rtol T Y' sc₂ fuel).stats = (beSolve o s₁ p kc atol rtol T Y sc₁ fuel).stats ∧
    PermMat σ nCells n (beSolve o s₁ p kc atol rtol T Y sc₁ fuel).Y
      (beSolve o s₂ p kc atol' rtol T Y' sc₂ fuel).Y ∧
    (beSolve o s₂ p kc atol' rtol T Y' sc₂ fuel).trace.map (·.h)
      = (beSolve o s₁ p kc atol rtol T Y sc₁ fuel).trace.map (·.h) := by
  have hE : BERelabelEq σ nCells n (beInit (beInitialH o p T) Y sc₁) (beInit (beInitialH o p T) Y' sc₂) :=
    ⟨hY, hY, rfl, rfl, rfl, rfl, rfl, rfl, rfl, rfl, rfl⟩
  have h := beLoop_relabel o p kc atol atol' rtol T hset hat s₁ s₂ csc₁ csc₂ Ls₁ Ls₂ kind₁ kind₂ hs₁ hs₂
    nCells fuel _ _ hI₁ hI₂ hE hpiv₁ hpiv₂
  rw [beSolve_eq, beSolve_eq]
  refine ⟨h.status.symm, h.t.symm, h.stats.symm, h.Yn1, ?_⟩
  simp only [List.map_map, List.map_reverse, Function.comp_def]
  rw [← h.trace]

end BE

end Micm

#print axioms Micm.beSolve_relabel
