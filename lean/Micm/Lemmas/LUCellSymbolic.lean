import Micm.Lemmas.LUCell

/-!
C03, symbolic side: `doolittleSymbolic n az` (the mirror of `GetLUMatrices`) returns exactly the
fill closure of the pattern `az`: `SparseLU.Closed`, the minimality conditions and the triangular
shapes that `LUSetup` asks for; likewise `doolittleInPlaceSymbolic` and `IPSetup`.
-/
namespace Micm
open SparseLU (Closed)

/-! ### sets as lists -/

theorem sym_mem_setInsert (a x : Pair) (l : List Pair) : x ∈ setInsert a l ↔ x = a ∨ x ∈ l := by
  induction l with
  | nil => simp [setInsert]
  | cons b l ih =>
    unfold setInsert
    by_cases h1 : pairLt a b = true
    · simp [h1]
    · simp only [h1]
      by_cases h2 : (a == b) = true
      · have : a = b := by simpa using h2
        subst this
        simp
      · simp only [h2, Bool.false_eq_true, if_false, List.mem_cons, ih]
        constructor
        · rintro (h | h | h) <;> simp [h]
        · rintro (h | h | h) <;> simp [h]

/-- membership of `(r,c)` in a set, as a `Bool` matrix -/
def memB (s : List Pair) (r c : Nat) : Bool := setMem (r, c) s

theorem memB_iff (s : List Pair) (r c : Nat) : memB s r c = true ↔ (r, c) ∈ s := by
  simp [memB, setMem]

theorem setMem_iff (s : List Pair) (x : Pair) : setMem x s = true ↔ x ∈ s := by
  simp [setMem]

theorem setMem_congr (s s' : List Pair) (x : Pair) (h : x ∈ s ↔ x ∈ s') : setMem x s = setMem x s' := by
  cases h1 : setMem x s <;> cases h2 : setMem x s' <;> simp_all [setMem]

/-- a fold of conditional insertions whose conditions do not look at the inserted positions -/
theorem foldl_cond_insert_aux (all : List Nat) (pos : Nat → Pair) (cond : List Pair → Nat → Bool)
    (S0 : List Pair)
    (hcond : ∀ S k, k ∈ all → (∀ x, (∀ k', k' ∈ all → x ≠ pos k') → (x ∈ S ↔ x ∈ S0)) →
      cond S k = cond S0 k)
    (l : List Nat) (hl : ∀ k, k ∈ l → k ∈ all) (S : List Pair)
    (hS : ∀ x, (∀ k', k' ∈ all → x ≠ pos k') → (x ∈ S ↔ x ∈ S0)) (x : Pair) :
    x ∈ l.foldl (fun S k => if cond S k then setInsert (pos k) S else S) S ↔
      x ∈ S ∨ ∃ k, k ∈ l ∧ cond S0 k = true ∧ x = pos k := by
  induction l generalizing S with
  | nil => simp
  | cons k l ih =>
    have hk : k ∈ all := hl k List.mem_cons_self
    have hc := hcond S k hk hS
    simp only [List.foldl_cons, hc]
    cases hb : cond S0 k
    · simp only [Bool.false_eq_true, if_false]
      rw [ih (fun k' h => hl k' (List.mem_cons_of_mem _ h)) S hS]
      constructor
      · rintro (h | ⟨k', h1, h2, h3⟩)
        · exact Or.inl h
        · exact Or.inr ⟨k', List.mem_cons_of_mem _ h1, h2, h3⟩
      · rintro (h | ⟨k', h1, h2, h3⟩)
        · exact Or.inl h
        · rcases List.mem_cons.mp h1 with h | h
          · subst h; rw [hb] at h2; cases h2
          · exact Or.inr ⟨k', h, h2, h3⟩
    · simp only [if_true]
      rw [ih (fun k' h => hl k' (List.mem_cons_of_mem _ h)) (setInsert (pos k) S)
        (by
          intro y hy
          rw [sym_mem_setInsert]
          constructor
          · rintro (h | h)
            · exact absurd h (hy k hk)
            · exact (hS y hy).mp h
          · intro h; exact Or.inr ((hS y hy).mpr h))]
      rw [sym_mem_setInsert]
      constructor
      · rintro ((h | h) | ⟨k', h1, h2, h3⟩)
        · exact Or.inr ⟨k, List.mem_cons_self, hb, h⟩
        · exact Or.inl h
        · exact Or.inr ⟨k', List.mem_cons_of_mem _ h1, h2, h3⟩
      · rintro (h | ⟨k', h1, h2, h3⟩)
        · exact Or.inl (Or.inr h)
        · rcases List.mem_cons.mp h1 with h | h
          · subst h; exact Or.inl (Or.inl h3)
          · exact Or.inr ⟨k', h, h2, h3⟩

theorem foldl_cond_insert (ks : List Nat) (pos : Nat → Pair) (cond : List Pair → Nat → Bool)
    (S0 : List Pair)
    (hcond : ∀ S k, k ∈ ks → (∀ x, (∀ k', k' ∈ ks → x ≠ pos k') → (x ∈ S ↔ x ∈ S0)) →
      cond S k = cond S0 k) (x : Pair) :
    x ∈ ks.foldl (fun S k => if cond S k then setInsert (pos k) S else S) S0 ↔
      x ∈ S0 ∨ ∃ k, k ∈ ks ∧ cond S0 k = true ∧ x = pos k :=
  foldl_cond_insert_aux ks pos cond S0 hcond ks (fun _ h => h) S0 (fun _ _ => Iff.rfl) x

theorem any_congr' {α : Type} (l : List α) (p q : α → Bool) (h : ∀ a, a ∈ l → p a = q a) :
    l.any p = l.any q := by
  induction l with
  | nil => rfl
  | cons a l ih =>
    simp only [List.any_cons, h a List.mem_cons_self,
      ih (fun b hb => h b (List.mem_cons_of_mem _ hb))]

theorem ite_or {α : Type} (a b : Bool) (X Y : α) :
    (if a then X else if b then X else Y) = (if (a || b) then X else Y) := by
  cases a <;> cases b <;> rfl

theorem sym_mem_rangeFrom (a b k : Nat) : k ∈ rangeFrom a b ↔ a ≤ k ∧ k < b := by
  unfold rangeFrom
  rw [List.mem_range'_1]
  omega

/-! ### one stage of `doolittleSymbolic` -/

def symU (n : Nat) (az : Nat → Nat → Bool) (L : List Pair) (i : Nat) (U0 : List Pair) : List Pair :=
  (rangeFrom i n).foldl (fun U k =>
    if !az i k || k == i then setInsert (i, k) U
    else if (List.range i).any (fun j => setMem (i, j) L && setMem (j, k) U) then setInsert (i, k) U
    else U) U0

def symL (n : Nat) (az : Nat → Nat → Bool) (U : List Pair) (i : Nat) (L0 : List Pair) : List Pair :=
  (rangeFrom i n).foldl (fun L k =>
    if !az k i || k == i then setInsert (k, i) L
    else if (List.range i).any (fun j => setMem (k, j) L && setMem (j, i) U) then setInsert (k, i) L
    else L) L0

def symStep (n : Nat) (az : Nat → Nat → Bool) (LU : List Pair × List Pair) (i : Nat) :
    List Pair × List Pair :=
  (symL n az (symU n az LU.1 i LU.2) i LU.1, symU n az LU.1 i LU.2)

theorem doolittleSymbolic_eq (n : Nat) (az : Nat → Nat → Bool) :
    doolittleSymbolic n az = (List.range n).foldl (symStep n az) ([], []) := rfl

theorem mem_symU (n : Nat) (az : Nat → Nat → Bool) (L : List Pair) (i : Nat) (U0 : List Pair)
    (r c : Nat) :
    (r, c) ∈ symU n az L i U0 ↔ (r, c) ∈ U0 ∨ (r = i ∧ i ≤ c ∧ c < n ∧
      (az i c = false ∨ c = i ∨ ∃ j, j < i ∧ (i, j) ∈ L ∧ (j, c) ∈ U0)) := by
  have e : symU n az L i U0 = (rangeFrom i n).foldl (fun U k =>
      if (!az i k || k == i || (List.range i).any (fun j => setMem (i, j) L && setMem (j, k) U))
      then setInsert ((fun k => (i, k)) k) U else U) U0 := by
    unfold symU
    congr 1
    funext U k
    rw [ite_or]
  rw [e, foldl_cond_insert (rangeFrom i n) (fun k => (i, k))
    (fun U k => !az i k || k == i || (List.range i).any (fun j => setMem (i, j) L && setMem (j, k) U))]
  · constructor
    · rintro (h | ⟨k, hk, hc, hx⟩)
      · exact Or.inl h
      · right
        rw [sym_mem_rangeFrom] at hk
        simp only [Prod.mk.injEq] at hx
        obtain ⟨rfl, rfl⟩ := hx
        refine ⟨rfl, hk.1, hk.2, ?_⟩
        simp only [Bool.or_eq_true, Bool.not_eq_true', beq_iff_eq, List.any_eq_true,
          List.mem_range, Bool.and_eq_true, setMem_iff] at hc
        rcases hc with (h | h) | ⟨j, hj, h1, h2⟩
        · exact Or.inl h
        · exact Or.inr (Or.inl h)
        · exact Or.inr (Or.inr ⟨j, hj, h1, h2⟩)
    · rintro (h | ⟨rfl, h1, h2, h3⟩)
      · exact Or.inl h
      · right
        refine ⟨c, (sym_mem_rangeFrom _ _ _).mpr ⟨h1, h2⟩, ?_, rfl⟩
        simp only [Bool.or_eq_true, Bool.not_eq_true', beq_iff_eq, List.any_eq_true,
          List.mem_range, Bool.and_eq_true, setMem_iff]
        rcases h3 with h | h | ⟨j, hj, h4, h5⟩
        · exact Or.inl (Or.inl h)
        · exact Or.inl (Or.inr h)
        · exact Or.inr ⟨j, hj, h4, h5⟩
  · intro S k _ hS
    congr 1
    apply any_congr'
    intro j hj
    have hj' := List.mem_range.mp hj
    congr 1
    apply setMem_congr
    apply hS
    intro k' _ heq
    simp only [Prod.mk.injEq] at heq
    omega

theorem mem_symL (n : Nat) (az : Nat → Nat → Bool) (U : List Pair) (i : Nat) (L0 : List Pair)
    (r c : Nat) :
    (r, c) ∈ symL n az U i L0 ↔ (r, c) ∈ L0 ∨ (c = i ∧ i ≤ r ∧ r < n ∧
      (az r i = false ∨ r = i ∨ ∃ j, j < i ∧ (r, j) ∈ L0 ∧ (j, i) ∈ U)) := by
  have e : symL n az U i L0 = (rangeFrom i n).foldl (fun L k =>
      if (!az k i || k == i || (List.range i).any (fun j => setMem (k, j) L && setMem (j, i) U))
      then setInsert ((fun k => (k, i)) k) L else L) L0 := by
    unfold symL
    congr 1
    funext L k
    rw [ite_or]
  rw [e, foldl_cond_insert (rangeFrom i n) (fun k => (k, i))
    (fun L k => !az k i || k == i || (List.range i).any (fun j => setMem (k, j) L && setMem (j, i) U))]
  · constructor
    · rintro (h | ⟨k, hk, hc, hx⟩)
      · exact Or.inl h
      · right
        rw [sym_mem_rangeFrom] at hk
        simp only [Prod.mk.injEq] at hx
        obtain ⟨rfl, rfl⟩ := hx
        refine ⟨rfl, hk.1, hk.2, ?_⟩
        simp only [Bool.or_eq_true, Bool.not_eq_true', beq_iff_eq, List.any_eq_true,
          List.mem_range, Bool.and_eq_true, setMem_iff] at hc
        rcases hc with (h | h) | ⟨j, hj, h1, h2⟩
        · exact Or.inl h
        · exact Or.inr (Or.inl h)
        · exact Or.inr (Or.inr ⟨j, hj, h1, h2⟩)
    · rintro (h | ⟨rfl, h1, h2, h3⟩)
      · exact Or.inl h
      · right
        refine ⟨r, (sym_mem_rangeFrom _ _ _).mpr ⟨h1, h2⟩, ?_, rfl⟩
        simp only [Bool.or_eq_true, Bool.not_eq_true', beq_iff_eq, List.any_eq_true,
          List.mem_range, Bool.and_eq_true, setMem_iff]
        rcases h3 with h | h | ⟨j, hj, h4, h5⟩
        · exact Or.inl (Or.inl h)
        · exact Or.inl (Or.inr h)
        · exact Or.inr ⟨j, hj, h4, h5⟩
  · intro S k _ hS
    congr 1
    apply any_congr'
    intro j hj
    have hj' := List.mem_range.mp hj
    congr 1
    apply setMem_congr
    apply hS
    intro k' _ heq
    simp only [Prod.mk.injEq] at heq
    omega

/-! ### the invariant: after `i` stages the sets are the fill closure restricted to rows / columns `< i` -/

structure SymInv (n : Nat) (az : Nat → Nat → Bool) (i : Nat) (L U : List Pair) : Prop where
  U_iff : ∀ r c, (r, c) ∈ U ↔ r < i ∧ r ≤ c ∧ c < n ∧
    (az r c = false ∨ c = r ∨ ∃ j, j < r ∧ (r, j) ∈ L ∧ (j, c) ∈ U)
  L_iff : ∀ r c, (r, c) ∈ L ↔ c < i ∧ c ≤ r ∧ r < n ∧
    (az r c = false ∨ r = c ∨ ∃ j, j < c ∧ (r, j) ∈ L ∧ (j, c) ∈ U)

theorem symInv_init (n : Nat) (az : Nat → Nat → Bool) : SymInv n az 0 [] [] :=
  ⟨by intro r c; simp, by intro r c; simp⟩

theorem symInv_step (n : Nat) (az : Nat → Nat → Bool) (i : Nat) (L U : List Pair)
    (h : SymInv n az i L U) :
    SymInv n az (i + 1) (symStep n az (L, U) i).1 (symStep n az (L, U) i).2 := by
  show SymInv n az (i + 1) (symL n az (symU n az L i U) i L) (symU n az L i U)
  have hU' := mem_symU n az L i U
  generalize symU n az L i U = U' at hU'
  have hL' := mem_symL n az U' i L
  generalize symL n az U' i L = L' at hL'
  have hUrow : ∀ r c, (r, c) ∈ U → r < i := fun r c hm => ((h.U_iff r c).mp hm).1
  have hLcol : ∀ r c, (r, c) ∈ L → c < i := fun r c hm => ((h.L_iff r c).mp hm).1
  have hUsub : ∀ r c, (r, c) ∈ U → (r, c) ∈ U' := fun r c hm => (hU' r c).mpr (Or.inl hm)
  have hLsub : ∀ r c, (r, c) ∈ L → (r, c) ∈ L' := fun r c hm => (hL' r c).mpr (Or.inl hm)
  have hUold : ∀ j c, j < i → (j, c) ∈ U' → (j, c) ∈ U := by
    intro j c hj hm
    rcases (hU' j c).mp hm with h1 | h1
    · exact h1
    · omega
  have hLold : ∀ r j, j < i → (r, j) ∈ L' → (r, j) ∈ L := by
    intro r j hj hm
    rcases (hL' r j).mp hm with h1 | h1
    · exact h1
    · omega
  constructor
  · intro r c
    rw [hU' r c]
    constructor
    · rintro (hm | ⟨rfl, h1, h2, h3⟩)
      · obtain ⟨g1, g2, g3, g4⟩ := (h.U_iff r c).mp hm
        refine ⟨by omega, g2, g3, ?_⟩
        rcases g4 with g | g | ⟨j, hj, g5, g6⟩
        · exact Or.inl g
        · exact Or.inr (Or.inl g)
        · exact Or.inr (Or.inr ⟨j, hj, hLsub _ _ g5, hUsub _ _ g6⟩)
      · refine ⟨by omega, h1, h2, ?_⟩
        rcases h3 with g | g | ⟨j, hj, g5, g6⟩
        · exact Or.inl g
        · exact Or.inr (Or.inl g)
        · exact Or.inr (Or.inr ⟨j, hj, hLsub _ _ g5, hUsub _ _ g6⟩)
    · rintro ⟨g1, g2, g3, g4⟩
      by_cases hri : r = i
      · subst hri
        right
        refine ⟨rfl, g2, g3, ?_⟩
        rcases g4 with g | g | ⟨j, hj, g5, g6⟩
        · exact Or.inl g
        · exact Or.inr (Or.inl g)
        · exact Or.inr (Or.inr ⟨j, hj, hLold _ _ hj g5, hUold _ _ hj g6⟩)
      · left
        refine (h.U_iff r c).mpr ⟨by omega, g2, g3, ?_⟩
        rcases g4 with g | g | ⟨j, hj, g5, g6⟩
        · exact Or.inl g
        · exact Or.inr (Or.inl g)
        · exact Or.inr (Or.inr ⟨j, hj, hLold _ _ (by omega) g5, hUold _ _ (by omega) g6⟩)
  · intro r c
    rw [hL' r c]
    constructor
    · rintro (hm | ⟨rfl, h1, h2, h3⟩)
      · obtain ⟨g1, g2, g3, g4⟩ := (h.L_iff r c).mp hm
        refine ⟨by omega, g2, g3, ?_⟩
        rcases g4 with g | g | ⟨j, hj, g5, g6⟩
        · exact Or.inl g
        · exact Or.inr (Or.inl g)
        · exact Or.inr (Or.inr ⟨j, hj, hLsub _ _ g5, hUsub _ _ g6⟩)
      · refine ⟨by omega, h1, h2, ?_⟩
        rcases h3 with g | g | ⟨j, hj, g5, g6⟩
        · exact Or.inl g
        · exact Or.inr (Or.inl g)
        · exact Or.inr (Or.inr ⟨j, hj, hLsub _ _ g5, g6⟩)
    · rintro ⟨g1, g2, g3, g4⟩
      by_cases hci : c = i
      · subst hci
        right
        refine ⟨rfl, g2, g3, ?_⟩
        rcases g4 with g | g | ⟨j, hj, g5, g6⟩
        · exact Or.inl g
        · exact Or.inr (Or.inl g)
        · exact Or.inr (Or.inr ⟨j, hj, hLold _ _ hj g5, g6⟩)
      · left
        refine (h.L_iff r c).mpr ⟨by omega, g2, g3, ?_⟩
        rcases g4 with g | g | ⟨j, hj, g5, g6⟩
        · exact Or.inl g
        · exact Or.inr (Or.inl g)
        · exact Or.inr (Or.inr ⟨j, hj, hLold _ _ (by omega) g5, hUold _ _ (by omega) g6⟩)

theorem symInv_foldl (n : Nat) (az : Nat → Nat → Bool) (m : Nat) :
    SymInv n az m ((List.range m).foldl (symStep n az) ([], [])).1
      ((List.range m).foldl (symStep n az) ([], [])).2 := by
  induction m with
  | zero => exact symInv_init n az
  | succ m ih =>
    rw [List.range_succ, List.foldl_append]
    simp only [List.foldl_cons, List.foldl_nil]
    exact symInv_step n az m _ _ ih

/-- `GetLUMatrices` computes exactly the fill closure: membership characterisation -/
theorem doolittleSymbolic_inv (n : Nat) (az : Nat → Nat → Bool) :
    SymInv n az n (doolittleSymbolic n az).1 (doolittleSymbolic n az).2 := by
  rw [doolittleSymbolic_eq]
  exact symInv_foldl n az n

/-! ### from the invariant to the hypotheses of the numeric theorems -/

/-- (H2) on `Bool` matrices: `Closed`, minimality and triangular shapes -/
structure FillClosure (n : Nat) (Ab Lb Ub : Nat → Nat → Bool) : Prop where
  closed : Closed n Ab Lb Ub
  diagL : ∀ i, i < n → Lb i i = true
  lowL : ∀ r c, r < n → c < n → Lb r c = true → c ≤ r
  uppU : ∀ r c, r < n → c < n → Ub r c = true → r ≤ c
  minU : ∀ i k, i < k → k < n → Ub i k = true →
    Ab i k = true ∨ ∃ j, j < i ∧ Lb i j = true ∧ Ub j k = true
  minL : ∀ i k, i < k → k < n → Lb k i = true →
    Ab k i = true ∨ ∃ j, j < i ∧ Lb k j = true ∧ Ub j i = true

theorem fillClosure_of_symInv {n : Nat} {az : Nat → Nat → Bool} {L U : List Pair}
    (h : SymInv n az n L U) (Ab Lb Ub : Nat → Nat → Bool)
    (hA : ∀ r c, r < n → c < n → (Ab r c = true ↔ az r c = false))
    (hLb : ∀ r c, r < n → c < n → (Lb r c = true ↔ (r, c) ∈ L))
    (hUb : ∀ r c, r < n → c < n → (Ub r c = true ↔ (r, c) ∈ U)) :
    FillClosure n Ab Lb Ub where
  closed :=
    { diagU := fun i hi => (hUb i i hi hi).mpr ((h.U_iff i i).mpr ⟨hi, le_refl i, hi, Or.inr (Or.inl rfl)⟩)
      supU := fun r c hrc hc ha => (hUb r c (by omega) hc).mpr
        ((h.U_iff r c).mpr ⟨by omega, hrc, hc, Or.inl ((hA r c (by omega) hc).mp ha)⟩)
      supL := fun r c hcr hr ha => (hLb r c hr (by omega)).mpr
        ((h.L_iff r c).mpr ⟨by omega, by omega, hr, Or.inl ((hA r c hr (by omega)).mp ha)⟩)
      fillU := fun i j k hj hik hk h1 h2 => (hUb i k (by omega) hk).mpr
        ((h.U_iff i k).mpr ⟨by omega, hik, hk, Or.inr (Or.inr ⟨j, hj,
          (hLb i j (by omega) (by omega)).mp h1, (hUb j k (by omega) hk).mp h2⟩)⟩)
      fillL := fun i j k hj hik hk h1 h2 => (hLb k i hk (by omega)).mpr
        ((h.L_iff k i).mpr ⟨by omega, by omega, hk, Or.inr (Or.inr ⟨j, hj,
          (hLb k j hk (by omega)).mp h1, (hUb j i (by omega) (by omega)).mp h2⟩)⟩) }
  diagL := fun i hi => (hLb i i hi hi).mpr ((h.L_iff i i).mpr ⟨hi, le_refl i, hi, Or.inr (Or.inl rfl)⟩)
  lowL := fun r c hr hc hm => ((h.L_iff r c).mp ((hLb r c hr hc).mp hm)).2.1
  uppU := fun r c hr hc hm => ((h.U_iff r c).mp ((hUb r c hr hc).mp hm)).2.1
  minU := by
    intro i k hik hk hm
    obtain ⟨_, _, _, g⟩ := (h.U_iff i k).mp ((hUb i k (by omega) hk).mp hm)
    rcases g with g | g | ⟨j, hj, g1, g2⟩
    · exact Or.inl ((hA i k (by omega) hk).mpr g)
    · omega
    · exact Or.inr ⟨j, hj, (hLb i j (by omega) (by omega)).mpr g1, (hUb j k (by omega) hk).mpr g2⟩
  minL := by
    intro i k hik hk hm
    obtain ⟨_, _, _, g⟩ := (h.L_iff k i).mp ((hLb k i hk (by omega)).mp hm)
    rcases g with g | g | ⟨j, hj, g1, g2⟩
    · exact Or.inl ((hA k i hk (by omega)).mpr g)
    · omega
    · exact Or.inr ⟨j, hj, (hLb k j hk (by omega)).mpr g1, (hUb j i (by omega) (by omega)).mpr g2⟩

/-- `doolittleSymbolic` returns the fill closure, for every input pattern `az` (`az r c = true`
    means "(r,c) is a structural zero of A") -/
theorem doolittleSymbolic_fillClosure (n : Nat) (az : Nat → Nat → Bool) :
    FillClosure n (fun r c => !az r c) (memB (doolittleSymbolic n az).1)
      (memB (doolittleSymbolic n az).2) :=
  fillClosure_of_symInv (doolittleSymbolic_inv n az) _ _ _
    (fun r c _ _ => by simp) (fun r c _ _ => memB_iff _ r c) (fun r c _ _ => memB_iff _ r c)

/-- (H1)+(H2) for patterns whose presence predicates are the sets computed by `doolittleSymbolic`
    from `A`'s pattern (as `LinAlg.build` constructs them) -/
theorem LUSetup_of_symbolic (n : Nat) (A Lp Up : Pattern) (gL : GoodPattern n Lp)
    (gU : GoodPattern n Up)
    (hL : ∀ r c, r < n → c < n →
      (Lp.zero? r c = false ↔ (r, c) ∈ (doolittleSymbolic n (fun r c => A.zero? r c)).1))
    (hU : ∀ r c, r < n → c < n →
      (Up.zero? r c = false ↔ (r, c) ∈ (doolittleSymbolic n (fun r c => A.zero? r c)).2)) :
    LUSetup n A Lp Up := by
  have fc := fillClosure_of_symInv (doolittleSymbolic_inv n (fun r c => A.zero? r c))
    (pres A) (pres Lp) (pres Up) (fun r c _ _ => pres_true A r c)
    (fun r c hr hc => (pres_true Lp r c).trans (hL r c hr hc))
    (fun r c hr hc => (pres_true Up r c).trans (hU r c hr hc))
  exact
    { gL := gL, gU := gU, closed := fc.closed
      diagL := fun i hi => (pres_true _ _ _).mp (fc.diagL i hi)
      lowL := fun r c hr hc hp => fc.lowL r c hr hc ((pres_true _ _ _).mpr hp)
      uppU := fun r c hr hc hp => fc.uppU r c hr hc ((pres_true _ _ _).mpr hp)
      minU := by
        intro i k hik hk hp
        rcases fc.minU i k hik hk ((pres_true _ _ _).mpr hp) with g | ⟨j, hj, g1, g2⟩
        · exact Or.inl ((pres_true _ _ _).mp g)
        · exact Or.inr ⟨j, hj, (pres_true _ _ _).mp g1, (pres_true _ _ _).mp g2⟩
      minL := by
        intro i k hik hk hp
        rcases fc.minL i k hik hk ((pres_true _ _ _).mpr hp) with g | ⟨j, hj, g1, g2⟩
        · exact Or.inl ((pres_true _ _ _).mp g)
        · exact Or.inr ⟨j, hj, (pres_true _ _ _).mp g1, (pres_true _ _ _).mp g2⟩ }

/-! ### `doolittleInPlaceSymbolic` -/

def symIPU (n : Nat) (az : Nat → Nat → Bool) (i : Nat) (S0 : List Pair) : List Pair :=
  (rangeFrom i n).foldl (fun S k =>
    if !az i k || k == i then setInsert (i, k) S
    else if (List.range i).any (fun j => setMem (i, j) S && setMem (j, k) S) then setInsert (i, k) S
    else S) S0

def symIPL (n : Nat) (az : Nat → Nat → Bool) (i : Nat) (S0 : List Pair) : List Pair :=
  (rangeFrom i n).foldl (fun S k =>
    if !az k i || k == i then setInsert (k, i) S
    else if (List.range i).any (fun j => setMem (k, j) S && setMem (j, i) S) then setInsert (k, i) S
    else S) S0

theorem doolittleInPlaceSymbolic_eq (n : Nat) (az : Nat → Nat → Bool) :
    doolittleInPlaceSymbolic n az
      = (List.range n).foldl (fun S i => symIPL n az i (symIPU n az i S)) [] := rfl

theorem mem_symIPU (n : Nat) (az : Nat → Nat → Bool) (i : Nat) (S0 : List Pair) (r c : Nat) :
    (r, c) ∈ symIPU n az i S0 ↔ (r, c) ∈ S0 ∨ (r = i ∧ i ≤ c ∧ c < n ∧
      (az i c = false ∨ c = i ∨ ∃ j, j < i ∧ (i, j) ∈ S0 ∧ (j, c) ∈ S0)) := by
  have e : symIPU n az i S0 = (rangeFrom i n).foldl (fun S k =>
      if (!az i k || k == i || (List.range i).any (fun j => setMem (i, j) S && setMem (j, k) S))
      then setInsert ((fun k => (i, k)) k) S else S) S0 := by
    unfold symIPU
    congr 1
    funext S k
    rw [ite_or]
  rw [e, foldl_cond_insert (rangeFrom i n) (fun k => (i, k))
    (fun S k => !az i k || k == i || (List.range i).any (fun j => setMem (i, j) S && setMem (j, k) S))]
  · constructor
    · rintro (h | ⟨k, hk, hc, hx⟩)
      · exact Or.inl h
      · right
        rw [sym_mem_rangeFrom] at hk
        simp only [Prod.mk.injEq] at hx
        obtain ⟨rfl, rfl⟩ := hx
        refine ⟨rfl, hk.1, hk.2, ?_⟩
        simp only [Bool.or_eq_true, Bool.not_eq_true', beq_iff_eq, List.any_eq_true,
          List.mem_range, Bool.and_eq_true, setMem_iff] at hc
        rcases hc with (h | h) | ⟨j, hj, h1, h2⟩
        · exact Or.inl h
        · exact Or.inr (Or.inl h)
        · exact Or.inr (Or.inr ⟨j, hj, h1, h2⟩)
    · rintro (h | ⟨rfl, h1, h2, h3⟩)
      · exact Or.inl h
      · right
        refine ⟨c, (sym_mem_rangeFrom _ _ _).mpr ⟨h1, h2⟩, ?_, rfl⟩
        simp only [Bool.or_eq_true, Bool.not_eq_true', beq_iff_eq, List.any_eq_true,
          List.mem_range, Bool.and_eq_true, setMem_iff]
        rcases h3 with h | h | ⟨j, hj, h4, h5⟩
        · exact Or.inl (Or.inl h)
        · exact Or.inl (Or.inr h)
        · exact Or.inr ⟨j, hj, h4, h5⟩
  · intro S k _ hS
    congr 1
    apply any_congr'
    intro j hj
    have hj' := List.mem_range.mp hj
    congr 1
    · apply setMem_congr
      apply hS
      intro k' hk' heq
      rw [sym_mem_rangeFrom] at hk'
      simp only [Prod.mk.injEq] at heq
      omega
    · apply setMem_congr
      apply hS
      intro k' _ heq
      simp only [Prod.mk.injEq] at heq
      omega

theorem mem_symIPL (n : Nat) (az : Nat → Nat → Bool) (i : Nat) (S0 : List Pair) (r c : Nat) :
    (r, c) ∈ symIPL n az i S0 ↔ (r, c) ∈ S0 ∨ (c = i ∧ i ≤ r ∧ r < n ∧
      (az r i = false ∨ r = i ∨ ∃ j, j < i ∧ (r, j) ∈ S0 ∧ (j, i) ∈ S0)) := by
  have e : symIPL n az i S0 = (rangeFrom i n).foldl (fun S k =>
      if (!az k i || k == i || (List.range i).any (fun j => setMem (k, j) S && setMem (j, i) S))
      then setInsert ((fun k => (k, i)) k) S else S) S0 := by
    unfold symIPL
    congr 1
    funext S k
    rw [ite_or]
  rw [e, foldl_cond_insert (rangeFrom i n) (fun k => (k, i))
    (fun S k => !az k i || k == i || (List.range i).any (fun j => setMem (k, j) S && setMem (j, i) S))]
  · constructor
    · rintro (h | ⟨k, hk, hc, hx⟩)
      · exact Or.inl h
      · right
        rw [sym_mem_rangeFrom] at hk
        simp only [Prod.mk.injEq] at hx
        obtain ⟨rfl, rfl⟩ := hx
        refine ⟨rfl, hk.1, hk.2, ?_⟩
        simp only [Bool.or_eq_true, Bool.not_eq_true', beq_iff_eq, List.any_eq_true,
          List.mem_range, Bool.and_eq_true, setMem_iff] at hc
        rcases hc with (h | h) | ⟨j, hj, h1, h2⟩
        · exact Or.inl h
        · exact Or.inr (Or.inl h)
        · exact Or.inr (Or.inr ⟨j, hj, h1, h2⟩)
    · rintro (h | ⟨rfl, h1, h2, h3⟩)
      · exact Or.inl h
      · right
        refine ⟨r, (sym_mem_rangeFrom _ _ _).mpr ⟨h1, h2⟩, ?_, rfl⟩
        simp only [Bool.or_eq_true, Bool.not_eq_true', beq_iff_eq, List.any_eq_true,
          List.mem_range, Bool.and_eq_true, setMem_iff]
        rcases h3 with h | h | ⟨j, hj, h4, h5⟩
        · exact Or.inl (Or.inl h)
        · exact Or.inl (Or.inr h)
        · exact Or.inr ⟨j, hj, h4, h5⟩
  · intro S k _ hS
    congr 1
    apply any_congr'
    intro j hj
    have hj' := List.mem_range.mp hj
    congr 1
    · apply setMem_congr
      apply hS
      intro k' _ heq
      simp only [Prod.mk.injEq] at heq
      omega
    · apply setMem_congr
      apply hS
      intro k' hk' heq
      rw [sym_mem_rangeFrom] at hk'
      simp only [Prod.mk.injEq] at heq
      omega

/-- after `i` stages: the fill closure restricted to the elements with `min r c < i` -/
def SymIPInv (n : Nat) (az : Nat → Nat → Bool) (i : Nat) (S : List Pair) : Prop :=
  ∀ r c, (r, c) ∈ S ↔ (r < i ∨ c < i) ∧ r < n ∧ c < n ∧
    (az r c = false ∨ r = c ∨ ∃ j, j < r ∧ j < c ∧ (r, j) ∈ S ∧ (j, c) ∈ S)

theorem symIPInv_step (n : Nat) (az : Nat → Nat → Bool) (i : Nat) (S : List Pair)
    (h : SymIPInv n az i S) : SymIPInv n az (i + 1) (symIPL n az i (symIPU n az i S)) := by
  have h1 := mem_symIPU n az i S
  generalize symIPU n az i S = S1 at h1
  have h2 := mem_symIPL n az i S1
  generalize symIPL n az i S1 = S2 at h2
  have sub1 : ∀ r c, (r, c) ∈ S → (r, c) ∈ S1 := fun r c hm => (h1 r c).mpr (Or.inl hm)
  have sub2 : ∀ r c, (r, c) ∈ S1 → (r, c) ∈ S2 := fun r c hm => (h2 r c).mpr (Or.inl hm)
  have old : ∀ r c, (r < i ∨ c < i) → (r, c) ∈ S2 → (r, c) ∈ S := by
    intro r c hlt hm
    rcases (h2 r c).mp hm with g | g
    · rcases (h1 r c).mp g with g' | g'
      · exact g'
      · omega
    · omega
  intro r c
  constructor
  · intro hm
    rcases (h2 r c).mp hm with g | ⟨rfl, g1, g2, g3⟩
    · rcases (h1 r c).mp g with g' | ⟨rfl, g1, g2, g3⟩
      · obtain ⟨k1, k2, k3, k4⟩ := (h r c).mp g'
        refine ⟨by omega, k2, k3, ?_⟩
        rcases k4 with k | k | ⟨j, j1, j2, j3, j4⟩
        · exact Or.inl k
        · exact Or.inr (Or.inl k)
        · exact Or.inr (Or.inr ⟨j, j1, j2, sub2 _ _ (sub1 _ _ j3), sub2 _ _ (sub1 _ _ j4)⟩)
      · refine ⟨by omega, by omega, g2, ?_⟩
        rcases g3 with k | k | ⟨j, j1, j3, j4⟩
        · exact Or.inl k
        · exact Or.inr (Or.inl k.symm)
        · exact Or.inr (Or.inr ⟨j, j1, by omega, sub2 _ _ (sub1 _ _ j3), sub2 _ _ (sub1 _ _ j4)⟩)
    · refine ⟨by omega, g2, by omega, ?_⟩
      rcases g3 with k | k | ⟨j, j1, j3, j4⟩
      · exact Or.inl k
      · exact Or.inr (Or.inl k)
      · exact Or.inr (Or.inr ⟨j, by omega, j1, sub2 _ _ j3, sub2 _ _ j4⟩)
  · rintro ⟨g1, g2, g3, g4⟩
    by_cases hold : r < i ∨ c < i
    · apply sub2; apply sub1
      refine (h r c).mpr ⟨hold, g2, g3, ?_⟩
      rcases g4 with k | k | ⟨j, j1, j2, j3, j4⟩
      · exact Or.inl k
      · exact Or.inr (Or.inl k)
      · exact Or.inr (Or.inr ⟨j, j1, j2, old _ _ (by omega) j3, old _ _ (by omega) j4⟩)
    · by_cases hri : r = i
      · subst hri
        apply sub2
        refine (h1 r c).mpr (Or.inr ⟨rfl, by omega, g3, ?_⟩)
        rcases g4 with k | k | ⟨j, j1, j2, j3, j4⟩
        · exact Or.inl k
        · exact Or.inr (Or.inl k.symm)
        · exact Or.inr (Or.inr ⟨j, j1, old _ _ (by omega) j3, old _ _ (by omega) j4⟩)
      · have hci : c = i := by omega
        subst hci
        refine (h2 r c).mpr (Or.inr ⟨rfl, by omega, g2, ?_⟩)
        rcases g4 with k | k | ⟨j, j1, j2, j3, j4⟩
        · exact Or.inl k
        · exact Or.inr (Or.inl k)
        · exact Or.inr (Or.inr ⟨j, j2, sub1 _ _ (old _ _ (by omega) j3),
            sub1 _ _ (old _ _ (by omega) j4)⟩)

theorem doolittleInPlaceSymbolic_inv (n : Nat) (az : Nat → Nat → Bool) :
    SymIPInv n az n (doolittleInPlaceSymbolic n az) := by
  rw [doolittleInPlaceSymbolic_eq]
  suffices ∀ m, SymIPInv n az m
      ((List.range m).foldl (fun S i => symIPL n az i (symIPU n az i S)) []) from this n
  intro m
  induction m with
  | zero => intro r c; simp
  | succ m ih =>
    rw [List.range_succ, List.foldl_append]
    simp only [List.foldl_cons, List.foldl_nil]
    exact symIPInv_step n az m _ ih

/-- (H1)+(H2) for the in-place pattern computed by `doolittleInPlaceSymbolic` -/
theorem IPSetup_of_symbolic (n : Nat) (az : Nat → Nat → Bool) (P : Pattern) (g : GoodPattern n P)
    (hP : ∀ r c, r < n → c < n →
      (P.zero? r c = false ↔ (r, c) ∈ doolittleInPlaceSymbolic n az)) : IPSetup n P := by
  have hinv := doolittleInPlaceSymbolic_inv n az
  refine ⟨g, ?_, ?_⟩
  · intro i hi
    exact (hP i i hi hi).mpr ((hinv i i).mpr ⟨Or.inl hi, hi, hi, Or.inr (Or.inl rfl)⟩)
  · intro r c j hr hc hjr hjc h1 h2
    exact (hP r c hr hc).mpr ((hinv r c).mpr ⟨Or.inl hr, hr, hc, Or.inr (Or.inr ⟨j, hjr, hjc,
      (hP r j hr (by omega)).mp h1, (hP j c (by omega) hc).mp h2⟩)⟩)

/-- the in-place pattern contains the support of the input pattern -/
theorem doolittleInPlaceSymbolic_support (n : Nat) (az : Nat → Nat → Bool) (r c : Nat)
    (hr : r < n) (hc : c < n) (h : az r c = false) : (r, c) ∈ doolittleInPlaceSymbolic n az :=
  (doolittleInPlaceSymbolic_inv n az r c).mpr ⟨by omega, hr, hc, Or.inl h⟩

end Micm
