import Micm.Lemmas.LUCell

/-!
C03, symbolic side: `doolittleSymbolic n az` (the mirror of `GetLUMatrices`) returns exactly the
fill closure of the pattern `az`: `SparseLU.Closed`, the minimality conditions and the triangular
shapes that `LUSetup` asks for; likewise `doolittleInPlaceSymbolic` and `IPSetup`.
-/
namespace Micm
open SparseLU (Closed)

/-! ### sets as lists -/

theorem sym_mem_setInsert (a x : Pair) (l : List Pair) : x ∈ setInsert a l ↔ x = a ∨ x ∈ l := by
  induction l with
  | nil => simp [setInsert]
  | cons b l ih =>
    unfold setInsert
    by_cases h1 : pairLt a b = true
    · simp [h1]
    · simp only [h1]
      by_cases h2 : (a == b) = true
      · have : a = b := by simpa using h2
        subst this
        simp
      · simp only [h2, Bool.false_eq_true, if_false, List.mem_cons, ih]
        constructor
        · rintro (h | h | h) <;> simp [h]
        · rintro (h | h | h) <;> simp [h]

/-- membership of `(r,c)` in a set, as a `Bool` matrix -/
def memB (s : List Pair) (r c : Nat) : Bool := setMem (r, c) s

theorem memB_iff (s : List Pair) (r c : Nat) : memB s r c = true ↔ (r, c) ∈ s := by
  simp [memB, setMem]

theorem setMem_iff (s : List Pair) (x : Pair) : setMem x s = true ↔ x ∈ s := by
  simp [setMem]

theorem setMem_congr (s s' : List Pair) (x : Pair) (h : x ∈ s ↔ x ∈ s') : setMem x s = setMem x s' := by
  cases h1 : setMem x s <;> cases h2 : setMem x s' <;> simp_all [setMem]

/-- a fold of conditional insertions whose conditions do not look at the inserted positions -/
theorem foldl_cond_insert_aux (all : List Nat) (pos : Nat → Pair) (cond : List Pair → Nat → Bool)
    (S0 : List Pair)
    (hcond : ∀ S k, k ∈ all → (∀ x, (∀ k', k' ∈ all → x ≠ pos k') → (x ∈ S ↔ x ∈ S0)) →
      cond S k = cond S0 k)
    (l : List Nat) (hl : ∀ k, k ∈ l → k ∈ all) (S : List Pair)
    (hS : ∀ x, (∀ k', k' ∈ all → x ≠ pos k') → (x ∈ S ↔ x ∈ S0)) (x : Pair) :
    x ∈ l.foldl (fun S k => if cond S k then setInsert (pos k) S else S) S ↔
      x ∈ S ∨ ∃ k, k ∈ l ∧ cond S0 k = true ∧ x = pos k := by
  induction l generalizing S with
  | nil => simp
  | cons k l ih =>
    have hk : k ∈ all := hl k List.mem_cons_self
    have hc := hcond S k hk hS
    simp only [List.foldl_cons, hc]
    cases hb : cond S0 k
    · simp only [Bool.false_eq_true, if_false]
      rw [ih (fun k' h => hl k' (List.mem_cons_of_mem _ h)) S hS]
      constructor
      · rintro (h | ⟨k', h1, h2, h3⟩)
        · exact Or.inl h
        · exact Or.inr ⟨k', List.mem_cons_of_mem _ h1, h2, h3⟩
      · rintro (h | ⟨k', h1, h2, h3⟩)
        · exact Or.inl h
        · rcases List.mem_cons.mp h1 with h | h
          · subst h; rw [hb] at h2; cases h2
          · exact Or.inr ⟨k', h, h2, h3⟩
    · simp only [if_true]
      rw [ih (fun k' h => hl k' (List.mem_cons_of_mem _ h)) (setInsert (pos k) S)
        (by
          intro y hy
          rw [sym_mem_setInsert]
          constructor
          · rintro (h | h)
            · exact absurd h (hy k hk)
            · exact (hS y hy).mp h
          · intro h; exact Or.inr ((hS y hy).mpr h))]
      rw [sym_mem_setInsert]
      constructor
      · rintro ((h | h) | ⟨k', h1, h2, h3⟩)
        · exact Or.inr ⟨k, List.mem_cons_self, hb, h⟩
        · exact Or.inl h
        · exact Or.inr ⟨k', List.mem_cons_of_mem _ h1, h2, h3⟩
      · rintro (h | ⟨k', h1, h2, h3⟩)
        · exact Or.inl (Or.inr h)
        · rcases List.mem_cons.mp h1 with h | h
          · subst h; exact Or.inl (Or.inl h3)
          · exact Or.inr ⟨k', h, h2, h3⟩

theorem foldl_cond_insert (ks : List Nat) (pos : Nat → Pair) (cond : List Pair → Nat → Bool)
    (S0 : List Pair)
    (hcond : ∀ S k, k ∈ ks → (∀ x, (∀ k', k' ∈ ks → x ≠ pos k') → (x ∈ S ↔ x ∈ S0)) →
      cond S k = cond S0 k) (x : Pair) :
    x ∈ ks.foldl (fun S k => if cond S k then setInsert (pos k) S else S) S0 ↔
      x ∈ S0 ∨ ∃ k, k ∈ ks ∧ cond S0 k = true ∧ x = pos k :=
  foldl_cond_insert_aux ks pos cond S0 hcond ks (fun _ h => h) S0 (fun _ _ => Iff.rfl) x

theorem any_congr' {α : Type} (l : List α) (p q : α → Bool) (h : ∀ a, a ∈ l → p a = q a) :
    l.any p = l.any q := by
  induction l with
  | nil => rfl
  | cons a l ih =>
    simp only [List.any_cons, h a List.mem_cons_self,
      ih (fun b hb => h b (List.mem_cons_of_mem _ hb))]

theorem ite_or {α : Type} (a b : Bool) (X Y : α) :
    (if a then X else if b then X else Y) = (if (a || b) then X else Y) := by
  cases a <;> cases b <;> rfl

theorem mem_rangeFrom (a b k : Nat) : k ∈ rangeFrom a b ↔ a ≤ k ∧ k < b := by
  unfold rangeFrom
  rw [List.mem_range'_1]
  omega

/-! ### one stage of `doolittleSymbolic` -/

def symU (n : Nat) (az : Nat → Nat → Bool) (L : List Pair) (i : Nat) (U0 : List Pair) : List Pair :=
  (rangeFrom i n).foldl (fun U k =>
    if !az i k || k == i then setInsert (i, k) U
    else if (List.range i).any (fun j => setMem (i, j) L && setMem (j, k) U) then setInsert (i, k) U
    else U) U0

def symL (n : Nat) (az : Nat → Nat → Bool) (U : List Pair) (i : Nat) (L0 : List Pair) : List Pair :=
  (rangeFrom i n).foldl (fun L k =>
    if !az k i || k == i then setInsert (k, i) L
    else if (List.range i).any (fun j => setMem (k, j) L && setMem (j, i) U) then setInsert (k, i) L
    else L) L0

def symStep (n : Nat) (az : Nat → Nat → Bool) (LU : List Pair × List Pair) (i : Nat) :
    List Pair × List Pair :=
  (symL n az (symU n az LU.1 i LU.2) i LU.1, symU n az LU.1 i LU.2)

theorem doolittleSymbolic_eq (n : Nat) (az : Nat → Nat → Bool) :
    doolittleSymbolic n az = (List.range n).foldl (symStep n az) ([], []) := rfl

theorem mem_symU (n : Nat) (az : Nat → Nat → Bool) (L : List Pair) (i : Nat) (U0 : List Pair)
    (r c : Nat) :
    (r, c) ∈ symU n az L i U0 ↔ (r, c) ∈ U0 ∨ (r = i ∧ i ≤ c ∧ c < n ∧
      (az i c = false ∨ c = i ∨ ∃ j, j < i ∧ (i, j) ∈ L ∧ (j, c) ∈ U0)) := by
  have e : symU n az L i U0 = (rangeFrom i n).foldl (fun U k =>
      if (!az i k || k == i || (List.range i).any (fun j => setMem (i, j) L && setMem (j, k) U))
      then setInsert ((fun k => (i, k)) k) U else U) U0 := by
    unfold symU
    congr 1
    funext U k
    rw [ite_or]
  rw [e, foldl_cond_insert (rangeFrom i n) (fun k => (i, k))
    (fun U k => !az i k || k == i || (List.range i).any (fun j => setMem (i, j) L && setMem (j, k) U))]
  · constructor
    · rintro (h | ⟨k, hk, hc, hx⟩)
      · exact Or.inl h
      · right
        rw [mem_rangeFrom] at hk
        simp only [Prod.mk.injEq] at hx
        obtain ⟨rfl, rfl⟩ := hx
        refine ⟨rfl, hk.1, hk.2, ?_⟩
        simp only [Bool.or_eq_true, Bool.not_eq_true', beq_iff_eq, List.any_eq_true,
          List.mem_range, Bool.and_eq_true, setMem_iff] at hc
        rcases hc with (h | h) | ⟨j, hj, h1, h2⟩
        · exact Or.inl h
        · exact Or.inr (Or.inl h)
        · exact Or.inr (Or.inr ⟨j, hj, h1, h2⟩)
    · rintro (h | ⟨rfl, h1, h2, h3⟩)
      · exact Or.inl h
      · right
        refine ⟨c, (mem_rangeFrom _ _ _).mpr ⟨h1, h2⟩, ?_, rfl⟩
        simp only [Bool.or_eq_true, Bool.not_eq_true', beq_iff_eq, List.any_eq_true,
          List.mem_range, Bool.and_eq_true, setMem_iff]
        rcases h3 with h | h | ⟨j, hj, h4, h5⟩
        · exact Or.inl (Or.inl h)
        · exact Or.inl (Or.inr h)
        · exact Or.inr ⟨j, hj, h4, h5⟩
  · intro S k _ hS
    congr 1
    apply any_congr'
    intro j hj
    have hj' := List.mem_range.mp hj
    congr 1
    apply setMem_congr
    apply hS
    intro k' _ heq
    simp only [Prod.mk.injEq] at heq
    omega

theorem mem_symL (n : Nat) (az : Nat → Nat → Bool) (U : List Pair) (i : Nat) (L0 : List Pair)
    (r c : Nat) :
    (r, c) ∈ symL n az U i L0 ↔ (r, c) ∈ L0 ∨ (c = i ∧ i ≤ r ∧ r < n ∧
      (az r i = false ∨ r = i ∨ ∃ j, j < i ∧ (r, j) ∈ L0 ∧ (j, i) ∈ U)) := by
  have e : symL n az U i L0 = (rangeFrom i n).foldl (fun L k =>
      if (!az k i || k == i || (List.range i).any (fun j => setMem (k, j) L && setMem (j, i) U))
      then setInsert ((fun k => (k, i)) k) L else L) L0 := by
    unfold symL
    congr 1
    funext L k
    rw [ite_or]
  rw [e, foldl_cond_insert (rangeFrom i n) (fun k => (k, i))
    (fun L k => !az k i || k == i || (List.range i).any (fun j => setMem (k, j) L && setMem (j, i) U))]
  · constructor
    · rintro (h | ⟨k, hk, hc, hx⟩)
      · exact Or.inl h
      · right
        rw [mem_rangeFrom] at hk
        simp only [Prod.mk.injEq] at hx
        obtain ⟨rfl, rfl⟩ := hx
        refine ⟨rfl, hk.1, hk.2, ?_⟩
        simp only [Bool.or_eq_true, Bool.not_eq_true', beq_iff_eq, List.any_eq_true,
          List.mem_range, Bool.and_eq_true, setMem_iff] at hc
        rcases hc with (h | h) | ⟨j, hj, h1, h2⟩
        · exact Or.inl h
        · exact Or.inr (Or.inl h)
        · exact Or.inr (Or.inr ⟨j, hj, h1, h2⟩)
    · rintro (h | ⟨rfl, h1, h2, h3⟩)
      · exact Or.inl h
      · right
        refine ⟨r, (mem_rangeFrom _ _ _).mpr ⟨h1, h2⟩, ?_, rfl⟩
        simp only [Bool.or_eq_true, Bool.not_eq_true', beq_iff_eq, List.any_eq_true,
          List.mem_range, Bool.and_eq_true, setMem_iff]
        rcases h3 with h | h | ⟨j, hj, h4, h5⟩
        · exact Or.inl (Or.inl h)
        · exact Or.inl (Or.inr h)
        · exact Or.inr ⟨j, hj, h4, h5⟩
  · intro S k _ hS
    congr 1
    apply any_congr'
    intro j hj
    have hj' := List.mem_range.mp hj
    congr 1
    apply setMem_congr
    apply hS
    intro k' _ heq
    simp only [Prod.mk.injEq] at heq
    omega

end Micm
