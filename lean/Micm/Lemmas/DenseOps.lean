/-
Lemmas for C19 (whole-matrix operations on the dense containers): read-modify-write folds over
duplicate-free address lists, `Axpy`/`ForEach` as such a fold over `visitSlots`, row
extraction / assignment with the `min(L, remaining)` stepping, construction from nested vectors.
Core Lean only.
-/
import Micm.Lemmas.SparseIndex
namespace Micm

section
variable {α : Type} [OfNat α 0]

/-! ### basic reads -/

theorem rd_of_ge (a : Array α) {i : Nat} (h : a.size ≤ i) : rd a i = 0 := by
  simp [rd, Array.getD_eq_getD_getElem?, Array.getElem?_eq_none h]

theorem rd_map (g : α → α) (a : Array α) {i : Nat} (h : i < a.size) : rd (a.map g) i = g (rd a i) := by
  simp [rd, Array.getD_eq_getD_getElem?, h]

theorem rd_mapIdx (g : Nat → α → α) (a : Array α) {i : Nat} (h : i < a.size) :
    rd (a.mapIdx g) i = g i (rd a i) := by
  simp [rd, Array.getD_eq_getD_getElem?, h]

theorem rd_replicate (n i : Nat) : rd (Array.replicate n (0 : α)) i = 0 := by
  simp only [rd, Array.getD_eq_getD_getElem?, Array.getElem?_replicate]
  split <;> rfl

/-! ### read-modify-write over a duplicate-free address list -/

theorem foldl_rmw_size (h : Nat → α → α) (as : List Nat) (d : Array α) :
    (as.foldl (fun d a => wr d a (h a (rd d a))) d).size = d.size := by
  induction as generalizing d with
  | nil => rfl
  | cons a as ih => simp only [List.foldl_cons, ih, wr_size]

/-- every listed in-range slot is updated exactly once from its old value, all others are kept -/
theorem foldl_rmw_rd (h : Nat → α → α) (as : List Nat) (d : Array α) (hnd : as.Nodup) (j : Nat) :
    rd (as.foldl (fun d a => wr d a (h a (rd d a))) d) j
      = if j ∈ as ∧ j < d.size then h j (rd d j) else rd d j := by
  induction as generalizing d with
  | nil => simp
  | cons a as ih =>
    obtain ⟨hna, hnd'⟩ := List.nodup_cons.mp hnd
    simp only [List.foldl_cons]
    rw [ih _ hnd', wr_size, rd_wr]
    by_cases hja : a = j
    · subst hja
      by_cases hs : a < d.size
      · simp [hna, hs]
      · simp [hna, hs]
    · have hja' : ¬ j = a := fun h => hja h.symm
      simp only [hja, false_and, if_false, List.mem_cons, hja', false_or]

/-! ### `Axpy` / `ForEach`: one generic form -/

/-- apply `h slot old` at every visited slot: linear `mapIdx` for the row-major matrix, the
    two-part loop over `visitSlots` for the grouped one -/
def visitApply (s : DenseShape) (h : Nat → α → α) (t : Array α) : Array α :=
  if s.L = 0 then t.mapIdx fun i ti => h i ti
  else (visitSlots s).foldl (fun t k => wr t k (h k (rd t k))) t

theorem forEach2Flat_eq (s : DenseShape) (f : α → α → α) (t a : Array α) :
    forEach2Flat s f t a = visitApply s (fun k ti => f ti (rd a k)) t := by
  unfold forEach2Flat visitApply visitSlots
  by_cases hL : s.L = 0
  · simp only [hL, if_true]
  · simp only [hL, if_false, List.foldl_append, List.foldl_flatMap, List.foldl_map]

theorem foldl_keep {β γ : Type} (l : List β) (t : γ) : l.foldl (fun t _ => t) t = t := by
  induction l with
  | nil => rfl
  | cons _ l ih => simpa using ih

theorem forEach3Flat_eq (s : DenseShape) (f : α → α → α → α) (t a b : Array α) :
    forEach3Flat s f t a b = visitApply s (fun k ti => f ti (rd a k) (rd b k)) t := by
  unfold forEach3Flat visitApply visitSlots
  by_cases hL : s.L = 0
  · simp only [hL, if_true]
  · simp only [hL, if_false, List.foldl_append, List.foldl_flatMap, List.foldl_map]
    by_cases hm : s.rows % s.L > 0
    · simp only [hm, if_true]
    · have : s.rows % s.L = 0 := by omega
      simp only [this, Nat.lt_irrefl, if_false, List.range_zero, List.foldl_nil]
      exact (foldl_keep _ _).symm

theorem axpyFlat_eq [Add α] [Mul α] (s : DenseShape) (alpha : α) (x y : Array α) :
    axpyFlat s alpha x y = visitApply s (fun k yi => yi + alpha * rd x k) y := by
  unfold axpyFlat visitApply visitSlots
  by_cases hL : s.L = 0
  · simp only [hL, if_true]
  · simp only [hL, if_false, List.foldl_append, List.foldl_flatMap, List.foldl_map]

theorem visitApply_size (s : DenseShape) (h : Nat → α → α) (t : Array α) :
    (visitApply s h t).size = t.size := by
  unfold visitApply
  split
  · simp
  · exact foldl_rmw_size h _ t

theorem mem_visitSlots_lt (s : DenseShape) {j : Nat} (hj : j ∈ visitSlots s) : j < s.size := by
  obtain ⟨x, y, hx, hy, rfl⟩ := visitSlots_mem_addr s hj
  exact dense_addr_lt s hx hy

/-- the pointwise description: exactly the visited slots change, each from its own old value -/
theorem visitApply_rd (s : DenseShape) (h : Nat → α → α) (t : Array α) (ht : t.size = s.size) (j : Nat) :
    rd (visitApply s h t) j = if j ∈ visitSlots s then h j (rd t j) else rd t j := by
  unfold visitApply
  by_cases hL : s.L = 0
  · simp only [hL, if_true]
    have hsz : s.size = s.rows * s.cols := by simp [DenseShape.size, hL]
    have hv : visitSlots s = List.range (s.rows * s.cols) := by simp [visitSlots, hL]
    have hm : j ∈ visitSlots s ↔ j < t.size := by rw [hv, List.mem_range, ← hsz, ← ht]
    by_cases hj : j < t.size
    · rw [if_pos (hm.mpr hj), rd_mapIdx _ _ hj]
    · rw [if_neg (fun h' => hj (hm.mp h')), rd_of_ge _ (by simpa using Nat.le_of_not_lt hj),
        rd_of_ge _ (Nat.le_of_not_lt hj)]
  · simp only [hL, if_false]
    rw [foldl_rmw_rd h _ t (visitSlots_nodup s)]
    by_cases hj : j ∈ visitSlots s
    · have := mem_visitSlots_lt s hj
      simp [hj, ht, this]
    · simp [hj]

/-- at a logical element -/
theorem visitApply_addr (s : DenseShape) (h : Nat → α → α) (t : Array α) (ht : t.size = s.size)
    {x y : Nat} (hx : x < s.rows) (hy : y < s.cols) :
    rd (visitApply s h t) (s.addr x y) = h (s.addr x y) (rd t (s.addr x y)) := by
  rw [visitApply_rd s h t ht, if_pos (addr_mem_visitSlots s hx hy)]

/-- at a slot that is no logical element's address (padding lanes, out of range) -/
theorem visitApply_frame (s : DenseShape) (h : Nat → α → α) (t : Array α) (ht : t.size = s.size)
    {j : Nat} (hj : ∀ x y, x < s.rows → y < s.cols → s.addr x y ≠ j) :
    rd (visitApply s h t) j = rd t j := by
  rw [visitApply_rd s h t ht, if_neg]
  intro hm
  obtain ⟨x, y, hx, hy, he⟩ := visitSlots_mem_addr s hm
  exact hj x y hx hy he

end
end Micm
