import Micm.Lemmas.ConfigIndepLoop

/-!
C12, "reordered or unreordered state", kernels: a relabelling `σ` of the species (a permutation of
`0 … n−1`) acts on the logical dense data by `x'[σ v] = x[v]`.

* `IsRelabel σ n`: `σ` is injective on `ℕ` and maps `0 … n−1` onto itself;
* `PermRow σ n x x'`, `PermMat σ nCells n X X'`: the relabelled copies of a row, of a dense matrix
  (shapes included);
* the `Axpy` folds, the forcing, `Factor; Solve`, the stage loop and the error norm are equivariant.
-/
open Finset
namespace Micm
set_option linter.unusedSectionVars false
variable {K : Type} [Field K]

/-- `σ` relabels the species `0 … n−1`: injective, and `σ i < n ↔ i < n` -/
structure IsRelabel (σ : Nat → Nat) (n : Nat) : Prop where
  inj : Function.Injective σ
  lt_iff : ∀ i, σ i < n ↔ i < n

theorem IsRelabel.injOn {σ : Nat → Nat} {n : Nat} (h : IsRelabel σ n) :
    ∀ i, i < n → ∀ j, j < n → σ i = σ j → i = j := fun _ _ _ _ e => h.inj e

theorem IsRelabel.lt {σ : Nat → Nat} {n : Nat} (h : IsRelabel σ n) : ∀ i, i < n → σ i < n :=
  fun i hi => (h.lt_iff i).mpr hi

/-- every index below `n` is hit -/
theorem IsRelabel.surj {σ : Nat → Nat} {n : Nat} (h : IsRelabel σ n) (j : Nat) (hj : j < n) :
    ∃ i, i < n ∧ σ i = j := by
  have := image_perm_range σ n h.injOn h.lt
  have hj' : j ∈ (range n).image σ := by rw [this]; exact mem_range.mpr hj
  obtain ⟨i, hi, e⟩ := Finset.mem_image.mp hj'
  exact ⟨i, mem_range.mp hi, e⟩

theorem IsRelabel.perm_range {σ : Nat → Nat} {n : Nat} (h : IsRelabel σ n) :
    ((List.range n).map σ).Perm (List.range n) := by
  rw [List.perm_ext_iff_of_nodup (List.nodup_range.map h.inj) List.nodup_range]
  intro a
  simp only [List.mem_map, List.mem_range]
  constructor
  · rintro ⟨i, hi, rfl⟩; exact h.lt i hi
  · intro ha; exact h.surj a ha

theorem rd_of_size_le (x : Array K) (i : Nat) (h : x.size ≤ i) : rd x i = 0 := by
  simp [rd, Array.getD, Nat.not_lt.mpr h]

/-! ### relabelled rows and matrices -/

/-- `x'` is the relabelled copy of the row `x` (both of length `n`) -/
def PermRow (σ : Nat → Nat) (n : Nat) (x x' : Array K) : Prop :=
  x.size = n ∧ x'.size = n ∧ ∀ v, v < n → rd x' (σ v) = rd x v

/-- `X'` is the relabelled copy of the dense matrix `X` (`nCells` rows of `n` entries) -/
def PermMat (σ : Nat → Nat) (nCells n : Nat) (X X' : Mat K) : Prop :=
  X.size = nCells ∧ X'.size = nCells ∧ ∀ c, c < nCells → PermRow σ n (X.getD c #[]) (X'.getD c #[])

section
variable {σ : Nat → Nat} {nCells n : Nat}

theorem PermRow.all (hσ : IsRelabel σ n) {x x' : Array K} (h : PermRow σ n x x') :
    ∀ j, rd x' (σ j) = rd x j := by
  intro j
  by_cases hj : j < n
  · exact h.2.2 j hj
  · rw [rd_of_size_le x j (by rw [h.1]; omega),
      rd_of_size_le x' (σ j) (by rw [h.2.1]; have := (hσ.lt_iff j).not.mpr hj; omega)]

theorem PermMat.left {X X' : Mat K} (h : PermMat σ nCells n X X') : MatShape nCells n X :=
  ⟨h.1, fun c hc => (h.2.2 c hc).1⟩

theorem PermMat.right {X X' : Mat K} (h : PermMat σ nCells n X X') : MatShape nCells n X' :=
  ⟨h.2.1, fun c hc => (h.2.2 c hc).2.1⟩

theorem PermMat.rd {X X' : Mat K} (h : PermMat σ nCells n X X') (c v : Nat) (hc : c < nCells)
    (hv : v < n) : Micm.rd (X'.getD c #[]) (σ v) = Micm.rd (X.getD c #[]) v := (h.2.2 c hc).2.2 v hv

theorem PermMat.mk' {X X' : Mat K} (h : MatShape nCells n X) (h' : MatShape nCells n X')
    (e : ∀ c, c < nCells → ∀ v, v < n → Micm.rd (X'.getD c #[]) (σ v) = Micm.rd (X.getD c #[]) v) :
    PermMat σ nCells n X X' :=
  ⟨h.1, h'.1, fun c hc => ⟨h.2 c hc, h'.2 c hc, e c hc⟩⟩

/-! ### `Axpy` -/

theorem PermMat.axpyM (hσ : IsRelabel σ n) {X X' Y Y' : Mat K} (a : K)
    (hX : PermMat σ nCells n X X') (hY : PermMat σ nCells n Y Y') :
    PermMat σ nCells n (Micm.axpyM a X Y) (Micm.axpyM a X' Y') := by
  refine PermMat.mk' (hY.left.axpyM a X) (hY.right.axpyM a X') (fun c hc v hv => ?_)
  rw [axpyM_getD _ _ _ _ (by rw [hY.2.1]; exact hc), axpyM_getD _ _ _ _ (by rw [hY.1]; exact hc),
    rd_axpyRow _ _ _ _ (by rw [(hY.2.2 c hc).2.1]; exact hσ.lt v hv),
    rd_axpyRow _ _ _ _ (by rw [(hY.2.2 c hc).1]; exact hv), hY.rd c v hc hv, hX.rd c v hc hv]

theorem PermMat.axpy_fold (hσ : IsRelabel σ n) (coef : Nat → K) (X X' : Nat → Mat K) (l : List Nat)
    (hX : ∀ j ∈ l, PermMat σ nCells n (X j) (X' j)) {F F' : Mat K} (hF : PermMat σ nCells n F F') :
    PermMat σ nCells n (l.foldl (fun ks j => Micm.axpyM (coef j) (X j) ks) F)
      (l.foldl (fun ks j => Micm.axpyM (coef j) (X' j) ks) F') := by
  induction l generalizing F F' with
  | nil => exact hF
  | cons j l ih =>
    exact ih (fun i hi => hX i (List.mem_cons_of_mem _ hi))
      ((hX j List.mem_cons_self).axpyM hσ (coef j) hF)

theorem PermMat.fillM_zero {M M' : Mat K} (h : MatShape nCells n M) (h' : MatShape nCells n M') :
    PermMat σ nCells n (fillM M 0) (fillM M' 0) := by
  refine PermMat.mk' (h.fillM 0) (h'.fillM 0) (fun c hc v _ => ?_)
  rw [fillM_getD _ _ _ (by rw [h'.1]; exact hc), fillM_getD _ _ _ (by rw [h.1]; exact hc)]
  simp [Micm.rd, Array.getD]

end


/-! ### the forcing -/

theorem cfg_forcing_size (s : SolverCfg K) (k y f : Mat K) : (s.forcing k y f).size = f.size := by
  simp [SolverCfg.forcing]

theorem cfg_forcing_getD (s : SolverCfg K) (k y f : Mat K) (c : Nat) (hc : c < f.size) :
    (s.forcing k y f).getD c #[]
      = s.tables.addForcingCell (k.getD c #[]) (y.getD c #[]) (f.getD c #[]) := by
  simp [SolverCfg.forcing, Array.getD, hc]

section
variable {σ : Nat → Nat} {nCells n : Nat}

/-- **the forcing is equivariant** (whole matrices): tables built from the relabelled name map,
    evaluated on the relabelled state, give the relabelled forcing -/
theorem PermMat.forcing (hσ : IsRelabel σ n) (m : NameMap) (procs : List (Process K))
    (t t' : PSTables K) (hb : ProcessSet.build procs m = .ok t)
    (hb' : ProcessSet.build procs (relabel σ m) = .ok t')
    (s s' : SolverCfg K) (ht : s.tables = t) (ht' : s'.tables = t') (kc : Mat K)
    {Y Y' f f' : Mat K} (hY : PermMat σ nCells n Y Y') (hf : PermMat σ nCells n f f') :
    PermMat σ nCells n (s.forcing kc Y f) (s'.forcing kc Y' f') := by
  refine PermMat.mk' (hf.left.forcing s kc Y) (hf.right.forcing s' kc Y') (fun c hc v hv => ?_)
  rw [cfg_forcing_getD _ _ _ _ _ (by rw [hf.2.1]; exact hc),
    cfg_forcing_getD _ _ _ _ _ (by rw [hf.1]; exact hc), ht, ht']
  exact forcing_relabel σ hσ.inj m procs t t' (Or.inr hb) (Or.inr hb') _ _ _ _ _
    ((hY.2.2 c hc).all hσ) v (by rw [(hf.2.2 c hc).1]; exact hv)
    (by rw [(hf.2.2 c hc).2.1]; exact hσ.lt v hv) (hf.rd c v hc hv)

/-! ### `Factor; Solve` -/

/-- **`Factor; Solve` on whole matrices is equivariant**: if the second configuration holds the
    symmetrically permuted matrix in every cell and no pivot vanishes in either ordering, relabelled
    right-hand sides give relabelled solutions. -/
theorem linSolve_relabel (hσ : IsRelabel σ n) (s₁ s₂ : SolverCfg K) (kind₁ kind₂ : LUKind)
    (jac₁ jac₂ : Pattern) (hla₁ : s₁.la = LinAlg.build kind₁ jac₁) (hla₂ : s₂.la = LinAlg.build kind₂ jac₂)
    (hn₁ : jac₁.n = n) (hn₂ : jac₂.n = n)
    (hd₁ : kind₁.needsDiag = true → ∀ i, i < n → jac₁.zero? i i = false)
    (hd₂ : kind₂.needsDiag = true → ∀ i, i < n → jac₂.zero? i i = false)
    (M₁ Lo₁ Up₁ M₂ Lo₂ Up₂ : Mat K) (hM₁ : M₁.size = nCells) (hM₂ : M₂.size = nCells)
    (hs₁ : ∀ c, c < nCells → s₁.la.SizesOK (M₁.getD c #[]) (Lo₁.getD c #[]) (Up₁.getD c #[]))
    (hs₂ : ∀ c, c < nCells → s₂.la.SizesOK (M₂.getD c #[]) (Lo₂.getD c #[]) (Up₂.getD c #[]))
    (hpiv₁ : ∀ c, c < nCells → ∀ i, i < n →
      s₁.la.pivot (M₁.getD c #[]) (Lo₁.getD c #[]) (Up₁.getD c #[]) i ≠ 0)
    (hpiv₂ : ∀ c, c < nCells → ∀ i, i < n →
      s₂.la.pivot (M₂.getD c #[]) (Lo₂.getD c #[]) (Up₂.getD c #[]) i ≠ 0)
    (hview : ∀ c, c < nCells → ∀ r c', r < n → c' < n →
      view s₂.la.A (M₂.getD c #[]) (σ r) (σ c') = view s₁.la.A (M₁.getD c #[]) r c')
    {x x' : Mat K} (hx : PermMat σ nCells n x x') :
    PermMat σ nCells n
      (s₁.linSolve (s₁.factor M₁ Lo₁ Up₁).1 (s₁.factor M₁ Lo₁ Up₁).2.1 (s₁.factor M₁ Lo₁ Up₁).2.2 x)
      (s₂.linSolve (s₂.factor M₂ Lo₂ Up₂).1 (s₂.factor M₂ Lo₂ Up₂).2.1 (s₂.factor M₂ Lo₂ Up₂).2.2 x') := by
  refine PermMat.mk' (hx.left.linSolve s₁ _ _ _) (hx.right.linSolve s₂ _ _ _) (fun c hc v hv => ?_)
  rw [linSolve_factor_getD s₁ _ _ _ _ c (by rw [hx.1]; exact hc) (by omega),
    linSolve_factor_getD s₂ _ _ _ _ c (by rw [hx.2.1]; exact hc) (by omega)]
  have h1 := hs₁ c hc
  have h2 := hs₂ c hc
  have h3 := hpiv₁ c hc
  have h4 := hpiv₂ c hc
  have h5 := hview c hc
  rw [hla₁] at h1 h3 h5 ⊢
  rw [hla₂] at h2 h4 h5 ⊢
  exact factorSolve_relabel σ n hσ.injOn hσ.lt kind₁ kind₂ jac₁ jac₂ hn₁ hn₂ hd₁ hd₂ _ _ _ _ _ _ _ _
    h1 h2 (hx.2.2 c hc).1 (hx.2.2 c hc).2.1 h3 h4 h5 (hx.2.2 c hc).2.2 v hv

/-! ### the stage loop

The contents of the stage vectors at entry never matter (every `K[i]` is written before it is read,
cf. C11); only their shapes do.  `PermKlt … stage Ks Ks'`: both arrays have the logical shape and
the entries below `stage` are relabelled copies. -/

def PermKlt (σ : Nat → Nat) (nCells n stage : Nat) (Ks Ks' : Array (Mat K)) : Prop :=
  KShape nCells n Ks ∧ KShape nCells n Ks' ∧
    ∀ j, j < stage → PermMat σ nCells n (Ks.getD j #[]) (Ks'.getD j #[])

/-- **the stage loop is equivariant**, given that the forcing and `Factor; Solve` are -/
theorem stagesGo_relabel (hσ : IsRelabel σ n) (s s' : SolverCfg K) (p : RosParams K) (kc : Mat K)
    (hF : ∀ {Y Y' f f' : Mat K}, PermMat σ nCells n Y Y' → PermMat σ nCells n f f' →
      PermMat σ nCells n (s.forcing kc Y f) (s'.forcing kc Y' f'))
    (J Lo Up J' Lo' Up' : Mat K)
    (hsolve : ∀ {x x' : Mat K}, PermMat σ nCells n x x' →
      PermMat σ nCells n (s.linSolve J Lo Up x) (s'.linSolve J' Lo' Up' x'))
    {Y Y' : Mat K} (hY : PermMat σ nCells n Y Y') (h : K)
    (fuel stage : Nat) {Ks Ks' : Array (Mat K)} (hK : PermKlt σ nCells n stage Ks Ks')
    (hcur : 1 ≤ fuel → (stage = 0 ∨ p.newF.getD stage false = false) →
      PermMat σ nCells n (Ks.getD stage #[]) (Ks'.getD stage #[]))
    (hsz : stage + fuel ≤ Ks.size) (hsz' : stage + fuel ≤ Ks'.size) (hst : stage + fuel ≤ p.stages)
    (ynew ynew' : Mat K) (st st' : Stats) :
    PermKlt σ nCells n (stage + fuel) (stagesGo s p kc Y J Lo Up h fuel stage Ks ynew st).1
      (stagesGo s' p kc Y' J' Lo' Up' h fuel stage Ks' ynew' st').1 := by
  induction fuel generalizing stage Ks Ks' ynew ynew' st st' with
  | zero => exact hK
  | succ fuel ih =>
    rw [stagesGo_succ, stagesGo_succ]
    have hs : stage < Ks.size := by omega
    have hs' : stage < Ks'.size := by omega
    -- the forcing part
    have hpsh := stagePre_shape s p kc Y stage Ks ynew st hK.1
    have hpsh' := stagePre_shape s' p kc Y' stage Ks' ynew' st' hK.2.1
    have hpsz := stagePre_size s p kc Y stage Ks ynew st
    have hpsz' := stagePre_size s' p kc Y' stage Ks' ynew' st'
    have hple : ∀ j, j ≤ stage → PermMat σ nCells n
        ((stagePre s p kc Y stage Ks ynew st).1.getD j #[])
        ((stagePre s' p kc Y' stage Ks' ynew' st').1.getD j #[]) := by
      intro j hj
      rcases Nat.lt_or_eq_of_le hj with hlt | rfl
      · rw [stagePre_getD_ne _ _ _ _ _ _ _ _ _ (by omega), stagePre_getD_ne _ _ _ _ _ _ _ _ _ (by omega)]
        exact hK.2.2 j hlt
      · rw [stagePre_getD_stage _ _ _ _ _ _ _ _ hs, stagePre_getD_stage _ _ _ _ _ _ _ _ hs']
        by_cases h0 : j = 0
        · rw [if_pos h0, if_pos h0]; exact hcur (by omega) (Or.inl h0)
        · rw [if_neg h0, if_neg h0]
          by_cases h1 : p.newF.getD j false = true
          · rw [if_pos h1, if_pos h1]
            refine hF ?_ (PermMat.fillM_zero (hK.1 j hs) (hK.2.1 j hs'))
            exact PermMat.axpy_fold hσ _ (fun i => Ks.getD i #[]) (fun i => Ks'.getD i #[]) _
              (fun i hi => hK.2.2 i (List.mem_range.mp hi)) hY
          · rw [if_neg h1, if_neg h1]
            exact hcur (by omega) (Or.inr (by simpa using h1))
    generalize (stagePre s p kc Y stage Ks ynew st) = pre at hpsh hpsz hple
    generalize (stagePre s' p kc Y' stage Ks' ynew' st') = pre' at hpsh' hpsz' hple
    -- the copy
    have hcsh := stageCopy_shape p stage pre.1 hpsh (by omega)
    have hcsh' := stageCopy_shape p stage pre'.1 hpsh' (by omega)
    have hcsz := stageCopy_size p stage pre.1
    have hcsz' := stageCopy_size p stage pre'.1
    have hcle : ∀ j, j ≤ stage → PermMat σ nCells n
        ((stageCopy p stage pre.1).getD j #[]) ((stageCopy p stage pre'.1).getD j #[]) := by
      intro j hj
      rw [stageCopy_getD_ne _ _ _ _ (by omega), stageCopy_getD_ne _ _ _ _ (by omega)]
      exact hple j hj
    have hcnext : 1 ≤ fuel → stage + 1 < p.stages → p.newF.getD (stage + 1) false = false → PermMat σ nCells n
        ((stageCopy p stage pre.1).getD (stage + 1) #[]) ((stageCopy p stage pre'.1).getD (stage + 1) #[]) := by
      intro hf1 h1 h2
      rw [stageCopy_getD_succ p stage pre.1 h1 (by omega), stageCopy_getD_succ p stage pre'.1 h1 (by omega),
        h2]
      exact hple stage (Nat.le_refl _)
    generalize (stageCopy p stage pre.1) = cp at hcsh hcsz hcle hcnext
    generalize (stageCopy p stage pre'.1) = cp' at hcsh' hcsz' hcle hcnext
    -- the right-hand side and the solve
    have hrhs : PermMat σ nCells n (stageRhs p h stage cp) (stageRhs p h stage cp') := by
      unfold stageRhs
      exact PermMat.axpy_fold hσ _ (fun j => cp.getD j #[]) (fun j => cp'.getD j #[]) _
        (fun j hj => hcle j (Nat.le_of_lt (List.mem_range.mp hj))) (hcle stage (Nat.le_refl _))
    have hsol := hsolve hrhs
    have := ih (stage := stage + 1)
      (Ks := cp.setIfInBounds stage (s.linSolve J Lo Up (stageRhs p h stage cp)))
      (Ks' := cp'.setIfInBounds stage (s'.linSolve J' Lo' Up' (stageRhs p h stage cp')))
      ⟨hcsh.set _ _ hsol.left, hcsh'.set _ _ hsol.right, fun j hj => by
        by_cases hjs : stage = j
        · subst hjs
          rw [getD_set_eq _ _ _ _ (by omega), getD_set_eq _ _ _ _ (by omega)]; exact hsol
        · rw [getD_set_ne _ _ _ _ _ hjs, getD_set_ne _ _ _ _ _ hjs]; exact hcle j (by omega)⟩
      (fun hf hc => by
        rw [getD_set_ne _ _ _ _ _ (by omega), getD_set_ne _ _ _ _ _ (by omega)]
        refine hcnext hf (by omega) ?_
        rcases hc with hc | hc
        · omega
        · exact hc)
      (by rw [Array.size_setIfInBounds]; omega) (by rw [Array.size_setIfInBounds]; omega) (by omega)
      pre.2.1 pre'.2.1 { pre.2.2 with solves := pre.2.2.solves + 1 }
      { pre'.2.2 with solves := pre'.2.2.solves + 1 }
    rw [show stage + (fuel + 1) = stage + 1 + fuel by omega]
    exact this

/-! ### the error norm -/

theorem errTerm_relabel (o : Ops K) (atol atol' : Array K) (rtol : K)
    (hat : ∀ v, v < n → rd atol' (σ v) = rd atol v)
    {y y' ynew ynew' err err' : Mat K} (hy : PermMat σ nCells n y y')
    (hyn : PermMat σ nCells n ynew ynew') (he : PermMat σ nCells n err err')
    (c v : Nat) (hc : c < nCells) (hv : v < n) :
    errTerm o atol' rtol y' ynew' err' c (σ v) = errTerm o atol rtol y ynew err c v := by
  unfold errTerm
  simp only [hy.rd c v hc hv, hyn.rd c v hc hv, he.rd c v hc hv, hat v hv]

theorem sum_map_flatMap_pairs (F : Nat × Nat → K) (lc : List Nat) (nV : Nat) :
    ((lc.flatMap fun c => (List.range nV).map fun v => (c, v)).map F).sum
      = (lc.map fun c => ((List.range nV).map fun v => F (c, v)).sum).sum := by
  induction lc with
  | nil => rfl
  | cons c lc ih =>
    simp only [List.flatMap_cons, List.map_append, List.sum_append, List.map_cons, List.sum_cons, ih,
      List.map_map]
    rfl

theorem sum_range_relabel (hσ : IsRelabel σ n) (g g' : Nat → K) (h : ∀ v, v < n → g' (σ v) = g v) :
    ((List.range n).map g').sum = ((List.range n).map g).sum := by
  rw [← (hσ.perm_range.map g').sum_eq, List.map_map]
  congr 1
  apply List.map_congr_left
  intro v hv
  exact h v (List.mem_range.mp hv)

/-- **`NormalizedError` is invariant under the relabelling** (any two dense layouts), the absolute
    tolerances being relabelled with the species -/
theorem normalizedError_relabel (hσ : IsRelabel σ n) (o : Ops K) (cs : Consts K) (L L' : Nat)
    (atol atol' : Array K) (rtol : K) (hat : ∀ v, v < n → rd atol' (σ v) = rd atol v)
    {y y' ynew ynew' err err' : Mat K} (hy : PermMat σ nCells n y y')
    (hyn : PermMat σ nCells n ynew ynew') (he : PermMat σ nCells n err err') :
    normalizedError o cs L' n atol' rtol y' ynew' err' = normalizedError o cs L n atol rtol y ynew err := by
  rw [normalizedError_layout_indep o cs L', normalizedError_layout_indep o cs L]
  unfold normalizedError
  simp only []
  rw [hy.1, hy.2.1]
  congr 3
  rw [foldl_add_eq_sum (fun cv : Nat × Nat => errTerm o atol' rtol y' ynew' err' cv.1 cv.2),
    foldl_add_eq_sum (fun cv : Nat × Nat => errTerm o atol rtol y ynew err cv.1 cv.2)]
  congr 1
  have hno : normOrder 0 nCells n
      = (List.range nCells).flatMap fun c => (List.range n).map fun v => (c, v) := by
    unfold normOrder; rw [if_pos rfl]
  rw [hno, sum_map_flatMap_pairs, sum_map_flatMap_pairs]
  congr 1
  apply List.map_congr_left
  intro c hc
  exact sum_range_relabel hσ _ _
    (fun v hv => errTerm_relabel o atol atol' rtol hat hy hyn he c v (List.mem_range.mp hc) hv)

end

/-! ### a permutation of `0 … n−1`, extended by the identity -/

/-- `σ` on `0 … n−1`, the identity elsewhere -/
def extendRelabel (σ : Nat → Nat) (n : Nat) (i : Nat) : Nat := if i < n then σ i else i

theorem extendRelabel_lt (σ : Nat → Nat) {n i : Nat} (hi : i < n) : extendRelabel σ n i = σ i := by
  unfold extendRelabel; rw [if_pos hi]

theorem extendRelabel_isRelabel (σ : Nat → Nat) (n : Nat)
    (hinj : ∀ i, i < n → ∀ j, j < n → σ i = σ j → i = j) (hr : ∀ i, i < n → σ i < n) :
    IsRelabel (extendRelabel σ n) n := by
  constructor
  · intro a b h
    unfold extendRelabel at h
    by_cases ha : a < n <;> by_cases hb : b < n
    · rw [if_pos ha, if_pos hb] at h; exact hinj a ha b hb h
    · rw [if_pos ha, if_neg hb] at h; have := hr a ha; omega
    · rw [if_neg ha, if_pos hb] at h; have := hr b hb; omega
    · rw [if_neg ha, if_neg hb] at h; exact h
  · intro i
    unfold extendRelabel
    by_cases hi : i < n
    · rw [if_pos hi]; exact ⟨fun _ => hi, fun _ => hr i hi⟩
    · rw [if_neg hi]

/-- on a name map whose indices are all below `n` the extension relabels like `σ` -/
theorem relabel_extend (σ : Nat → Nat) (n : Nat) (m : NameMap) (h : ∀ e ∈ m, e.2 < n) :
    relabel (extendRelabel σ n) m = relabel σ m := by
  unfold relabel
  apply List.map_congr_left
  intro e he
  rw [extendRelabel_lt σ (h e he)]

end Micm
