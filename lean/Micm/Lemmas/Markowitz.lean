/-
Helper lemmas for C14/C20: `markowitzRow` only swaps two in-range entries of the permutation
vector, so `markowitz order pat` (for `order ≥ 1`) returns a permutation of `0 … order-1` for every
pattern.  Core Lean only.
-/
import Micm.Model.Builder
namespace Micm

/-- a fold that only ever replaces the second component by the current list element ends with the
    initial second component or an element of the list -/
theorem foldl_select_mem {β : Type} (P : β × Nat → Nat → Prop) [∀ bm c, Decidable (P bm c)]
    (g : β × Nat → Nat → β) (l : List Nat) (init : β × Nat) :
    (l.foldl (fun bm col => if P bm col then (g bm col, col) else bm) init).2 = init.2 ∨
    (l.foldl (fun bm col => if P bm col then (g bm col, col) else bm) init).2 ∈ l := by
  induction l generalizing init with
  | nil => exact .inl rfl
  | cons a l ih =>
    rw [List.foldl_cons]
    rcases ih (if P init a then (g init a, a) else init) with h | h
    · by_cases hp : P init a
      · simp only [hp, if_true] at h ⊢
        exact .inr (by rw [h]; exact List.mem_cons_self)
      · simp only [hp] at h ⊢
        exact .inl h
    · exact .inr (List.mem_cons_of_mem _ h)

theorem mem_rangeFrom {a b x : Nat} : x ∈ rangeFrom a b ↔ a ≤ x ∧ x < b := by
  unfold rangeFrom
  rw [List.mem_range'_1]
  omega

/-- the permutation component after one `row` iteration: unchanged, or entries `row` and `j`
    exchanged for some `row < j < order` -/
theorem markowitzRow_fst (order : Nat) (perm : Array Nat) (pat : IMat) (row : Nat) :
    (markowitzRow order (perm, pat) row).1 = perm ∨
    ∃ j, row < j ∧ j < order ∧
      (markowitzRow order (perm, pat) row).1
        = (perm.setIfInBounds row (perm.getD j 0)).setIfInBounds j (perm.getD row 0) := by
  unfold markowitzRow
  simp only []
  generalize hsel : (List.foldl _ (UInt64.ofNat (order - 1) * UInt64.ofNat (order - 1), row)
    (rangeFrom row order)) = sel
  have hmem : sel.2 = row ∨ sel.2 ∈ rangeFrom row order := by
    rw [← hsel]
    exact foldl_select_mem _ _ _ _
  obtain ⟨cnt, maxRow⟩ := sel
  simp only [] at hmem ⊢
  by_cases hne : maxRow = row
  · left
    simp [hne]
  · right
    refine ⟨maxRow, ?_, ?_, ?_⟩
    · rcases hmem with h | h
      · exact absurd h hne
      · have := (mem_rangeFrom.1 h).1; omega
    · rcases hmem with h | h
      · exact absurd h hne
      · exact (mem_rangeFrom.1 h).2
    · simp [hne]

theorem swap_toList_perm (perm : Array Nat) (i j : Nat) (hi : i < perm.size) (hj : j < perm.size) :
    ((perm.setIfInBounds i (perm.getD j 0)).setIfInBounds j (perm.getD i 0)).toList.Perm perm.toList := by
  have h := Array.swap_perm (xs := perm) hi hj
  rw [Array.perm_iff_toList_perm] at h
  have e : (perm.setIfInBounds i (perm.getD j 0)).setIfInBounds j (perm.getD i 0) = perm.swap i j hi hj := by
    simp [Array.swap, Array.getD, hi, hj, Array.setIfInBounds]
  rw [e]
  exact h

/-- invariant of the `row` loop -/
theorem markowitzRow_inv (order : Nat) (st : Array Nat × IMat) (row : Nat)
    (hs : st.1.size = order) (hp : st.1.toList.Perm (List.range order)) (hr : row < order) :
    (markowitzRow order st row).1.size = order ∧
    (markowitzRow order st row).1.toList.Perm (List.range order) := by
  obtain ⟨perm, pat⟩ := st
  rcases markowitzRow_fst order perm pat row with h | ⟨j, hj1, hj2, h⟩
  · rw [h]; exact ⟨hs, hp⟩
  · rw [h]
    simp only [] at hs hp
    refine ⟨by simp [hs], ?_⟩
    exact (swap_toList_perm perm row j (by omega) (by omega)).trans hp

theorem markowitz_fold_inv (order : Nat) (rows : List Nat) (st : Array Nat × IMat)
    (hs : st.1.size = order) (hp : st.1.toList.Perm (List.range order)) (hr : ∀ r ∈ rows, r < order) :
    (rows.foldl (markowitzRow order) st).1.size = order ∧
    (rows.foldl (markowitzRow order) st).1.toList.Perm (List.range order) := by
  induction rows generalizing st with
  | nil => exact ⟨hs, hp⟩
  | cons r rows ih =>
    rw [List.foldl_cons]
    obtain ⟨h1, h2⟩ := markowitzRow_inv order st r hs hp (hr r List.mem_cons_self)
    exact ih _ h1 h2 fun r' hr' => hr r' (List.mem_cons_of_mem _ hr')

/-- `DiagonalMarkowitzReorder` returns a permutation of `0 … order-1` for every pattern, `order ≥ 1` -/
theorem markowitz_perm (order : Nat) (pat : IMat) (h : 1 ≤ order) :
    ∃ perm, markowitz order pat = .ok perm ∧ perm.size = order ∧ perm.toList.Perm (List.range order) := by
  unfold markowitz
  rw [if_neg (by omega)]
  refine ⟨_, rfl, ?_⟩
  apply markowitz_fold_inv
  · simp
  · simp [Array.toList_range]
  · intro r hr
    have := List.mem_range.1 hr
    omega

theorem markowitz_zero (pat : IMat) : markowitz 0 pat = .error .hang := rfl

/-- entries of a permutation of `0 … n-1` are `< n`, distinct, and cover `0 … n-1` -/
theorem perm_range_getD_lt {perm : Array Nat} {n : Nat} (hs : perm.size = n)
    (hp : perm.toList.Perm (List.range n)) (i : Nat) (hi : i < n) : perm.getD i 0 < n := by
  have : perm.getD i 0 ∈ perm.toList := by
    have hi' : i < perm.size := by omega
    simp only [Array.getD, hi', dite_true]
    simp
  exact List.mem_range.1 (hp.mem_iff.1 this)

end Micm
