/-
Lemmas for C19 (sparse part): the lexicographic pair order and `setInsert`/`setOfList`,
the `RowStartVector` loop (`fillTo`/`rsStep`/`rowStart`) with its fold invariant, `findIn`,
`Pattern.rank`/`isZero`/`vectorIndex`/`slot`/`diagRanks` for every well-formed pattern
(CSR and CSC, standard and vector ordering).  Core Lean only.
-/
import Micm.Lemmas.DenseAddr
namespace Micm

/-! ### the order of `std::set<std::pair<size_t,size_t>>` -/

theorem pairLt_iff (a b : Pair) : pairLt a b = true ↔ a.1 < b.1 ∨ (a.1 = b.1 ∧ a.2 < b.2) := by
  simp [pairLt]

theorem pairLt_irrefl (a : Pair) : ¬ pairLt a a = true := by
  rw [pairLt_iff]; omega

theorem pairLt_trans {a b c : Pair} (h1 : pairLt a b = true) (h2 : pairLt b c = true) :
    pairLt a c = true := by
  rw [pairLt_iff] at *; omega

theorem pairLt_of_not {a b : Pair} (h1 : ¬ pairLt a b = true) (h2 : a ≠ b) : pairLt b a = true := by
  rw [pairLt_iff] at *
  have : ¬ (a.1 = b.1 ∧ a.2 = b.2) := fun h => h2 (Prod.ext h.1 h.2)
  omega

/-- strictly sorted by the lexicographic order (hence duplicate free) -/
def PairSorted (l : List Pair) : Prop := l.Pairwise (fun a b => pairLt a b = true)

/-- a `std::set` of (row, col) pairs of an `n x n` block: strictly sorted, all indices `< n` -/
structure WF (n : Nat) (set : List Pair) : Prop where
  sorted : PairSorted set
  range : ∀ e ∈ set, e.1 < n ∧ e.2 < n

theorem PairSorted.nodup {l : List Pair} (h : PairSorted l) : l.Nodup := by
  rw [List.nodup_iff_pairwise_ne]
  refine List.Pairwise.imp ?_ h
  intro a b hab heq
  exact pairLt_irrefl b (heq ▸ hab)

theorem mem_setInsert (a x : Pair) (l : List Pair) : x ∈ setInsert a l ↔ x = a ∨ x ∈ l := by
  induction l with
  | nil => simp [setInsert]
  | cons b l ih =>
    unfold setInsert
    by_cases h1 : pairLt a b = true
    · simp [h1]
    · simp only [h1]
      by_cases h2 : (a == b) = true
      · have : a = b := by simpa using h2
        subst this
        simp
      · simp only [h2, Bool.false_eq_true, if_false, List.mem_cons, ih]
        constructor
        · rintro (h | h | h) <;> simp [h]
        · rintro (h | h | h) <;> simp [h]

theorem sorted_setInsert (a : Pair) (l : List Pair) (h : PairSorted l) : PairSorted (setInsert a l) := by
  induction l with
  | nil => simp [setInsert, PairSorted]
  | cons b l ih =>
    unfold PairSorted at h ih ⊢
    rw [List.pairwise_cons] at h
    unfold setInsert
    by_cases h1 : pairLt a b = true
    · simp only [h1, if_true]
      rw [List.pairwise_cons, List.pairwise_cons]
      refine ⟨?_, h⟩
      intro x hx
      rcases List.mem_cons.mp hx with rfl | hx
      · exact h1
      · exact pairLt_trans h1 (h.1 x hx)
    · simp only [h1]
      by_cases h2 : (a == b) = true
      · simp only [h2, if_true, Bool.false_eq_true, if_false]
        exact List.pairwise_cons.mpr h
      · simp only [h2, Bool.false_eq_true, if_false]
        rw [List.pairwise_cons]
        refine ⟨?_, ih h.2⟩
        intro x hx
        rcases (mem_setInsert a x l).mp hx with rfl | hx
        · exact pairLt_of_not h1 (by simpa using h2)
        · exact h.1 x hx

theorem foldl_setInsert (l s : List Pair) (hs : PairSorted s) :
    PairSorted (l.foldl (fun s a => setInsert a s) s) ∧
      ∀ x, x ∈ l.foldl (fun s a => setInsert a s) s ↔ x ∈ s ∨ x ∈ l := by
  induction l generalizing s with
  | nil => simp [hs]
  | cons a l ih =>
    simp only [List.foldl_cons]
    obtain ⟨h1, h2⟩ := ih (setInsert a s) (sorted_setInsert a s hs)
    refine ⟨h1, fun x => ?_⟩
    rw [h2, mem_setInsert, List.mem_cons]
    constructor
    · rintro ((h | h) | h) <;> simp [h]
    · rintro (h | h | h) <;> simp [h]

theorem sorted_setOfList (l : List Pair) : PairSorted (setOfList l) :=
  (foldl_setInsert l [] List.Pairwise.nil).1

theorem mem_setOfList (l : List Pair) (x : Pair) : x ∈ setOfList l ↔ x ∈ l := by
  have := (foldl_setInsert l [] List.Pairwise.nil).2 x
  simpa [setOfList] using this

/-! ### the `RowStartVector` loop -/

/-- number of elements whose major index (row for CSR) is `< r` -/
def below (elems : List Pair) (r : Nat) : Nat := elems.countP (fun e => e.1 < r)

/-- major index of the last element (0 for the empty list): the final value of `curr_row` -/
def lastRow (elems : List Pair) : Nat := match elems.getLast? with | some e => e.1 | none => 0

/-- major indices are non-decreasing along the list -/
def RowsSorted (elems : List Pair) : Prop := elems.Pairwise (fun a b => a.1 ≤ b.1)

theorem PairSorted.rowsSorted {l : List Pair} (h : PairSorted l) : RowsSorted l :=
  List.Pairwise.imp (fun {a b} hab => by rw [pairLt_iff] at hab; omega) h

theorem fillTo_size (s : Array Nat) (c t tot : Nat) : (fillTo s c t tot).1.size = s.size := by
  fun_induction fillTo s c t tot with
  | case1 s c h ih => simpa using ih
  | case2 s c h => rfl

theorem fillTo_curr (s : Array Nat) (c t tot : Nat) : (fillTo s c t tot).2 = max c t := by
  fun_induction fillTo s c t tot with
  | case1 s c h ih => rw [ih]; omega
  | case2 s c h => simp; omega

theorem fillTo_rd (s : Array Nat) (c t tot : Nat) (i : Nat) (hi : i < s.size) :
    rd (fillTo s c t tot).1 i = if c + 1 ≤ i ∧ i ≤ t then tot else rd s i := by
  fun_induction fillTo s c t tot with
  | case1 s c h ih =>
    rw [ih (by simpa using hi)]
    by_cases h1 : c + 1 + 1 ≤ i ∧ i ≤ t
    · have : c + 1 ≤ i ∧ i ≤ t := by omega
      simp [h1, this]
    · simp only [h1, if_false]
      by_cases h2 : i = c + 1
      · subst h2
        have : c + 1 ≤ c + 1 ∧ c + 1 ≤ t := by omega
        simp [rd, this, hi]
      · have : ¬ (c + 1 ≤ i ∧ i ≤ t) := by omega
        simp only [this, if_false]
        simp [rd, Array.getD_eq_getD_getElem?, Ne.symm h2]
  | case2 s c h =>
    have : ¬ (c + 1 ≤ i ∧ i ≤ t) := by omega
    simp [this]

theorem lastRow_concat (pre : List Pair) (e : Pair) : lastRow (pre ++ [e]) = e.1 := by
  simp [lastRow]

theorem lastRow_le_of_forall {l : List Pair} {m : Nat} (h : ∀ x ∈ l, x.1 ≤ m) : lastRow l ≤ m := by
  unfold lastRow
  cases hl : l.getLast? with
  | none => simp
  | some e => exact h e (List.mem_of_getLast? hl)

theorem lastRow_lt {l : List Pair} {n : Nat} (hne : l ≠ []) (h : ∀ x ∈ l, x.1 < n) : lastRow l < n := by
  unfold lastRow
  cases hl : l.getLast? with
  | none => exact absurd (List.getLast?_eq_none_iff.mp hl) hne
  | some e => exact h e (List.mem_of_getLast? hl)

/-- Invariant of the fold after consuming a prefix `pre`: `curr` is the row of the last element
    (0 if none), `total = pre.length`, `starts[r] = #{e ∈ pre | e.1 < r}` for `r ≤ curr`,
    untouched (0) above. -/
structure RSInv (n : Nat) (pre : List Pair) (a : RSAcc) : Prop where
  size : a.starts.size = n + 1
  total : a.total = pre.length
  curr : a.curr = lastRow pre
  rows : ∀ e ∈ pre, e.1 ≤ a.curr
  low : ∀ r, r ≤ a.curr → rd a.starts r = below pre r
  high : ∀ r, a.curr < r → rd a.starts r = 0

theorem rsInv_init (n : Nat) : RSInv n [] ⟨Array.replicate (n + 1) 0, 0, 0⟩ where
  size := by simp
  total := rfl
  curr := rfl
  rows := by simp
  low := by intro r _; simp [rd, below, Array.getD_eq_getD_getElem?, Array.getElem?_replicate]; split <;> rfl
  high := by intro r _; simp [rd, Array.getD_eq_getD_getElem?, Array.getElem?_replicate]; split <;> rfl

theorem below_append_single (pre : List Pair) (e : Pair) (r : Nat) :
    below (pre ++ [e]) r = below pre r + (if e.1 < r then 1 else 0) := by
  simp [below, List.countP_append, List.countP_cons]

theorem rsInv_step (n : Nat) (pre : List Pair) (a : RSAcc) (e : Pair)
    (h : RSInv n pre a) (he : a.curr ≤ e.1) (hn : e.1 < n) : RSInv n (pre ++ [e]) (rsStep a e) := by
  have hsz := fillTo_size a.starts a.curr e.1 a.total
  have hcur := fillTo_curr a.starts a.curr e.1 a.total
  have hmax : max a.curr e.1 = e.1 := by omega
  refine ⟨?_, ?_, ?_, ?_, ?_, ?_⟩
  · simp [rsStep, hsz, h.size]
  · simp [rsStep, h.total]
  · simp only [rsStep, hcur, hmax, lastRow_concat]
  · intro x hx
    simp only [rsStep, hcur, hmax]
    rcases List.mem_append.mp hx with hx | hx
    · exact Nat.le_trans (h.rows x hx) he
    · simp at hx; subst hx; exact Nat.le_refl _
  · intro r hr
    simp only [rsStep, hcur, hmax] at hr ⊢
    have hri : r < a.starts.size := by rw [h.size]; omega
    rw [fillTo_rd _ _ _ _ _ hri, below_append_single]
    by_cases hlo : r ≤ a.curr
    · have : ¬ (a.curr + 1 ≤ r ∧ r ≤ e.1) := by omega
      have h2 : ¬ e.1 < r := by omega
      simp [this, h2, h.low r hlo]
    · have : a.curr + 1 ≤ r ∧ r ≤ e.1 := by omega
      have h2 : ¬ e.1 < r := by omega
      simp only [this, and_self, if_true, h2, if_false, Nat.add_zero]
      rw [h.total, below]
      symm
      apply List.countP_eq_length.mpr
      intro x hx
      have := h.rows x hx
      simp; omega
  · intro r hr
    simp only [rsStep, hcur, hmax] at hr ⊢
    by_cases hri : r < a.starts.size
    · rw [fillTo_rd _ _ _ _ _ hri]
      have : ¬ (a.curr + 1 ≤ r ∧ r ≤ e.1) := by omega
      simp only [this, if_false]
      exact h.high r (by omega)
    · have : (fillTo a.starts a.curr e.1 a.total).1.size ≤ r := by rw [hsz]; omega
      simp [rd, Array.getD_eq_getD_getElem?, Array.getElem?_eq_none this]

theorem rsInv_foldl (n : Nat) (rest pre : List Pair) (a : RSAcc) (h : RSInv n pre a)
    (hs : RowsSorted (pre ++ rest)) (hn : ∀ e ∈ rest, e.1 < n) :
    RSInv n (pre ++ rest) (rest.foldl rsStep a) := by
  induction rest generalizing pre a with
  | nil => simpa using h
  | cons e rest ih =>
    simp only [List.foldl_cons]
    have hs' : RowsSorted ((pre ++ [e]) ++ rest) := by simpa using hs
    have hle : a.curr ≤ e.1 := by
      rw [h.curr]
      apply lastRow_le_of_forall
      intro x hx
      exact (List.pairwise_append.mp hs).2.2 x hx e (List.mem_cons_self)
    have := ih (pre ++ [e]) (rsStep a e)
      (rsInv_step n pre a e h hle (hn e List.mem_cons_self)) hs'
      (fun x hx => hn x (List.mem_cons_of_mem _ hx))
    simpa using this

theorem rowStart_size (n : Nat) (elems : List Pair) (hs : RowsSorted elems)
    (hn : ∀ e ∈ elems, e.1 < n) : (rowStart n elems).size = n + 1 := by
  have h := rsInv_foldl n elems [] _ (rsInv_init n) (by simpa using hs) hn
  simp only [rowStart, Array.size_setIfInBounds]
  exact h.size

/-- Characterisation of the mirrored loop, including the source's quirk for trailing empty rows:
    `start[r]` is the number of elements in rows `< r` up to one past the last non-empty row,
    and stays `0` beyond. -/
theorem rowStart_spec (n : Nat) (elems : List Pair) (hs : RowsSorted elems)
    (hn : ∀ e ∈ elems, e.1 < n) (r : Nat) :
    (rowStart n elems).getD r 0 = if r ≤ lastRow elems + 1 then below elems r else 0 := by
  have h := rsInv_foldl n elems [] _ (rsInv_init n) (by simpa using hs) hn
  simp only [List.nil_append] at h
  have hrw := rd_wr (elems.foldl rsStep ⟨Array.replicate (n + 1) 0, 0, 0⟩).starts
    ((elems.foldl rsStep ⟨Array.replicate (n + 1) 0, 0, 0⟩).curr + 1) r
    (elems.foldl rsStep ⟨Array.replicate (n + 1) 0, 0, 0⟩).total
  simp only [rd, wr] at hrw
  simp only [rowStart]
  rw [hrw]
  generalize elems.foldl rsStep ⟨Array.replicate (n + 1) 0, 0, 0⟩ = a at h
  have hcur := h.curr
  by_cases h1 : r ≤ a.curr
  · have : ¬ (a.curr + 1 = r ∧ a.curr + 1 < a.starts.size) := by omega
    have h2 : r ≤ lastRow elems + 1 := by omega
    simp only [this, if_false, h2, if_true]
    exact h.low r h1
  · by_cases h2 : r = a.curr + 1
    · have h3 : r ≤ lastRow elems + 1 := by omega
      have hall : below elems r = elems.length := by
        apply List.countP_eq_length.mpr
        intro x hx
        have := h.rows x hx
        simp; omega
      simp only [h3, if_true, hall]
      by_cases h4 : a.curr + 1 < a.starts.size
      · have : a.curr + 1 = r ∧ a.curr + 1 < a.starts.size := ⟨h2.symm, h4⟩
        rw [if_pos this]
        exact h.total
      · have : ¬ (a.curr + 1 = r ∧ a.curr + 1 < a.starts.size) := fun hh => h4 hh.2
        rw [if_neg this]
        have hnil : elems = [] := by
          apply Classical.byContradiction
          intro hne
          have := lastRow_lt hne hn
          have := h.size
          omega
        subst hnil
        have := h.high r (by omega)
        simpa [rd] using this
    · have : ¬ (a.curr + 1 = r ∧ a.curr + 1 < a.starts.size) := by omega
      have h3 : ¬ r ≤ lastRow elems + 1 := by omega
      simp only [this, if_false, h3]
      exact h.high r (by omega)

/-! ### positions in a row-sorted list -/

theorem le_lastRow {l : List Pair} (hs : RowsSorted l) {x : Pair} (hx : x ∈ l) : x.1 ≤ lastRow l := by
  obtain ⟨i, hi, rfl⟩ := List.mem_iff_getElem.mp hx
  have hl : l.length - 1 < l.length := by omega
  have hlast : lastRow l = l[l.length - 1].1 := by
    unfold lastRow
    rw [List.getLast?_eq_getElem?, List.getElem?_eq_getElem hl]
  rw [hlast]
  by_cases h : i = l.length - 1
  · simp only [h]; exact Nat.le_refl _
  · exact List.pairwise_iff_getElem.mp hs i (l.length - 1) hi hl (by omega)

theorem below_le_length (l : List Pair) (r : Nat) : below l r ≤ l.length := List.countP_le_length

/-- in a row-sorted list the elements with row `< r` are exactly the first `below l r` ones -/
theorem lt_below_iff {l : List Pair} (hs : RowsSorted l) (r k : Nat) (hk : k < l.length) :
    k < below l r ↔ l[k].1 < r := by
  induction l generalizing k with
  | nil => simp at hk
  | cons a t ih =>
    have hs' := List.pairwise_cons.mp hs
    have hb : below (a :: t) r = below t r + (if a.1 < r then 1 else 0) := by
      simp [below, List.countP_cons]
    by_cases ha : a.1 < r
    · cases k with
      | zero => simp [hb, ha]
      | succ k =>
        have hk' : k < t.length := by simpa using hk
        have := ih hs'.2 k hk'
        simp only [List.getElem_cons_succ, hb, ha, if_true]
        omega
    · have hz : below t r = 0 := by
        apply List.countP_eq_zero.mpr
        intro x hx
        have := hs'.1 x hx
        simp; omega
      cases k with
      | zero => simp [hb, ha, hz]
      | succ k =>
        have hk' : k < t.length := by simpa using hk
        have := hs'.1 t[k] (List.getElem_mem hk')
        simp only [List.getElem_cons_succ, hb, ha, hz, if_false]
        omega

theorem below_mono (l : List Pair) {r r' : Nat} (h : r ≤ r') : below l r ≤ below l r' := by
  unfold below
  apply List.countP_mono_left
  intro x _ hx
  simp at hx ⊢; omega

/-- the half-open range `[start[maj], start[maj+1])` holds exactly the positions of the elements
    with major index `maj` — also for trailing empty rows, where the range is empty or reversed -/
theorem start_range {n : Nat} {elems : List Pair} (hs : RowsSorted elems)
    (hn : ∀ e ∈ elems, e.1 < n) (maj k : Nat) :
    ((rowStart n elems).getD maj 0 ≤ k ∧ k < (rowStart n elems).getD (maj + 1) 0) ↔
      ∃ h : k < elems.length, elems[k].1 = maj := by
  rw [rowStart_spec n elems hs hn, rowStart_spec n elems hs hn]
  by_cases hm : maj ≤ lastRow elems
  · have h1 : maj ≤ lastRow elems + 1 := by omega
    have h2 : maj + 1 ≤ lastRow elems + 1 := by omega
    simp only [h1, h2, if_true]
    constructor
    · rintro ⟨hlo, hhi⟩
      have hk : k < elems.length := Nat.lt_of_lt_of_le hhi (below_le_length _ _)
      have a1 := lt_below_iff hs maj k hk
      have a2 := lt_below_iff hs (maj + 1) k hk
      exact ⟨hk, by omega⟩
    · rintro ⟨hk, he⟩
      have a1 := lt_below_iff hs maj k hk
      have a2 := lt_below_iff hs (maj + 1) k hk
      omega
  · have h2 : ¬ maj + 1 ≤ lastRow elems + 1 := by omega
    simp only [h2, if_false]
    constructor
    · rintro ⟨_, hhi⟩; omega
    · rintro ⟨hk, he⟩
      have := le_lastRow hs (List.getElem_mem hk)
      omega

/-! ### `findIn` -/

theorem findIn_some (ids : Array Nat) (x b e k : Nat) :
    findIn ids x b e = some k ↔
      b ≤ k ∧ k < e ∧ ids.getD k 0 = x ∧ ∀ j, b ≤ j → j < k → ids.getD j 0 ≠ x := by
  fun_induction findIn ids x b e with
  | case1 b h hx =>
    constructor
    · intro hk
      have : b = k := by simpa using hk
      subst this
      exact ⟨Nat.le_refl _, h, hx, fun j h1 h2 => by omega⟩
    · rintro ⟨h1, _, h3, h4⟩
      have : b = k := by
        apply Classical.byContradiction
        intro hne
        exact h4 b (Nat.le_refl _) (by omega) hx
      simp [this]
  | case2 b h hx ih =>
    rw [ih]
    constructor
    · rintro ⟨h1, h2, h3, h4⟩
      refine ⟨by omega, h2, h3, fun j hj1 hj2 => ?_⟩
      by_cases hjb : j = b
      · subst hjb; exact hx
      · exact h4 j (by omega) hj2
    · rintro ⟨h1, h2, h3, h4⟩
      have hne : b ≠ k := by
        intro hbk; subst hbk; exact hx h3
      exact ⟨by omega, h2, h3, fun j hj1 hj2 => h4 j (by omega) hj2⟩
  | case3 b h =>
    constructor
    · intro hk; simp at hk
    · rintro ⟨h1, h2, _⟩; omega

theorem findIn_none (ids : Array Nat) (x b e : Nat) :
    findIn ids x b e = none ↔ ∀ j, b ≤ j → j < e → ids.getD j 0 ≠ x := by
  fun_induction findIn ids x b e with
  | case1 b h hx =>
    constructor
    · intro hk; simp at hk
    · intro hk; exact absurd hx (hk b (Nat.le_refl _) h)
  | case2 b h hx ih =>
    rw [ih]
    constructor
    · intro h4 j hj1 hj2
      by_cases hjb : j = b
      · subst hjb; exact hx
      · exact h4 j (by omega) hj2
    · intro h4 j hj1 hj2
      exact h4 j (by omega) hj2
  | case3 b h =>
    constructor
    · intro _ j h1 h2; omega
    · intro _; trivial

/-! ### element lookup through `ids` / `start` -/

theorem ids_getD (elems : List Pair) (k : Nat) (hk : k < elems.length) :
    (elems.map (·.2)).toArray.getD k 0 = elems[k].2 := by
  simp [Array.getD_eq_getD_getElem?, hk]

/-- `std::find` in the major index's range finds exactly the position of (maj, mnr) -/
theorem lookup_some {n : Nat} {elems : List Pair} (hw : WF n elems) (maj mnr k : Nat) :
    findIn (elems.map (·.2)).toArray mnr ((rowStart n elems).getD maj 0)
        ((rowStart n elems).getD (maj + 1) 0) = some k ↔ elems[k]? = some (maj, mnr) := by
  have hs := hw.sorted.rowsSorted
  have hn : ∀ e ∈ elems, e.1 < n := fun e he => (hw.range e he).1
  have hR := start_range hs hn maj
  rw [findIn_some, List.getElem?_eq_some_iff]
  constructor
  · rintro ⟨h1, h2, h3, _⟩
    obtain ⟨hk, he⟩ := (hR k).mp ⟨h1, h2⟩
    rw [ids_getD elems k hk] at h3
    exact ⟨hk, Prod.ext he h3⟩
  · rintro ⟨hk, he⟩
    have he1 : elems[k].1 = maj := by rw [he]
    have he2 : elems[k].2 = mnr := by rw [he]
    obtain ⟨h1, h2⟩ := (hR k).mpr ⟨hk, he1⟩
    refine ⟨h1, h2, by rw [ids_getD elems k hk, he2], ?_⟩
    intro j hj1 hj2 hj3
    obtain ⟨hj, hje⟩ := (hR j).mp ⟨hj1, by omega⟩
    rw [ids_getD elems j hj] at hj3
    have heq : elems[j] = elems[k] := by rw [he]; exact Prod.ext hje hj3
    have hlt := List.pairwise_iff_getElem.mp hw.sorted j k hj hk hj2
    rw [heq] at hlt
    exact pairLt_irrefl _ hlt

theorem lookup_none {n : Nat} {elems : List Pair} (hw : WF n elems) (maj mnr : Nat) :
    findIn (elems.map (·.2)).toArray mnr ((rowStart n elems).getD maj 0)
        ((rowStart n elems).getD (maj + 1) 0) = none ↔ (maj, mnr) ∉ elems := by
  constructor
  · intro h hmem
    obtain ⟨k, hk⟩ := List.mem_iff_getElem?.mp hmem
    rw [← lookup_some hw maj mnr k, h] at hk
    cases hk
  · intro h
    cases hf : findIn (elems.map (·.2)).toArray mnr ((rowStart n elems).getD maj 0)
        ((rowStart n elems).getD (maj + 1) 0) with
    | none => rfl
    | some k =>
      rw [lookup_some hw] at hf
      exact absurd (List.mem_of_getElem? hf) h

/-! ### well-formed patterns -/

/-- the storage key of logical element (row, col): (row, col) for CSR, (col, row) for CSC -/
def Pattern.key (p : Pattern) (r c : Nat) : Pair := if p.csc then (c, r) else (r, c)

/-- a pattern whose tables were built from a strictly sorted in-range element list -/
structure Pattern.Good (p : Pattern) : Prop where
  wf : WF p.n p.elems
  ids_eq : p.ids = (p.elems.map (·.2)).toArray
  start_eq : p.start = rowStart p.n p.elems

theorem Pattern.Good.nnz {p : Pattern} (h : p.Good) : p.nnz = p.elems.length := by
  simp [Pattern.nnz, h.ids_eq]

theorem Pattern.Good.n1 {p : Pattern} (h : p.Good) : p.start.size - 1 = p.n := by
  rw [h.start_eq, rowStart_size p.n p.elems h.wf.sorted.rowsSorted (fun e he => (h.wf.range e he).1)]
  omega

theorem Pattern.Good.key_range {p : Pattern} (h : p.Good) {r c : Nat} (hm : p.key r c ∈ p.elems) :
    r < p.n ∧ c < p.n := by
  have := h.wf.range _ hm
  unfold Pattern.key at this
  cases hc : p.csc <;> simp [hc] at this <;> omega

/-- `rank` with the range check discharged -/
theorem Pattern.Good.rank_eq {p : Pattern} (h : p.Good) {r c : Nat} (hr : r < p.n) (hc : c < p.n) :
    p.rank r c =
      match findIn (p.elems.map (·.2)).toArray (p.key r c).2
          ((rowStart p.n p.elems).getD (p.key r c).1 0)
          ((rowStart p.n p.elems).getD ((p.key r c).1 + 1) 0) with
      | some k => .ok k
      | none => .error .zeroElementAccess := by
  have hn1 := h.n1
  unfold Pattern.rank
  simp only [hn1]
  have : ¬ ((decide (r ≥ p.n) || decide (c ≥ p.n)) = true) := by simp; omega
  simp only [this]
  rw [← h.ids_eq, ← h.start_eq]
  unfold Pattern.key
  cases p.csc <;> rfl

theorem Pattern.Good.rank_oor {p : Pattern} (h : p.Good) (r c : Nat) :
    p.rank r c = .error .elementOutOfRange ↔ r ≥ p.n ∨ c ≥ p.n := by
  constructor
  · intro hrk
    apply Classical.byContradiction
    intro hcon
    rw [h.rank_eq (by omega) (by omega)] at hrk
    split at hrk <;> simp at hrk
  · intro hcon
    have hn1 := h.n1
    unfold Pattern.rank
    simp only [hn1]
    have : (decide (r ≥ p.n) || decide (c ≥ p.n)) = true := by simp; omega
    simp [this]

theorem Pattern.Good.rank_ok {p : Pattern} (h : p.Good) (r c k : Nat) :
    p.rank r c = .ok k ↔ p.elems[k]? = some (p.key r c) := by
  by_cases hin : r < p.n ∧ c < p.n
  · rw [h.rank_eq hin.1 hin.2, ← lookup_some h.wf]
    generalize findIn _ _ _ _ = o
    cases o <;> simp
  · constructor
    · intro hrk
      have := (h.rank_oor r c).mpr (by omega)
      rw [this] at hrk
      cases hrk
    · intro hk
      exact absurd (h.key_range (List.mem_of_getElem? hk)) hin

theorem Pattern.Good.rank_zero {p : Pattern} (h : p.Good) (r c : Nat) :
    p.rank r c = .error .zeroElementAccess ↔ r < p.n ∧ c < p.n ∧ p.key r c ∉ p.elems := by
  by_cases hin : r < p.n ∧ c < p.n
  · rw [h.rank_eq hin.1 hin.2, ← lookup_none h.wf]
    generalize findIn _ _ _ _ = o
    cases o <;> simp [hin]
  · constructor
    · intro hrk
      have := (h.rank_oor r c).mpr (by omega)
      rw [this] at hrk
      simp at hrk
    · intro hk
      exact absurd ⟨hk.1, hk.2.1⟩ hin

theorem Pattern.Good.rank_lt {p : Pattern} (h : p.Good) {r c k : Nat} (hk : p.rank r c = .ok k) :
    k < p.nnz := by
  rw [h.nnz]
  rw [h.rank_ok, List.getElem?_eq_some_iff] at hk
  exact hk.1

theorem Pattern.key_inj (p : Pattern) {r c r' c' : Nat} (h : p.key r c = p.key r' c') :
    r = r' ∧ c = c' := by
  unfold Pattern.key at h
  cases hc : p.csc <;> simp [hc] at h <;> omega

theorem Pattern.Good.rank_inj {p : Pattern} (h : p.Good) {r c r' c' k : Nat}
    (h1 : p.rank r c = .ok k) (h2 : p.rank r' c' = .ok k) : r = r' ∧ c = c' := by
  rw [h.rank_ok] at h1 h2
  rw [h1] at h2
  exact p.key_inj (Option.some.inj h2)

/-! ### `isZero` -/

theorem Pattern.Good.isZero_false {p : Pattern} (h : p.Good) (r c : Nat) :
    p.isZero r c = .ok false ↔ p.key r c ∈ p.elems := by
  unfold Pattern.isZero
  constructor
  · intro hz
    split at hz
    · rename_i k hk
      exact List.mem_of_getElem? ((h.rank_ok r c k).mp hk)
    · simp at hz
    · simp at hz
  · intro hm
    obtain ⟨k, hk⟩ := List.mem_iff_getElem?.mp hm
    rw [(h.rank_ok r c k).mpr hk]

theorem Pattern.Good.isZero_true {p : Pattern} (h : p.Good) (r c : Nat) :
    p.isZero r c = .ok true ↔ r < p.n ∧ c < p.n ∧ p.key r c ∉ p.elems := by
  rw [← h.rank_zero]
  unfold Pattern.isZero
  constructor
  · intro hz
    split at hz
    · simp at hz
    · assumption
    · simp at hz
  · intro hz
    rw [hz]

theorem Pattern.Good.isZero_error {p : Pattern} (h : p.Good) (r c : Nat) (e : MatErr) :
    p.isZero r c = .error e ↔ e = .elementOutOfRange ∧ (r ≥ p.n ∨ c ≥ p.n) := by
  constructor
  · intro hz
    by_cases hin : r < p.n ∧ c < p.n
    · exfalso
      by_cases hm : p.key r c ∈ p.elems
      · rw [(h.isZero_false r c).mpr hm] at hz; simp at hz
      · rw [(h.isZero_true r c).mpr ⟨hin.1, hin.2, hm⟩] at hz; simp at hz
    · have hr := (h.rank_oor r c).mpr (by omega)
      unfold Pattern.isZero at hz
      rw [hr] at hz
      simp at hz
      exact ⟨hz.symm, by omega⟩
  · rintro ⟨rfl, ho⟩
    have hr := (h.rank_oor r c).mpr ho
    unfold Pattern.isZero
    rw [hr]

/-! ### `slot`, `vectorSize`, `vectorIndex` (pure arithmetic, any pattern) -/

theorem slot_lt (p : Pattern) {blocks b k : Nat} (hb : b < blocks) (hk : k < p.nnz) :
    p.slot b k < p.vectorSize blocks := by
  unfold Pattern.slot Pattern.vectorSize
  by_cases hL : p.L = 0
  · simp only [hL, if_true]
    rw [Nat.add_comm]
    exact mul_add_lt hb hk
  · simp only [hL, if_false]
    have hL' : 0 < p.L := Nat.pos_of_ne_zero hL
    have h1 : k * p.L + b % p.L < p.nnz * p.L := mul_add_lt hk (Nat.mod_lt _ hL')
    have h2 := mul_add_lt (div_lt_ceil hL' hb) h1
    have e1 : b / p.L * p.L * p.nnz = b / p.L * (p.nnz * p.L) := by ac_rfl
    have e2 : (blocks + p.L - 1) / p.L * p.L * p.nnz = (blocks + p.L - 1) / p.L * (p.nnz * p.L) := by
      ac_rfl
    rw [e1, e2]
    omega

theorem slot_inj (p : Pattern) {b k b' k' : Nat} (hk : k < p.nnz) (hk' : k' < p.nnz)
    (h : p.slot b k = p.slot b' k') : b = b' ∧ k = k' := by
  unfold Pattern.slot at h
  by_cases hL : p.L = 0
  · simp only [hL, if_true] at h
    have h' : b * p.nnz + k = b' * p.nnz + k' := by omega
    exact mul_add_inj hk hk' h'
  · simp only [hL, if_false] at h
    have hL' : 0 < p.L := Nat.pos_of_ne_zero hL
    have h1 : k * p.L + b % p.L < p.nnz * p.L := mul_add_lt hk (Nat.mod_lt _ hL')
    have h1' : k' * p.L + b' % p.L < p.nnz * p.L := mul_add_lt hk' (Nat.mod_lt _ hL')
    have e1 : b / p.L * p.L * p.nnz = b / p.L * (p.nnz * p.L) := by ac_rfl
    have e2 : b' / p.L * p.L * p.nnz = b' / p.L * (p.nnz * p.L) := by ac_rfl
    rw [e1, e2] at h
    have h' : b / p.L * (p.nnz * p.L) + (k * p.L + b % p.L) =
        b' / p.L * (p.nnz * p.L) + (k' * p.L + b' % p.L) := by omega
    obtain ⟨h2, h3⟩ := mul_add_inj h1 h1' h'
    obtain ⟨h4, h5⟩ := mul_add_inj (Nat.mod_lt _ hL') (Nat.mod_lt _ hL') h3
    refine ⟨?_, h4⟩
    rw [← Nat.div_add_mod b p.L, ← Nat.div_add_mod b' p.L, h2, h5]

theorem vectorIndex_of_lt (p : Pattern) {blocks b : Nat} (hb : b < blocks) (r c : Nat) :
    p.vectorIndex blocks b r c = (p.rank r c).map (p.slot b) := by
  unfold Pattern.vectorIndex Pattern.rank Pattern.slot
  have hb' : decide (b ≥ blocks) = false := by simp; omega
  simp only [hb', Bool.or_false]
  by_cases h : (decide (r ≥ p.start.size - 1) || decide (c ≥ p.start.size - 1)) = true
  · simp only [if_pos h]
    rfl
  · simp only [if_neg h]
    generalize findIn _ _ _ _ = o
    cases o <;> rfl

theorem vectorIndex_of_ge (p : Pattern) {blocks b : Nat} (hb : b ≥ blocks) (r c : Nat) :
    p.vectorIndex blocks b r c = .error .elementOutOfRange := by
  unfold Pattern.vectorIndex
  have h' : (decide (r ≥ p.start.size - 1) || decide (c ≥ p.start.size - 1) ||
      decide (b ≥ blocks)) = true := by simp [hb]
  simp only [h', if_true]

/-! ### `diagRanks` -/

theorem Pattern.key_diag (p : Pattern) (i : Nat) : p.key i i = (i, i) := by
  unfold Pattern.key; cases p.csc <;> rfl

theorem Pattern.Good.mem_diagRanks {p : Pattern} (h : p.Good) (k : Nat) :
    k ∈ p.diagRanks ↔ ∃ i, p.elems[k]? = some (i, i) := by
  unfold Pattern.diagRanks
  rw [List.mem_filterMap]
  constructor
  · rintro ⟨i, _, hi⟩
    refine ⟨i, ?_⟩
    rw [← p.key_diag i, ← h.rank_ok]
    split at hi
    · rename_i k' hk'; rw [hk']; simp at hi; rw [hi]
    · simp at hi
  · rintro ⟨i, hi⟩
    rw [← p.key_diag i, ← h.rank_ok] at hi
    have hin : i < p.n := by
      apply Classical.byContradiction
      intro hcon
      have := (h.rank_oor i i).mpr (by omega)
      rw [this] at hi
      cases hi
    exact ⟨i, List.mem_range.mpr hin, by rw [hi]⟩

theorem Pattern.Good.diagRanks_nodup {p : Pattern} (h : p.Good) : p.diagRanks.Nodup := by
  unfold Pattern.diagRanks
  rw [List.nodup_iff_pairwise_ne]
  apply List.Pairwise.filterMap _ _ (List.nodup_iff_pairwise_ne.mp List.nodup_range)
  intro i i' hne k hk k' hk' hkk
  subst hkk
  have r1 : p.rank i i = .ok k := by
    split at hk
    · rename_i k1 hk1; rw [hk1]; simp at hk; rw [hk]
    · simp at hk
  have r2 : p.rank i' i' = .ok k := by
    split at hk'
    · rename_i k1 hk1; rw [hk1]; simp at hk'; rw [hk']
    · simp at hk'
  exact hne (h.rank_inj r1 r2).1

/-! ### `Pattern.mk'` builds good patterns -/

theorem good_mk_csr {n : Nat} {set : List Pair} (hw : WF n set) (L : Nat) :
    (Pattern.mk' n false L set).Good := by
  refine ⟨?_, ?_, ?_⟩ <;> simp [Pattern.mk'] <;> exact hw

/-- the CSC element list: the transposed pairs, sorted -/
def cscElems (set : List Pair) : List Pair := setOfList (set.map fun e => (e.2, e.1))

theorem mem_cscElems (set : List Pair) (r c : Nat) : (c, r) ∈ cscElems set ↔ (r, c) ∈ set := by
  unfold cscElems
  rw [mem_setOfList, List.mem_map]
  constructor
  · rintro ⟨e, he, heq⟩
    have : e = (r, c) := by
      cases e; simp at heq; simp [heq]
    exact this ▸ he
  · intro h; exact ⟨(r, c), h, rfl⟩

theorem wf_cscElems {n : Nat} {set : List Pair} (hr : ∀ e ∈ set, e.1 < n ∧ e.2 < n) :
    WF n (cscElems set) := by
  refine ⟨sorted_setOfList _, ?_⟩
  intro e he
  have := (mem_cscElems set e.2 e.1).mp he
  have := hr _ this
  simp at this; omega

theorem good_mk_csc {n : Nat} {set : List Pair} (hr : ∀ e ∈ set, e.1 < n ∧ e.2 < n) (L : Nat) :
    (Pattern.mk' n true L set).Good := by
  have hw := wf_cscElems hr
  refine ⟨?_, ?_, ?_⟩ <;> simp [Pattern.mk'] <;> exact hw

/-! ### both storage orders at once -/

theorem good_mk {n : Nat} {set : List Pair} (hw : WF n set) (csc : Bool) (L : Nat) :
    (Pattern.mk' n csc L set).Good := by
  cases csc
  · exact good_mk_csr hw L
  · exact good_mk_csc hw.range L

/-- the storage key of (r, c) is a stored element iff (r, c) is in the declared set -/
theorem mem_key_mk (n : Nat) (csc : Bool) (L : Nat) (set : List Pair) (r c : Nat) :
    (Pattern.mk' n csc L set).key r c ∈ (Pattern.mk' n csc L set).elems ↔ (r, c) ∈ set := by
  cases csc
  · simp [Pattern.key, Pattern.mk']
  · simpa [Pattern.key, Pattern.mk', cscElems] using mem_cscElems set r c

theorem nnz_mk {n : Nat} {set : List Pair} (hw : WF n set) (csc : Bool) (L : Nat) :
    (Pattern.mk' n csc L set).nnz = set.length := by
  rw [(good_mk hw csc L).nnz]
  cases csc
  · simp [Pattern.mk']
  · -- the sorted transposed list has the same length: both are duplicate free with the same members
    have h1 : (cscElems set).Nodup := (sorted_setOfList _).nodup
    have h2 : (set.map fun e : Pair => (e.2, e.1)).Nodup := by
      rw [List.nodup_iff_pairwise_ne, List.pairwise_map]
      refine List.Pairwise.imp ?_ (List.nodup_iff_pairwise_ne.mp hw.sorted.nodup)
      intro a b hab heq
      apply hab
      have := congrArg Prod.fst heq
      have := congrArg Prod.snd heq
      exact Prod.ext (by simp_all) (by simp_all)
    have hperm : (cscElems set).Perm (set.map fun e : Pair => (e.2, e.1)) := by
      rw [List.perm_ext_iff_of_nodup h1 h2]
      intro a; exact mem_setOfList _ a
    simpa [Pattern.mk', cscElems] using hperm.length_eq

/-! ### index of an element in a duplicate-free list -/

theorem getElem?_eq_some_iff_idxOf {l : List Pair} (hnd : l.Nodup) (k : Nat) (a : Pair) :
    l[k]? = some a ↔ a ∈ l ∧ k = l.idxOf a := by
  constructor
  · intro h
    obtain ⟨hk, he⟩ := List.getElem?_eq_some_iff.mp h
    refine ⟨List.mem_of_getElem? h, ?_⟩
    rw [← he, hnd.idxOf_getElem k hk]
  · rintro ⟨hm, rfl⟩
    have hlt := List.idxOf_lt_length_iff.mpr hm
    rw [List.getElem?_eq_some_iff]
    exact ⟨hlt, List.getElem_idxOf hlt⟩

end Micm
