/-
Helper lemmas for C10 (second part): a NaN travels through the whole Rosenbrock attempt.

  forcing (NaN at (c,v))  →  K₀ = linSolve(forcing)   (forward / backward substitution, any tables)
                          →  Yerr = Σ eᵢ Kᵢ           (Axpy folds from a zero fill)
                          →  error norm               (`NaNLaws.normalizedError_term`)
                          →  `NaNDetected`.

Everything is stated about the model definitions `solveCell`, `solveInPlaceCell`,
`SolverCfg.linSolve`, `stagesGo` (through `attStages`), `attYerr`, `attError`, `rosStep`, `rosLoop`,
`rosSolve`, for an arbitrary carrier with the IEEE facts `NaNLaws o` (Lemmas/Special.lean).

No assumption is made on the substitution tables `fw`/`bw`, on the matrix values (they may be
anything, NaN included), on the LU kind, on the sparse ordering or on the dense layout `L`.
-/
import Micm.Lemmas.Special
import Micm.Lemmas.RosLoop
namespace Micm
set_option linter.unusedSectionVars false

/-! ### (a) forward / backward substitution keep a NaN component -/

section Subst
variable {α : Type} [OfNat α 0] [Add α] [Sub α] [Mul α] [Div α] {o : Ops α}

/-- the elimination part of one row program (`x[t] -= M[e] * x[j]` for every pair) never repairs a
    NaN, whichever slot `t` it writes -/
theorem NaNLaws.rowElim_sticky (hl : NaNLaws o) (M : Array α) (t i : Nat) (ps : List (Nat × Nat))
    (x : Array α) (h : o.isNaN (rd x i) = true) :
    o.isNaN (rd (ps.foldl (fun x p => wr x t (rd x t - rd M p.1 * rd x p.2)) x) i) = true := by
  induction ps generalizing x with
  | nil => exact h
  | cons p ps ih =>
    simp only [List.foldl_cons]
    apply ih
    rw [rd_wr]
    split
    · rename_i hc
      have ht : t = i := hc.1
      subst ht
      exact hl.sub _ _ (Or.inl h)
    · exact h

/-- the division by the diagonal element (`x[t] /= M[d]`) never repairs a NaN -/
theorem NaNLaws.rowDiv_sticky (hl : NaNLaws o) (M : Array α) (t i d : Nat) (x : Array α)
    (h : o.isNaN (rd x i) = true) : o.isNaN (rd (wr x t (rd x t / rd M d)) i) = true := by
  rw [rd_wr]
  split
  · rename_i hc
    have ht : t = i := hc.1
    subst ht
    exact hl.div _ _ (Or.inl h)
  · exact h

/-- forward step of `solveCell` (any carrier; same text as the model's lambda) -/
def subFw (L : Array α) (s : Array α × Nat) (r : SubRow) : Array α × Nat :=
  let x := r.pairs.foldl (fun x p => wr x s.2 (rd x s.2 - rd L p.1 * rd x p.2)) s.1
  (wr x s.2 (rd x s.2 / rd L r.diag), s.2 + 1)

/-- backward step of `solveCell` / `solveInPlaceCell` -/
def subBw (U : Array α) (s : Array α × Nat) (r : SubRow) : Array α × Nat :=
  let x := r.pairs.foldl (fun x p => wr x s.2 (rd x s.2 - rd U p.1 * rd x p.2)) s.1
  (wr x s.2 (rd x s.2 / rd U r.diag), if s.2 = 0 then 0 else s.2 - 1)

/-- forward step of `solveInPlaceCell` (unit diagonal: no division) -/
def subFwIP (M : Array α) (s : Array α × Nat) (r : SubRow) : Array α × Nat :=
  let x := r.pairs.foldl (fun x p => wr x s.2 (rd x s.2 - rd M p.1 * rd x p.2)) s.1
  (x, s.2 + 1)

theorem solveCell_eq_sub (fw bw : List SubRow) (L U x : Array α) :
    solveCell fw bw L U x
      = (bw.foldl (subBw U) ((fw.foldl (subFw L) (x, 0)).1, (fw.foldl (subFw L) (x, 0)).1.size - 1)).1 :=
  rfl

theorem solveInPlaceCell_eq_sub (fw bw : List SubRow) (M x : Array α) :
    solveInPlaceCell fw bw M x
      = (bw.foldl (subBw M) ((fw.foldl (subFwIP M) (x, 0)).1,
            (fw.foldl (subFwIP M) (x, 0)).1.size - 1)).1 := rfl

theorem NaNLaws.subFw_sticky (hl : NaNLaws o) (L : Array α) (i : Nat) (s : Array α × Nat) (r : SubRow)
    (h : o.isNaN (rd s.1 i) = true) : o.isNaN (rd (subFw L s r).1 i) = true :=
  hl.rowDiv_sticky L s.2 i r.diag _ (hl.rowElim_sticky L s.2 i r.pairs s.1 h)

theorem NaNLaws.subBw_sticky (hl : NaNLaws o) (U : Array α) (i : Nat) (s : Array α × Nat) (r : SubRow)
    (h : o.isNaN (rd s.1 i) = true) : o.isNaN (rd (subBw U s r).1 i) = true :=
  hl.rowDiv_sticky U s.2 i r.diag _ (hl.rowElim_sticky U s.2 i r.pairs s.1 h)

theorem NaNLaws.subFwIP_sticky (hl : NaNLaws o) (M : Array α) (i : Nat) (s : Array α × Nat) (r : SubRow)
    (h : o.isNaN (rd s.1 i) = true) : o.isNaN (rd (subFwIP M s r).1 i) = true :=
  hl.rowElim_sticky M s.2 i r.pairs s.1 h

/-- a fold over row programs whose every step keeps slot `i` NaN keeps slot `i` NaN, whatever the
    row cursor (second component) does -/
theorem foldl_fst_nan_sticky {β : Type} (step : Array α × Nat → β → Array α × Nat) (i : Nat)
    (hstep : ∀ s b, o.isNaN (rd s.1 i) = true → o.isNaN (rd (step s b).1 i) = true)
    (l : List β) (s : Array α × Nat) (h : o.isNaN (rd s.1 i) = true) :
    o.isNaN (rd (l.foldl step s).1 i) = true := by
  induction l generalizing s with
  | nil => exact h
  | cons b l ih => simp only [List.foldl_cons]; exact ih _ (hstep s b h)

/-- **`LinearSolver::Solve`, one cell.**  If the right-hand side has a NaN in slot `i`, so has the
    solution — for *any* forward/backward tables and *any* `L`, `U` values.  (Slot `i` is written
    only by the row programs whose cursor is `i`, and those compute `(x[i] − …)/d`.) -/
theorem NaNLaws.solveCell_nan (hl : NaNLaws o) (fw bw : List SubRow) (L U x : Array α) (i : Nat)
    (h : o.isNaN (rd x i) = true) : o.isNaN (rd (solveCell fw bw L U x) i) = true := by
  rw [solveCell_eq_sub]
  exact foldl_fst_nan_sticky (subBw U) i (fun s r => hl.subBw_sticky U i s r) bw _
    (foldl_fst_nan_sticky (subFw L) i (fun s r => hl.subFw_sticky L i s r) fw (x, 0) h)

/-- **`LinearSolverInPlace::Solve`, one cell.** -/
theorem NaNLaws.solveInPlaceCell_nan (hl : NaNLaws o) (fw bw : List SubRow) (M x : Array α) (i : Nat)
    (h : o.isNaN (rd x i) = true) : o.isNaN (rd (solveInPlaceCell fw bw M x) i) = true := by
  rw [solveInPlaceCell_eq_sub]
  exact foldl_fst_nan_sticky (subBw M) i (fun s r => hl.subBw_sticky M i s r) bw _
    (foldl_fst_nan_sticky (subFwIP M) i (fun s r => hl.subFwIP_sticky M i s r) fw (x, 0) h)

end Subst

/-! ### the solver's `linSolve`, the first stage vector, `Yerror` -/

section Chain
variable {α : Type} [OfNat α 0] [OfNat α 1] [Add α] [Sub α] [Mul α] [Div α] {o : Ops α}

/-- `linear_solver_.Solve` of any configuration keeps a NaN at (cell `c`, variable `v`).  No range
    hypothesis: for `c` outside the block both reads are the same out-of-range `0`. -/
theorem NaNLaws.linSolve_nan (hl : NaNLaws o) (s : SolverCfg α) (J Lo Up x : Mat α) (c v : Nat)
    (h : o.isNaN (rd (x.getD c #[]) v) = true) :
    o.isNaN (rd ((s.linSolve J Lo Up x).getD c #[]) v) = true := by
  unfold SolverCfg.linSolve
  by_cases hc : c < x.size
  · have hx : x.getD c #[] = x[c] := by simp [Array.getD, hc]
    rw [hx] at h
    split
    · have e : (x.mapIdx fun c xr => solveInPlaceCell s.la.fw s.la.bw (J.getD c #[]) xr).getD c #[] =
          solveInPlaceCell s.la.fw s.la.bw (J.getD c #[]) x[c] := by simp [Array.getD, hc]
      rw [e]; exact hl.solveInPlaceCell_nan _ _ _ _ _ h
    · have e : (x.mapIdx fun c xr =>
          solveCell s.la.fw s.la.bw (Lo.getD c #[]) (Up.getD c #[]) xr).getD c #[] =
          solveCell s.la.fw s.la.bw (Lo.getD c #[]) (Up.getD c #[]) x[c] := by simp [Array.getD, hc]
      rw [e]; exact hl.solveCell_nan _ _ _ _ _ _ h
  · have hx : x.getD c #[] = #[] := by simp [Array.getD, hc]
    rw [hx] at h
    split
    · have e : (x.mapIdx fun c xr => solveInPlaceCell s.la.fw s.la.bw (J.getD c #[]) xr).getD c #[] =
          #[] := by simp [Array.getD, hc]
      rw [e]; exact h
    · have e : (x.mapIdx fun c xr =>
          solveCell s.la.fw s.la.bw (Lo.getD c #[]) (Up.getD c #[]) xr).getD c #[] = #[] := by
        simp [Array.getD, hc]
      rw [e]; exact h

variable (s : SolverCfg α) (p : RosParams α) (kc : Mat α)

/-- **the first stage vector of an attempt** (any carrier): `K[0] = linSolve(initial_forcing)`,
    provided there is at least one stage and the scratch `K` has at least one matrix.  Later stages
    never write `K[0]` (`stagesGo_K_lt`). -/
theorem attStages_K0 (r : RState α) (hst : 0 < p.stages) (hk : 0 < r.sc.k.size) :
    (attStages s p kc r).1.getD 0 #[] =
      s.linSolve (attFactor s p r).1 (attFactor s p r).2.1 (attFactor s p r).2.2 r.sc.f0 := by
  unfold attStages
  obtain ⟨n, hn⟩ : ∃ n, p.stages = n + 1 := ⟨p.stages - 1, by omega⟩
  rw [hn, stagesGo_succ, stagesGo_K_lt _ _ _ _ _ _ _ _ _ _ _ _ _ 0 (by omega)]
  have hpre : ∀ (K : Array (Mat α)) (ynew : Mat α) (st : Stats),
      (stagePre s p kc r.Y 0 K ynew st).1 = K := by
    intro K ynew st; unfold stagePre; rw [if_pos rfl]
  rw [hpre]
  have hsz : 0 < (stageCopy p 0 (r.sc.k.setIfInBounds 0 r.sc.f0)).size := by
    rw [stageCopy_size, Array.size_setIfInBounds]; exact hk
  rw [getD_set_eq _ _ _ _ hsz]
  have hrhs : stageRhs p r.ctl.h 0 (stageCopy p 0 (r.sc.k.setIfInBounds 0 r.sc.f0)) = r.sc.f0 := by
    unfold stageRhs
    simp only [List.range_zero, List.foldl_nil]
    rw [stageCopy_getD_ne p 0 _ 0 (by omega), getD_set_eq _ _ _ _ hk]
  rw [hrhs]

/-- (b) **stage combination.**  A NaN of `initial_forcing` at (c, v) is a NaN of `Yerror` at (c, v):
    `Yerror = 0 + e₀·K₀ + e₁·K₁ + …` and `e₀ · NaN` is NaN whatever `e₀` (even `0`) and whatever the
    other stage vectors are.  Side conditions: at least one stage, at least one `K` matrix, and
    (c, v) is a position of the `Yerror` buffer. -/
theorem NaNLaws.attYerr_nan (hl : NaNLaws o) (r : RState α) (hst : 0 < p.stages) (hk : 0 < r.sc.k.size)
    (c v : Nat) (hce : c < r.sc.yerr.size) (hve : v < (r.sc.yerr.getD c #[]).size)
    (h : o.isNaN (rd (r.sc.f0.getD c #[]) v) = true) :
    o.isNaN (rd ((attYerr s p kc r).getD c #[]) v) = true := by
  unfold attYerr
  have hc' : c < (fillM r.sc.yerr (0 : α)).size := by simpa [fillM] using hce
  have hv' : v < ((fillM r.sc.yerr (0 : α)).getD c #[]).size := by
    have hve' : v < r.sc.yerr[c].size := by simpa [Array.getD, hce] using hve
    simpa [fillM, Array.getD, hce] using hve'
  rw [rd_axpy_fold (fun i => rd p.e i) (fun i => (attStages s p kc r).1.getD i #[])
    (List.range p.stages) _ c v hc' hv']
  apply hl.foldl_add (fun j => rd p.e j * rd (((attStages s p kc r).1.getD j #[]).getD c #[]) v)
  refine Or.inr ⟨0, List.mem_range.2 hst, hl.mul _ _ (Or.inr ?_)⟩
  rw [attStages_K0 s p kc r hst hk]
  exact hl.linSolve_nan s _ _ _ _ c v h

/-! ### NaN terms of the norm that do not come from `Yerror` -/

/-- a NaN concentration `y[c][v]` makes its term of the norm NaN: `max(|NaN|, ·)` returns its first
    argument, so the scale `atol + rtol·NaN` is NaN and so is `err / NaN` -/
theorem NaNLaws.errTerm_y (hl : NaNLaws o) (atol : Array α) (rtol : α) (y ynew err : Mat α) (c v : Nat)
    (h : o.isNaN (rd (y.getD c #[]) v) = true) :
    o.isNaN (Micm.errTerm o atol rtol y ynew err c v) = true := by
  unfold Micm.errTerm
  simp only []
  rw [hl.cmax_left _ _ (hl.abs _ h)]
  exact hl.mul _ _ (Or.inl (hl.div _ _ (Or.inr (hl.add _ _ (Or.inr (hl.mul _ _ (Or.inr (hl.abs _ h))))))))

/-- a NaN absolute tolerance of variable `v` makes every term of that variable NaN -/
theorem NaNLaws.errTerm_atol (hl : NaNLaws o) (atol : Array α) (rtol : α) (y ynew err : Mat α) (c v : Nat)
    (h : o.isNaN (rd atol v) = true) : o.isNaN (Micm.errTerm o atol rtol y ynew err c v) = true := by
  unfold Micm.errTerm
  exact hl.mul _ _ (Or.inl (hl.div _ _ (Or.inr (hl.add _ _ (Or.inl h)))))

/-- a NaN relative tolerance makes every term NaN -/
theorem NaNLaws.errTerm_rtol (hl : NaNLaws o) (atol : Array α) (rtol : α) (y ynew err : Mat α) (c v : Nat)
    (h : o.isNaN rtol = true) : o.isNaN (Micm.errTerm o atol rtol y ynew err c v) = true := by
  unfold Micm.errTerm
  exact hl.mul _ _ (Or.inl (hl.div _ _ (Or.inr (hl.add _ _ (Or.inr (hl.mul _ _ (Or.inl h)))))))

/-! ### (c) the error norm of the attempt -/

variable (cs : Consts α) (atol : Array α) (rtol : α)

/-- NaN in `initial_forcing` at a real (cell, variable) ⇒ the attempt's error norm is NaN -/
theorem NaNLaws.attError_nan_f0 (hl : NaNLaws o) (r : RState α) (hst : 0 < p.stages)
    (hk : 0 < r.sc.k.size) (c v : Nat) (hc : c < r.Y.size) (hv : v < s.nSpecies)
    (hce : c < r.sc.yerr.size) (hve : v < (r.sc.yerr.getD c #[]).size)
    (h : o.isNaN (rd (r.sc.f0.getD c #[]) v) = true) :
    o.isNaN (attError o cs s p kc atol rtol r) = true := by
  unfold attError
  exact hl.normalizedError_term cs s.L s.nSpecies atol rtol _ _ _ c v
    ((mem_normOrder s.L r.Y.size s.nSpecies c v).2 ⟨hc, hv⟩)
    (hl.errTerm atol rtol _ _ _ c v (hl.attYerr_nan s p kc r hst hk c v hce hve h))

/-- NaN concentration at a real (cell, variable) ⇒ the attempt's error norm is NaN (no condition on
    the mechanism, the stages or the scratch) -/
theorem NaNLaws.attError_nan_y (hl : NaNLaws o) (r : RState α) (c v : Nat) (hc : c < r.Y.size)
    (hv : v < s.nSpecies) (h : o.isNaN (rd (r.Y.getD c #[]) v) = true) :
    o.isNaN (attError o cs s p kc atol rtol r) = true := by
  unfold attError
  exact hl.normalizedError_term cs s.L s.nSpecies atol rtol _ _ _ c v
    ((mem_normOrder s.L r.Y.size s.nSpecies c v).2 ⟨hc, hv⟩) (hl.errTerm_y atol rtol _ _ _ c v h)

/-- NaN absolute tolerance of a real variable (and at least one cell) ⇒ NaN error norm -/
theorem NaNLaws.attError_nan_atol (hl : NaNLaws o) (r : RState α) (v : Nat) (hc : 0 < r.Y.size)
    (hv : v < s.nSpecies) (h : o.isNaN (rd atol v) = true) :
    o.isNaN (attError o cs s p kc atol rtol r) = true := by
  unfold attError
  exact hl.normalizedError_term cs s.L s.nSpecies atol rtol _ _ _ 0 v
    ((mem_normOrder s.L r.Y.size s.nSpecies 0 v).2 ⟨hc, hv⟩) (hl.errTerm_atol atol rtol _ _ _ 0 v h)

/-- NaN relative tolerance (at least one cell and one variable) ⇒ NaN error norm -/
theorem NaNLaws.attError_nan_rtol (hl : NaNLaws o) (r : RState α) (hc : 0 < r.Y.size)
    (hv : 0 < s.nSpecies) (h : o.isNaN rtol = true) :
    o.isNaN (attError o cs s p kc atol rtol r) = true := by
  unfold attError
  exact hl.normalizedError_term cs s.L s.nSpecies atol rtol _ _ _ 0 0
    ((mem_normOrder s.L r.Y.size s.nSpecies 0 0).2 ⟨hc, hv⟩) (hl.errTerm_rtol atol rtol _ _ _ 0 0 h)

end Chain

/-! ### the first iteration of `rosSolve` -/

section First
variable {α : Type} [OfNat α 0] [OfNat α 1] [Add α] [Sub α] [Mul α] [Div α]
variable (o : Ops α) (cs : Consts α) (s : SolverCfg α) (p : RosParams α) (kc : Mat α)
    (atol : Array α) (rtol : α) (timeStep hm : α)

/-- "the loop is entered": the outer `while` test holds at `t = 0` (`0 − T + round_off ≤ 0`, i.e.
    the no-progress case of `C06_no_progress_iff` is not met) and the first `H` passes the
    step-size-too-small test.  (`number_of_steps = 0 > max_steps` is impossible.) -/
def LoopEntered (h : α) : Prop :=
  o.le (0 - timeStep + p.roundOff) 0 = true ∧
  (o.eq (0 + cs.tenth * h) 0 || o.le h p.roundOff) = false

/-- under `LoopEntered` the prologue of the first iteration starts a step -/
theorem rosPrologue_init (h : α) (Y : Mat α) (sc : Scratch α) (he : LoopEntered o cs p timeStep h) :
    rosPrologue o cs s p kc timeStep (rosInit h Y sc) = startStep o s kc timeStep (rosInit h Y sc) := by
  obtain ⟨h1, h2⟩ := he
  unfold rosPrologue
  have e1 : (rosInit h Y sc).inStep = false := rfl
  have e2 : (rosInit h Y sc).ctl.t = 0 := rfl
  have e3 : (rosInit h Y sc).ctl.h = h := rfl
  have e4 : (rosInit h Y sc).stats.numberOfSteps = 0 := rfl
  rw [e1, e2, e3, e4, h1, h2]
  simp

end First

end Micm
