/-
  C08 helper (symbolic): the textbook form of the two-stage Rosenbrock set, computed by the very same
  conversion `OrderCond.toTextbookK` that is evaluated on the generated tables, in closed form over an
  arbitrary field, for the formulas of `TwoStageRosenbrockParameters()`:
     a = 1/g,  c = −2/g,  m = (3/(2g), 1/(2g)),  e = (1/(2g), 1/(2g)),  γ = g.
-/
import Micm.Spec.OrderConditions
import Mathlib.Tactic.Ring
import Mathlib.Tactic.FieldSimp
import Mathlib.Algebra.Field.Basic

namespace Micm
namespace OrderCond

theorem range0 : List.range 0 = [] := rfl
theorem range1 : List.range 1 = [0] := rfl
theorem range2 : List.range 2 = [0, 1] := rfl

/-- implementation-form coefficients of the two-stage set as functions of `g` (header formulas) -/
def ros2Textbook {K : Type} [Field K] (g : K) : Textbook K :=
  toTextbookK 2 [1 / g] [-2 / g] [3 / (2 * g), 1 / (2 * g)] [1 / (2 * g), 1 / (2 * g)] g

/-- closed form of the textbook coefficients of the two-stage set -/
theorem ros2Textbook_eq {K : Type} [Field K] (g : K) (hg : g ≠ 0) (h2 : (2 : K) ≠ 0) :
    ros2Textbook g
      = { s := 2, g := g, Gam := [[g, 0], [-2 * g, g]], alpha := [[0, 0], [1, 0]],
          beta := [[0, 0], [1 - 2 * g, 0]], b := [1 / 2, 1 / 2], bh := [1, 0],
          al := [0, 1], be := [0, 1 - 2 * g], gs := [g, -g] } := by
  simp only [ros2Textbook, toTextbookK, lowerInv, matMul, vecMat, mkMat, mkVec, sumTo, mget, vget,
    vsum, GinvEntry, AEntry, lt, range2, range1, range0, List.foldl_cons, List.foldl_nil,
    List.map_cons, List.map_nil, List.nil_append, List.cons_append, List.getD_cons_zero,
    List.getD_cons_succ, List.getD_nil]
  simp
  refine ⟨?_, ?_, ?_, ⟨?_, ?_⟩, ?_, ?_, ?_, ?_⟩ <;> field_simp <;> ring

/-- order conditions of the two-stage set as exact identities in `g`; L-stability ⇔ `2(g−1)² = 1` -/
theorem ros2_exact_aux {K : Type} [Field K] (g : K) (hg : g ≠ 0) (h2 : (2 : K) ≠ 0) :
    let T := ros2Textbook g
    o1 T T.b = 0 ∧ o2 T T.b = 0 ∧ o1 T T.bh = 0 ∧ (Rinf T T.b = 0 ↔ 2 * (g - 1) ^ 2 = 1) := by
  intro T
  simp only [T, ros2Textbook_eq g hg h2]
  simp only [o1, o2, Rinf, lowerSolveOnes, frac, ofN, sumTo, mget, vget, range2, range1, range0,
    List.foldl_cons, List.foldl_nil, List.nil_append, List.cons_append, List.getD_cons_zero,
    List.getD_cons_succ, List.getD_nil]
  simp only [zero_add, sub_zero, mul_zero, add_zero, one_add_one_eq_two]
  refine ⟨by field_simp; ring, by field_simp; ring, by ring, ?_⟩
  have key : (1 - (1 / 2 * (1 / g) + 1 / 2 * ((1 - (1 + -2 * g) * (1 / g)) / g)))
      = (2 * (g - 1) ^ 2 - 1) / (2 * g ^ 2) := by field_simp; ring
  rw [key, div_eq_zero_iff, sub_eq_zero]
  simp [hg, h2]

end OrderCond
end Micm
