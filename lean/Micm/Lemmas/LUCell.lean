import Micm.Lemmas.Substitution
import Micm.Spec.SparseStage

/-!
C03, numeric side: the per-cell Doolittle kernels (`doolittleCell`, `doolittleInPlaceCell`) driven
by the tables of `doolittleRows` / `doolittleInPlaceRows` implement, row by row, the
pattern-restricted Doolittle stage `SparseLU.sstage`; with `SparseLU.rel_stage` the logical views
of the results are the dense Doolittle factors of the view of `A`.

The sparse addressing is abstracted by `GoodPattern` (ranks of present elements are in range and
injective), proved for `Pattern.mk'` elsewhere.
-/
open Finset
namespace Micm
open DenseLU (LU)
open SparseLU (sstage slu Closed Rel)
variable {K : Type} [Field K]

/-- presence of element `(r,c)` in a pattern, as a `Bool` matrix -/
def pres (p : Pattern) (r c : Nat) : Bool := !p.zero? r c

theorem pres_true (p : Pattern) (r c : Nat) : pres p r c = true ↔ p.zero? r c = false := by
  simp [pres]

theorem pres_false (p : Pattern) (r c : Nat) : pres p r c = false ↔ p.zero? r c = true := by
  simp [pres]

/-- (H1) what the numeric proofs need from the sparse addressing, on the `n × n` block: ranks of
    present elements are valid slots and distinct elements have distinct ranks. -/
structure GoodPattern (n : Nat) (p : Pattern) : Prop where
  rk_lt : ∀ r c, r < n → c < n → p.zero? r c = false → p.rk r c < p.nnz
  rk_inj : ∀ r c r' c', r < n → c < n → r' < n → c' < n →
    p.zero? r c = false → p.zero? r' c' = false → p.rk r c = p.rk r' c' → r = r' ∧ c = c'

/-! ### a fold of single-slot writes with distinct targets -/

/-- one *phase* of a Doolittle row: a fold over the entries produced for the indices
    `a … a+len-1`; index `k` (when `P k`) owns the slot `tk k`, every step is a single write to its
    own slot whose value only depends on slots not owned by the phase.  (Prefix version.) -/
theorem phase_generic_aux {β : Type} (a len : Nat) (f : Nat → Option β) (val : β → K)
    (step : Array K → β → Array K) (M0 : Array K) (tk : Nat → Nat) (P : Nat → Prop)
    (hf : ∀ k e, a ≤ k → k < a + len → f k = some e → P k)
    (hinj : ∀ k k', a ≤ k → k < a + len → a ≤ k' → k' < a + len → P k → P k' → tk k = tk k' → k = k')
    (hlt : ∀ k, a ≤ k → k < a + len → P k → tk k < M0.size)
    (hstep : ∀ M k e, a ≤ k → k < a + len → f k = some e → M.size = M0.size →
        (∀ x, (∀ k', a ≤ k' → k' < a + len → P k' → x ≠ tk k') → rd M x = rd M0 x) →
        rd M (tk k) = rd M0 (tk k) →
        step M e = wr M (tk k) (val e)) (m : Nat) (hm : m ≤ len) :
    (((List.range' a m).filterMap f).foldl step M0).size = M0.size ∧
    (∀ x, (∀ k, a ≤ k → k < a + m → P k → x ≠ tk k) →
        rd (((List.range' a m).filterMap f).foldl step M0) x = rd M0 x) ∧
    (∀ k e, a ≤ k → k < a + m → f k = some e →
        rd (((List.range' a m).filterMap f).foldl step M0) (tk k) = val e) := by
  induction m with
  | zero => exact ⟨rfl, fun _ _ => rfl, by intro k e h1 h2; omega⟩
  | succ m ih =>
    obtain ⟨g1, g2, g3⟩ := ih (by omega)
    rw [List.range'_concat, List.filterMap_append, List.foldl_append, Nat.one_mul]
    generalize ((List.range' a m).filterMap f).foldl step M0 = M at g1 g2 g3
    cases hfk : f (a + m) with
    | none =>
      simp only [List.filterMap_cons, hfk, List.filterMap_nil, List.foldl_nil]
      refine ⟨g1, ?_, ?_⟩
      · intro x hx
        exact g2 x (fun k h1 h2 hp => hx k h1 (by omega) hp)
      · intro k e h1 h2 he
        have : k ≠ a + m := by intro h; subst h; rw [hfk] at he; cases he
        exact g3 k e h1 (by omega) he
    | some e =>
      simp only [List.filterMap_cons, hfk, List.filterMap_nil, List.foldl_cons, List.foldl_nil]
      have hPk : P (a + m) := hf _ e (by omega) (by omega) hfk
      have hs : step M e = wr M (tk (a + m)) (val e) :=
        hstep M (a + m) e (by omega) (by omega) hfk g1
          (fun x hx => g2 x (fun k h1 h2 hp => hx k h1 (by omega) hp))
          (g2 _ (fun k h1 h2 hp heq => by
            have := hinj _ _ (by omega) (by omega) h1 (by omega) hPk hp heq
            omega))
      rw [hs]
      refine ⟨by simp [g1], ?_, ?_⟩
      · intro x hx
        rw [rd_wr_ne _ _ _ _ (hx (a + m) (by omega) (by omega) hPk).symm]
        exact g2 x (fun k h1 h2 hp => hx k h1 (by omega) hp)
      · intro k e' h1 h2 he'
        by_cases hk : k = a + m
        · subst hk
          rw [hfk] at he'
          cases he'
          rw [rd_wr_same]
          rw [g1]; exact hlt _ (by omega) (by omega) hPk
        · have hPk' : P k := hf k e' h1 (by omega) he'
          have hne : tk (a + m) ≠ tk k := fun h =>
            hk (hinj _ _ (by omega) (by omega) h1 (by omega) hPk hPk' h).symm
          rw [rd_wr_ne _ _ _ _ hne]
          exact g3 k e' h1 (by omega) he'

theorem phase_generic {β : Type} (a len : Nat) (f : Nat → Option β) (val : β → K)
    (step : Array K → β → Array K) (M0 : Array K) (tk : Nat → Nat) (P : Nat → Prop)
    (hf : ∀ k e, a ≤ k → k < a + len → f k = some e → P k)
    (hinj : ∀ k k', a ≤ k → k < a + len → a ≤ k' → k' < a + len → P k → P k' → tk k = tk k' → k = k')
    (hlt : ∀ k, a ≤ k → k < a + len → P k → tk k < M0.size)
    (hstep : ∀ M k e, a ≤ k → k < a + len → f k = some e → M.size = M0.size →
        (∀ x, (∀ k', a ≤ k' → k' < a + len → P k' → x ≠ tk k') → rd M x = rd M0 x) →
        rd M (tk k) = rd M0 (tk k) →
        step M e = wr M (tk k) (val e)) :
    (((List.range' a len).filterMap f).foldl step M0).size = M0.size ∧
    (∀ x, (∀ k, a ≤ k → k < a + len → P k → x ≠ tk k) →
        rd (((List.range' a len).filterMap f).foldl step M0) x = rd M0 x) ∧
    (∀ k e, a ≤ k → k < a + len → f k = some e →
        rd (((List.range' a len).filterMap f).foldl step M0) (tk k) = val e) :=
  phase_generic_aux a len f val step M0 tk P hf hinj hlt hstep len (le_refl len)

/-! ### index pairs of one entry -/

/-- the `(L rank, U rank)` pairs `j < m` of element `(r,c)`: both `(r,j) ∈ Lp` and `(j,c) ∈ Up` -/
def pairsOf (Lp Up : Pattern) (m r c : Nat) : List (Nat × Nat) :=
  (List.range m).filterMap fun j =>
    if Lp.zero? r j || Up.zero? j c then none else some (Lp.rk r j, Up.rk j c)

theorem mem_pairsOf (Lp Up : Pattern) (m r c : Nat) (p : Nat × Nat) (h : p ∈ pairsOf Lp Up m r c) :
    ∃ j, j < m ∧ Lp.zero? r j = false ∧ Up.zero? j c = false ∧ p = (Lp.rk r j, Up.rk j c) := by
  obtain ⟨j, hj, hg⟩ := mem_filterMap_range _ _ _ h
  cases h1 : Lp.zero? r j <;> cases h2 : Up.zero? j c <;> simp [h1, h2] at hg
  exact ⟨j, hj, h1, h2, hg.symm⟩

theorem pairsOf_ne_nil (Lp Up : Pattern) (m r c j : Nat) (hj : j < m)
    (h1 : Lp.zero? r j = false) (h2 : Up.zero? j c = false) : pairsOf Lp Up m r c ≠ [] := by
  intro h
  have : (Lp.rk r j, Up.rk j c) ∈ pairsOf Lp Up m r c := by
    unfold pairsOf
    rw [List.mem_filterMap]
    exact ⟨j, List.mem_range.mpr hj, by simp [h1, h2]⟩
  rw [h] at this
  cases this

theorem exists_of_pairsOf_ne_nil (Lp Up : Pattern) (m r c : Nat) (h : pairsOf Lp Up m r c ≠ []) :
    ∃ j, j < m ∧ Lp.zero? r j = false ∧ Up.zero? j c = false := by
  obtain ⟨p, hp⟩ := List.exists_mem_of_ne_nil _ h
  obtain ⟨j, h1, h2, h3, _⟩ := mem_pairsOf _ _ _ _ _ _ hp
  exact ⟨j, h1, h2, h3⟩

theorem sum_pairsOf (Lp Up : Pattern) (m r c : Nat) (f : Nat × Nat → K) :
    ((pairsOf Lp Up m r c).map f).sum
      = ∑ j ∈ range m, (if pres Lp r j = true ∧ pres Up j c = true
          then f (Lp.rk r j, Up.rk j c) else 0) := by
  unfold pairsOf
  rw [sum_filterMap_range]
  apply sum_congr rfl
  intro j _
  cases h1 : Lp.zero? r j <;> cases h2 : Up.zero? j c <;> simp [pres, h1, h2]

/-! ### Doolittle (separate L, U): the tables, row by row -/

def uEntry (A Lp Up : Pattern) (i k : Nat) : Option DEntry :=
  if A.zero? i k then
    if (pairsOf Lp Up i i k).isEmpty && k != i then none else some ⟨none, Up.rk i k, pairsOf Lp Up i i k⟩
  else some ⟨some (A.rk i k), Up.rk i k, pairsOf Lp Up i i k⟩

def lEntry (A Lp Up : Pattern) (i k : Nat) : Option DEntry :=
  if A.zero? k i then
    if (pairsOf Lp Up i k i).isEmpty then none else some ⟨none, Lp.rk k i, pairsOf Lp Up i k i⟩
  else some ⟨some (A.rk k i), Lp.rk k i, pairsOf Lp Up i k i⟩

def dRow (A Lp Up : Pattern) (n i : Nat) : DRow :=
  { u := (rangeFrom i n).filterMap (uEntry A Lp Up i), lii := Lp.rk i i,
    l := (rangeFrom (i + 1) n).filterMap (lEntry A Lp Up i), uii := Up.rk i i }

theorem doolittleRows_eq (A Lp Up : Pattern) :
    doolittleRows A Lp Up = (List.range A.n).map (dRow A Lp Up A.n) := rfl

/-- initial value of an entry: `A` where its pattern has the element, else `0` -/
def dInit (A : Array K) (a : Option Nat) : K := match a with | some a => rd A a | none => 0

def dStepU (A L : Array K) (U : Array K) (e : DEntry) : Array K :=
  let U := wr U e.t (dInit A e.a)
  e.pairs.foldl (fun U p => wr U e.t (rd U e.t - rd L p.1 * rd U p.2)) U

def dStepL (A U : Array K) (uii : Nat) (L : Array K) (e : DEntry) : Array K :=
  let L := wr L e.t (dInit A e.a)
  let L := e.pairs.foldl (fun L p => wr L e.t (rd L e.t - rd L p.1 * rd U p.2)) L
  wr L e.t (rd L e.t / rd U uii)

def dStep (A : Array K) (LU : Array K × Array K) (r : DRow) : Array K × Array K :=
  let U := r.u.foldl (dStepU A LU.1) LU.2
  let L := wr LU.1 r.lii 1
  let L := r.l.foldl (dStepL A U r.uii) L
  (L, U)

theorem doolittleCell_eq (rows : List DRow) (A : Array K) (LU : Array K × Array K) :
    doolittleCell rows A LU = rows.foldl (dStep A) LU := rfl

theorem dStepU_eq (A L U : Array K) (e : DEntry) (ht : e.t < U.size)
    (hne : ∀ p ∈ e.pairs, p.2 ≠ e.t) :
    dStepU A L U e
      = wr U e.t (dInit A e.a - (e.pairs.map fun p => rd L p.1 * rd U p.2).sum) := by
  have h := pairFold_init (fun (U : Array K) (p : Nat × Nat) => rd L p.1 * rd U p.2) e.t e.pairs U ht
    (by intro p hp v; show rd L p.1 * rd (wr U e.t v) p.2 = _
        rw [rd_wr_ne _ _ _ _ (hne p hp).symm]) (dInit A e.a)
  rw [foldl_sub_eq] at h
  exact h

theorem dStepL_eq (A U : Array K) (uii : Nat) (L : Array K) (e : DEntry) (ht : e.t < L.size)
    (hne : ∀ p ∈ e.pairs, p.1 ≠ e.t) :
    dStepL A U uii L e
      = wr L e.t ((dInit A e.a - (e.pairs.map fun p => rd L p.1 * rd U p.2).sum) / rd U uii) := by
  have h := pairFold_init (fun (L : Array K) (p : Nat × Nat) => rd L p.1 * rd U p.2) e.t e.pairs L ht
    (by intro p hp v; show rd (wr L e.t v) p.1 * rd U p.2 = _
        rw [rd_wr_ne _ _ _ _ (hne p hp).symm]) (dInit A e.a)
  rw [foldl_sub_eq] at h
  unfold dStepL
  simp only [h, rd_wr_same _ _ _ ht, wr_wr_same]

/-- (H1)+(H2): the hypotheses on the pattern triple.  `closed`: diagonal of `U` present, support
    of `A` contained, closed under the two fill rules (Appendix A.5).  `minU`/`minL`: the patterns
    are not larger than the fill closure (otherwise `Initialize` emits no entry for the extra slot
    and it keeps its prior contents).  `lowL`/`uppU`/`diagL`: shapes of the two patterns. -/
structure LUSetup (n : Nat) (A Lp Up : Pattern) : Prop where
  gL : GoodPattern n Lp
  gU : GoodPattern n Up
  closed : Closed n (pres A) (pres Lp) (pres Up)
  diagL : ∀ i, i < n → Lp.zero? i i = false
  lowL : ∀ r c, r < n → c < n → Lp.zero? r c = false → c ≤ r
  uppU : ∀ r c, r < n → c < n → Up.zero? r c = false → r ≤ c
  minU : ∀ i k, i < k → k < n → Up.zero? i k = false →
    A.zero? i k = false ∨ ∃ j, j < i ∧ Lp.zero? i j = false ∧ Up.zero? j k = false
  minL : ∀ i k, i < k → k < n → Lp.zero? k i = false →
    A.zero? k i = false ∨ ∃ j, j < i ∧ Lp.zero? k j = false ∧ Up.zero? j i = false

theorem dInit_view (A : Pattern) (a : Array K) (r c : Nat) :
    dInit a (if A.zero? r c then none else some (A.rk r c)) = view A a r c := by
  cases hz : A.zero? r c <;> simp [dInit, view, hz]

theorem uEntry_some (A Lp Up : Pattern) (i k : Nat) (e : DEntry) (h : uEntry A Lp Up i k = some e) :
    e.t = Up.rk i k ∧ e.pairs = pairsOf Lp Up i i k ∧
    e.a = (if A.zero? i k then none else some (A.rk i k)) ∧
    (A.zero? i k = false ∨ k = i ∨ pairsOf Lp Up i i k ≠ []) := by
  unfold uEntry at h
  cases hz : A.zero? i k
  · simp only [hz, Bool.false_eq_true, if_false, Option.some.injEq] at h
    subst h
    exact ⟨rfl, rfl, by simp, Or.inl rfl⟩
  · simp only [hz, if_true] at h
    split at h
    · cases h
    · next hc =>
      simp only [Option.some.injEq] at h
      subst h
      refine ⟨rfl, rfl, by simp, Or.inr ?_⟩
      by_cases hk : k = i
      · exact Or.inl hk
      · right
        intro hnil
        apply hc
        simp [hnil, hk]

theorem lEntry_some (A Lp Up : Pattern) (i k : Nat) (e : DEntry) (h : lEntry A Lp Up i k = some e) :
    e.t = Lp.rk k i ∧ e.pairs = pairsOf Lp Up i k i ∧
    e.a = (if A.zero? k i then none else some (A.rk k i)) ∧
    (A.zero? k i = false ∨ pairsOf Lp Up i k i ≠ []) := by
  unfold lEntry at h
  cases hz : A.zero? k i
  · simp only [hz, Bool.false_eq_true, if_false, Option.some.injEq] at h
    subst h
    exact ⟨rfl, rfl, by simp, Or.inl rfl⟩
  · simp only [hz, if_true] at h
    split at h
    · cases h
    · next hc =>
      simp only [Option.some.injEq] at h
      subst h
      refine ⟨rfl, rfl, by simp, Or.inr ?_⟩
      intro hnil
      apply hc
      simp [hnil]

section setup
variable {n : Nat} {A Lp Up : Pattern}

theorem uEntry_present (h : LUSetup n A Lp Up) (i k : Nat) (hik : i ≤ k) (hk : k < n)
    (e : DEntry) (he : uEntry A Lp Up i k = some e) : Up.zero? i k = false := by
  obtain ⟨_, _, _, h4⟩ := uEntry_some A Lp Up i k e he
  rw [← pres_true]
  rcases h4 with h4 | h4 | h4
  · exact h.closed.supU i k hik hk ((pres_true _ _ _).mpr h4)
  · subst h4; exact h.closed.diagU k hk
  · obtain ⟨j, hj, h1, h2⟩ := exists_of_pairsOf_ne_nil _ _ _ _ _ h4
    exact h.closed.fillU i j k hj hik hk ((pres_true _ _ _).mpr h1) ((pres_true _ _ _).mpr h2)

theorem lEntry_present (h : LUSetup n A Lp Up) (i k : Nat) (hik : i < k) (hk : k < n)
    (e : DEntry) (he : lEntry A Lp Up i k = some e) : Lp.zero? k i = false := by
  obtain ⟨_, _, _, h4⟩ := lEntry_some A Lp Up i k e he
  rw [← pres_true]
  rcases h4 with h4 | h4
  · exact h.closed.supL k i hik hk ((pres_true _ _ _).mpr h4)
  · obtain ⟨j, hj, h1, h2⟩ := exists_of_pairsOf_ne_nil _ _ _ _ _ h4
    exact h.closed.fillL i j k hj hik hk ((pres_true _ _ _).mpr h1) ((pres_true _ _ _).mpr h2)

theorem uEntry_isSome (h : LUSetup n A Lp Up) (i k : Nat) (hik : i ≤ k) (hk : k < n)
    (hp : Up.zero? i k = false) : ∃ e, uEntry A Lp Up i k = some e := by
  unfold uEntry
  cases hz : A.zero? i k
  · simp
  · by_cases hki : k = i
    · simp [hki]
    · rcases h.minU i k (by omega) hk hp with h1 | ⟨j, hj, h1, h2⟩
      · rw [hz] at h1; cases h1
      · have := pairsOf_ne_nil Lp Up i i k j hj h1 h2
        simp [this]

theorem lEntry_isSome (h : LUSetup n A Lp Up) (i k : Nat) (hik : i < k) (hk : k < n)
    (hp : Lp.zero? k i = false) : ∃ e, lEntry A Lp Up i k = some e := by
  unfold lEntry
  cases hz : A.zero? k i
  · simp
  · rcases h.minL i k hik hk hp with h1 | ⟨j, hj, h1, h2⟩
    · rw [hz] at h1; cases h1
    · have := pairsOf_ne_nil Lp Up i k i j hj h1 h2
      simp [this]

end setup

section phases
variable {n : Nat} {A Lp Up : Pattern}

/-- the `U` half of row `i`: every present `U(i,k)`, `k ≥ i`, receives the pattern-restricted
    Doolittle value computed from the *old* arrays, every other present slot of `U` is kept -/
theorem uPhase (h : LUSetup n A Lp Up) (a L U0 : Array K) (i : Nat) (hi : i < n)
    (hUs : U0.size = Up.nnz) :
    (((rangeFrom i n).filterMap (uEntry A Lp Up i)).foldl (dStepU a L) U0).size = Up.nnz ∧
    (∀ k, i ≤ k → k < n → Up.zero? i k = false →
      rd (((rangeFrom i n).filterMap (uEntry A Lp Up i)).foldl (dStepU a L) U0) (Up.rk i k)
        = view A a i k - ∑ j ∈ range i, (if pres Lp i j = true ∧ pres Up j k = true
            then rd L (Lp.rk i j) * rd U0 (Up.rk j k) else 0)) ∧
    (∀ r c, r < n → c < n → Up.zero? r c = false → ¬ (r = i ∧ i ≤ c) →
      rd (((rangeFrom i n).filterMap (uEntry A Lp Up i)).foldl (dStepU a L) U0) (Up.rk r c)
        = rd U0 (Up.rk r c)) := by
  have hlen : i + (n - i) = n := by omega
  obtain ⟨g1, g2, g3⟩ := phase_generic i (n - i) (uEntry A Lp Up i)
    (fun e => dInit a e.a - (e.pairs.map fun p => rd L p.1 * rd U0 p.2).sum)
    (dStepU a L) U0 (fun k => Up.rk i k) (fun k => Up.zero? i k = false)
    (fun k e h1 h2 he => uEntry_present h i k h1 (by omega) e he)
    (fun k k' h1 h2 h1' h2' hp hp' heq =>
      (h.gU.rk_inj i k i k' hi (by omega) hi (by omega) hp hp' heq).2)
    (fun k h1 h2 hp => by rw [hUs]; exact h.gU.rk_lt i k hi (by omega) hp)
    (by
      intro M k e h1 h2 he hMs hM _
      obtain ⟨e1, e2, _, _⟩ := uEntry_some A Lp Up i k e he
      have hpk := uEntry_present h i k h1 (by omega) e he
      have hne : ∀ p ∈ e.pairs, p.2 ≠ e.t := by
        intro p hp heq
        rw [e2] at hp
        obtain ⟨j, hj, _, hj2, rfl⟩ := mem_pairsOf _ _ _ _ _ _ hp
        rw [e1] at heq
        have := (h.gU.rk_inj j k i k (by omega) (by omega) hi (by omega) hj2 hpk heq).1
        omega
      rw [dStepU_eq a L M e (by rw [e1, hMs, hUs]; exact h.gU.rk_lt i k hi (by omega) hpk) hne, e1]
      congr 2
      apply congrArg
      apply List.map_congr_left
      intro p hp
      rw [e2] at hp
      obtain ⟨j, hj, _, hj2, rfl⟩ := mem_pairsOf _ _ _ _ _ _ hp
      rw [hM]
      intro k' h1' h2' hp' heq
      have := (h.gU.rk_inj j k i k' (by omega) (by omega) hi (by omega) hj2 hp' heq).1
      omega)
  unfold rangeFrom
  refine ⟨by rw [g1, hUs], ?_, ?_⟩
  · intro k h1 h2 hp
    obtain ⟨e, he⟩ := uEntry_isSome h i k h1 h2 hp
    obtain ⟨_, e2, e3, _⟩ := uEntry_some A Lp Up i k e he
    rw [g3 k e h1 (by omega) he, e2, e3, dInit_view, sum_pairsOf]
  · intro r c hr hc hp hnot
    apply g2
    intro k h1 h2 hpk heq
    have := h.gU.rk_inj r c i k hr hc hi (by omega) hp hpk heq
    omega

/-- the `L` half of row `i` (after `L(i,i) := 1`) -/
theorem lPhase (h : LUSetup n A Lp Up) (a U1 L0 : Array K) (i : Nat) (hi : i < n)
    (hLs : L0.size = Lp.nnz) :
    (((rangeFrom (i + 1) n).filterMap (lEntry A Lp Up i)).foldl (dStepL a U1 (Up.rk i i))
        (wr L0 (Lp.rk i i) 1)).size = Lp.nnz ∧
    (∀ k, i < k → k < n → Lp.zero? k i = false →
      rd (((rangeFrom (i + 1) n).filterMap (lEntry A Lp Up i)).foldl (dStepL a U1 (Up.rk i i))
          (wr L0 (Lp.rk i i) 1)) (Lp.rk k i)
        = (view A a k i - ∑ j ∈ range i, (if pres Lp k j = true ∧ pres Up j i = true
            then rd L0 (Lp.rk k j) * rd U1 (Up.rk j i) else 0)) / rd U1 (Up.rk i i)) ∧
    rd (((rangeFrom (i + 1) n).filterMap (lEntry A Lp Up i)).foldl (dStepL a U1 (Up.rk i i))
        (wr L0 (Lp.rk i i) 1)) (Lp.rk i i) = 1 ∧
    (∀ r c, r < n → c < n → Lp.zero? r c = false → ¬ (c = i ∧ i ≤ r) →
      rd (((rangeFrom (i + 1) n).filterMap (lEntry A Lp Up i)).foldl (dStepL a U1 (Up.rk i i))
          (wr L0 (Lp.rk i i) 1)) (Lp.rk r c) = rd L0 (Lp.rk r c)) := by
  have hlen : i + 1 + (n - (i + 1)) = n := by omega
  have hii := h.diagL i hi
  have hL1 : ∀ r c, r < n → c < n → Lp.zero? r c = false → ¬ (r = i ∧ c = i) →
      rd (wr L0 (Lp.rk i i) 1) (Lp.rk r c) = rd L0 (Lp.rk r c) := by
    intro r c hr hc hp hnot
    apply rd_wr_ne
    intro heq
    have := h.gL.rk_inj i i r c hi hi hr hc hii hp heq
    omega
  obtain ⟨g1, g2, g3⟩ := phase_generic (i + 1) (n - (i + 1)) (lEntry A Lp Up i)
    (fun e => (dInit a e.a - (e.pairs.map fun p => rd L0 p.1 * rd U1 p.2).sum) / rd U1 (Up.rk i i))
    (dStepL a U1 (Up.rk i i)) (wr L0 (Lp.rk i i) 1) (fun k => Lp.rk k i)
    (fun k => Lp.zero? k i = false)
    (fun k e h1 h2 he => lEntry_present h i k (by omega) (by omega) e he)
    (fun k k' h1 h2 h1' h2' hp hp' heq =>
      (h.gL.rk_inj k i k' i (by omega) hi (by omega) hi hp hp' heq).1)
    (fun k h1 h2 hp => by rw [wr_size, hLs]; exact h.gL.rk_lt k i (by omega) hi hp)
    (by
      intro M k e h1 h2 he hMs hM _
      obtain ⟨e1, e2, _, _⟩ := lEntry_some A Lp Up i k e he
      have hpk := lEntry_present h i k (by omega) (by omega) e he
      have hne : ∀ p ∈ e.pairs, p.1 ≠ e.t := by
        intro p hp heq
        rw [e2] at hp
        obtain ⟨j, hj, hj1, _, rfl⟩ := mem_pairsOf _ _ _ _ _ _ hp
        rw [e1] at heq
        have := (h.gL.rk_inj k j k i (by omega) (by omega) (by omega) hi hj1 hpk heq).2
        omega
      rw [dStepL_eq a U1 _ M e
        (by rw [e1, hMs, wr_size, hLs]; exact h.gL.rk_lt k i (by omega) hi hpk) hne, e1]
      congr 3
      apply congrArg
      apply List.map_congr_left
      intro p hp
      rw [e2] at hp
      obtain ⟨j, hj, hj1, _, rfl⟩ := mem_pairsOf _ _ _ _ _ _ hp
      show rd M (Lp.rk k j) * _ = rd L0 (Lp.rk k j) * _
      rw [hM, hL1 k j (by omega) (by omega) hj1 (by omega)]
      intro k' h1' h2' hp' heq
      have := (h.gL.rk_inj k j k' i (by omega) (by omega) (by omega) hi hj1 hp' heq).2
      omega)
  unfold rangeFrom
  refine ⟨by rw [g1, wr_size, hLs], ?_, ?_, ?_⟩
  · intro k h1 h2 hp
    obtain ⟨e, he⟩ := lEntry_isSome h i k h1 h2 hp
    obtain ⟨_, e2, e3, _⟩ := lEntry_some A Lp Up i k e he
    rw [g3 k e (by omega) (by omega) he, e2, e3, dInit_view, sum_pairsOf]
  · rw [g2, rd_wr_same]
    · rw [hLs]; exact h.gL.rk_lt i i hi hi hii
    · intro k h1 h2 hpk heq
      have := h.gL.rk_inj i i k i hi hi (by omega) hi hii hpk heq
      omega
  · intro r c hr hc hp hnot
    rw [g2, hL1 r c hr hc hp (by omega)]
    intro k h1 h2 hpk heq
    have := h.gL.rk_inj r c k i hr hc (by omega) hi hp hpk heq
    omega

end phases

/-! ### unfolding lemmas for the sparse stage -/

section sstageLemmas
variable (Am : Nat → Nat → K) (Ap Lb Ub : Nat → Nat → Bool) (i : Nat) (s : LU K)

theorem sstage_U_row (c : Nat) (hc : i ≤ c) (hu : Ub i c = true) :
    (sstage Am Ap Lb Ub i s).U i c = (if Ap i c then Am i c else 0)
        - ∑ j ∈ range i, (if Lb i j ∧ Ub j c then s.L i j * s.U j c else 0) := by
  simp [sstage, hc, hu]

theorem sstage_U_old (r c : Nat) (h : ¬ (r = i ∧ i ≤ c)) :
    (sstage Am Ap Lb Ub i s).U r c = s.U r c := by
  have : ¬ (r = i ∧ i ≤ c ∧ Ub i c = true) := fun h' => h ⟨h'.1, h'.2.1⟩
  simp only [sstage, this, if_false]

theorem sstage_L_col (r : Nat) (hr : i < r) (hl : Lb r i = true) :
    (sstage Am Ap Lb Ub i s).L r i = ((if Ap r i then Am r i else 0)
        - ∑ j ∈ range i, (if Lb r j ∧ Ub j i then s.L r j * (sstage Am Ap Lb Ub i s).U j i else 0))
          / (sstage Am Ap Lb Ub i s).U i i := by
  simp [sstage, hr, hl]

theorem sstage_L_ii : (sstage Am Ap Lb Ub i s).L i i = 1 := by
  simp [sstage]

theorem sstage_L_old (r c : Nat) (h : ¬ (c = i ∧ i ≤ r)) :
    (sstage Am Ap Lb Ub i s).L r c = s.L r c := by
  have h1 : ¬ (c = i ∧ i < r ∧ Lb r i = true) := fun h' => h ⟨h'.1, by omega⟩
  have h2 : ¬ (r = i ∧ c = i) := fun h' => h ⟨h'.2, by omega⟩
  simp only [sstage, h1, h2, if_false]

end sstageLemmas

theorem av_view (A : Pattern) (a : Array K) (r c : Nat) :
    (if pres A r c then view A a r c else 0) = view A a r c := by
  cases hz : A.zero? r c <;> simp [pres, view, hz]

/-! ### one table row = one sparse stage -/

/-- the arrays hold the abstract state `s` on every present element of the block -/
structure Agree (n : Nat) (Lp Up : Pattern) (s : LU K) (L U : Array K) : Prop where
  U_eq : ∀ r c, r < n → c < n → Up.zero? r c = false → rd U (Up.rk r c) = s.U r c
  L_eq : ∀ r c, r < n → c < n → Lp.zero? r c = false → rd L (Lp.rk r c) = s.L r c

section rows
variable {n : Nat} {A Lp Up : Pattern}

theorem dStep_agree (h : LUSetup n A Lp Up) (a : Array K) (s : LU K) (L U : Array K) (i : Nat)
    (hi : i < n) (hLs : L.size = Lp.nnz) (hUs : U.size = Up.nnz) (hag : Agree n Lp Up s L U) :
    (dStep a (L, U) (dRow A Lp Up n i)).1.size = Lp.nnz ∧
    (dStep a (L, U) (dRow A Lp Up n i)).2.size = Up.nnz ∧
    Agree n Lp Up (sstage (view A a) (pres A) (pres Lp) (pres Up) i s)
      (dStep a (L, U) (dRow A Lp Up n i)).1 (dStep a (L, U) (dRow A Lp Up n i)).2 := by
  obtain ⟨u1, u2, u3⟩ := uPhase h a L U i hi hUs
  simp only [dStep, dRow]
  generalize ((rangeFrom i n).filterMap (uEntry A Lp Up i)).foldl (dStepU a L) U = U1 at u1 u2 u3
  obtain ⟨l1, l2, l3, l4⟩ := lPhase h a U1 L i hi hLs
  generalize ((rangeFrom (i + 1) n).filterMap (lEntry A Lp Up i)).foldl (dStepL a U1 (Up.rk i i))
        (wr L (Lp.rk i i) 1) = L2 at l1 l2 l3 l4
  have hU : ∀ r c, r < n → c < n → Up.zero? r c = false →
      rd U1 (Up.rk r c) = (sstage (view A a) (pres A) (pres Lp) (pres Up) i s).U r c := by
    intro r c hr hc hp
    by_cases hrc : r = i ∧ i ≤ c
    · obtain ⟨rfl, hic⟩ := hrc
      rw [u2 c hic hc hp, sstage_U_row _ _ _ _ _ _ c hic ((pres_true _ _ _).mpr hp), av_view]
      congr 1
      apply sum_congr rfl
      intro j hj
      have hj' := mem_range.mp hj
      split
      · next hc' =>
        rw [hag.L_eq r j hr (by omega) ((pres_true _ _ _).mp hc'.1),
          hag.U_eq j c (by omega) hc ((pres_true _ _ _).mp hc'.2)]
      · rfl
    · rw [u3 r c hr hc hp hrc, sstage_U_old _ _ _ _ _ _ r c hrc]
      exact hag.U_eq r c hr hc hp
  refine ⟨l1, u1, ⟨hU, ?_⟩⟩
  intro r c hr hc hp
  by_cases hrc : c = i ∧ i ≤ r
  · obtain ⟨rfl, hir⟩ := hrc
    by_cases hri : r = c
    · subst hri
      rw [l3, sstage_L_ii]
    · have hlt : c < r := by omega
      rw [l2 r hlt hr hp, sstage_L_col _ _ _ _ _ _ r hlt ((pres_true _ _ _).mpr hp), av_view,
        hU c c hc hc ((pres_true _ _ _).mp (h.closed.diagU c hc))]
      congr 2
      apply sum_congr rfl
      intro j hj
      have hj' := mem_range.mp hj
      split
      · next hc' =>
        rw [hag.L_eq r j hr (by omega) ((pres_true _ _ _).mp hc'.1),
          hU j c (by omega) hc ((pres_true _ _ _).mp hc'.2)]
      · rfl
  · rw [l4 r c hr hc hp hrc, sstage_L_old _ _ _ _ _ _ r c hrc]
    exact hag.L_eq r c hr hc hp

theorem dRows_agree (h : LUSetup n A Lp Up) (a l0 u0 : Array K) (hLs : l0.size = Lp.nnz)
    (hUs : u0.size = Up.nnz) (s0 : LU K) (hag : Agree n Lp Up s0 l0 u0) (m : Nat) (hm : m ≤ n) :
    (((List.range m).map (dRow A Lp Up n)).foldl (dStep a) (l0, u0)).1.size = Lp.nnz ∧
    (((List.range m).map (dRow A Lp Up n)).foldl (dStep a) (l0, u0)).2.size = Up.nnz ∧
    Agree n Lp Up (slu (view A a) (pres A) (pres Lp) (pres Up) s0 m)
      (((List.range m).map (dRow A Lp Up n)).foldl (dStep a) (l0, u0)).1
      (((List.range m).map (dRow A Lp Up n)).foldl (dStep a) (l0, u0)).2 := by
  induction m with
  | zero => exact ⟨hLs, hUs, hag⟩
  | succ m ih =>
    obtain ⟨g1, g2, g3⟩ := ih (by omega)
    rw [List.range_succ, List.map_append, List.foldl_append]
    simp only [List.map_cons, List.map_nil, List.foldl_cons, List.foldl_nil]
    generalize ((List.range m).map (dRow A Lp Up n)).foldl (dStep a) (l0, u0) = LU at g1 g2 g3
    obtain ⟨L, U⟩ := LU
    exact dStep_agree h a _ L U m (by omega) g1 g2 g3

/-- C03 core for `doolittleCell`: on the block, the logical views of the results are the dense
    Doolittle factors of the logical view of `A`, whatever the arrays `l0`, `u0` held before. -/
theorem doolittleCell_view (h : LUSetup n A Lp Up) (hn : A.n = n) (a l0 u0 : Array K)
    (hLs : l0.size = Lp.nnz) (hUs : u0.size = Up.nnz) (r c : Nat) (hr : r < n) (hc : c < n) :
    view Lp (doolittleCell (doolittleRows A Lp Up) a (l0, u0)).1 r c
        = (DenseLU.lu (view A a) n).L r c ∧
    view Up (doolittleCell (doolittleRows A Lp Up) a (l0, u0)).2 r c
        = (DenseLU.lu (view A a) n).U r c := by
  rw [doolittleCell_eq, doolittleRows_eq, hn]
  obtain ⟨_, _, hag⟩ := dRows_agree h a l0 u0 hLs hUs ⟨view Lp l0, view Up u0⟩
    ⟨fun r c _ _ hp => (view_present _ _ _ _ hp).symm, fun r c _ _ hp => (view_present _ _ _ _ hp).symm⟩
    n (le_refl n)
  have hrel := SparseLU.rel_slu n (view A a) (pres A) (pres Lp) (pres Up) h.closed
    (fun r c hp => view_absent _ _ _ _ ((pres_false _ _ _).mp hp)) ⟨view Lp l0, view Up u0⟩ n (le_refl n)
  have hsh := DenseLU.lu_shape (view A a) n
  generalize ((List.range n).map (dRow A Lp Up n)).foldl (dStep a) (l0, u0) = LU at hag
  constructor
  · cases hp : Lp.zero? r c
    · rw [view_present _ _ _ _ hp, hag.L_eq r c hr hc hp]
      have hcr := h.lowL r c hr hc hp
      by_cases hd : c = r
      · subst hd; rw [hrel.L_diag c hc, hsh.L_diag c hc]
      · exact hrel.L_on r c hc (by omega) hr ((pres_true _ _ _).mpr hp)
    · rw [view_absent _ _ _ _ hp]
      by_cases hcr : c < r
      · exact (hrel.L_off r c hc hcr hr ((pres_false _ _ _).mpr hp)).symm
      · have : r ≠ c := by intro h'; subst h'; rw [h.diagL r hr] at hp; cases hp
        exact (hsh.L_up r c (by omega)).symm
  · cases hp : Up.zero? r c
    · rw [view_present _ _ _ _ hp, hag.U_eq r c hr hc hp]
      exact hrel.U_on r c hr (h.uppU r c hr hc hp) hc ((pres_true _ _ _).mpr hp)
    · rw [view_absent _ _ _ _ hp]
      by_cases hrc : r ≤ c
      · exact (hrel.U_off r c hr hrc hc ((pres_false _ _ _).mpr hp)).symm
      · exact (hsh.U_low r c (by omega)).symm

end rows

/-! ### Doolittle in place -/

def diUEntry (P : Pattern) (i k : Nat) : Option DIEntry :=
  if P.zero? i k then none else some ⟨P.rk i k, pairsOf P P i i k⟩

def diLEntry (P : Pattern) (i k : Nat) : Option DIEntry :=
  if P.zero? k i then none else some ⟨P.rk k i, pairsOf P P i k i⟩

def diRow (P : Pattern) (n i : Nat) : DIRow :=
  { aii := P.rk i i, u := (rangeFrom i n).filterMap (diUEntry P i),
    l := (rangeFrom (i + 1) n).filterMap (diLEntry P i) }

theorem doolittleInPlaceRows_eq (P : Pattern) :
    doolittleInPlaceRows P = (List.range P.n).map (diRow P P.n) := rfl

def diStepU (M : Array K) (e : DIEntry) : Array K :=
  e.pairs.foldl (fun M p => wr M e.t (rd M e.t - rd M p.1 * rd M p.2)) M

def diStepL (aii : Nat) (M : Array K) (e : DIEntry) : Array K :=
  let M := e.pairs.foldl (fun M p => wr M e.t (rd M e.t - rd M p.1 * rd M p.2)) M
  wr M e.t (rd M e.t / rd M aii)

def diStep (M : Array K) (r : DIRow) : Array K :=
  let M := r.u.foldl diStepU M
  r.l.foldl (diStepL r.aii) M

theorem doolittleInPlaceCell_eq (rows : List DIRow) (M : Array K) :
    doolittleInPlaceCell rows M = rows.foldl diStep M := rfl

theorem diStepU_eq (M : Array K) (e : DIEntry) (ht : e.t < M.size)
    (hne : ∀ p ∈ e.pairs, p.1 ≠ e.t ∧ p.2 ≠ e.t) :
    diStepU M e = wr M e.t (rd M e.t - (e.pairs.map fun p => rd M p.1 * rd M p.2).sum) := by
  have h := pairFold (fun (M : Array K) (p : Nat × Nat) => rd M p.1 * rd M p.2) e.t e.pairs M ht
    (by intro p hp v; show rd (wr M e.t v) p.1 * rd (wr M e.t v) p.2 = _
        rw [rd_wr_ne _ _ _ _ (hne p hp).1.symm, rd_wr_ne _ _ _ _ (hne p hp).2.symm])
  rw [foldl_sub_eq] at h
  exact h

theorem diStepL_eq (aii : Nat) (M : Array K) (e : DIEntry) (ht : e.t < M.size)
    (hne : ∀ p ∈ e.pairs, p.1 ≠ e.t ∧ p.2 ≠ e.t) (ha : aii ≠ e.t) :
    diStepL aii M e
      = wr M e.t ((rd M e.t - (e.pairs.map fun p => rd M p.1 * rd M p.2).sum) / rd M aii) := by
  have h := diStepU_eq M e ht hne
  unfold diStepU at h
  unfold diStepL
  simp only [h, rd_wr_same _ _ _ ht, wr_wr_same]
  rw [rd_wr_ne _ _ _ _ ha.symm]

/-- strictly lower part of a pattern -/
def lowB (P : Pattern) (r c : Nat) : Bool := pres P r c && decide (c < r)
/-- upper part (with diagonal) of a pattern -/
def uppB (P : Pattern) (r c : Nat) : Bool := pres P r c && decide (r ≤ c)

theorem lowB_eq (P : Pattern) (r c : Nat) (h : c < r) : lowB P r c = pres P r c := by
  simp [lowB, h]
theorem uppB_eq (P : Pattern) (r c : Nat) (h : r ≤ c) : uppB P r c = pres P r c := by
  simp [uppB, h]

/-- hypotheses on the single pattern of an in-place LU: good addressing, full diagonal, closed
    under fill (`(r,j)`, `(j,c)` present with `j < min r c` ⇒ `(r,c)` present). -/
structure IPSetup (n : Nat) (P : Pattern) : Prop where
  g : GoodPattern n P
  diag : ∀ i, i < n → P.zero? i i = false
  fill : ∀ r c j, r < n → c < n → j < r → j < c →
    P.zero? r j = false → P.zero? j c = false → P.zero? r c = false

theorem IPSetup.closed {n : Nat} {P : Pattern} (h : IPSetup n P) :
    Closed n (pres P) (lowB P) (uppB P) where
  diagU := by intro i hi; rw [uppB_eq _ _ _ (le_refl i), pres_true]; exact h.diag i hi
  supU := by intro r c hrc _ hp; rw [uppB_eq _ _ _ hrc]; exact hp
  supL := by intro r c hcr _ hp; rw [lowB_eq _ _ _ hcr]; exact hp
  fillU := by
    intro i j k hj hik hk h1 h2
    rw [lowB_eq _ _ _ hj, pres_true] at h1
    rw [uppB_eq _ _ _ (by omega), pres_true] at h2
    rw [uppB_eq _ _ _ hik, pres_true]
    exact h.fill i k j (by omega) hk hj (by omega) h1 h2
  fillL := by
    intro i j k hj hik hk h1 h2
    rw [lowB_eq _ _ _ (by omega), pres_true] at h1
    rw [uppB_eq _ _ _ (by omega), pres_true] at h2
    rw [lowB_eq _ _ _ hik, pres_true]
    exact h.fill k i j hk (by omega) (by omega) hj h1 h2

/-- the single array holds the abstract state on the finished part (rows `< i` of `U`, columns
    `< i` of `L`) and still the input `M0` on the trailing block -/
structure AgreeIP (n : Nat) (P : Pattern) (i : Nat) (s : LU K) (M M0 : Array K) : Prop where
  U_eq : ∀ r c, r < n → c < n → P.zero? r c = false → r ≤ c → r < i → rd M (P.rk r c) = s.U r c
  L_eq : ∀ r c, r < n → c < n → P.zero? r c = false → c < r → c < i → rd M (P.rk r c) = s.L r c
  rest : ∀ r c, r < n → c < n → P.zero? r c = false → i ≤ r → i ≤ c →
    rd M (P.rk r c) = rd M0 (P.rk r c)

section inplace
variable {n : Nat} {P : Pattern}

theorem diUPhase (h : IPSetup n P) (M : Array K) (i : Nat) (hi : i < n) (hMs : M.size = P.nnz) :
    (((rangeFrom i n).filterMap (diUEntry P i)).foldl diStepU M).size = P.nnz ∧
    (∀ k, i ≤ k → k < n → P.zero? i k = false →
      rd (((rangeFrom i n).filterMap (diUEntry P i)).foldl diStepU M) (P.rk i k)
        = rd M (P.rk i k) - ∑ j ∈ range i, (if pres P i j = true ∧ pres P j k = true
            then rd M (P.rk i j) * rd M (P.rk j k) else 0)) ∧
    (∀ r c, r < n → c < n → P.zero? r c = false → ¬ (r = i ∧ i ≤ c) →
      rd (((rangeFrom i n).filterMap (diUEntry P i)).foldl diStepU M) (P.rk r c)
        = rd M (P.rk r c)) := by
  have hlen : i + (n - i) = n := by omega
  have hsome : ∀ k e, diUEntry P i k = some e →
      P.zero? i k = false ∧ e = ⟨P.rk i k, pairsOf P P i i k⟩ := by
    intro k e he
    unfold diUEntry at he
    cases hz : P.zero? i k <;> simp [hz] at he
    exact ⟨rfl, he.symm⟩
  obtain ⟨g1, g2, g3⟩ := phase_generic i (n - i) (diUEntry P i)
    (fun e => rd M e.t - (e.pairs.map fun p => rd M p.1 * rd M p.2).sum)
    diStepU M (fun k => P.rk i k) (fun k => P.zero? i k = false)
    (fun k e h1 h2 he => (hsome k e he).1)
    (fun k k' h1 h2 h1' h2' hp hp' heq =>
      (h.g.rk_inj i k i k' hi (by omega) hi (by omega) hp hp' heq).2)
    (fun k h1 h2 hp => by rw [hMs]; exact h.g.rk_lt i k hi (by omega) hp)
    (by
      intro M' k e h1 h2 he hMs' hM hown
      obtain ⟨hpk, rfl⟩ := hsome k e he
      have hmem : ∀ p ∈ pairsOf P P i i k, ∃ j, j < i ∧ P.zero? i j = false ∧
          P.zero? j k = false ∧ p = (P.rk i j, P.rk j k) := fun p hp => mem_pairsOf _ _ _ _ _ _ hp
      have hne : ∀ p ∈ pairsOf P P i i k, p.1 ≠ P.rk i k ∧ p.2 ≠ P.rk i k := by
        intro p hp
        obtain ⟨j, hj, hj1, hj2, rfl⟩ := hmem p hp
        constructor
        · intro heq
          have := (h.g.rk_inj i j i k hi (by omega) hi (by omega) hj1 hpk heq).2
          omega
        · intro heq
          have := (h.g.rk_inj j k i k (by omega) (by omega) hi (by omega) hj2 hpk heq).1
          omega
      rw [diStepU_eq M' _ (by rw [hMs', hMs]; exact h.g.rk_lt i k hi (by omega) hpk) hne]
      show wr M' (P.rk i k) (rd M' (P.rk i k) - _) = wr M' (P.rk i k) (rd M (P.rk i k) - _)
      rw [hown]
      congr 2
      apply congrArg
      apply List.map_congr_left
      intro p hp
      obtain ⟨j, hj, hj1, hj2, rfl⟩ := hmem p hp
      show rd M' (P.rk i j) * rd M' (P.rk j k) = rd M (P.rk i j) * rd M (P.rk j k)
      rw [hM, hM]
      · intro k' h1' h2' hp' heq
        have := (h.g.rk_inj j k i k' (by omega) (by omega) hi (by omega) hj2 hp' heq).1
        omega
      · intro k' h1' h2' hp' heq
        have := (h.g.rk_inj i j i k' hi (by omega) hi (by omega) hj1 hp' heq).2
        omega)
  unfold rangeFrom
  refine ⟨by rw [g1, hMs], ?_, ?_⟩
  · intro k h1 h2 hp
    have he : diUEntry P i k = some ⟨P.rk i k, pairsOf P P i i k⟩ := by simp [diUEntry, hp]
    rw [g3 k _ h1 (by omega) he]
    show rd M (P.rk i k) - _ = _
    rw [sum_pairsOf]
  · intro r c hr hc hp hnot
    apply g2
    intro k h1 h2 hpk heq
    have := h.g.rk_inj r c i k hr hc hi (by omega) hp hpk heq
    omega

theorem diLPhase (h : IPSetup n P) (M : Array K) (i : Nat) (hi : i < n) (hMs : M.size = P.nnz) :
    (((rangeFrom (i + 1) n).filterMap (diLEntry P i)).foldl (diStepL (P.rk i i)) M).size = P.nnz ∧
    (∀ k, i < k → k < n → P.zero? k i = false →
      rd (((rangeFrom (i + 1) n).filterMap (diLEntry P i)).foldl (diStepL (P.rk i i)) M) (P.rk k i)
        = (rd M (P.rk k i) - ∑ j ∈ range i, (if pres P k j = true ∧ pres P j i = true
            then rd M (P.rk k j) * rd M (P.rk j i) else 0)) / rd M (P.rk i i)) ∧
    (∀ r c, r < n → c < n → P.zero? r c = false → ¬ (c = i ∧ i < r) →
      rd (((rangeFrom (i + 1) n).filterMap (diLEntry P i)).foldl (diStepL (P.rk i i)) M) (P.rk r c)
        = rd M (P.rk r c)) := by
  have hlen : i + 1 + (n - (i + 1)) = n := by omega
  have hii := h.diag i hi
  have hsome : ∀ k e, diLEntry P i k = some e →
      P.zero? k i = false ∧ e = ⟨P.rk k i, pairsOf P P i k i⟩ := by
    intro k e he
    unfold diLEntry at he
    cases hz : P.zero? k i <;> simp [hz] at he
    exact ⟨rfl, he.symm⟩
  obtain ⟨g1, g2, g3⟩ := phase_generic (i + 1) (n - (i + 1)) (diLEntry P i)
    (fun e => (rd M e.t - (e.pairs.map fun p => rd M p.1 * rd M p.2).sum) / rd M (P.rk i i))
    (diStepL (P.rk i i)) M (fun k => P.rk k i) (fun k => P.zero? k i = false)
    (fun k e h1 h2 he => (hsome k e he).1)
    (fun k k' h1 h2 h1' h2' hp hp' heq =>
      (h.g.rk_inj k i k' i (by omega) hi (by omega) hi hp hp' heq).1)
    (fun k h1 h2 hp => by rw [hMs]; exact h.g.rk_lt k i (by omega) hi hp)
    (by
      intro M' k e h1 h2 he hMs' hM hown
      obtain ⟨hpk, rfl⟩ := hsome k e he
      have hmem : ∀ p ∈ pairsOf P P i k i, ∃ j, j < i ∧ P.zero? k j = false ∧
          P.zero? j i = false ∧ p = (P.rk k j, P.rk j i) := fun p hp => mem_pairsOf _ _ _ _ _ _ hp
      have hne : ∀ p ∈ pairsOf P P i k i, p.1 ≠ P.rk k i ∧ p.2 ≠ P.rk k i := by
        intro p hp
        obtain ⟨j, hj, hj1, hj2, rfl⟩ := hmem p hp
        constructor
        · intro heq
          have := (h.g.rk_inj k j k i (by omega) (by omega) (by omega) hi hj1 hpk heq).2
          omega
        · intro heq
          have := (h.g.rk_inj j i k i (by omega) hi (by omega) hi hj2 hpk heq).1
          omega
      have hdiag : P.rk i i ≠ P.rk k i := by
        intro heq
        have := (h.g.rk_inj i i k i hi hi (by omega) hi hii hpk heq).1
        omega
      rw [diStepL_eq _ M' _ (by rw [hMs', hMs]; exact h.g.rk_lt k i (by omega) hi hpk) hne hdiag]
      show wr M' (P.rk k i) ((rd M' (P.rk k i) - _) / rd M' (P.rk i i))
        = wr M' (P.rk k i) ((rd M (P.rk k i) - _) / rd M (P.rk i i))
      rw [hown, hM (P.rk i i) (by
        intro k' h1' h2' hp' heq
        have := (h.g.rk_inj i i k' i hi hi (by omega) hi hii hp' heq).1
        omega)]
      congr 3
      apply congrArg
      apply List.map_congr_left
      intro p hp
      obtain ⟨j, hj, hj1, hj2, rfl⟩ := hmem p hp
      show rd M' (P.rk k j) * rd M' (P.rk j i) = rd M (P.rk k j) * rd M (P.rk j i)
      rw [hM, hM]
      · intro k' h1' h2' hp' heq
        have := (h.g.rk_inj j i k' i (by omega) hi (by omega) hi hj2 hp' heq).1
        omega
      · intro k' h1' h2' hp' heq
        have := (h.g.rk_inj k j k' i (by omega) (by omega) (by omega) hi hj1 hp' heq).2
        omega)
  unfold rangeFrom
  refine ⟨by rw [g1, hMs], ?_, ?_⟩
  · intro k h1 h2 hp
    have he : diLEntry P i k = some ⟨P.rk k i, pairsOf P P i k i⟩ := by simp [diLEntry, hp]
    rw [g3 k _ (by omega) (by omega) he]
    show (rd M (P.rk k i) - _) / _ = _
    rw [sum_pairsOf]
  · intro r c hr hc hp hnot
    apply g2
    intro k h1 h2 hpk heq
    have := h.g.rk_inj r c k i hr hc (by omega) hi hp hpk heq
    omega

end inplace

section inplaceRows
variable {n : Nat} {P : Pattern}

theorem diStep_agree (h : IPSetup n P) (s : LU K) (M M0 : Array K) (i : Nat) (hi : i < n)
    (hMs : M.size = P.nnz) (hag : AgreeIP n P i s M M0) :
    (diStep M (diRow P n i)).size = P.nnz ∧
    AgreeIP n P (i + 1) (sstage (view P M0) (pres P) (lowB P) (uppB P) i s)
      (diStep M (diRow P n i)) M0 := by
  obtain ⟨u1, u2, u3⟩ := diUPhase h M i hi hMs
  simp only [diStep, diRow]
  generalize ((rangeFrom i n).filterMap (diUEntry P i)).foldl diStepU M = M1 at u1 u2 u3
  obtain ⟨l1, l2, l3⟩ := diLPhase h M1 i hi u1
  generalize ((rangeFrom (i + 1) n).filterMap (diLEntry P i)).foldl (diStepL (P.rk i i)) M1
    = M2 at l1 l2 l3
  -- U rows ≤ i as held by M1
  have hU : ∀ r c, r < n → c < n → P.zero? r c = false → r ≤ c → r < i + 1 →
      rd M1 (P.rk r c) = (sstage (view P M0) (pres P) (lowB P) (uppB P) i s).U r c := by
    intro r c hr hc hp hrc hri
    by_cases hr' : r = i
    · subst hr'
      rw [u2 c hrc hc hp, sstage_U_row _ _ _ _ _ _ c hrc
        (by rw [uppB_eq _ _ _ hrc]; exact (pres_true _ _ _).mpr hp), av_view,
        hag.rest r c hr hc hp (le_refl r) hrc, view_present _ _ _ _ hp]
      congr 1
      apply sum_congr rfl
      intro j hj
      have hj' := mem_range.mp hj
      rw [lowB_eq _ _ _ hj', uppB_eq _ _ _ (show j ≤ c by omega)]
      split
      · next hc' =>
        rw [hag.L_eq r j hr (by omega) ((pres_true _ _ _).mp hc'.1) hj' hj',
          hag.U_eq j c (by omega) hc ((pres_true _ _ _).mp hc'.2) (by omega) hj']
      · rfl
    · rw [u3 r c hr hc hp (by omega), sstage_U_old _ _ _ _ _ _ r c (by omega)]
      exact hag.U_eq r c hr hc hp hrc (by omega)
  refine ⟨l1, ⟨?_, ?_, ?_⟩⟩
  · intro r c hr hc hp hrc hri
    rw [l3 r c hr hc hp (by omega)]
    exact hU r c hr hc hp hrc hri
  · intro r c hr hc hp hcr hci
    by_cases hc' : c = i
    · subst hc'
      rw [l2 r hcr hr hp, sstage_L_col _ _ _ _ _ _ r hcr
        (by rw [lowB_eq _ _ _ hcr]; exact (pres_true _ _ _).mpr hp), av_view,
        hU c c hc hc (h.diag c hc) (le_refl c) (by omega),
        u3 r c hr hc hp (by omega), hag.rest r c hr hc hp (by omega) (le_refl c),
        view_present _ _ _ _ hp]
      congr 2
      apply sum_congr rfl
      intro j hj
      have hj' := mem_range.mp hj
      rw [lowB_eq _ _ _ (show j < r by omega), uppB_eq _ _ _ (show j ≤ c by omega)]
      split
      · next hc' =>
        rw [u3 r j hr (by omega) ((pres_true _ _ _).mp hc'.1) (by omega),
          hag.L_eq r j hr (by omega) ((pres_true _ _ _).mp hc'.1) (by omega) hj',
          hU j c (by omega) hc ((pres_true _ _ _).mp hc'.2) (by omega) (by omega)]
      · rfl
    · rw [l3 r c hr hc hp (by omega), u3 r c hr hc hp (by omega),
        sstage_L_old _ _ _ _ _ _ r c (by omega)]
      exact hag.L_eq r c hr hc hp hcr (by omega)
  · intro r c hr hc hp hir hic
    rw [l3 r c hr hc hp (by omega), u3 r c hr hc hp (by omega)]
    exact hag.rest r c hr hc hp (by omega) (by omega)

theorem diRows_agree (h : IPSetup n P) (m0 : Array K) (hMs : m0.size = P.nnz) (s0 : LU K)
    (m : Nat) (hm : m ≤ n) :
    (((List.range m).map (diRow P n)).foldl diStep m0).size = P.nnz ∧
    AgreeIP n P m (slu (view P m0) (pres P) (lowB P) (uppB P) s0 m)
      (((List.range m).map (diRow P n)).foldl diStep m0) m0 := by
  induction m with
  | zero =>
    exact ⟨hMs, ⟨by intros; omega, by intros; omega, fun _ _ _ _ _ _ _ => rfl⟩⟩
  | succ m ih =>
    obtain ⟨g1, g2⟩ := ih (by omega)
    rw [List.range_succ, List.map_append, List.foldl_append]
    simp only [List.map_cons, List.map_nil, List.foldl_cons, List.foldl_nil]
    exact diStep_agree h _ _ m0 m (by omega) g1 g2

/-- C03 core for `doolittleInPlaceCell`: the array that held `A` (zero on the fill-in slots, as
    the contract requires: it is all part of `view P m0`) holds afterwards the strict lower part
    of the dense Doolittle `L` and the upper part of `U`. -/
theorem doolittleInPlaceCell_view (h : IPSetup n P) (hn : P.n = n) (m0 : Array K)
    (hMs : m0.size = P.nnz) (r c : Nat) (hr : r < n) (hc : c < n) :
    view P (doolittleInPlaceCell (doolittleInPlaceRows P) m0) r c
      = if c < r then (DenseLU.lu (view P m0) n).L r c else (DenseLU.lu (view P m0) n).U r c := by
  rw [doolittleInPlaceCell_eq, doolittleInPlaceRows_eq, hn]
  obtain ⟨_, hag⟩ := diRows_agree h m0 hMs DenseLU.init n (le_refl n)
  have hrel := SparseLU.rel_slu n (view P m0) (pres P) (lowB P) (uppB P) h.closed
    (fun r c hp => view_absent _ _ _ _ ((pres_false _ _ _).mp hp)) DenseLU.init n (le_refl n)
  generalize ((List.range n).map (diRow P n)).foldl diStep m0 = M at hag
  cases hp : P.zero? r c
  · rw [view_present _ _ _ _ hp]
    split
    · next hcr =>
      rw [hag.L_eq r c hr hc hp hcr hc]
      exact hrel.L_on r c hc hcr hr (by rw [lowB_eq _ _ _ hcr]; exact (pres_true _ _ _).mpr hp)
    · next hcr =>
      rw [hag.U_eq r c hr hc hp (by omega) hr]
      exact hrel.U_on r c hr (by omega) hc
        (by rw [uppB_eq _ _ _ (by omega)]; exact (pres_true _ _ _).mpr hp)
  · rw [view_absent _ _ _ _ hp]
    split
    · next hcr =>
      exact (hrel.L_off r c hc hcr hr
        (by rw [lowB_eq _ _ _ hcr]; exact (pres_false _ _ _).mpr hp)).symm
    · next hcr =>
      exact (hrel.U_off r c hr (by omega) hc
        (by rw [uppB_eq _ _ _ (by omega)]; exact (pres_false _ _ _).mpr hp)).symm

end inplaceRows

/-! ### a computable check of `GoodPattern` (for concrete instances) -/

def goodCheck (n : Nat) (p : Pattern) : Bool :=
  (List.range n).all fun r => (List.range n).all fun c =>
    p.zero? r c || (decide (p.rk r c < p.nnz) &&
      (List.range n).all fun r' => (List.range n).all fun c' =>
        p.zero? r' c' || p.rk r c != p.rk r' c' || (r == r' && c == c'))

theorem goodCheck_sound (n : Nat) (p : Pattern) (h : goodCheck n p = true) : GoodPattern n p := by
  simp only [goodCheck, List.all_eq_true, List.mem_range, Bool.or_eq_true, Bool.and_eq_true,
    decide_eq_true_eq, bne_iff_ne, beq_iff_eq] at h
  constructor
  · intro r c hr hc hp
    rcases h r hr c hc with h1 | h1
    · rw [hp] at h1; cases h1
    · exact h1.1
  · intro r c r' c' hr hc hr' hc' hp hp' heq
    rcases h r hr c hc with h1 | h1
    · rw [hp] at h1; cases h1
    · rcases h1.2 r' hr' c' hc' with (h2 | h2) | h2
      · rw [hp'] at h2; cases h2
      · exact absurd heq h2
      · exact h2

/-! ### `Factor` then `Solve` -/

/-- if the arrays hold (as views) the dense Doolittle factors of `Am` and no pivot vanishes,
    `solveCell` solves `Am y = b` -/
theorem solve_of_views (Lp Up : Pattern) (L U b : Array K) (n : Nat) (Am : Nat → Nat → K)
    (hnL : Lp.n = n) (hb : b.size = n)
    (hv : ∀ r c, r < n → c < n → view Lp L r c = (DenseLU.lu Am n).L r c ∧
      view Up U r c = (DenseLU.lu Am n).U r c)
    (hpiv : ∀ i, i < n → view Up U i i ≠ 0) (i : Nat) (hi : i < n) :
    ∑ j ∈ range n, Am i j * rd (solveCell (solverRows Lp Up).1 (solverRows Lp Up).2 L U b) j
      = rd b i := by
  have hlu := DenseLU.lu_isLU Am n (fun i hi => by rw [← (hv i i hi hi).2]; exact hpiv i hi)
  rw [← solveCell_correct Lp Up L U b n hnL hb
    (fun i hi => by rw [(hv i i hi hi).1, hlu.L_diag i hi]; exact one_ne_zero)
    (fun i j hi hj hij => by rw [(hv i j hi hj).1]; exact hlu.L_up i j hi hj hij) hpiv
    (fun i j hi hj hji => by rw [(hv i j hi hj).2]; exact hlu.U_low i j hi hj hji) i hi]
  apply sum_congr rfl
  intro j hj
  have hj' := mem_range.mp hj
  rw [← hlu.prod i j hi hj']
  congr 1
  apply sum_congr rfl
  intro k hk
  have hk' := mem_range.mp hk
  rw [(hv i k hi hk').1, (hv k j hk' hj').2]

/-- in-place version: the single array holds strict-lower `L` and `U` of the dense factors -/
theorem solve_of_view_inplace (P : Pattern) (M b : Array K) (n : Nat) (Am : Nat → Nat → K)
    (hnP : P.n = n) (hb : b.size = n)
    (hv : ∀ r c, r < n → c < n → view P M r c
      = if c < r then (DenseLU.lu Am n).L r c else (DenseLU.lu Am n).U r c)
    (hpiv : ∀ i, i < n → view P M i i ≠ 0) (i : Nat) (hi : i < n) :
    ∑ j ∈ range n, Am i j * rd (solveInPlaceCell (solverRows P P).1 (solverRows P P).2 M b) j
      = rd b i := by
  have hd : ∀ i, i < n → view P M i i = (DenseLU.lu Am n).U i i := by
    intro i hi
    have := hv i i hi hi
    simpa using this
  have hlu := DenseLU.lu_isLU Am n (fun i hi => by rw [← hd i hi]; exact hpiv i hi)
  rw [← solveInPlaceCell_correct P M b n hnP hb hpiv i hi]
  apply sum_congr rfl
  intro j hj
  have hj' := mem_range.mp hj
  rw [← hlu.prod i j hi hj']
  congr 1
  apply sum_congr rfl
  intro k hk
  have hk' := mem_range.mp hk
  have e1 : lowerUnit (view P M) i k = (DenseLU.lu Am n).L i k := by
    unfold lowerUnit
    split
    · next h => rw [hv i k hi hk', if_pos h]
    · split
      · next h1 h2 => subst h2; exact (hlu.L_diag i hi).symm
      · next h1 h2 => exact (hlu.L_up i k hi hk' (by omega)).symm
  have e2 : upperPart (view P M) k j = (DenseLU.lu Am n).U k j := by
    unfold upperPart
    split
    · next h => rw [hv k j hk' hj', if_neg (by omega)]
    · next h => exact (hlu.U_low k j hk' hj' (by omega)).symm
  rw [e1, e2]

end Micm
