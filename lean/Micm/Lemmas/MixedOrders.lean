import Micm.Lemmas.LUCellBridge

/-!
Helpers for C03b / C04b: the separate-`L`/`U` decompositions when the lower and the upper matrix
use their own storage orders (`LinAlg.buildMixed kind jac cscL cscU`; e.g. `A` in CSR, `L` in CSC,
`U` in CSR).

The cell theorems `doolittleCell_view` / `mozartCell_view` / `solve_of_views` are parametric in the
pattern triple `(A, Lp, Up)`; the storage order of a pattern only enters through `Pattern.mk'`,
and `good_mk` / `zero?_mk_iff` hold for every `csc` flag.  So it is enough to show that the triple
built by `buildMixed` satisfies `LUSetup` / `MozSetup` (`LUSetup_buildMixed`,
`MozSetup_buildMixed`).  The second part shows that `solveCell` only depends on the logical views
of its `L`/`U` arguments (`solveCell_congr_views`), which gives order-independence of the solution
itself.
-/
open Finset
namespace Micm

/-! ### what `buildMixed` builds -/

/-- every kind except `.mozart` is mapped to Doolittle -/
theorem buildMixed_of_ne_mozart (kind : LUKind) (hk : kind ≠ .mozart) (jac : Pattern)
    (cscL cscU : Bool) :
    LinAlg.buildMixed kind jac cscL cscU = LinAlg.buildMixed .doolittle jac cscL cscU := by
  cases kind
  · rfl
  · exact absurd rfl hk
  · rfl
  · rfl

theorem buildMixed_doolittle_tables (jac : Pattern) (cscL cscU : Bool) :
    (LinAlg.buildMixed .doolittle jac cscL cscU).kind = .doolittle ∧
    (LinAlg.buildMixed .doolittle jac cscL cscU).A = jac ∧
    (LinAlg.buildMixed .doolittle jac cscL cscU).Lp
      = Pattern.mk' jac.n cscL jac.L (doolittleSymbolic jac.n (fun r c => jac.zero? r c)).1 ∧
    (LinAlg.buildMixed .doolittle jac cscL cscU).Up
      = Pattern.mk' jac.n cscU jac.L (doolittleSymbolic jac.n (fun r c => jac.zero? r c)).2 ∧
    (LinAlg.buildMixed .doolittle jac cscL cscU).dRows
      = doolittleRows jac (LinAlg.buildMixed .doolittle jac cscL cscU).Lp
          (LinAlg.buildMixed .doolittle jac cscL cscU).Up ∧
    ((LinAlg.buildMixed .doolittle jac cscL cscU).fw, (LinAlg.buildMixed .doolittle jac cscL cscU).bw)
      = solverRows (LinAlg.buildMixed .doolittle jac cscL cscU).Lp
          (LinAlg.buildMixed .doolittle jac cscL cscU).Up :=
  ⟨rfl, rfl, rfl, rfl, rfl, rfl⟩

theorem buildMixed_mozart_tables (jac : Pattern) (cscL cscU : Bool) :
    (LinAlg.buildMixed .mozart jac cscL cscU).kind = .mozart ∧
    (LinAlg.buildMixed .mozart jac cscL cscU).A = jac ∧
    (LinAlg.buildMixed .mozart jac cscL cscU).Lp
      = Pattern.mk' jac.n cscL jac.L (mozartSymbolic jac.n (fun r c => jac.zero? r c)).1 ∧
    (LinAlg.buildMixed .mozart jac cscL cscU).Up
      = Pattern.mk' jac.n cscU jac.L (mozartSymbolic jac.n (fun r c => jac.zero? r c)).2 ∧
    (LinAlg.buildMixed .mozart jac cscL cscU).mInit
      = mozartInit jac (LinAlg.buildMixed .mozart jac cscL cscU).Lp
          (LinAlg.buildMixed .mozart jac cscL cscU).Up ∧
    (LinAlg.buildMixed .mozart jac cscL cscU).mRows
      = mozartRows jac (LinAlg.buildMixed .mozart jac cscL cscU).Lp
          (LinAlg.buildMixed .mozart jac cscL cscU).Up ∧
    ((LinAlg.buildMixed .mozart jac cscL cscU).fw, (LinAlg.buildMixed .mozart jac cscL cscU).bw)
      = solverRows (LinAlg.buildMixed .mozart jac cscL cscU).Lp
          (LinAlg.buildMixed .mozart jac cscL cscU).Up :=
  ⟨rfl, rfl, rfl, rfl, rfl, rfl, rfl⟩

/-- with `cscL = cscU = jac.csc` the mixed builder is the ordinary one -/
theorem buildMixed_same_doolittle (jac : Pattern) :
    LinAlg.buildMixed .doolittle jac jac.csc jac.csc = LinAlg.build .doolittle jac := rfl

theorem buildMixed_same_mozart (jac : Pattern) :
    LinAlg.buildMixed .mozart jac jac.csc jac.csc = LinAlg.build .mozart jac := rfl

theorem buildMixed_n (kind : LUKind) (jac : Pattern) (cscL cscU : Bool) :
    (LinAlg.buildMixed kind jac cscL cscU).A = jac ∧
    (LinAlg.buildMixed kind jac cscL cscU).Lp.n = jac.n ∧
    (LinAlg.buildMixed kind jac cscL cscU).Up.n = jac.n ∧
    ((LinAlg.buildMixed kind jac cscL cscU).fw, (LinAlg.buildMixed kind jac cscL cscU).bw)
      = solverRows (LinAlg.buildMixed kind jac cscL cscU).Lp
          (LinAlg.buildMixed kind jac cscL cscU).Up := by
  cases kind <;> exact ⟨rfl, rfl, rfl, rfl⟩

/-! ### (H1)+(H2) for the mixed triple -/

/-- Doolittle: `(jac, Lp, Up)` of `buildMixed` satisfies (H1)+(H2) for every choice of the two
    storage orders, every Jacobian pattern -/
theorem LUSetup_buildMixed (jac : Pattern) (cscL cscU : Bool) :
    LUSetup jac.n jac (LinAlg.buildMixed .doolittle jac cscL cscU).Lp
      (LinAlg.buildMixed .doolittle jac cscL cscU).Up := by
  have hwf := wf_doolittleSymbolic jac.n (fun r c => jac.zero? r c)
  exact LUSetup_of_symbolic jac.n _ _ _
    (GoodPattern_of_Good (good_mk hwf.1 cscL jac.L) jac.n)
    (GoodPattern_of_Good (good_mk hwf.2 cscU jac.L) jac.n)
    (fun r c _ _ => zero?_mk_iff hwf.1 cscL jac.L r c)
    (fun r c _ _ => zero?_mk_iff hwf.2 cscU jac.L r c)

/-- Mozart: same, for Jacobian patterns with a full diagonal -/
theorem MozSetup_buildMixed (jac : Pattern) (cscL cscU : Bool)
    (hdiag : ∀ i, i < jac.n → jac.zero? i i = false) :
    MozSetup jac.n jac (LinAlg.buildMixed .mozart jac cscL cscU).Lp
      (LinAlg.buildMixed .mozart jac cscL cscU).Up := by
  have hwf := wf_mozartSymbolic jac.n (fun r c => jac.zero? r c)
  exact MozSetup_of_symbolic jac.n jac _ _
    (GoodPattern_of_Good (good_mk hwf.1 cscL jac.L) jac.n)
    (GoodPattern_of_Good (good_mk hwf.2 cscU jac.L) jac.n) hdiag
    (fun r c _ _ => zero?_mk_iff hwf.1 cscL jac.L r c)
    (fun r c _ _ => zero?_mk_iff hwf.2 cscU jac.L r c)

/-- the shape facts common to both variants, for every `kind` -/
theorem MozSetup_buildMixed_kind (kind : LUKind) (jac : Pattern) (cscL cscU : Bool)
    (hdiag : kind = .mozart → ∀ i, i < jac.n → jac.zero? i i = false) :
    MozSetup jac.n jac (LinAlg.buildMixed kind jac cscL cscU).Lp
      (LinAlg.buildMixed kind jac cscL cscU).Up := by
  by_cases hk : kind = .mozart
  · subst hk
    exact MozSetup_buildMixed jac cscL cscU (hdiag rfl)
  · rw [buildMixed_of_ne_mozart kind hk]
    exact (LUSetup_buildMixed jac cscL cscU).toMoz

/-! ### the logical patterns and the storage sizes do not depend on the orders -/

theorem zero?_eq_of_iff {p q : Pattern} {r c : Nat}
    (h : p.zero? r c = false ↔ q.zero? r c = false) : p.zero? r c = q.zero? r c := by
  cases hp : p.zero? r c <;> cases hq : q.zero? r c <;> simp [hp, hq] at h ⊢

theorem buildMixed_zero?_indep (kind : LUKind) (jac : Pattern) (cscL cscU cscL' cscU' : Bool)
    (r c : Nat) :
    (LinAlg.buildMixed kind jac cscL cscU).Lp.zero? r c
        = (LinAlg.buildMixed kind jac cscL' cscU').Lp.zero? r c ∧
    (LinAlg.buildMixed kind jac cscL cscU).Up.zero? r c
        = (LinAlg.buildMixed kind jac cscL' cscU').Up.zero? r c := by
  have hd := wf_doolittleSymbolic jac.n (fun r c => jac.zero? r c)
  have hm := wf_mozartSymbolic jac.n (fun r c => jac.zero? r c)
  cases kind
  case mozart =>
    exact ⟨zero?_eq_of_iff ((zero?_mk_iff hm.1 cscL jac.L r c).trans
        (zero?_mk_iff hm.1 cscL' jac.L r c).symm),
      zero?_eq_of_iff ((zero?_mk_iff hm.2 cscU jac.L r c).trans
        (zero?_mk_iff hm.2 cscU' jac.L r c).symm)⟩
  all_goals
    exact ⟨zero?_eq_of_iff ((zero?_mk_iff hd.1 cscL jac.L r c).trans
        (zero?_mk_iff hd.1 cscL' jac.L r c).symm),
      zero?_eq_of_iff ((zero?_mk_iff hd.2 cscU jac.L r c).trans
        (zero?_mk_iff hd.2 cscU' jac.L r c).symm)⟩

theorem buildMixed_nnz_indep (kind : LUKind) (jac : Pattern) (cscL cscU cscL' cscU' : Bool) :
    (LinAlg.buildMixed kind jac cscL cscU).Lp.nnz = (LinAlg.buildMixed kind jac cscL' cscU').Lp.nnz ∧
    (LinAlg.buildMixed kind jac cscL cscU).Up.nnz = (LinAlg.buildMixed kind jac cscL' cscU').Up.nnz := by
  have hd := wf_doolittleSymbolic jac.n (fun r c => jac.zero? r c)
  have hm := wf_mozartSymbolic jac.n (fun r c => jac.zero? r c)
  cases kind
  case mozart =>
    exact ⟨(nnz_mk hm.1 cscL jac.L).trans (nnz_mk hm.1 cscL' jac.L).symm,
      (nnz_mk hm.2 cscU jac.L).trans (nnz_mk hm.2 cscU' jac.L).symm⟩
  all_goals
    exact ⟨(nnz_mk hd.1 cscL jac.L).trans (nnz_mk hd.1 cscL' jac.L).symm,
      (nnz_mk hd.2 cscU jac.L).trans (nnz_mk hd.2 cscU' jac.L).symm⟩

/-! ### C03 core for `buildMixed` -/

section cell
variable {K : Type} [Field K]

theorem buildMixed_doolittle_view (jac : Pattern) (cscL cscU : Bool) (a l0 u0 : Array K)
    (hLs : l0.size = (LinAlg.buildMixed .doolittle jac cscL cscU).Lp.nnz)
    (hUs : u0.size = (LinAlg.buildMixed .doolittle jac cscL cscU).Up.nnz) :
    ∀ r c, r < jac.n → c < jac.n →
      view (LinAlg.buildMixed .doolittle jac cscL cscU).Lp
          (doolittleCell (LinAlg.buildMixed .doolittle jac cscL cscU).dRows a (l0, u0)).1 r c
        = (DenseLU.lu (view jac a) jac.n).L r c ∧
      view (LinAlg.buildMixed .doolittle jac cscL cscU).Up
          (doolittleCell (LinAlg.buildMixed .doolittle jac cscL cscU).dRows a (l0, u0)).2 r c
        = (DenseLU.lu (view jac a) jac.n).U r c :=
  doolittleCell_view (LUSetup_buildMixed jac cscL cscU) rfl a l0 u0 hLs hUs

theorem buildMixed_mozart_view (jac : Pattern) (cscL cscU : Bool)
    (hdiag : ∀ i, i < jac.n → jac.zero? i i = false) (a l0 u0 : Array K)
    (hLs : l0.size = (LinAlg.buildMixed .mozart jac cscL cscU).Lp.nnz)
    (hUs : u0.size = (LinAlg.buildMixed .mozart jac cscL cscU).Up.nnz) :
    ∀ r c, r < jac.n → c < jac.n →
      view (LinAlg.buildMixed .mozart jac cscL cscU).Lp
          (mozartCell (LinAlg.buildMixed .mozart jac cscL cscU).mInit
            (LinAlg.buildMixed .mozart jac cscL cscU).mRows a (l0, u0)).1 r c
        = (DenseLU.lu (view jac a) jac.n).L r c ∧
      view (LinAlg.buildMixed .mozart jac cscL cscU).Up
          (mozartCell (LinAlg.buildMixed .mozart jac cscL cscU).mInit
            (LinAlg.buildMixed .mozart jac cscL cscU).mRows a (l0, u0)).2 r c
        = (DenseLU.lu (view jac a) jac.n).U r c :=
  mozartCell_view (MozSetup_buildMixed jac cscL cscU hdiag) rfl a l0 u0 hLs hUs

/-- the decomposition kernel the record built by `buildMixed kind …` is run with:
    `mozartCell` on the Mozart tables for `.mozart`, `doolittleCell` on the Doolittle tables for
    every other kind (which `buildMixed` maps to Doolittle).  Only an abbreviation for theorem
    statements; it unfolds (`rfl`) to the model kernels, see `mixedCell_mozart`/`mixedCell_doolittle`. -/
@[reducible] def mixedCell (kind : LUKind) (la : LinAlg) (a : Array K) (LU : Array K × Array K) :
    Array K × Array K :=
  match kind with
  | .mozart => mozartCell la.mInit la.mRows a LU
  | _ => doolittleCell la.dRows a LU

theorem mixedCell_mozart (la : LinAlg) (a : Array K) (LU : Array K × Array K) :
    mixedCell .mozart la a LU = mozartCell la.mInit la.mRows a LU := rfl

theorem mixedCell_doolittle (la : LinAlg) (a : Array K) (LU : Array K × Array K) :
    mixedCell .doolittle la a LU = doolittleCell la.dRows a LU := rfl

theorem mixedCell_of_ne_mozart (kind : LUKind) (hk : kind ≠ .mozart) (la : LinAlg) (a : Array K)
    (LU : Array K × Array K) : mixedCell kind la a LU = doolittleCell la.dRows a LU := by
  cases kind
  · rfl
  · exact absurd rfl hk
  · rfl
  · rfl

/-- C03 core, every `kind`: views of the result = dense Doolittle factors of the view of `a` -/
theorem buildMixed_view (kind : LUKind) (jac : Pattern) (cscL cscU : Bool)
    (hdiag : kind = .mozart → ∀ i, i < jac.n → jac.zero? i i = false) (a l0 u0 : Array K)
    (hLs : l0.size = (LinAlg.buildMixed kind jac cscL cscU).Lp.nnz)
    (hUs : u0.size = (LinAlg.buildMixed kind jac cscL cscU).Up.nnz) :
    ∀ r c, r < jac.n → c < jac.n →
      view (LinAlg.buildMixed kind jac cscL cscU).Lp
          (mixedCell kind (LinAlg.buildMixed kind jac cscL cscU) a (l0, u0)).1 r c
        = (DenseLU.lu (view jac a) jac.n).L r c ∧
      view (LinAlg.buildMixed kind jac cscL cscU).Up
          (mixedCell kind (LinAlg.buildMixed kind jac cscL cscU) a (l0, u0)).2 r c
        = (DenseLU.lu (view jac a) jac.n).U r c := by
  by_cases hk : kind = .mozart
  · subst hk
    exact buildMixed_mozart_view jac cscL cscU (hdiag rfl) a l0 u0 hLs hUs
  · rw [mixedCell_of_ne_mozart kind hk]
    rw [buildMixed_of_ne_mozart kind hk] at hLs hUs ⊢
    exact buildMixed_doolittle_view jac cscL cscU a l0 u0 hLs hUs

/-! ### `solveCell` only depends on the logical views of `L` and `U` -/

theorem forward_pass_congr (n : Nat) (C : Nat → Nat → K) (d : Nat → K)
    (step step' : Array K × Nat → SubRow → Array K × Nat) (rowOf rowOf' : Nat → SubRow)
    (hstep : ∀ x i, i < n → x.size = n →
      step (x, i) (rowOf i)
        = (wr x i ((rd x i - ∑ j ∈ range i, C i j * rd x j) / d i), i + 1))
    (hstep' : ∀ x i, i < n → x.size = n →
      step' (x, i) (rowOf' i)
        = (wr x i ((rd x i - ∑ j ∈ range i, C i j * rd x j) / d i), i + 1))
    (b : Array K) (hb : b.size = n) (m : Nat) (hm : m ≤ n) :
    ∃ x, ((List.range m).map rowOf).foldl step (b, 0) = (x, m) ∧
      ((List.range m).map rowOf').foldl step' (b, 0) = (x, m) ∧ x.size = n := by
  induction m with
  | zero => exact ⟨b, rfl, rfl, hb⟩
  | succ m ih =>
    obtain ⟨x, hx, hx', hsz⟩ := ih (by omega)
    refine ⟨wr x m ((rd x m - ∑ j ∈ range m, C m j * rd x j) / d m), ?_, ?_, ?_⟩
    · rw [List.range_succ, List.map_append, List.foldl_append, hx]
      simp only [List.map_cons, List.map_nil, List.foldl_cons, List.foldl_nil]
      exact hstep x m (by omega) hsz
    · rw [List.range_succ, List.map_append, List.foldl_append, hx']
      simp only [List.map_cons, List.map_nil, List.foldl_cons, List.foldl_nil]
      exact hstep' x m (by omega) hsz
    · simp [hsz]

theorem backward_pass_congr (n : Nat) (C : Nat → Nat → K) (d : Nat → K)
    (step step' : Array K × Nat → SubRow → Array K × Nat) (rowOf rowOf' : Nat → SubRow)
    (hstep : ∀ x i, i < n → x.size = n →
      step (x, i) (rowOf i)
        = (wr x i ((rd x i - ∑ j ∈ Ico (i + 1) n, C i j * rd x j) / d i),
            if i = 0 then 0 else i - 1))
    (hstep' : ∀ x i, i < n → x.size = n →
      step' (x, i) (rowOf' i)
        = (wr x i ((rd x i - ∑ j ∈ Ico (i + 1) n, C i j * rd x j) / d i),
            if i = 0 then 0 else i - 1))
    (m : Nat) (hm : m ≤ n) (y : Array K) (hy : y.size = n) :
    ((List.range m).reverse.map rowOf).foldl step (y, m - 1)
      = ((List.range m).reverse.map rowOf').foldl step' (y, m - 1) := by
  induction m generalizing y with
  | zero => rfl
  | succ m ih =>
    have hl : (List.range (m + 1)).reverse = m :: (List.range m).reverse := by
      rw [List.range_succ, List.reverse_append]; rfl
    have hidx : (if m = 0 then 0 else m - 1) = m - 1 := by split <;> omega
    rw [hl]
    simp only [List.map_cons, List.foldl_cons, Nat.add_sub_cancel]
    rw [hstep y m (by omega) hy, hstep' y m (by omega) hy, hidx]
    exact ih (by omega) _ (by simp [hy])

/-- two `(pattern, array)` representations of the same logical `L` and `U` (diagonals present)
    give the same `solveCell` result, whatever their storage orders -/
theorem solveCell_congr_views (Lp Up Lp' Up' : Pattern) (L U L' U' x : Array K) (n : Nat)
    (hn : Lp.n = n) (hn' : Lp'.n = n) (hx : x.size = n)
    (hLd : ∀ i, i < n → Lp.zero? i i = false) (hLd' : ∀ i, i < n → Lp'.zero? i i = false)
    (hUd : ∀ i, i < n → Up.zero? i i = false) (hUd' : ∀ i, i < n → Up'.zero? i i = false)
    (hL : ∀ i j, i < n → j < n → view Lp L i j = view Lp' L' i j)
    (hU : ∀ i j, i < n → j < n → view Up U i j = view Up' U' i j) :
    solveCell (solverRows Lp Up).1 (solverRows Lp Up).2 L U x
      = solveCell (solverRows Lp' Up').1 (solverRows Lp' Up').2 L' U' x := by
  rw [solveCell_eq, solveCell_eq, solverRows_eq, solverRows_eq, hn, hn']
  obtain ⟨z, hz, hz', hzs⟩ := forward_pass_congr n (view Lp L) (fun i => view Lp L i i)
    (fwStep L) (fwStep L') (fwRow Lp) (fwRow Lp')
    (fun x i hi hx => by
      rw [fwStep_row Lp L x i (by omega), view_present _ _ _ _ (hLd i hi)])
    (fun x i hi hx => by
      rw [fwStep_row Lp' L' x i (by omega), hL i i hi hi, view_present _ _ _ _ (hLd' i hi)]
      congr 4
      apply sum_congr rfl
      intro j hj
      have := mem_range.mp hj
      rw [hL i j hi (by omega)])
    x hx n (le_refl n)
  simp only [hz, hz', hzs]
  have := backward_pass_congr n (view Up U) (fun i => view Up U i i)
    (bwStep U) (bwStep U') (bwRow n Up) (bwRow n Up')
    (fun x i hi hx => by
      rw [bwStep_row n Up U x i (by omega) hi, view_present _ _ _ _ (hUd i hi)])
    (fun x i hi hx => by
      rw [bwStep_row n Up' U' x i (by omega) hi, hU i i hi hi, view_present _ _ _ _ (hUd' i hi)]
      congr 4
      apply sum_congr rfl
      intro j hj
      have := mem_Ico.mp hj
      rw [hU i j hi this.2])
    n (le_refl n) z hzs
  rw [this]

/-! ### `IsLU` through views -/

theorem IsLU_congr {n : Nat} {A Lm Um Lm' Um' : Nat → Nat → K} (h : DenseLU.IsLU n A Lm Um)
    (hL : ∀ r c, r < n → c < n → Lm' r c = Lm r c)
    (hU : ∀ r c, r < n → c < n → Um' r c = Um r c) : DenseLU.IsLU n A Lm' Um' where
  L_diag := fun i hi => by rw [hL i i hi hi]; exact h.L_diag i hi
  L_up := fun r c hr hc hrc => by rw [hL r c hr hc]; exact h.L_up r c hr hc hrc
  U_low := fun r c hr hc hcr => by rw [hU r c hr hc]; exact h.U_low r c hr hc hcr
  prod := fun r c hr hc => by
    rw [← h.prod r c hr hc]
    apply sum_congr rfl
    intro j hj
    have hj' := mem_range.mp hj
    rw [hL r j hr hj', hU j c hj' hc]

/-- arrays whose views are the dense Doolittle factors of `Am`, no vanishing pivot: the views are
    an LU factorisation of `Am` -/
theorem IsLU_of_views {n : Nat} (Am : Nat → Nat → K) (Lp Up : Pattern) (L U : Array K)
    (hv : ∀ r c, r < n → c < n → view Lp L r c = (DenseLU.lu Am n).L r c ∧
      view Up U r c = (DenseLU.lu Am n).U r c)
    (hpiv : ∀ i, i < n → view Up U i i ≠ 0) :
    DenseLU.IsLU n Am (view Lp L) (view Up U) :=
  IsLU_congr (DenseLU.lu_isLU Am n (fun i hi => by rw [← (hv i i hi hi).2]; exact hpiv i hi))
    (fun r c hr hc => (hv r c hr hc).1) (fun r c hr hc => (hv r c hr hc).2)

/-! ### C04 core for `buildMixed` -/

theorem buildMixed_fw_bw (kind : LUKind) (jac : Pattern) (cscL cscU : Bool) :
    (LinAlg.buildMixed kind jac cscL cscU).fw
      = (solverRows (LinAlg.buildMixed kind jac cscL cscU).Lp
          (LinAlg.buildMixed kind jac cscL cscU).Up).1 ∧
    (LinAlg.buildMixed kind jac cscL cscU).bw
      = (solverRows (LinAlg.buildMixed kind jac cscL cscU).Lp
          (LinAlg.buildMixed kind jac cscL cscU).Up).2 := by
  cases kind <;> exact ⟨rfl, rfl⟩

/-- `Factor; Solve` with the tables of `buildMixed` solves `A x = b` -/
theorem buildMixed_solve (kind : LUKind) (jac : Pattern) (cscL cscU : Bool)
    (hdiag : kind = .mozart → ∀ i, i < jac.n → jac.zero? i i = false) (a l0 u0 b : Array K)
    (hLs : l0.size = (LinAlg.buildMixed kind jac cscL cscU).Lp.nnz)
    (hUs : u0.size = (LinAlg.buildMixed kind jac cscL cscU).Up.nnz) (hb : b.size = jac.n)
    (hpiv : ∀ i, i < jac.n → view (LinAlg.buildMixed kind jac cscL cscU).Up
      (mixedCell kind (LinAlg.buildMixed kind jac cscL cscU) a (l0, u0)).2 i i ≠ 0) :
    ∀ i, i < jac.n →
      ∑ j ∈ range jac.n, view jac a i j *
        rd (solveCell (LinAlg.buildMixed kind jac cscL cscU).fw
          (LinAlg.buildMixed kind jac cscL cscU).bw
          (mixedCell kind (LinAlg.buildMixed kind jac cscL cscU) a (l0, u0)).1
          (mixedCell kind (LinAlg.buildMixed kind jac cscL cscU) a (l0, u0)).2 b) j = rd b i := by
  rw [(buildMixed_fw_bw kind jac cscL cscU).1, (buildMixed_fw_bw kind jac cscL cscU).2]
  exact solve_of_views _ _ _ _ b jac.n (view jac a) (buildMixed_n kind jac cscL cscU).2.1 hb
    (buildMixed_view kind jac cscL cscU hdiag a l0 u0 hLs hUs) hpiv

/-- the solution array itself does not depend on the storage orders of `L`/`U` nor on the prior
    contents of their storage -/
theorem buildMixed_solve_indep (kind : LUKind) (jac : Pattern) (cscL cscU cscL' cscU' : Bool)
    (hdiag : kind = .mozart → ∀ i, i < jac.n → jac.zero? i i = false)
    (a l0 u0 l0' u0' b : Array K)
    (hLs : l0.size = (LinAlg.buildMixed kind jac cscL cscU).Lp.nnz)
    (hUs : u0.size = (LinAlg.buildMixed kind jac cscL cscU).Up.nnz)
    (hLs' : l0'.size = (LinAlg.buildMixed kind jac cscL' cscU').Lp.nnz)
    (hUs' : u0'.size = (LinAlg.buildMixed kind jac cscL' cscU').Up.nnz) (hb : b.size = jac.n) :
    solveCell (LinAlg.buildMixed kind jac cscL cscU).fw (LinAlg.buildMixed kind jac cscL cscU).bw
        (mixedCell kind (LinAlg.buildMixed kind jac cscL cscU) a (l0, u0)).1
        (mixedCell kind (LinAlg.buildMixed kind jac cscL cscU) a (l0, u0)).2 b
      = solveCell (LinAlg.buildMixed kind jac cscL' cscU').fw
        (LinAlg.buildMixed kind jac cscL' cscU').bw
        (mixedCell kind (LinAlg.buildMixed kind jac cscL' cscU') a (l0', u0')).1
        (mixedCell kind (LinAlg.buildMixed kind jac cscL' cscU') a (l0', u0')).2 b := by
  have hs := MozSetup_buildMixed_kind kind jac cscL cscU hdiag
  have hs' := MozSetup_buildMixed_kind kind jac cscL' cscU' hdiag
  have hv := buildMixed_view kind jac cscL cscU hdiag a l0 u0 hLs hUs
  have hv' := buildMixed_view kind jac cscL' cscU' hdiag a l0' u0' hLs' hUs'
  rw [(buildMixed_fw_bw kind jac cscL cscU).1, (buildMixed_fw_bw kind jac cscL cscU).2,
    (buildMixed_fw_bw kind jac cscL' cscU').1, (buildMixed_fw_bw kind jac cscL' cscU').2]
  exact solveCell_congr_views _ _ _ _ _ _ _ _ b jac.n
    (buildMixed_n kind jac cscL cscU).2.1 (buildMixed_n kind jac cscL' cscU').2.1 hb
    hs.diagL hs'.diagL
    (fun i hi => (pres_true _ _ _).mp (hs.closed.diagU i hi))
    (fun i hi => (pres_true _ _ _).mp (hs'.closed.diagU i hi))
    (fun i j hi hj => (hv i j hi hj).1.trans (hv' i j hi hj).1.symm)
    (fun i j hi hj => (hv i j hi hj).2.trans (hv' i j hi hj).2.symm)

end cell



end Micm
