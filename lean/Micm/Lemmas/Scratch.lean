/-
Lemmas for C11 (a `State` can be reused indefinitely): the results of `rosStep` / `rosLoop` /
`rosSolve` and of `beStep` / `beLoop` / `beSolve` do not depend on the *contents* of the scratch
storage carried by the State, only on its *shape*.  Dataflow only — any carrier.
-/
import Micm.Lemmas.RosLoop
import Micm.Lemmas.Special
namespace Micm
set_option linter.unusedSectionVars false

/-! ### shapes -/

section Shape
variable {α : Type}

/-- outer size and inner row sizes of a dense/sparse matrix -/
def shape (m : Mat α) : Array Nat := m.map Array.size
/-- shapes of the stage matrices `K[i]` -/
def kshape (k : Array (Mat α)) : Array (Array Nat) := k.map shape

theorem shape_size (m : Mat α) : (shape m).size = m.size := by simp [shape]

theorem size_eq_of_shape {a b : Mat α} (h : shape a = shape b) : a.size = b.size := by
  rw [← shape_size a, ← shape_size b, h]

theorem size_eq_of_kshape {a b : Array (Mat α)} (h : kshape a = kshape b) : a.size = b.size := by
  have := congrArg Array.size h
  simpa [kshape] using this

theorem fillM_eq_shape (m : Mat α) (v : α) :
    fillM m v = (shape m).map (fun n => Array.replicate n v) := by
  simp [fillM, shape, Array.map_map, Function.comp_def, Array.map_const']

/-- `Fill(v)` depends only on the shape of the matrix it overwrites -/
theorem fillM_congr {a b : Mat α} (h : shape a = shape b) (v : α) : fillM a v = fillM b v := by
  rw [fillM_eq_shape, fillM_eq_shape, h]

theorem shape_fillM (m : Mat α) (v : α) : shape (fillM m v) = shape m := by
  simp [fillM, shape, Array.map_map, Function.comp_def]

theorem getD_map {β γ : Type} (f : β → γ) (K : Array β) (j : Nat) (d : β) :
    (K.map f).getD j (f d) = f (K.getD j d) := by
  simp only [Array.getD_eq_getD_getElem?, Array.getElem?_map]
  cases K[j]? <;> rfl

theorem shape_empty : shape (#[] : Mat α) = #[] := by simp [shape]

theorem shape_getD (K : Array (Mat α)) (j : Nat) :
    shape (K.getD j #[]) = (kshape K).getD j #[] := by
  have := getD_map (shape (α := α)) K j #[]
  rw [← this, shape_empty]; rfl

theorem shape_getD_congr {K K' : Array (Mat α)} (h : kshape K = kshape K') (j : Nat) :
    shape (K.getD j #[]) = shape (K'.getD j #[]) := by
  rw [shape_getD, shape_getD, h]

theorem size_getD_congr {a b : Mat α} (h : shape a = shape b) (c : Nat) :
    (a.getD c #[]).size = (b.getD c #[]).size := by
  have h1 := getD_map (Array.size (α := α)) a c #[]
  have h2 := getD_map (Array.size (α := α)) b c #[]
  rw [← h1, ← h2]
  show (shape a).getD c _ = (shape b).getD c _
  rw [h]

theorem getD_setIfInBounds {β : Type} (K : Array β) (i j : Nat) (x d : β) :
    (K.setIfInBounds i x).getD j d = if i = j ∧ i < K.size then x else K.getD j d := by
  simp only [Array.getD_eq_getD_getElem?, Array.getElem?_setIfInBounds]
  by_cases h : i = j
  · subst h
    by_cases hi : i < K.size
    · simp [hi]
    · simp [hi]
  · simp [h]

theorem kshape_setIfInBounds (K : Array (Mat α)) (i : Nat) (x : Mat α) :
    kshape (K.setIfInBounds i x) = (kshape K).setIfInBounds i (shape x) := by
  simp [kshape]

theorem kshape_set_congr {K K' : Array (Mat α)} (h : kshape K = kshape K') (i : Nat) {x x' : Mat α}
    (hx : shape x = shape x') :
    kshape (K.setIfInBounds i x) = kshape (K'.setIfInBounds i x') := by
  rw [kshape_setIfInBounds, kshape_setIfInBounds, h, hx]

theorem foldl_ext' {β γ : Type} (f g : γ → β → γ) (l : List β) (a : γ)
    (H : ∀ a : γ, ∀ b ∈ l, f a b = g a b) : l.foldl f a = l.foldl g a := by
  induction l generalizing a with
  | nil => rfl
  | cons x l ih =>
    simp only [List.foldl_cons]
    rw [H a x (List.mem_cons_self ..)]
    exact ih _ (fun a b hb => H a b (List.mem_cons_of_mem _ hb))

end Shape

/-! ### the stage loop: `K` entries are written before they are read -/

section Stages
variable {α : Type} [OfNat α 0] [OfNat α 1] [Add α] [Sub α] [Mul α] [Div α]
variable (s : SolverCfg α) (p : RosParams α) (kc : Mat α)

theorem stagePre_congr (Y : Mat α) (stage : Nat) (K K' : Array (Mat α)) (ynew ynew' : Mat α) (st : Stats)
    (hsz : kshape K = kshape K')
    (hlt : ∀ j, j < stage → K.getD j #[] = K'.getD j #[])
    (hcur : (stage = 0 ∨ p.newF.getD stage false = false) → K.getD stage #[] = K'.getD stage #[]) :
    kshape (stagePre s p kc Y stage K ynew st).1 = kshape (stagePre s p kc Y stage K' ynew' st).1 ∧
    (∀ j, j ≤ stage → (stagePre s p kc Y stage K ynew st).1.getD j #[] =
                      (stagePre s p kc Y stage K' ynew' st).1.getD j #[]) ∧
    (stagePre s p kc Y stage K ynew st).2.2 = (stagePre s p kc Y stage K' ynew' st).2.2 := by
  have hall : (stage = 0 ∨ p.newF.getD stage false = false) →
      ∀ j, j ≤ stage → K.getD j #[] = K'.getD j #[] := by
    intro h j hj
    rcases Nat.lt_or_eq_of_le hj with h1 | h1
    · exact hlt j h1
    · rw [h1]; exact hcur h
  unfold stagePre
  by_cases h0 : stage = 0
  · simp only [h0, if_true]
    exact ⟨hsz, fun j hj => hall (Or.inl h0) j (by omega), trivial⟩
  · simp only [h0, if_false]
    by_cases hn : p.newF.getD stage false = true
    · simp only [hn, if_true]
      have hy : (List.range stage).foldl
            (fun yn j => axpyM (rd p.a (stage * (stage - 1) / 2 + j)) (K.getD j #[]) yn) Y =
          (List.range stage).foldl
            (fun yn j => axpyM (rd p.a (stage * (stage - 1) / 2 + j)) (K'.getD j #[]) yn) Y := by
        apply foldl_ext'
        intro a j hj
        rw [hlt j (List.mem_range.1 hj)]
      have hf : fillM (K.getD stage #[]) (0 : α) = fillM (K'.getD stage #[]) 0 :=
        fillM_congr (shape_getD_congr hsz stage) 0
      rw [hy, hf]
      refine ⟨kshape_set_congr hsz stage rfl, ?_, trivial⟩
      intro j hj
      rw [getD_setIfInBounds, getD_setIfInBounds, size_eq_of_kshape hsz]
      by_cases hjs : stage = j
      · subst hjs
        by_cases hin : stage < K'.size
        · simp [hin]
        · have hin' : ¬ stage < K.size := by rw [size_eq_of_kshape hsz]; exact hin
          simp [hin, hin']
      · simp only [hjs, false_and, if_false]
        exact hlt j (by omega)
    · have hn' : p.newF.getD stage false = false := by simpa using hn
      simp only [hn', Bool.false_eq_true, if_false]
      exact ⟨hsz, fun j hj => hall (Or.inr hn') j hj, trivial⟩

theorem stageCopy_congr (stage : Nat) (K K' : Array (Mat α))
    (hsz : kshape K = kshape K')
    (hle : ∀ j, j ≤ stage → K.getD j #[] = K'.getD j #[]) :
    kshape (stageCopy p stage K) = kshape (stageCopy p stage K') ∧
    (∀ j, j ≤ stage → (stageCopy p stage K).getD j #[] = (stageCopy p stage K').getD j #[]) ∧
    ((stage + 1 < p.stages ∧ p.newF.getD (stage + 1) false = false) →
      (stageCopy p stage K).getD (stage + 1) #[] = (stageCopy p stage K').getD (stage + 1) #[]) := by
  unfold stageCopy
  by_cases hc : (stage + 1 < p.stages && !(p.newF.getD (stage + 1) false)) = true
  · simp only [hc, if_true]
    refine ⟨kshape_set_congr hsz _ (by rw [hle stage (Nat.le_refl _)]), ?_, ?_⟩
    · intro j hj
      rw [getD_setIfInBounds, getD_setIfInBounds]
      have : ¬ (stage + 1 = j) := by omega
      simp only [this, false_and, if_false]
      exact hle j hj
    · intro _
      rw [getD_setIfInBounds, getD_setIfInBounds, size_eq_of_kshape hsz, hle stage (Nat.le_refl _)]
      by_cases hin : stage + 1 < K'.size
      · simp [hin]
      · have hin' : ¬ stage + 1 < K.size := by rw [size_eq_of_kshape hsz]; exact hin
        simp [hin, Array.getD, hin']
  · simp only [hc]
    refine ⟨hsz, hle, ?_⟩
    intro ⟨h1, h2⟩
    exfalso; apply hc
    simp [h1, h2]

theorem stagesGo_congr (Y J Lo Up J' Lo' Up' : Mat α) (h : α)
    (hsolve : ∀ x, s.linSolve J Lo Up x = s.linSolve J' Lo' Up' x) (n : Nat) :
    ∀ (stage : Nat) (K K' : Array (Mat α)) (ynew ynew' : Mat α) (st : Stats),
    kshape K = kshape K' →
    (∀ j, j < stage → K.getD j #[] = K'.getD j #[]) →
    (1 ≤ n → (stage = 0 ∨ p.newF.getD stage false = false) → K.getD stage #[] = K'.getD stage #[]) →
    stage + n ≤ p.stages →
    kshape (stagesGo s p kc Y J Lo Up h n stage K ynew st).1 =
      kshape (stagesGo s p kc Y J' Lo' Up' h n stage K' ynew' st).1 ∧
    (∀ j, j < stage + n → (stagesGo s p kc Y J Lo Up h n stage K ynew st).1.getD j #[] =
                          (stagesGo s p kc Y J' Lo' Up' h n stage K' ynew' st).1.getD j #[]) ∧
    (stagesGo s p kc Y J Lo Up h n stage K ynew st).2.2 =
      (stagesGo s p kc Y J' Lo' Up' h n stage K' ynew' st).2.2 := by
  induction n with
  | zero =>
    intro stage K K' ynew ynew' st hsz hlt _ _
    simp only [stagesGo]
    exact ⟨hsz, fun j hj => hlt j (by omega), trivial⟩
  | succ n ih =>
    intro stage K K' ynew ynew' st hsz hlt hcur hfuel
    rw [stagesGo_succ, stagesGo_succ]
    obtain ⟨a1, a2, a3⟩ := stagePre_congr s p kc Y stage K K' ynew ynew' st hsz hlt (hcur (by omega))
    obtain ⟨b1, b2, b3⟩ := stageCopy_congr p stage _ _ a1 a2
    have hrhs : stageRhs p h stage (stageCopy p stage (stagePre s p kc Y stage K ynew st).1) =
        stageRhs p h stage (stageCopy p stage (stagePre s p kc Y stage K' ynew' st).1) := by
      unfold stageRhs
      rw [b2 stage (Nat.le_refl _)]
      apply foldl_ext'
      intro a j hj
      rw [b2 j (Nat.le_of_lt (List.mem_range.1 hj))]
    rw [hrhs, hsolve, a3]
    have hsz3 := kshape_set_congr b1 stage
      (x := s.linSolve J' Lo' Up' (stageRhs p h stage (stageCopy p stage (stagePre s p kc Y stage K' ynew' st).1)))
      (x' := s.linSolve J' Lo' Up' (stageRhs p h stage (stageCopy p stage (stagePre s p kc Y stage K' ynew' st).1)))
      rfl
    have hszc := size_eq_of_kshape b1
    have res := ih (stage + 1) _ _ (stagePre s p kc Y stage K ynew st).2.1
      (stagePre s p kc Y stage K' ynew' st).2.1
      { (stagePre s p kc Y stage K' ynew' st).2.2 with
          solves := (stagePre s p kc Y stage K' ynew' st).2.2.solves + 1 } hsz3
      (by
        intro j hj
        rw [getD_setIfInBounds, getD_setIfInBounds, hszc]
        by_cases hjs : stage = j
        · subst hjs
          by_cases hin : stage < (stageCopy p stage (stagePre s p kc Y stage K' ynew' st).1).size
          · simp [hin]
          · have hin' : ¬ stage < (stageCopy p stage (stagePre s p kc Y stage K ynew st).1).size := by
              rw [hszc]; exact hin
            simp [hin, Array.getD, hin']
        · simp only [hjs, false_and, if_false]
          exact b2 j (by omega))
      (by
        intro hn hc
        rw [getD_setIfInBounds, getD_setIfInBounds]
        have hne : ¬ (stage = stage + 1) := by omega
        simp only [hne, false_and, if_false]
        apply b3
        refine ⟨by omega, ?_⟩
        rcases hc with hc | hc
        · omega
        · exact hc)
      (by omega)
    obtain ⟨r1, r2, r3⟩ := res
    refine ⟨r1, ?_, r3⟩
    intro j hj
    exact r2 j (by omega)

end Stages


/-! ### the LU kernels preserve the sizes of the `L`/`U` arrays -/

section LUSize
variable {α : Type}

theorem foldl_size {β : Type} (f : Array α → β → Array α) (hf : ∀ a b, (f a b).size = a.size)
    (l : List β) (a : Array α) : (l.foldl f a).size = a.size := by
  induction l generalizing a with
  | nil => rfl
  | cons x l ih => simp only [List.foldl_cons]; rw [ih, hf]

theorem foldl_pair_size {β : Type} (f : Array α × Array α → β → Array α × Array α)
    (hf : ∀ a b, (f a b).1.size = a.1.size ∧ (f a b).2.size = a.2.size)
    (l : List β) (a : Array α × Array α) :
    (l.foldl f a).1.size = a.1.size ∧ (l.foldl f a).2.size = a.2.size := by
  induction l generalizing a with
  | nil => exact ⟨rfl, rfl⟩
  | cons x l ih =>
    simp only [List.foldl_cons]
    obtain ⟨h1, h2⟩ := ih (f a x)
    obtain ⟨g1, g2⟩ := hf a x
    exact ⟨h1.trans g1, h2.trans g2⟩

variable [OfNat α 0] [OfNat α 1] [Sub α] [Mul α] [Div α]

theorem doolittleCell_size (rows : List DRow) (A : Array α) (LU : Array α × Array α) :
    (doolittleCell rows A LU).1.size = LU.1.size ∧ (doolittleCell rows A LU).2.size = LU.2.size := by
  unfold doolittleCell
  apply foldl_pair_size
  intro LU r
  constructor
  · simp only []
    rw [foldl_size]
    · simp
    · intro L e
      simp only [wr_size]
      rw [foldl_size]
      · simp
      · intro a b; simp
  · simp only []
    rw [foldl_size]
    intro U e
    rw [foldl_size]
    · simp
    · intro a b; simp

theorem mozartCell_size (ini : List MInit) (rows : List MRow) (A : Array α) (LU : Array α × Array α) :
    (mozartCell ini rows A LU).1.size = LU.1.size ∧ (mozartCell ini rows A LU).2.size = LU.2.size := by
  unfold mozartCell
  have h0 := foldl_pair_size (fun (LU : Array α × Array α) (r : MInit) =>
      let U := r.ujiAji.foldl (fun U p => wr U p.1 (rd A p.2)) LU.2
      let L := wr LU.1 r.lii 1
      let L := r.ljiAji.foldl (fun L p => wr L p.1 (rd A p.2)) L
      (L, U))
    (by
      intro a b
      constructor
      · simp only []
        rw [foldl_size]
        · simp
        · intro a b; simp
      · simp only []
        rw [foldl_size]
        intro a b; simp) ini LU
  have hU : ∀ U : Array α, (ini.foldl (fun U r => r.fillU.foldl (fun U i => wr U i 0) U) U).size = U.size := by
    intro U
    apply foldl_size
    intro a b
    apply foldl_size
    intro a b; simp
  have hL : ∀ L : Array α, (ini.foldl (fun L r => r.fillL.foldl (fun L i => wr L i 0) L) L).size = L.size := by
    intro L
    apply foldl_size
    intro a b
    apply foldl_size
    intro a b; simp
  simp only []
  have h1 := foldl_pair_size (fun (LU : Array α × Array α) (r : MRow) =>
      let inv : α := 1 / rd LU.2 r.uii
      let L := r.lji.foldl (fun L i => wr L i (rd L i * inv)) LU.1
      r.ks.foldl (fun (LU : Array α × Array α) k =>
        let U := k.ujk.foldl (fun U p => wr U p.1 (rd U p.1 - rd LU.1 p.2 * rd U k.uik)) LU.2
        let L := k.ljk.foldl (fun L p => wr L p.1 (rd L p.1 - rd L p.2 * rd U k.uik)) LU.1
        (L, U)) (L, LU.2))
    (by
      intro a b
      simp only []
      have := foldl_pair_size (fun (LU : Array α × Array α) (k : MK) =>
          let U := k.ujk.foldl (fun U p => wr U p.1 (rd U p.1 - rd LU.1 p.2 * rd U k.uik)) LU.2
          let L := k.ljk.foldl (fun L p => wr L p.1 (rd L p.1 - rd L p.2 * rd U k.uik)) LU.1
          (L, U))
        (by
          intro a k
          constructor
          · simp only []; apply foldl_size; intro a b; simp
          · simp only []; apply foldl_size; intro a b; simp)
        b.ks (b.lji.foldl (fun L i => wr L i (rd L i * (1 / rd a.2 b.uii))) a.1, a.2)
      refine ⟨this.1.trans ?_, this.2⟩
      apply foldl_size; intro a b; simp)
    rows
  obtain ⟨k1, k2⟩ := h1 _
  exact ⟨k1.trans ((hL _).trans h0.1), k2.trans ((hU _).trans h0.2)⟩

end LUSize

/-! ### `Factor` / `Solve`: dependence on the prior `L`/`U` contents -/

section Factor
variable {α : Type} [OfNat α 0] [OfNat α 1] [Add α] [Sub α] [Mul α] [Div α]
variable (s : SolverCfg α)

/-- the per-cell LU kernel of the separate-`L`/`U` variants (identity for the in-place variants,
    whose `Factor` does not touch `lower_matrix_`/`upper_matrix_`) -/
def luCellSep (A : Array α) (LU : Array α × Array α) : Array α × Array α :=
  match s.la.kind with
  | .doolittle => doolittleCell s.la.dRows A LU
  | .mozart => mozartCell s.la.mInit s.la.mRows A LU
  | _ => LU

/-- **LU dataflow fact** (proved separately for the Doolittle tables over a field as
    `C03_prior_contents`; a hypothesis here): on `L`/`U` arrays of sizes `nL`/`nU` the kernel writes
    every slot before reading it, i.e. its result does not depend on the prior contents. -/
def LUOverwrites (nL nU : Nat) : Prop :=
  ∀ (A L U L' U' : Array α), L.size = nL → L'.size = nL → U.size = nU → U'.size = nU →
    luCellSep s A (L, U) = luCellSep s A (L', U')

/-- the same for every cell of a `lower_matrix_`/`upper_matrix_` pair -/
def LUOverwritesFor (Lo Up : Mat α) : Prop :=
  ∀ c, LUOverwrites s (Lo.getD c #[]).size (Up.getD c #[]).size

/-- the scratch of a State is fit for its solver: nothing is required of the in-place variants -/
def LUInv (sc : Scratch α) : Prop :=
  s.la.kind.inPlace = false → LUOverwritesFor s sc.lower sc.upper

theorem LUOverwrites_zero : LUOverwrites s 0 0 := by
  intro A L U L' U' h1 h2 h3 h4
  rw [Array.eq_empty_of_size_eq_zero h1, Array.eq_empty_of_size_eq_zero h2,
    Array.eq_empty_of_size_eq_zero h3, Array.eq_empty_of_size_eq_zero h4]

theorem luCellSep_size (A : Array α) (LU : Array α × Array α) :
    (luCellSep s A LU).1.size = LU.1.size ∧ (luCellSep s A LU).2.size = LU.2.size := by
  unfold luCellSep
  split
  · exact doolittleCell_size _ _ _
  · exact mozartCell_size _ _ _ _
  · exact ⟨rfl, rfl⟩

/-- `Factor` in terms of `luCellSep` for the separate variants -/
theorem factor_sep (hk : s.la.kind.inPlace = false) (J Lo Up : Mat α) :
    s.factor J Lo Up =
      (J, (J.mapIdx fun c A => luCellSep s A (Lo.getD c #[], Up.getD c #[])).map (·.1),
          (J.mapIdx fun c A => luCellSep s A (Lo.getD c #[], Up.getD c #[])).map (·.2)) := by
  unfold SolverCfg.factor luCellSep
  cases hkk : s.la.kind <;> simp_all [LUKind.inPlace]

theorem factor_inplace (hk : s.la.kind.inPlace = true) (J Lo Up : Mat α) :
    (s.factor J Lo Up).2 = (Lo, Up) ∧ ∀ Lo' Up', (s.factor J Lo' Up').1 = (s.factor J Lo Up).1 := by
  unfold SolverCfg.factor
  cases hkk : s.la.kind <;> simp_all [LUKind.inPlace]

theorem linSolve_inplace (hk : s.la.kind.inPlace = true) (J Lo Up Lo' Up' x : Mat α) :
    s.linSolve J Lo Up x = s.linSolve J Lo' Up' x := by
  unfold SolverCfg.linSolve; simp [hk]

theorem factor_congr (J Lo Up Lo' Up' : Mat α) (hL : shape Lo = shape Lo') (hU : shape Up = shape Up')
    (hlu : s.la.kind.inPlace = false → LUOverwritesFor s Lo Up) :
    (s.factor J Lo Up).1 = (s.factor J Lo' Up').1 ∧
    shape (s.factor J Lo Up).2.1 = shape (s.factor J Lo' Up').2.1 ∧
    shape (s.factor J Lo Up).2.2 = shape (s.factor J Lo' Up').2.2 ∧
    (∀ x, s.linSolve (s.factor J Lo Up).1 (s.factor J Lo Up).2.1 (s.factor J Lo Up).2.2 x =
          s.linSolve (s.factor J Lo' Up').1 (s.factor J Lo' Up').2.1 (s.factor J Lo' Up').2.2 x) := by
  cases hk : s.la.kind.inPlace
  · -- separate L/U: the two factorisations are equal
    have hfun : (fun (c : Nat) (A : Array α) => luCellSep s A (Lo.getD c #[], Up.getD c #[])) =
        (fun (c : Nat) (A : Array α) => luCellSep s A (Lo'.getD c #[], Up'.getD c #[])) := by
      funext c A
      exact hlu hk c A _ _ _ _ rfl (size_getD_congr hL c).symm rfl (size_getD_congr hU c).symm
    rw [factor_sep s hk, factor_sep s hk, hfun]
    exact ⟨rfl, rfl, rfl, fun _ => rfl⟩
  · obtain ⟨h2, h1⟩ := factor_inplace s hk J Lo Up
    obtain ⟨h2', _⟩ := factor_inplace s hk J Lo' Up'
    refine ⟨(h1 Lo' Up').symm, ?_, ?_, ?_⟩
    · rw [h2, h2']; exact hL
    · rw [h2, h2']; exact hU
    · intro x; rw [h1 Lo' Up']; exact linSolve_inplace s hk _ _ _ _ _ _

/-- `Factor` keeps the State fit for its solver -/
theorem factor_LUOverwritesFor (J Lo Up : Mat α)
    (hlu : s.la.kind.inPlace = false → LUOverwritesFor s Lo Up) :
    s.la.kind.inPlace = false → LUOverwritesFor s (s.factor J Lo Up).2.1 (s.factor J Lo Up).2.2 := by
  intro hk c
  rw [factor_sep s hk]
  simp only [Array.getD_eq_getD_getElem?, Array.getElem?_map, Array.getElem?_mapIdx]
  by_cases hc : c < J.size
  · simp only [Array.getElem?_eq_getElem hc, Option.map_some, Option.getD_some]
    rw [(luCellSep_size s _ _).1, (luCellSep_size s _ _).2]
    have := hlu hk c
    simpa only [Array.getD_eq_getD_getElem?] using this
  · have : J[c]? = none := by simp [hc]
    simp only [this, Option.map_none, Option.getD_none]
    exact LUOverwrites_zero s

end Factor

/-! ### scratch relations -/

section Rel
variable {α : Type}

/-- same sizes everywhere: outer sizes and inner row sizes of `jac, lower, upper, ynew, f0, yerr`,
    and of every stage matrix `k[i]` -/
structure ScratchShapeEq (a b : Scratch α) : Prop where
  jac : shape a.jac = shape b.jac
  lower : shape a.lower = shape b.lower
  upper : shape a.upper = shape b.upper
  ynew : shape a.ynew = shape b.ynew
  f0 : shape a.f0 = shape b.f0
  k : kshape a.k = kshape b.k
  yerr : shape a.yerr = shape b.yerr

theorem ScratchShapeEq.refl (a : Scratch α) : ScratchShapeEq a a := ⟨rfl, rfl, rfl, rfl, rfl, rfl, rfl⟩
theorem ScratchShapeEq.symm {a b : Scratch α} (h : ScratchShapeEq a b) : ScratchShapeEq b a :=
  ⟨h.jac.symm, h.lower.symm, h.upper.symm, h.ynew.symm, h.f0.symm, h.k.symm, h.yerr.symm⟩
theorem ScratchShapeEq.trans {a b c : Scratch α} (h : ScratchShapeEq a b) (g : ScratchShapeEq b c) :
    ScratchShapeEq a c :=
  ⟨h.jac.trans g.jac, h.lower.trans g.lower, h.upper.trans g.upper, h.ynew.trans g.ynew,
   h.f0.trans g.f0, h.k.trans g.k, h.yerr.trans g.yerr⟩

/-- the relation kept between the scratch of two runs: shape-equal always; inside a step
    (`inStep = true`) the two objects computed by the step prologue — initial forcing and
    Jacobian — are equal -/
def ScratchRel (inStep : Bool) (a b : Scratch α) : Prop :=
  ScratchShapeEq a b ∧ (inStep = true → a.f0 = b.f0 ∧ a.jac = b.jac)

end Rel

/-! ### one iteration of the Rosenbrock loop -/

section Ros
variable {α : Type} [OfNat α 0] [OfNat α 1] [Add α] [Sub α] [Mul α] [Div α]
variable (o : Ops α) (cs : Consts α) (s : SolverCfg α) (p : RosParams α) (kc : Mat α)
    (atol : Array α) (rtol : α) (timeStep hm : α)

theorem rosPrologue_lu (r : RState α) :
    (rosPrologue o cs s p kc timeStep r).sc.lower = r.sc.lower ∧
    (rosPrologue o cs s p kc timeStep r).sc.upper = r.sc.upper := by
  have h := rosPrologue_cases o cs s p kc timeStep r
  generalize rosPrologue o cs s p kc timeStep r = r' at h ⊢
  cases h <;> simp [startStep]

theorem rosPrologue_scratch (r : RState α) (sc' : Scratch α) (h : ScratchRel r.inStep r.sc sc') :
    ∃ sc'', rosPrologue o cs s p kc timeStep { r with sc := sc' } =
        { rosPrologue o cs s p kc timeStep r with sc := sc'' } ∧
      ScratchRel (rosPrologue o cs s p kc timeStep r).inStep (rosPrologue o cs s p kc timeStep r).sc sc'' := by
  rcases r with ⟨Y, ctl, stats, status, inStep, lastAlpha, sc, trace⟩
  simp only [] at h
  unfold rosPrologue
  simp only []
  cases inStep
  · have hrel : ScratchRel false sc sc' := h
    simp only [Bool.false_eq_true, if_false]
    generalize o.le (ctl.t - timeStep + p.roundOff) 0 = b1
    generalize (o.eq (ctl.t + cs.tenth * ctl.h) ctl.t || o.le ctl.h p.roundOff) = b3
    cases b1
    · exact ⟨sc', rfl, hrel⟩
    · simp only [Bool.not_true, Bool.false_eq_true, if_false]
      by_cases h2 : stats.numberOfSteps > p.maxSteps
      · simp only [h2, if_true]; exact ⟨sc', rfl, hrel⟩
      · simp only [h2, if_false]
        cases b3
        · simp only [Bool.false_eq_true, if_false]
          refine ⟨{ sc' with f0 := s.forcing kc Y (fillM sc'.f0 0),
                             jac := s.jacobian kc Y (fillM sc'.jac 0) }, rfl, ?_⟩
          simp only [startStep]
          rw [fillM_congr h.1.f0 0, fillM_congr h.1.jac 0]
          exact ⟨⟨rfl, h.1.lower, h.1.upper, h.1.ynew, rfl, h.1.k, h.1.yerr⟩, fun _ => ⟨rfl, rfl⟩⟩
        · simp only [if_true]; exact ⟨sc', rfl, hrel⟩
  · simp only [if_true]
    exact ⟨sc', rfl, h⟩

/-! #### one attempt: everything but the scratch is the same -/

section Attempt
variable (r : RState α) (sc' : Scratch α)
  (hsh : ScratchShapeEq r.sc sc') (hf0 : r.sc.f0 = sc'.f0) (hjac : r.sc.jac = sc'.jac)
  (hlu : LUInv s r.sc)

theorem attMatrix_scratch (hjac : r.sc.jac = sc'.jac) :
    attMatrix s p { r with sc := sc' } = attMatrix s p r := by
  unfold attMatrix attAlpha attAlpha0
  simp only [← hjac]

theorem attFactor_scratch (hsh : ScratchShapeEq r.sc sc') (hjac : r.sc.jac = sc'.jac) (hlu : LUInv s r.sc) :
    (attFactor s p r).1 = (attFactor s p { r with sc := sc' }).1 ∧
    shape (attFactor s p r).2.1 = shape (attFactor s p { r with sc := sc' }).2.1 ∧
    shape (attFactor s p r).2.2 = shape (attFactor s p { r with sc := sc' }).2.2 ∧
    (∀ x, s.linSolve (attFactor s p r).1 (attFactor s p r).2.1 (attFactor s p r).2.2 x =
          s.linSolve (attFactor s p { r with sc := sc' }).1 (attFactor s p { r with sc := sc' }).2.1
            (attFactor s p { r with sc := sc' }).2.2 x) := by
  unfold attFactor
  rw [attMatrix_scratch s p r sc' hjac]
  exact factor_congr s _ _ _ _ _ hsh.lower hsh.upper hlu

theorem attStages_scratch (hsh : ScratchShapeEq r.sc sc') (hf0 : r.sc.f0 = sc'.f0)
    (hjac : r.sc.jac = sc'.jac) (hlu : LUInv s r.sc) :
    kshape (attStages s p kc r).1 = kshape (attStages s p kc { r with sc := sc' }).1 ∧
    (∀ j, j < p.stages → (attStages s p kc r).1.getD j #[] =
                         (attStages s p kc { r with sc := sc' }).1.getD j #[]) ∧
    (attStages s p kc r).2.2 = (attStages s p kc { r with sc := sc' }).2.2 := by
  obtain ⟨_, _, _, hsolve⟩ := attFactor_scratch s p r sc' hsh hjac hlu
  unfold attStages
  have := stagesGo_congr s p kc r.Y _ _ _ _ _ _ r.ctl.h hsolve p.stages 0
    (r.sc.k.setIfInBounds 0 r.sc.f0) (sc'.k.setIfInBounds 0 sc'.f0) r.sc.ynew sc'.ynew
    { r.stats with decompositions := r.stats.decompositions + 1 }
    (kshape_set_congr hsh.k 0 (by rw [hf0]))
    (fun j hj => absurd hj (Nat.not_lt_zero j))
    (by
      intro _ _
      rw [getD_setIfInBounds, getD_setIfInBounds, size_eq_of_kshape hsh.k, hf0]
      by_cases hin : 0 < sc'.k.size
      · simp [hin]
      · have hin' : ¬ 0 < r.sc.k.size := by rw [size_eq_of_kshape hsh.k]; exact hin
        simp [hin, Array.getD, hin'])
    (by omega)
  simpa only [Nat.zero_add] using this

theorem attYnew_scratch (hsh : ScratchShapeEq r.sc sc') (hf0 : r.sc.f0 = sc'.f0)
    (hjac : r.sc.jac = sc'.jac) (hlu : LUInv s r.sc) :
    attYnew s p kc { r with sc := sc' } = attYnew s p kc r := by
  obtain ⟨_, hk, _⟩ := attStages_scratch s p kc r sc' hsh hf0 hjac hlu
  unfold attYnew
  apply foldl_ext'
  intro a i hi
  rw [hk i (List.mem_range.1 hi)]

theorem attYerr_scratch (hsh : ScratchShapeEq r.sc sc') (hf0 : r.sc.f0 = sc'.f0)
    (hjac : r.sc.jac = sc'.jac) (hlu : LUInv s r.sc) :
    attYerr s p kc { r with sc := sc' } = attYerr s p kc r := by
  obtain ⟨_, hk, _⟩ := attStages_scratch s p kc r sc' hsh hf0 hjac hlu
  unfold attYerr
  show List.foldl _ (fillM sc'.yerr 0) _ = _
  rw [← fillM_congr hsh.yerr 0]
  apply foldl_ext'
  intro a i hi
  rw [hk i (List.mem_range.1 hi)]

theorem attError_scratch (hsh : ScratchShapeEq r.sc sc') (hf0 : r.sc.f0 = sc'.f0)
    (hjac : r.sc.jac = sc'.jac) (hlu : LUInv s r.sc) :
    attError o cs s p kc atol rtol { r with sc := sc' } = attError o cs s p kc atol rtol r := by
  unfold attError
  rw [attYnew_scratch s p kc r sc' hsh hf0 hjac hlu, attYerr_scratch s p kc r sc' hsh hf0 hjac hlu]

theorem attDecide_scratch (hsh : ScratchShapeEq r.sc sc') (hf0 : r.sc.f0 = sc'.f0)
    (hjac : r.sc.jac = sc'.jac) (hlu : LUInv s r.sc) :
    attDecide o cs s p kc atol rtol hm { r with sc := sc' } = attDecide o cs s p kc atol rtol hm r := by
  unfold attDecide
  rw [attError_scratch o cs s p kc atol rtol r sc' hsh hf0 hjac hlu]

theorem attRecord_scratch (hsh : ScratchShapeEq r.sc sc') (hf0 : r.sc.f0 = sc'.f0)
    (hjac : r.sc.jac = sc'.jac) (hlu : LUInv s r.sc) :
    attRecord o cs s p kc atol rtol hm { r with sc := sc' } = attRecord o cs s p kc atol rtol hm r := by
  unfold attRecord
  rw [attError_scratch o cs s p kc atol rtol r sc' hsh hf0 hjac hlu,
      attDecide_scratch o cs s p kc atol rtol hm r sc' hsh hf0 hjac hlu,
      attMatrix_scratch s p r sc' hjac]
  rfl

end Attempt

theorem rosAttempt_lu (r : RState α) :
    (rosAttempt o cs s p kc atol rtol hm r).sc.lower = (attFactor s p r).2.1 ∧
    (rosAttempt o cs s p kc atol rtol hm r).sc.upper = (attFactor s p r).2.2 := by
  unfold rosAttempt; simp only []
  split
  · exact ⟨rfl, rfl⟩
  · exact ⟨rfl, rfl⟩
  · exact ⟨rfl, rfl⟩
  · split <;> exact ⟨rfl, rfl⟩

theorem rosAttempt_scratch (r : RState α) (sc' : Scratch α)
    (h : ScratchRel true r.sc sc') (hlu : LUInv s r.sc) :
    ∃ sc'', rosAttempt o cs s p kc atol rtol hm { r with sc := sc' } =
        { rosAttempt o cs s p kc atol rtol hm r with sc := sc'' } ∧
      ScratchRel true (rosAttempt o cs s p kc atol rtol hm r).sc sc'' := by
  obtain ⟨hsh, hfj⟩ := h
  obtain ⟨hf0, hjac⟩ := hfj rfl
  obtain ⟨f1, f2, f3, _⟩ := attFactor_scratch s p r sc' hsh hjac hlu
  obtain ⟨k1, _, k3⟩ := attStages_scratch s p kc r sc' hsh hf0 hjac hlu
  have e1 := attDecide_scratch o cs s p kc atol rtol hm r sc' hsh hf0 hjac hlu
  have e2 := attRecord_scratch o cs s p kc atol rtol hm r sc' hsh hf0 hjac hlu
  have e3 := attYnew_scratch s p kc r sc' hsh hf0 hjac hlu
  have e4 := attYerr_scratch s p kc r sc' hsh hf0 hjac hlu
  have e5 : attLastAlpha s p { r with sc := sc' } = attLastAlpha s p r := rfl
  unfold rosAttempt
  simp only [e1, e2, e3, e4, e5, ← k3, ← f1]
  cases hd : (attDecide o cs s p kc atol rtol hm r).1
  · simp only []
    exact ⟨_, rfl, ⟨rfl, f2, f3, rfl, hsh.f0, k1, rfl⟩, fun _ => ⟨hf0, rfl⟩⟩
  · simp only []
    exact ⟨_, rfl, ⟨rfl, f2, f3, rfl, hsh.f0, k1, rfl⟩, fun _ => ⟨hf0, rfl⟩⟩
  · simp only []
    exact ⟨_, rfl, ⟨rfl, f2, f3, rfl, hsh.f0, k1, rfl⟩, fun _ => ⟨hf0, rfl⟩⟩
  · simp only []
    cases hk : s.la.kind.inPlace
    · simp only [Bool.false_eq_true, if_false]
      exact ⟨_, rfl, ⟨rfl, f2, f3, rfl, hsh.f0, k1, rfl⟩, fun _ => ⟨hf0, rfl⟩⟩
    · simp only [if_true]
      exact ⟨_, rfl, ⟨rfl, f2, f3, rfl, hsh.f0, k1, rfl⟩, fun _ => ⟨hf0, rfl⟩⟩

theorem ScratchRel.of_true {a b : Scratch α} (h : ScratchRel true a b) (x : Bool) : ScratchRel x a b :=
  ⟨h.1, fun _ => h.2 rfl⟩

theorem LUInv_prologue (r : RState α) (hlu : LUInv s r.sc) :
    LUInv s (rosPrologue o cs s p kc timeStep r).sc := by
  unfold LUInv
  rw [(rosPrologue_lu o cs s p kc timeStep r).1, (rosPrologue_lu o cs s p kc timeStep r).2]
  exact hlu

theorem LUInv_attempt (r : RState α) (hlu : LUInv s r.sc) :
    LUInv s (rosAttempt o cs s p kc atol rtol hm r).sc := by
  unfold LUInv
  rw [(rosAttempt_lu o cs s p kc atol rtol hm r).1, (rosAttempt_lu o cs s p kc atol rtol hm r).2]
  unfold attFactor
  exact factor_LUOverwritesFor s _ _ _ hlu

/-- **one iteration of the flattened Rosenbrock loop does not depend on the scratch contents** -/
theorem rosStep_scratch (r : RState α) (sc' : Scratch α) (h : ScratchRel r.inStep r.sc sc')
    (hlu : LUInv s r.sc) :
    ∃ sc'', rosStep o cs s p kc atol rtol timeStep hm { r with sc := sc' } =
        { rosStep o cs s p kc atol rtol timeStep hm r with sc := sc'' } ∧
      ScratchRel (rosStep o cs s p kc atol rtol timeStep hm r).inStep
        (rosStep o cs s p kc atol rtol timeStep hm r).sc sc'' ∧
      LUInv s (rosStep o cs s p kc atol rtol timeStep hm r).sc := by
  obtain ⟨sc1, e1, h1⟩ := rosPrologue_scratch o cs s p kc timeStep r sc' h
  have hlu1 := LUInv_prologue o cs s p kc timeStep r hlu
  rw [rosStep_eq, rosStep_eq, e1]
  have hs : ({ rosPrologue o cs s p kc timeStep r with sc := sc1 } : RState α).status =
      (rosPrologue o cs s p kc timeStep r).status := rfl
  rw [hs]
  by_cases hrun : (rosPrologue o cs s p kc timeStep r).status = .running
  · rw [if_pos hrun, if_pos hrun]
    have hin := rosPrologue_running_inStep o cs s p kc timeStep r hrun
    rw [hin] at h1
    obtain ⟨sc2, e2, h2⟩ := rosAttempt_scratch o cs s p kc atol rtol hm _ sc1 h1 hlu1
    exact ⟨sc2, e2, h2.of_true _, LUInv_attempt o cs s p kc atol rtol hm _ hlu1⟩
  · rw [if_neg hrun, if_neg hrun]
    exact ⟨sc1, rfl, h1, hlu1⟩

/-- an in-place solver never touches `lower_matrix_` / `upper_matrix_` -/
theorem rosStep_lu_inplace (hk : s.la.kind.inPlace = true) (r : RState α) :
    (rosStep o cs s p kc atol rtol timeStep hm r).sc.lower = r.sc.lower ∧
    (rosStep o cs s p kc atol rtol timeStep hm r).sc.upper = r.sc.upper := by
  rw [rosStep_eq]
  split
  · rw [(rosAttempt_lu o cs s p kc atol rtol hm _).1, (rosAttempt_lu o cs s p kc atol rtol hm _).2]
    unfold attFactor
    rw [(factor_inplace s hk _ _ _).1]
    exact rosPrologue_lu o cs s p kc timeStep r
  · exact rosPrologue_lu o cs s p kc timeStep r

/-- the loop -/
theorem rosLoop_scratch (fuel : Nat) (r : RState α) (sc' : Scratch α)
    (h : ScratchRel r.inStep r.sc sc') (hlu : LUInv s r.sc) :
    ∃ sc'', rosLoop o cs s p kc atol rtol timeStep hm fuel { r with sc := sc' } =
        { rosLoop o cs s p kc atol rtol timeStep hm fuel r with sc := sc'' } ∧
      ScratchRel (rosLoop o cs s p kc atol rtol timeStep hm fuel r).inStep
        (rosLoop o cs s p kc atol rtol timeStep hm fuel r).sc sc'' ∧
      LUInv s (rosLoop o cs s p kc atol rtol timeStep hm fuel r).sc := by
  have hs : ({ r with sc := sc' } : RState α).status = r.status := rfl
  induction fuel generalizing r sc' with
  | zero =>
    rw [rosLoop_zero, rosLoop_zero, hs]
    by_cases hr : r.status = .running
    · rw [if_pos hr, if_pos hr]; exact ⟨sc', rfl, h, hlu⟩
    · rw [if_neg hr, if_neg hr]; exact ⟨sc', rfl, h, hlu⟩
  | succ n ih =>
    rw [rosLoop_succ, rosLoop_succ, hs]
    by_cases hr : r.status = .running
    · rw [if_pos hr, if_pos hr]
      obtain ⟨sc1, e1, h1, hlu1⟩ := rosStep_scratch o cs s p kc atol rtol timeStep hm r sc' h hlu
      rw [e1]
      exact ih _ sc1 h1 hlu1 rfl
    · rw [if_neg hr, if_neg hr]; exact ⟨sc', rfl, h, hlu⟩

/-- `rosSolve`: same inputs, shape-equal scratch ⇒ same result, and the returned scratch is again
    shape-equal (and fit for the solver) -/
theorem rosSolve_scratch (Y : Mat α) (sc sc' : Scratch α) (fuel : Nat)
    (h : ScratchShapeEq sc sc') (hlu : LUInv s sc) :
    (rosSolve o cs s p kc atol rtol timeStep Y sc' fuel).status =
      (rosSolve o cs s p kc atol rtol timeStep Y sc fuel).status ∧
    (rosSolve o cs s p kc atol rtol timeStep Y sc' fuel).finalTime =
      (rosSolve o cs s p kc atol rtol timeStep Y sc fuel).finalTime ∧
    (rosSolve o cs s p kc atol rtol timeStep Y sc' fuel).stats =
      (rosSolve o cs s p kc atol rtol timeStep Y sc fuel).stats ∧
    (rosSolve o cs s p kc atol rtol timeStep Y sc' fuel).Y =
      (rosSolve o cs s p kc atol rtol timeStep Y sc fuel).Y ∧
    (rosSolve o cs s p kc atol rtol timeStep Y sc' fuel).trace =
      (rosSolve o cs s p kc atol rtol timeStep Y sc fuel).trace ∧
    ScratchShapeEq (rosSolve o cs s p kc atol rtol timeStep Y sc fuel).sc
      (rosSolve o cs s p kc atol rtol timeStep Y sc' fuel).sc ∧
    LUInv s (rosSolve o cs s p kc atol rtol timeStep Y sc fuel).sc := by
  rw [rosSolve_eq, rosSolve_eq]
  have hinit : rosInit (initialH o cs p timeStep) Y sc' =
      { rosInit (initialH o cs p timeStep) Y sc with sc := sc' } := rfl
  obtain ⟨sc2, e, hrel, hlu2⟩ := rosLoop_scratch o cs s p kc atol rtol timeStep (hmaxEff o p timeStep) fuel
    (rosInit (initialH o cs p timeStep) Y sc) sc' ⟨h, fun hc => by cases hc⟩ hlu
  rw [hinit, e]
  exact ⟨rfl, rfl, rfl, rfl, rfl, hrel.1, hlu2⟩

end Ros

/-! ### two states that differ only in their scratch -/

section Ext
variable {α : Type}

theorem RState.eq_with_sc {r r' : RState α} (hY : r'.Y = r.Y) (hctl : r'.ctl = r.ctl)
    (hstats : r'.stats = r.stats) (hstatus : r'.status = r.status) (hin : r'.inStep = r.inStep)
    (hla : r'.lastAlpha = r.lastAlpha) (htr : r'.trace = r.trace) : r' = { r with sc := r'.sc } := by
  cases r; cases r'; simp_all

theorem BEState.eq_with_sc {r r' : BEState α} (h1 : r'.Yn1 = r.Yn1) (h2 : r'.Yn = r.Yn) (h3 : r'.t = r.t)
    (h4 : r'.h = r.h) (h5 : r'.nSucc = r.nSucc) (h6 : r'.nFail = r.nFail)
    (h7 : r'.iterations = r.iterations) (h8 : r'.stats = r.stats) (h9 : r'.status = r.status)
    (h10 : r'.done = r.done) (h11 : r'.trace = r.trace) : r' = { r with sc := r'.sc } := by
  cases r; cases r'; simp_all

theorem LUInv_inplace [OfNat α 0] [OfNat α 1] [Add α] [Sub α] [Mul α] [Div α]
    (s : SolverCfg α) (hk : s.la.kind.inPlace = true) (sc : Scratch α) : LUInv s sc := by
  intro h; rw [hk] at h; cases h

end Ext

/-! ### backward Euler -/

section BE
variable {α : Type} [OfNat α 0] [OfNat α 1] [OfNat α 2] [Add α] [Sub α] [Mul α] [Div α]
variable (o : Ops α) (s : SolverCfg α) (p : BEParams α) (kc : Mat α) (atol : Array α) (rtol : α)
    (timeStep : α)

theorem beHead_scratch (r : BEState α) (sc' : Scratch α) :
    beHead o timeStep { r with sc := sc' } = { beHead o timeStep r with sc := sc' } ∧
    (beHead o timeStep r).sc = r.sc := by
  unfold beHead
  simp only []
  split
  · split <;> exact ⟨rfl, rfl⟩
  · exact ⟨rfl, rfl⟩

theorem beReject_scratch (r : BEState α) (sc' : Scratch α) :
    beReject o p timeStep { r with sc := sc' } = { beReject o p timeStep r with sc := sc' } ∧
    (beReject o p timeStep r).sc = r.sc := by
  unfold beReject
  simp only []
  split <;> exact ⟨rfl, rfl⟩

theorem beAccept_scratch (r : BEState α) (sc' : Scratch α) :
    beAccept o timeStep { r with sc := sc' } = { beAccept o timeStep r with sc := sc' } ∧
    (beAccept o timeStep r).sc = r.sc := ⟨rfl, rfl⟩

section Newton
variable (r : BEState α) (sc' : Scratch α)

theorem beForcing_scratch (hsh : ScratchShapeEq r.sc sc') :
    beForcing s kc { r with sc := sc' } = beForcing s kc r := by
  unfold beForcing
  show s.forcing kc r.Yn1 (fillM sc'.f0 0) = _
  rw [← fillM_congr hsh.f0 0]

theorem beMatrix_scratch (hsh : ScratchShapeEq r.sc sc') :
    beMatrix s kc { r with sc := sc' } = beMatrix s kc r := by
  unfold beMatrix
  show addDiag s.diag (s.jacobian kc r.Yn1 (fillM sc'.jac 0)) (1 / r.h) = _
  rw [← fillM_congr hsh.jac 0]

theorem beFactor_scratch (hsh : ScratchShapeEq r.sc sc') (hlu : LUInv s r.sc) :
    (beFactor s kc r).1 = (beFactor s kc { r with sc := sc' }).1 ∧
    shape (beFactor s kc r).2.1 = shape (beFactor s kc { r with sc := sc' }).2.1 ∧
    shape (beFactor s kc r).2.2 = shape (beFactor s kc { r with sc := sc' }).2.2 ∧
    (∀ x, s.linSolve (beFactor s kc r).1 (beFactor s kc r).2.1 (beFactor s kc r).2.2 x =
          s.linSolve (beFactor s kc { r with sc := sc' }).1 (beFactor s kc { r with sc := sc' }).2.1
            (beFactor s kc { r with sc := sc' }).2.2 x) := by
  unfold beFactor
  rw [beMatrix_scratch s kc r sc' hsh]
  exact factor_congr s _ _ _ _ _ hsh.lower hsh.upper hlu

theorem beResidual_scratch (hsh : ScratchShapeEq r.sc sc') (hlu : LUInv s r.sc) :
    beResidual s kc { r with sc := sc' } = beResidual s kc r := by
  obtain ⟨_, _, _, hsolve⟩ := beFactor_scratch s kc r sc' hsh hlu
  unfold beResidual
  rw [← hsolve, beForcing_scratch s kc r sc' hsh]

theorem beNewY_scratch (hsh : ScratchShapeEq r.sc sc') (hlu : LUInv s r.sc) :
    beNewY o s kc { r with sc := sc' } = beNewY o s kc r := by
  unfold beNewY
  rw [beResidual_scratch s kc r sc' hsh hlu]

theorem beConv_scratch (hsh : ScratchShapeEq r.sc sc') (hlu : LUInv s r.sc) :
    beConv o s p kc atol rtol { r with sc := sc' } = beConv o s p kc atol rtol r := by
  unfold beConv
  rw [beResidual_scratch s kc r sc' hsh hlu, beNewY_scratch o s kc r sc' hsh hlu]

theorem beNewton_scratch (hsh : ScratchShapeEq r.sc sc') (hlu : LUInv s r.sc) :
    ∃ sc'', beNewton o s kc { r with sc := sc' } = { beNewton o s kc r with sc := sc'' } ∧
      ScratchShapeEq (beNewton o s kc r).sc sc'' ∧ LUInv s (beNewton o s kc r).sc := by
  obtain ⟨f1, f2, f3, _⟩ := beFactor_scratch s kc r sc' hsh hlu
  have e1 := beResidual_scratch s kc r sc' hsh hlu
  have e2 := beNewY_scratch o s kc r sc' hsh hlu
  have e3 := beMatrix_scratch s kc r sc' hsh
  unfold beNewton
  simp only [e1, e2, e3, ← f1]
  refine ⟨_, rfl, ⟨rfl, f2, f3, hsh.ynew, rfl, hsh.k, hsh.yerr⟩, ?_⟩
  intro hk
  exact factor_LUOverwritesFor s _ _ _ hlu hk

end Newton

/-- **one iteration of the backward-Euler loop does not depend on the scratch contents** -/
theorem beStep_scratch (r : BEState α) (sc' : Scratch α) (h : ScratchShapeEq r.sc sc')
    (hlu : LUInv s r.sc) :
    ∃ sc'', beStep o s p kc atol rtol timeStep { r with sc := sc' } =
        { beStep o s p kc atol rtol timeStep r with sc := sc'' } ∧
      ScratchShapeEq (beStep o s p kc atol rtol timeStep r).sc sc'' ∧
      LUInv s (beStep o s p kc atol rtol timeStep r).sc := by
  obtain ⟨hh1, hh2⟩ := beHead_scratch o timeStep r sc'
  have hsh1 : ScratchShapeEq (beHead o timeStep r).sc sc' := by rw [hh2]; exact h
  have hlu1 : LUInv s (beHead o timeStep r).sc := by rw [hh2]; exact hlu
  obtain ⟨sc2, e2, hsh2, hlu2⟩ := beNewton_scratch o s kc (beHead o timeStep r) sc' hsh1 hlu1
  have ec := beConv_scratch o s p kc atol rtol (beHead o timeStep r) sc' hsh1 hlu1
  rw [beStep_eq, beStep_eq, hh1]
  simp only []
  have hd : ({ beHead o timeStep r with sc := sc' } : BEState α).done = (beHead o timeStep r).done := rfl
  have hi : ({ beHead o timeStep r with sc := sc' } : BEState α).iterations =
      (beHead o timeStep r).iterations := rfl
  rw [hd, hi, ec, e2]
  by_cases h1 : (beHead o timeStep r).done = true
  · rw [if_pos h1, if_pos h1]; exact ⟨sc', rfl, hsh1, hlu1⟩
  · rw [if_neg h1, if_neg h1]
    split
    · exact ⟨sc2, rfl, hsh2, hlu2⟩
    · split
      · obtain ⟨g1, g2⟩ := beReject_scratch o p timeStep (beNewton o s kc (beHead o timeStep r)) sc2
        rw [g1, g2]; exact ⟨sc2, rfl, hsh2, hlu2⟩
      · obtain ⟨g1, g2⟩ := beAccept_scratch o timeStep (beNewton o s kc (beHead o timeStep r)) sc2
        rw [g1, g2]; exact ⟨sc2, rfl, hsh2, hlu2⟩

theorem beLoop_scratch (fuel : Nat) (r : BEState α) (sc' : Scratch α) (h : ScratchShapeEq r.sc sc')
    (hlu : LUInv s r.sc) :
    ∃ sc'', beLoop o s p kc atol rtol timeStep fuel { r with sc := sc' } =
        { beLoop o s p kc atol rtol timeStep fuel r with sc := sc'' } ∧
      ScratchShapeEq (beLoop o s p kc atol rtol timeStep fuel r).sc sc'' ∧
      LUInv s (beLoop o s p kc atol rtol timeStep fuel r).sc := by
  have hd : ({ r with sc := sc' } : BEState α).done = r.done := rfl
  induction fuel generalizing r sc' with
  | zero =>
    unfold beLoop
    rw [hd]
    by_cases h1 : r.done = true
    · rw [if_pos h1, if_pos h1]; exact ⟨sc', rfl, h, hlu⟩
    · rw [if_neg h1, if_neg h1]; exact ⟨sc', rfl, h, hlu⟩
  | succ n ih =>
    unfold beLoop
    rw [hd]
    by_cases h1 : r.done = true
    · rw [if_pos h1, if_pos h1]; exact ⟨sc', rfl, h, hlu⟩
    · rw [if_neg h1, if_neg h1]
      obtain ⟨sc1, e1, hs1, hl1⟩ := beStep_scratch o s p kc atol rtol timeStep r sc' h hlu
      rw [e1]
      exact ih _ sc1 hs1 hl1 rfl

theorem beSolve_scratch (Y : Mat α) (sc sc' : Scratch α) (fuel : Nat)
    (h : ScratchShapeEq sc sc') (hlu : LUInv s sc) :
    (beSolve o s p kc atol rtol timeStep Y sc' fuel).status =
      (beSolve o s p kc atol rtol timeStep Y sc fuel).status ∧
    (beSolve o s p kc atol rtol timeStep Y sc' fuel).finalTime =
      (beSolve o s p kc atol rtol timeStep Y sc fuel).finalTime ∧
    (beSolve o s p kc atol rtol timeStep Y sc' fuel).stats =
      (beSolve o s p kc atol rtol timeStep Y sc fuel).stats ∧
    (beSolve o s p kc atol rtol timeStep Y sc' fuel).Y =
      (beSolve o s p kc atol rtol timeStep Y sc fuel).Y ∧
    (beSolve o s p kc atol rtol timeStep Y sc' fuel).trace =
      (beSolve o s p kc atol rtol timeStep Y sc fuel).trace ∧
    ScratchShapeEq (beSolve o s p kc atol rtol timeStep Y sc fuel).sc
      (beSolve o s p kc atol rtol timeStep Y sc' fuel).sc ∧
    LUInv s (beSolve o s p kc atol rtol timeStep Y sc fuel).sc := by
  unfold beSolve
  simp only []
  obtain ⟨sc2, e, hrel, hlu2⟩ := beLoop_scratch o s p kc atol rtol timeStep fuel
    { Yn1 := Y, Yn := Y, t := 0,
      h := if o.eq p.hstart 0 = true then timeStep else cmin o p.hstart timeStep,
      nSucc := 0, nFail := 0, iterations := 0, stats := {}, status := .notYetCalled, done := false,
      sc := sc, trace := [] } sc' h hlu
  simp only [] at e
  rw [e]
  refine ⟨rfl, rfl, rfl, rfl, rfl, ?_, hlu2⟩
  simp only []
  exact ⟨hrel.jac, hrel.lower, hrel.upper, rfl, hrel.f0, hrel.k, hrel.yerr⟩

end BE

/-! ### fresh scratch, histories -/

section History
variable {α : Type} [OfNat α 0] [OfNat α 1] [Add α] [Sub α] [Mul α] [Div α]

/-- a fresh, zero-filled scratch with the shape of `sc` (what `GetState` allocates) -/
def zeroScratch (sc : Scratch α) : Scratch α :=
  { jac := fillM sc.jac 0, lower := fillM sc.lower 0, upper := fillM sc.upper 0, ynew := fillM sc.ynew 0,
    f0 := fillM sc.f0 0, k := sc.k.map (fillM · 0), yerr := fillM sc.yerr 0 }

theorem zeroScratch_shape (sc : Scratch α) : ScratchShapeEq sc (zeroScratch sc) := by
  refine ⟨(shape_fillM _ _).symm, (shape_fillM _ _).symm, (shape_fillM _ _).symm, (shape_fillM _ _).symm,
    (shape_fillM _ _).symm, ?_, (shape_fillM _ _).symm⟩
  simp only [zeroScratch, kshape, Array.map_map]
  apply Array.map_congr_left
  intro m _
  exact (shape_fillM m 0).symm

/-- being fit for the solver depends only on the shape -/
theorem LUInv_congr (s : SolverCfg α) {a b : Scratch α} (h : ScratchShapeEq a b) (hlu : LUInv s a) :
    LUInv s b := by
  intro hk c
  rw [← size_getD_congr h.lower c, ← size_getD_congr h.upper c]
  exact hlu hk c

/-- the inputs of one `Solve` call on a State (everything the user may have set in between) -/
structure SolveIn (α : Type) where
  p : RosParams α
  kc : Mat α
  atol : Array α
  rtol : α
  timeStep : α
  Y : Mat α
  fuel : Nat

/-- what the user sees of a result (everything but the scratch) -/
def SolveResult.core (r : SolveResult α) : Status × α × Stats × Mat α × List (Attempt α) :=
  (r.status, r.finalTime, r.stats, r.Y, r.trace)

variable (o : Ops α) (cs : Consts α) (s : SolverCfg α)

/-- a sequence of Rosenbrock solves on ONE State: the scratch left by each solve feeds the next.
    Returns, per solve, the scratch it started from and its result. -/
def rosHistory : Scratch α → List (SolveIn α) → List (Scratch α × SolveResult α)
  | _, [] => []
  | sc, i :: is =>
    let r := rosSolve o cs s i.p i.kc i.atol i.rtol i.timeStep i.Y sc i.fuel
    (sc, r) :: rosHistory r.sc is

theorem rosHistory_fresh (sc0 : Scratch α) (hlu : LUInv s sc0) (ins : List (SolveIn α)) :
    ∀ e ∈ (rosHistory o cs s sc0 ins).zip ins,
      ScratchShapeEq e.1.1 (zeroScratch e.1.1) ∧
      e.1.2.core =
        (rosSolve o cs s e.2.p e.2.kc e.2.atol e.2.rtol e.2.timeStep e.2.Y (zeroScratch e.1.1) e.2.fuel).core := by
  induction ins generalizing sc0 with
  | nil => intro e he; simp [rosHistory] at he
  | cons i is ih =>
    intro e he
    simp only [rosHistory, List.zip_cons_cons, List.mem_cons] at he
    obtain ⟨h1, h2, h3, h4, h5, _, hlu'⟩ :=
      rosSolve_scratch o cs s i.p i.kc i.atol i.rtol i.timeStep i.Y sc0 (zeroScratch sc0) i.fuel
        (zeroScratch_shape sc0) hlu
    rcases he with rfl | he
    · refine ⟨zeroScratch_shape sc0, ?_⟩
      simp only [SolveResult.core, h1, h2, h3, h4, h5]
    · exact ih _ hlu' e he

end History

section HistoryBE
variable {α : Type} [OfNat α 0] [OfNat α 1] [OfNat α 2] [Add α] [Sub α] [Mul α] [Div α]

structure BESolveIn (α : Type) where
  p : BEParams α
  kc : Mat α
  atol : Array α
  rtol : α
  timeStep : α
  Y : Mat α
  fuel : Nat

variable (o : Ops α) (s : SolverCfg α)

def beHistory : Scratch α → List (BESolveIn α) → List (Scratch α × SolveResult α)
  | _, [] => []
  | sc, i :: is =>
    let r := beSolve o s i.p i.kc i.atol i.rtol i.timeStep i.Y sc i.fuel
    (sc, r) :: beHistory r.sc is

theorem beHistory_fresh (sc0 : Scratch α) (hlu : LUInv s sc0) (ins : List (BESolveIn α)) :
    ∀ e ∈ (beHistory o s sc0 ins).zip ins,
      ScratchShapeEq e.1.1 (zeroScratch e.1.1) ∧
      e.1.2.core =
        (beSolve o s e.2.p e.2.kc e.2.atol e.2.rtol e.2.timeStep e.2.Y (zeroScratch e.1.1) e.2.fuel).core := by
  induction ins generalizing sc0 with
  | nil => intro e he; simp [beHistory] at he
  | cons i is ih =>
    intro e he
    simp only [beHistory, List.zip_cons_cons, List.mem_cons] at he
    obtain ⟨h1, h2, h3, h4, h5, _, hlu'⟩ :=
      beSolve_scratch o s i.p i.kc i.atol i.rtol i.timeStep i.Y sc0 (zeroScratch sc0) i.fuel
        (zeroScratch_shape sc0) hlu
    rcases he with rfl | he
    · refine ⟨zeroScratch_shape sc0, ?_⟩
      simp only [SolveResult.core, h1, h2, h3, h4, h5]
    · exact ih _ hlu' e he

end HistoryBE

end Micm
