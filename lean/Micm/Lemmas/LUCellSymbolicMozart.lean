import Micm.Lemmas.LUCellSymbolic
import Micm.Lemmas.LUCellMozart

/-!
C03, symbolic side for the Mozart variants: `mozartInPlaceSymbolic` and `mozartSymbolic` return
fill-closed patterns (`IPSetup` / `MozSetup`) whenever the input pattern has a full diagonal.
-/
namespace Micm
open SparseLU (Closed)

/-! ### a fold whose step `k` adds a block of new elements -/

/-- abstract state `σ` with a membership predicate; step `k` adds exactly the elements `new k`,
    all inside `blk k`, and its behaviour only depends on the part of the state outside all
    blocks -/
theorem foldl_block_aux {σ ι β : Type} (mem : σ → ι → Prop) (all : List β) (blk new : β → ι → Prop)
    (step : σ → β → σ) (S0 : σ) (hnew : ∀ k x, new k x → blk k x)
    (hstep : ∀ S k, k ∈ all → (∀ x, (∀ k', k' ∈ all → ¬ blk k' x) → (mem S x ↔ mem S0 x)) →
      ∀ x, mem (step S k) x ↔ mem S x ∨ new k x)
    (l : List β) (hl : ∀ k, k ∈ l → k ∈ all) (S : σ)
    (hS : ∀ x, (∀ k', k' ∈ all → ¬ blk k' x) → (mem S x ↔ mem S0 x)) (x : ι) :
    mem (l.foldl step S) x ↔ mem S x ∨ ∃ k, k ∈ l ∧ new k x := by
  induction l generalizing S with
  | nil => simp
  | cons k l ih =>
    have hk := hl k List.mem_cons_self
    have hs := hstep S k hk hS
    simp only [List.foldl_cons]
    rw [ih (fun k' h => hl k' (List.mem_cons_of_mem _ h)) (step S k)
      (by
        intro y hy
        rw [hs y]
        constructor
        · rintro (h | h)
          · exact (hS y hy).mp h
          · exact absurd (hnew k y h) (hy k hk)
        · intro h; exact Or.inl ((hS y hy).mpr h)), hs x]
    constructor
    · rintro ((h | h) | ⟨k', h1, h2⟩)
      · exact Or.inl h
      · exact Or.inr ⟨k, List.mem_cons_self, h⟩
      · exact Or.inr ⟨k', List.mem_cons_of_mem _ h1, h2⟩
    · rintro (h | ⟨k', h1, h2⟩)
      · exact Or.inl (Or.inl h)
      · rcases List.mem_cons.mp h1 with h | h
        · subst h; exact Or.inl (Or.inr h2)
        · exact Or.inr ⟨k', h, h2⟩

theorem foldl_block {σ ι β : Type} (mem : σ → ι → Prop) (ks : List β) (blk new : β → ι → Prop)
    (step : σ → β → σ) (S0 : σ) (hnew : ∀ k x, new k x → blk k x)
    (hstep : ∀ S k, k ∈ ks → (∀ x, (∀ k', k' ∈ ks → ¬ blk k' x) → (mem S x ↔ mem S0 x)) →
      ∀ x, mem (step S k) x ↔ mem S x ∨ new k x) (x : ι) :
    mem (ks.foldl step S0) x ↔ mem S0 x ∨ ∃ k, k ∈ ks ∧ new k x :=
  foldl_block_aux mem ks blk new step S0 hnew hstep ks (fun _ h => h) S0 (fun _ _ => Iff.rfl) x

/-- a fold of conditional insertions of `pos j`, condition `cond j` read on the current set -/
theorem foldl_insert_if (ks : List Nat) (pos : Nat → Pair) (cond : List Pair → Nat → Bool)
    (S0 : List Pair)
    (hcond : ∀ S k, k ∈ ks → (∀ x, (∀ k', k' ∈ ks → x ≠ pos k') → (x ∈ S ↔ x ∈ S0)) →
      cond S k = cond S0 k) (x : Pair) :
    x ∈ ks.foldl (fun S k => if cond S k then setInsert (pos k) S else S) S0 ↔
      x ∈ S0 ∨ ∃ k, k ∈ ks ∧ cond S0 k = true ∧ x = pos k :=
  foldl_cond_insert ks pos cond S0 hcond x

/-! ### `mozartInPlaceSymbolic` -/

def mipInit (n : Nat) (az : Nat → Nat → Bool) : List Pair :=
  (List.range n).foldl (fun S i =>
    (List.range n).foldl (fun S j => if !az i j then setInsert (i, j) S else S) S) []

def mipInner (n i k : Nat) (S : List Pair) : List Pair :=
  (rangeFrom (i + 1) n).foldl (fun S j => if setMem (j, i) S then setInsert (j, k) S else S) S

def mipStage (n : Nat) (S : List Pair) (i : Nat) : List Pair :=
  (rangeFrom (i + 1) n).foldl (fun S k => if setMem (i, k) S then mipInner n i k S else S) S

theorem mozartInPlaceSymbolic_eq (n : Nat) (az : Nat → Nat → Bool) :
    mozartInPlaceSymbolic n az = (List.range n).foldl (mipStage n) (mipInit n az) := rfl

theorem mem_mipInit (n : Nat) (az : Nat → Nat → Bool) (r c : Nat) :
    (r, c) ∈ mipInit n az ↔ r < n ∧ c < n ∧ az r c = false := by
  unfold mipInit
  rw [foldl_block (fun (S : List Pair) x => x ∈ S) (List.range n)
    (fun i x => ∃ j, j < n ∧ az i j = false ∧ x = (i, j))
    (fun i x => ∃ j, j < n ∧ az i j = false ∧ x = (i, j)) _ [] (fun _ _ h => h)]
  · constructor
    · rintro (h | ⟨i, hi, j, hj, hz, hx⟩)
      · cases h
      · simp only [Prod.mk.injEq] at hx
        obtain ⟨rfl, rfl⟩ := hx
        exact ⟨List.mem_range.mp hi, hj, hz⟩
    · rintro ⟨hr, hc, hz⟩
      exact Or.inr ⟨r, List.mem_range.mpr hr, c, hc, hz, rfl⟩
  · intro S i _ _ x
    rw [foldl_insert_if (List.range n) (fun j => (i, j)) (fun _ j => !az i j) S (fun _ _ _ _ => rfl)]
    constructor
    · rintro (h | ⟨j, hj, hc, hx⟩)
      · exact Or.inl h
      · exact Or.inr ⟨j, List.mem_range.mp hj, by simpa using hc, hx⟩
    · rintro (h | ⟨j, hj, hc, hx⟩)
      · exact Or.inl h
      · exact Or.inr ⟨j, List.mem_range.mpr hj, by simpa using hc, hx⟩

theorem mem_mipInner (n i k : Nat) (hik : i ≠ k) (S : List Pair) (x : Pair) :
    x ∈ mipInner n i k S ↔ x ∈ S ∨ ∃ j, i < j ∧ j < n ∧ (j, i) ∈ S ∧ x = (j, k) := by
  unfold mipInner
  rw [foldl_insert_if (rangeFrom (i + 1) n) (fun j => (j, k)) (fun S j => setMem (j, i) S) S]
  · constructor
    · rintro (h | ⟨j, hj, hc, hx⟩)
      · exact Or.inl h
      · rw [sym_mem_rangeFrom] at hj
        exact Or.inr ⟨j, by omega, hj.2, (setMem_iff _ _).mp hc, hx⟩
    · rintro (h | ⟨j, h1, h2, hc, hx⟩)
      · exact Or.inl h
      · exact Or.inr ⟨j, (sym_mem_rangeFrom _ _ _).mpr ⟨by omega, h2⟩, (setMem_iff _ _).mpr hc, hx⟩
  · intro S' j _ hS
    apply setMem_congr
    apply hS
    intro j' _ heq
    simp only [Prod.mk.injEq] at heq
    omega

theorem mem_mipStage (n : Nat) (S : List Pair) (i : Nat) (x : Pair) :
    x ∈ mipStage n S i ↔ x ∈ S ∨ ∃ j k, i < j ∧ j < n ∧ i < k ∧ k < n ∧
      (j, i) ∈ S ∧ (i, k) ∈ S ∧ x = (j, k) := by
  unfold mipStage
  rw [foldl_block (fun (S : List Pair) x => x ∈ S) (rangeFrom (i + 1) n)
    (fun k x => x.2 = k ∧ i < x.1)
    (fun k x => (i, k) ∈ S ∧ ∃ j, i < j ∧ j < n ∧ (j, i) ∈ S ∧ x = (j, k)) _ S]
  · constructor
    · rintro (h | ⟨k, hk, h1, j, h2, h3, h4, h5⟩)
      · exact Or.inl h
      · rw [sym_mem_rangeFrom] at hk
        exact Or.inr ⟨j, k, h2, h3, by omega, hk.2, h4, h1, h5⟩
    · rintro (h | ⟨j, k, h1, h2, h3, h4, h5, h6, h7⟩)
      · exact Or.inl h
      · exact Or.inr ⟨k, (sym_mem_rangeFrom _ _ _).mpr ⟨by omega, h4⟩, h6, j, h1, h2, h5, h7⟩
  · rintro k x ⟨_, j, h1, _, _, rfl⟩
    exact ⟨rfl, h1⟩
  · intro S' k hk hS x
    rw [sym_mem_rangeFrom] at hk
    have e1 : setMem (i, k) S' = setMem (i, k) S := by
      apply setMem_congr
      apply hS
      rintro k' _ ⟨_, h2⟩
      simp at h2
    have e2 : ∀ j, (j, i) ∈ S' ↔ (j, i) ∈ S := by
      intro j
      apply hS
      rintro k' hk' ⟨h1, _⟩
      rw [sym_mem_rangeFrom] at hk'
      simp only at h1
      omega
    cases hm : setMem (i, k) S
    · simp only [e1, hm, Bool.false_eq_true, if_false]
      have : ¬ (i, k) ∈ S := by rw [← setMem_iff]; simp [hm]
      simp [this]
    · simp only [e1, hm, if_true]
      have : (i, k) ∈ S := (setMem_iff _ _).mp hm
      rw [mem_mipInner n i k (by omega)]
      simp only [this, true_and, e2]

/-- facts about the set after `m` stages: in range, contains the input pattern, closed under
    fill for pivots `< m` -/
theorem mipStages_props (n : Nat) (az : Nat → Nat → Bool) (m : Nat) :
    (∀ r c, (r, c) ∈ (List.range m).foldl (mipStage n) (mipInit n az) → r < n ∧ c < n) ∧
    (∀ r c, r < n → c < n → az r c = false →
      (r, c) ∈ (List.range m).foldl (mipStage n) (mipInit n az)) ∧
    (∀ j r c, j < m → j < r → j < c →
      (r, j) ∈ (List.range m).foldl (mipStage n) (mipInit n az) →
      (j, c) ∈ (List.range m).foldl (mipStage n) (mipInit n az) →
      (r, c) ∈ (List.range m).foldl (mipStage n) (mipInit n az)) := by
  induction m with
  | zero =>
    refine ⟨?_, ?_, by intro j r c h; omega⟩
    · intro r c h
      have := (mem_mipInit n az r c).mp h
      exact ⟨this.1, this.2.1⟩
    · intro r c hr hc hz
      exact (mem_mipInit n az r c).mpr ⟨hr, hc, hz⟩
  | succ m ih =>
    obtain ⟨g1, g2, g3⟩ := ih
    rw [List.range_succ, List.foldl_append]
    simp only [List.foldl_cons, List.foldl_nil]
    generalize (List.range m).foldl (mipStage n) (mipInit n az) = T at g1 g2 g3
    have hst := mem_mipStage n T m
    refine ⟨?_, ?_, ?_⟩
    · intro r c h
      rcases (hst (r, c)).mp h with h | ⟨j, k, _, h2, _, h4, _, _, hx⟩
      · exact g1 r c h
      · simp only [Prod.mk.injEq] at hx
        obtain ⟨rfl, rfl⟩ := hx
        exact ⟨h2, h4⟩
    · intro r c hr hc hz
      exact (hst (r, c)).mpr (Or.inl (g2 r c hr hc hz))
    · intro j r c hj hjr hjc h1 h2
      have o1 : (r, j) ∈ T := by
        rcases (hst (r, j)).mp h1 with h | ⟨j', k', _, _, h3, _, _, _, hx⟩
        · exact h
        · simp only [Prod.mk.injEq] at hx
          omega
      have o2 : (j, c) ∈ T := by
        rcases (hst (j, c)).mp h2 with h | ⟨j', k', h3, _, _, _, _, _, hx⟩
        · exact h
        · simp only [Prod.mk.injEq] at hx
          omega
      by_cases hjm : j = m
      · subst hjm
        exact (hst (r, c)).mpr (Or.inr ⟨r, c, hjr, (g1 r j o1).1, hjc, (g1 j c o2).2, o1, o2, rfl⟩)
      · exact (hst (r, c)).mpr (Or.inl (g3 j r c (by omega) hjr hjc o1 o2))

/-- (H1)+(H2) for the in-place pattern computed by `mozartInPlaceSymbolic`, when the input
    pattern has a full diagonal -/
theorem IPSetup_of_mozartSymbolic (n : Nat) (az : Nat → Nat → Bool) (P : Pattern)
    (g : GoodPattern n P) (hdiag : ∀ i, i < n → az i i = false)
    (hP : ∀ r c, r < n → c < n →
      (P.zero? r c = false ↔ (r, c) ∈ mozartInPlaceSymbolic n az)) : IPSetup n P := by
  obtain ⟨_, g2, g3⟩ := mipStages_props n az n
  rw [← mozartInPlaceSymbolic_eq] at g2 g3
  refine ⟨g, ?_, ?_⟩
  · intro i hi
    exact (hP i i hi hi).mpr (g2 i i hi hi (hdiag i hi))
  · intro r c j hr hc hjr hjc h1 h2
    exact (hP r c hr hc).mpr (g3 j r c (by omega) hjr hjc ((hP r j hr (by omega)).mp h1)
      ((hP j c (by omega) hc).mp h2))

theorem mozartInPlaceSymbolic_range (n : Nat) (az : Nat → Nat → Bool) (r c : Nat)
    (h : (r, c) ∈ mozartInPlaceSymbolic n az) : r < n ∧ c < n := by
  rw [mozartInPlaceSymbolic_eq] at h
  exact (mipStages_props n az n).1 r c h

theorem mozartInPlaceSymbolic_support (n : Nat) (az : Nat → Nat → Bool) (r c : Nat)
    (hr : r < n) (hc : c < n) (h : az r c = false) : (r, c) ∈ mozartInPlaceSymbolic n az := by
  rw [mozartInPlaceSymbolic_eq]
  exact (mipStages_props n az n).2.1 r c hr hc h

/-! ### `mozartSymbolic` (separate `L`, `U`) -/

def msInitL (az : Nat → Nat → Bool) (L : List Pair) (i : Nat) : List Pair :=
  (List.range i).foldl (fun L j => if !az i j then setInsert (i, j) L else L) (setInsert (i, i) L)

def msInitU (n : Nat) (az : Nat → Nat → Bool) (U : List Pair) (i : Nat) : List Pair :=
  (rangeFrom i n).foldl (fun U j => if !az i j then setInsert (i, j) U else U) U

def msL1 (n : Nat) (az : Nat → Nat → Bool) (i : Nat) (L : List Pair) : List Pair :=
  (rangeFrom (i + 1) n).foldl (fun L j => if !az j i then setInsert (j, i) L else L) L

def msK (n i : Nat) (LU : List Pair × List Pair) (k : Nat) : List Pair × List Pair :=
  if !setMem (i, k) LU.2 then LU
  else
    let U := (rangeFrom (i + 1) (k + 1)).foldl
      (fun U j => if setMem (j, i) LU.1 then setInsert (j, k) U else U) LU.2
    let L := (rangeFrom (k + 1) n).foldl
      (fun L j => if setMem (j, i) L then setInsert (j, k) L else L) LU.1
    (L, U)

def msStage (n : Nat) (az : Nat → Nat → Bool) (LU : List Pair × List Pair) (i : Nat) :
    List Pair × List Pair :=
  (rangeFrom (i + 1) n).foldl (msK n i) (msL1 n az i LU.1, LU.2)

theorem mozartSymbolic_eq (n : Nat) (az : Nat → Nat → Bool) :
    mozartSymbolic n az = (List.range n).foldl (msStage n az)
      ((List.range n).foldl (msInitL az) [], (List.range n).foldl (msInitU n az) []) := by
  have h := foldl_pair (msInitL az) (msInitU n az) (List.range n) [] []
  unfold mozartSymbolic
  rw [← h]
  rfl

theorem mem_msInitL (n : Nat) (az : Nat → Nat → Bool) (r c : Nat) :
    (r, c) ∈ (List.range n).foldl (msInitL az) [] ↔
      r < n ∧ (c = r ∨ (c < r ∧ az r c = false)) := by
  rw [foldl_block (fun (S : List Pair) x => x ∈ S) (List.range n)
    (fun i x => x.1 = i) (fun i x => x = (i, i) ∨ ∃ j, j < i ∧ az i j = false ∧ x = (i, j)) _ []]
  · constructor
    · rintro (h | ⟨i, hi, h | ⟨j, hj, hz, hx⟩⟩)
      · cases h
      · simp only [Prod.mk.injEq] at h
        obtain ⟨rfl, rfl⟩ := h
        exact ⟨List.mem_range.mp hi, Or.inl rfl⟩
      · simp only [Prod.mk.injEq] at hx
        obtain ⟨rfl, rfl⟩ := hx
        exact ⟨List.mem_range.mp hi, Or.inr ⟨hj, hz⟩⟩
    · rintro ⟨hr, h | ⟨h1, h2⟩⟩
      · subst h; exact Or.inr ⟨c, List.mem_range.mpr hr, Or.inl rfl⟩
      · exact Or.inr ⟨r, List.mem_range.mpr hr, Or.inr ⟨c, h1, h2, rfl⟩⟩
  · rintro i x (h | ⟨j, _, _, h⟩) <;> simp [h]
  · intro S i _ _ x
    unfold msInitL
    rw [foldl_insert_if (List.range i) (fun j => (i, j)) (fun _ j => !az i j) _ (fun _ _ _ _ => rfl),
      sym_mem_setInsert]
    constructor
    · rintro ((h | h) | ⟨j, hj, hc, hx⟩)
      · exact Or.inr (Or.inl h)
      · exact Or.inl h
      · exact Or.inr (Or.inr ⟨j, List.mem_range.mp hj, by simpa using hc, hx⟩)
    · rintro (h | h | ⟨j, hj, hc, hx⟩)
      · exact Or.inl (Or.inr h)
      · exact Or.inl (Or.inl h)
      · exact Or.inr ⟨j, List.mem_range.mpr hj, by simpa using hc, hx⟩

theorem mem_msInitU (n : Nat) (az : Nat → Nat → Bool) (r c : Nat) :
    (r, c) ∈ (List.range n).foldl (msInitU n az) [] ↔
      r < n ∧ r ≤ c ∧ c < n ∧ az r c = false := by
  rw [foldl_block (fun (S : List Pair) x => x ∈ S) (List.range n)
    (fun i x => x.1 = i) (fun i x => ∃ j, i ≤ j ∧ j < n ∧ az i j = false ∧ x = (i, j)) _ []]
  · constructor
    · rintro (h | ⟨i, hi, j, h1, h2, hz, hx⟩)
      · cases h
      · simp only [Prod.mk.injEq] at hx
        obtain ⟨rfl, rfl⟩ := hx
        exact ⟨List.mem_range.mp hi, h1, h2, hz⟩
    · rintro ⟨hr, h1, h2, hz⟩
      exact Or.inr ⟨r, List.mem_range.mpr hr, c, h1, h2, hz, rfl⟩
  · rintro i x ⟨j, _, _, _, h⟩; simp [h]
  · intro S i _ _ x
    unfold msInitU
    rw [foldl_insert_if (rangeFrom i n) (fun j => (i, j)) (fun _ j => !az i j) _ (fun _ _ _ _ => rfl)]
    constructor
    · rintro (h | ⟨j, hj, hc, hx⟩)
      · exact Or.inl h
      · rw [sym_mem_rangeFrom] at hj
        exact Or.inr ⟨j, hj.1, hj.2, by simpa using hc, hx⟩
    · rintro (h | ⟨j, h1, h2, hc, hx⟩)
      · exact Or.inl h
      · exact Or.inr ⟨j, (sym_mem_rangeFrom _ _ _).mpr ⟨h1, h2⟩, by simpa using hc, hx⟩

theorem mem_msL1 (n : Nat) (az : Nat → Nat → Bool) (i : Nat) (L : List Pair) (x : Pair) :
    x ∈ msL1 n az i L ↔ x ∈ L ∨ ∃ j, i < j ∧ j < n ∧ az j i = false ∧ x = (j, i) := by
  unfold msL1
  rw [foldl_insert_if (rangeFrom (i + 1) n) (fun j => (j, i)) (fun _ j => !az j i) _
    (fun _ _ _ _ => rfl)]
  constructor
  · rintro (h | ⟨j, hj, hc, hx⟩)
    · exact Or.inl h
    · rw [sym_mem_rangeFrom] at hj
      exact Or.inr ⟨j, by omega, hj.2, by simpa using hc, hx⟩
  · rintro (h | ⟨j, h1, h2, hc, hx⟩)
    · exact Or.inl h
    · exact Or.inr ⟨j, (sym_mem_rangeFrom _ _ _).mpr ⟨by omega, h2⟩, by simpa using hc, hx⟩

/-- membership in the pair state: `(true, x)` is `x ∈ U`, `(false, x)` is `x ∈ L` -/
def memLU (S : List Pair × List Pair) (x : Bool × Pair) : Prop :=
  if x.1 then x.2 ∈ S.2 else x.2 ∈ S.1

theorem mem_msK (n i k : Nat) (hik : i < k) (L U : List Pair) :
    (∀ x, x ∈ (msK n i (L, U) k).2 ↔
      x ∈ U ∨ ((i, k) ∈ U ∧ ∃ j, i < j ∧ j ≤ k ∧ (j, i) ∈ L ∧ x = (j, k))) ∧
    (∀ x, x ∈ (msK n i (L, U) k).1 ↔
      x ∈ L ∨ ((i, k) ∈ U ∧ ∃ j, k < j ∧ j < n ∧ (j, i) ∈ L ∧ x = (j, k))) := by
  unfold msK
  cases hm : setMem (i, k) U
  · have : ¬ (i, k) ∈ U := by rw [← setMem_iff]; simp [hm]
    simp [this]
  · have hin : (i, k) ∈ U := (setMem_iff _ _).mp hm
    simp only [Bool.not_true, Bool.false_eq_true, if_false, hin, true_and]
    constructor
    · intro x
      rw [foldl_insert_if (rangeFrom (i + 1) (k + 1)) (fun j => (j, k)) (fun _ j => setMem (j, i) L) U
        (fun _ _ _ _ => rfl)]
      constructor
      · rintro (h | ⟨j, hj, hc, hx⟩)
        · exact Or.inl h
        · rw [sym_mem_rangeFrom] at hj
          exact Or.inr ⟨j, by omega, by omega, (setMem_iff _ _).mp hc, hx⟩
      · rintro (h | ⟨j, h1, h2, hc, hx⟩)
        · exact Or.inl h
        · exact Or.inr ⟨j, (sym_mem_rangeFrom _ _ _).mpr ⟨by omega, by omega⟩,
            (setMem_iff _ _).mpr hc, hx⟩
    · intro x
      rw [foldl_insert_if (rangeFrom (k + 1) n) (fun j => (j, k)) (fun S j => setMem (j, i) S) L]
      · constructor
        · rintro (h | ⟨j, hj, hc, hx⟩)
          · exact Or.inl h
          · rw [sym_mem_rangeFrom] at hj
            exact Or.inr ⟨j, by omega, hj.2, (setMem_iff _ _).mp hc, hx⟩
        · rintro (h | ⟨j, h1, h2, hc, hx⟩)
          · exact Or.inl h
          · exact Or.inr ⟨j, (sym_mem_rangeFrom _ _ _).mpr ⟨by omega, h2⟩,
              (setMem_iff _ _).mpr hc, hx⟩
      · intro S' j _ hS
        apply setMem_congr
        apply hS
        intro j' _ heq
        simp only [Prod.mk.injEq] at heq
        omega

theorem mem_msStage (n : Nat) (az : Nat → Nat → Bool) (i : Nat) (L U : List Pair) :
    (∀ x, x ∈ (msStage n az (L, U) i).2 ↔ x ∈ U ∨ ∃ j k, i < j ∧ j ≤ k ∧ k < n ∧
      (j, i) ∈ msL1 n az i L ∧ (i, k) ∈ U ∧ x = (j, k)) ∧
    (∀ x, x ∈ (msStage n az (L, U) i).1 ↔ x ∈ msL1 n az i L ∨ ∃ j k, i < k ∧ k < j ∧ j < n ∧
      (j, i) ∈ msL1 n az i L ∧ (i, k) ∈ U ∧ x = (j, k)) := by
  unfold msStage
  simp only
  generalize msL1 n az i L = L1
  have key := foldl_block (memLU) (rangeFrom (i + 1) n)
    (fun k (x : Bool × Pair) => x.2.2 = k ∧ i < x.2.1)
    (fun k (x : Bool × Pair) => (i, k) ∈ U ∧ ∃ j, i < j ∧ (j, i) ∈ L1 ∧ x.2 = (j, k) ∧
      ((x.1 = true ∧ j ≤ k) ∨ (x.1 = false ∧ k < j ∧ j < n)))
    (msK n i) (L1, U)
    (by
      rintro k ⟨b, x⟩ ⟨_, j, h1, _, h2, _⟩
      simp only at h2
      subst h2
      exact ⟨rfl, h1⟩)
    (by
      intro S k hk hS x
      obtain ⟨L', U'⟩ := S
      rw [sym_mem_rangeFrom] at hk
      have e1 : (i, k) ∈ U' ↔ (i, k) ∈ U := by
        have := hS (true, (i, k)) (by rintro k' _ ⟨_, h2⟩; simp at h2)
        simpa [memLU] using this
      have e2 : ∀ j, (j, i) ∈ L' ↔ (j, i) ∈ L1 := by
        intro j
        have := hS (false, (j, i)) (by
          rintro k' hk' ⟨h1, _⟩
          rw [sym_mem_rangeFrom] at hk'
          simp only at h1
          omega)
        simpa [memLU] using this
      obtain ⟨mU, mL⟩ := mem_msK n i k (by omega) L' U'
      obtain ⟨b, y⟩ := x
      cases b
      · simp only [memLU, Bool.false_eq_true, if_false]
        rw [mL y]
        simp only [e1, e2, false_and, false_or, true_and]
        constructor
        · rintro (h | ⟨h1, j, h2, h3, h4, h5⟩)
          · exact Or.inl h
          · exact Or.inr ⟨h1, j, by omega, h4, h5, h2, h3⟩
        · rintro (h | ⟨h1, j, h2, h3, h4, h5, h6⟩)
          · exact Or.inl h
          · exact Or.inr ⟨h1, j, h5, h6, h3, h4⟩
      · simp only [memLU, if_true]
        rw [mU y]
        simp only [e1, e2, true_and, Bool.true_eq_false, false_and, or_false]
        constructor
        · rintro (h | ⟨h1, j, h2, h3, h4, h5⟩)
          · exact Or.inl h
          · exact Or.inr ⟨h1, j, h2, h4, h5, h3⟩
        · rintro (h | ⟨h1, j, h2, h3, h4, h5⟩)
          · exact Or.inl h
          · exact Or.inr ⟨h1, j, h2, h5, h3, h4⟩)
  constructor
  · intro x
    have := key (true, x)
    simp only [memLU, if_true, true_and, Bool.true_eq_false, false_and, or_false] at this
    rw [this]
    constructor
    · rintro (h | ⟨k, hk, h1, j, h2, h3, h4, h5⟩)
      · exact Or.inl h
      · rw [sym_mem_rangeFrom] at hk
        exact Or.inr ⟨j, k, h2, h5, hk.2, h3, h1, h4⟩
    · rintro (h | ⟨j, k, h1, h2, h3, h4, h5, h6⟩)
      · exact Or.inl h
      · exact Or.inr ⟨k, (sym_mem_rangeFrom _ _ _).mpr ⟨by omega, h3⟩, h5, j, h1, h4, h6, h2⟩
  · intro x
    have := key (false, x)
    simp only [memLU, Bool.false_eq_true, if_false, false_and, false_or, true_and] at this
    rw [this]
    constructor
    · rintro (h | ⟨k, hk, h1, j, h2, h3, h4, h5, h6⟩)
      · exact Or.inl h
      · rw [sym_mem_rangeFrom] at hk
        exact Or.inr ⟨j, k, by omega, h5, h6, h3, h1, h4⟩
    · rintro (h | ⟨j, k, h1, h2, h3, h4, h5, h6⟩)
      · exact Or.inl h
      · exact Or.inr ⟨k, (sym_mem_rangeFrom _ _ _).mpr ⟨by omega, by omega⟩, h5, j, by omega,
          h4, h6, h2, h3⟩

/-- facts about `(L, U)` after `m` stages of `mozartSymbolic` -/
structure MsProps (n : Nat) (az : Nat → Nat → Bool) (m : Nat) (L U : List Pair) : Prop where
  L_shape : ∀ r c, (r, c) ∈ L → c ≤ r ∧ r < n
  U_shape : ∀ r c, (r, c) ∈ U → r ≤ c ∧ c < n
  L_sup : ∀ r c, c < r → r < n → az r c = false → (r, c) ∈ L
  L_diag : ∀ i, i < n → (i, i) ∈ L
  U_sup : ∀ r c, r ≤ c → c < n → az r c = false → (r, c) ∈ U
  fillU : ∀ j i k, j < m → j < i → i ≤ k → (i, j) ∈ L → (j, k) ∈ U → (i, k) ∈ U
  fillL : ∀ j i k, j < m → j < i → i < k → (k, j) ∈ L → (j, i) ∈ U → (k, i) ∈ L

theorem msProps_init (n : Nat) (az : Nat → Nat → Bool) :
    MsProps n az 0 ((List.range n).foldl (msInitL az) []) ((List.range n).foldl (msInitU n az) []) where
  L_shape := by
    intro r c h
    obtain ⟨h1, h2 | h2⟩ := (mem_msInitL n az r c).mp h
    · omega
    · omega
  U_shape := by
    intro r c h
    obtain ⟨_, h2, h3, _⟩ := (mem_msInitU n az r c).mp h
    exact ⟨h2, h3⟩
  L_sup := fun r c h1 h2 h3 => (mem_msInitL n az r c).mpr ⟨h2, Or.inr ⟨h1, h3⟩⟩
  L_diag := fun i hi => (mem_msInitL n az i i).mpr ⟨hi, Or.inl rfl⟩
  U_sup := fun r c h1 h2 h3 => (mem_msInitU n az r c).mpr ⟨by omega, h1, h2, h3⟩
  fillU := by intro j i k h; omega
  fillL := by intro j i k h; omega

theorem msProps_step (n : Nat) (az : Nat → Nat → Bool) (m : Nat) (L U : List Pair)
    (h : MsProps n az m L U) :
    MsProps n az (m + 1) (msStage n az (L, U) m).1 (msStage n az (L, U) m).2 := by
  obtain ⟨mU, mL⟩ := mem_msStage n az m L U
  have hL1 : ∀ x, x ∈ msL1 n az m L ↔ x ∈ L := by
    intro x
    rw [mem_msL1]
    constructor
    · rintro (h1 | ⟨j, h1, h2, h3, rfl⟩)
      · exact h1
      · exact h.L_sup j m h1 h2 h3
    · intro h1; exact Or.inl h1
  simp only [hL1] at mU mL
  generalize (msStage n az (L, U) m).1 = L' at mL
  generalize (msStage n az (L, U) m).2 = U' at mU
  have subL : ∀ x, x ∈ L → x ∈ L' := fun x hx => (mL x).mpr (Or.inl hx)
  have subU : ∀ x, x ∈ U → x ∈ U' := fun x hx => (mU x).mpr (Or.inl hx)
  have oldL : ∀ r j, j ≤ m → (r, j) ∈ L' → (r, j) ∈ L := by
    intro r j hj hm
    rcases (mL _).mp hm with h1 | ⟨j', k', h1, _, _, _, _, hx⟩
    · exact h1
    · simp only [Prod.mk.injEq] at hx; omega
  have oldU : ∀ j c, j ≤ m → (j, c) ∈ U' → (j, c) ∈ U := by
    intro j c hj hm
    rcases (mU _).mp hm with h1 | ⟨j', k', h1, _, _, _, _, hx⟩
    · exact h1
    · simp only [Prod.mk.injEq] at hx; omega
  refine ⟨?_, ?_, ?_, ?_, ?_, ?_, ?_⟩
  · intro r c hm
    rcases (mL _).mp hm with h1 | ⟨j, k, h1, h2, h3, _, _, hx⟩
    · exact h.L_shape r c h1
    · simp only [Prod.mk.injEq] at hx
      obtain ⟨rfl, rfl⟩ := hx
      exact ⟨by omega, h3⟩
  · intro r c hm
    rcases (mU _).mp hm with h1 | ⟨j, k, h1, h2, h3, _, _, hx⟩
    · exact h.U_shape r c h1
    · simp only [Prod.mk.injEq] at hx
      obtain ⟨rfl, rfl⟩ := hx
      exact ⟨h2, h3⟩
  · intro r c h1 h2 h3; exact subL _ (h.L_sup r c h1 h2 h3)
  · intro i hi; exact subL _ (h.L_diag i hi)
  · intro r c h1 h2 h3; exact subU _ (h.U_sup r c h1 h2 h3)
  · intro j i k hj hji hik h1 h2
    have o1 := oldL i j (by omega) h1
    have o2 := oldU j k (by omega) h2
    by_cases hjm : j = m
    · subst hjm
      exact (mU _).mpr (Or.inr ⟨i, k, hji, hik, (h.U_shape j k o2).2, o1, o2, rfl⟩)
    · exact subU _ (h.fillU j i k (by omega) hji hik o1 o2)
  · intro j i k hj hji hik h1 h2
    have o1 := oldL k j (by omega) h1
    have o2 := oldU j i (by omega) h2
    by_cases hjm : j = m
    · subst hjm
      exact (mL _).mpr (Or.inr ⟨k, i, hji, hik, (h.L_shape k j o1).2, o1, o2, rfl⟩)
    · exact subL _ (h.fillL j i k (by omega) hji hik o1 o2)

theorem mozartSymbolic_props (n : Nat) (az : Nat → Nat → Bool) :
    MsProps n az n (mozartSymbolic n az).1 (mozartSymbolic n az).2 := by
  rw [mozartSymbolic_eq]
  suffices ∀ m, MsProps n az m
      ((List.range m).foldl (msStage n az)
        ((List.range n).foldl (msInitL az) [], (List.range n).foldl (msInitU n az) [])).1
      ((List.range m).foldl (msStage n az)
        ((List.range n).foldl (msInitL az) [], (List.range n).foldl (msInitU n az) [])).2 from this n
  intro m
  induction m with
  | zero => exact msProps_init n az
  | succ m ih =>
    rw [List.range_succ, List.foldl_append]
    simp only [List.foldl_cons, List.foldl_nil]
    exact msProps_step n az m _ _ ih

/-- (H1)+(H2) for the patterns computed by `mozartSymbolic` from a pattern with full diagonal -/
theorem MozSetup_of_symbolic (n : Nat) (A Lp Up : Pattern) (gL : GoodPattern n Lp)
    (gU : GoodPattern n Up) (hdiag : ∀ i, i < n → A.zero? i i = false)
    (hL : ∀ r c, r < n → c < n →
      (Lp.zero? r c = false ↔ (r, c) ∈ (mozartSymbolic n (fun r c => A.zero? r c)).1))
    (hU : ∀ r c, r < n → c < n →
      (Up.zero? r c = false ↔ (r, c) ∈ (mozartSymbolic n (fun r c => A.zero? r c)).2)) :
    MozSetup n A Lp Up := by
  have hp := mozartSymbolic_props n (fun r c => A.zero? r c)
  have pL : ∀ r c, r < n → c < n → (pres Lp r c = true ↔
      (r, c) ∈ (mozartSymbolic n (fun r c => A.zero? r c)).1) :=
    fun r c hr hc => (pres_true Lp r c).trans (hL r c hr hc)
  have pU : ∀ r c, r < n → c < n → (pres Up r c = true ↔
      (r, c) ∈ (mozartSymbolic n (fun r c => A.zero? r c)).2) :=
    fun r c hr hc => (pres_true Up r c).trans (hU r c hr hc)
  exact
    { gL := gL, gU := gU
      closed :=
        { diagU := fun i hi => (pU i i hi hi).mpr (hp.U_sup i i (le_refl i) hi (hdiag i hi))
          supU := fun r c hrc hc ha => (pU r c (by omega) hc).mpr
            (hp.U_sup r c hrc hc ((pres_true A r c).mp ha))
          supL := fun r c hcr hr ha => (pL r c hr (by omega)).mpr
            (hp.L_sup r c hcr hr ((pres_true A r c).mp ha))
          fillU := fun i j k hj hik hk h1 h2 => (pU i k (by omega) hk).mpr
            (hp.fillU j i k (by omega) hj hik ((pL i j (by omega) (by omega)).mp h1)
              ((pU j k (by omega) hk).mp h2))
          fillL := fun i j k hj hik hk h1 h2 => (pL k i hk (by omega)).mpr
            (hp.fillL j i k (by omega) hj hik ((pL k j hk (by omega)).mp h1)
              ((pU j i (by omega) (by omega)).mp h2)) }
      diagL := fun i hi => (hL i i hi hi).mpr (hp.L_diag i hi)
      lowL := fun r c hr hc hm => (hp.L_shape r c ((hL r c hr hc).mp hm)).1
      uppU := fun r c hr hc hm => (hp.U_shape r c ((hU r c hr hc).mp hm)).1 }

end Micm
