import Micm.Spec.DenseLU

/-!
C03 core (DESIGN.md Appendix A.5): a pattern-restricted Doolittle stage equals the dense stage
for every fill-closed pattern triple.  Differences from the prototype: the dense stage is
`DenseLU.stage` itself (not a copy), every index is bounded by the block size `n` (a real sparse
pattern has no entries outside the `n × n` block, so `diagU : ∀ i, Up i i` would be unsatisfiable),
and the relation also tracks the unit diagonal of `L`.
-/
open Finset
namespace Micm
namespace SparseLU
open DenseLU (LU stage)
variable {K : Type} [Field K]

/-- sparse stage: only pattern entries are computed, sums skip pairs outside the patterns,
    `A` is read only where its own pattern `Ap` says so (else 0) — as the index streams do. -/
def sstage (A : Nat → Nat → K) (Ap Lp Up : Nat → Nat → Bool) (i : Nat) (s : LU K) : LU K :=
  let av : Nat → Nat → K := fun r c => if Ap r c then A r c else 0
  let U' : Nat → Nat → K := fun r c =>
    if r = i ∧ i ≤ c ∧ Up i c then
      av i c - ∑ j ∈ range i, (if Lp i j ∧ Up j c then s.L i j * s.U j c else 0)
    else s.U r c
  let L' : Nat → Nat → K := fun r c =>
    if c = i ∧ i < r ∧ Lp r i then
      (av r i - ∑ j ∈ range i, (if Lp r j ∧ Up j i then s.L r j * U' j i else 0)) / U' i i
    else if r = i ∧ c = i then 1 else s.L r c
  ⟨L', U'⟩

/-- iterate the sparse stage -/
def slu (A : Nat → Nat → K) (Ap Lp Up : Nat → Nat → Bool) (s0 : LU K) : Nat → LU K
  | 0 => s0
  | i+1 => sstage A Ap Lp Up i (slu A Ap Lp Up s0 i)

/-- what the symbolic factorisation must guarantee: on the `n × n` block the diagonal of `U` is
    present, the patterns contain the support of `A` and are closed under the two fill rules. -/
structure Closed (n : Nat) (Ap Lp Up : Nat → Nat → Bool) : Prop where
  diagU : ∀ i, i < n → Up i i = true
  supU : ∀ r c, r ≤ c → c < n → Ap r c = true → Up r c = true
  supL : ∀ r c, c < r → r < n → Ap r c = true → Lp r c = true
  fillU : ∀ i j k, j < i → i ≤ k → k < n → Lp i j = true → Up j k = true → Up i k = true
  fillL : ∀ i j k, j < i → i < k → k < n → Lp k j = true → Up j i = true → Lp k i = true

/-- relation between the dense state `d` and the sparse state `s` after `i` stages -/
structure Rel (n : Nat) (Lp Up : Nat → Nat → Bool) (i : Nat) (d s : LU K) : Prop where
  U_on  : ∀ r c, r < i → r ≤ c → c < n → Up r c = true → s.U r c = d.U r c
  U_off : ∀ r c, r < i → r ≤ c → c < n → Up r c = false → d.U r c = 0
  L_on  : ∀ r c, c < i → c < r → r < n → Lp r c = true → s.L r c = d.L r c
  L_off : ∀ r c, c < i → c < r → r < n → Lp r c = false → d.L r c = 0
  L_diag : ∀ r, r < i → s.L r r = 1

theorem rel_zero (n : Nat) (Lp Up : Nat → Nat → Bool) (d s : LU K) : Rel n Lp Up 0 d s :=
  ⟨by intros; omega, by intros; omega, by intros; omega, by intros; omega, by intros; omega⟩

theorem sum_restrict (i : Nat) (f g : Nat → K) (p : Nat → Prop) [DecidablePred p]
    (hon : ∀ j, j < i → p j → f j = g j) (hoff : ∀ j, j < i → ¬ p j → g j = 0) :
    ∑ j ∈ range i, (if p j then f j else 0) = ∑ j ∈ range i, g j := by
  apply sum_congr rfl
  intro j hj
  have hj' := mem_range.mp hj
  by_cases h : p j
  · simp [h, hon j hj' h]
  · simp [h, hoff j hj' h]

theorem rel_stage (n : Nat) (A : Nat → Nat → K) (Ap Lp Up : Nat → Nat → Bool)
    (hc : Closed n Ap Lp Up)
    (hA : ∀ r c, Ap r c = false → A r c = 0) (i : Nat) (hin : i < n) (d s : LU K)
    (h : Rel n Lp Up i d s) :
    Rel n Lp Up (i+1) (stage A i d) (sstage A Ap Lp Up i s) := by
  -- the U-row sum: restricted = full
  have sumU : ∀ c, i ≤ c → c < n →
      ∑ j ∈ range i, (if Lp i j ∧ Up j c then s.L i j * s.U j c else 0)
        = ∑ j ∈ range i, d.L i j * d.U j c := by
    intro c hic hcn
    apply sum_restrict
    · intro j hj hp
      rw [h.L_on i j hj hj hin hp.1, h.U_on j c hj (by omega) hcn hp.2]
    · intro j hj hp
      by_cases h1 : Lp i j = true
      · have h2 : Up j c = false := by
          cases hu : Up j c
          · rfl
          · exact absurd ⟨h1, hu⟩ hp
        rw [h.U_off j c hj (by omega) hcn h2]; ring
      · have h1' : Lp i j = false := by simpa using h1
        rw [h.L_off i j hj hj hin h1']; ring
  have avU : ∀ c, (if Ap i c then A i c else 0) = A i c := by
    intro c
    cases ha : Ap i c
    · simp [hA i c ha]
    · simp
  -- new dense U row i
  have dU : ∀ c, i ≤ c → (stage A i d).U i c = A i c - ∑ j ∈ range i, d.L i j * d.U j c := by
    intro c hc'; simp [stage, hc']
  have sU : ∀ c, i ≤ c → c < n → Up i c = true → (sstage A Ap Lp Up i s).U i c
      = A i c - ∑ j ∈ range i, d.L i j * d.U j c := by
    intro c hc' hcn hu
    have e : (sstage A Ap Lp Up i s).U i c = (if Ap i c then A i c else 0)
        - ∑ j ∈ range i, (if Lp i j ∧ Up j c then s.L i j * s.U j c else 0) := by
      simp [sstage, hc', hu]
    rw [e, avU c, sumU c hc' hcn]
  have dU_old : ∀ r c, r ≠ i → (stage A i d).U r c = d.U r c := by
    intro r c hr; simp [stage, hr]
  have sU_old : ∀ r c, r ≠ i → (sstage A Ap Lp Up i s).U r c = s.U r c := by
    intro r c hr; simp [sstage, hr]
  -- dense U row i vanishes off pattern
  have dU_off : ∀ c, i ≤ c → c < n → Up i c = false → (stage A i d).U i c = 0 := by
    intro c hic hcn hu
    rw [dU c hic]
    have hAp : Ap i c = false := by
      cases ha : Ap i c
      · rfl
      · rw [hc.supU i c hic hcn ha] at hu; cases hu
    rw [hA i c hAp]
    have : ∑ j ∈ range i, d.L i j * d.U j c = 0 := by
      apply sum_eq_zero
      intro j hj
      have hj' := mem_range.mp hj
      by_cases h1 : Lp i j = true
      · by_cases h2 : Up j c = true
        · rw [hc.fillU i j c hj' hic hcn h1 h2] at hu; cases hu
        · have h2' : Up j c = false := by simpa using h2
          rw [h.U_off j c hj' (by omega) hcn h2']; ring
      · have h1' : Lp i j = false := by simpa using h1
        rw [h.L_off i j hj' hj' hin h1']; ring
    rw [this]; ring
  -- ---------------- L column i ----------------
  have sumL : ∀ r, i < r → r < n →
      ∑ j ∈ range i, (if Lp r j ∧ Up j i then s.L r j * (sstage A Ap Lp Up i s).U j i else 0)
        = ∑ j ∈ range i, d.L r j * (stage A i d).U j i := by
    intro r hir hrn
    apply sum_restrict
    · intro j hj hp
      rw [sU_old j i (by omega), dU_old j i (by omega),
          h.L_on r j hj (by omega) hrn hp.1, h.U_on j i hj (by omega) hin hp.2]
    · intro j hj hp
      rw [dU_old j i (by omega)]
      by_cases h1 : Lp r j = true
      · have h2 : Up j i = false := by
          cases hu : Up j i
          · rfl
          · exact absurd ⟨h1, hu⟩ hp
        rw [h.U_off j i hj (by omega) hin h2]; ring
      · have h1' : Lp r j = false := by simpa using h1
        rw [h.L_off r j hj (by omega) hrn h1']; ring
  have avL : ∀ r, (if Ap r i then A r i else 0) = A r i := by
    intro r
    cases ha : Ap r i
    · simp [hA r i ha]
    · simp
  have piv : (sstage A Ap Lp Up i s).U i i = (stage A i d).U i i := by
    rw [sU i (le_refl i) hin (hc.diagU i hin), dU i (le_refl i)]
  have dL : ∀ r, i < r → (stage A i d).L r i
      = (A r i - ∑ j ∈ range i, d.L r j * (stage A i d).U j i) / (stage A i d).U i i := by
    intro r hr; simp [stage, hr]
  have sL : ∀ r, i < r → r < n → Lp r i = true → (sstage A Ap Lp Up i s).L r i
      = (A r i - ∑ j ∈ range i, d.L r j * (stage A i d).U j i) / (stage A i d).U i i := by
    intro r hr hrn hl
    have e : (sstage A Ap Lp Up i s).L r i = ((if Ap r i then A r i else 0)
        - ∑ j ∈ range i, (if Lp r j ∧ Up j i then s.L r j * (sstage A Ap Lp Up i s).U j i else 0))
          / (sstage A Ap Lp Up i s).U i i := by
      simp [sstage, hr, hl]
    rw [e, avL r, sumL r hr hrn, piv]
  have dL_old : ∀ r c, c ≠ i → (stage A i d).L r c = d.L r c := by
    intro r c hci
    have h1 : ¬ (c = i ∧ i < r) := fun h => hci h.1
    have h2 : ¬ (r = i ∧ c = i) := fun h => hci h.2
    simp [stage, h1, h2]
  have sL_old : ∀ r c, c ≠ i → (sstage A Ap Lp Up i s).L r c = s.L r c := by
    intro r c hci
    have h1 : ¬ (c = i ∧ i < r ∧ Lp r i = true) := fun h => hci h.1
    have h2 : ¬ (r = i ∧ c = i) := fun h => hci h.2
    simp [sstage, h1, h2]
  have sL_ii : (sstage A Ap Lp Up i s).L i i = 1 := by
    simp [sstage]
  have dL_off : ∀ r, i < r → r < n → Lp r i = false → (stage A i d).L r i = 0 := by
    intro r hir hrn hl
    rw [dL r hir]
    have hAp : Ap r i = false := by
      cases ha : Ap r i
      · rfl
      · rw [hc.supL r i hir hrn ha] at hl; cases hl
    rw [hA r i hAp]
    have : ∑ j ∈ range i, d.L r j * (stage A i d).U j i = 0 := by
      apply sum_eq_zero
      intro j hj
      have hj' := mem_range.mp hj
      rw [dU_old j i (by omega)]
      by_cases h1 : Lp r j = true
      · by_cases h2 : Up j i = true
        · rw [hc.fillL i j r hj' hir hrn h1 h2] at hl; cases hl
        · have h2' : Up j i = false := by simpa using h2
          rw [h.U_off j i hj' (by omega) hin h2']; ring
      · have h1' : Lp r j = false := by simpa using h1
        rw [h.L_off r j hj' (by omega) hrn h1']; ring
    rw [this]; simp
  refine ⟨?_, ?_, ?_, ?_, ?_⟩
  · intro r c hr hrc hcn hu
    by_cases hri : r = i
    · subst hri; rw [sU c hrc hcn hu, dU c hrc]
    · rw [sU_old r c hri, dU_old r c hri]; exact h.U_on r c (by omega) hrc hcn hu
  · intro r c hr hrc hcn hu
    by_cases hri : r = i
    · subst hri; exact dU_off c hrc hcn hu
    · rw [dU_old r c hri]; exact h.U_off r c (by omega) hrc hcn hu
  · intro r c hc' hcr hrn hl
    by_cases hci : c = i
    · subst hci; rw [sL r hcr hrn hl, dL r hcr]
    · rw [sL_old r c hci, dL_old r c hci]; exact h.L_on r c (by omega) hcr hrn hl
  · intro r c hc' hcr hrn hl
    by_cases hci : c = i
    · subst hci; exact dL_off r hcr hrn hl
    · rw [dL_old r c hci]; exact h.L_off r c (by omega) hcr hrn hl
  · intro r hr
    by_cases hri : r = i
    · subst hri; exact sL_ii
    · rw [sL_old r r hri]; exact h.L_diag r (by omega)

/-- after `m ≤ n` stages the sparse iteration (from *any* initial state `s0`) is related to the
    dense Doolittle iteration -/
theorem rel_slu (n : Nat) (A : Nat → Nat → K) (Ap Lp Up : Nat → Nat → Bool)
    (hc : Closed n Ap Lp Up) (hA : ∀ r c, Ap r c = false → A r c = 0) (s0 : LU K)
    (m : Nat) (hm : m ≤ n) :
    Rel n Lp Up m (DenseLU.lu A m) (slu A Ap Lp Up s0 m) := by
  induction m with
  | zero => exact rel_zero n Lp Up _ _
  | succ m ih => exact rel_stage n A Ap Lp Up hc hA m (by omega) _ _ (ih (by omega))

end SparseLU
end Micm
