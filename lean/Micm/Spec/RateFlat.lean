/-
Model-side definitions for C15 that are NOT part of the executed driver (core Lean only):

* `labelsOf`            — `SolverBuilder::GetCustomParameterLabels` (solver_builder.inl)
* `paramOffset`         — the column at which reaction `r`'s custom parameters start
* `paramMap`            — `State::custom_rate_parameter_map_` as built in the `State` constructor
                          (`map[label] = index++` : a later duplicate label overwrites)
* `setCustomRateParameter`, `fillParams` — `State::SetCustomRateParameter(label, values)` and a
                          sequence of such calls
* `calculateRateConstantsVec` — a literal flat-storage transcription of the VECTOR overload of
                          `Process::CalculateRateConstants` (process.hpp), walking `offset_params`
                          and `offset_rc` exactly as the source does.

The flat model is not run by the differential harness: it is a transcription whose only check is
the theorem `C15_vector_eq_rowwise` (it computes, slot by slot, what the executed row-wise model
`rateConstGo` computes).
-/
import Micm.Model.RateConst
import Micm.Model.Dense
namespace Micm

/-! ## labels, offsets, the label → column map -/

section Labels
variable {α : Type}

/-- `GetCustomParameterLabels`: for every reaction, in order, push its `CustomParameters()` -/
def labelsOf (procs : List (RateProc α)) : List String := procs.flatMap (·.kind.labels)

/-- `Σ_{r' < r} SizeCustomParameters(r')`: where the iterator stands when reaction `r` is reached -/
def paramOffset (procs : List (RateProc α)) (r : Nat) : Nat :=
  ((procs.take r).map (·.kind.nParams)).sum

/-- number of custom-parameter columns -/
def nParamsTotal (procs : List (RateProc α)) : Nat := (procs.map (·.kind.nParams)).sum

/-- the `State` constructor loop `for (label : labels) custom_rate_parameter_map_[label] = index++;`
    (`std::map::operator[]` assignment: a later duplicate overwrites the earlier index) -/
def paramMapGo : List String → Nat → (String → Option Nat) → String → Option Nat
  | [], _, m => m
  | l :: ls, i, m => paramMapGo ls (i + 1) (fun x => if x = l then some i else m x)

/-- `custom_rate_parameter_map_.find(label)`: `none` = `end()` -/
def paramMap (labels : List String) : String → Option Nat := paramMapGo labels 0 (fun _ => none)

end Labels

section SetParam
variable {α : Type} [OfNat α 0]

/-- `State::SetCustomRateParameter(label, values)` on logical cells.
    `none` = throws (`UnknownRateConstantParameter`, or
    `IncorrectNumberOfCustomRateParameterValuesForMultiGridcellState` when
    `NumRows() != values.size()`).  The single-value overload is the case `values = #[v]`
    (it throws unless `NumRows() == 1` and writes row 0). -/
def setCustomRateParameter (labels : List String) (params : Mat α) (label : String)
    (values : Array α) : Option (Mat α) :=
  match paramMap labels label with
  | none => none
  | some j =>
    if params.size ≠ values.size then none
    else some (params.mapIdx fun i row => row.setIfInBounds j (values.getD i 0))

/-- a sequence of `SetCustomRateParameter` calls, in program order -/
def fillParams (labels : List String) : Mat α → List (String × Array α) → Option (Mat α)
  | params, [] => some params
  | params, (l, v) :: rest =>
    match setCustomRateParameter labels params l v with
    | none => none
    | some params' => fillParams labels params' rest

/-- the values most recently passed for `label` in a call sequence (`none`: never set) -/
def lastSet : List (String × Array α) → String → Option (Array α)
  | [], _ => none
  | (l, v) :: rest, label =>
    match lastSet rest label with
    | some v' => some v'
    | none => if l = label then some v else none

end SetParam

/-! ## the vector overload of `Process::CalculateRateConstants` on flat storage

```
const auto& v_custom_parameters = state.custom_rate_parameters_.AsVector();
auto& v_rate_constants = state.rate_constants_.AsVector();
for (i_group = 0; i_group < state.rate_constants_.NumberOfGroups(); ++i_group) {
  offset_rc     = i_group * state.rate_constants_.GroupSize();          // L * #reactions
  offset_params = i_group * state.custom_rate_parameters_.GroupSize();  // L * #parameter columns
  rate_const_size = std::min(L, state.rate_constants_.NumRows() - (i_group * L));
  for (auto& process : processes) {
    std::vector<double> params(process.rate_constant_->SizeCustomParameters());
    for (i_cell = 0; i_cell < rate_const_size; ++i_cell) {
      for (i_param = 0; i_param < params.size(); ++i_param)
        params[i_param] = v_custom_parameters[offset_params + i_param * L + i_cell];
      ... fixed_reactants from state.conditions_[i_group * L + i_cell] ...
      v_rate_constants[offset_rc + i_cell] =
          process.rate_constant_->Calculate(state.conditions_[i_group * L + i_cell], params.begin()) * fixed_reactants;
    }
    offset_params += params.size() * L;
    offset_rc += L;
  }
}
```
-/

section Vec
variable {α : Type} [OfNat α 0] [OfNat α 1] [Add α] [Sub α] [Mul α] [Div α] [Neg α]

/-- logical row `x` of a flat dense container (what `matrix[x]` converts to) -/
def logicalRow (s : DenseShape) (data : Array α) (x : Nat) : List α :=
  (List.range s.cols).map fun y => rd data (s.addr x y)

/-- `params[i_param] = v_custom_parameters[offset_params + i_param * L + i_cell]`, `i_param < n` -/
def gatherParams (L : Nat) (vcp : Array α) (offsetParams iCell n : Nat) : List α :=
  (List.range n).map fun iParam => rd vcp (offsetParams + iParam * L + iCell)

/-- the value stored for one (process, lane) -/
def vecCellValue (t : TOps α) (pi avogadro : α) (L : Nat) (conds : Array (Conditions α))
    (vcp : Array α) (iGroup : Nat) (p : RateProc α) (offsetParams iCell : Nat) : α :=
  let cond := conds.getD (iGroup * L + iCell) ⟨0, 0, 0⟩
  p.kind.calc t pi avogadro cond (gatherParams L vcp offsetParams iCell p.kind.nParams)
    * fixedReactants cond p.nParamReactants

/-- the `i_cell` loop: `v_rate_constants[offset_rc + i_cell] = …` for `i_cell < rate_const_size` -/
def vecCellLoop (t : TOps α) (pi avogadro : α) (L : Nat) (conds : Array (Conditions α))
    (vcp : Array α) (iGroup rateConstSize : Nat) (p : RateProc α) (offsetParams offsetRc : Nat)
    (vrc : Array α) : Array α :=
  (List.range rateConstSize).foldl (fun vrc iCell =>
    wr vrc (offsetRc + iCell) (vecCellValue t pi avogadro L conds vcp iGroup p offsetParams iCell)) vrc

/-- the process loop, carrying `offset_params` and `offset_rc` -/
def vecProcLoop (t : TOps α) (pi avogadro : α) (L : Nat) (conds : Array (Conditions α))
    (vcp : Array α) (iGroup rateConstSize : Nat) :
    List (RateProc α) → Nat → Nat → Array α → Array α
  | [], _, _, vrc => vrc
  | p :: ps, offsetParams, offsetRc, vrc =>
    vecProcLoop t pi avogadro L conds vcp iGroup rateConstSize ps
      (offsetParams + p.kind.nParams * L) (offsetRc + L)
      (vecCellLoop t pi avogadro L conds vcp iGroup rateConstSize p offsetParams offsetRc vrc)

/-- the group loop.  `nCells = rate_constants_.NumRows()`; `vcp`, `vrc` are the flat storages of
    `custom_rate_parameters_` (`nCells × nParamsTotal`) and `rate_constants_` (`nCells × #procs`) -/
def calculateRateConstantsVec (t : TOps α) (pi avogadro : α) (L nCells : Nat)
    (procs : List (RateProc α)) (conds : Array (Conditions α)) (vcp vrc : Array α) : Array α :=
  (List.range (DenseShape.groups ⟨nCells, procs.length, L⟩)).foldl (fun vrc iGroup =>
    vecProcLoop t pi avogadro L conds vcp iGroup (min L (nCells - iGroup * L)) procs
      (iGroup * (L * nParamsTotal procs)) (iGroup * (L * procs.length)) vrc) vrc

end Vec
end Micm
