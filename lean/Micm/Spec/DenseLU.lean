import Mathlib.Algebra.BigOperators.Group.Finset.Basic
import Mathlib.Algebra.BigOperators.Intervals
import Mathlib.Algebra.Field.Basic
import Mathlib.Tactic.Ring
import Mathlib.Tactic.FieldSimp
import Mathlib.Tactic.Linarith

/-!
Specification side of C03/C04: dense Doolittle factorisation on total functions `Nat → Nat → K`
(DESIGN.md Appendix A.3), `L·U = A` by a stage invariant, plus the pivot-free structural facts
and the `IsLU` predicate used by the property files.
-/
open Finset

namespace Micm
namespace DenseLU
variable {K : Type} [Field K]

/-- state after processing stages `< i`: L and U as total functions -/
structure LU (K : Type) where
  L : Nat → Nat → K
  U : Nat → Nat → K

/-- stage `i` of Doolittle on an `n × n` matrix -/
def stage (A : Nat → Nat → K) (i : Nat) (s : LU K) : LU K :=
  let U' : Nat → Nat → K := fun r c =>
    if r = i ∧ i ≤ c then A i c - ∑ j ∈ range i, s.L i j * s.U j c else s.U r c
  let L' : Nat → Nat → K := fun r c =>
    if c = i ∧ i < r then (A r i - ∑ j ∈ range i, s.L r j * U' j i) / U' i i
    else if r = i ∧ c = i then 1 else s.L r c
  ⟨L', U'⟩

def init : LU K := ⟨fun _ _ => 0, fun _ _ => 0⟩

def lu (A : Nat → Nat → K) : Nat → LU K
  | 0 => init
  | i+1 => stage A i (lu A i)

/-- invariant after `i` stages -/
structure Inv (A : Nat → Nat → K) (i : Nat) (s : LU K) : Prop where
  U_low  : ∀ r c, c < r → s.U r c = 0
  U_rows : ∀ r c, i ≤ r → s.U r c = 0
  L_up   : ∀ r c, r < c → s.L r c = 0
  L_cols : ∀ r c, i ≤ c → s.L r c = 0
  L_diag : ∀ r, r < i → s.L r r = 1
  prod   : ∀ r c, (r < i ∨ c < i) → ∑ j ∈ range i, s.L r j * s.U j c = A r c

theorem inv_init (A : Nat → Nat → K) : Inv A 0 (init : LU K) where
  U_low := by intros; rfl
  U_rows := by intros; rfl
  L_up := by intros; rfl
  L_cols := by intros; rfl
  L_diag := by intro r h; omega
  prod := by intro r c h; omega

theorem inv_stage (A : Nat → Nat → K) (i : Nat) (s : LU K) (h : Inv A i s)
    (hp : (stage A i s).U i i ≠ 0) : Inv A (i+1) (stage A i s) := by
  have hUi : ∀ r c, r ≠ i → (stage A i s).U r c = s.U r c := by
    intro r c hr; simp [stage, hr]
  have hUii : ∀ c, i ≤ c → (stage A i s).U i c = A i c - ∑ j ∈ range i, s.L i j * s.U j c := by
    intro c hc; simp [stage, hc]
  have hUilow : ∀ c, c < i → (stage A i s).U i c = 0 := by
    intro c hc
    have : ¬ i ≤ c := by omega
    simp [stage, this, h.U_rows i c (le_refl i)]
  have hLc : ∀ r c, c ≠ i → (stage A i s).L r c = s.L r c := by
    intro r c hc
    simp only [stage]
    have h1 : ¬ (c = i ∧ i < r) := fun h => hc h.1
    have h2 : ¬ (r = i ∧ c = i) := fun h => hc h.2
    simp [h1, h2]
  have hLii : (stage A i s).L i i = 1 := by simp [stage]
  have hLri : ∀ r, i < r → (stage A i s).L r i
      = (A r i - ∑ j ∈ range i, s.L r j * (stage A i s).U j i) / (stage A i s).U i i := by
    intro r hr; simp [stage, hr]
  have hLri_up : ∀ r, r < i → (stage A i s).L r i = 0 := by
    intro r hr
    have h1 : ¬ i < r := by omega
    have h2 : r ≠ i := by omega
    simp [stage, h1, h2, h.L_cols r i (le_refl i)]
  refine ⟨?_, ?_, ?_, ?_, ?_, ?_⟩
  · intro r c hcr
    by_cases hr : r = i
    · subst hr; exact hUilow c hcr
    · rw [hUi r c hr]; exact h.U_low r c hcr
  · intro r c hr
    have : r ≠ i := by omega
    rw [hUi r c this]; exact h.U_rows r c (by omega)
  · intro r c hrc
    by_cases hc : c = i
    · subst hc; exact hLri_up r hrc
    · rw [hLc r c hc]; exact h.L_up r c hrc
  · intro r c hc
    have : c ≠ i := by omega
    rw [hLc r c this]; exact h.L_cols r c (by omega)
  · intro r hr
    by_cases hri : r = i
    · subst hri; exact hLii
    · rw [hLc r r hri]; exact h.L_diag r (by omega)
  · intro r c hrc
    rw [sum_range_succ]
    have hsum : ∑ j ∈ range i, (stage A i s).L r j * (stage A i s).U j c
        = ∑ j ∈ range i, s.L r j * s.U j c := by
      apply sum_congr rfl
      intro j hj
      have hj' : j < i := mem_range.mp hj
      rw [hLc r j (by omega), hUi j c (by omega)]
    rw [hsum]
    by_cases hold : r < i ∨ c < i
    · -- old entry: the new term vanishes
      rw [h.prod r c hold]
      rcases hold with hr | hc
      · rw [hLri_up r hr]; ring
      · rw [hUilow c hc]; ring
    · -- new entry: min r c = i
      have hri : i ≤ r := by omega
      have hci : i ≤ c := by omega
      rcases hrc with hr | hc
      · have : r = i := by omega
        subst this
        rw [hLii, hUii c hci]; ring
      · have hc' : c = i := by omega
        subst hc'
        by_cases hr : r = c
        · subst hr; rw [hLii, hUii r (le_refl r)]; ring
        · have hlt : c < r := by omega
          rw [hLri r hlt]
          have hs2 : ∑ j ∈ range c, s.L r j * (stage A c s).U j c = ∑ j ∈ range c, s.L r j * s.U j c := by
            apply sum_congr rfl
            intro j hj
            have hj' : j < c := mem_range.mp hj
            rw [hUi j c (by omega)]
          rw [hs2, div_mul_cancel₀ _ hp]
          ring

theorem lu_inv (A : Nat → Nat → K) (n : Nat)
    (hp : ∀ i, i < n → (lu A (i+1)).U i i ≠ 0) : Inv A n (lu A n) := by
  induction n with
  | zero => exact inv_init A
  | succ n ih =>
    have := ih (fun i hi => hp i (by omega))
    exact inv_stage A n (lu A n) this (hp n (by omega))

/-- L*U = A on the n×n block -/
theorem lu_correct (A : Nat → Nat → K) (n : Nat)
    (hp : ∀ i, i < n → (lu A (i+1)).U i i ≠ 0) (r c : Nat) (hr : r < n) (_hc : c < n) :
    ∑ j ∈ range n, (lu A n).L r j * (lu A n).U j c = A r c :=
  (lu_inv A n hp).prod r c (Or.inl hr)

/-! ### pivot-free structural facts -/

/-- the part of `Inv` that does not need non-zero pivots -/
structure Shape (i : Nat) (s : LU K) : Prop where
  U_low  : ∀ r c, c < r → s.U r c = 0
  U_rows : ∀ r c, i ≤ r → s.U r c = 0
  L_up   : ∀ r c, r < c → s.L r c = 0
  L_cols : ∀ r c, i ≤ c → s.L r c = 0
  L_diag : ∀ r, r < i → s.L r r = 1

theorem shape_init : Shape 0 (init : LU K) where
  U_low := by intros; rfl
  U_rows := by intros; rfl
  L_up := by intros; rfl
  L_cols := by intros; rfl
  L_diag := by intro r h; omega

theorem shape_stage (A : Nat → Nat → K) (i : Nat) (s : LU K) (h : Shape i s) :
    Shape (i+1) (stage A i s) := by
  refine ⟨?_, ?_, ?_, ?_, ?_⟩
  · intro r c hcr
    by_cases hr : r = i
    · subst hr
      have : ¬ r ≤ c := by omega
      simp [stage, this, h.U_rows r c (le_refl r)]
    · simp [stage, hr, h.U_low r c hcr]
  · intro r c hr
    have : r ≠ i := by omega
    simp [stage, this, h.U_rows r c (by omega)]
  · intro r c hrc
    have h1 : ¬ (c = i ∧ i < r) := by omega
    have h2 : ¬ (r = i ∧ c = i) := by omega
    simp only [stage, h1, h2, if_false]
    exact h.L_up r c hrc
  · intro r c hc
    have h1 : ¬ (c = i ∧ i < r) := by omega
    have h2 : ¬ (r = i ∧ c = i) := by omega
    simp only [stage, h1, h2, if_false]
    exact h.L_cols r c (by omega)
  · intro r hr
    by_cases hri : r = i
    · subst hri; simp [stage]
    · have h1 : ¬ (r = i ∧ i < r) := by omega
      have h2 : ¬ (r = i ∧ r = i) := by omega
      simp only [stage, h1, h2, if_false]
      exact h.L_diag r (by omega)

theorem lu_shape (A : Nat → Nat → K) (n : Nat) : Shape n (lu A n) := by
  induction n with
  | zero => exact shape_init
  | succ n ih => exact shape_stage A n _ ih

/-- stage `i` leaves the rows `< i` of `U` and the columns `< i` of `L` alone, hence the pivot
    `(lu A (i+1)).U i i` is the final `(lu A n).U i i` for every `n > i`. -/
theorem lu_U_stable (A : Nat → Nat → K) (i n : Nat) (h : i < n) (c : Nat) :
    (lu A n).U i c = (lu A (i+1)).U i c := by
  induction n with
  | zero => omega
  | succ n ih =>
    by_cases hn : i = n
    · subst hn; rfl
    · have : (lu A (n+1)).U i c = (lu A n).U i c := by
        show (stage A n (lu A n)).U i c = _
        simp [stage, hn]
      rw [this, ih (by omega)]

theorem lu_L_stable (A : Nat → Nat → K) (i n : Nat) (h : i < n) (r : Nat) :
    (lu A n).L r i = (lu A (i+1)).L r i := by
  induction n with
  | zero => omega
  | succ n ih =>
    by_cases hn : i = n
    · subst hn; rfl
    · have : (lu A (n+1)).L r i = (lu A n).L r i := by
        show (stage A n (lu A n)).L r i = _
        have h1 : ¬ (i = n ∧ n < r) := by omega
        have h2 : ¬ (r = n ∧ i = n) := by omega
        simp only [stage, h1, h2, if_false]
      rw [this, ih (by omega)]

/-- the defining equations of the final factors (no pivot hypothesis) -/
theorem lu_U_eq (A : Nat → Nat → K) (n i c : Nat) (hi : i < n) (hic : i ≤ c) :
    (lu A n).U i c = A i c - ∑ j ∈ range i, (lu A n).L i j * (lu A n).U j c := by
  rw [lu_U_stable A i n hi c]
  show (stage A i (lu A i)).U i c = _
  simp only [stage, hic, and_self, if_true]
  congr 1
  apply sum_congr rfl
  intro j hj
  have hj' := mem_range.mp hj
  rw [lu_U_stable A j n (by omega) c, lu_L_stable A j n (by omega) i]
  by_cases h : j + 1 = i
  · rw [h]
  · rw [lu_U_stable A j i (by omega) c, lu_L_stable A j i (by omega) i]

theorem lu_L_eq (A : Nat → Nat → K) (n i r : Nat) (hi : i < n) (hir : i < r) :
    (lu A n).L r i
      = (A r i - ∑ j ∈ range i, (lu A n).L r j * (lu A n).U j i) / (lu A n).U i i := by
  rw [lu_L_stable A i n hi r, lu_U_stable A i n hi i]
  show (stage A i (lu A i)).L r i = _ / (stage A i (lu A i)).U i i
  simp only [stage, hir, and_self, if_true, le_refl]
  congr 2
  apply sum_congr rfl
  intro j hj
  have hj' := mem_range.mp hj
  have hji : ¬ (j = i ∧ True) := by omega
  rw [if_neg hji, lu_U_stable A j n (by omega) i, lu_L_stable A j n (by omega) r]
  by_cases h : j + 1 = i
  · rw [h]
  · rw [lu_U_stable A j i (by omega) i, lu_L_stable A j i (by omega) r]

/-- `L` unit lower triangular, `U` upper triangular, `L·U = A` on the leading `n × n` block -/
structure IsLU (n : Nat) (A L U : Nat → Nat → K) : Prop where
  L_diag : ∀ i, i < n → L i i = 1
  L_up   : ∀ r c, r < n → c < n → r < c → L r c = 0
  U_low  : ∀ r c, r < n → c < n → c < r → U r c = 0
  prod   : ∀ r c, r < n → c < n → ∑ j ∈ range n, L r j * U j c = A r c

/-- dense Doolittle is an LU factorisation whenever no pivot vanishes -/
theorem lu_isLU (A : Nat → Nat → K) (n : Nat)
    (hp : ∀ i, i < n → (lu A n).U i i ≠ 0) : IsLU n A (lu A n).L (lu A n).U := by
  have hp' : ∀ i, i < n → (lu A (i+1)).U i i ≠ 0 := by
    intro i hi; rw [← lu_U_stable A i n hi i]; exact hp i hi
  have hs := lu_shape A n
  exact ⟨fun i hi => hs.L_diag i hi, fun r c _ _ h => hs.L_up r c h,
    fun r c _ _ h => hs.U_low r c h, fun r c hr hc => lu_correct A n hp' r c hr hc⟩

end DenseLU
end Micm
