/-
  C08 (specification side): conversion of a Rosenbrock coefficient table from the
  *implementation form* used by micm / KPP  (a, c, m, e, γ)  to the *textbook form*
  (α_ij, γ_ij, b, b̂)  of Hairer–Wanner, "Solving ODEs II", §IV.7, and the order-condition
  residuals up to order four, the stability value R(∞) and the tabulated row sums.

  Core Lean only.  The conversion and the residuals are polymorphic in the number type through the
  core notation classes (as the model is), so that
    * on core `Rat` they are executable and the facts about the generated tables
      `Micm.Gen.ros2 … rodas4` are decided by the kernel (`decide +kernel`), and
    * on an arbitrary `Field K` they can be reasoned about symbolically (`C08_ros2_exact`).

  Conventions (0-based; `s = stages`):
    * packed strictly-lower-triangular index  `lt i j = i(i-1)/2 + j`   (j < i)
    * γ       = `gamma[0]`   (all five methods have constant diagonal γ_ii = γ)
    * Γ⁻¹     = diag(1/γ) − C           (lower triangular)
    * Γ = (γ_ij) = (Γ⁻¹)⁻¹              (forward substitution, row by row)
    * (α_ij)  = A·Γ ,  b = m·Γ ,  b̂ = (m − e)·Γ
    * β_ij    = α_ij + γ_ij  for j < i  (0 otherwise),  β'_i = Σ_j β_ij,  α_i = Σ_j α_ij
    * B       = (α_ij + γ_ij) including the diagonal γ;   R(∞) = 1 − bᵀ B⁻¹ 𝟙
-/
import Micm.Gen.Params

namespace Micm
namespace OrderCond

open Micm.Gen

/-- packed index of the strictly lower triangular entry (i,j), j < i (0-based) -/
def lt (i j : Nat) : Nat := i * (i - 1) / 2 + j

section poly
variable {K : Type} [Add K] [Sub K] [Mul K] [Div K] [Neg K] [OfNat K 0] [OfNat K 1]

/-- the natural number `n` in `K`, as `0 + 1 + … + 1` (keeps the definitions inside the seven
    notation classes; on `Rat` it evaluates to the numeral, on a field it is `(n : K)`) -/
def ofN : Nat → K
  | 0 => 0
  | n + 1 => ofN n + 1

/-- the fraction `p/q` in `K` -/
def frac (p q : Nat) : K := (ofN p : K) / ofN q

def vget (v : List K) (i : Nat) : K := v.getD i 0
def mget (m : List (List K)) (i j : Nat) : K := (m.getD i []).getD j 0

/-- `Σ_{i<n} f i` -/
def sumTo (n : Nat) (f : Nat → K) : K := (List.range n).foldl (fun acc i => acc + f i) 0

def vsum (v : List K) : K := v.foldl (· + ·) 0

/-- build an `n × n` matrix (row major) from an entry function -/
def mkMat (n : Nat) (f : Nat → Nat → K) : List (List K) :=
  (List.range n).map fun i => (List.range n).map fun j => f i j

def mkVec (n : Nat) (f : Nat → K) : List K := (List.range n).map f

/-- entry (i,j) of `Γ⁻¹ = diag(1/γ) − C` -/
def GinvEntry (c : List K) (g : K) (i j : Nat) : K :=
  if i = j then 1 / g else if j < i then - vget c (lt i j) else 0

/-- entry (i,j) of the strictly lower triangular `A` -/
def AEntry (a : List K) (i j : Nat) : K :=
  if j < i then vget a (lt i j) else 0

/-- inverse of a lower triangular matrix given by its entry function (rows by forward substitution):
    `X[i][j] = (δ_ij − Σ_{k<i} L_ik X[k][j]) / L_ii`.  -/
def lowerInv (n : Nat) (L : Nat → Nat → K) : List (List K) :=
  (List.range n).foldl (fun rows i =>
    rows ++ [ (List.range n).map fun j =>
      ((if i = j then 1 else 0) - sumTo i (fun k => L i k * mget rows k j)) / L i i ]) []

/-- solve `L x = 𝟙` for lower triangular `L` (forward substitution) -/
def lowerSolveOnes (n : Nat) (L : Nat → Nat → K) : List K :=
  (List.range n).foldl (fun x i =>
    x ++ [ (1 - sumTo i (fun k => L i k * vget x k)) / L i i ]) []

/-- `A·G` for `n × n` matrices (`A` given by entries) -/
def matMul (n : Nat) (A : Nat → Nat → K) (G : List (List K)) : List (List K) :=
  mkMat n fun i j => sumTo n fun k => A i k * mget G k j

/-- `v·G` (row vector times matrix) -/
def vecMat (n : Nat) (v : Nat → K) (G : List (List K)) : List K :=
  mkVec n fun j => sumTo n fun k => v k * mget G k j

end poly

/-- textbook form of a Rosenbrock method -/
structure Textbook (K : Type) where
  s     : Nat
  g     : K                -- γ
  Gam   : List (List K)    -- Γ = (γ_ij), lower triangular, diagonal γ
  alpha : List (List K)    -- (α_ij) = A·Γ, strictly lower triangular
  beta  : List (List K)    -- β_ij = α_ij + γ_ij (j < i), else 0
  b     : List K           -- weights of the main method  m·Γ
  bh    : List K           -- weights of the embedded method (m − e)·Γ
  al    : List K           -- α_i  = Σ_j α_ij
  be    : List K           -- β'_i = Σ_j β_ij
  gs    : List K           -- γ_i  = Σ_j γ_ij  (including the diagonal)

section poly2
variable {K : Type} [Add K] [Sub K] [Mul K] [Div K] [Neg K] [OfNat K 0] [OfNat K 1]

/-- implementation form `(s, a, c, m, e, γ)` ↦ textbook form -/
def toTextbookK (s : Nat) (a c m e : List K) (g : K) : Textbook K :=
  let G := lowerInv s (GinvEntry c g)
  let alpha := matMul s (AEntry a) G
  let beta := mkMat s fun i j => if j < i then mget alpha i j + mget G i j else 0
  { s := s
    g := g
    Gam := G
    alpha := alpha
    beta := beta
    b := vecMat s (vget m) G
    bh := vecMat s (fun k => vget m k - vget e k) G
    al := alpha.map vsum
    be := beta.map vsum
    gs := G.map vsum }

/-! ### order-condition residuals (weights `w` = `b` or `b̂`) -/

variable (T : Textbook K) (w : List K)

def o1  : K := sumTo T.s (vget w) - 1
def o2  : K := sumTo T.s (fun i => vget w i * vget T.be i) - (frac 1 2 - T.g)
def o3a : K := sumTo T.s (fun i => vget w i * vget T.al i * vget T.al i) - frac 1 3
def o3b : K := sumTo T.s (fun i => sumTo T.s fun j => vget w i * mget T.beta i j * vget T.be j)
                - (frac 1 6 - T.g + T.g * T.g)
def o4a : K := sumTo T.s (fun i => vget w i * vget T.al i * vget T.al i * vget T.al i) - frac 1 4
def o4b : K := sumTo T.s (fun i => sumTo T.s fun j =>
                  vget w i * vget T.al i * mget T.alpha i j * vget T.be j) - (frac 1 8 - T.g / ofN 3)
def o4c : K := sumTo T.s (fun i => sumTo T.s fun j =>
                  vget w i * mget T.beta i j * vget T.al j * vget T.al j) - (frac 1 12 - T.g / ofN 3)
/-- `Σ b_i β_ij β_jk β'_k`, evaluated as `Σ_i b_i Σ_j β_ij u_j` with `u_j = Σ_k β_jk β'_k` -/
def o4d : K :=
  let u : List K := mkVec T.s fun j => sumTo T.s fun k => mget T.beta j k * vget T.be k
  sumTo T.s (fun i => sumTo T.s fun j => vget w i * mget T.beta i j * vget u j)
    - (frac 1 24 - T.g / ofN 2 + frac 3 2 * T.g * T.g - T.g * T.g * T.g)

/-- residuals of all order conditions up to order `p` (`p ≤ 4`) -/
def residualsUpTo (p : Nat) : List K :=
  (if 1 ≤ p then [o1 T w] else []) ++
  (if 2 ≤ p then [o2 T w] else []) ++
  (if 3 ≤ p then [o3a T w, o3b T w] else []) ++
  (if 4 ≤ p then [o4a T w, o4b T w, o4c T w, o4d T w] else [])

/-- `R(∞) = 1 − wᵀ B⁻¹ 𝟙`, `B = (α_ij + γ_ij)` including the diagonal -/
def Rinf : K :=
  let x := lowerSolveOnes T.s (fun i j => mget T.alpha i j + mget T.Gam i j)
  1 - sumTo T.s (fun i => vget w i * vget x i)

end poly2

/-! ### the generated tables (core `Rat`) and Bool-valued checkers -/

abbrev Q := Rat

/-- the diagonal coefficient γ of the method: `gamma_[0]` (used by the solver as `1/(H·gamma_[0])`) -/
def gamma0 (t : RosTable) : Q := vget t.gamma 0

def toTextbook (t : RosTable) : Textbook Q := toTextbookK t.stages t.a t.c t.m t.e (gamma0 t)

def absQ (x : Q) : Q := if x < 0 then -x else x

def allWithin (tol : Q) (rs : List Q) : Bool := rs.all fun r => decide (absQ r ≤ tol)

/-- `10^{-k}` -/
def tenTo (k : Nat) : Q := 1 / ((10 ^ k : Nat) : Q)

/-- `1e-14` -/
def tol14 : Q := tenTo 14

/-- main method satisfies all conditions up to order `p`, embedded method up to order `ph`
    (every residual within `tol`) -/
def orderCheck (t : RosTable) (p ph : Nat) (tol : Q) : Bool :=
  let T := toTextbook t
  allWithin tol (residualsUpTo T T.b p) && allWithin tol (residualsUpTo T T.bh ph)

/-- some condition of order `≤ p` is violated by the main method by more than `tol`
    (used with `p` = documented order + 1 to show that the documented order is sharp) -/
def mainFails (t : RosTable) (p : Nat) (tol : Q) : Bool :=
  let T := toTextbook t
  !(allWithin tol (residualsUpTo T T.b p))

/-- some condition of order `≤ ph` is violated by the embedded method by more than `tol` -/
def embFails (t : RosTable) (ph : Nat) (tol : Q) : Bool :=
  let T := toTextbook t
  !(allWithin tol (residualsUpTo T T.bh ph))

/-- the tabulated `alpha_[i]`, `gamma_[i]` are the row sums `Σ_j α_ij`, `Σ_j γ_ij` (within `tol`) -/
def rowsumCheck (t : RosTable) (tolA tolG : Q) : Bool :=
  let T := toTextbook t
  t.alpha.length == t.stages && t.gamma.length == t.stages &&
  allWithin tolA (mkVec t.stages fun i => vget T.al i - vget t.alpha i) &&
  allWithin tolG (mkVec t.stages fun i => vget T.gs i - vget t.gamma i)

/-- `lo ≤ |R(∞)| ≤ hi` for the main method -/
def rinfCheck (t : RosTable) (lo hi : Q) : Bool :=
  let T := toTextbook t
  let r := absQ (Rinf T T.b)
  decide (lo ≤ r) && decide (r ≤ hi)

/-- shapes of the packed arrays agree with `stages` -/
def stagesConsistent (t : RosTable) : Bool :=
  let s := t.stages
  decide (1 ≤ s) && t.a.length == s * (s - 1) / 2 && t.c.length == s * (s - 1) / 2 &&
  t.m.length == s && t.e.length == s && t.newF.length == s &&
  t.alpha.length == s && t.gamma.length == s && t.newF.head? == some true

/-- stiffly accurate structure of the RODAS sets in implementation form (exact equalities):
    the last row of `A` is `m` without its last entry, `m[s−1] = 1` (so `y_new = Y_s + K_s`), and
    the error estimate is the last stage increment, `e = (0,…,0,1)` (embedded solution `= Y_s`).
    This pins the entries of `e` that the order conditions cannot see (for these sets every
    multiple of `K_s` is an admissible estimator) and implies `R(∞) = 0` exactly. -/
def stifflyAccurate (t : RosTable) : Bool :=
  let s := t.stages
  decide (2 ≤ s) &&
  (List.range (s - 1)).all (fun j => decide (vget t.a (lt (s - 1) j) = vget t.m j)) &&
  decide (vget t.m (s - 1) = 1) &&
  (List.range s).all (fun j => decide (vget t.e j = if j = s - 1 then 1 else 0))

/-- deviation of a two-stage table from the closed forms of `TwoStageRosenbrockParameters()`
    (`a = 1/g, c = −2/g, m = (3/(2g), 1/(2g)), e = (1/(2g), 1/(2g))`, `g = gamma_[0]`), and the defect
    `2(g−1)² − 1` of the defining equation of `g = 1 + 1/√2` -/
def ros2ClosedFormResiduals (t : RosTable) : List Q :=
  let g := gamma0 t
  [ vget t.a 0 - 1 / g, vget t.c 0 - (-2) / g,
    vget t.m 0 - 3 / (2 * g), vget t.m 1 - 1 / (2 * g),
    vget t.e 0 - 1 / (2 * g), vget t.e 1 - 1 / (2 * g),
    2 * (g - 1) * (g - 1) - 1 ]

/-- `estimator_of_local_order_` = "the minimum between the main and the embedded scheme orders plus one" -/
def orderMeaning (t : RosTable) (p ph : Nat) : Bool :=
  decide (t.order = ((min p ph + 1 : Nat) : Q))

end OrderCond
end Micm
