/-
C05 (backward-Euler part) — "every backward-Euler iteration is a Newton iteration on
`y − y_n − H f(y) = 0` with the matrix `I/H − ∂f/∂y`, followed only by clipping".

Subject: `beStep` / `beLoop` / `beSolve` of `Micm/Model/BackwardEuler.lean` (one `beStep` = one Newton
iteration of `BackwardEuler::Solve`).  Vocabulary (`Micm/Lemmas/Special.lean`, `Lemmas/BackwardEuler.lean`):
* `beHead o T r`       the state after the `while (t < time_step)` test (only `status`/`done` change);
* `beResidual s kc r`  what `forcing_` holds after `Solve`: the Newton update `δ`;
* `beNewY o s kc r`    the new `Yn1` (`max(Yn1 + δ, 0)` entry-wise);
* `beInit`, `beInitialH`  the state in which `beSolve` enters the loop;
* `negJac m procs k y i j` the logical `−∂f_i/∂y_j` (C02), `BuiltCfg` a configuration as the builder
  assembles it (C09b), `attPivot` the diagonal of `U` after `Factor`.
-/
import Micm.Lemmas.BackwardEuler

namespace Micm
set_option linter.unusedSectionVars false
open Finset

section Any
variable {α : Type} [OfNat α 0] [OfNat α 1] [OfNat α 2] [Add α] [Sub α] [Mul α] [Div α]
variable (o : Ops α) (s : SolverCfg α) (p : BEParams α) (kc : Mat α) (atol : Array α) (rtol : α)
    (T : α)

/-- **one iteration** (any carrier): an iteration that passes the loop head records exactly one
    `BEIter`, whose `h` is the current step size and whose matrix is `AddToDiagonal(1/h)` applied to
    the (negative) Jacobian evaluated at the current `Yn1` into the zeroed buffer; an iteration that
    stops at the loop head records nothing. -/
theorem C05_be_matrix_step (r : BEState α) :
    (beStep o s p kc atol rtol T r).trace =
      if (beHead o T r).done then r.trace
      else { h := r.h,
             matrix := addDiag s.diag (s.jacobian kc r.Yn1 (fillM r.sc.jac 0)) (1 / r.h) } :: r.trace :=
  beStep_trace o s p kc atol rtol T r

/-- **the loop** (any carrier): every `BEIter` in the trace where `beLoop` stops was either already
    there or was recorded by the `k`-th iteration, `k < fuel`, from the `Yn1`, `h` and Jacobian buffer
    of the state `rₖ = beStep^[k] r` current at that iteration. -/
theorem C05_be_matrix (fuel : Nat) (r : BEState α) (it : BEIter α)
    (h : it ∈ (beLoop o s p kc atol rtol T fuel r).trace) :
    it ∈ r.trace ∨ ∃ k, k < fuel ∧
      it = { h := ((beStep o s p kc atol rtol T)^[k] r).h,
             matrix := addDiag s.diag
               (s.jacobian kc ((beStep o s p kc atol rtol T)^[k] r).Yn1
                 (fillM ((beStep o s p kc atol rtol T)^[k] r).sc.jac 0))
               (1 / ((beStep o s p kc atol rtol T)^[k] r).h) } :=
  beLoop_trace_mem o s p kc atol rtol T fuel r it h

/-- **the whole solve** (any carrier): every attempt reported by `beSolve` has
    `alpha = 1/h`, `matrix = AddToDiagonal(1/h)(−J(Yn1ₖ))` for the `Yn1ₖ`, `hₖ` of some loop state
    `rₖ`, `k < fuel`, reached from the initial state of the solve. -/
theorem C05_be_matrix_solve (Y : Mat α) (sc : Scratch α) (fuel : Nat) (att : Attempt α)
    (h : att ∈ (beSolve o s p kc atol rtol T Y sc fuel).trace) :
    ∃ k, k < fuel ∧
      att.h = ((beStep o s p kc atol rtol T)^[k] (beInit (beInitialH o p T) Y sc)).h ∧
      att.alpha = 1 / att.h ∧
      att.matrix = addDiag s.diag
        (s.jacobian kc ((beStep o s p kc atol rtol T)^[k] (beInit (beInitialH o p T) Y sc)).Yn1
          (fillM ((beStep o s p kc atol rtol T)^[k] (beInit (beInitialH o p T) Y sc)).sc.jac 0))
        (1 / att.h) := by
  rw [beSolve_eq] at h
  simp only [List.mem_map, List.mem_reverse] at h
  obtain ⟨it, hit, rfl⟩ := h
  rcases beLoop_trace_mem o s p kc atol rtol T fuel _ it hit with h0 | ⟨k, hk, rfl⟩
  · simp [beInit] at h0
  · exact ⟨k, hk, rfl, rfl, rfl⟩

end Any

section Exact
variable {K : Type} [Field K]
variable (o : Ops K) {s : SolverCfg K} (p : BEParams K) (kc : Mat K) (atol : Array K) (rtol : K)
    (T : K) {n : Nat} (c : Nat) {m : NameMap} {procs : List (Process K)} {kind : LUKind}
    {jac : Pattern}

/-- `AddToDiagonal(v)` is the operation `AlphaMinusJacobian(v)` of the Rosenbrock model (so the shift
    lemmas and `C09_matrix_columns` apply to the backward-Euler matrix) -/
theorem C05_be_addDiag (J : Mat K) (v : K) : addDiag s.diag J v = s.alphaMinusJacobian J v := rfl

/-- **the Newton update** (exact arithmetic, logical rows of cell `c`, all four LU variants).
    From any loop state `r` that passes the loop head, with the buffers of cell `c` of the configured
    sizes and no zero pivot in the factorisation of cell `c`:

    1. after the iteration `forcing_` (`sc.f0`) holds `δ` with
       `(I/H − ∂f/∂y(Yn1)) δ = f(Yn1) − (Yn1 − Yn)/H`   (`negJac = −∂f/∂y`, `H = r.h`,
       `f(Yn1)` = the mass-action forcing `addForcingCell` assembled into a zero vector);
    2. the clamped iterate is `max(Yn1 + δ, 0)` entry-wise (`cmax o · 0`);
    3. `Yn1` after the iteration is that clamped iterate — except when the outer iteration fails and
       is retried, where `Yn1` is reset to `Yn`.  Nothing else is done to the iterate. -/
theorem C05_be_newton_update (hb : BuiltCfg s m procs n kind jac) (r : BEState K)
    (hd : (beHead o T r).done = false)
    (hY : CellShape n c r.Yn1) (hf0 : CellShape n c r.sc.f0)
    (hj : CellShape s.la.A.nnz c r.sc.jac) (hl : CellShape s.la.Lp.nnz c r.sc.lower)
    (hu : CellShape s.la.Up.nnz c r.sc.upper)
    (hpiv : ∀ i, i < n → attPivot s
      (s.factor (addDiag s.diag (s.jacobian kc r.Yn1 (fillM r.sc.jac 0)) (1 / r.h))
        r.sc.lower r.sc.upper) c i ≠ 0) :
    (∀ i, i < n →
      ∑ j ∈ range n,
        ((if i = j then 1 / r.h else 0) + negJac m procs (kc.getD c #[]) (r.Yn1.getD c #[]) i j)
          * rd ((beStep o s p kc atol rtol T r).sc.f0.getD c #[]) j
        = rd (s.tables.addForcingCell (kc.getD c #[]) (r.Yn1.getD c #[]) (Array.replicate n 0)) i
            - (rd (r.Yn1.getD c #[]) i - rd (r.Yn.getD c #[]) i) / r.h) ∧
    (∀ v, v < n → rd ((beNewY o s kc r).getD c #[]) v =
      cmax o (rd (r.Yn1.getD c #[]) v
        + rd ((beStep o s p kc atol rtol T r).sc.f0.getD c #[]) v) 0) ∧
    (beStep o s p kc atol rtol T r).Yn1 =
      (if beConv o s p kc atol rtol r = false ∧ ¬ r.iterations + 1 < p.maxSteps ∧
          r.nFail < p.reductions.length then r.Yn else beNewY o s kc r) := by
  have hsc : (beStep o s p kc atol rtol T r).sc.f0 = beResidual s kc r := by
    rw [beStep_sc o s p kc atol rtol T r hd]
  refine ⟨fun i hi => ?_, fun v hv => ?_, beStep_Yn1 o s p kc atol rtol T r hd⟩
  · rw [hsc, ← (beForcing_cell kc c s r hf0).2]
    exact be_newton_system kc c hb r hf0 hj hl hu hpiv i hi
  · rw [hsc, rd_beNewY o kc c r hY v hv, rd_beUnclipped kc c s r hY v hv]

end Exact

/-! ### the hypotheses are satisfiable: `A → B`, `k = 1`, `Y₀ = (1, 0)`, `time_step = 1` -/

namespace BEEx

/-- the run: two Newton iterations with `H = 1` (the second one finds `δ = 0` and converges) -/
example : (run .doolittle params 1 10).status = .converged ∧
    (run .doolittle params 1 10).finalTime = 1 ∧
    (run .doolittle params 1 10).Y = #[#[1/2, 1/2]] ∧
    (run .doolittle params 1 10).trace.map (·.h) = [1, 1] := by decide +kernel

/-- all hypotheses of `C05_be_newton_update` hold in the first two loop states of this run, for
    every LU variant (shapes and pivots checked by evaluation) -/
theorem exNewtonHyps (kind : LUKind) (k : Nat) (hk : k < 2) :
    (beHead ratOps 1 (iter kind params 1 k)).done = false ∧
    CellShape 2 0 (iter kind params 1 k).Yn1 ∧ CellShape 2 0 (iter kind params 1 k).sc.f0 ∧
    CellShape (cfg kind).la.A.nnz 0 (iter kind params 1 k).sc.jac ∧
    CellShape (cfg kind).la.Lp.nnz 0 (iter kind params 1 k).sc.lower ∧
    CellShape (cfg kind).la.Up.nnz 0 (iter kind params 1 k).sc.upper ∧
    ∀ i, i < 2 → attPivot (cfg kind)
      ((cfg kind).factor (addDiag (cfg kind).diag ((cfg kind).jacobian #[#[1]] (iter kind params 1 k).Yn1
        (fillM (iter kind params 1 k).sc.jac 0)) (1 / (iter kind params 1 k).h))
        (iter kind params 1 k).sc.lower (iter kind params 1 k).sc.upper) 0 i ≠ 0 := by
  have : k = 0 ∨ k = 1 := by omega
  rcases this with rfl | rfl <;> cases kind <;> decide +kernel

/-- … so the conclusion applies: e.g. the first update solves `(I/1 − J) δ = f(y₀)`, `δ = (−½, ½)` -/
example : ((iter .doolittle params 1 1).sc.f0, (iter .doolittle params 1 1).Yn1,
    (iter .doolittle params 1 2).sc.f0) = (#[#[-1/2, 1/2]], #[#[1/2, 1/2]], #[#[0, 0]]) := by
  decide +kernel

end BEEx

#print axioms C05_be_matrix_step
#print axioms C05_be_matrix
#print axioms C05_be_matrix_solve
#print axioms C05_be_addDiag
#print axioms C05_be_newton_update
#print axioms BEEx.exNewtonHyps

end Micm
