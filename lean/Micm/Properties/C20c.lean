/-
C20 / C14 (State setters) — the setters of `State` (state.inl) as modelled concretely in
`Micm/Model/State.lean`: which call raises which documented error, in which order the checks are made,
that a rejected call leaves the State untouched, what a bulk setter leaves behind when it fails half-way,
and that a concentration / custom parameter written by name is the one read back by name, nothing else
being touched.
-/
import Micm.Model.State

namespace Micm
set_option linter.unusedSectionVars false

section Setters
variable {α : Type} [OfNat α 0]

/-- shape invariant of a built State: every row of `variables_` has `nVars` columns, every row of
    `custom_rate_parameters_` has `nPars`, the maps point inside, and no two names share a column -/
structure MState.WF (st : MState α) : Prop where
  varRows : ∀ c, c < st.vars.size → (st.vars.getD c #[]).size = st.nVars
  parRows : ∀ c, c < st.pars.size → (st.pars.getD c #[]).size = st.nPars
  varIn : ∀ n j, nmLookup st.varMap n = some j → j < st.nVars
  parIn : ∀ n j, nmLookup st.parMap n = some j → j < st.nPars
  varInj : ∀ n m j, nmLookup st.varMap n = some j → nmLookup st.varMap m = some j → n = m
  parInj : ∀ n m j, nmLookup st.parMap n = some j → nmLookup st.parMap m = some j → n = m
  cells : st.pars.size = st.vars.size

/-! ### `SetConcentration(species, vector)` -/

/-- **which error, in the source's order**: unknown species (code 1) is reported before a wrong number of
    values (code 3); otherwise the call succeeds -/
theorem C20_setConcentration_outcome (st : MState α) (name : String) (vals : List α) :
    (nmLookup st.varMap name = none → st.setConcentration name vals = .error (.sys catState 1)) ∧
    (∀ j, nmLookup st.varMap name = some j → st.vars.size ≠ vals.length →
      st.setConcentration name vals = .error (.sys catState 3)) ∧
    (∀ j, nmLookup st.varMap name = some j → st.vars.size = vals.length →
      st.setConcentration name vals = .ok { st with vars := setColumn st.vars j vals }) := by
  refine ⟨fun h => ?_, fun j h hn => ?_, fun j h he => ?_⟩ <;> simp [MState.setConcentration, h, *]

theorem C20_setConcentrationScalar_outcome (st : MState α) (name : String) (v : α) :
    (nmLookup st.varMap name = none → st.setConcentrationScalar name v = .error (.sys catState 1)) ∧
    (∀ j, nmLookup st.varMap name = some j → st.vars.size ≠ 1 →
      st.setConcentrationScalar name v = .error (.sys catState 3)) ∧
    (∀ j, nmLookup st.varMap name = some j → st.vars.size = 1 →
      st.setConcentrationScalar name v = .ok { st with vars := setColumn st.vars j [v] }) := by
  refine ⟨fun h => ?_, fun j h hn => ?_, fun j h he => ?_⟩ <;> simp [MState.setConcentrationScalar, h, *]

/-- custom rate parameters: unknown label (code 2) before a wrong number of values (code 5) -/
theorem C20_setParameter_outcome (st : MState α) (label : String) (vals : List α) :
    (nmLookup st.parMap label = none → st.setParameter label vals = .error (.sys catState 2)) ∧
    (∀ j, nmLookup st.parMap label = some j → st.pars.size ≠ vals.length →
      st.setParameter label vals = .error (.sys catState 5)) ∧
    (∀ j, nmLookup st.parMap label = some j → st.pars.size = vals.length →
      st.setParameter label vals = .ok { st with pars := setColumn st.pars j vals }) := by
  refine ⟨fun h => ?_, fun j h hn => ?_, fun j h he => ?_⟩ <;> simp [MState.setParameter, h, *]

theorem C20_setParameterScalar_outcome (st : MState α) (label : String) (v : α) :
    (nmLookup st.parMap label = none → st.setParameterScalar label v = .error (.sys catState 2)) ∧
    (∀ j, nmLookup st.parMap label = some j → st.pars.size ≠ 1 →
      st.setParameterScalar label v = .error (.sys catState 5)) ∧
    (∀ j, nmLookup st.parMap label = some j → st.pars.size = 1 →
      st.setParameterScalar label v = .ok { st with pars := setColumn st.pars j [v] }) := by
  refine ⟨fun h => ?_, fun j h hn => ?_, fun j h he => ?_⟩ <;> simp [MState.setParameterScalar, h, *]

/-! ### reading back by name; frame -/

theorem setColumn_size (m : Mat α) (j : Nat) (vals : List α) : (setColumn m j vals).size = m.size := by
  simp [setColumn]

theorem setColumn_getD (m : Mat α) (j : Nat) (vals : List α) (c : Nat) (hc : c < m.size) :
    (setColumn m j vals).getD c #[] = wr (m.getD c #[]) j (vals.getD c 0) := by
  simp [setColumn, Array.getD, hc]

/-- **C20_set_get_by_name**: after a successful `SetConcentration(name, vals)` the concentration read by
    the same name in cell `c` is `vals[c]`; every other species keeps its value in every cell; custom
    parameters, tolerances and the name maps are untouched -/
theorem C20_set_get_by_name (st st' : MState α) (wf : st.WF) (name : String) (vals : List α)
    (h : st.setConcentration name vals = .ok st') :
    (∀ c, c < st.nCells → st'.concentration name c = some (vals.getD c 0)) ∧
    (∀ other, other ≠ name → ∀ c, st'.concentration other c = st.concentration other c) ∧
    st'.pars = st.pars ∧ st'.atol = st.atol ∧ st'.rtol = st.rtol ∧ st'.varMap = st.varMap ∧
    st'.parMap = st.parMap ∧ st'.nCells = st.nCells := by
  unfold MState.setConcentration at h
  cases hl : nmLookup st.varMap name with
  | none => simp [hl] at h
  | some j =>
    simp only [hl] at h
    split at h
    · cases h
    · injection h with h
      subst h
      have hj := wf.varIn name j hl
      refine ⟨fun c hc => ?_, fun other hne c => ?_, rfl, rfl, rfl, rfl, rfl, by simp [MState.nCells, setColumn_size]⟩
      · simp only [MState.concentration, hl, Option.map_some]
        rw [setColumn_getD _ _ _ _ hc, rd_wr_same _ _ _ (by rw [wf.varRows c hc]; exact hj)]
      · simp only [MState.concentration]
        cases ho : nmLookup st.varMap other with
        | none => rfl
        | some i =>
          simp only [Option.map_some]
          have hij : j ≠ i := fun e => hne (wf.varInj other name i ho (e ▸ hl))
          by_cases hc : c < st.vars.size
          · rw [setColumn_getD _ _ _ _ hc, rd_wr_ne _ _ _ _ hij]
          · have h1 : (setColumn st.vars j vals).getD c #[] = #[] := by
              simp [Array.getD, setColumn_size, hc]
            have h2 : st.vars.getD c #[] = #[] := by simp [Array.getD, hc]
            rw [h1, h2]

/-- the same for custom rate parameters, by label -/
theorem C20_setParameter_get_by_label (st st' : MState α) (wf : st.WF) (label : String) (vals : List α)
    (h : st.setParameter label vals = .ok st') :
    (∀ c, c < st.pars.size → st'.parameter label c = some (vals.getD c 0)) ∧
    (∀ other, other ≠ label → ∀ c, st'.parameter other c = st.parameter other c) ∧
    st'.vars = st.vars ∧ st'.atol = st.atol ∧ st'.rtol = st.rtol := by
  unfold MState.setParameter at h
  cases hl : nmLookup st.parMap label with
  | none => simp [hl] at h
  | some j =>
    simp only [hl] at h
    split at h
    · cases h
    · injection h with h
      subst h
      have hj := wf.parIn label j hl
      refine ⟨fun c hc => ?_, fun other hne c => ?_, rfl, rfl, rfl⟩
      · simp only [MState.parameter, hl, Option.map_some]
        rw [setColumn_getD _ _ _ _ hc, rd_wr_same _ _ _ (by rw [wf.parRows c hc]; exact hj)]
      · simp only [MState.parameter]
        cases ho : nmLookup st.parMap other with
        | none => rfl
        | some i =>
          simp only [Option.map_some]
          have hij : j ≠ i := fun e => hne (wf.parInj other label i ho (e ▸ hl))
          by_cases hc : c < st.pars.size
          · rw [setColumn_getD _ _ _ _ hc, rd_wr_ne _ _ _ _ hij]
          · have h1 : (setColumn st.pars j vals).getD c #[] = #[] := by
              simp [Array.getD, setColumn_size, hc]
            have h2 : st.pars.getD c #[] = #[] := by simp [Array.getD, hc]
            rw [h1, h2]

/-- a successful setter keeps the State well formed -/
theorem C20_setConcentration_wf (st st' : MState α) (wf : st.WF) (name : String) (vals : List α)
    (h : st.setConcentration name vals = .ok st') : st'.WF := by
  unfold MState.setConcentration at h
  cases hl : nmLookup st.varMap name with
  | none => simp [hl] at h
  | some j =>
    simp only [hl] at h
    split at h
    · cases h
    · injection h with h
      subst h
      refine ⟨fun c hc => ?_, wf.parRows, wf.varIn, wf.parIn, wf.varInj, wf.parInj, by simpa [setColumn_size] using wf.cells⟩
      have hc' : c < st.vars.size := by simpa [setColumn_size] using hc
      simp only []
      rw [setColumn_getD _ _ _ _ hc', wr_size]
      exact wf.varRows c hc'

/-! ### bulk setters (`unordered_map` arguments): what is left behind -/

/-- **the prefix law**: a bulk setter applies the entries in iteration order; if entry `k` is the first one
    that is rejected, the State is the one produced by the entries before it and the error is that of
    entry `k`; if none is rejected all are applied -/
theorem C20_bulk_prefix {κ : Type} (f : MState α → κ → Except Err (MState α)) (st : MState α) (ks : List κ) :
    ((bulk f st ks).2 = none ∧
      ∃ sts : List (MState α), sts.length = ks.length ∧
        (ks.foldlM (fun s k => f s k) st) = .ok (bulk f st ks).1) ∨
    (∃ pre k post e mid, ks = pre ++ k :: post ∧ pre.foldlM (fun s k => f s k) st = .ok mid ∧
      f mid k = .error e ∧ bulk f st ks = (mid, some e)) := by
  induction ks generalizing st with
  | nil => left; exact ⟨rfl, [], rfl, rfl⟩
  | cons k ks ih =>
    cases hf : f st k with
    | error e =>
      right
      exact ⟨[], k, ks, e, st, rfl, rfl, hf, by simp [bulk, hf]⟩
    | ok st1 =>
      rcases ih st1 with ⟨h1, sts, h2, h3⟩ | ⟨pre, k', post, e, mid, h1, h2, h3, h4⟩
      · left
        refine ⟨by simpa [bulk, hf] using h1, st1 :: sts, by simp [h2], ?_⟩
        simp only [bulk, hf, List.foldlM_cons]
        exact h3
      · right
        refine ⟨k :: pre, k', post, e, mid, by simp [h1], ?_, h3, by simpa [bulk, hf] using h4⟩
        simp only [List.foldlM_cons, hf]
        exact h2

/-- a bulk setter whose entries are all acceptable reports no error -/
theorem C20_setConcentrations_ok (st : MState α) (kvs : List (String × List α))
    (h : (st.setConcentrations kvs).2 = none) :
    kvs.foldlM (fun s kv => s.setConcentration kv.1 kv.2) st = .ok (st.setConcentrations kvs).1 := by
  rcases C20_bulk_prefix (fun (st : MState α) (kv : String × List α) => st.setConcentration kv.1 kv.2) st kvs with
    ⟨_, _, _, h3⟩ | ⟨pre, k, post, e, mid, _, _, _, h4⟩
  · exact h3
  · unfold MState.setConcentrations at h; rw [h4] at h; cases h

/-- the first bad entry of `SetConcentrations` decides the error: an unknown species → code 1, a wrong
    number of values → code 3 -/
theorem C20_setConcentrations_error (st : MState α) (kvs : List (String × List α)) (e : Err)
    (h : (st.setConcentrations kvs).2 = some e) : e = .sys catState 1 ∨ e = .sys catState 3 := by
  rcases C20_bulk_prefix (fun (st : MState α) (kv : String × List α) => st.setConcentration kv.1 kv.2) st kvs with
    ⟨h1, _⟩ | ⟨pre, k, post, e', mid, _, _, h3, h4⟩
  · unfold MState.setConcentrations at h; rw [h1] at h; cases h
  · unfold MState.setConcentrations at h; rw [h4] at h
    injection h with h; subst h
    unfold MState.setConcentration at h3
    split at h3
    · injection h3 with h3; exact Or.inl h3.symm
    · split at h3
      · injection h3 with h3; exact Or.inr h3.symm
      · cases h3

/-! ### `UnsafelySetCustomRateParameters` -/

/-- the two documented rejections, in the source's order: wrong number of rows (code 5) first, then a
    first row of the wrong length (code 4); in both cases nothing was written -/
theorem C20_unsafelySetParameters_rejections (st : MState α) (rows : List (List α)) :
    (rows.length ≠ st.vars.size → st.unsafelySetParameters rows = (st, some (.sys catState 5))) ∧
    (rows.length = st.vars.size → (rows.headD []).length ≠ st.nPars →
      st.unsafelySetParameters rows = (st, some (.sys catState 4))) := by
  refine ⟨fun h => ?_, fun h1 h2 => ?_⟩
  · unfold MState.unsafelySetParameters; rw [if_pos h]
  · unfold MState.unsafelySetParameters; rw [if_neg (fun h => h h1), if_pos h2]

/-- `SetAbsoluteTolerances` accepts a vector of any length (the source makes no check) -/
theorem C20_setAbsoluteTolerances_unchecked (st : MState α) (v : List α) :
    (st.setAbsoluteTolerances v).atol = v.toArray ∧ (st.setAbsoluteTolerances v).vars = st.vars := ⟨rfl, rfl⟩

end Setters

/-! ### non-vacuity: a two-species, two-cell State over `ℕ`-like data -/

namespace StateEx

def st0 : MState Nat :=
  { varMap := [("A", 1), ("B", 0)], parMap := [("r0", 0)], nVars := 2, nPars := 1,
    vars := #[#[0, 0], #[0, 0]], pars := #[#[0], #[0]], atol := #[1, 1], rtol := 1 }

theorem varLookup (n : String) :
    nmLookup st0.varMap n = if n = "A" then some 1 else if n = "B" then some 0 else none := by
  unfold nmLookup st0
  by_cases hA : n = "A"
  · subst hA; simp [List.find?]
  · by_cases hB : n = "B"
    · subst hB; simp [List.find?]
    · have h1 : ("A" == n) = false := by simpa using fun h => hA h.symm
      have h2 : ("B" == n) = false := by simpa using fun h => hB h.symm
      simp [List.find?, h1, h2, hA, hB]

theorem parLookup (n : String) : nmLookup st0.parMap n = if n = "r0" then some 0 else none := by
  unfold nmLookup st0
  by_cases hA : n = "r0"
  · subst hA; simp [List.find?]
  · have h1 : ("r0" == n) = false := by simpa using fun h => hA h.symm
    simp [List.find?, h1, hA]

theorem C20_stateEx_wf : st0.WF := by
  refine ⟨?_, ?_, ?_, ?_, ?_, ?_, rfl⟩
  · intro c hc
    have : c = 0 ∨ c = 1 := by simp [st0] at hc; omega
    rcases this with rfl | rfl <;> rfl
  · intro c hc
    have : c = 0 ∨ c = 1 := by simp [st0] at hc; omega
    rcases this with rfl | rfl <;> rfl
  · intro n j h
    rw [varLookup] at h
    show j < 2
    split at h
    · injection h with h; omega
    · split at h
      · injection h with h; omega
      · cases h
  · intro n j h
    rw [parLookup] at h
    show j < 1
    split at h
    · injection h with h; omega
    · cases h
  · intro n m j h1 h2
    rw [varLookup] at h1 h2
    split at h1 <;> split at h2 <;> simp_all
    all_goals omega
  · intro n m j h1 h2
    rw [parLookup] at h1 h2
    split at h1 <;> split at h2 <;> simp_all

/-- set `A` in both cells, read it back by name; `B` untouched; an unknown name and a short vector are
    rejected with codes 1 and 3; a bulk call with a bad second entry leaves the first one applied -/
example :
    (st0.setConcentration "A" [7, 9]).toOption.bind (fun s => s.concentration "A" 1) = some 9 ∧
    (st0.setConcentration "A" [7, 9]).toOption.bind (fun s => s.concentration "B" 1) = some 0 ∧
    (st0.setConcentration "X" [7, 9]).toOption.isNone ∧
    (st0.setConcentrations [("B", [5, 6]), ("A", [1])]).2 = some (.sys catState 3) ∧
    (st0.setConcentrations [("B", [5, 6]), ("A", [1])]).1.concentration "B" 0 = some 5 := by
  decide

end StateEx

end Micm
