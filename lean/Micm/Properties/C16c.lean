/-
C16 (the premise, extracted) — `C16_schedule_independence` needs the operations the threads perform to READ the shared
solver and write only their own State.  `Gen/Effects.lean` is regenerated on every run by `tools/effects.py` from the
typed clang AST of /repo's headers: for each instantiated solver configuration (Rosenbrock / backward Euler,
standard / vector layout, separate / in-place / Mozart LU) and each entry point of `micm::Solver` it lists every
store whose target is rooted in the shared solver object (its members and the members of its sub-objects, reached
through `this` or through reference / pointer parameters, `const` or not -- so `mutable` members and `const_cast` are
seen --, through virtual dispatch to every override) or in static / global storage.

The theorems below say that, for the source as it is now, the three entry points the property names write nothing
shared, in every configuration; the steps of the interleaving model are therefore of the read-only kind
(`fun s l op => (step s l op, s)`), for which `C16_readonly_steps_embed` and `C16_schedule_independence` give:
every thread obtains, under every schedule, the results of its own calls executed serially.
A change that makes an entry point store into the solver (a `mutable` cache, a `static` scratch buffer, a member
used to restore a rejected step ...) changes the generated table and these theorems stop holding.

The three-argument `Solve` does write the solver (`solver_parameters_ = parameters`): its row is not empty, which is
known finding KF-C16-1 and the reason `C16_three_arg_solve_schedule_dependent` exists.
-/
import Micm.Gen.Effects
import Micm.Properties.C16b

namespace Micm
open Gen

/-- the entry points the property speaks of -/
def c16Named : EntryPoint → Bool
  | .getState | .calculateRateConstants | .solve2 => true
  | .solve3 => false

/-- **no store into shared storage** from `GetState`, `CalculateRateConstants`, `Solve(time_step, state)` -/
theorem C16_entry_points_write_nothing_shared :
    sharedWrites.all (fun e => !c16Named e.2.1 || e.2.2.isEmpty) = true := by
  decide

/-- the table covers both integrators, both layouts and the LU variants: 7 configurations × 3 entry points -/
theorem C16_effects_table_complete :
    (sharedWrites.filter fun e => c16Named e.2.1).length = 21 ∧
    (sharedWrites.map (·.1)).eraseDups.length = 7 := by
  decide

/-! ### from the table to schedule independence

The reading of the table is made explicit as a hypothesis: an operation of the interleaving model stands for an entry
point of a solver configuration, and *if that entry point's row is empty, the operation leaves the shared value as it
was* (`RespectsTable` — this is what the effect extraction asserts about the C++; it is the trusted step).  Under that
reading the theorems above give: a system whose operations are all calls of the three named entry points, on any
analysed configuration, is schedule independent. -/

/-- the row of the table for a configuration and an entry point (`none` if the configuration was not analysed) -/
def effectsRow (cfg : String) (e : EntryPoint) : Option (List String) :=
  (sharedWrites.find? fun r => r.1 == cfg && r.2.1 == e).map (·.2.2)

/-- operations labelled with the entry point they stand for -/
structure LabelledStep (S σ ρ ω : Type) where
  entry : ω → EntryPoint
  step : S → σ → ω → (σ × ρ) × S

/-- the reading of the table -/
def RespectsTable {S σ ρ ω : Type} (cfg : String) (ls : LabelledStep S σ ρ ω) : Prop :=
  ∀ s l op, effectsRow cfg (ls.entry op) = some [] → (ls.step s l op).2 = s

/-- every named entry point of every analysed configuration has an empty row -/
theorem C16_named_rows_empty :
    (sharedWrites.map (·.1)).eraseDups.all (fun cfg =>
      [EntryPoint.getState, .calculateRateConstants, .solve2].all fun e => effectsRow cfg e == some []) = true := by
  decide

/-- **schedule independence of the named entry points, from the extracted table**: if the operations respect the table,
    all of them are calls of `GetState` / `CalculateRateConstants` / `Solve(time_step, state)` and the configuration's rows
    for these are empty (which `C16_named_rows_empty` establishes for all seven analysed configurations), then running
    any schedule leaves the shared solver value untouched and gives every thread what the read-only model gives it -- and
    that, by `C16_schedule_independence`, is its serial result. -/
theorem C16_named_ops_schedule_independent {S σ ρ ω : Type} (cfg : String) (ls : LabelledStep S σ ρ ω)
    (hrows : ∀ e, c16Named e = true → effectsRow cfg e = some [])
    (hresp : RespectsTable cfg ls) (hnamed : ∀ op, c16Named (ls.entry op) = true)
    (s : S) (sched : List Nat) (ts : Nat → TState σ ρ ω) :
    runSchedW ls.step s sched ts = (s, runSched (fun s l op => (ls.step s l op).1) s sched ts) := by
  have hstep : ls.step = fun s l op => ((ls.step s l op).1, s) := by
    funext s l op
    have h2 : (ls.step s l op).2 = s := hresp s l op (hrows _ (hnamed op))
    exact Prod.ext rfl h2
  rw [hstep]
  exact C16_readonly_steps_embed (fun s l op => (ls.step s l op).1) s sched ts

#print axioms C16_named_rows_empty
#print axioms C16_named_ops_schedule_independent
#print axioms C16_entry_points_write_nothing_shared
#print axioms C16_effects_table_complete
end Micm
