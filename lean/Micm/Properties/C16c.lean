/-
C16 (the premise, extracted) — `C16_schedule_independence` needs the operations the threads perform to READ the shared
solver and write only their own State.  `Gen/Effects.lean` is regenerated on every run by `tools/effects.py` from the
typed clang AST of /repo's headers: for each instantiated solver configuration (Rosenbrock / backward Euler,
standard / vector layout, separate / in-place / Mozart LU) and each entry point of `micm::Solver` it lists every
store whose target is rooted in the shared solver object (its members and the members of its sub-objects, reached
through `this` or through reference / pointer parameters, `const` or not -- so `mutable` members and `const_cast` are
seen --, through virtual dispatch to every override) or in static / global storage.

The theorems below say that, for the source as it is now, the three entry points the property names write nothing
shared, in every configuration; the steps of the interleaving model are therefore of the read-only kind
(`fun s l op => (step s l op, s)`), for which `C16_readonly_steps_embed` and `C16_schedule_independence` give:
every thread obtains, under every schedule, the results of its own calls executed serially.
A change that makes an entry point store into the solver (a `mutable` cache, a `static` scratch buffer, a member
used to restore a rejected step ...) changes the generated table and these theorems stop holding.

The three-argument `Solve` does write the solver (`solver_parameters_ = parameters`): its row is not empty, which is
known finding KF-C16-1 and the reason `C16_three_arg_solve_schedule_dependent` exists.
-/
import Micm.Gen.Effects
import Micm.Properties.C16b

namespace Micm
open Gen

/-- the entry points the property speaks of -/
def c16Named : EntryPoint → Bool
  | .getState | .calculateRateConstants | .solve2 => true
  | .solve3 => false

/-- **no store into shared storage** from `GetState`, `CalculateRateConstants`, `Solve(time_step, state)` -/
theorem C16_entry_points_write_nothing_shared :
    sharedWrites.all (fun e => !c16Named e.2.1 || e.2.2.isEmpty) = true := by
  decide

/-- the table covers both integrators, both layouts and the LU variants: 7 configurations × 3 entry points -/
theorem C16_effects_table_complete :
    (sharedWrites.filter fun e => c16Named e.2.1).length = 21 ∧
    (sharedWrites.map (·.1)).eraseDups.length = 7 := by
  decide

#print axioms C16_entry_points_write_nothing_shared
#print axioms C16_effects_table_complete
end Micm
