/-
C06 at the intended interpretation — time bounds and termination of the Rosenbrock `Solve` over `ℝ` with the real
power and square root (`realOps` of `Properties/C07d.lean`): the `pow` hypothesis is discharged, and `ℝ` is
Archimedean, so for every `h_min > 0` there is a bound on the number of attempts of a solve.
-/
import Micm.Properties.C07d
import Micm.Properties.C06d

namespace Micm
set_option linter.unusedSectionVars false

variable (cs : Consts ℝ) (s : SolverCfg ℝ) (p : RosParams ℝ) (kc : Mat ℝ) (atol : Array ℝ) (rtol T : ℝ)

/-- `0 ≤ final_time ≤ time_step` over `ℝ`, no hypothesis on `pow` -/
theorem C06_final_time_bounds_real (lp : LegalParams p) (hs1 : p.safety < 1) (hord : 0 < p.order)
    (hro : 0 ≤ p.roundOff) (hT : 0 ≤ T) (Y : Mat ℝ) (sc : Scratch ℝ) (fuel : Nat) :
    0 ≤ (rosSolve realOps cs s p kc atol rtol T Y sc fuel).finalTime ∧
    (rosSolve realOps cs s p kc atol rtol T Y sc fuel).finalTime ≤ T :=
  let h := C06_final_time_bounds cs s p kc atol rtol T Y sc fuel C07_realOps_ordered lp hs1
    (C07_real_pow_hypothesis p.order hord) hro hT
  ⟨h.1, h.2.1⟩

/-- **the Rosenbrock `Solve` terminates over `ℝ` for every `h_min > 0`**: there is an `F` (depending only on the
    parameters and the time step) such that no solve makes more than `F` attempts and, given more fuel than `F`,
    the model never reports `outOfFuel` -/
theorem C06_ros_terminates_real (lp : LegalParams p) (hs1 : p.safety < 1) (hord : 0 < p.order)
    (hro : 0 ≤ p.roundOff) (hT : 0 ≤ T) (hmin : 0 < p.hmin) :
    ∃ F : Nat, ∀ (Y : Mat ℝ) (sc : Scratch ℝ) (fuel : Nat), F < fuel →
      (rosSolve realOps cs s p kc atol rtol T Y sc fuel).status ≠ .outOfFuel ∧
      (rosSolve realOps cs s p kc atol rtol T Y sc fuel).stats.numberOfSteps ≤ F :=
  C06_ros_terminates_archimedean cs s p kc atol rtol T C07_realOps_ordered lp hs1
    (C07_real_pow_hypothesis p.order hord) hro hT hmin

end Micm
