/-
C16 (the three-argument `Solve` overload) — why the premise of `C16_schedule_independence` matters, and what the
documented overload `Solver::Solve(time_step, state, parameters)` does to it.

`C16_schedule_independence` is about steps that only READ the shared solver value.  The three-argument overload also
WRITES it (`solver_parameters_ = parameters`, solver.hpp).  In the model below a step may replace the shared value;
then the outcome of a thread does depend on the schedule, already for two threads and two operations.  This is the
model-level counterpart of known finding KF-C16-1 (ThreadSanitizer: data race between that overload and `GetState` /
another `Solve` on the shared solver).  The two-argument `Solve`, `GetState` and `CalculateRateConstants` are steps
of the read-only kind, for which the theorem of `Properties/C16.lean` holds.
-/
import Micm.Properties.C16

namespace Micm

/-- a schedule run in which a step may also replace the shared value (what the three-argument `Solve` does with the
    stored solver parameters) -/
def runSchedW {S σ ρ ω : Type} (step : S → σ → ω → (σ × ρ) × S) :
    S → List Nat → (Nat → TState σ ρ ω) → S × (Nat → TState σ ρ ω)
  | s, [], ts => (s, ts)
  | s, i :: is, ts =>
    match (ts i).pending with
    | [] => runSchedW step s is ts
    | op :: ops =>
      let r := step s (ts i).loc op
      runSchedW step r.2 is (fun j => if j = i then ⟨r.1.1, ops, r.1.2 :: (ts i).outs⟩ else ts j)

/-- a miniature of the situation: the shared value is "the stored parameters" (a number of stages); operation `some k`
    is `Solve(dt, state, parameters_with_k_stages)` (stores `k`, reports `k`), operation `none` is the two-argument
    `Solve` / `GetState` (reads the stored value and reports it) -/
def miniStep (stored : Nat) (loc : Nat) : Option Nat → (Nat × Nat) × Nat
  | some k => ((loc, k), k)
  | none => ((loc, stored), stored)

/-- **schedule dependence**: thread 0 calls the two-argument `Solve` once, thread 1 calls the three-argument overload
    with other parameters once.  What thread 0 observes depends on who runs first — so no theorem of the form
    "every thread obtains the result of the same calls executed serially" can hold for this overload. -/
theorem C16_three_arg_solve_schedule_dependent :
    ((runSchedW miniStep 3 [0, 1] (fun i => if i = 0 then ⟨0, [none], []⟩ else ⟨0, [some 6], []⟩)).2 0).outs = [3] ∧
    ((runSchedW miniStep 3 [1, 0] (fun i => if i = 0 then ⟨0, [none], []⟩ else ⟨0, [some 6], []⟩)).2 0).outs = [6] := by
  decide

/-- whereas steps that leave the shared value alone are schedule independent in this richer model too: if no step
    changes the shared value, `runSchedW` is `runSched` -/
theorem C16_readonly_steps_embed {S σ ρ ω : Type} (step : S → σ → ω → σ × ρ) (s : S) (sched : List Nat)
    (ts : Nat → TState σ ρ ω) :
    runSchedW (fun s l op => (step s l op, s)) s sched ts = (s, runSched step s sched ts) := by
  induction sched generalizing ts with
  | nil => rfl
  | cons i is ih =>
    simp only [runSchedW, runSched]
    cases hp : (ts i).pending with
    | nil =>
      rw [ih]
      congr 1
      have : (fun j => if j = i then tstep step s (ts j) else ts j) = ts := by
        funext j
        by_cases h : j = i
        · subst h; simp [tstep, hp]
        · simp [h]
      rw [this]
    | cons op ops =>
      simp only []
      rw [ih]
      congr 1
      congr 1
      funext j
      by_cases h : j = i
      · subst h; simp [tstep, hp]
      · simp [h]

end Micm
