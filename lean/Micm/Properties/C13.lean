/-
C13 — grid cells are independent; any cell count works (forcing kernels).

"forcing … of one grid cell depend only on that cell's own inputs: changing or permuting other
cells never changes them bit-wise … for every N and every vector group length, including N smaller
than or not divisible by the group length."

Theorems about the flat-storage kernels of `Micm/Model/FlatKernels.lean`
(`PSTables.addForcingFlatRow`: `AddForcingTerms` for the row-major `Matrix`;
 `PSTables.addForcingFlatVec L`: `AddForcingTerms` for `VectorMatrix<L>`, which runs all `L` lanes of
 every group — padding lanes included — with an `L`-lane `rate` buffer;
 `PSTables.addForcingFlat L`: both behind one entry point, `L = 0` meaning row-major)
and the per-cell kernel `PSTables.addForcingCell` of `Micm/Model/ProcessSet.lean` (the one C01's
mass-action theorems speak of).  `DenseShape.addr` is the container's address map (C19),
`flatRow s data c` is logical row `c` of a flat dense matrix.

Everything is parametric in the element type: only `[OfNat α 0] [Add α] [Sub α] [Mul α]`, no
algebraic law is used, so every statement holds verbatim for `Float` (bit for bit) — see the
`Float` instance at the end.

Hypotheses of the lane theorem:
 * `F.size = sY.size`: the forcing storage has the container's size (so cell `c`'s writes land; the
   model drops out-of-range writes);
 * the species ids of the tables are `< nSpecies` (an out-of-range id would address the next
   group's / next cell's slots);
 * `min t.nReact.length t.nProd.length ≤ nRxn`: the kernels walk
   `min (number_of_reactants_.size()) (number_of_products_.size())` reactions (in the C++ both
   vectors have one entry per process, and `rate_constants` has one column per process, i.e.
   `t.nReact.length = t.nProd.length = nRxn`); a reaction index `≥ nRxn` would read the rate
   constant of another id/cell.
 No hypothesis on `K.size`, `Y.size` is needed for the equalities (reads are total in the model);
 `C13_bounds` shows separately that with `K.size = sK.size`, `Y.size = sY.size` every address the
 kernels form is inside its storage.

Proofs: `Micm/Lemmas/Lanes.lean`, with the address facts of C19 (`Micm/Lemmas/DenseAddr.lean`).
-/
import Micm.Lemmas.Lanes
namespace Micm

section
variable {α : Type} [OfNat α 0] [Add α] [Sub α] [Mul α]

/-- **Lane theorem.**  For both layouts (`L = 0`: row-major; every `L ≥ 1`: groups of `L` lanes),
    every cell count `nCells` (also `nCells < L`, `nCells % L ≠ 0`) and every real cell
    `c < nCells`: logical row `c` of the flat kernel's result is the per-cell kernel applied to
    logical row `c` of the rate constants, of the state and of the incoming forcing. -/
theorem C13_forcing_flat_eq_cell (t : PSTables α) (L nCells nRxn nSpecies : Nat) (K Y F : Array α)
    (hF : F.size = (DenseShape.mk nCells nSpecies L).size)
    (hr : ∀ i ∈ t.reactIds, i < nSpecies) (hp : ∀ i ∈ t.prodIds, i < nSpecies)
    (hlen : min t.nReact.length t.nProd.length ≤ nRxn) (c : Nat) (hc : c < nCells) :
    flatRow ⟨nCells, nSpecies, L⟩ (t.addForcingFlat L nCells nRxn nSpecies K Y F) c
      = t.addForcingCell (flatRow ⟨nCells, nRxn, L⟩ K c) (flatRow ⟨nCells, nSpecies, L⟩ Y c)
          (flatRow ⟨nCells, nSpecies, L⟩ F c) := by
  unfold PSTables.addForcingFlat
  by_cases hL : L = 0
  · subst hL
    rw [if_pos rfl]
    exact addForcingFlatRow_cell t nCells nRxn nSpecies K Y F hF hr hp hlen c hc
  · rw [if_neg hL]
    exact addForcingFlatVec_cell t L nCells nRxn nSpecies hL K Y F hF hr hp hlen c hc

/-- The same with the source's shape invariant `t.nReact.length = t.nProd.length = nRxn`
    (one entry per process in both count vectors, one rate-constant column per process). -/
theorem C13_forcing_flat_eq_cell' (t : PSTables α) (L nCells nRxn nSpecies : Nat) (K Y F : Array α)
    (hF : F.size = (DenseShape.mk nCells nSpecies L).size)
    (hr : ∀ i ∈ t.reactIds, i < nSpecies) (hp : ∀ i ∈ t.prodIds, i < nSpecies)
    (hnr : t.nReact.length = nRxn) (hnp : t.nProd.length = nRxn) (c : Nat) (hc : c < nCells) :
    flatRow ⟨nCells, nSpecies, L⟩ (t.addForcingFlat L nCells nRxn nSpecies K Y F) c
      = t.addForcingCell (flatRow ⟨nCells, nRxn, L⟩ K c) (flatRow ⟨nCells, nSpecies, L⟩ Y c)
          (flatRow ⟨nCells, nSpecies, L⟩ F c) :=
  C13_forcing_flat_eq_cell t L nCells nRxn nSpecies K Y F hF hr hp (by omega) c hc

/-- **Cell independence.**  Two runs — possibly with different cell counts `nCells`, `nCells'`,
    different positions `c`, `c'` of the cell, and even different layouts `L`, `L'` — whose inputs
    agree on the logical row of the cell (rate constants, state, incoming forcing) agree on that
    row of the result.  Hence the other cells' contents, their number, their order (take `c' = σ c`
    for a permutation `σ`), the padding lanes and the group length never influence a cell. -/
theorem C13_cell_independence (t : PSTables α) (nRxn nSpecies : Nat)
    (L nCells : Nat) (K Y F : Array α) (L' nCells' : Nat) (K' Y' F' : Array α)
    (hF : F.size = (DenseShape.mk nCells nSpecies L).size)
    (hF' : F'.size = (DenseShape.mk nCells' nSpecies L').size)
    (hr : ∀ i ∈ t.reactIds, i < nSpecies) (hp : ∀ i ∈ t.prodIds, i < nSpecies)
    (hlen : min t.nReact.length t.nProd.length ≤ nRxn)
    (c c' : Nat) (hc : c < nCells) (hc' : c' < nCells')
    (hKrow : flatRow ⟨nCells, nRxn, L⟩ K c = flatRow ⟨nCells', nRxn, L'⟩ K' c')
    (hYrow : flatRow ⟨nCells, nSpecies, L⟩ Y c = flatRow ⟨nCells', nSpecies, L'⟩ Y' c')
    (hFrow : flatRow ⟨nCells, nSpecies, L⟩ F c = flatRow ⟨nCells', nSpecies, L'⟩ F' c') :
    flatRow ⟨nCells, nSpecies, L⟩ (t.addForcingFlat L nCells nRxn nSpecies K Y F) c
      = flatRow ⟨nCells', nSpecies, L'⟩ (t.addForcingFlat L' nCells' nRxn nSpecies K' Y' F') c' := by
  rw [C13_forcing_flat_eq_cell t L nCells nRxn nSpecies K Y F hF hr hp hlen c hc,
    C13_forcing_flat_eq_cell t L' nCells' nRxn nSpecies K' Y' F' hF' hr hp hlen c' hc',
    hKrow, hYrow, hFrow]

/-- Element form of the lane theorem: the slot of (cell `c`, species `j`) after the flat kernel
    holds entry `j` of the per-cell result. -/
theorem C13_forcing_flat_slot (t : PSTables α) (L nCells nRxn nSpecies : Nat) (K Y F : Array α)
    (hF : F.size = (DenseShape.mk nCells nSpecies L).size)
    (hr : ∀ i ∈ t.reactIds, i < nSpecies) (hp : ∀ i ∈ t.prodIds, i < nSpecies)
    (hlen : min t.nReact.length t.nProd.length ≤ nRxn) (c j : Nat) (hc : c < nCells)
    (hj : j < nSpecies) :
    rd (t.addForcingFlat L nCells nRxn nSpecies K Y F) ((DenseShape.mk nCells nSpecies L).addr c j)
      = rd (t.addForcingCell (flatRow ⟨nCells, nRxn, L⟩ K c) (flatRow ⟨nCells, nSpecies, L⟩ Y c)
          (flatRow ⟨nCells, nSpecies, L⟩ F c)) j := by
  rw [← C13_forcing_flat_eq_cell t L nCells nRxn nSpecies K Y F hF hr hp hlen c hc,
    rd_flatRow ⟨nCells, nSpecies, L⟩ _ c j hj]

/-- **Padding / frame.**  The flat kernels keep the storage size (any tables, any inputs).
    What is *not* claimed: that padding lanes are left alone — the vector kernel does write them
    (with values computed from the padding inputs, see the `Int` instance below); by
    `C13_cell_independence` those values never reach a real cell. -/
theorem C13_padding_frame (t : PSTables α) (L nCells nRxn nSpecies : Nat) (K Y F : Array α) :
    (t.addForcingFlat L nCells nRxn nSpecies K Y F).size = F.size :=
  addForcingFlat_size t L nCells nRxn nSpecies K Y F

end

/-- **Bounds.**  Every address the flat kernels form is inside the container's storage, for every
    cell count (`nCells = 0`, `nCells < L`, `nCells % L ≠ 0` included):
    row-major, cell `c < nCells`: state/forcing `c * nSpecies + id`, rate constant `c * nRxn + q`;
    grouped, group `g < ⌈nCells / L⌉`, lane `l < L` (the `rate` buffer has exactly `L` entries):
    state/forcing `g * (L * nSpecies) + id * L + l`, rate constant `g * (L * nRxn) + q * L + l`;
    for ids `id < nSpecies` (hypothesis of the lane theorem; `C01_bounds` for built tables) and
    reaction indices `q < nRxn`.  (A statement about the address expressions of the kernels; the
    model's reads and writes themselves are total.) -/
theorem C13_bounds (L nCells nRxn nSpecies : Nat) :
    (∀ c i, c < nCells → i < nSpecies → c * nSpecies + i < (DenseShape.mk nCells nSpecies 0).size) ∧
    (∀ c q, c < nCells → q < nRxn → c * nRxn + q < (DenseShape.mk nCells nRxn 0).size) ∧
    (L ≠ 0 → ∀ g i l, g < (nCells + L - 1) / L → i < nSpecies → l < L →
      g * (L * nSpecies) + i * L + l < (DenseShape.mk nCells nSpecies L).size) ∧
    (L ≠ 0 → ∀ g q l, g < (nCells + L - 1) / L → q < nRxn → l < L →
      g * (L * nRxn) + q * L + l < (DenseShape.mk nCells nRxn L).size) :=
  ⟨fun _ _ hc hi => row_addr_lt hc hi, fun _ _ hc hq => row_addr_lt hc hq,
    fun hL _ _ _ hg hi hl => vec_addr_lt hL hg hi hl, fun hL _ _ _ hg hq hl => vec_addr_lt hL hg hq hl⟩

/-- The kernel's grouped address of a real cell is the container's address (C19) of that element:
    group `c / L`, lane `c % L`. -/
theorem C13_kernel_addr (nCells n L c j : Nat) (hL : L ≠ 0) :
    (DenseShape.mk nCells n L).addr c j = c / L * (L * n) + j * L + c % L :=
  congrFun (addr_vec nCells n L c hL) j

/-! ### instances: `L = 3`, `nCells = 4` (one full group + a partial group with two padding lanes)

`s0 → 0.8 s1 + 0.2 s2 ;  s0 + s1 → s2 ;  s1 + s1 + s0 → s1`  (the tables of C01's example). -/
namespace C13Ex

/-- at `Float`: the lane theorem applies as it stands -/
def exT : PSTables Float :=
  { nReact := [1, 2, 3], reactIds := [0, 0, 1, 1, 1, 0],
    nProd := [2, 1, 1], prodIds := [1, 2, 2, 1], yields := [0.8, 0.2, 1.0, 1.0] }

example : (DenseShape.mk 4 3 3).size = 18 := by decide

example (K Y F : Array Float) (hF : F.size = 18) (c : Nat) (hc : c < 4) :
    flatRow ⟨4, 3, 3⟩ (exT.addForcingFlat 3 4 3 3 K Y F) c
      = exT.addForcingCell (flatRow ⟨4, 3, 3⟩ K c) (flatRow ⟨4, 3, 3⟩ Y c) (flatRow ⟨4, 3, 3⟩ F c) :=
  C13_forcing_flat_eq_cell exT 3 4 3 3 K Y F (by rw [hF]; decide) (by decide) (by decide) (by decide) c hc

/-- grouped `L = 3` with 4 cells against row-major with 2 cells: cell 3 of the first run and
    cell 0 of the second get the same forcing when their rows agree -/
example (K Y F K' Y' F' : Array Float) (hF : F.size = 18) (hF' : F'.size = 6)
    (hK : flatRow ⟨4, 3, 3⟩ K 3 = flatRow ⟨2, 3, 0⟩ K' 0)
    (hY : flatRow ⟨4, 3, 3⟩ Y 3 = flatRow ⟨2, 3, 0⟩ Y' 0)
    (hFr : flatRow ⟨4, 3, 3⟩ F 3 = flatRow ⟨2, 3, 0⟩ F' 0) :
    flatRow ⟨4, 3, 3⟩ (exT.addForcingFlat 3 4 3 3 K Y F) 3
      = flatRow ⟨2, 3, 0⟩ (exT.addForcingFlat 0 2 3 3 K' Y' F') 0 :=
  C13_cell_independence exT 3 3 3 4 K Y F 0 2 K' Y' F' (by rw [hF]; decide) (by rw [hF']; decide)
    (by decide) (by decide) (by decide) 3 0 (by decide) (by decide) hK hY hFr

/-- the same mechanism at `Int` (integer yields `4, 1, 1, 1`), evaluated: storage of 2 groups x 3
    species x 3 lanes; cells 0..3 are real, lanes 1, 2 of group 1 are padding -/
def exTI : PSTables Int :=
  { nReact := [1, 2, 3], reactIds := [0, 0, 1, 1, 1, 0],
    nProd := [2, 1, 1], prodIds := [1, 2, 2, 1], yields := [4, 1, 1, 1] }

/-- rate constants: cell `c` has `k = (1, 2, 1)`, padding lanes hold `7` -/
def exK : Array Int := #[1, 1, 1, 2, 2, 2, 1, 1, 1,   1, 7, 7, 2, 7, 7, 1, 7, 7]
/-- state: cell `c` has `y = (c + 1, 2, 1)`, padding lanes hold `9` -/
def exY : Array Int := #[1, 2, 3, 2, 2, 2, 1, 1, 1,   4, 9, 9, 2, 9, 9, 1, 9, 9]
def exF : Array Int := Array.replicate 18 0

/-- the padding lanes (slots 10, 11, 13, 14, 16, 17) are written, with values computed from the
    padding inputs -/
example : exTI.addForcingFlat 3 4 3 3 exK exY exF
    = #[-9, -18, -27, -4, -8, -12, 5, 10, 15,   -36, -5733, -5733, -16, -5418, -5418, 20, 630, 630] := by
  decide +kernel

/-- the real cell in the partial group: both sides of the lane theorem, evaluated -/
example : flatRow ⟨4, 3, 3⟩ (exTI.addForcingFlat 3 4 3 3 exK exY exF) 3 = #[-36, -16, 20] := by
  decide +kernel
example : exTI.addForcingCell (flatRow ⟨4, 3, 3⟩ exK 3) (flatRow ⟨4, 3, 3⟩ exY 3)
    (flatRow ⟨4, 3, 3⟩ exF 3) = #[-36, -16, 20] := by
  decide +kernel

end C13Ex

end Micm

#print axioms Micm.C13_forcing_flat_eq_cell
#print axioms Micm.C13_forcing_flat_eq_cell'
#print axioms Micm.C13_cell_independence
#print axioms Micm.C13_forcing_flat_slot
#print axioms Micm.C13_padding_frame
#print axioms Micm.C13_bounds
#print axioms Micm.C13_kernel_addr
