/-
  C11 — a State can be reused indefinitely: the contents of the scratch storage never matter.

  All statements are about the model definitions `rosStep`, `rosLoop`, `rosSolve`, `beStep`,
  `beSolve` themselves, for an ARBITRARY carrier `α` (dataflow only, no arithmetic law): they hold
  for `Float`.

  `Scratch` = `jacobian_`, `lower_matrix_`, `upper_matrix_`, `Ynew`/`Yn`, `initial_forcing`/`forcing`,
  `K[0..stages)`, `Yerror`.  `ScratchShapeEq sc sc'` : same outer sizes and same row sizes for each of
  them (and for each `K[i]`).  Two runs are compared by writing the second state as
  `{ r with sc := sc' }`; "equal in everything except the scratch" is then literally an equation.

  LU hypothesis.  The in-place variants never touch `lower_matrix_`/`upper_matrix_`; for them nothing
  is assumed (`…_inplace`).  For the separate-`L`/`U` variants the kernels must write every `L`/`U`
  slot before reading it.  This is the explicit hypothesis
      `LUOverwritesFor s sc.lower sc.upper`
  ("for every cell, `doolittleCell`/`mozartCell` on arrays of these sizes gives a result independent of
  their prior contents"; as *array* equality, any carrier).  `LUInv s sc` packages it as
  "`inPlace = false → LUOverwritesFor …`" so that one theorem covers all four variants.
  The hypothesis is discharged for any CONCRETE configuration and ANY carrier by the decidable
  dataflow check `luCheck` (`C11_LUOverwrites_of_check`, Lemmas/ScratchLU.lean): see the examples at the
  end.  (`C03_prior_contents` proves the corresponding fact for every pattern triple satisfying `LUSetup`,
  but over a field and for the logical views.)

  `C11_history*`: for a list of solves on one State, each solve's result equals the result of the
  same call on a fresh zero-filled scratch *of the shape the scratch has at that point*
  (`zeroScratch`).  That the shape itself never changes is not proved here (it needs well-shapedness
  of the inputs; not needed for any statement below).
-/
import Micm.Lemmas.Scratch
import Micm.Lemmas.ScratchLU
namespace Micm
set_option linter.unusedSectionVars false

section Ros
variable {α : Type} [OfNat α 0] [OfNat α 1] [Add α] [Sub α] [Mul α] [Div α]
variable (o : Ops α) (cs : Consts α) (s : SolverCfg α) (p : RosParams α) (kc : Mat α)
    (atol : Array α) (rtol : α) (timeStep hm : α)

/-- **One iteration of the Rosenbrock loop, all LU variants.**  Two states `r`, `r'` that agree in
    everything but the scratch, at a step start, with shape-equal scratch (and `r.sc` fit for the
    solver, `LUInv`): `rosStep` yields states equal in `Y, ctl, stats, status, inStep, lastAlpha` and
    in the ghost trace; the scratches are again shape-equal, inside a step they even agree on the
    initial forcing and the Jacobian, and `LUInv` is preserved. -/
theorem C11_rosStep_scratch_indep (r r' : RState α)
    (hY : r'.Y = r.Y) (hctl : r'.ctl = r.ctl) (hstats : r'.stats = r.stats) (hstatus : r'.status = r.status)
    (hin : r'.inStep = r.inStep) (hla : r'.lastAlpha = r.lastAlpha) (htr : r'.trace = r.trace)
    (hstart : r.inStep = false) (hsh : ScratchShapeEq r.sc r'.sc) (hlu : LUInv s r.sc) :
    (rosStep o cs s p kc atol rtol timeStep hm r').Y = (rosStep o cs s p kc atol rtol timeStep hm r).Y ∧
    (rosStep o cs s p kc atol rtol timeStep hm r').ctl = (rosStep o cs s p kc atol rtol timeStep hm r).ctl ∧
    (rosStep o cs s p kc atol rtol timeStep hm r').stats = (rosStep o cs s p kc atol rtol timeStep hm r).stats ∧
    (rosStep o cs s p kc atol rtol timeStep hm r').status = (rosStep o cs s p kc atol rtol timeStep hm r).status ∧
    (rosStep o cs s p kc atol rtol timeStep hm r').inStep = (rosStep o cs s p kc atol rtol timeStep hm r).inStep ∧
    (rosStep o cs s p kc atol rtol timeStep hm r').lastAlpha =
      (rosStep o cs s p kc atol rtol timeStep hm r).lastAlpha ∧
    (rosStep o cs s p kc atol rtol timeStep hm r').trace = (rosStep o cs s p kc atol rtol timeStep hm r).trace ∧
    ScratchShapeEq (rosStep o cs s p kc atol rtol timeStep hm r).sc
      (rosStep o cs s p kc atol rtol timeStep hm r').sc ∧
    ((rosStep o cs s p kc atol rtol timeStep hm r).inStep = true →
      (rosStep o cs s p kc atol rtol timeStep hm r).sc.f0 = (rosStep o cs s p kc atol rtol timeStep hm r').sc.f0 ∧
      (rosStep o cs s p kc atol rtol timeStep hm r).sc.jac = (rosStep o cs s p kc atol rtol timeStep hm r').sc.jac) ∧
    LUInv s (rosStep o cs s p kc atol rtol timeStep hm r).sc := by
  have e := RState.eq_with_sc hY hctl hstats hstatus hin hla htr
  obtain ⟨sc2, e2, hrel, hlu2⟩ := rosStep_scratch o cs s p kc atol rtol timeStep hm r r'.sc
    ⟨hsh, fun hc => by rw [hstart] at hc; cases hc⟩ hlu
  rw [e, e2]
  exact ⟨rfl, rfl, rfl, rfl, rfl, rfl, rfl, hrel.1, hrel.2, hlu2⟩

/-- the same in relational form and at ANY point of the loop: inside a step the two scratches must
    also agree on the objects computed by the step prologue (initial forcing, Jacobian) — the form
    that iterates (`rosLoop_scratch`) -/
theorem C11_rosStep_scratch_indep_rel (r : RState α) (sc' : Scratch α)
    (h : ScratchRel r.inStep r.sc sc') (hlu : LUInv s r.sc) :
    ∃ sc'', rosStep o cs s p kc atol rtol timeStep hm { r with sc := sc' } =
        { rosStep o cs s p kc atol rtol timeStep hm r with sc := sc'' } ∧
      ScratchRel (rosStep o cs s p kc atol rtol timeStep hm r).inStep
        (rosStep o cs s p kc atol rtol timeStep hm r).sc sc'' ∧
      LUInv s (rosStep o cs s p kc atol rtol timeStep hm r).sc :=
  rosStep_scratch o cs s p kc atol rtol timeStep hm r sc' h hlu

/-- **In-place variants** (`DoolittleInPlace`, `MozartInPlace`): no LU hypothesis at all. -/
theorem C11_rosStep_scratch_indep_inplace (hk : s.la.kind.inPlace = true) (r : RState α) (sc' : Scratch α)
    (hstart : r.inStep = false) (hsh : ScratchShapeEq r.sc sc') :
    ∃ sc'', rosStep o cs s p kc atol rtol timeStep hm { r with sc := sc' } =
        { rosStep o cs s p kc atol rtol timeStep hm r with sc := sc'' } ∧
      ScratchShapeEq (rosStep o cs s p kc atol rtol timeStep hm r).sc sc'' := by
  obtain ⟨sc2, e2, hrel, _⟩ := rosStep_scratch o cs s p kc atol rtol timeStep hm r sc'
    ⟨hsh, fun hc => by rw [hstart] at hc; cases hc⟩ (LUInv_inplace s hk r.sc)
  exact ⟨sc2, e2, hrel.1⟩

/-- **Separate-`L`/`U` variants** (`Doolittle`, `Mozart`) from the explicit LU dataflow hypothesis
    `LUOverwritesFor`: on arrays of the sizes of the cells of `lower_matrix_`/`upper_matrix_`, the LU
    kernel's result is independent of their prior contents. -/
theorem C11_rosStep_scratch_indep_separate (r : RState α) (sc' : Scratch α)
    (hstart : r.inStep = false) (hsh : ScratchShapeEq r.sc sc')
    (hlu : LUOverwritesFor s r.sc.lower r.sc.upper) :
    ∃ sc'', rosStep o cs s p kc atol rtol timeStep hm { r with sc := sc' } =
        { rosStep o cs s p kc atol rtol timeStep hm r with sc := sc'' } ∧
      ScratchShapeEq (rosStep o cs s p kc atol rtol timeStep hm r).sc sc'' ∧
      LUOverwritesFor s (rosStep o cs s p kc atol rtol timeStep hm r).sc.lower
        (rosStep o cs s p kc atol rtol timeStep hm r).sc.upper := by
  cases hk : s.la.kind.inPlace
  · obtain ⟨sc2, e2, hrel, hlu2⟩ := rosStep_scratch o cs s p kc atol rtol timeStep hm r sc'
      ⟨hsh, fun hc => by rw [hstart] at hc; cases hc⟩ (fun _ => hlu)
    exact ⟨sc2, e2, hrel.1, hlu2 hk⟩
  · -- for an in-place solver `rosStep` leaves `lower`/`upper` untouched
    obtain ⟨sc2, e2, hrel, _⟩ := rosStep_scratch o cs s p kc atol rtol timeStep hm r sc'
      ⟨hsh, fun hc => by rw [hstart] at hc; cases hc⟩ (fun _ => hlu)
    refine ⟨sc2, e2, hrel.1, ?_⟩
    rw [(rosStep_lu_inplace o cs s p kc atol rtol timeStep hm hk r).1,
      (rosStep_lu_inplace o cs s p kc atol rtol timeStep hm hk r).2]
    exact hlu

/-- **The whole solve.**  Same inputs, shape-equal initial scratch ⇒ same
    `status, finalTime, stats, Y, trace`; the returned scratches are again shape-equal and the
    returned scratch is again fit for the solver (so the statement can be iterated). -/
theorem C11_rosSolve_scratch_indep (Y : Mat α) (sc sc' : Scratch α) (fuel : Nat)
    (hsh : ScratchShapeEq sc sc') (hlu : LUInv s sc) :
    (rosSolve o cs s p kc atol rtol timeStep Y sc' fuel).status =
      (rosSolve o cs s p kc atol rtol timeStep Y sc fuel).status ∧
    (rosSolve o cs s p kc atol rtol timeStep Y sc' fuel).finalTime =
      (rosSolve o cs s p kc atol rtol timeStep Y sc fuel).finalTime ∧
    (rosSolve o cs s p kc atol rtol timeStep Y sc' fuel).stats =
      (rosSolve o cs s p kc atol rtol timeStep Y sc fuel).stats ∧
    (rosSolve o cs s p kc atol rtol timeStep Y sc' fuel).Y =
      (rosSolve o cs s p kc atol rtol timeStep Y sc fuel).Y ∧
    (rosSolve o cs s p kc atol rtol timeStep Y sc' fuel).trace =
      (rosSolve o cs s p kc atol rtol timeStep Y sc fuel).trace ∧
    ScratchShapeEq (rosSolve o cs s p kc atol rtol timeStep Y sc fuel).sc
      (rosSolve o cs s p kc atol rtol timeStep Y sc' fuel).sc ∧
    LUInv s (rosSolve o cs s p kc atol rtol timeStep Y sc fuel).sc :=
  rosSolve_scratch o cs s p kc atol rtol timeStep Y sc sc' fuel hsh hlu

/-- in-place variants: no LU hypothesis -/
theorem C11_rosSolve_scratch_indep_inplace (hk : s.la.kind.inPlace = true) (Y : Mat α)
    (sc sc' : Scratch α) (fuel : Nat) (hsh : ScratchShapeEq sc sc') :
    (rosSolve o cs s p kc atol rtol timeStep Y sc' fuel).core =
      (rosSolve o cs s p kc atol rtol timeStep Y sc fuel).core ∧
    ScratchShapeEq (rosSolve o cs s p kc atol rtol timeStep Y sc fuel).sc
      (rosSolve o cs s p kc atol rtol timeStep Y sc' fuel).sc := by
  obtain ⟨h1, h2, h3, h4, h5, h6, _⟩ :=
    rosSolve_scratch o cs s p kc atol rtol timeStep Y sc sc' fuel hsh (LUInv_inplace s hk sc)
  exact ⟨by simp only [SolveResult.core, h1, h2, h3, h4, h5], h6⟩

/-- **Histories.**  Any list of Rosenbrock solves on one State (the scratch left by each solve —
    whatever its outcome: converged, rejected steps, NaN, max steps, out of fuel — feeds the next):
    the `k`-th result equals the result of the same call on a fresh zero-filled scratch of the
    same shape.  `rosHistory` pairs each result with the scratch the solve started from. -/
theorem C11_history (sc0 : Scratch α) (hlu : LUInv s sc0) (ins : List (SolveIn α)) :
    ∀ e ∈ (rosHistory o cs s sc0 ins).zip ins,
      ScratchShapeEq e.1.1 (zeroScratch e.1.1) ∧
      e.1.2.core =
        (rosSolve o cs s e.2.p e.2.kc e.2.atol e.2.rtol e.2.timeStep e.2.Y (zeroScratch e.1.1) e.2.fuel).core :=
  rosHistory_fresh o cs s sc0 hlu ins

end Ros

section BE
variable {α : Type} [OfNat α 0] [OfNat α 1] [OfNat α 2] [Add α] [Sub α] [Mul α] [Div α]
variable (o : Ops α) (s : SolverCfg α) (p : BEParams α) (kc : Mat α) (atol : Array α) (rtol : α)
    (timeStep : α)

/-- one Newton iteration of backward Euler: every scratch object it reads (`forcing`, `jacobian`)
    is `Fill(0)`-ed first, so shape-equal scratch suffices at every iteration -/
theorem C11_beStep_scratch_indep (r : BEState α) (sc' : Scratch α) (hsh : ScratchShapeEq r.sc sc')
    (hlu : LUInv s r.sc) :
    ∃ sc'', beStep o s p kc atol rtol timeStep { r with sc := sc' } =
        { beStep o s p kc atol rtol timeStep r with sc := sc'' } ∧
      ScratchShapeEq (beStep o s p kc atol rtol timeStep r).sc sc'' ∧
      LUInv s (beStep o s p kc atol rtol timeStep r).sc :=
  beStep_scratch o s p kc atol rtol timeStep r sc' hsh hlu

theorem C11_beSolve_scratch_indep (Y : Mat α) (sc sc' : Scratch α) (fuel : Nat)
    (hsh : ScratchShapeEq sc sc') (hlu : LUInv s sc) :
    (beSolve o s p kc atol rtol timeStep Y sc' fuel).core = (beSolve o s p kc atol rtol timeStep Y sc fuel).core ∧
    ScratchShapeEq (beSolve o s p kc atol rtol timeStep Y sc fuel).sc
      (beSolve o s p kc atol rtol timeStep Y sc' fuel).sc ∧
    LUInv s (beSolve o s p kc atol rtol timeStep Y sc fuel).sc := by
  obtain ⟨h1, h2, h3, h4, h5, h6, h7⟩ := beSolve_scratch o s p kc atol rtol timeStep Y sc sc' fuel hsh hlu
  exact ⟨by simp only [SolveResult.core, h1, h2, h3, h4, h5], h6, h7⟩

theorem C11_history_be (sc0 : Scratch α) (hlu : LUInv s sc0) (ins : List (BESolveIn α)) :
    ∀ e ∈ (beHistory o s sc0 ins).zip ins,
      ScratchShapeEq e.1.1 (zeroScratch e.1.1) ∧
      e.1.2.core =
        (beSolve o s e.2.p e.2.kc e.2.atol e.2.rtol e.2.timeStep e.2.Y (zeroScratch e.1.1) e.2.fuel).core :=
  beHistory_fresh o s sc0 hlu ins

end BE

/-! ### discharging the LU hypothesis -/

section Check
variable {α : Type} [OfNat α 0] [OfNat α 1] [Add α] [Sub α] [Mul α] [Div α]

/-- the decidable dataflow check implies the LU hypothesis, for any carrier -/
theorem C11_LUOverwrites_of_check (s : SolverCfg α) (nL nU : Nat) (h : luCheck s.la nL nU = true) :
    LUOverwrites s nL nU := luCheck_sound s nL nU h

/-- for the in-place variants every scratch is fit for the solver -/
theorem C11_LUInv_inplace (s : SolverCfg α) (hk : s.la.kind.inPlace = true) (sc : Scratch α) : LUInv s sc :=
  LUInv_inplace s hk sc

/-- for the separate variants: the check, plus all `L`/`U` cells of the checked sizes -/
theorem C11_LUInv_of_check (s : SolverCfg α) (sc : Scratch α) (nL nU : Nat)
    (h : luCheck s.la nL nU = true) (hsz : sc.lower.size = sc.upper.size)
    (hL : ∀ c, c < sc.lower.size → (sc.lower.getD c #[]).size = nL)
    (hU : ∀ c, c < sc.upper.size → (sc.upper.getD c #[]).size = nU) : LUInv s sc :=
  LUInv_of_check s sc nL nU h hsz hL hU

end Check

/-! ### the hypotheses are satisfiable -/

/-- 3×3 Jacobian pattern without (0,2),(1,2),(2,1); fill-in at `L(2,1)` (the pattern of C03's example) -/
def c11A : Pattern := Pattern.mk' 3 false 0 [(0,0),(0,1),(1,0),(1,1),(2,0),(2,2)]

/-- a solver configuration with the Doolittle tables that `LinAlg.build` derives from `c11A` -/
def c11cfg (kind : LUKind) : SolverCfg Float :=
  { nSpecies := 3, L := 0, tables := {}, flatIds := [], la := LinAlg.build kind c11A, diag := [0, 3, 5] }

example : (LinAlg.build .doolittle c11A).Lp.nnz = 6 ∧ (LinAlg.build .doolittle c11A).Up.nnz = 4 := by
  decide +kernel

/-- the LU hypothesis holds for these tables — on `Float` — by the dataflow check -/
example : LUOverwrites (c11cfg .doolittle) 6 4 :=
  C11_LUOverwrites_of_check _ 6 4 (by decide +kernel)
example : LUOverwrites (c11cfg .mozart) 6 4 :=
  C11_LUOverwrites_of_check _ 6 4 (by decide +kernel)

/-- the check is not vacuous: it rejects arrays with a slot no table entry writes -/
example : luCheck (c11cfg .doolittle).la 7 4 = false := by decide +kernel

/-- a two-cell scratch with arbitrary (here: garbage) contents is fit for the Doolittle solver … -/
def c11sc (x : Float) : Scratch Float :=
  { jac := #[Array.replicate 6 x, Array.replicate 6 x], lower := #[Array.replicate 6 x, Array.replicate 6 x],
    upper := #[Array.replicate 4 x, Array.replicate 4 x], ynew := #[Array.replicate 3 x, Array.replicate 3 x],
    f0 := #[Array.replicate 3 x, Array.replicate 3 x],
    k := #[#[Array.replicate 3 x, Array.replicate 3 x], #[Array.replicate 3 x, Array.replicate 3 x]],
    yerr := #[Array.replicate 3 x, Array.replicate 3 x] }

example (x : Float) : LUInv (c11cfg .doolittle) (c11sc x) := by
  refine C11_LUInv_of_check _ _ 6 4 (by decide +kernel) rfl ?_ ?_
  · intro c hc
    have : c = 0 ∨ c = 1 := by simp [c11sc] at hc; omega
    rcases this with rfl | rfl <;> simp [c11sc]
  · intro c hc
    have : c = 0 ∨ c = 1 := by simp [c11sc] at hc; omega
    rcases this with rfl | rfl <;> simp [c11sc]

/-- … and shape-equal to the same scratch with any other contents -/
example (x y : Float) : ScratchShapeEq (c11sc x) (c11sc y) := by
  constructor <;> simp [c11sc, shape, kshape]

example (sc : Scratch Float) : ScratchShapeEq sc (zeroScratch sc) := zeroScratch_shape sc

#print axioms C11_rosStep_scratch_indep
#print axioms C11_rosStep_scratch_indep_rel
#print axioms C11_rosStep_scratch_indep_inplace
#print axioms C11_rosStep_scratch_indep_separate
#print axioms C11_rosSolve_scratch_indep
#print axioms C11_rosSolve_scratch_indep_inplace
#print axioms C11_history
#print axioms C11_beStep_scratch_indep
#print axioms C11_beSolve_scratch_indep
#print axioms C11_history_be
#print axioms C11_LUOverwrites_of_check
#print axioms C11_LUInv_inplace
#print axioms C11_LUInv_of_check

end Micm
