import Micm.Lemmas.LUCell
import Micm.Lemmas.LUCellMozart
import Micm.Lemmas.LUCellSymbolic
import Micm.Lemmas.LUCellSymbolicMozart
import Mathlib.Algebra.Field.Rat

/-!
C03 — sparse LU reproduces `A` (one cell), for the four algorithms: Doolittle and Mozart with
separate `L`/`U` storage, Doolittle and Mozart in place; and `GetLUMatrices`/`GetLUMatrix` of the
Doolittle variants return the fill closure (`C03_symbolic_closed`).

Interface.  `view p a r c` is the logical matrix held by the rank-indexed array `a` under the
pattern `p`.  (H1) `GoodPattern n p`: ranks of present elements are valid and injective;
(H2) `LUSetup n A Lp Up` / `IPSetup n P`: the pattern triple is the fill closure of `A`'s pattern
(`SparseLU.Closed` plus minimality and the triangular shapes); (H3) array sizes = `nnz`.
`DenseLU.lu Am n` is dense Doolittle on total functions, `DenseLU.IsLU` says
"unit lower · upper = A".
-/
open Finset
namespace Micm
variable {K : Type} [Field K]

/-- C03 (Doolittle): for every initial contents `l0`, `u0` of the `L`/`U` storage, the logical
    views of the decomposition are the dense Doolittle factors of the logical view of `a`. -/
theorem C03_doolittleCell {n : Nat} {A Lp Up : Pattern} (h : LUSetup n A Lp Up) (hn : A.n = n)
    (a l0 u0 : Array K) (hLs : l0.size = Lp.nnz) (hUs : u0.size = Up.nnz) :
    ∀ r c, r < n → c < n →
      view Lp (doolittleCell (doolittleRows A Lp Up) a (l0, u0)).1 r c
          = (DenseLU.lu (view A a) n).L r c ∧
      view Up (doolittleCell (doolittleRows A Lp Up) a (l0, u0)).2 r c
          = (DenseLU.lu (view A a) n).U r c :=
  doolittleCell_view h hn a l0 u0 hLs hUs

/-- C03 (Doolittle), `L·U = A`: if no pivot of the result vanishes then `L` is unit lower
    triangular, `U` upper triangular and `L·U = A` on the block. -/
theorem C03_doolittleCell_isLU {n : Nat} {A Lp Up : Pattern} (h : LUSetup n A Lp Up) (hn : A.n = n)
    (a l0 u0 : Array K) (hLs : l0.size = Lp.nnz) (hUs : u0.size = Up.nnz)
    (hpiv : ∀ i, i < n →
      view Up (doolittleCell (doolittleRows A Lp Up) a (l0, u0)).2 i i ≠ 0) :
    ∃ Lm Um : Nat → Nat → K, DenseLU.IsLU n (view A a) Lm Um ∧
      ∀ r c, r < n → c < n →
        view Lp (doolittleCell (doolittleRows A Lp Up) a (l0, u0)).1 r c = Lm r c ∧
        view Up (doolittleCell (doolittleRows A Lp Up) a (l0, u0)).2 r c = Um r c := by
  have hv := doolittleCell_view h hn a l0 u0 hLs hUs
  refine ⟨_, _, DenseLU.lu_isLU (view A a) n ?_, hv⟩
  intro i hi
  rw [← (hv i i hi hi).2]
  exact hpiv i hi

/-- C03 (Doolittle), independence of the prior contents of the `L`/`U` storage -/
theorem C03_prior_contents {n : Nat} {A Lp Up : Pattern} (h : LUSetup n A Lp Up) (hn : A.n = n)
    (a l0 u0 l0' u0' : Array K) (hLs : l0.size = Lp.nnz) (hUs : u0.size = Up.nnz)
    (hLs' : l0'.size = Lp.nnz) (hUs' : u0'.size = Up.nnz) :
    ∀ r c, r < n → c < n →
      view Lp (doolittleCell (doolittleRows A Lp Up) a (l0, u0)).1 r c
        = view Lp (doolittleCell (doolittleRows A Lp Up) a (l0', u0')).1 r c ∧
      view Up (doolittleCell (doolittleRows A Lp Up) a (l0, u0)).2 r c
        = view Up (doolittleCell (doolittleRows A Lp Up) a (l0', u0')).2 r c := by
  intro r c hr hc
  have h1 := doolittleCell_view h hn a l0 u0 hLs hUs r c hr hc
  have h2 := doolittleCell_view h hn a l0' u0' hLs' hUs' r c hr hc
  exact ⟨h1.1.trans h2.1.symm, h1.2.trans h2.2.symm⟩

/-- C03 (Doolittle in place): the array that holds `A` on entry (fill-in slots zero: they are
    part of `view P m0`) holds the strict lower part of `L` and `U` afterwards. -/
theorem C03_doolittleInPlaceCell {n : Nat} {P : Pattern} (h : IPSetup n P) (hn : P.n = n)
    (m0 : Array K) (hMs : m0.size = P.nnz) :
    ∀ r c, r < n → c < n →
      view P (doolittleInPlaceCell (doolittleInPlaceRows P) m0) r c
        = if c < r then (DenseLU.lu (view P m0) n).L r c else (DenseLU.lu (view P m0) n).U r c :=
  doolittleInPlaceCell_view h hn m0 hMs

/-- C03 (Doolittle in place), `L·U = A` with `L = lowerUnit`, `U = upperPart` of the result -/
theorem C03_doolittleInPlaceCell_isLU {n : Nat} {P : Pattern} (h : IPSetup n P) (hn : P.n = n)
    (m0 : Array K) (hMs : m0.size = P.nnz)
    (hpiv : ∀ i, i < n → view P (doolittleInPlaceCell (doolittleInPlaceRows P) m0) i i ≠ 0) :
    ∃ Lm Um : Nat → Nat → K, DenseLU.IsLU n (view P m0) Lm Um ∧
      ∀ r c, r < n → c < n →
        lowerUnit (view P (doolittleInPlaceCell (doolittleInPlaceRows P) m0)) r c = Lm r c ∧
        upperPart (view P (doolittleInPlaceCell (doolittleInPlaceRows P) m0)) r c = Um r c := by
  have hv := doolittleInPlaceCell_view h hn m0 hMs
  have hsh := DenseLU.lu_shape (view P m0) n
  refine ⟨_, _, DenseLU.lu_isLU (view P m0) n ?_, ?_⟩
  · intro i hi
    have := hv i i hi hi
    simp only [Nat.lt_irrefl, if_false] at this
    rw [← this]; exact hpiv i hi
  · intro r c hr hc
    constructor
    · unfold lowerUnit
      split
      · next hcr => rw [hv r c hr hc, if_pos hcr]
      · split
        · next h1 h2 => subst h2; exact (hsh.L_diag r hr).symm
        · next h1 h2 => exact (hsh.L_up r c (by omega)).symm
    · unfold upperPart
      split
      · next hrc => rw [hv r c hr hc, if_neg (by omega)]
      · next hrc => exact (hsh.U_low r c (by omega)).symm

/-- C03 (Mozart, separate storage): same statement as `C03_doolittleCell`; minimality of the
    patterns is not needed because `Initialize` zero-fills every fill-in slot. -/
theorem C03_mozartCell {n : Nat} {A Lp Up : Pattern} (h : MozSetup n A Lp Up) (hn : A.n = n)
    (a l0 u0 : Array K) (hLs : l0.size = Lp.nnz) (hUs : u0.size = Up.nnz) :
    ∀ r c, r < n → c < n →
      view Lp (mozartCell (mozartInit A Lp Up) (mozartRows A Lp Up) a (l0, u0)).1 r c
          = (DenseLU.lu (view A a) n).L r c ∧
      view Up (mozartCell (mozartInit A Lp Up) (mozartRows A Lp Up) a (l0, u0)).2 r c
          = (DenseLU.lu (view A a) n).U r c :=
  mozartCell_view h hn a l0 u0 hLs hUs

/-- C03 (Mozart), `L·U = A` when no pivot vanishes -/
theorem C03_mozartCell_isLU {n : Nat} {A Lp Up : Pattern} (h : MozSetup n A Lp Up) (hn : A.n = n)
    (a l0 u0 : Array K) (hLs : l0.size = Lp.nnz) (hUs : u0.size = Up.nnz)
    (hpiv : ∀ i, i < n →
      view Up (mozartCell (mozartInit A Lp Up) (mozartRows A Lp Up) a (l0, u0)).2 i i ≠ 0) :
    ∃ Lm Um : Nat → Nat → K, DenseLU.IsLU n (view A a) Lm Um ∧
      ∀ r c, r < n → c < n →
        view Lp (mozartCell (mozartInit A Lp Up) (mozartRows A Lp Up) a (l0, u0)).1 r c = Lm r c ∧
        view Up (mozartCell (mozartInit A Lp Up) (mozartRows A Lp Up) a (l0, u0)).2 r c = Um r c := by
  have hv := mozartCell_view h hn a l0 u0 hLs hUs
  refine ⟨_, _, DenseLU.lu_isLU (view A a) n ?_, hv⟩
  intro i hi
  rw [← (hv i i hi hi).2]
  exact hpiv i hi

/-- C03 (Mozart), independence of the prior contents of the `L`/`U` storage -/
theorem C03_prior_contents_mozart {n : Nat} {A Lp Up : Pattern} (h : MozSetup n A Lp Up)
    (hn : A.n = n) (a l0 u0 l0' u0' : Array K) (hLs : l0.size = Lp.nnz) (hUs : u0.size = Up.nnz)
    (hLs' : l0'.size = Lp.nnz) (hUs' : u0'.size = Up.nnz) :
    ∀ r c, r < n → c < n →
      view Lp (mozartCell (mozartInit A Lp Up) (mozartRows A Lp Up) a (l0, u0)).1 r c
        = view Lp (mozartCell (mozartInit A Lp Up) (mozartRows A Lp Up) a (l0', u0')).1 r c ∧
      view Up (mozartCell (mozartInit A Lp Up) (mozartRows A Lp Up) a (l0, u0)).2 r c
        = view Up (mozartCell (mozartInit A Lp Up) (mozartRows A Lp Up) a (l0', u0')).2 r c := by
  intro r c hr hc
  have h1 := mozartCell_view h hn a l0 u0 hLs hUs r c hr hc
  have h2 := mozartCell_view h hn a l0' u0' hLs' hUs' r c hr hc
  exact ⟨h1.1.trans h2.1.symm, h1.2.trans h2.2.symm⟩

/-- C03 (Mozart in place): same statement as `C03_doolittleInPlaceCell` -/
theorem C03_mozartInPlaceCell {n : Nat} {P : Pattern} (h : IPSetup n P) (hn : P.n = n)
    (m0 : Array K) (hMs : m0.size = P.nnz) :
    ∀ r c, r < n → c < n →
      view P (mozartInPlaceCell (mozartInPlaceRows P) m0) r c
        = if c < r then (DenseLU.lu (view P m0) n).L r c else (DenseLU.lu (view P m0) n).U r c :=
  mozartInPlaceCell_view h hn m0 hMs

/-- the two in-place algorithms and the two separate-storage algorithms compute the same
    exact factors (C12 for the LU choice, exact arithmetic) -/
theorem C03_mozart_eq_doolittle {n : Nat} {A Lp Up : Pattern} (h : LUSetup n A Lp Up)
    (hn : A.n = n) (a l0 u0 l0' u0' : Array K) (hLs : l0.size = Lp.nnz) (hUs : u0.size = Up.nnz)
    (hLs' : l0'.size = Lp.nnz) (hUs' : u0'.size = Up.nnz) :
    ∀ r c, r < n → c < n →
      view Lp (mozartCell (mozartInit A Lp Up) (mozartRows A Lp Up) a (l0, u0)).1 r c
        = view Lp (doolittleCell (doolittleRows A Lp Up) a (l0', u0')).1 r c ∧
      view Up (mozartCell (mozartInit A Lp Up) (mozartRows A Lp Up) a (l0, u0)).2 r c
        = view Up (doolittleCell (doolittleRows A Lp Up) a (l0', u0')).2 r c := by
  intro r c hr hc
  have h1 := mozartCell_view h.toMoz hn a l0 u0 hLs hUs r c hr hc
  have h2 := doolittleCell_view h hn a l0' u0' hLs' hUs' r c hr hc
  exact ⟨h1.1.trans h2.1.symm, h1.2.trans h2.2.symm⟩

theorem C03_mozartInPlace_eq_doolittleInPlace {n : Nat} {P : Pattern} (h : IPSetup n P)
    (hn : P.n = n) (m0 : Array K) (hMs : m0.size = P.nnz) :
    ∀ r c, r < n → c < n →
      view P (mozartInPlaceCell (mozartInPlaceRows P) m0) r c
        = view P (doolittleInPlaceCell (doolittleInPlaceRows P) m0) r c := by
  intro r c hr hc
  rw [mozartInPlaceCell_view h hn m0 hMs r c hr hc, doolittleInPlaceCell_view h hn m0 hMs r c hr hc]

/-- C03, symbolic factorisation: for every input pattern `az` (`az r c = true` ⇔ `(r,c)` is a
    structural zero), `doolittleSymbolic n az` returns a pair that is `Closed` (diagonal present,
    support of `A` contained, closed under both fill rules), minimal, with `L` lower (full
    diagonal) and `U` upper; the characterisation is exact (`doolittleSymbolic_inv`). -/
theorem C03_symbolic_closed (n : Nat) (az : Nat → Nat → Bool) :
    FillClosure n (fun r c => !az r c) (memB (doolittleSymbolic n az).1)
      (memB (doolittleSymbolic n az).2) :=
  doolittleSymbolic_fillClosure n az

/-- hence (H2) holds for the patterns `LinAlg.build` constructs, given (H1) and that presence in
    `Lp`/`Up` is membership in the computed sets -/
theorem C03_setup_of_symbolic (n : Nat) (A Lp Up : Pattern) (gL : GoodPattern n Lp)
    (gU : GoodPattern n Up)
    (hL : ∀ r c, r < n → c < n →
      (Lp.zero? r c = false ↔ (r, c) ∈ (doolittleSymbolic n (fun r c => A.zero? r c)).1))
    (hU : ∀ r c, r < n → c < n →
      (Up.zero? r c = false ↔ (r, c) ∈ (doolittleSymbolic n (fun r c => A.zero? r c)).2)) :
    LUSetup n A Lp Up :=
  LUSetup_of_symbolic n A Lp Up gL gU hL hU

theorem C03_ipsetup_of_symbolic (n : Nat) (az : Nat → Nat → Bool) (P : Pattern)
    (g : GoodPattern n P)
    (hP : ∀ r c, r < n → c < n →
      (P.zero? r c = false ↔ (r, c) ∈ doolittleInPlaceSymbolic n az)) : IPSetup n P :=
  IPSetup_of_symbolic n az P g hP

/-- the Mozart symbolic factorisations: for every input pattern with a full diagonal,
    `mozartSymbolic` returns a triple satisfying `MozSetup` (closed, shapes; exact facts in
    `mozartSymbolic_props`) … -/
theorem C03_mozsetup_of_symbolic (n : Nat) (A Lp Up : Pattern) (gL : GoodPattern n Lp)
    (gU : GoodPattern n Up) (hdiag : ∀ i, i < n → A.zero? i i = false)
    (hL : ∀ r c, r < n → c < n →
      (Lp.zero? r c = false ↔ (r, c) ∈ (mozartSymbolic n (fun r c => A.zero? r c)).1))
    (hU : ∀ r c, r < n → c < n →
      (Up.zero? r c = false ↔ (r, c) ∈ (mozartSymbolic n (fun r c => A.zero? r c)).2)) :
    MozSetup n A Lp Up :=
  MozSetup_of_symbolic n A Lp Up gL gU hdiag hL hU

/-- … and `mozartInPlaceSymbolic` a pattern satisfying `IPSetup` -/
theorem C03_ipsetup_of_mozartSymbolic (n : Nat) (az : Nat → Nat → Bool) (P : Pattern)
    (g : GoodPattern n P) (hdiag : ∀ i, i < n → az i i = false)
    (hP : ∀ r c, r < n → c < n →
      (P.zero? r c = false ↔ (r, c) ∈ mozartInPlaceSymbolic n az)) : IPSetup n P :=
  IPSetup_of_mozartSymbolic n az P g hdiag hP

/-! ### the hypotheses are satisfiable: 3×3, `A` lacks (0,2),(1,2),(2,1); fill-in at `L(2,1)` -/

def c03A : Pattern := Pattern.mk' 3 false 0 [(0,0),(0,1),(1,0),(1,1),(2,0),(2,2)]
def c03L : Pattern := Pattern.mk' 3 false 0 [(0,0),(1,0),(1,1),(2,0),(2,1),(2,2)]
def c03U : Pattern := Pattern.mk' 3 false 0 [(0,0),(0,1),(1,1),(2,2)]
def c03P : Pattern := Pattern.mk' 3 false 0 [(0,0),(0,1),(1,0),(1,1),(2,0),(2,1),(2,2)]

/-- these are the patterns `GetLUMatrices` computes for `c03A` -/
example : doolittleSymbolic 3 (fun r c => c03A.zero? r c)
    = ([(0,0),(1,0),(1,1),(2,0),(2,1),(2,2)], [(0,0),(0,1),(1,1),(2,2)]) := by decide +kernel

example : doolittleInPlaceSymbolic 3 (fun r c => c03A.zero? r c)
    = [(0,0),(0,1),(1,0),(1,1),(2,0),(2,1),(2,2)] := by decide +kernel

/-- ... and the Mozart variants compute the same sets on this instance -/
example : mozartSymbolic 3 (fun r c => c03A.zero? r c)
    = ([(0,0),(1,0),(1,1),(2,0),(2,1),(2,2)], [(0,0),(0,1),(1,1),(2,2)]) := by decide +kernel

example : mozartInPlaceSymbolic 3 (fun r c => c03A.zero? r c)
    = [(0,0),(0,1),(1,0),(1,1),(2,0),(2,1),(2,2)] := by decide +kernel

theorem c03L_good : GoodPattern 3 c03L := goodCheck_sound 3 c03L (by decide +kernel)
theorem c03U_good : GoodPattern 3 c03U := goodCheck_sound 3 c03U (by decide +kernel)
theorem c03P_good : GoodPattern 3 c03P := goodCheck_sound 3 c03P (by decide +kernel)

theorem c03_setup : LUSetup 3 c03A c03L c03U where
  gL := c03L_good
  gU := c03U_good
  closed :=
    { diagU := by decide +kernel
      supU := fun r c hrc hc =>
        (by decide +kernel : ∀ r, r < 3 → ∀ c, c < 3 → r ≤ c → pres c03A r c = true →
          pres c03U r c = true) r (by omega) c hc hrc
      supL := fun r c hcr hr =>
        (by decide +kernel : ∀ r, r < 3 → ∀ c, c < 3 → c < r → pres c03A r c = true →
          pres c03L r c = true) r hr c (by omega) hcr
      fillU := fun i j k hj hik hk h1 h2 =>
        (by decide +kernel : ∀ i, i < 3 → ∀ j, j < 3 → ∀ k, k < 3 → (j < i ∧ i ≤ k ∧
          pres c03L i j = true ∧ pres c03U j k = true) → pres c03U i k = true)
          i (by omega) j (by omega) k hk ⟨hj, hik, h1, h2⟩
      fillL := fun i j k hj hik hk h1 h2 =>
        (by decide +kernel : ∀ i, i < 3 → ∀ j, j < 3 → ∀ k, k < 3 → (j < i ∧ i < k ∧
          pres c03L k j = true ∧ pres c03U j i = true) → pres c03L k i = true)
          i (by omega) j (by omega) k hk ⟨hj, hik, h1, h2⟩ }
  diagL := by decide +kernel
  lowL := fun r c hr hc =>
    (by decide +kernel : ∀ r, r < 3 → ∀ c, c < 3 → c03L.zero? r c = false → c ≤ r) r hr c hc
  uppU := fun r c hr hc =>
    (by decide +kernel : ∀ r, r < 3 → ∀ c, c < 3 → c03U.zero? r c = false → r ≤ c) r hr c hc
  minU := fun i k hik hk hp =>
    (by decide +kernel : ∀ i, i < 3 → ∀ k, k < 3 → (i < k ∧ c03U.zero? i k = false) →
      c03A.zero? i k = false ∨ ∃ j, j < i ∧ c03L.zero? i j = false ∧ c03U.zero? j k = false)
      i (by omega) k hk ⟨hik, hp⟩
  minL := fun i k hik hk hp =>
    (by decide +kernel : ∀ i, i < 3 → ∀ k, k < 3 → (i < k ∧ c03L.zero? k i = false) →
      c03A.zero? k i = false ∨ ∃ j, j < i ∧ c03L.zero? k j = false ∧ c03U.zero? j i = false)
      i (by omega) k hk ⟨hik, hp⟩

theorem c03_ipsetup : IPSetup 3 c03P where
  g := c03P_good
  diag := by decide +kernel
  fill := fun r c j hr hc hjr hjc h1 h2 =>
    (by decide +kernel : ∀ r, r < 3 → ∀ c, c < 3 → ∀ j, j < 3 → (j < r ∧ j < c ∧
      c03P.zero? r j = false ∧ c03P.zero? j c = false) → c03P.zero? r c = false)
      r hr c hc j (by omega) ⟨hjr, hjc, h1, h2⟩

example : MozSetup 3 c03A c03L c03U := c03_setup.toMoz

/-- (H1) also holds for the column-major vector ordering of the same sets -/
example : GoodPattern 3 (Pattern.mk' 3 true 2 [(0,0),(1,0),(1,1),(2,0),(2,1),(2,2)]) :=
  goodCheck_sound _ _ (by decide +kernel)

/-- a numeric instance over `ℚ`: A = [[2,1,0],[4,3,0],[6,1,7]], garbage in `L`/`U` storage -/
example :
    let a : Array ℚ := #[2, 1, 4, 3, 6, 7]
    let LU := doolittleCell (doolittleRows c03A c03L c03U) a (#[9,9,9,9,9,9], #[8,8,8,8])
    LU = (#[1, 2, 1, 3, -3, 1], #[2, 1, 1, 7]) := by decide +kernel

example :
    let a : Array ℚ := #[2, 1, 4, 3, 6, 7]
    let LU := mozartCell (mozartInit c03A c03L c03U) (mozartRows c03A c03L c03U) a
      (#[9,9,9,9,9,9], #[8,8,8,8])
    LU = (#[1, 2, 1, 3, -3, 1], #[2, 1, 1, 7]) := by decide +kernel

/-- in place: the fill-in slot (2,1) holds 0 on entry -/
example :
    let m0 : Array ℚ := #[2, 1, 4, 3, 6, 0, 7]
    doolittleInPlaceCell (doolittleInPlaceRows c03P) m0 = #[2, 1, 2, 1, 3, -3, 7] ∧
    mozartInPlaceCell (mozartInPlaceRows c03P) m0 = #[2, 1, 2, 1, 3, -3, 7] := by decide +kernel

end Micm

#print axioms Micm.C03_doolittleCell
#print axioms Micm.C03_doolittleCell_isLU
#print axioms Micm.C03_prior_contents
#print axioms Micm.C03_doolittleInPlaceCell
#print axioms Micm.C03_doolittleInPlaceCell_isLU
#print axioms Micm.C03_mozartCell
#print axioms Micm.C03_mozartCell_isLU
#print axioms Micm.C03_prior_contents_mozart
#print axioms Micm.C03_mozartInPlaceCell
#print axioms Micm.C03_mozart_eq_doolittle
#print axioms Micm.C03_mozartInPlace_eq_doolittleInPlace
#print axioms Micm.C03_symbolic_closed
#print axioms Micm.C03_setup_of_symbolic
#print axioms Micm.C03_ipsetup_of_symbolic
#print axioms Micm.C03_mozsetup_of_symbolic
#print axioms Micm.C03_ipsetup_of_mozartSymbolic
#print axioms Micm.c03_setup
#print axioms Micm.c03_ipsetup
