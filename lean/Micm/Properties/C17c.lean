/-
C17 (the premise, extracted) — the history model of `Properties/C17.lean` treats a copy as a duplicate of the value and a
move as a transfer of the value.  For the C++ that is so when every user-provided copy / move special member function
transfers EVERY data member (and base) of the source to the same member of the target, unconditionally.
`Gen/SpecialMembers.lean` is regenerated on every run by `tools/specials.py` from the typed clang AST of /repo's headers
(instantiated `State`, `Solver`, `Species`, `Process`, `System` and the JIT classes): per class and special member, per
data member, one of `same` / `from:<other member>` / `conditional` / `reset` / `missing` (`base-call` for bases).

The theorems say that on the current source every entry is `same` (or `base-call`), and that the table covers the special
members the property is about.  Dropping a member from a hand-written `operator=`, taking it from a different member,
copying it only under a condition, or leaving a pointer behind in a move changes the table and the theorems stop
holding; the history checks (ASan/UBSan, moved-vs-direct groups, `cpassign`) then look for the failing history.
-/
import Micm.Gen.SpecialMembers

namespace Micm
open Gen

def memberwiseOk (s : String) : Bool := s == "same" || s == "base-call"

/-- **every user-provided copy / move special member function is member-wise complete** -/
theorem C17_special_members_memberwise :
    specialMembers.all (fun r => r.2.2.all fun fs => memberwiseOk fs.2) = true := by
  decide

/-- the table covers `State` (copy and move, construction and assignment), `Solver` (move), `Species`, `Process`,
    `System` (copy), and a `State` has its 16 data members -/
theorem C17_special_members_cover :
    (["State", "State", "State", "State", "Solver", "Solver", "Species", "Process", "System"].zip
      ["copy-ctor", "copy-assign", "move-ctor", "move-assign", "move-ctor", "move-assign", "copy-assign", "copy-assign",
       "copy-assign"]).all (fun ck => specialMembers.any fun r => r.1 == ck.1 && r.2.1 == ck.2) = true ∧
    (specialMembers.filter fun r => r.1 == "State").all (fun r => r.2.2.length == 16) = true := by
  decide

#print axioms C17_special_members_memberwise
#print axioms C17_special_members_cover
end Micm
