/-
C14 — species are addressed by name consistently.

"The name-to-index map of a built solver is a bijection onto 0..N-1 that agrees with the list of
variable names, with state reordering on or off; per-species absolute tolerances refer to the same
species; tolerance properties are honoured for species of every phase."

Theorems about the model definitions `markowitzRow`/`markowitz`, `nmInsert`/`nmOfNames`/`nmLookup`,
`SystemDecl.uniqueNames`/`stateSize`, `getSpeciesMap`, `setAbsoluteTolerances`, `build` of
`Micm/Model/Builder.lean`.

Vocabulary (defined in `Micm/Lemmas/Builder.lean`):
 * `nmKeys m`: the keys of the association list `m`, in list order; `NmSorted m`: keys strictly
   increasing (the `std::map` invariant; implies distinct keys).
 * `jacPattern n t`: the `n × n` 0/1 matrix that `GetSpeciesMap` hands to the reordering.
 * `reorderNames names perm = [names[perm[0]], names[perm[1]], …]`.
 * `tolAssigns sys : List (String × α)`: the (key, value) assignments `tolerances[map.at(key)] = value`
   that `SetAbsoluteTolerances` performs, in execution order: gas species in declaration order
   (key = species name), then the phases in iteration order, species in declaration order
   (key = "<phase>.<name>"); every species with an "absolute tolerance" property contributes,
   parameterized or not.
 * `TolOnNonParam sys`: every species carrying a tolerance is non-parameterized.
-/
import Micm.Lemmas.Builder

namespace Micm

/-! ### 1. `DiagonalMarkowitzReorder` returns a permutation -/

/-- For every `order ≥ 1` and every pattern the call returns, and the result is a permutation of
    `0 … order-1` (only exchanges of two in-range entries are applied to `Array.range order`). -/
theorem C14_markowitz_perm (order : Nat) (pat : IMat) (h : 1 ≤ order) :
    ∃ perm, markowitz order pat = .ok perm ∧ perm.size = order ∧ perm.toList.Perm (List.range order) :=
  markowitz_perm order pat h

/-- `order = 0`: the loop bound `order - 1` wraps around; the call does not return.  (This is why
    the builder must reject an empty system before `GetSpeciesMap`, see `C20_build_no_species`.) -/
theorem C14_markowitz_zero (pat : IMat) : markowitz 0 pat = .error .hang := markowitz_zero pat

/-- one `row` iteration leaves the permutation vector alone or exchanges entries `row` and `j` for
    some `row < j < order` -/
theorem C14_markowitzRow_swap (order : Nat) (perm : Array Nat) (pat : IMat) (row : Nat) :
    (markowitzRow order (perm, pat) row).1 = perm ∨
    ∃ j, row < j ∧ j < order ∧
      (markowitzRow order (perm, pat) row).1
        = (perm.setIfInBounds row (perm.getD j 0)).setIfInBounds j (perm.getD row 0) :=
  markowitzRow_fst order perm pat row

/-! ### 2. `std::map` insertion and lookup -/

/-- `m[k] = v` then `m.find(k')` (any association list) -/
theorem C14_nmLookup_nmInsert (m : NameMap) (k : String) (v : Nat) (k' : String) :
    nmLookup (nmInsert m k v) k' = if k' = k then some v else nmLookup m k' :=
  nmLookup_nmInsert m k v k'

/-- insertion keeps the keys strictly increasing, and the key set grows by exactly `k` -/
theorem C14_nmInsert_sorted (m : NameMap) (hm : NmSorted m) (k : String) (v : Nat) :
    NmSorted (nmInsert m k v) ∧ (nmKeys (nmInsert m k v)).Nodup ∧
    ∀ k', k' ∈ nmKeys (nmInsert m k v) ↔ k' = k ∨ k' ∈ nmKeys m :=
  ⟨hm.nmInsert k v, (hm.nmInsert k v).nodup_keys, mem_nmKeys_nmInsert m k v⟩

/-- the first map of `GetSpeciesMap`: for distinct names `names[i] ↦ i`, nothing else -/
theorem C14_nmOfNames (names : List String) (hn : names.Nodup) :
    (∀ i (h : i < names.length), nmLookup (nmOfNames names) names[i] = some i) ∧
    (∀ k, k ∈ nmKeys (nmOfNames names) ↔ k ∈ names) ∧
    (∀ k i, nmLookup (nmOfNames names) k = some i ↔ names[i]? = some k) ∧
    NmSorted (nmOfNames names) ∧ (nmOfNames names).length = names.length :=
  have h := NmIndexes.nmOfNames hn
  ⟨h.lookup, h.keys, h.lookup_eq_some_iff hn, h.sorted, h.length_eq hn⟩

/-- the key set does not need distinct names -/
theorem C14_nmOfNames_keys (names : List String) (k : String) : k ∈ nmKeys (nmOfNames names) ↔ k ∈ names :=
  mem_nmKeys_nmOfNames names k

section
variable {α : Type}

/-- `System::StateSize()` is the number of `System::UniqueNames()` -/
theorem C14_stateSize (sys : SystemDecl α) : sys.stateSize = sys.uniqueNames.length := sys.stateSize_eq

/-! ### 3. the species map is a bijection, reordering off or on -/

/-- If `GetSpeciesMap` returns `m` and the unique names are distinct, then with
    `n = #uniqueNames`:
    the keys of `m` are exactly the unique names, each once; `m` maps every unique name to an index
    `< n`; nothing else has an index; distinct names have distinct indices; every index `< n` is
    hit.  With reordering off the index of `names[i]` is `i`; with reordering on there is the
    permutation `perm` returned by `DiagonalMarkowitzReorder` (a permutation of `0 … n-1`) and the
    index of `names[perm[i]]` is `i`. -/
theorem C14_bijection {sys : SystemDecl α} {procs : List (Process α)} {reorder : Bool} {m : NameMap}
    (h : getSpeciesMap sys procs reorder = .ok m) (hn : sys.uniqueNames.Nodup) :
    (nmKeys m).Perm sys.uniqueNames ∧ NmSorted m ∧ m.length = sys.uniqueNames.length ∧
    (∀ k ∈ sys.uniqueNames, ∃ i, i < sys.uniqueNames.length ∧ nmLookup m k = some i) ∧
    (∀ k i, nmLookup m k = some i → k ∈ sys.uniqueNames ∧ i < sys.uniqueNames.length) ∧
    (∀ k k' i, nmLookup m k = some i → nmLookup m k' = some i → k = k') ∧
    (∀ i, i < sys.uniqueNames.length → ∃ k ∈ sys.uniqueNames, nmLookup m k = some i) ∧
    (reorder = false → ∀ i (hi : i < sys.uniqueNames.length), nmLookup m sys.uniqueNames[i] = some i) ∧
    (reorder = true → ∃ t perm,
        ProcessSet.build procs (nmOfNames sys.uniqueNames) = .ok t ∧
        markowitz sys.stateSize (jacPattern sys.stateSize t) = .ok perm ∧
        perm.size = sys.uniqueNames.length ∧ perm.toList.Perm (List.range sys.uniqueNames.length) ∧
        ∀ i, i < sys.uniqueNames.length → nmLookup m (sys.uniqueNames.getD (perm.getD i 0) "") = some i) := by
  obtain ⟨names', hperm, hidx, hoff, hon⟩ := getSpeciesMap_ok_indexes h hn
  have hn' : names'.Nodup := hperm.nodup_iff.2 hn
  have hlen : names'.length = sys.uniqueNames.length := hperm.length_eq
  refine ⟨(hidx.keys_perm hn').trans hperm, hidx.sorted, (hidx.length_eq hn').trans hlen, ?_, ?_, ?_, ?_, ?_, ?_⟩
  · intro k hk
    obtain ⟨i, hi, hl⟩ := hidx.lookup_of_mem (hperm.mem_iff.2 hk)
    exact ⟨i, hlen ▸ hi, hl⟩
  · intro k i hl
    refine ⟨hperm.mem_iff.1 ((hidx.keys k).1 ((nmLookup_isSome_iff m k).1 (by simp [hl]))), ?_⟩
    exact hlen ▸ hidx.lookup_lt hn' hl
  · intro k k' i hl hl'
    exact hidx.lookup_inj hn' hl hl'
  · intro i hi
    have hi' : i < names'.length := hlen ▸ hi
    exact ⟨names'[i], hperm.mem_iff.1 (List.getElem_mem hi'), hidx.lookup i hi'⟩
  · intro hr i hi
    have e := hoff hr
    subst e
    exact hidx.lookup i hi
  · intro hr
    obtain ⟨t, perm, ht, hm, hs, hp, e⟩ := hon hr
    refine ⟨t, perm, ht, hm, hs, hp, fun i hi => ?_⟩
    have hi' : i < names'.length := hlen ▸ hi
    have := hidx.lookup i hi'
    have e2 : names'[i] = sys.uniqueNames.getD (perm.getD i 0) "" := by
      subst e
      simp [reorderNames]
    rw [← e2]
    exact this

/-- `variable_names_` of a built solver is the inverse of its species map: it has `n` entries, is a
    rearrangement of the unique names (the unique names themselves with reordering off), and
    `variableNames[i] = name ↔ speciesMap[name] = i` for every `i` and every string `name`. -/
theorem C14_names_agree [OfNat α 0] {dflt : α} {labelsOf : List (Process α) → List String}
    {inp : BuildInput α} {b : Built α} {sys : SystemDecl α}
    (h : build dflt labelsOf inp = .ok b) (hsys : inp.system = some sys) (hn : sys.uniqueNames.Nodup) :
    b.variableNames.length = sys.uniqueNames.length ∧ b.nSpecies = sys.uniqueNames.length ∧
    b.variableNames.Perm sys.uniqueNames ∧
    (inp.reorder = false → b.variableNames = sys.uniqueNames) ∧
    (∀ i name, b.variableNames[i]? = some name ↔ nmLookup b.speciesMap name = some i) := by
  obtain ⟨sys', hs', -, -, hg, -, -, hv, hns, -, -⟩ := build_ok_fields h
  rw [hsys] at hs'
  cases hs'
  obtain ⟨names', hperm, hidx, hoff, -⟩ := getSpeciesMap_ok_indexes hg hn
  have hn' : names'.Nodup := hperm.nodup_iff.2 hn
  have hlen : names'.length = sys.uniqueNames.length := hperm.length_eq
  have hvn : b.variableNames = names' := by
    rw [hv, sys.stateSize_eq, ← hlen]
    exact hidx.variableNames hn'
  rw [hvn]
  refine ⟨hlen, by rw [hns, sys.stateSize_eq], hperm, hoff, fun i name => ?_⟩
  exact (hidx.lookup_eq_some_iff hn' name i).symm

/-! ### 4. absolute tolerances -/

/-- `SetAbsoluteTolerances` does not throw (`map::at`) when every species carrying a tolerance is
    non-parameterized and the keys of the map are the unique names. -/
theorem C14_setAbsoluteTolerances_ok [OfNat α 0] (dflt : α) (sys : SystemDecl α) (m : NameMap)
    (hk : ∀ k, k ∈ nmKeys m ↔ k ∈ sys.uniqueNames) (ht : TolOnNonParam sys) :
    ∃ a, setAbsoluteTolerances dflt sys m = .ok a := by
  rw [setAbsoluteTolerances_eq, applyTol_isOk_iff]
  intro kv hkv
  rw [hk]
  exact (tolAssigns_keys_sublist sys ht).subset (List.mem_map_of_mem hkv)

/-- it throws `std::out_of_range` exactly when some species carrying a tolerance has a key that is
    not a unique name (a parameterized species with a tolerance, unless a like-named
    non-parameterized one exists) -/
theorem C14_setAbsoluteTolerances_error_iff [OfNat α 0] (dflt : α) (sys : SystemDecl α) (m : NameMap)
    (hk : ∀ k, k ∈ nmKeys m ↔ k ∈ sys.uniqueNames) (e : Err) :
    setAbsoluteTolerances dflt sys m = .error e ↔
      e = .outOfRange ∧ ∃ kv ∈ tolAssigns sys, kv.1 ∉ sys.uniqueNames := by
  rw [setAbsoluteTolerances_eq]
  have hiff := applyTol_isOk_iff m (Array.replicate m.length dflt) (tolAssigns sys)
  constructor
  · intro he
    refine ⟨applyTol_error he, ?_⟩
    apply Classical.byContradiction
    intro hne
    have : ∀ kv ∈ tolAssigns sys, kv.1 ∈ nmKeys m := by
      intro kv hkv
      rw [hk]
      apply Classical.byContradiction
      intro hc
      exact hne ⟨kv, hkv, hc⟩
    obtain ⟨r, hr⟩ := hiff.2 this
    rw [hr] at he
    cases he
  · rintro ⟨rfl, kv, hkv, hnot⟩
    cases hr : applyTol m (Array.replicate m.length dflt) (tolAssigns sys) with
    | error e => rw [applyTol_error hr]
    | ok r => exact absurd ((hk _).1 (hiff.1 ⟨r, hr⟩ kv hkv)) hnot

/-- membership in `tolAssigns`, spelled out: gas species by bare name, non-gas species by
    "<phase>.<name>" -/
theorem C14_mem_tolAssigns {sys : SystemDecl α} {kv : String × α} :
    kv ∈ tolAssigns sys ↔
      (∃ s ∈ sys.gas, s.atol = some kv.2 ∧ kv.1 = s.name) ∨
      (∃ ph ∈ sys.phases, ∃ s ∈ ph.2, s.atol = some kv.2 ∧ kv.1 = ph.1 ++ "." ++ s.name) :=
  mem_tolAssigns

/-- with tolerances only on non-parameterized species the tolerance keys are a sub-list of the
    unique names; in particular they are distinct when the unique names are -/
theorem C14_tolerance_keys (sys : SystemDecl α) (ht : TolOnNonParam sys) :
    ((tolAssigns sys).map (·.1)).Sublist sys.uniqueNames ∧
    (sys.uniqueNames.Nodup → ((tolAssigns sys).map (·.1)).Nodup) :=
  ⟨tolAssigns_keys_sublist sys ht, fun hn => (tolAssigns_keys_sublist sys ht).nodup hn⟩

/-- General form (nothing assumed about repeated declarations): the tolerance vector has one entry
    per species; an assignment `(k, v)` that is not followed (in the execution order of
    `tolAssigns`: gas first, then the phases in order) by an assignment to the same index
    determines the entry of its index — a later declaration for the same index overwrites an
    earlier one; an index that no assignment maps to holds the default. -/
theorem C14_tolerances_last_wins [OfNat α 0] {dflt : α} {labelsOf : List (Process α) → List String}
    {inp : BuildInput α} {b : Built α} {sys : SystemDecl α}
    (h : build dflt labelsOf inp = .ok b) (hsys : inp.system = some sys) (hn : sys.uniqueNames.Nodup) :
    b.atol.size = sys.uniqueNames.length ∧
    (∀ l1 l2 k v, tolAssigns sys = l1 ++ (k, v) :: l2 →
      ∃ i, i < sys.uniqueNames.length ∧ nmLookup b.speciesMap k = some i ∧ b.variableNames[i]? = some k ∧
        ((∀ kv ∈ l2, nmLookup b.speciesMap kv.1 ≠ some i) → rd b.atol i = v)) ∧
    (∀ i, i < sys.uniqueNames.length → (∀ kv ∈ tolAssigns sys, nmLookup b.speciesMap kv.1 ≠ some i) →
      rd b.atol i = dflt) := by
  obtain ⟨hvl, -, -, -, hvn⟩ := C14_names_agree h hsys hn
  obtain ⟨sys', hs', -, -, hg, -, ha, -, -, -, -⟩ := build_ok_fields h
  rw [hsys] at hs'
  cases hs'
  obtain ⟨-, -, hml, -, hrange, -, -, -, -⟩ := C14_bijection hg hn
  rw [setAbsoluteTolerances_eq] at ha
  have hsize : b.atol.size = sys.uniqueNames.length := by
    rw [applyTol_size ha, Array.size_replicate, hml]
  refine ⟨hsize, ?_, ?_⟩
  · intro l1 l2 k v hl
    have hkm : k ∈ nmKeys b.speciesMap :=
      (applyTol_isOk_iff _ _ _).1 ⟨_, ha⟩ (k, v) (by rw [hl]; simp)
    have : (nmLookup b.speciesMap k).isSome = true := (nmLookup_isSome_iff _ _).2 hkm
    obtain ⟨i, hi⟩ := Option.isSome_iff_exists.1 this
    have hlt := (hrange k i hi).2
    refine ⟨i, hlt, hi, (hvn i k).2 hi, fun h2 => ?_⟩
    rw [hl] at ha
    exact applyTol_rd_last ha hi (by rw [Array.size_replicate, hml]; exact hlt) h2
  · intro i hi hnot
    rw [applyTol_rd_of_not_mem ha hnot]
    have : i < b.speciesMap.length := hml ▸ hi
    simp [rd, this]

/-- `C14_tolerances`: the build succeeded, the unique names are distinct and no two tolerance
    declarations have the same key (automatic when tolerances sit only on non-parameterized species,
    `C14_tolerance_keys`).  Then the tolerance vector has one entry per species, and
     * every gas species `s` with tolerance `v` has an index `i` (that of the key `s.name`) with
       `variableNames[i] = s.name` and `atol[i] = v`;
     * every species `s` with tolerance `v` of a non-gas phase `ph` has an index `i` (that of the key
       `ph ++ "." ++ s.name`) with `variableNames[i] = ph ++ "." ++ s.name` and `atol[i] = v`;
     * every other index `< n` holds the default. -/
theorem C14_tolerances [OfNat α 0] {dflt : α} {labelsOf : List (Process α) → List String}
    {inp : BuildInput α} {b : Built α} {sys : SystemDecl α}
    (h : build dflt labelsOf inp = .ok b) (hsys : inp.system = some sys) (hn : sys.uniqueNames.Nodup)
    (hd : ((tolAssigns sys).map (·.1)).Nodup) :
    b.atol.size = sys.uniqueNames.length ∧
    (∀ s ∈ sys.gas, ∀ v, s.atol = some v →
      ∃ i, i < sys.uniqueNames.length ∧ nmLookup b.speciesMap s.name = some i ∧
        b.variableNames[i]? = some s.name ∧ rd b.atol i = v) ∧
    (∀ ph ∈ sys.phases, ∀ s ∈ ph.2, ∀ v, s.atol = some v →
      ∃ i, i < sys.uniqueNames.length ∧ nmLookup b.speciesMap (ph.1 ++ "." ++ s.name) = some i ∧
        b.variableNames[i]? = some (ph.1 ++ "." ++ s.name) ∧ rd b.atol i = v) ∧
    (∀ i, i < sys.uniqueNames.length → (∀ kv ∈ tolAssigns sys, nmLookup b.speciesMap kv.1 ≠ some i) →
      rd b.atol i = dflt) := by
  obtain ⟨hsize, hlast, hdef⟩ := C14_tolerances_last_wins h hsys hn
  obtain ⟨sys', hs', -, -, hg, -, -, -, -, -, -⟩ := build_ok_fields h
  rw [hsys] at hs'
  cases hs'
  obtain ⟨-, -, -, -, -, hinj, -, -, -⟩ := C14_bijection hg hn
  have key : ∀ k v, (k, v) ∈ tolAssigns sys →
      ∃ i, i < sys.uniqueNames.length ∧ nmLookup b.speciesMap k = some i ∧
        b.variableNames[i]? = some k ∧ rd b.atol i = v := by
    intro k v hkv
    obtain ⟨l1, l2, hl⟩ := List.append_of_mem hkv
    obtain ⟨i, hi, hlk, hv, hrd⟩ := hlast l1 l2 k v hl
    refine ⟨i, hi, hlk, hv, hrd fun kv' hkv' hl' => ?_⟩
    have e : kv'.1 = k := hinj _ _ i hl' hlk
    rw [hl, List.map_append, List.map_cons, List.nodup_append] at hd
    have := (List.nodup_cons.1 hd.2.1).1
    have hk2 : kv'.1 ∈ l2.map (·.1) := List.mem_map_of_mem hkv'
    exact this (e ▸ hk2)
  refine ⟨hsize, ?_, ?_, hdef⟩
  · intro s hs v hv
    exact key s.name v (mem_tolAssigns.2 (.inl ⟨s, hs, hv, rfl⟩))
  · intro ph hph s hs v hv
    exact key _ v (mem_tolAssigns.2 (.inr ⟨ph, hph, s, hs, hv, rfl⟩))

end

/-! ### examples: a two-phase system, reordering on and off -/
namespace C14Ex

/-- gas phase `A`, `B`, `M` (parameterized); phase "aq" with `C` (tolerance 7) and `D` -/
def exSys : SystemDecl Nat :=
  { gas := [{ name := "B", atol := some 5 }, { name := "A" }, { name := "M", param := true }],
    phases := [("aq", [{ name := "C", atol := some 7 }, { name := "D" }])] }

/-- `B + A (+ M) → aq.C`, `aq.C → aq.D`, `aq.D → 2 B` -/
def exProcs : List (Process Nat) :=
  [ { reactants := [⟨"B", false⟩, ⟨"A", false⟩, ⟨"M", true⟩], products := [(⟨"aq.C", false⟩, 1)] },
    { reactants := [⟨"aq.C", false⟩], products := [(⟨"aq.D", false⟩, 1)] },
    { reactants := [⟨"aq.D", false⟩], products := [(⟨"B", false⟩, 2)] } ]

def exInput (reorder : Bool) : BuildInput Nat :=
  { system := some exSys, reactions := some exProcs, reorder := reorder }

example : exSys.uniqueNames = ["B", "A", "aq.C", "aq.D"] := by decide
example : exSys.uniqueNames.Nodup := by decide
example : exSys.stateSize = 4 := by decide
example : tolAssigns exSys = [("B", 5), ("aq.C", 7)] := by decide
example : TolOnNonParam exSys := by
  constructor
  · decide
  · decide

/-- reordering off: the map is `names[i] ↦ i` (stored sorted by key) -/
example : (getSpeciesMap exSys exProcs false).toOption = some [("A", 1), ("B", 0), ("aq.C", 2), ("aq.D", 3)] := by
  decide +kernel

/-- reordering on: the hypotheses of `C14_bijection` hold with a non-identity permutation -/
example : (getSpeciesMap exSys exProcs true).toOption = some [("A", 1), ("B", 3), ("aq.C", 2), ("aq.D", 0)] := by
  decide +kernel

/-- the build succeeds both ways; names, map and tolerances as the theorems say -/
example : ((build 1000 (fun _ => []) (exInput false)).toOption.map fun b => (b.variableNames, b.atol.toList))
    = some (["B", "A", "aq.C", "aq.D"], [5, 1000, 7, 1000]) := by
  decide +kernel

example : ((build 1000 (fun _ => []) (exInput true)).toOption.map fun b => (b.variableNames, b.atol.toList))
    = some (["aq.D", "A", "aq.C", "B"], [1000, 1000, 7, 5]) := by
  decide +kernel

theorem exBuild : ∃ b, build 1000 (fun _ => []) (exInput true) = .ok b := by
  cases h : build 1000 (fun _ => []) (exInput true) with
  | ok b => exact ⟨b, rfl⟩
  | error e =>
    have : (build 1000 (fun _ => []) (exInput true)).toOption.isSome = true := by decide +kernel
    rw [h] at this
    cases this

example : ∃ b, build 1000 (fun _ => []) (exInput true) = .ok b ∧
    b.variableNames.Perm ["B", "A", "aq.C", "aq.D"] ∧
    (∀ i name, b.variableNames[i]? = some name ↔ nmLookup b.speciesMap name = some i) ∧
    (∃ i, nmLookup b.speciesMap "aq.C" = some i ∧ rd b.atol i = 7) := by
  obtain ⟨b, hb⟩ := exBuild
  obtain ⟨-, -, hp, -, hv⟩ := C14_names_agree (sys := exSys) hb rfl (by decide)
  obtain ⟨-, -, hph, -⟩ := C14_tolerances (sys := exSys) hb rfl (by decide) (by decide)
  refine ⟨b, hb, hp, hv, ?_⟩
  obtain ⟨i, -, hi, -, hr⟩ := hph ("aq", _) List.mem_cons_self { name := "C", atol := some 7 } List.mem_cons_self 7 rfl
  exact ⟨i, hi, hr⟩

end C14Ex

end Micm

#print axioms Micm.C14_markowitz_perm
#print axioms Micm.C14_markowitz_zero
#print axioms Micm.C14_markowitzRow_swap
#print axioms Micm.C14_nmLookup_nmInsert
#print axioms Micm.C14_nmInsert_sorted
#print axioms Micm.C14_nmOfNames
#print axioms Micm.C14_nmOfNames_keys
#print axioms Micm.C14_stateSize
#print axioms Micm.C14_bijection
#print axioms Micm.C14_names_agree
#print axioms Micm.C14_setAbsoluteTolerances_ok
#print axioms Micm.C14_setAbsoluteTolerances_error_iff
#print axioms Micm.C14_mem_tolAssigns
#print axioms Micm.C14_tolerance_keys
#print axioms Micm.C14_tolerances_last_wins
#print axioms Micm.C14_tolerances
