/-
C14 / C17 (copy-assignment between States of different solvers) — `State::operator=(const State&)` as modelled by
`MState.assign`: the target takes the source's name map together with the source's data, so whatever the internal
species order of the solver the target came from, a by-name read on the assigned State is a by-name read on the
source; writing by name on the copy afterwards addresses the same species there (the source, an immutable value of the
model, is compared with the implementation's source State through the `after_a` field of the stream).

The correspondence stream `cpassign` runs exactly these calls on the implementation (two solvers for one species set
with different declaration orders, optionally Markowitz-reordered, `dst = src`, by-name reads, `SetConcentration` on
the copy, a Solve of the copy against a Solve of a copy-constructed State).
-/
import Micm.Properties.C20c

namespace Micm
set_option linter.unusedSectionVars false

section Assign
variable {α : Type} [OfNat α 0]

/-- **by-name reads after `dst = src` are the source's**, whatever name map `dst` had before -/
theorem C14_assign_reads_source (dst src : MState α) (name : String) (c : Nat) :
    (dst.assign src).concentration name c = src.concentration name c ∧
    (dst.assign src).parameter name c = src.parameter name c ∧
    (dst.assign src).varMap = src.varMap ∧ (dst.assign src).atol = src.atol := ⟨rfl, rfl, rfl, rfl⟩

/-- **a by-name write on the assigned copy** lands on that species of the copy (for every earlier name map of the
    target), leaves every other species of the copy as the source had it -/
theorem C14_assign_then_set (dst src st' : MState α) (wf : src.WF) (name : String) (vals : List α)
    (h : (dst.assign src).setConcentration name vals = .ok st') :
    (∀ c, c < src.nCells → st'.concentration name c = some (vals.getD c 0)) ∧
    (∀ other, other ≠ name → ∀ c, st'.concentration other c = src.concentration other c) := by
  have := C20_set_get_by_name (dst.assign src) st' wf name vals h
  exact ⟨this.1, this.2.1⟩

end Assign

/-- non-vacuity: two different name maps over the same two species -/
example :
    let a : MState Int := { varMap := [("s0", 1), ("s1", 0)], parMap := [], nVars := 2, nPars := 0,
                            vars := #[#[20, 10]], pars := #[#[]], atol := #[], rtol := 0 }
    let b : MState Int := { a with varMap := [("s0", 0), ("s1", 1)], vars := #[#[7, 8]] }
    (b.assign a).concentration "s0" 0 = some 10 ∧ b.concentration "s0" 0 = some 7 := by
  decide

#print axioms C14_assign_reads_source
#print axioms C14_assign_then_set
end Micm
