/-
C02 — "the matrix the library forms equals minus the partial derivatives of the forcing w.r.t. every
species at the declared sparse positions; every structurally possible non-zero derivative is
contained in the declared sparsity pattern; entries that no reaction touches stay zero."

Notation (helper definitions are in `Micm/Lemmas/Jacobian.lean`):
* `specReactIds m l`, `specProdIds m l`  resolved ids of the non-parameterized reactants / products
  (what `reactIdsOf` / `prodIdsOf` return when they succeed);
* `jacNet rs pr i = Σ_{(i, yld) ∈ pr} yld − count i rs`  net stoichiometric coefficient, so that the
  forcing of C01 reads `f_i = Σ_r jacNet_r(i) · k_r · Π_{l ∈ rs_r} y_l`;
* `dMonomial y rs j = count j rs · Π_{l ∈ rs.erase j} y_l`  formal `∂/∂y_j` of `Π_{l ∈ rs} y_l`
  (shown equal to the Leibniz recursion, to the expanded product rule, and to the evaluation of
  Mathlib's `MvPolynomial.pderiv`);
* the sparse addressing is abstracted: the numeric theorem assumes that `Pattern.rank` is injective
  and in range on the elements it accepts (the `Pattern.rank` specification is C19's);
* exact-arithmetic theorems are stated over `[CommRing K]` (no division occurs), which covers every
  `[Field K]`; see `C02_jacobian_field`.
-/
import Micm.Lemmas.Jacobian
import Micm.Lemmas.JacobianPDeriv
import Mathlib.Algebra.Field.Rat

namespace Micm

/-! ## 1. decode: the cursors never desynchronise (any carrier) -/

/-- `SubtractJacobianTerms` on streams that are per-entry concatenations is the fold, over the
    entries, of the single-entry update
    `d := k[pid] * Π_{x ∈ deps} y[x]`, `J[rk x ind] += d` (x ∈ deps), `J[rk ind ind] += d`,
    `J[rk p ind] -= yield_p * d` (products).  Trailing stream contents `r1 r2 r3` are ignored. -/
theorem C02_jacGo_decode {α : Type} [OfNat α 0] [Add α] [Sub α] [Mul α]
    (k y : Array α) (rk : Nat → Nat → Nat) (es : List (JEntry α)) (hwf : ∀ e ∈ es, e.WF)
    (r1 : List Nat) (r2 : List α) (r3 : List Nat) (J : Array α) :
    jacGo k y (es.map (·.info)) (es.flatMap (·.deps) ++ r1)
        (es.flatMap (fun e => e.prods.map (·.2)) ++ r2)
        (es.flatMap (fun e => e.deps.map (fun x => rk x e.info.ind) ++ [rk e.info.ind e.info.ind]
            ++ e.prods.map (fun p => rk p.1 e.info.ind)) ++ r3) J
      = es.foldl (fun J e =>
          let d := e.deps.foldl (fun acc i => acc * rd y i) (rd k e.info.pid)
          let J := (e.deps.map (fun x => rk x e.info.ind) ++ [rk e.info.ind e.info.ind]).foldl
            (fun J id => wr J id (rd J id + d)) J
          (e.prods.map (fun p => (rk p.1 e.info.ind, p.2))).foldl
            (fun J p => wr J p.1 (rd J p.1 - p.2 * d)) J) J :=
  jacGo_decode k y rk es hwf r1 r2 r3 J

/-- the same for arbitrary per-entry flat-id lists of the right lengths -/
theorem C02_jacGo_decode_gen {α : Type} [OfNat α 0] [Add α] [Sub α] [Mul α]
    (k y : Array α) (fa fb : JEntry α → List Nat) (es : List (JEntry α))
    (hwf : ∀ e ∈ es, e.WF)
    (hfa : ∀ e ∈ es, (fa e).length = e.deps.length + 1)
    (hfb : ∀ e ∈ es, (fb e).length = e.prods.length)
    (r1 : List Nat) (r2 : List α) (r3 : List Nat) (J : Array α) :
    jacGo k y (es.map (·.info)) (es.flatMap (·.deps) ++ r1)
        (es.flatMap (fun e => e.prods.map (·.2)) ++ r2)
        (es.flatMap (fun e => fa e ++ fb e) ++ r3) J
      = es.foldl (fun J e => jacEntryStep k y e.info.pid e.deps (fa e)
          ((fb e).zip (e.prods.map (·.2))) J) J :=
  jacGo_decode_gen k y fa fb es hwf hfa hfb r1 r2 r3 J

/-- `SetJacobianFlatIds` succeeds iff every written position is a present element, and then pushes,
    per entry, `dep ranks ++ [diag rank] ++ product ranks` -/
theorem C02_flatIds_decode {α : Type} (p : Pattern) (es : List (JEntry α)) (hwf : ∀ e ∈ es, e.WF)
    (r1 r2 : List Nat) (flat : List Nat) :
    flatIdsGo p (es.map (·.info)) (es.flatMap (·.deps) ++ r1)
        (es.flatMap (fun e => e.prods.map (·.1)) ++ r2) = .ok flat
      ↔ (∀ e ∈ es, e.Present p) ∧ flat = es.flatMap (entryFlatIds p.rk) :=
  flatIdsGo_decode p es hwf r1 r2 flat

/-- `C02_build_entries`: the tables of a successfully built process set are the concatenated
    streams of the nested second constructor loop over the resolved processes. -/
theorem C02_build_entries {α : Type} (procs : List (Process α)) (m : NameMap) (t : PSTables α)
    (h : ProcessSet.build procs m = .ok t) :
    let es := buildJacobianEntries (sortByIdx m) (procs.map (resolveProc m))
    (∀ e ∈ es, e.WF) ∧
    t.jInfo = es.map (·.info) ∧ t.jReactIds = es.flatMap (·.deps) ∧
    t.jProdIds = es.flatMap (fun e => e.prods.map (·.1)) ∧
    t.jYields = es.flatMap (fun e => e.prods.map (·.2)) := by
  obtain ⟨h1, h2, h3, h4, _⟩ := jac_build_ok procs m t h
  exact ⟨buildJacobianEntries_WF _ _, h1, h2, h3, h4⟩

/-! ## 2. one entry = one term of the product rule -/

/-- The closed form of the derivative is not ad hoc: it equals the Leibniz recursion, the expanded
    product rule (sum over the positions holding `j` of the product of the other factors), and the
    evaluation of Mathlib's `MvPolynomial.pderiv` of the rateMonomial `Π X_l`. -/
theorem C02_dMonomial_is_derivative {K : Type} [CommRing K] (y : Nat → K) (rs : List Nat) (j : Nat) :
    dMonomial y rs j = dMonomialLeibniz y rs j ∧
    dMonomial y rs j = (((List.range rs.length).filter (fun q => rs[q]? = some j)).map
        (fun q => ((rs.eraseIdx q).map y).prod)).sum ∧
    dMonomial y rs j = MvPolynomial.eval y (MvPolynomial.pderiv j (monomialPoly K rs)) ∧
    rateMonomial y rs = MvPolynomial.eval y (monomialPoly K rs) :=
  ⟨dMonomial_eq_leibniz y rs j, dMonomial_eq_pos y rs j, (eval_pderiv_monomialPoly y rs j).symm,
    (eval_monomialPoly y rs).symm⟩

/-- For one reaction `p` and one independent variable `nv = (name, ind)` of the map, the second
    constructor loop creates one entry per occurrence of `ind` among the resolved reactants `rs`,
    each with dependents `rs.erase ind` (first occurrence removed); the `d_rate_d_ind` values these
    entries compute add up to `k · ∂(Π_{l ∈ rs} y_l)/∂y_ind`. -/
theorem C02_entry_is_partial_derivative {K : Type} [CommRing K]
    (m : NameMap) (hk : (m.map (·.1)).Nodup) (hv : (m.map (·.2)).Nodup)
    (nv : String × Nat) (hnv : nv ∈ m) (p : Process K)
    (hparam : ∀ r ∈ p.reactants, r.param = true → nmLookup m r.name = none) (y : Array K) (kr : K) :
    let rs := specReactIds m p.reactants
    let es := buildJacobianEntries [nv] [resolveProc m p]
    es.length = rs.count nv.2 ∧
    (∀ e ∈ es, e.deps = rs.erase nv.2 ∧ e.info.ind = nv.2 ∧ e.prods = specProdIds m p.products) ∧
    (es.map fun e => e.deps.foldl (fun acc i => acc * rd y i) kr).sum
      = kr * dMonomial (rd y) rs nv.2 := by
  refine ⟨?_, ?_, entries_single_sum m hk hv nv hnv p hparam y kr⟩
  · rw [entries_single m hk hv nv hnv p hparam, List.length_replicate]
  · intro e he
    rw [entries_single m hk hv nv hnv p hparam] at he
    rw [(List.mem_replicate.mp he).2]
    exact ⟨rfl, rfl, rfl⟩

/-! ## 3. the matrix formed is minus the Jacobian of the forcing -/

/-- For a successfully built process set (name map with distinct names and distinct indices,
    parameterized reactants not in the map — as `GetSpeciesMap` guarantees), flat ids that
    `SetJacobianFlatIds` computed on a pattern whose ranks are injective and in range: starting from
    any `J0`, for every present element `(i, j)` with rank `q`,
    `J[q] = J0[q] − Σ_r net_r(i) · k_r · ∂(Π_{l ∈ reactants r} y_l)/∂y_j`. -/
theorem C02_jacobian {K : Type} [CommRing K] (procs : List (Process K)) (m : NameMap)
    (t : PSTables K) (hb : ProcessSet.build procs m = .ok t)
    (hk : (m.map (·.1)).Nodup) (hv : (m.map (·.2)).Nodup)
    (hparam : ∀ p ∈ procs, ∀ r ∈ p.reactants, r.param = true → nmLookup m r.name = none)
    (p : Pattern) (flat : List Nat) (hf : t.jacobianFlatIds p = .ok flat)
    (hinj : ∀ r c r' c' q, p.rank r c = .ok q → p.rank r' c' = .ok q → r = r' ∧ c = c')
    (k y J0 : Array K) (hrange : ∀ r c q, p.rank r c = .ok q → q < J0.size)
    (i j q : Nat) (hq : p.rank i j = .ok q) :
    rd (t.subtractJacobianCell flat k y J0) q
      = rd J0 q - (procs.zipIdx.map fun pi =>
          jacNet (specReactIds m pi.1.reactants) (specProdIds m pi.1.products) i
            * (rd k pi.2 * dMonomial (rd y) (specReactIds m pi.1.reactants) j)).sum :=
  jacobian_value procs m t hb hk hv hparam p flat hf hinj k y J0 hrange i j q hq

/-- from a zero-filled block the matrix is `−∂f_i/∂y_j` at every present element -/
theorem C02_jacobian_zero {K : Type} [CommRing K] (procs : List (Process K)) (m : NameMap)
    (t : PSTables K) (hb : ProcessSet.build procs m = .ok t)
    (hk : (m.map (·.1)).Nodup) (hv : (m.map (·.2)).Nodup)
    (hparam : ∀ p ∈ procs, ∀ r ∈ p.reactants, r.param = true → nmLookup m r.name = none)
    (p : Pattern) (flat : List Nat) (hf : t.jacobianFlatIds p = .ok flat)
    (hinj : ∀ r c r' c' q, p.rank r c = .ok q → p.rank r' c' = .ok q → r = r' ∧ c = c')
    (k y : Array K) (n : Nat) (hrange : ∀ r c q, p.rank r c = .ok q → q < n)
    (i j q : Nat) (hq : p.rank i j = .ok q) :
    rd (t.subtractJacobianCell flat k y (Array.replicate n 0)) q
      = - (procs.zipIdx.map fun pi =>
          jacNet (specReactIds m pi.1.reactants) (specProdIds m pi.1.products) i
            * (rd k pi.2 * dMonomial (rd y) (specReactIds m pi.1.reactants) j)).sum := by
  rw [C02_jacobian procs m t hb hk hv hparam p flat hf hinj k y (Array.replicate n 0)
    (by simpa using hrange) i j q hq]
  have : rd (Array.replicate n (0 : K)) q = 0 := by
    unfold rd
    by_cases h : q < n <;> simp [Array.getD_eq_getD_getElem?, h]
  rw [this, zero_sub]

/-- the `[Field K]` reading of `C02_jacobian_zero` (a field is a commutative ring; the model's
    `Add K`, `Mul K`, … instances are the field's) -/
theorem C02_jacobian_field {K : Type} [Field K] (procs : List (Process K)) (m : NameMap)
    (t : PSTables K) (hb : ProcessSet.build procs m = .ok t)
    (hk : (m.map (·.1)).Nodup) (hv : (m.map (·.2)).Nodup)
    (hparam : ∀ p ∈ procs, ∀ r ∈ p.reactants, r.param = true → nmLookup m r.name = none)
    (p : Pattern) (flat : List Nat) (hf : t.jacobianFlatIds p = .ok flat)
    (hinj : ∀ r c r' c' q, p.rank r c = .ok q → p.rank r' c' = .ok q → r = r' ∧ c = c')
    (k y : Array K) (n : Nat) (hrange : ∀ r c q, p.rank r c = .ok q → q < n)
    (i j q : Nat) (hq : p.rank i j = .ok q) :
    rd (t.subtractJacobianCell flat k y (Array.replicate n 0)) q
      = - (procs.zipIdx.map fun pi =>
          jacNet (specReactIds m pi.1.reactants) (specProdIds m pi.1.products) i
            * (rd k pi.2 * dMonomial (rd y) (specReactIds m pi.1.reactants) j)).sum :=
  C02_jacobian_zero procs m t hb hk hv hparam p flat hf hinj k y n hrange i j q hq

/-! ## 4. the declared pattern is complete; untouched slots are unchanged -/

/-- every position `(x, ind)`, `(ind, ind)`, `(p, ind)` that some Jacobian entry writes is a member
    of `NonZeroJacobianElements` -/
theorem C02_pattern_complete {α : Type} (procs : List (Process α)) (m : NameMap) (t : PSTables α)
    (hb : ProcessSet.build procs m = .ok t) (hk : (m.map (·.1)).Nodup)
    (hparam : ∀ p ∈ procs, ∀ r ∈ p.reactants, r.param = true → nmLookup m r.name = none) :
    ∀ e ∈ buildJacobianEntries (sortByIdx m) (procs.map (resolveProc m)),
      (∀ x ∈ e.deps, (x, e.info.ind) ∈ t.nonZeroJacobianElements) ∧
      (e.info.ind, e.info.ind) ∈ t.nonZeroJacobianElements ∧
      ∀ pr ∈ e.prods, (pr.1, e.info.ind) ∈ t.nonZeroJacobianElements :=
  entries_in_nonZero procs m t hb hk hparam

/-- hence `SetJacobianFlatIds` never hits `ZeroElementAccess` (nor any other error) on a pattern
    in which every declared element has a rank — e.g. the one built from
    `buildJacobianSet n t.nonZeroJacobianElements`, or any superset such as the fill-closed one -/
theorem C02_flatids_defined {α : Type} (procs : List (Process α)) (m : NameMap) (t : PSTables α)
    (hb : ProcessSet.build procs m = .ok t) (hk : (m.map (·.1)).Nodup)
    (hparam : ∀ p ∈ procs, ∀ r ∈ p.reactants, r.param = true → nmLookup m r.name = none)
    (p : Pattern) (hp : ∀ x ∈ t.nonZeroJacobianElements, ∃ q, p.rank x.1 x.2 = .ok q) :
    ∃ flat, t.jacobianFlatIds p = .ok flat :=
  ⟨_, flatIds_defined procs m t hb hk hparam p hp⟩

/-- slots whose rank is not among the flat ids are unchanged (stay zero), for *any* streams -/
theorem C02_untouched {α : Type} [OfNat α 0] [Add α] [Sub α] [Mul α] (t : PSTables α)
    (flat : List Nat) (k y J : Array α) (q : Nat) (hq : q ∉ flat) :
    rd (t.subtractJacobianCell flat k y J) q = rd J q ∧
    (t.subtractJacobianCell flat k y J).size = J.size :=
  ⟨jacGo_untouched k y _ _ _ flat J q hq, jacGo_size k y _ _ _ flat J⟩

/-! ## 5. `NonZeroJacobianElements` -/

/-- the declared set is exactly `{(d, i) | some reaction has i among its reactants and d among its
    reactants or products}`, strictly sorted (so duplicate free) like the `std::set` it models -/
theorem C02_nonZero_spec {α : Type} (procs : List (Process α)) (m : NameMap) (t : PSTables α)
    (hb : ProcessSet.build procs m = .ok t) :
    (∀ x : Pair, x ∈ t.nonZeroJacobianElements ↔ ∃ p ∈ procs, x.2 ∈ specReactIds m p.reactants ∧
      (x.1 ∈ specReactIds m p.reactants ∨ x.1 ∈ (specProdIds m p.products).map (·.1))) ∧
    t.nonZeroJacobianElements.Pairwise (fun a b => pairLt a b = true) ∧
    t.nonZeroJacobianElements.Nodup :=
  ⟨mem_nonZero_of_build procs m t hb,
    nonZeroGo_sorted _ _ _ _ [] List.Pairwise.nil,
    (nonZeroGo_sorted _ _ _ _ [] List.Pairwise.nil).nodup⟩

/-- stream-level form: no hypothesis on how the tables were built -/
theorem C02_nonZeroGo_spec (rxs : List (List Nat × List Nat)) (r1 r2 : List Nat) (s : List Pair)
    (x : Pair) :
    x ∈ nonZeroGo (rxs.map (·.1.length)) (rxs.map (·.2.length)) (rxs.flatMap (·.1) ++ r1)
        (rxs.flatMap (·.2) ++ r2) s
      ↔ x ∈ s ∨ ∃ rx ∈ rxs, x.2 ∈ rx.1 ∧ (x.1 ∈ rx.1 ∨ x.1 ∈ rx.2) :=
  mem_nonZeroGo rxs r1 r2 s x

/-! ## Examples: `s0 + s0 + s1 → 2 s2 ;  s2 → s0`   (A + A + B: the multiplicity `2kAB`) -/

section Example

def c02Procs (K : Type) [OfNat K 2] [OfNat K 1] : List (Process K) :=
  [ { reactants := [⟨"s0", false⟩, ⟨"s0", false⟩, ⟨"s1", false⟩], products := [(⟨"s2", false⟩, 2)] },
    { reactants := [⟨"s2", false⟩], products := [(⟨"s0", false⟩, 1)] } ]

def c02Map : NameMap := [("s0", 0), ("s1", 1), ("s2", 2)]

def c02Tables (K : Type) [OfNat K 2] [OfNat K 1] : PSTables K :=
  { nReact := [3, 1], reactIds := [0, 0, 1, 2], nProd := [1, 1], prodIds := [2, 0], yields := [2, 1],
    jInfo := [⟨0, 0, 2, 1⟩, ⟨0, 0, 2, 1⟩, ⟨0, 1, 2, 1⟩, ⟨1, 2, 0, 1⟩],
    jReactIds := [0, 1, 0, 1, 0, 0], jProdIds := [2, 2, 2, 0], jYields := [2, 2, 2, 1] }

/-- the constructor produces two entries for (reaction 0, s0) -/
theorem c02Build (K : Type) [OfNat K 2] [OfNat K 1] :
    ProcessSet.build (c02Procs K) c02Map = .ok (c02Tables K) := rfl

/-- CSR, standard ordering, pattern = declared elements + diagonal (8 of the 9 positions) -/
def c02Pattern : Pattern :=
  Pattern.mk' 3 false 0 (buildJacobianSet 3 (c02Tables Rat).nonZeroJacobianElements)

def c02FlatIds : List Nat := [0, 3, 0, 5, 0, 3, 0, 5, 1, 1, 4, 6, 7, 2]

example : (c02Tables Rat).nonZeroJacobianElements
    = [(0, 0), (0, 1), (0, 2), (1, 0), (1, 1), (2, 0), (2, 1), (2, 2)] := by decide +kernel

theorem c02Flat' : flatIdsGo c02Pattern [⟨0, 0, 2, 1⟩, ⟨0, 0, 2, 1⟩, ⟨0, 1, 2, 1⟩, ⟨1, 2, 0, 1⟩]
    [0, 1, 0, 1, 0, 0] [2, 2, 2, 0] = .ok c02FlatIds := by decide +kernel

theorem c02Flat (K : Type) [OfNat K 2] [OfNat K 1] :
    (c02Tables K).jacobianFlatIds c02Pattern = .ok c02FlatIds := c02Flat'

/-- numbers: `k = (3, 5)`, `y = (2, 7, 11)`; e.g. `J[0,0] = 4·k0·y0·y1 = 168` (multiplicity!) -/
example : ((c02Tables Rat).subtractJacobianCell c02FlatIds #[3, 5] #[2, 7, 11] (Array.replicate 8 0)).toList
    = [168, 24, -5, 84, 12, -168, -24, 5] := by decide +kernel

/-- symbols: the computed block equals the hand-written `−∂f/∂y` of
    `f0 = −2·k0·a²·b + k1·c`, `f1 = −k0·a²·b`, `f2 = 2·k0·a²·b − k1·c`
    at the 8 pattern positions `(0,0) (0,1) (0,2) (1,0) (1,1) (2,0) (2,1) (2,2)` -/
example {K : Type} [Field K] (k0 k1 a b c : K) :
    (c02Tables K).subtractJacobianCell c02FlatIds #[k0, k1] #[a, b, c] #[0, 0, 0, 0, 0, 0, 0, 0]
      = #[4 * k0 * a * b, 2 * k0 * a * a, -k1, 2 * k0 * a * b, k0 * a * a,
          -(4 * k0 * a * b), -(2 * k0 * a * a), k1] := by
  simp [PSTables.subtractJacobianCell, c02Tables, c02FlatIds, jacGo, rd, wr]
  refine ⟨?_, ?_, ?_, ?_, ?_⟩ <;> ring

/-! the hypotheses of `C02_jacobian` are satisfiable on this instance -/

theorem c02Rank_bound (r c q : Nat) (h : c02Pattern.rank r c = .ok q) : r < 3 ∧ c < 3 := by
  unfold Pattern.rank at h
  have hs : c02Pattern.start.size - 1 = 3 := by decide +kernel
  rw [hs] at h
  by_cases hb : (decide (r ≥ 3) || decide (c ≥ 3)) = true
  · simp [hb] at h
  · simp only [Bool.or_eq_true, decide_eq_true_eq, not_or, not_le] at hb
    exact hb

theorem c02Rank_inj (r c r' c' q : Nat) (h : c02Pattern.rank r c = .ok q)
    (h' : c02Pattern.rank r' c' = .ok q) : r = r' ∧ c = c' := by
  obtain ⟨h1, h2⟩ := c02Rank_bound r c q h
  obtain ⟨h3, h4⟩ := c02Rank_bound r' c' q h'
  have key : ∀ a < 9, ∀ b < 9,
      (c02Pattern.rank (a / 3) (a % 3)).toOption = (c02Pattern.rank (b / 3) (b % 3)).toOption →
      (c02Pattern.rank (a / 3) (a % 3)).toOption.isSome = true → a = b := by decide +kernel
  have e1 : (3 * r + c) / 3 = r := by omega
  have e2 : (3 * r + c) % 3 = c := by omega
  have e3 : (3 * r' + c') / 3 = r' := by omega
  have e4 : (3 * r' + c') % 3 = c' := by omega
  have := key (3 * r + c) (by omega) (3 * r' + c') (by omega)
    (by rw [e1, e2, e3, e4, h, h']) (by rw [e1, e2, h]; rfl)
  omega

theorem c02Rank_range (r c q : Nat) (h : c02Pattern.rank r c = .ok q) : q < 8 := by
  obtain ⟨h1, h2⟩ := c02Rank_bound r c q h
  have key : ∀ r < 3, ∀ c < 3, (c02Pattern.rank r c).toOption.getD 0 < 8 := by decide +kernel
  have := key r h1 c h2
  rw [h] at this
  exact this

/-- `C02_jacobian_field` instantiated: element `(0,0)` of the block (rank 0) is
    `−∂f0/∂y0 = 4·k0·y0·y1`, element `(2,1)` (rank 6) is `−∂f2/∂y1 = −2·k0·y0²` -/
example {K : Type} [Field K] (k0 k1 a b c : K) :
    rd ((c02Tables K).subtractJacobianCell c02FlatIds #[k0, k1] #[a, b, c] (Array.replicate 8 0)) 0
        = 4 * k0 * a * b ∧
    rd ((c02Tables K).subtractJacobianCell c02FlatIds #[k0, k1] #[a, b, c] (Array.replicate 8 0)) 6
        = -(2 * k0 * a * a) := by
  have hparam : ∀ p ∈ c02Procs K, ∀ r ∈ p.reactants, r.param = true → nmLookup c02Map r.name = none := by
    simp [c02Procs]
  have h00 : c02Pattern.rank 0 0 = .ok 0 := by decide +kernel
  have h21 : c02Pattern.rank 2 1 = .ok 6 := by decide +kernel
  have hk : (c02Map.map (·.1)).Nodup := by decide
  have hv : (c02Map.map (·.2)).Nodup := by decide
  constructor
  · rw [C02_jacobian_field (c02Procs K) c02Map (c02Tables K) (c02Build K) hk hv hparam c02Pattern c02FlatIds
      (c02Flat K) c02Rank_inj _ _ 8 c02Rank_range 0 0 0 h00]
    simp [c02Procs, c02Map, specReactIds, specProdIds, nmLookup, jacNet, dMonomial, rd]
    ring
  · rw [C02_jacobian_field (c02Procs K) c02Map (c02Tables K) (c02Build K) hk hv hparam c02Pattern c02FlatIds
      (c02Flat K) c02Rank_inj _ _ 8 c02Rank_range 2 1 6 h21]
    simp [c02Procs, c02Map, specReactIds, specProdIds, nmLookup, jacNet, dMonomial, rd]
    ring

/-- the closed-form derivative on `A·A·B`: `∂(y0·y0·y1)/∂y0 = 2·y0·y1` -/
example {K : Type} [Field K] (y : Nat → K) : dMonomial y [0, 0, 1] 0 = 2 * y 0 * y 1 := by
  simp [dMonomial]; ring

/-! The hypothesis `hparam` is necessary (observation about the source, not a model artefact): the
    outer test of the second constructor loop compares *names* before `IsParameterized()` is
    consulted, so a parameterized reactant whose name is also a state variable gets an entry.
    `s0(parameterized) + s1 → s2 ; s0 → s1 + s2` with `s0` in the map: flat ids are computed without
    error and `J[0,0]` becomes `k0·y1 + k1 = 26` instead of `−∂f0/∂y0 = k1 = 5`.
    (`SolverBuilder::GetSpeciesMap` never produces such a map: `Phase::UniqueNames` drops
    parameterized species; it needs a reactant `Species` copy that is parameterized while the
    phase's species of the same name is not.) -/

def c02BadProcs : List (Process Rat) :=
  [ { reactants := [⟨"s0", true⟩, ⟨"s1", false⟩], products := [(⟨"s2", false⟩, 1)] },
    { reactants := [⟨"s0", false⟩], products := [(⟨"s1", false⟩, 1), (⟨"s2", false⟩, 1)] } ]

example :
    (do let t ← (ProcessSet.build c02BadProcs c02Map).toOption
        let p := Pattern.mk' 3 false 0 (buildJacobianSet 3 t.nonZeroJacobianElements)
        let flat ← (t.jacobianFlatIds p).toOption
        let r ← (p.rank 0 0).toOption
        pure (rd (t.subtractJacobianCell flat #[3, 5] #[2, 7, 11] (Array.replicate p.nnz 0)) r))
      = some (26 : Rat) := by decide +kernel

end Example

#print axioms C02_jacGo_decode
#print axioms C02_jacGo_decode_gen
#print axioms C02_flatIds_decode
#print axioms C02_build_entries
#print axioms C02_dMonomial_is_derivative
#print axioms C02_entry_is_partial_derivative
#print axioms C02_jacobian
#print axioms C02_jacobian_zero
#print axioms C02_jacobian_field
#print axioms C02_pattern_complete
#print axioms C02_flatids_defined
#print axioms C02_untouched
#print axioms C02_nonZero_spec
#print axioms C02_nonZeroGo_spec

end Micm
