/-
C06 (backward-Euler part) — counters, time and state bookkeeping of `BackwardEuler::Solve`.

Subject: `beStep` / `beLoop` / `beSolve` of `Micm/Model/BackwardEuler.lean`.  Vocabulary
(`Micm/Lemmas/BackwardEuler.lean`):
* `beHead o T r`                 the state after the `while (t < time_step)` test;
* `beCompletes … r : Bool`       the iteration from `r` ends an outer iteration (accept or reject);
* `beOuterCount … N r`           number of outer iterations completed by the first `N` iterations;
* `beInit h Y sc`, `beInitialH`  the state in which `beSolve` enters the loop; the first `H`
                                 (`h_start == 0 ? time_step : min(h_start, time_step)`);
* `BECountInv`, `BECtlInv p`, `BETimeInv T`  the loop invariants (fields spelled out in the theorems).

Repaired defect recorded here (`C06_be_old_overshoot`): the source used to start with
`H = h_start == 0 ? time_step : h_start`, *not* clipped to `time_step` (`H` was clipped by
`min(H, time_step − t)` only at the *end* of an outer iteration).  With `h_start > time_step` the first
outer iteration then integrated over `h_start`, and the solve reported `Converged` with
`final_time = h_start > time_step`.  `beSolveOld` below is a copy of `beSolve` with that first step; the
current source and model clip the first step, and the time bounds below need only `0 ≤ h_start`.
-/
import Micm.Lemmas.BackwardEuler

namespace Micm
set_option linter.unusedSectionVars false

section Any
variable {α : Type} [OfNat α 0] [OfNat α 1] [OfNat α 2] [Add α] [Sub α] [Mul α] [Div α]
variable (o : Ops α) (s : SolverCfg α) (p : BEParams α) (kc : Mat α) (atol : Array α) (rtol : α)
    (T : α)

/-- **counters, one iteration** (any carrier, any state): `accepted` and `rejected` never decrease,
    and their sum grows by exactly one when the iteration completes an outer iteration, by zero
    otherwise. -/
theorem C06_be_counters_step (r : BEState α) :
    r.stats.accepted ≤ (beStep o s p kc atol rtol T r).stats.accepted ∧
    r.stats.rejected ≤ (beStep o s p kc atol rtol T r).stats.rejected ∧
    (beStep o s p kc atol rtol T r).stats.accepted + (beStep o s p kc atol rtol T r).stats.rejected =
      r.stats.accepted + r.stats.rejected + (if beCompletes o s p kc atol rtol T r then 1 else 0) :=
  beStep_acc_rej o s p kc atol rtol T r

/-- **counters, the loop** (any carrier).  From a state in which the five per-iteration counters
    agree with the length of the trace and the control invariants hold (both are true of the initial
    state of `beSolve`: `C06_be_counters_solve`), where `beLoop` stops:
    * `function_calls = jacobian_updates = decompositions = solves = number_of_steps`
      = number of Newton iterations made (`trace.length`);
    * every completed outer iteration made between 1 and `max 1 max_number_of_steps` Newton
      iterations: `accepted + rejected + iterations ≤ trace.length ≤ (accepted + rejected)·max 1 maxSteps + iterations`;
    * `rejected = n_convergence_failures (+1 at the give-up exit)`, hence `rejected ≤ reductions.length + 1`
      for the whole solve (`n_convergence_failures` is never reset). -/
theorem C06_be_counters (fuel : Nat) (r : BEState α) (hc : BECountInv r) (hi : BECtlInv p r) :
    let r' := beLoop o s p kc atol rtol T fuel r
    (r'.stats.functionCalls = r'.trace.length ∧ r'.stats.jacobianUpdates = r'.trace.length ∧
     r'.stats.decompositions = r'.trace.length ∧ r'.stats.solves = r'.trace.length ∧
     r'.stats.numberOfSteps = r'.trace.length) ∧
    r'.stats.accepted + r'.stats.rejected + r'.iterations ≤ r'.trace.length ∧
    r'.trace.length ≤ (r'.stats.accepted + r'.stats.rejected) * max 1 p.maxSteps + r'.iterations ∧
    r'.stats.rejected =
      r'.nFail + (if r'.status = .acceptingUnconvergedIntegration then 1 else 0) ∧
    r'.stats.rejected ≤ p.reductions.length + 1 := by
  intro r'
  have h1 := BECountInv_loop o s p kc atol rtol T fuel r hc
  have h2 := BECtlInv_loop o s p kc atol rtol T fuel r hi
  refine ⟨h1, h2.lower, h2.upper, h2.rej, ?_⟩
  have e := h2.rej
  have f := h2.nFail
  show (beLoop o s p kc atol rtol T fuel r).stats.rejected ≤ p.reductions.length + 1
  split at e <;> omega

/-- `accepted + rejected` = number of completed outer iterations, along the iterates of the loop -/
theorem C06_be_outer_iterations (N : Nat) (r : BEState α) :
    ((beStep o s p kc atol rtol T)^[N] r).stats.accepted +
      ((beStep o s p kc atol rtol T)^[N] r).stats.rejected =
      r.stats.accepted + r.stats.rejected + beOuterCount o s p kc atol rtol T N r :=
  beIter_acc_rej o s p kc atol rtol T N r

/-- **counters, the whole solve** (any carrier): the result of `beSolve` has all five per-iteration
    counters equal to the number of reported iterations, `rejected ≤ reductions.length + 1`, and
    `accepted + rejected` equal to the number of outer iterations completed by the `N ≤ fuel`
    iterations that were run. -/
theorem C06_be_counters_solve (Y : Mat α) (sc : Scratch α) (fuel : Nat) :
    let res := beSolve o s p kc atol rtol T Y sc fuel
    res.stats.functionCalls = res.trace.length ∧ res.stats.jacobianUpdates = res.trace.length ∧
    res.stats.decompositions = res.trace.length ∧ res.stats.solves = res.trace.length ∧
    res.stats.numberOfSteps = res.trace.length ∧
    res.stats.accepted + res.stats.rejected ≤ res.trace.length ∧
    res.trace.length ≤ (res.stats.accepted + res.stats.rejected + 1) * max 1 p.maxSteps ∧
    res.stats.rejected ≤ p.reductions.length + 1 ∧
    ∃ N, N ≤ fuel ∧ res.stats.accepted + res.stats.rejected =
      beOuterCount o s p kc atol rtol T N (beInit (beInitialH o p T) Y sc) := by
  intro res
  obtain ⟨⟨c1, c2, c3, c4, c5⟩, c6, c7, _, c9⟩ := C06_be_counters o s p kc atol rtol T fuel
    (beInit (beInitialH o p T) Y sc) (BECountInv_init _ _ _) (BECtlInv_init p _ _ _)
  have hi := (BECtlInv_loop o s p kc atol rtol T fuel _ (BECtlInv_init p (beInitialH o p T) Y sc)).iters
  have hl : res.trace.length = (beLoop o s p kc atol rtol T fuel (beInit (beInitialH o p T) Y sc)).trace.length := by
    simp only [res, beSolve_eq, List.length_map, List.length_reverse]
  have hst : res.stats = (beLoop o s p kc atol rtol T fuel (beInit (beInitialH o p T) Y sc)).stats := rfl
  rw [hl, hst]
  refine ⟨c1, c2, c3, c4, c5, by omega, ?_, c9, ?_⟩
  · have hM : 1 ≤ max 1 p.maxSteps := Nat.le_max_left _ _
    have hM2 : p.maxSteps ≤ max 1 p.maxSteps := Nat.le_max_right _ _
    rw [Nat.add_mul, Nat.one_mul]
    rcases hi with h | h <;> omega
  · obtain ⟨N, hN, _, hcase⟩ := beLoop_eq_iterate o s p kc atol rtol T fuel
      (beInit (beInitialH o p T) Y sc)
    refine ⟨N, hN, ?_⟩
    have := beIter_acc_rej o s p kc atol rtol T N (beInit (beInitialH o p T) Y sc)
    rcases hcase with ⟨_, h⟩ | ⟨_, _, h⟩
    · rw [h, this]; simp [beInit]
    · rw [h]; simp only []; rw [this]; simp [beInit]

/-- **state on failure** (any carrier).  `Yn` (the last accepted solution) changes only when an outer
    iteration is accepted, and then becomes the new `Yn1`. -/
theorem C06_be_Yn (r : BEState α) :
    ((beStep o s p kc atol rtol T r).Yn = r.Yn ∧
      (beStep o s p kc atol rtol T r).stats.accepted = r.stats.accepted) ∨
    ((beStep o s p kc atol rtol T r).Yn = (beStep o s p kc atol rtol T r).Yn1 ∧
      (beStep o s p kc atol rtol T r).stats.accepted = r.stats.accepted + 1 ∧
      (beStep o s p kc atol rtol T r).status = .converged) :=
  beStep_Yn o s p kc atol rtol T r

/-- **state on failure** (any carrier).  An iteration that counts a rejection and does not end the
    solve (a failed outer iteration that is retried) leaves `Yn1 = Yn =` the last accepted solution,
    does not advance `t`, and starts a fresh outer iteration. -/
theorem C06_be_state_on_failure (r : BEState α)
    (h1 : (beStep o s p kc atol rtol T r).stats.rejected = r.stats.rejected + 1)
    (h2 : (beStep o s p kc atol rtol T r).done = false) :
    (beStep o s p kc atol rtol T r).Yn1 = r.Yn ∧ (beStep o s p kc atol rtol T r).Yn = r.Yn ∧
    (beStep o s p kc atol rtol T r).t = r.t ∧ (beStep o s p kc atol rtol T r).iterations = 0 ∧
    (beStep o s p kc atol rtol T r).stats.accepted = r.stats.accepted := by
  obtain ⟨a, b, c, d⟩ := beStep_retry_of_rejected o s p kc atol rtol T r h1 h2
  rw [beStep_of_retry o s p kc atol rtol T r a b c d]
  simp [beRetry, beNewton]

/-- at the start of every outer iteration `Yn1 = Yn` (from the initial state of `beSolve`, where
    `Yn.Copy(Yn1)`), and at the give-up exit `Yn` still holds the last accepted solution while `Yn1`
    holds the un-converged iterate ("accept the current H but do not update the Yn vector") -/
theorem C06_be_start_state (Y : Mat α) (sc : Scratch α) (fuel : Nat) :
    let r' := beLoop o s p kc atol rtol T fuel (beInit (beInitialH o p T) Y sc)
    r'.iterations = 0 → r'.done = false → r'.Yn1 = r'.Yn :=
  (BECtlInv_loop o s p kc atol rtol T fuel _ (BECtlInv_init p (beInitialH o p T) Y sc)).start

end Any

section Ordered
variable {K : Type} [Field K] [LinearOrder K] [IsStrictOrderedRing K]
variable {o : Ops K} (ho : OrderedOps o) (s : SolverCfg K) (p : BEParams K) (kc : Mat K)
    (atol : Array K) (rtol : K) (T : K)

include ho in
/-- **time, along the loop** (ordered field, comparisons as in `OrderedOps`).  Hypotheses:
    `0 < time_step`, `0 ≤ h_start` (no upper bound: the first `H` is `min(h_start, time_step)`), every
    reduction factor `≥ 0` (nothing else about the factors is needed: the clip
    `H = min(H, time_step − t)` does the rest).  Then in every loop state
    `rₖ` reached from the initial state of `beSolve` through not-`done` states:
    `0 ≤ t ≤ time_step`, `0 ≤ H`, and while the loop is running `H ≤ time_step − t`
    (so an accepted outer iteration never steps past `time_step`). -/
theorem C06_be_time_iterates (hT : 0 < T) (hs0 : 0 ≤ p.hstart)
    (hred : ∀ x ∈ p.reductions, 0 ≤ x) (Y : Mat K) (sc : Scratch K) (k : Nat)
    (hk : ∀ j, j < k →
      ((beStep o s p kc atol rtol T)^[j] (beInit (beInitialH o p T) Y sc)).done = false) :
    let r := (beStep o s p kc atol rtol T)^[k] (beInit (beInitialH o p T) Y sc)
    0 ≤ r.t ∧ r.t ≤ T ∧ 0 ≤ r.h ∧ (r.done = false → r.h ≤ T - r.t) := by
  have hinit : BETimeInv T (beInit (beInitialH o p T) Y sc) := by
    obtain ⟨b0, bT⟩ := beInitialH_bounds ho p T hT hs0
    exact BETimeInv_init T hT _ b0 bT Y sc
  have : BETimeInv T ((beStep o s p kc atol rtol T)^[k] (beInit (beInitialH o p T) Y sc)) := by
    induction k with
    | zero => exact hinit
    | succ k ih =>
      rw [Function.iterate_succ_apply']
      exact BETimeInv_step ho s p kc atol rtol T hred _ (hk k (by omega)) (ih (fun j hj => hk j (by omega)))
  exact ⟨this.t0, this.tT, this.h0, this.hle⟩

include ho in
/-- **time, the whole solve** (same hypotheses): `0 ≤ final_time ≤ time_step`; the reported status is
    `Converged`, `AcceptingUnconvergedIntegration` or (model only) `outOfFuel`; and
    `Converged ⇒ final_time = time_step` exactly — whereas `AcceptingUnconvergedIntegration` may stop
    earlier (`BEEx` example below: `final_time = 1/8`). -/
theorem C06_be_time (hT : 0 < T) (hs0 : 0 ≤ p.hstart)
    (hred : ∀ x ∈ p.reductions, 0 ≤ x) (Y : Mat K) (sc : Scratch K) (fuel : Nat) :
    let res := beSolve o s p kc atol rtol T Y sc fuel
    0 ≤ res.finalTime ∧ res.finalTime ≤ T ∧
    (res.status = .converged → res.finalTime = T) ∧
    (res.status = .converged ∨ res.status = .acceptingUnconvergedIntegration ∨
      res.status = .outOfFuel) := by
  intro res
  have hinit : BETimeInv T (beInit (beInitialH o p T) Y sc) := by
    obtain ⟨b0, bT⟩ := beInitialH_bounds ho p T hT hs0
    exact BETimeInv_init T hT _ b0 bT Y sc
  obtain ⟨h1, h2, _, h4, h5⟩ := beLoop_time ho s p kc atol rtol T hred fuel _ hinit
  exact ⟨h1, h2, h4, h5⟩

include ho in
/-- without any assumption on `h_start` or the reduction factors only this remains:
    `Converged ⇒ time_step ≤ final_time` (the loop exits by the test `¬ (t < time_step)`) -/
theorem C06_be_time_lower (Y : Mat K) (sc : Scratch K) (fuel : Nat) :
    (beSolve o s p kc atol rtol T Y sc fuel).status = .converged →
      T ≤ (beSolve o s p kc atol rtol T Y sc fuel).finalTime := by
  intro hc
  rw [beSolve_eq] at hc ⊢
  simp only [] at hc ⊢
  rcases beLoop_inv' o s p kc atol rtol T (BEFinInv T)
    (fun r hd _ => BEFinInv_step ho s p kc atol rtol T r hd) fuel
    (beInit (beInitialH o p T) Y sc) (fun h => by simp [beInit] at h) with ⟨h1, h2⟩ | ⟨r', _, _, h3⟩
  · rcases h1 h2 with h | h
    · rw [hc] at h; cases h
    · exact h
  · rw [h3] at hc; simp at hc

end Ordered

/-! ### examples on `A → B` (`k = 1`, `Y₀ = (1,0)`) over `ℚ` -/

namespace BEEx

/-- the hypotheses of `C06_be_time` hold for the default parameters and `time_step = 1` … -/
example : (0 : ℚ) < 1 ∧ 0 ≤ params.hstart ∧ ∀ x ∈ params.reductions, (0 : ℚ) ≤ x := by
  decide +kernel

/-- … also with `h_start = 1/4`: three accepted outer iterations `H = ¼, ¼, ½` (doubling after two
    successes, clipped to `time_step − t`), `final_time = time_step` -/
example : (run .doolittle { params with hstart := 1/4 } 1 20).status = .converged ∧
    (run .doolittle { params with hstart := 1/4 } 1 20).finalTime = 1 ∧
    (run .doolittle { params with hstart := 1/4 } 1 20).trace.map (·.h) = [1/4, 1/4, 1/4, 1/4, 1/2, 1/2] ∧
    (run .doolittle { params with hstart := 1/4 } 1 20).stats =
      { functionCalls := 6, jacobianUpdates := 6, numberOfSteps := 6, accepted := 3, rejected := 0,
        decompositions := 6, solves := 6 } := by
  decide +kernel

/-- `AcceptingUnconvergedIntegration` stops early: with `max_number_of_steps = 1` (no convergence
    test is ever made) and reductions `½, ¼`, the solve gives up at `final_time = 1/8 < 1` after three
    rejections; `Y` is the un-converged iterate, the returned `Yn` (`sc.ynew`) the initial state -/
example :
    let res := run .doolittle { params with maxSteps := 1, reductions := [1/2, 1/4] } 1 10
    res.status = .acceptingUnconvergedIntegration ∧ res.finalTime = 1/8 ∧
    res.stats.rejected = 3 ∧ res.stats.accepted = 0 ∧ res.trace.map (·.h) = [1, 1/2, 1/8] ∧
    res.Y = #[#[8/9, 1/9]] ∧ res.sc.ynew = #[#[1, 0]] := by
  decide +kernel

/-- `h_start = 2 > time_step = 1` (allowed by `C06_be_time`): the first `H` is clipped to
    `min(2, 1) = 1`, the solve reports `Converged` with `final_time = time_step = 1` and the
    backward-Euler value for `H = 1`, `y = 1/(1+1)` -/
example :
    (run .doolittle { params with hstart := 2 } 1 10).status = .converged ∧
    (run .doolittle { params with hstart := 2 } 1 10).finalTime = 1 ∧
    (run .doolittle { params with hstart := 2 } 1 10).trace.map (·.h) = [1, 1] ∧
    (run .doolittle { params with hstart := 2 } 1 10).Y = #[#[1/2, 1/2]] := by
  decide +kernel

/-! #### the repaired defect: the first step of the OLD source was not clipped -/

/-- copy of `beSolve` with the first step of the source *before* the repair,
    `H = h_start == 0 ? time_step : h_start` (everything else identical) -/
def beSolveOld {α : Type} [OfNat α 0] [OfNat α 1] [OfNat α 2] [Add α] [Sub α] [Mul α] [Div α]
    (o : Ops α) (s : SolverCfg α) (p : BEParams α) (kc : Mat α) (atol : Array α) (rtol : α)
    (timeStep : α) (Y : Mat α) (sc : Scratch α) (fuel : Nat) : SolveResult α :=
  let h := if o.eq p.hstart 0 then timeStep else p.hstart
  let r := beLoop o s p kc atol rtol timeStep fuel (beInit h Y sc)
  { status := r.status, finalTime := r.t, stats := r.stats, Y := r.Yn1, sc := { r.sc with ynew := r.Yn },
    trace := r.trace.reverse.map fun it =>
      { h := it.h, alpha := 1 / it.h, matrix := it.matrix, error := 0, accepted := true } }

/-- the copy differs from `beSolve` in the first step only: they agree whenever the clip is inactive
    (`h_start = 0`, or `h_start ≤ time_step`) -/
theorem beSolveOld_eq_beSolve {K : Type} [Field K] [LinearOrder K] [IsStrictOrderedRing K]
    {o : Ops K} (ho : OrderedOps o) (s : SolverCfg K) (p : BEParams K) (kc : Mat K) (atol : Array K)
    (rtol T : K) (Y : Mat K) (sc : Scratch K) (fuel : Nat) (h : p.hstart = 0 ∨ p.hstart ≤ T) :
    beSolveOld o s p kc atol rtol T Y sc fuel = beSolve o s p kc atol rtol T Y sc fuel := by
  have e : (if o.eq p.hstart 0 then T else p.hstart) = beInitialH o p T := by
    rw [beInitialH_eq ho, ho.eq]
    simp only [decide_eq_true_eq]
    split
    · rfl
    · rw [min_eq_left (h.resolve_left ‹_›)]
  rw [beSolve_eq]; unfold beSolveOld; rw [e]

/-- **overshoot of the old source** (repaired): with `h_start = 2 > time_step = 1` the first outer
    iteration integrated over `H = 2`; the solve reported `Converged` with `final_time = 2 > time_step`
    and the backward-Euler value for `H = 2`, `y = 1/(1+2)` -/
theorem C06_be_old_overshoot :
    let res := beSolveOld ratOps (cfg .doolittle) { params with hstart := 2 } #[#[1]] #[1/10, 1/10] (1/10)
      1 #[#[1, 0]] (scratch .doolittle) 10
    res.status = .converged ∧ res.finalTime = 2 ∧ res.Y = #[#[1/3, 2/3]] := by
  decide +kernel

end BEEx

#print axioms C06_be_counters_step
#print axioms C06_be_counters
#print axioms C06_be_outer_iterations
#print axioms C06_be_counters_solve
#print axioms C06_be_Yn
#print axioms C06_be_state_on_failure
#print axioms C06_be_start_state
#print axioms C06_be_time_iterates
#print axioms C06_be_time
#print axioms C06_be_time_lower
#print axioms BEEx.beSolveOld_eq_beSolve
#print axioms BEEx.C06_be_old_overshoot

end Micm
