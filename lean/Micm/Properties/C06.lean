/-
C06 — `Solve` returns a truthful outcome / bookkeeping (Rosenbrock part).

Invariants of `rosStep`, lifted over `rosLoop` by induction on fuel, stated for `rosSolve`.
Dataflow theorems hold for an arbitrary carrier `α`; the two time theorems that need the order are
stated for an ordered field under `OrderedOps`.
-/
import Micm.Lemmas.RosLoop

namespace Micm
set_option linter.unusedSectionVars false

section Any
variable {α : Type} [OfNat α 0] [OfNat α 1] [Add α] [Sub α] [Mul α] [Div α]
variable (o : Ops α) (cs : Consts α) (s : SolverCfg α) (p : RosParams α) (kc : Mat α)
    (atol : Array α) (rtol : α) (T hm : α) (Y : Mat α) (sc : Scratch α) (fuel : Nat)

/-- one iteration preserves "the counters agree with the ghost trace" … -/
theorem C06_counters_step (r : RState α) (h : CountInv p r) :
    CountInv p (rosStep o cs s p kc atol rtol T hm r) :=
  rosStep_inv o cs s p kc atol rtol T hm _ r (CountInv_prologue o cs s p kc T r)
    (fun r' _ _ => CountInv_attempt o cs s p kc atol rtol hm r') h

/-- … hence in every result of `rosSolve`: `decompositions`, `number_of_steps` equal the number of
    attempts, `solves = stages · attempts`, `accepted` = number of accepted attempts, and
    `rejected ≤ attempts − accepted` (rejections before the first acceptance are not counted) -/
theorem C06_counters :
    (rosSolve o cs s p kc atol rtol T Y sc fuel).stats.decompositions =
      (rosSolve o cs s p kc atol rtol T Y sc fuel).trace.length ∧
    (rosSolve o cs s p kc atol rtol T Y sc fuel).stats.numberOfSteps =
      (rosSolve o cs s p kc atol rtol T Y sc fuel).trace.length ∧
    (rosSolve o cs s p kc atol rtol T Y sc fuel).stats.solves =
      p.stages * (rosSolve o cs s p kc atol rtol T Y sc fuel).trace.length ∧
    (rosSolve o cs s p kc atol rtol T Y sc fuel).stats.accepted =
      ((rosSolve o cs s p kc atol rtol T Y sc fuel).trace.filter (·.accepted)).length ∧
    (rosSolve o cs s p kc atol rtol T Y sc fuel).stats.rejected ≤
      (rosSolve o cs s p kc atol rtol T Y sc fuel).trace.length -
        (rosSolve o cs s p kc atol rtol T Y sc fuel).stats.accepted := by
  have h := CountInv_loop o cs s p kc atol rtol T (hmaxEff o p T) fuel
    (rosInit (initialH o cs p T) Y sc) ⟨rfl, rfl, rfl, rfl, Nat.zero_le _⟩
  rw [rosSolve_eq]
  simpa [CountInv, List.filter_reverse] using h

/-- `final_time` is the left-to-right sum (starting from `0`) of the `H` of the accepted attempts -/
theorem C06_time_is_sum_of_accepted :
    (rosSolve o cs s p kc atol rtol T Y sc fuel).finalTime =
      ((rosSolve o cs s p kc atol rtol T Y sc fuel).trace.filter (·.accepted)).foldl
        (fun t a => t + a.h) 0 := by
  have h := time_loop o cs s p kc atol rtol T (hmaxEff o p T) 0 fuel
    (rosInit (initialH o cs p T) Y sc) rfl
  rw [accTime_eq_foldl] at h
  rw [rosSolve_eq]; exact h

/-- one iteration changes `Y` only if it records an accepted attempt (or leaves through the
    nan/inf exits, where the source swaps `Y` and `Ynew` before breaking) -/
theorem C06_state_changes_only_on_accept (r : RState α) :
    (rosStep o cs s p kc atol rtol T hm r).Y = r.Y ∨
    (rosStep o cs s p kc atol rtol T hm r).status = .nanDetected ∨
    (rosStep o cs s p kc atol rtol T hm r).status = .infDetected ∨
    ∃ att, (rosStep o cs s p kc atol rtol T hm r).trace = att :: r.trace ∧ att.accepted = true :=
  rosStep_Y o cs s p kc atol rtol T hm r

/-- in particular a rejected attempt leaves `Y` unchanged -/
theorem C06_rejected_keeps_state (r : RState α) (att : Attempt α)
    (h2 : (rosStep o cs s p kc atol rtol T hm r).status = .running)
    (ht : (rosStep o cs s p kc atol rtol T hm r).trace = att :: r.trace) (ha : att.accepted = false) :
    (rosStep o cs s p kc atol rtol T hm r).Y = r.Y := by
  rcases rosStep_Y o cs s p kc atol rtol T hm r with h | h | h | ⟨att', ht', ha'⟩
  · exact h
  · rw [h] at h2; cases h2
  · rw [h] at h2; cases h2
  · rw [ht] at ht'; injection ht' with h1 _; subst h1; rw [ha] at ha'; cases ha'

/-- … and a whole solve without an accepted attempt returns the input state (except nan/inf exits) -/
theorem C06_state_unchanged_without_accept
    (h1 : (rosSolve o cs s p kc atol rtol T Y sc fuel).status ≠ .nanDetected)
    (h2 : (rosSolve o cs s p kc atol rtol T Y sc fuel).status ≠ .infDetected)
    (h3 : ∀ a ∈ (rosSolve o cs s p kc atol rtol T Y sc fuel).trace, a.accepted = false) :
    (rosSolve o cs s p kc atol rtol T Y sc fuel).Y = Y := by
  have h := NoAccInv_loop o cs s p kc atol rtol T (hmaxEff o p T) Y fuel
    (rosInit (initialH o cs p T) Y sc) (fun _ _ _ => rfl)
  rw [rosSolve_eq] at h1 h2 h3 ⊢
  exact h h1 h2 (fun a ha => h3 a (by simpa using ha))

/-- `Converged` is only ever produced by the outer loop test failing (any carrier) -/
theorem C06_converged_means_test_failed
    (h : (rosSolve o cs s p kc atol rtol T Y sc fuel).status = .converged) :
    o.le ((rosSolve o cs s p kc atol rtol T Y sc fuel).finalTime - T + p.roundOff) 0 = false := by
  have hc := ConvInv_loop o cs s p kc atol rtol T (hmaxEff o p T) fuel
    (rosInit (initialH o cs p T) Y sc) (fun h => by cases h)
  rw [rosSolve_eq] at h ⊢
  exact hc h

/-- `outOfFuel` (model only) arises only when each of the `fuel` iterations recorded an attempt -/
theorem C06_outOfFuel_only_if
    (h : (rosSolve o cs s p kc atol rtol T Y sc fuel).status = .outOfFuel) :
    (rosSolve o cs s p kc atol rtol T Y sc fuel).trace.length = fuel := by
  rw [rosSolve_eq] at h ⊢
  have := rosLoop_outOfFuel o cs s p kc atol rtol T (hmaxEff o p T) fuel
    (rosInit (initialH o cs p T) Y sc) (by simp [rosInit]) h
  simpa [rosInit] using this

end Any

section Ordered
variable {K : Type} [Field K] [LinearOrder K] [IsStrictOrderedRing K]
variable {o : Ops K} (cs : Consts K) (s : SolverCfg K) (p : RosParams K) (kc : Mat K)
    (atol : Array K) (rtol : K) (T : K) (Y : Mat K) (sc : Scratch K) (fuel : Nat)

/-- `Converged ⇒ time_step − round_off < final_time` -/
theorem C06_converged_means_done (ho : OrderedOps o)
    (h : (rosSolve o cs s p kc atol rtol T Y sc fuel).status = .converged) :
    ¬ ((rosSolve o cs s p kc atol rtol T Y sc fuel).finalTime - T + p.roundOff ≤ 0) ∧
    T - p.roundOff < (rosSolve o cs s p kc atol rtol T Y sc fuel).finalTime := by
  have h1 := C06_converged_means_test_failed o cs s p kc atol rtol T Y sc fuel h
  rw [ho.le] at h1
  have h2 : ¬ ((rosSolve o cs s p kc atol rtol T Y sc fuel).finalTime - T + p.roundOff ≤ 0) := by
    simpa using h1
  exact ⟨h2, by linarith [not_le.mp h2]⟩

/-- **witness of the known defect**: a time step below round-off makes the very first loop test
    fail; the solver reports `Converged` with `final_time = 0`, no attempt, and the state untouched -/
theorem C06_no_progress (ho : OrderedOps o) (hT : T < p.roundOff) :
    (rosSolve o cs s p kc atol rtol T Y sc (fuel + 1)).status = .converged ∧
    (rosSolve o cs s p kc atol rtol T Y sc (fuel + 1)).finalTime = 0 ∧
    (rosSolve o cs s p kc atol rtol T Y sc (fuel + 1)).trace = [] ∧
    (rosSolve o cs s p kc atol rtol T Y sc (fuel + 1)).Y = Y ∧
    (rosSolve o cs s p kc atol rtol T Y sc (fuel + 1)).stats = {} := by
  have ht : o.le ((rosInit (initialH o cs p T) Y sc).ctl.t - T + p.roundOff) 0 = false := by
    rw [ho.le]; simp only [rosInit]
    exact decide_eq_false (not_le.mpr (by linarith))
  rw [rosSolve_eq, rosLoop_no_progress o cs s p kc atol rtol T (hmaxEff o p T) fuel _ rfl rfl ht]
  simp [rosInit]

/-- characterisation: `Converged` with `final_time = 0` ⇔ `time_step < round_off` (given at least
    one unit of fuel).  For `0 < time_step < round_off` this is a converged verdict without progress. -/
theorem C06_no_progress_iff (ho : OrderedOps o) :
    ((rosSolve o cs s p kc atol rtol T Y sc (fuel + 1)).status = .converged ∧
     (rosSolve o cs s p kc atol rtol T Y sc (fuel + 1)).finalTime = 0) ↔ T < p.roundOff := by
  constructor
  · rintro ⟨h1, h2⟩
    have := (C06_converged_means_done cs s p kc atol rtol T Y sc (fuel + 1) ho h1).2
    rw [h2] at this; linarith
  · intro h
    obtain ⟨h1, h2, _⟩ := C06_no_progress cs s p kc atol rtol T Y sc fuel ho h
    exact ⟨h1, h2⟩

/-- the same with "zero attempts" in place of `final_time = 0` -/
theorem C06_no_attempts_iff (ho : OrderedOps o) :
    ((rosSolve o cs s p kc atol rtol T Y sc (fuel + 1)).status = .converged ∧
     (rosSolve o cs s p kc atol rtol T Y sc (fuel + 1)).trace = []) ↔ T < p.roundOff := by
  constructor
  · rintro ⟨h1, h2⟩
    have h3 := C06_time_is_sum_of_accepted o cs s p kc atol rtol T Y sc (fuel + 1)
    rw [h2] at h3
    exact (C06_no_progress_iff cs s p kc atol rtol T Y sc fuel ho).mp ⟨h1, h3⟩
  · intro h
    obtain ⟨h1, _, h3, _⟩ := C06_no_progress cs s p kc atol rtol T Y sc fuel ho h
    exact ⟨h1, h3⟩

end Ordered

/-! ### concrete instances (`y' = -y` over `ℚ`, see `Micm.Ex`) -/

/-- the defect on a concrete input: `0 < T = 10⁻¹⁶ < round_off = 10⁻¹⁵` ⇒ `Converged`, `final_time = 0` -/
example : (Ex.run .doolittle (1/10000000000000000) 7).status = .converged ∧
    (Ex.run .doolittle (1/10000000000000000) 7).finalTime = 0 ∧
    (Ex.run .doolittle (1/10000000000000000) 7).trace.length = 0 := by
  decide +kernel

/-- four rejections then an acceptance, fuel exhausted: `outOfFuel` with exactly `fuel` attempts;
    `rejected = 0 < 4` shows that the inequality of `C06_counters` is strict in general -/
example : (Ex.run .mozart 1000 5).status = .outOfFuel ∧
    (Ex.run .mozart 1000 5).trace.length = 5 ∧
    (Ex.run .mozart 1000 5).stats = ⟨1, 1, 5, 1, 0, 5, 5⟩ ∧
    (Ex.run .mozart 1000 5).finalTime = 2/5 ∧
    (Ex.run .mozart 1000 5).trace.map (fun a => (a.h, a.accepted)) =
      [(1000, false), (200, false), (40, false), (4, false), (2/5, true)] := by
  decide +kernel

/-- a converged run: `T = 2/5` is reached by one accepted step (first `H = min 1000 T`) -/
example : (Ex.run .doolittleInPlace (2/5) 5).status = .converged ∧
    (Ex.run .doolittleInPlace (2/5) 5).finalTime = 2/5 ∧
    (Ex.run .doolittleInPlace (2/5) 5).Y = #[#[5/6]] := by
  decide +kernel

#print axioms C06_counters_step
#print axioms C06_counters
#print axioms C06_time_is_sum_of_accepted
#print axioms C06_state_changes_only_on_accept
#print axioms C06_rejected_keeps_state
#print axioms C06_state_unchanged_without_accept
#print axioms C06_converged_means_test_failed
#print axioms C06_outOfFuel_only_if
#print axioms C06_converged_means_done
#print axioms C06_no_progress
#print axioms C06_no_progress_iff
#print axioms C06_no_attempts_iff

end Micm
