/-
C09 (Rosenbrock part) — "if every reaction conserves a weighted sum of species (w·stoichiometry = 0),
that weighted sum of concentrations is unchanged by Solve, for all parameter sets and any number of
internal steps, as long as nothing was clipped".

Exact arithmetic (`[Field K]`), per grid cell `c`, on the logical rows (`n` species).
The theorems are about `rosStep` / `rosSolve` themselves — i.e. about the state *before* the
`variables_.Max(0.0)` clamp of `Solver::Solve` ("nothing was clipped"; `C09_clamp_noop`).

Vocabulary (definitions in `Micm/Lemmas/Conservation.lean`):
* `negJac m procs k y i j`   the logical `−∂f_i/∂y_j` — the expression of `C02_jacobian_zero`;
* `CellShape n c M`          cell `c` of the per-cell matrix `M` exists and has `n` entries;
* `BuiltCfg s m procs n kind jac`  `s` is a configuration as `SolverBuilder` assembles it
                             (`builtCfg_of_builder`: it holds for the builder's construction);
* `attPivot s (L,U) c i`     the `i`-th diagonal element of `U` of cell `c` after `Factor`;
* `FullInv s p kc w n c σ r` the loop invariant of cell `c`: buffers of cell `c` have the configured
                             sizes (dense `n`, sparse `nnz`), `w·Y[c] = σ`, inside a step the initial
                             forcing is `⊥ w` and the Jacobian buffer holds the (shifted) `−J(Y)`.
Hypothesis on the mechanism: `Resolves m procs rxns` and, for every resolved reaction,
`Σ_products w·yield = Σ_reactants w`  (same shape as `C09_forcing_conserved`).
The only numerical hypothesis is "no zero pivot" in the factorisations of the attempts made.
No hypothesis `H ≠ 0` / `γ ≠ 0` is needed: for a zero shift, solvability forces `w = 0` on the cell.
-/
import Micm.Lemmas.Conservation
import Mathlib.Algebra.Order.Field.Basic

namespace Micm
set_option linter.unusedSectionVars false
open Finset

section Algebra
variable {K : Type} [Field K]

/-- **A1 — `wᵀJ = 0`**: under `w·S = 0` every column of the logical Jacobian is orthogonal to `w`
    (no calculus: per reaction `Σ_i w_i net_r(i) = 0`, so its contribution to each column sums to 0) -/
theorem C09_jacobian_orthogonal (m : NameMap) (procs : List (Process K)) (rxns : List (RRxn K))
    (hr : Resolves m procs rxns) (n : Nat) (hm : ∀ e ∈ m, e.2 < n) (w : Nat → K)
    (hbal : ∀ rx ∈ rxns, (rx.2.map fun p => w p.1 * p.2).sum = (rx.1.map w).sum)
    (k y : Array K) (j : Nat) :
    ∑ i ∈ range n, w i *
      (- (procs.zipIdx.map fun pi =>
          jacNet (specReactIds m pi.1.reactants) (specProdIds m pi.1.products) i
            * (rd k pi.2 * dMonomial (rd y) (specReactIds m pi.1.reactants) j)).sum) = 0 :=
  negJac_orthogonal m procs rxns hr n hm w hbal k y j

/-- **A2 — one stage**: if `Σ_i w_i M_ij = α w_j` (i.e. `M = αI − J'` with `wᵀJ' = 0`) and `M x = b`
    on the indices `< n`, then `w·b = α (w·x)`; for `α ≠ 0`, `w·x = (w·b)/α`, in particular
    `w·b = 0 ⇒ w·x = 0` -/
theorem C09_stage_orthogonal (n : Nat) (w : Nat → K) (M : Nat → Nat → K) (α : K) (x b : Nat → K)
    (hM : ∀ j, j < n → ∑ i ∈ range n, w i * M i j = α * w j)
    (hx : ∀ i, i < n → ∑ j ∈ range n, M i j * x j = b i) :
    ∑ i ∈ range n, w i * b i = α * ∑ j ∈ range n, w j * x j ∧
    (α ≠ 0 → ∑ j ∈ range n, w j * x j = (∑ i ∈ range n, w i * b i) / α) ∧
    (α ≠ 0 → ∑ i ∈ range n, w i * b i = 0 → ∑ j ∈ range n, w j * x j = 0) := by
  refine ⟨wdot_of_solve n w M α x b hM hx, fun hα => wdot_solve_eq n w M α hα x b hM hx, fun hα h0 => ?_⟩
  rw [wdot_solve_eq n w M α hα x b hM hx, h0, zero_div]

end Algebra

section Rosenbrock
variable {K : Type} [Field K]
variable (o : Ops K) (cs : Consts K) {s : SolverCfg K} (p : RosParams K) (kc : Mat K)
    (atol : Array K) (rtol : K) (T hm : K) (w : Nat → K) {n : Nat} (c : Nat)
    {m : NameMap} {procs : List (Process K)} {kind : LUKind} {jac : Pattern}

/-- the matrix of an attempt, read through the pattern of `state.jacobian_`, is `a·I − ∂f/∂y` on all
    of `n × n`, hence `Σ_i w_i M_ij = a·w_j` (A1 transported to the sparse storage, all four LU variants) -/
theorem C09_matrix_columns (hb : BuiltCfg s m procs n kind jac) (rxns : List (RRxn K))
    (hr : Resolves m procs rxns)
    (hbal : ∀ rx ∈ rxns, (rx.2.map fun p => w p.1 * p.2).sum = (rx.1.map w).sum)
    (Y B : Mat K) (hB : CellShape s.la.A.nnz c B) (a : K) (j : Nat) (hj : j < n) :
    (∀ i, i < n →
      view s.la.A ((s.alphaMinusJacobian (s.jacobian kc Y (fillM B 0)) a).getD c #[]) i j
        = (if i = j then a else 0) + negJac m procs (kc.getD c #[]) (Y.getD c #[]) i j) ∧
    ∑ i ∈ range n, w i *
      view s.la.A ((s.alphaMinusJacobian (s.jacobian kc Y (fillM B 0)) a).getD c #[]) i j = a * w j := by
  have h1 := fun i hi => view_shifted_jacobian hb kc Y B c hB a i j hi hj
  refine ⟨h1, ?_⟩
  have e : ∀ i ∈ range n, w i *
      view s.la.A ((s.alphaMinusJacobian (s.jacobian kc Y (fillM B 0)) a).getD c #[]) i j
      = (if i = j then w i * a else 0) + w i * negJac m procs (kc.getD c #[]) (Y.getD c #[]) i j := by
    intro i hi
    rw [h1 i (mem_range.mp hi)]
    by_cases hij : i = j <;> simp [hij, mul_add]
  rw [sum_congr rfl e, sum_add_distrib, negJac_orthogonal m procs rxns hr n hb.idlt w hbal,
    sum_ite_eq', add_zero]
  simp only [mem_range, hj, if_true]; ring

/-- **A3 — one attempt** (abstract linear solver): from the post-prologue state `r`, if the forcing
    is `⊥ w` at every state (`ForcOrth`, which `C09_forcing_orthogonal` gives) and the solve of this
    attempt maps `⊥ w` to `⊥ w` (`WSolve`), then every stage vector satisfies `w·K_i = 0`,
    `w·Ynew = w·Y` and `w·Yerr = 0` -/
theorem C09_rosenbrock_attempt_abstract (hf : ForcOrth s kc w n c) (r : RState K)
    (hs : WSolve s w n c (attFactor s p r).1 (attFactor s p r).2.1 (attFactor s p r).2.2)
    (hk : p.stages ≤ r.sc.k.size)
    (hksh : ∀ i, i < p.stages → CellShape n c (r.sc.k.getD i #[]))
    (hf0s : CellShape n c r.sc.f0) (hf0 : ∑ i ∈ range n, w i * rd (r.sc.f0.getD c #[]) i = 0)
    (hY : CellShape n c r.Y) (hye : CellShape n c r.sc.yerr) :
    (∀ i, i < p.stages →
      ∑ v ∈ range n, w v * rd (((attStages s p kc r).1.getD i #[]).getD c #[]) v = 0) ∧
    ∑ v ∈ range n, w v * rd ((attYnew s p kc r).getD c #[]) v
      = ∑ v ∈ range n, w v * rd (r.Y.getD c #[]) v ∧
    ∑ v ∈ range n, w v * rd ((attYerr s p kc r).getD c #[]) v = 0 := by
  obtain ⟨a1, ⟨_, a3⟩, ⟨_, a5⟩⟩ := attempt_conserves s p kc w n c hf r hs hk hksh hf0s hf0 hY hye
  exact ⟨fun i hi => (a1 i hi).2, a3, a5⟩

/-- **A3 — one attempt** (the model's `Factor`/`Solve`, all four LU variants of `LinAlg.build`):
    an iteration of the loop that records the attempt `att`, from a state satisfying the invariant,
    with no zero pivot in cell `c` of the factorisation of `att.matrix`:
    `w·K_i = 0` for every stage, `w·Yerr = 0`, and `w·Y` is unchanged (accepted or rejected) -/
theorem C09_rosenbrock_attempt (hb : BuiltCfg s m procs n kind jac) (rxns : List (RRxn K))
    (hr : Resolves m procs rxns)
    (hbal : ∀ rx ∈ rxns, (rx.2.map fun p => w p.1 * p.2).sum = (rx.1.map w).sum)
    (σ : K) (r : RState K) (h : FullInv s p kc w n c σ r) (att : Attempt K)
    (ht : (rosStep o cs s p kc atol rtol T hm r).trace = att :: r.trace)
    (hpiv : ∀ i, i < n → attPivot s (s.factor att.matrix r.sc.lower r.sc.upper) c i ≠ 0) :
    (∀ i, i < p.stages → ∑ v ∈ range n,
      w v * rd (((rosStep o cs s p kc atol rtol T hm r).sc.k.getD i #[]).getD c #[]) v = 0) ∧
    ∑ v ∈ range n, w v * rd ((rosStep o cs s p kc atol rtol T hm r).sc.yerr.getD c #[]) v = 0 ∧
    ∑ v ∈ range n, w v * rd ((rosStep o cs s p kc atol rtol T hm r).Y.getD c #[]) v
      = ∑ v ∈ range n, w v * rd (r.Y.getD c #[]) v :=
  step_conserves o cs p kc atol rtol T hm w c hb rxns hr hbal σ r h att ht hpiv

/-- the invariant is established by the initial state of `rosSolve` (cell `c` of the inputs well
    shaped) … -/
theorem C09_invariant_init (h0 : K) (Y : Mat K) (sc : Scratch K)
    (hY : CellShape n c Y) (hf0 : CellShape n c sc.f0) (hye : CellShape n c sc.yerr)
    (hks : p.stages ≤ sc.k.size) (hk : ∀ i, i < p.stages → CellShape n c (sc.k.getD i #[]))
    (hj : CellShape s.la.A.nnz c sc.jac) (hl : CellShape s.la.Lp.nnz c sc.lower)
    (hu : CellShape s.la.Up.nnz c sc.upper) :
    FullInv s p kc w n c (∑ v ∈ range n, w v * rd (Y.getD c #[]) v) (rosInit h0 Y sc) :=
  FullInv_init p kc w c h0 Y sc hY hf0 hye hks hk hj hl hu

/-- … and preserved by every iteration whose attempt (if it makes one) has no zero pivot in cell `c` -/
theorem C09_invariant_step (hb : BuiltCfg s m procs n kind jac) (rxns : List (RRxn K))
    (hr : Resolves m procs rxns)
    (hbal : ∀ rx ∈ rxns, (rx.2.map fun p => w p.1 * p.2).sum = (rx.1.map w).sum)
    (σ : K) (r : RState K) (h : FullInv s p kc w n c σ r)
    (hpiv : (rosPrologue o cs s p kc T r).status = .running → ∀ i, i < n →
      attPivot s (attFactor s p (rosPrologue o cs s p kc T r)) c i ≠ 0) :
    FullInv s p kc w n c σ (rosStep o cs s p kc atol rtol T hm r) :=
  FullInv_step o cs p kc atol rtol T hm w c hb rxns hr hbal σ r h hpiv

/-- **A4 — the whole solve**: `w·Y[c]` is the same after `rosSolve` as before (any status, any
    number of accepted/rejected attempts, any LU variant, any controller parameters), provided no
    attempt made along the way (iteration `k < fuel`) hits a zero pivot in cell `c`.
    `rₖ` is the state at the start of iteration `k`; `rosPrologue rₖ` the state in which its attempt
    starts; `attFactor` its factorisation. -/
theorem C09_rosenbrock_solve (hb : BuiltCfg s m procs n kind jac) (rxns : List (RRxn K))
    (hr : Resolves m procs rxns)
    (hbal : ∀ rx ∈ rxns, (rx.2.map fun p => w p.1 * p.2).sum = (rx.1.map w).sum)
    (Y : Mat K) (sc : Scratch K) (fuel : Nat)
    (hY : CellShape n c Y) (hf0 : CellShape n c sc.f0) (hye : CellShape n c sc.yerr)
    (hks : p.stages ≤ sc.k.size) (hk : ∀ i, i < p.stages → CellShape n c (sc.k.getD i #[]))
    (hj : CellShape s.la.A.nnz c sc.jac) (hl : CellShape s.la.Lp.nnz c sc.lower)
    (hu : CellShape s.la.Up.nnz c sc.upper)
    (hpiv : ∀ k, k < fuel →
      (rosPrologue o cs s p kc T ((rosStep o cs s p kc atol rtol T (hmaxEff o p T))^[k]
        (rosInit (initialH o cs p T) Y sc))).status = .running →
      ∀ i, i < n → attPivot s
        (attFactor s p (rosPrologue o cs s p kc T ((rosStep o cs s p kc atol rtol T (hmaxEff o p T))^[k]
          (rosInit (initialH o cs p T) Y sc)))) c i ≠ 0) :
    ∑ v ∈ range n, w v * rd ((rosSolve o cs s p kc atol rtol T Y sc fuel).Y.getD c #[]) v
      = ∑ v ∈ range n, w v * rd (Y.getD c #[]) v := by
  have h := FullInv_loop o cs p kc atol rtol T (hmaxEff o p T) w c hb rxns hr hbal _ fuel _
    (FullInv_init p kc w c (initialH o cs p T) Y sc hY hf0 hye hks hk hj hl hu) hpiv
  rw [rosSolve_eq]
  exact h.cons.sum

/-- the same along the iterates of the loop: after any number `N` of iterations `w·Y[c]` is the
    initial value (so it is invariant "along the whole solve", not only at its end) -/
theorem C09_rosenbrock_iterates (hb : BuiltCfg s m procs n kind jac) (rxns : List (RRxn K))
    (hr : Resolves m procs rxns)
    (hbal : ∀ rx ∈ rxns, (rx.2.map fun p => w p.1 * p.2).sum = (rx.1.map w).sum)
    (h0 : K) (Y : Mat K) (sc : Scratch K) (N : Nat)
    (hY : CellShape n c Y) (hf0 : CellShape n c sc.f0) (hye : CellShape n c sc.yerr)
    (hks : p.stages ≤ sc.k.size) (hk : ∀ i, i < p.stages → CellShape n c (sc.k.getD i #[]))
    (hj : CellShape s.la.A.nnz c sc.jac) (hl : CellShape s.la.Lp.nnz c sc.lower)
    (hu : CellShape s.la.Up.nnz c sc.upper)
    (hpiv : ∀ k, k < N →
      (rosPrologue o cs s p kc T ((rosStep o cs s p kc atol rtol T hm)^[k] (rosInit h0 Y sc))).status
        = .running →
      ∀ i, i < n → attPivot s
        (attFactor s p (rosPrologue o cs s p kc T ((rosStep o cs s p kc atol rtol T hm)^[k]
          (rosInit h0 Y sc)))) c i ≠ 0) :
    ∑ v ∈ range n, w v * rd (((rosStep o cs s p kc atol rtol T hm)^[N] (rosInit h0 Y sc)).Y.getD c #[]) v
      = ∑ v ∈ range n, w v * rd (Y.getD c #[]) v :=
  (FullInv_iter o cs p kc atol rtol T hm w c hb rxns hr hbal _ _
    (FullInv_init p kc w c h0 Y sc hY hf0 hye hks hk hj hl hu) N hpiv).cons.sum

/-- A4 for an abstract linear solver: only `ForcOrth` and, for every attempt made, `WSolve` -/
theorem C09_rosenbrock_solve_abstract (hf : ForcOrth s kc w n c) (Y : Mat K) (sc : Scratch K) (fuel : Nat)
    (hY : CellShape n c Y) (hf0 : CellShape n c sc.f0) (hye : CellShape n c sc.yerr)
    (hks : p.stages ≤ sc.k.size) (hk : ∀ i, i < p.stages → CellShape n c (sc.k.getD i #[]))
    (hs : ∀ k, k < fuel →
      (rosPrologue o cs s p kc T ((rosStep o cs s p kc atol rtol T (hmaxEff o p T))^[k]
        (rosInit (initialH o cs p T) Y sc))).status = .running →
      WSolve s w n c
        (attFactor s p (rosPrologue o cs s p kc T ((rosStep o cs s p kc atol rtol T (hmaxEff o p T))^[k]
          (rosInit (initialH o cs p T) Y sc)))).1
        (attFactor s p (rosPrologue o cs s p kc T ((rosStep o cs s p kc atol rtol T (hmaxEff o p T))^[k]
          (rosInit (initialH o cs p T) Y sc)))).2.1
        (attFactor s p (rosPrologue o cs s p kc T ((rosStep o cs s p kc atol rtol T (hmaxEff o p T))^[k]
          (rosInit (initialH o cs p T) Y sc)))).2.2) :
    ∑ v ∈ range n, w v * rd ((rosSolve o cs s p kc atol rtol T Y sc fuel).Y.getD c #[]) v
      = ∑ v ∈ range n, w v * rd (Y.getD c #[]) v := by
  have h := ConsInv_loop o cs s p kc atol rtol T (hmaxEff o p T) w n c hf _ fuel
    (rosInit (initialH o cs p T) Y sc)
    ⟨⟨hY, hf0, hye, hks, hk⟩, rfl, fun _ h => by cases h⟩ hs
  rw [rosSolve_eq]
  exact h.sum

end Rosenbrock

/-! ### "nothing was clipped" -/

section Clamp
variable {K : Type} [Field K] [LinearOrder K] [IsStrictOrderedRing K]

/-- the clamp `variables_.Max(0.0)` of `Solver::Solve` is the identity on a non-negative state, so
    the conserved sum of `rosSolve` is the one `Solver::Solve` returns -/
theorem C09_clamp_noop {o : Ops K} (ho : OrderedOps o) (Y : Mat K)
    (h : ∀ c v, 0 ≤ rd (Y.getD c #[]) v) : clampNonNeg o Y = Y := by
  unfold clampNonNeg
  apply Array.ext (by simp)
  intro c h1 h2
  simp only [Array.getElem_map]
  apply Array.ext (by simp)
  intro v h3 h4
  simp only [Array.getElem_map]
  rw [ho.cmax_eq]
  have := h c v
  have e : rd (Y.getD c #[]) v = Y[c][v] := by
    simp [rd, Array.getD, h2, show v < Y[c].size from h4]
  rw [e] at this
  exact max_eq_left this

end Clamp

/-! ### a concrete instance: `A → B`, `B + B → C` conserves `A + B + 2C` -/

namespace C09bEx

def procs : List (Process ℚ) :=
  [ { reactants := [⟨"A", false⟩], products := [(⟨"B", false⟩, 1)] },
    { reactants := [⟨"B", false⟩, ⟨"B", false⟩], products := [(⟨"C", false⟩, 1)] } ]

def nmap : NameMap := [("A", 0), ("B", 1), ("C", 2)]

def rxns : List (RRxn ℚ) := [([0], [(1, 1)]), ([1, 1], [(2, 1)])]

def w : Nat → ℚ
  | 0 => 1
  | 1 => 1
  | 2 => 2
  | _ => 0

def tables : PSTables ℚ :=
  { nReact := [1, 2], reactIds := [0, 1, 1], nProd := [1, 1], prodIds := [1, 2], yields := [1, 1],
    jInfo := [⟨0, 0, 0, 1⟩, ⟨1, 1, 1, 1⟩, ⟨1, 1, 1, 1⟩],
    jReactIds := [1, 1], jProdIds := [1, 2, 2], jYields := [1, 1, 1] }

theorem exBuild : ProcessSet.build procs nmap = .ok tables := rfl

theorem exResolves : Resolves nmap procs rxns := by unfold Resolves; rfl

theorem exBalanced : ∀ rx ∈ rxns, (rx.2.map fun p => w p.1 * p.2).sum = (rx.1.map w).sum := by
  decide +kernel

/-- the Jacobian pattern the builder creates: `(0,0) (1,0) (1,1) (2,1) (2,2)` -/
def jacP : Pattern := Pattern.mk' 3 false 0 (buildJacobianSet 3 tables.nonZeroJacobianElements)

def flat : List Nat := [0, 1, 2, 2, 3, 2, 2, 3]

theorem exFlat (kind : LUKind) : tables.jacobianFlatIds (LinAlg.build kind jacP).A = .ok flat := by
  cases kind <;> decide +kernel

/-- the configuration, assembled as the builder does -/
def cfg (kind : LUKind) : SolverCfg ℚ :=
  { nSpecies := 3, L := 0, tables := tables, flatIds := flat, la := LinAlg.build kind jacP,
    diag := (LinAlg.build kind jacP).A.diagRanks }

/-- `BuiltCfg` is satisfiable: it holds for this configuration, for every LU variant -/
theorem exBuilt (kind : LUKind) : BuiltCfg (cfg kind) nmap procs 3 kind jacP :=
  builtCfg_of_builder procs nmap tables exBuild (by decide) (by decide) (by simp [procs])
    3 (by decide) false 0 0 kind flat (exFlat kind)

/-- a two-stage table (any coefficients do: conservation does not depend on them) -/
def params : RosParams ℚ :=
  { Ex.params with stages := 2, a := #[1], c := #[-2], m := #[3/2, 1/2], e := #[1/2, 1/2],
                   newF := #[true, true], order := 2 }

def scratch (kind : LUKind) : Scratch ℚ :=
  let d : Mat ℚ := #[#[0, 0, 0]]
  { jac := #[Array.replicate (cfg kind).la.A.nnz 7], lower := #[Array.replicate (cfg kind).la.Lp.nnz 7],
    upper := #[Array.replicate (cfg kind).la.Up.nnz 7], ynew := d, f0 := d, k := #[d, d], yerr := d }

/-- rate constants `k = (1, 1/2)`, `Y₀ = (1, 0, 0)`, `atol = rtol = 1/10` -/
def run (kind : LUKind) (T : ℚ) (fuel : Nat) : SolveResult ℚ :=
  rosSolve ratOps Ex.consts (cfg kind) params #[#[1, 1/2]] #[1/10, 1/10, 1/10] (1/10) T #[#[1, 0, 0]]
    (scratch kind) fuel

/-- two rejected and two accepted attempts; the state moved, `A + B + 2C` did not -/
example : (run .doolittle 50 4).trace.map (fun a => (a.h, a.accepted))
      = [(50, false), (10, false), (2, true), (2, true)] ∧
    (run .doolittle 50 4).Y = #[#[1/16, 41507/93312, 45973/186624]] ∧
    (1 : ℚ) * (1/16) + 1 * (41507/93312) + 2 * (45973/186624) = 1 := by
  decide +kernel

/-- all hypotheses of `C09_rosenbrock_solve` hold on this run (every LU variant); the pivot
    hypothesis is checked by evaluation -/
theorem exConserved (kind : LUKind) :
    ∑ v ∈ range 3, w v * rd ((run kind 50 4).Y.getD 0 #[]) v
      = ∑ v ∈ range 3, w v * rd ((#[#[1, 0, 0]] : Mat ℚ).getD 0 #[]) v := by
  unfold run
  apply C09_rosenbrock_solve ratOps Ex.consts params #[#[1, 1/2]] #[1/10, 1/10, 1/10] (1/10) 50 w 0
    (exBuilt kind) rxns exResolves exBalanced
  · decide
  · cases kind <;> decide
  · cases kind <;> decide
  · cases kind <;> decide
  · cases kind <;> decide +kernel
  · cases kind <;> decide +kernel
  · cases kind <;> decide +kernel
  · cases kind <;> decide +kernel
  · cases kind <;> decide +kernel

/-- … and the conclusion, evaluated: `1·A + 1·B + 2·C = 1` after the solve -/
example (kind : LUKind) : ∑ v ∈ range 3, w v * rd ((run kind 50 4).Y.getD 0 #[]) v = 1 := by
  rw [exConserved]; decide +kernel

end C09bEx

#print axioms C09_jacobian_orthogonal
#print axioms C09_stage_orthogonal
#print axioms C09_matrix_columns
#print axioms C09_rosenbrock_attempt_abstract
#print axioms C09_rosenbrock_attempt
#print axioms C09_invariant_init
#print axioms C09_invariant_step
#print axioms C09_rosenbrock_solve
#print axioms C09_rosenbrock_iterates
#print axioms C09_rosenbrock_solve_abstract
#print axioms C09_clamp_noop
#print axioms builtCfg_of_builder
#print axioms C09bEx.exConserved

end Micm
