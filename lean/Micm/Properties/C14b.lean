/-
C14 (continued) — the solution reported per species name.

"… Consequently the solution reported per species name is independent of the order in which species
were listed and of the reordering option …"

Two successful `build`s of the same reactions whose systems have the same unique names — the same
`SystemDecl` with the reordering option on/off, or the species listed in another order (gas phase
and/or other phases; in particular another iteration order of the phase map) — produce two species
maps that are bijections of the same names onto `0 … n−1` (`C14_bijection`); they differ by a
permutation `σ` of the indices, `species_map₂ = relabel σ species_map₁` (`C14_builds_relabel`).
Setting concentrations and absolute tolerances *by name* (`ByName`: the value stored for a name is
the same through both maps; this is what `SetAbsoluteTolerances` does, `C14_atol_by_name`), the
two `rosSolve` runs — any LU variant, CSR/CSC, group lengths on each side — return the same
status, final time, counters and step history, and the same concentration for every species name
(`C14_solution_by_name`, from `C12_solve_relabel`; exact arithmetic over any field `K`, arbitrary
primitives `Ops K`; no pivot vanishes in either run).  `C14_be_solution_by_name`: the same for
`beSolve`.

Vocabulary: `NmBij m n` (`m` is a sorted bijection of its keys onto `0 … n−1`), `nameSigma m₁ m₂`
(index ↦ name in `m₁` ↦ index in `m₂`), `ByName m₁ m₂ x₁ x₂` (`Micm/Lemmas/RelabelNames.lean`).
-/
import Micm.Lemmas.RelabelNames
import Micm.Properties.C12b
import Micm.Properties.C14

namespace Micm
variable {K : Type} [Field K]

/-- `C14_bijection` for a successful `build`, repackaged: the species map is a sorted bijection of
    the unique names onto `0 … n−1`, `n = nSpecies`, and the tables are built from it -/
theorem C14_build_bijection {dflt : K} {labelsOf : List (Process K) → List String}
    {inp : BuildInput K} {b : Built K} {sys : SystemDecl K}
    (h : build dflt labelsOf inp = .ok b) (hsys : inp.system = some sys) (hn : sys.uniqueNames.Nodup) :
    NmBij b.speciesMap b.nSpecies ∧ (nmKeys b.speciesMap).Perm sys.uniqueNames ∧
    b.nSpecies = sys.uniqueNames.length ∧
    ProcessSet.build (inp.reactions.getD []) b.speciesMap = .ok b.tables := by
  obtain ⟨sys', hs', -, -, hg, hp, -, -, hns, -, -⟩ := build_ok_fields h
  rw [hsys] at hs'
  cases hs'
  obtain ⟨hkp, hsorted, -, -, hlt, hinj, hsurj, -, -⟩ := C14_bijection hg hn
  have hlen : b.nSpecies = sys.uniqueNames.length := by rw [hns, sys.stateSize_eq]
  refine ⟨⟨hsorted, fun k i hl => by rw [hlen]; exact (hlt k i hl).2, hinj, fun i hi => ?_⟩, hkp, hlen, hp⟩
  obtain ⟨k, _, hk⟩ := hsurj i (hlen ▸ hi)
  exact ⟨k, hk⟩

/-- **two builds over the same names differ by a relabelling**: there is a permutation `σ` of
    `0 … n−1` (namely `nameSigma`) with `species_map₂ = relabel σ species_map₁`; a name with index
    `i` in the first map has index `σ i` in the second -/
theorem C14_builds_relabel {dflt₁ dflt₂ : K} {labelsOf₁ labelsOf₂ : List (Process K) → List String}
    {inp₁ inp₂ : BuildInput K} {b₁ b₂ : Built K} {sys₁ sys₂ : SystemDecl K}
    (h₁ : build dflt₁ labelsOf₁ inp₁ = .ok b₁) (h₂ : build dflt₂ labelsOf₂ inp₂ = .ok b₂)
    (hsys₁ : inp₁.system = some sys₁) (hsys₂ : inp₂.system = some sys₂)
    (hn : sys₁.uniqueNames.Nodup) (hperm : sys₂.uniqueNames.Perm sys₁.uniqueNames) :
    b₂.nSpecies = b₁.nSpecies ∧
    (∀ i, i < b₁.nSpecies → ∀ j, j < b₁.nSpecies →
      nameSigma b₁.speciesMap b₂.speciesMap i = nameSigma b₁.speciesMap b₂.speciesMap j → i = j) ∧
    (∀ i, i < b₁.nSpecies → nameSigma b₁.speciesMap b₂.speciesMap i < b₁.nSpecies) ∧
    b₂.speciesMap = relabel (nameSigma b₁.speciesMap b₂.speciesMap) b₁.speciesMap ∧
    (∀ name, nmLookup b₂.speciesMap name
      = (nmLookup b₁.speciesMap name).map (nameSigma b₁.speciesMap b₂.speciesMap)) := by
  obtain ⟨hb₁, hk₁, hn₁, -⟩ := C14_build_bijection h₁ hsys₁ hn
  obtain ⟨hb₂, hk₂, hn₂, -⟩ := C14_build_bijection h₂ hsys₂ (hperm.nodup_iff.mpr hn)
  have e : b₂.nSpecies = b₁.nSpecies := by rw [hn₁, hn₂, hperm.length_eq]
  rw [e] at hb₂
  obtain ⟨hinj, hrng, hrel⟩ := nameSigma_spec hb₁ hb₂ (hk₁.trans (hperm.symm.trans hk₂.symm))
  refine ⟨e, hinj, hrng, hrel, fun name => ?_⟩
  conv_lhs => rw [hrel]
  exact nmLookup_relabel _ _ _

/-- what `C14_tolerances` says of one build, keyed by the assignments of `tolAssigns` -/
theorem C14_tolerance_by_key {dflt : K} {labelsOf : List (Process K) → List String}
    {inp : BuildInput K} {b : Built K} {sys : SystemDecl K}
    (h : build dflt labelsOf inp = .ok b) (hsys : inp.system = some sys) (hn : sys.uniqueNames.Nodup)
    (hd : ((tolAssigns sys).map (·.1)).Nodup) :
    (∀ k v, (k, v) ∈ tolAssigns sys → ∃ i, nmLookup b.speciesMap k = some i ∧ rd b.atol i = v) ∧
    (∀ i, i < b.nSpecies → (∀ kv ∈ tolAssigns sys, nmLookup b.speciesMap kv.1 ≠ some i) →
      rd b.atol i = dflt) := by
  obtain ⟨-, hgas, hph, hdef⟩ := C14_tolerances h hsys hn hd
  obtain ⟨-, -, hlen, -⟩ := C14_build_bijection h hsys hn
  refine ⟨fun k v hkv => ?_, fun i hi => hdef i (hlen ▸ hi)⟩
  rcases C14_mem_tolAssigns.mp hkv with ⟨s, hs, hv, hk⟩ | ⟨ph, hph', s, hs, hv, hk⟩
  · obtain ⟨i, -, hl, -, hr⟩ := hgas s hs v hv
    exact ⟨i, by rw [show k = s.name from hk]; exact hl, hr⟩
  · obtain ⟨i, -, hl, -, hr⟩ := hph ph hph' s hs v hv
    exact ⟨i, by rw [show k = ph.1 ++ "." ++ s.name from hk]; exact hl, hr⟩

/-- **the builder sets the absolute tolerances by name**: two builds over the same names with the
    same tolerance declarations (as a set of (key, value) pairs, one per key) and the same default
    produce tolerance vectors that hold the same value for every species name -/
theorem C14_atol_by_name {dflt : K} {labelsOf₁ labelsOf₂ : List (Process K) → List String}
    {inp₁ inp₂ : BuildInput K} {b₁ b₂ : Built K} {sys₁ sys₂ : SystemDecl K}
    (h₁ : build dflt labelsOf₁ inp₁ = .ok b₁) (h₂ : build dflt labelsOf₂ inp₂ = .ok b₂)
    (hsys₁ : inp₁.system = some sys₁) (hsys₂ : inp₂.system = some sys₂)
    (hn : sys₁.uniqueNames.Nodup) (hperm : sys₂.uniqueNames.Perm sys₁.uniqueNames)
    (hd₁ : ((tolAssigns sys₁).map (·.1)).Nodup) (hd₂ : ((tolAssigns sys₂).map (·.1)).Nodup)
    (hsame : ∀ kv, kv ∈ tolAssigns sys₂ ↔ kv ∈ tolAssigns sys₁) :
    ByName b₁.speciesMap b₂.speciesMap b₁.atol b₂.atol := by
  have hn' := hperm.nodup_iff.mpr hn
  obtain ⟨hb₁, -, -, -⟩ := C14_build_bijection h₁ hsys₁ hn
  obtain ⟨hb₂, -, -, -⟩ := C14_build_bijection h₂ hsys₂ hn'
  obtain ⟨key₁, def₁⟩ := C14_tolerance_by_key h₁ hsys₁ hn hd₁
  obtain ⟨key₂, def₂⟩ := C14_tolerance_by_key h₂ hsys₂ hn' hd₂
  intro name i₁ i₂ hl₁ hl₂
  by_cases hex : ∃ v, (name, v) ∈ tolAssigns sys₁
  · obtain ⟨v, hv⟩ := hex
    obtain ⟨j₁, hj₁, hr₁⟩ := key₁ name v hv
    obtain ⟨j₂, hj₂, hr₂⟩ := key₂ name v ((hsame _).mpr hv)
    rw [hl₁] at hj₁
    rw [hl₂] at hj₂
    cases hj₁
    cases hj₂
    rw [hr₁, hr₂]
  · rw [def₁ i₁ (hb₁.lt name i₁ hl₁) (fun kv hkv hc => hex ⟨kv.2, by
        rw [← hb₁.inj kv.1 name i₁ hc hl₁]; exact hkv⟩),
      def₂ i₂ (hb₂.lt name i₂ hl₂) (fun kv hkv hc => hex ⟨kv.2, by
        rw [← hb₂.inj kv.1 name i₂ hc hl₂]; exact (hsame _).mp hkv⟩)]

/-- `ByName` from the (finitely many) entries of the two maps -/
theorem C14_byName_of_entries {m₁ m₂ : NameMap} {x₁ x₂ : Array K}
    (h : ∀ e₁ ∈ m₁, ∀ e₂ ∈ m₂, e₁.1 = e₂.1 → rd x₂ e₂.2 = rd x₁ e₁.2) : ByName m₁ m₂ x₁ x₂ :=
  fun name i₁ i₂ h1 h2 =>
    h (name, i₁) (nmLookup_eq_some_mem h1) (name, i₂) (nmLookup_eq_some_mem h2) rfl

section Solve
variable (o : Ops K) (cs : Consts K) (p : RosParams K) (kc : Mat K) (rtol T : K)

/-- **C14, the solution by name.**  Two successful builds of the same reactions `procs` over systems
    with the same unique names (`sys₂.uniqueNames` a rearrangement of `sys₁.uniqueNames`; the
    reordering options, default tolerances, label functions may differ), parameterized reactants
    not being state species; `s₁`, `s₂` the solvers built from them in any two configurations;
    absolute tolerances and initial concentrations given *by name*; States of the right shapes; no
    vanishing pivot in either run.  Then both `rosSolve` runs have the same status, final time,
    step history `(H, error, accepted)` and counters, and report the same concentration for every
    species name in every cell. -/
theorem C14_solution_by_name
    {dflt₁ dflt₂ : K} {labelsOf₁ labelsOf₂ : List (Process K) → List String}
    {inp₁ inp₂ : BuildInput K} {b₁ b₂ : Built K} {sys₁ sys₂ : SystemDecl K} {procs : List (Process K)}
    (h₁ : build dflt₁ labelsOf₁ inp₁ = .ok b₁) (h₂ : build dflt₂ labelsOf₂ inp₂ = .ok b₂)
    (hsys₁ : inp₁.system = some sys₁) (hsys₂ : inp₂.system = some sys₂)
    (hr₁ : inp₁.reactions = some procs) (hr₂ : inp₂.reactions = some procs)
    (hn : sys₁.uniqueNames.Nodup) (hperm : sys₂.uniqueNames.Perm sys₁.uniqueNames)
    (hparam : ∀ q ∈ procs, ∀ r ∈ q.reactants, r.param = true → r.name ∉ sys₁.uniqueNames)
    (s₁ s₂ : SolverCfg K) (csc₁ csc₂ : Bool) (Ls₁ Ls₂ : Nat) (kind₁ kind₂ : LUKind)
    (hs₁ : CfgBuilt s₁ b₁.tables b₁.nSpecies csc₁ Ls₁ kind₁)
    (hs₂ : CfgBuilt s₂ b₂.tables b₂.nSpecies csc₂ Ls₂ kind₂)
    (nCells : Nat) (atol₁ atol₂ : Array K) (hat : ByName b₁.speciesMap b₂.speciesMap atol₁ atol₂)
    (Y₁ Y₂ : Mat K) (hYs₁ : MatShape nCells b₁.nSpecies Y₁) (hYs₂ : MatShape nCells b₂.nSpecies Y₂)
    (hY : ∀ c, c < nCells → ByName b₁.speciesMap b₂.speciesMap (Y₁.getD c #[]) (Y₂.getD c #[]))
    (sc₁ sc₂ : Scratch K) (fuel : Nat)
    (hK₁ : KShape nCells b₁.nSpecies sc₁.k) (hksz₁ : p.stages ≤ sc₁.k.size)
    (hf₁ : MatShape nCells b₁.nSpecies sc₁.f0) (hye₁ : MatShape nCells b₁.nSpecies sc₁.yerr)
    (hj₁ : MatShape nCells s₁.la.A.nnz sc₁.jac)
    (hl₁ : s₁.la.kind.inPlace = false → MatShape nCells s₁.la.Lp.nnz sc₁.lower)
    (hu₁ : s₁.la.kind.inPlace = false → MatShape nCells s₁.la.Up.nnz sc₁.upper)
    (hK₂ : KShape nCells b₂.nSpecies sc₂.k) (hksz₂ : p.stages ≤ sc₂.k.size)
    (hf₂ : MatShape nCells b₂.nSpecies sc₂.f0) (hye₂ : MatShape nCells b₂.nSpecies sc₂.yerr)
    (hj₂ : MatShape nCells s₂.la.A.nnz sc₂.jac)
    (hl₂ : s₂.la.kind.inPlace = false → MatShape nCells s₂.la.Lp.nnz sc₂.lower)
    (hu₂ : s₂.la.kind.inPlace = false → MatShape nCells s₂.la.Up.nnz sc₂.upper)
    (hpiv₁ : ∀ j, j < fuel → PivotsOK o cs p kc T s₁ nCells b₁.nSpecies
      ((rosStep o cs s₁ p kc atol₁ rtol T (hmaxEff o p T))^[j] (rosInit (initialH o cs p T) Y₁ sc₁)))
    (hpiv₂ : ∀ j, j < fuel → PivotsOK o cs p kc T s₂ nCells b₂.nSpecies
      ((rosStep o cs s₂ p kc atol₂ rtol T (hmaxEff o p T))^[j] (rosInit (initialH o cs p T) Y₂ sc₂))) :
    (rosSolve o cs s₂ p kc atol₂ rtol T Y₂ sc₂ fuel).status
        = (rosSolve o cs s₁ p kc atol₁ rtol T Y₁ sc₁ fuel).status ∧
    (rosSolve o cs s₂ p kc atol₂ rtol T Y₂ sc₂ fuel).finalTime
        = (rosSolve o cs s₁ p kc atol₁ rtol T Y₁ sc₁ fuel).finalTime ∧
    (∀ c, c < nCells → ByName b₁.speciesMap b₂.speciesMap
      ((rosSolve o cs s₁ p kc atol₁ rtol T Y₁ sc₁ fuel).Y.getD c #[])
      ((rosSolve o cs s₂ p kc atol₂ rtol T Y₂ sc₂ fuel).Y.getD c #[])) ∧
    (rosSolve o cs s₂ p kc atol₂ rtol T Y₂ sc₂ fuel).trace.map attLog
        = (rosSolve o cs s₁ p kc atol₁ rtol T Y₁ sc₁ fuel).trace.map attLog ∧
    (rosSolve o cs s₂ p kc atol₂ rtol T Y₂ sc₂ fuel).stats.numberOfSteps
        = (rosSolve o cs s₁ p kc atol₁ rtol T Y₁ sc₁ fuel).stats.numberOfSteps ∧
    (rosSolve o cs s₂ p kc atol₂ rtol T Y₂ sc₂ fuel).stats.accepted
        = (rosSolve o cs s₁ p kc atol₁ rtol T Y₁ sc₁ fuel).stats.accepted ∧
    (rosSolve o cs s₂ p kc atol₂ rtol T Y₂ sc₂ fuel).stats.rejected
        = (rosSolve o cs s₁ p kc atol₁ rtol T Y₁ sc₁ fuel).stats.rejected ∧
    (rosSolve o cs s₂ p kc atol₂ rtol T Y₂ sc₂ fuel).stats.decompositions
        = (rosSolve o cs s₁ p kc atol₁ rtol T Y₁ sc₁ fuel).stats.decompositions ∧
    (rosSolve o cs s₂ p kc atol₂ rtol T Y₂ sc₂ fuel).stats.solves
        = (rosSolve o cs s₁ p kc atol₁ rtol T Y₁ sc₁ fuel).stats.solves ∧
    (rosSolve o cs s₂ p kc atol₂ rtol T Y₂ sc₂ fuel).stats.functionCalls
        = (rosSolve o cs s₁ p kc atol₁ rtol T Y₁ sc₁ fuel).stats.functionCalls ∧
    (s₁.la.kind.inPlace = s₂.la.kind.inPlace →
      (rosSolve o cs s₂ p kc atol₂ rtol T Y₂ sc₂ fuel).stats.jacobianUpdates
        = (rosSolve o cs s₁ p kc atol₁ rtol T Y₁ sc₁ fuel).stats.jacobianUpdates) := by
  obtain ⟨hb₁, hk₁, -, hp₁⟩ := C14_build_bijection h₁ hsys₁ hn
  obtain ⟨-, -, -, hp₂⟩ := C14_build_bijection h₂ hsys₂ (hperm.nodup_iff.mpr hn)
  obtain ⟨e, hinj, hrng, hrel, -⟩ := C14_builds_relabel h₁ h₂ hsys₁ hsys₂ hn hperm
  rw [hr₁, Option.getD_some] at hp₁
  rw [hr₂, Option.getD_some] at hp₂
  rw [e] at hs₂ hYs₂ hK₂ hf₂ hye₂ hpiv₂
  generalize nameSigma b₁.speciesMap b₂.speciesMap = σ at hinj hrng hrel
  rw [hrel] at hp₂ hat hY ⊢
  have hmech : Mechanism procs b₁.speciesMap b₁.tables b₁.nSpecies :=
    Mechanism.of_bij hp₁ hb₁ (fun q hq r hr hpar hmem => hparam q hq r hr hpar (hk₁.mem_iff.mp hmem))
  obtain ⟨g1, g2, g3, g4, g5, g6, g7, g8, g9, g10, g11⟩ :=
    C12_solve_relabel o cs p kc atol₁ atol₂ rtol T σ hinj hrng hmech hp₂ s₁ s₂ csc₁ csc₂ Ls₁ Ls₂
      kind₁ kind₂ hs₁ hs₂ nCells ((byName_relabel_iff hb₁ σ _ _).mp hat) Y₁ Y₂ hYs₁ hYs₂
      (fun c hc => (byName_relabel_iff hb₁ σ _ _).mp (hY c hc)) sc₁ sc₂ fuel
      hK₁ hksz₁ hf₁ hye₁ hj₁ hl₁ hu₁ hK₂ hksz₂ hf₂ hye₂ hj₂ hl₂ hu₂ hpiv₁ hpiv₂
  exact ⟨g1, g2, fun c hc => (byName_relabel_iff hb₁ σ _ _).mpr (g3.2.2 c hc), g4, g5, g6, g7, g8, g9,
    g10, g11⟩

/-- **C14, the solution by name, backward Euler**: the same for `beSolve` (same status, final
    time, all statistics, sequence of step sizes; same concentration per species name) -/
theorem C14_be_solution_by_name (pb : BEParams K)
    {dflt₁ dflt₂ : K} {labelsOf₁ labelsOf₂ : List (Process K) → List String}
    {inp₁ inp₂ : BuildInput K} {b₁ b₂ : Built K} {sys₁ sys₂ : SystemDecl K} {procs : List (Process K)}
    (h₁ : build dflt₁ labelsOf₁ inp₁ = .ok b₁) (h₂ : build dflt₂ labelsOf₂ inp₂ = .ok b₂)
    (hsys₁ : inp₁.system = some sys₁) (hsys₂ : inp₂.system = some sys₂)
    (hr₁ : inp₁.reactions = some procs) (hr₂ : inp₂.reactions = some procs)
    (hn : sys₁.uniqueNames.Nodup) (hperm : sys₂.uniqueNames.Perm sys₁.uniqueNames)
    (hparam : ∀ q ∈ procs, ∀ r ∈ q.reactants, r.param = true → r.name ∉ sys₁.uniqueNames)
    (s₁ s₂ : SolverCfg K) (csc₁ csc₂ : Bool) (Ls₁ Ls₂ : Nat) (kind₁ kind₂ : LUKind)
    (hs₁ : CfgBuilt s₁ b₁.tables b₁.nSpecies csc₁ Ls₁ kind₁)
    (hs₂ : CfgBuilt s₂ b₂.tables b₂.nSpecies csc₂ Ls₂ kind₂)
    (nCells : Nat) (atol₁ atol₂ : Array K) (hat : ByName b₁.speciesMap b₂.speciesMap atol₁ atol₂)
    (Y₁ Y₂ : Mat K) (hYs₁ : MatShape nCells b₁.nSpecies Y₁) (hYs₂ : MatShape nCells b₂.nSpecies Y₂)
    (hY : ∀ c, c < nCells → ByName b₁.speciesMap b₂.speciesMap (Y₁.getD c #[]) (Y₂.getD c #[]))
    (sc₁ sc₂ : Scratch K) (fuel : Nat)
    (hf₁ : MatShape nCells b₁.nSpecies sc₁.f0) (hj₁ : MatShape nCells s₁.la.A.nnz sc₁.jac)
    (hl₁ : s₁.la.kind.inPlace = false → MatShape nCells s₁.la.Lp.nnz sc₁.lower)
    (hu₁ : s₁.la.kind.inPlace = false → MatShape nCells s₁.la.Up.nnz sc₁.upper)
    (hf₂ : MatShape nCells b₂.nSpecies sc₂.f0) (hj₂ : MatShape nCells s₂.la.A.nnz sc₂.jac)
    (hl₂ : s₂.la.kind.inPlace = false → MatShape nCells s₂.la.Lp.nnz sc₂.lower)
    (hu₂ : s₂.la.kind.inPlace = false → MatShape nCells s₂.la.Up.nnz sc₂.upper)
    (hpiv₁ : ∀ j, j < fuel → BEPivotsOK o kc T s₁ nCells b₁.nSpecies
      ((beStep o s₁ pb kc atol₁ rtol T)^[j] (beInit (beInitialH o pb T) Y₁ sc₁)))
    (hpiv₂ : ∀ j, j < fuel → BEPivotsOK o kc T s₂ nCells b₂.nSpecies
      ((beStep o s₂ pb kc atol₂ rtol T)^[j] (beInit (beInitialH o pb T) Y₂ sc₂))) :
    (beSolve o s₂ pb kc atol₂ rtol T Y₂ sc₂ fuel).status
        = (beSolve o s₁ pb kc atol₁ rtol T Y₁ sc₁ fuel).status ∧
    (beSolve o s₂ pb kc atol₂ rtol T Y₂ sc₂ fuel).finalTime
        = (beSolve o s₁ pb kc atol₁ rtol T Y₁ sc₁ fuel).finalTime ∧
    (beSolve o s₂ pb kc atol₂ rtol T Y₂ sc₂ fuel).stats
        = (beSolve o s₁ pb kc atol₁ rtol T Y₁ sc₁ fuel).stats ∧
    (∀ c, c < nCells → ByName b₁.speciesMap b₂.speciesMap
      ((beSolve o s₁ pb kc atol₁ rtol T Y₁ sc₁ fuel).Y.getD c #[])
      ((beSolve o s₂ pb kc atol₂ rtol T Y₂ sc₂ fuel).Y.getD c #[])) ∧
    (beSolve o s₂ pb kc atol₂ rtol T Y₂ sc₂ fuel).trace.map (·.h)
        = (beSolve o s₁ pb kc atol₁ rtol T Y₁ sc₁ fuel).trace.map (·.h) := by
  obtain ⟨hb₁, hk₁, -, hp₁⟩ := C14_build_bijection h₁ hsys₁ hn
  obtain ⟨-, -, -, hp₂⟩ := C14_build_bijection h₂ hsys₂ (hperm.nodup_iff.mpr hn)
  obtain ⟨e, hinj, hrng, hrel, -⟩ := C14_builds_relabel h₁ h₂ hsys₁ hsys₂ hn hperm
  rw [hr₁, Option.getD_some] at hp₁
  rw [hr₂, Option.getD_some] at hp₂
  rw [e] at hs₂ hYs₂ hf₂ hpiv₂
  generalize nameSigma b₁.speciesMap b₂.speciesMap = σ at hinj hrng hrel
  rw [hrel] at hp₂ hat hY ⊢
  have hmech : Mechanism procs b₁.speciesMap b₁.tables b₁.nSpecies :=
    Mechanism.of_bij hp₁ hb₁ (fun q hq r hr hpar hmem => hparam q hq r hr hpar (hk₁.mem_iff.mp hmem))
  obtain ⟨g1, g2, g3, g4, g5⟩ :=
    C12_be_solve_relabel o kc atol₁ atol₂ rtol T pb σ hinj hrng hmech hp₂ s₁ s₂ csc₁ csc₂ Ls₁ Ls₂
      kind₁ kind₂ hs₁ hs₂ nCells ((byName_relabel_iff hb₁ σ _ _).mp hat) Y₁ Y₂ hYs₁ hYs₂
      (fun c hc => (byName_relabel_iff hb₁ σ _ _).mp (hY c hc)) sc₁ sc₂ fuel
      hf₁ hj₁ hl₁ hu₁ hf₂ hj₂ hl₂ hu₂ hpiv₁ hpiv₂
  exact ⟨g1, g2, g3, fun c hc => (byName_relabel_iff hb₁ σ _ _).mpr (g4.2.2 c hc), g5⟩

end Solve

/-! ## Examples: C02's mechanism `s0 + s0 + s1 → 2 s2 ; s2 → s0` built from a `SystemDecl`,
    (A) reordering off vs. on — Markowitz exchanges `s0` and `s1`; (B) species listed as
    `s2, s0, s1` — a 3-cycle of the indices.  Tolerances come from the species' properties. -/

namespace C14bEx
open C12Ex
set_option maxRecDepth 100000

def exSys : SystemDecl ℚ :=
  { gas := [{ name := "s0", atol := some (1/10) }, { name := "s1", atol := some (1/5) },
            { name := "s2", atol := some (1/20) }], phases := [] }

/-- the same species listed in another order -/
def exSys' : SystemDecl ℚ :=
  { gas := [{ name := "s2", atol := some (1/20) }, { name := "s0", atol := some (1/10) },
            { name := "s1", atol := some (1/5) }], phases := [] }

def exInp (sys : SystemDecl ℚ) (reorder : Bool) : BuildInput ℚ :=
  { system := some sys, reactions := some (c02Procs ℚ), reorder := reorder }

def exB (sys : SystemDecl ℚ) (reorder : Bool) : Built ℚ :=
  match build (1/1000) (fun _ => []) (exInp sys reorder) with
  | .ok b => b
  | .error _ => default

theorem ok_of_isSome (x : Except Err (Built ℚ)) (h : x.toOption.isSome = true) :
    x = .ok (match x with | .ok b => b | .error _ => default) := by
  cases x with
  | ok b => rfl
  | error e => cases h

theorem exBuild_off : build (1/1000) (fun _ => []) (exInp exSys false) = .ok (exB exSys false) :=
  ok_of_isSome _ (by decide +kernel)
theorem exBuild_on : build (1/1000) (fun _ => []) (exInp exSys true) = .ok (exB exSys true) :=
  ok_of_isSome _ (by decide +kernel)
theorem exBuild_listed : build (1/1000) (fun _ => []) (exInp exSys' false) = .ok (exB exSys' false) :=
  ok_of_isSome _ (by decide +kernel)

example : (exB exSys false).speciesMap = [("s0", 0), ("s1", 1), ("s2", 2)] ∧
    (exB exSys true).speciesMap = [("s0", 1), ("s1", 0), ("s2", 2)] ∧
    (exB exSys' false).speciesMap = [("s0", 1), ("s1", 2), ("s2", 0)] ∧
    (exB exSys false).atol = #[1/10, 1/5, 1/20] ∧ (exB exSys true).atol = #[1/5, 1/10, 1/20] ∧
    (exB exSys' false).atol = #[1/20, 1/10, 1/5] := by decide +kernel

/-- the relabelling between the builds is not the identity -/
example : (List.range 3).map (nameSigma (exB exSys false).speciesMap (exB exSys true).speciesMap) = [1, 0, 2] ∧
    (List.range 3).map (nameSigma (exB exSys false).speciesMap (exB exSys' false).speciesMap) = [1, 2, 0] := by
  decide +kernel

def exCfg (b : Built ℚ) (kind : LUKind) (csc : Bool) (L : Nat) : SolverCfg ℚ :=
  let la := LinAlg.build kind
    (Pattern.mk' b.nSpecies csc L (buildJacobianSet b.nSpecies b.tables.nonZeroJacobianElements))
  { nSpecies := b.nSpecies, L := L, tables := b.tables,
    flatIds := match b.tables.jacobianFlatIds la.A with | .ok f => f | .error _ => [],
    la := la, diag := la.A.diagRanks }

/-- first build (reordering off): Doolittle, CSR, `L = 0` -/
def cfg₁ : SolverCfg ℚ := exCfg (exB exSys false) .doolittle false 0
/-- (A) reordering on: Mozart in place, CSC, `L = 2` -/
def cfgA₂ : SolverCfg ℚ := exCfg (exB exSys true) .mozartInPlace true 2
/-- (B) other listing order: Doolittle in place, CSR, `L = 3` -/
def cfgB₂ : SolverCfg ℚ := exCfg (exB exSys' false) .doolittleInPlace false 3

theorem cfg₁_built : CfgBuilt cfg₁ (exB exSys false).tables (exB exSys false).nSpecies false 0 .doolittle :=
  ⟨rfl, rfl, rfl, by decide +kernel, rfl⟩
theorem cfgA₂_built :
    CfgBuilt cfgA₂ (exB exSys true).tables (exB exSys true).nSpecies true 2 .mozartInPlace :=
  ⟨rfl, rfl, rfl, by decide +kernel, rfl⟩
theorem cfgB₂_built :
    CfgBuilt cfgB₂ (exB exSys' false).tables (exB exSys' false).nSpecies false 3 .doolittleInPlace :=
  ⟨rfl, rfl, rfl, by decide +kernel, rfl⟩

/-- concentrations `s0 = 2, s1 = 7, s2 = 11` (cell 0), `1, 1, 1` (cell 1), through each map -/
def exY₁ : Mat ℚ := #[#[2, 7, 11], #[1, 1, 1]]
def exYA₂ : Mat ℚ := #[#[7, 2, 11], #[1, 1, 1]]
def exYB₂ : Mat ℚ := #[#[11, 2, 7], #[1, 1, 1]]

theorem exParam : ∀ q ∈ c02Procs ℚ, ∀ r ∈ q.reactants, r.param = true → r.name ∉ exSys.uniqueNames := by
  simp [c02Procs]

/-- (A): all hypotheses of `C14_solution_by_name` hold; the tolerances are the builds' own
    (`C14_atol_by_name`) -/
example :=
  C14_solution_by_name ratOps Ex.consts Ex.params exKc (1/10) 1 exBuild_off exBuild_on rfl rfl rfl rfl
    (by decide) (List.Perm.refl _) exParam cfg₁ cfgA₂ false true 0 2 .doolittle .mozartInPlace
    cfg₁_built cfgA₂_built 2 (exB exSys false).atol (exB exSys true).atol
    (C14_atol_by_name exBuild_off exBuild_on rfl rfl (by decide) (List.Perm.refl _) (by decide) (by decide)
      (fun _ => Iff.rfl))
    exY₁ exYA₂ (by unfold MatShape; decide +kernel) (by unfold MatShape; decide +kernel)
    (fun c hc => C14_byName_of_entries ((by decide +kernel :
      ∀ c, c < 2 → ∀ e₁ ∈ (exB exSys false).speciesMap, ∀ e₂ ∈ (exB exSys true).speciesMap,
        e₁.1 = e₂.1 → rd (exYA₂.getD c #[]) e₂.2 = rd (exY₁.getD c #[]) e₁.2) c hc))
    (solveScratch cfg₁) (solveScratch cfgA₂) 4
    (by unfold KShape MatShape; decide +kernel) (by decide) (by unfold MatShape; decide +kernel)
    (by unfold MatShape; decide +kernel) (by unfold MatShape; decide +kernel)
    (fun _ => by unfold MatShape; decide +kernel) (fun _ => by unfold MatShape; decide +kernel)
    (by unfold KShape MatShape; decide +kernel) (by decide) (by unfold MatShape; decide +kernel)
    (by unfold MatShape; decide +kernel) (by unfold MatShape; decide +kernel)
    (fun h => by cases h) (fun h => by cases h)
    (by unfold PivotsOK; decide +kernel) (by unfold PivotsOK; decide +kernel)

/-- (B): the same with the species listed in another order -/
example :=
  C14_solution_by_name ratOps Ex.consts Ex.params exKc (1/10) 1 exBuild_off exBuild_listed rfl rfl rfl rfl
    (by decide) (by decide) exParam cfg₁ cfgB₂ false false 0 3 .doolittle .doolittleInPlace
    cfg₁_built cfgB₂_built 2 (exB exSys false).atol (exB exSys' false).atol
    (C14_atol_by_name exBuild_off exBuild_listed rfl rfl (by decide) (by decide) (by decide) (by decide)
      (fun _ => (by decide +kernel : (tolAssigns exSys').Perm (tolAssigns exSys)).mem_iff))
    exY₁ exYB₂ (by unfold MatShape; decide +kernel) (by unfold MatShape; decide +kernel)
    (fun c hc => C14_byName_of_entries ((by decide +kernel :
      ∀ c, c < 2 → ∀ e₁ ∈ (exB exSys false).speciesMap, ∀ e₂ ∈ (exB exSys' false).speciesMap,
        e₁.1 = e₂.1 → rd (exYB₂.getD c #[]) e₂.2 = rd (exY₁.getD c #[]) e₁.2) c hc))
    (solveScratch cfg₁) (solveScratch cfgB₂) 4
    (by unfold KShape MatShape; decide +kernel) (by decide) (by unfold MatShape; decide +kernel)
    (by unfold MatShape; decide +kernel) (by unfold MatShape; decide +kernel)
    (fun _ => by unfold MatShape; decide +kernel) (fun _ => by unfold MatShape; decide +kernel)
    (by unfold KShape MatShape; decide +kernel) (by decide) (by unfold MatShape; decide +kernel)
    (by unfold MatShape; decide +kernel) (by unfold MatShape; decide +kernel)
    (fun h => by cases h) (fun h => by cases h)
    (by unfold PivotsOK; decide +kernel) (by unfold PivotsOK; decide +kernel)

/-- the three runs, evaluated: four attempts each with the same `(H, accepted)`, the solution has
    moved, and the value reported for `s0, s1, s2` is the same in all three -/
example :
    let R₁ := rosSolve ratOps Ex.consts cfg₁ Ex.params exKc (exB exSys false).atol (1/10) 1 exY₁
      (solveScratch cfg₁) 4
    let RA := rosSolve ratOps Ex.consts cfgA₂ Ex.params exKc (exB exSys true).atol (1/10) 1 exYA₂
      (solveScratch cfgA₂) 4
    let RB := rosSolve ratOps Ex.consts cfgB₂ Ex.params exKc (exB exSys' false).atol (1/10) 1 exYB₂
      (solveScratch cfgB₂) 4
    R₁.trace.length = 4 ∧ R₁.Y ≠ exY₁ ∧
    RA.trace.map (fun a => (a.h, a.accepted)) = R₁.trace.map (fun a => (a.h, a.accepted)) ∧
    RB.trace.map (fun a => (a.h, a.accepted)) = R₁.trace.map (fun a => (a.h, a.accepted)) ∧
    (∀ c, c < 2 → ∀ name ∈ ["s0", "s1", "s2"],
      (nmLookup (exB exSys true).speciesMap name).map (rd (RA.Y.getD c #[]))
        = (nmLookup (exB exSys false).speciesMap name).map (rd (R₁.Y.getD c #[])) ∧
      (nmLookup (exB exSys' false).speciesMap name).map (rd (RB.Y.getD c #[]))
        = (nmLookup (exB exSys false).speciesMap name).map (rd (R₁.Y.getD c #[]))) := by
  decide +kernel

end C14bEx

end Micm

#print axioms Micm.C14_build_bijection
#print axioms Micm.C14_builds_relabel
#print axioms Micm.C14_tolerance_by_key
#print axioms Micm.C14_atol_by_name
#print axioms Micm.C14_byName_of_entries
#print axioms Micm.C14_solution_by_name
#print axioms Micm.C14_be_solution_by_name
