/-
C06 (time bounds) — `final_time` stays in `[0, time_step]`; `Converged` means `final_time` is within
`round_off` of `time_step`; bookkeeping of the documented continuation loop.

Ordered field, `OrderedOps o` (the model's comparisons are the field's, no NaN/Inf), legal controller
parameters, `safety < 1`, `0 ≤ round_off`, and the explicit hypothesis on the uninterpreted `pow`
(`1 ≤ x → 1 ≤ pow x (1/order)`, as in `C07_reject_shrinks`): it makes every rejection shrink `H`,
which is what keeps `t + H ≤ T` inside a step.  `hm` (the effective `h_max`) is arbitrary.
-/
import Micm.Lemmas.TimeBounds
import Micm.Properties.C06

namespace Micm
set_option linter.unusedSectionVars false

section TimeBounds
variable {K : Type} [Field K] [LinearOrder K] [IsStrictOrderedRing K]
variable {o : Ops K} (cs : Consts K) (s : SolverCfg K) (p : RosParams K) (kc : Mat K)
    (atol : Array K) (rtol : K) (T hm : K)

/-- one iteration of the loop preserves: `0 ≤ t ≤ T`; inside a step `0 ≤ H`, `t + H ≤ T` and
    (`round_off > 0`) `0 < H`; every accepted attempt recorded so far has `0 ≤ h ≤ t`.
    (Step start clips `H ≤ T − t`; a rejection only shrinks `H`; an acceptance adds `H` to `t`.) -/
theorem C06_time_bounds_step (ho : OrderedOps o) (lp : LegalParams p) (hs1 : p.safety < 1)
    (hpow : ∀ x, 1 ≤ x → 1 ≤ o.pow x (1 / p.order)) (hro : 0 ≤ p.roundOff) (r : RState K)
    (h : TimeInv p T r) : TimeInv p T (rosStep o cs s p kc atol rtol T hm r) :=
  TimeInv_step cs s p kc atol rtol T hm ho lp hs1 hpow hro r h

/-- **C06_time_bounds**: for `0 ≤ T`, every state reachable from the initial state of `rosSolve`
    (any first `H = h0`, any number `n` of loop iterations) satisfies `0 ≤ t ≤ T` and, while inside a
    step, `0 ≤ H`, `t + H ≤ T`, and `0 < H` provided `round_off > 0`. -/
theorem C06_time_bounds (ho : OrderedOps o) (lp : LegalParams p) (hs1 : p.safety < 1)
    (hpow : ∀ x, 1 ≤ x → 1 ≤ o.pow x (1 / p.order)) (hro : 0 ≤ p.roundOff) (hT : 0 ≤ T)
    (h0 : K) (Y : Mat K) (sc : Scratch K) (n : Nat) :
    0 ≤ ((rosStep o cs s p kc atol rtol T hm)^[n] (rosInit h0 Y sc)).ctl.t ∧
    ((rosStep o cs s p kc atol rtol T hm)^[n] (rosInit h0 Y sc)).ctl.t ≤ T ∧
    (((rosStep o cs s p kc atol rtol T hm)^[n] (rosInit h0 Y sc)).inStep = true →
      0 ≤ ((rosStep o cs s p kc atol rtol T hm)^[n] (rosInit h0 Y sc)).ctl.h ∧
      ((rosStep o cs s p kc atol rtol T hm)^[n] (rosInit h0 Y sc)).ctl.t +
        ((rosStep o cs s p kc atol rtol T hm)^[n] (rosInit h0 Y sc)).ctl.h ≤ T ∧
      (0 < p.roundOff → 0 < ((rosStep o cs s p kc atol rtol T hm)^[n] (rosInit h0 Y sc)).ctl.h)) := by
  have h := TimeInv_iter cs s p kc atol rtol T hm ho lp hs1 hpow hro _ (TimeInv_init p T h0 Y sc hT) n
  exact ⟨h.1, h.2, fun hi => ⟨h.3 hi, h.4 hi, h.5 hi⟩⟩

/-- the same for the state in which `rosLoop` stops (any fuel, any status, including `outOfFuel`) -/
theorem C06_time_bounds_loop (ho : OrderedOps o) (lp : LegalParams p) (hs1 : p.safety < 1)
    (hpow : ∀ x, 1 ≤ x → 1 ≤ o.pow x (1 / p.order)) (hro : 0 ≤ p.roundOff) (hT : 0 ≤ T)
    (h0 : K) (Y : Mat K) (sc : Scratch K) (fuel : Nat) :
    0 ≤ (rosLoop o cs s p kc atol rtol T hm fuel (rosInit h0 Y sc)).ctl.t ∧
    (rosLoop o cs s p kc atol rtol T hm fuel (rosInit h0 Y sc)).ctl.t ≤ T ∧
    ((rosLoop o cs s p kc atol rtol T hm fuel (rosInit h0 Y sc)).inStep = true →
      0 ≤ (rosLoop o cs s p kc atol rtol T hm fuel (rosInit h0 Y sc)).ctl.h ∧
      (rosLoop o cs s p kc atol rtol T hm fuel (rosInit h0 Y sc)).ctl.t +
        (rosLoop o cs s p kc atol rtol T hm fuel (rosInit h0 Y sc)).ctl.h ≤ T ∧
      (0 < p.roundOff → 0 < (rosLoop o cs s p kc atol rtol T hm fuel (rosInit h0 Y sc)).ctl.h)) := by
  have h := TimeInv_loop cs s p kc atol rtol T hm ho lp hs1 hpow hro fuel _ (TimeInv_init p T h0 Y sc hT)
  exact ⟨h.1, h.2, fun hi => ⟨h.3 hi, h.4 hi, h.5 hi⟩⟩

variable (Y : Mat K) (sc : Scratch K) (fuel : Nat)

/-- **`0 ≤ final_time ≤ time_step`** for every result of `rosSolve` (any status), and every accepted
    attempt has `0 ≤ h ≤ final_time` -/
theorem C06_final_time_bounds (ho : OrderedOps o) (lp : LegalParams p) (hs1 : p.safety < 1)
    (hpow : ∀ x, 1 ≤ x → 1 ≤ o.pow x (1 / p.order)) (hro : 0 ≤ p.roundOff) (hT : 0 ≤ T) :
    0 ≤ (rosSolve o cs s p kc atol rtol T Y sc fuel).finalTime ∧
    (rosSolve o cs s p kc atol rtol T Y sc fuel).finalTime ≤ T ∧
    ∀ a ∈ (rosSolve o cs s p kc atol rtol T Y sc fuel).trace, a.accepted = true →
      0 ≤ a.h ∧ a.h ≤ (rosSolve o cs s p kc atol rtol T Y sc fuel).finalTime :=
  rosSolve_time_bounds cs s p kc atol rtol fuel ho lp hs1 hpow hro T hT Y sc

/-- **C06_converged_close**: `Converged ⇒ T − round_off < final_time ≤ T` -/
theorem C06_converged_close (ho : OrderedOps o) (lp : LegalParams p) (hs1 : p.safety < 1)
    (hpow : ∀ x, 1 ≤ x → 1 ≤ o.pow x (1 / p.order)) (hro : 0 ≤ p.roundOff) (hT : 0 ≤ T)
    (h : (rosSolve o cs s p kc atol rtol T Y sc fuel).status = .converged) :
    T - p.roundOff < (rosSolve o cs s p kc atol rtol T Y sc fuel).finalTime ∧
    (rosSolve o cs s p kc atol rtol T Y sc fuel).finalTime ≤ T :=
  ⟨(C06_converged_means_done cs s p kc atol rtol T Y sc fuel ho h).2,
   (C06_final_time_bounds cs s p kc atol rtol T Y sc fuel ho lp hs1 hpow hro hT).2.1⟩

/-- remainder bookkeeping of the documented continuation loop
    (`contLoop … k` = (remaining time, solution, scratch) after `k` calls, call `k+1` being
    `Solve(remaining, …)` and the new remainder `remaining − final_time`):
    if before each of the first `k` calls the remainder was still `≥ round_off` and each of these
    calls accepted at least one step of size `≥ δ`, the remainder after `k` calls lies in `[0, T − k·δ]`. -/
theorem C06_continuation_remainder (ho : OrderedOps o) (lp : LegalParams p) (hs1 : p.safety < 1)
    (hpow : ∀ x, 1 ≤ x → 1 ≤ o.pow x (1 / p.order)) (hro : 0 ≤ p.roundOff) (hT : 0 ≤ T)
    (δ : K) (k : Nat)
    (hprog : ∀ j, j < k →
      p.roundOff ≤ (contLoop o cs s p kc atol rtol fuel T Y sc j).1 →
      ∃ a ∈ (rosSolve o cs s p kc atol rtol (contLoop o cs s p kc atol rtol fuel T Y sc j).1
              (contLoop o cs s p kc atol rtol fuel T Y sc j).2.1
              (contLoop o cs s p kc atol rtol fuel T Y sc j).2.2 fuel).trace,
        a.accepted = true ∧ δ ≤ a.h)
    (hall : ∀ j, j < k → p.roundOff ≤ (contLoop o cs s p kc atol rtol fuel T Y sc j).1) :
    0 ≤ (contLoop o cs s p kc atol rtol fuel T Y sc k).1 ∧
    (contLoop o cs s p kc atol rtol fuel T Y sc k).1 ≤ T - (k : K) * δ :=
  contLoop_bound cs s p kc atol rtol fuel ho lp hs1 hpow hro T hT Y sc δ k hprog hall

/- Full claim (not provable without an assumption about the problem): "the continuation loop
   terminates".  What is missing is a guarantee of progress: a call may return without an accepted
   step (`StepSizeTooSmall`, `ConvergenceExceededMaxSteps`, fuel), so progress is a hypothesis. -/
/-- **C06_continuation_terminates_partial**: if every call made while the remainder is still
    `≥ round_off` accepts at least one step of size `≥ δ` (hypothesis `hprog`), then the remainder
    drops below `round_off` after finitely many calls — at the latest after the first `k` calls with
    `k·δ > T − round_off`. -/
theorem C06_continuation_terminates_partial (ho : OrderedOps o) (lp : LegalParams p)
    (hs1 : p.safety < 1) (hpow : ∀ x, 1 ≤ x → 1 ≤ o.pow x (1 / p.order)) (hro : 0 ≤ p.roundOff)
    (hT : 0 ≤ T) (δ : K) (k : Nat)
    (hprog : ∀ j, j < k →
      p.roundOff ≤ (contLoop o cs s p kc atol rtol fuel T Y sc j).1 →
      ∃ a ∈ (rosSolve o cs s p kc atol rtol (contLoop o cs s p kc atol rtol fuel T Y sc j).1
              (contLoop o cs s p kc atol rtol fuel T Y sc j).2.1
              (contLoop o cs s p kc atol rtol fuel T Y sc j).2.2 fuel).trace,
        a.accepted = true ∧ δ ≤ a.h)
    (hk : T - p.roundOff < (k : K) * δ) :
    ∃ j, j ≤ k ∧ (contLoop o cs s p kc atol rtol fuel T Y sc j).1 < p.roundOff :=
  contLoop_terminates cs s p kc atol rtol fuel ho lp hs1 hpow hro T hT Y sc δ k hprog hk

end TimeBounds

/-! ### the hypotheses are satisfiable (`y' = −y` over `ℚ`, `Micm.Ex` of `Lemmas/RosLoop.lean`) -/

example : OrderedOps ratOps := ratOps_ordered

theorem C06_exParams_legal : LegalParams Ex.params := by
  constructor <;> simp only [Ex.params] <;> norm_num

example : Ex.params.safety < 1 := by simp only [Ex.params]; norm_num
example : (0 : ℚ) ≤ Ex.params.roundOff := by simp only [Ex.params]; norm_num
example : ∀ x : ℚ, 1 ≤ x → 1 ≤ ratOps.pow x (1 / Ex.params.order) := fun _ h => h

/-- the theorem instantiated on the concrete run -/
example (kind : LUKind) (T : ℚ) (hT : 0 ≤ T) (fuel : Nat) :
    0 ≤ (Ex.run kind T fuel).finalTime ∧ (Ex.run kind T fuel).finalTime ≤ T :=
  let h := C06_final_time_bounds Ex.consts (Ex.cfg kind) Ex.params #[#[1]] #[1/10] (1/10) T #[#[1]]
    Ex.scratch fuel ratOps_ordered C06_exParams_legal (by simp only [Ex.params]; norm_num) (fun _ h => h)
    (by simp only [Ex.params]; norm_num) hT
  ⟨h.1, h.2.1⟩

/-- four rejections (`H = 1000, 200, 40, 4`) inside the first step of `T = 1000`, then an accepted
    `H = 2/5`, then the fuel is exhausted: `0 ≤ t = 2/5 ≤ T` -/
example : (Ex.run .mozart 1000 5).finalTime = 2/5 := by decide +kernel

/-- the continuation loop on the instance: with enough fuel one call reaches `T = 1` (remainder `0`);
    with 5 iterations of fuel the first call on `T = 1000` only gets to `t = 2/5`, the second call is
    made on the remainder -/
example :
    (contLoop ratOps Ex.consts (Ex.cfg .doolittle) Ex.params #[#[1]] #[1/10] (1/10) 40 1 #[#[1]] Ex.scratch 1).1 = 0 ∧
    (contLoop ratOps Ex.consts (Ex.cfg .doolittle) Ex.params #[#[1]] #[1/10] (1/10) 5 1000 #[#[1]] Ex.scratch 1).1
      = 1000 - 2/5 ∧
    (contLoop ratOps Ex.consts (Ex.cfg .doolittle) Ex.params #[#[1]] #[1/10] (1/10) 5 1000 #[#[1]] Ex.scratch 2).1
      < 1000 - 2/5 := by
  decide +kernel

/-- `0 < H` inside a step needs `round_off > 0`: with `round_off = 0` the loop does not stop at
    `t = T` and starts steps of size `H = min H |T − t| = 0` -/
example :
    ((rosSolve ratOps Ex.consts (Ex.cfg .doolittle) { Ex.params with roundOff := 0 } #[#[1]] #[1/10] (1/10)
      (2/5) #[#[1]] Ex.scratch 3).trace.map (·.h)) = [2/5, 0, 0] := by
  decide +kernel

#print axioms C06_time_bounds_step
#print axioms C06_time_bounds
#print axioms C06_time_bounds_loop
#print axioms C06_final_time_bounds
#print axioms C06_converged_close
#print axioms C06_continuation_remainder
#print axioms C06_continuation_terminates_partial

end Micm
