/-
C20 (continued) — the documented error conditions outside the builder and the State, as decision
logic of the model functions in Model/Errors.lean and Model/Sparse.lean.
-/
import Micm.Model.Errors
namespace Micm

/-- a surface reaction is rejected iff it has more than one reactant, with (MICM Process, 1) -/
theorem C20_surface_error_iff (n : Nat) :
    (surfaceProcessCheck n = .error (.sys catProcess 1) ↔ 1 < n) ∧ (surfaceProcessCheck n = .ok () ↔ n ≤ 1) := by
  unfold surfaceProcessCheck
  by_cases h : n > 1
  · simp [h]
  · simp [h]; omega

/-- reading a species property: unsupported type ⇒ (MICM Species, 2); missing key ⇒ (MICM Species, 1); else success -/
theorem C20_property_error (ty : PropType) (present : Bool) :
    getPropertyCheck ty present =
      if ty = .unsupported then .error (.sys catSpecies 2)
      else if present then .ok () else .error (.sys catSpecies 1) := by
  cases ty <;> simp [getPropertyCheck]

/-- construction from nested vectors fails iff some row differs in length from the first, with (MICM Matrix, 2) -/
theorem C20_nested_error_iff (c : Nat) (rest : List Nat) :
    (nestedCheck (c :: rest) = .error (.sys catMatrix 2) ↔ ∃ x ∈ rest, x ≠ c) ∧
    (nestedCheck (c :: rest) = .ok (rest.length + 1, c) ↔ ∀ x ∈ rest, x = c) := by
  unfold nestedCheck
  by_cases h : ∀ x ∈ rest, x = c
  · have : (c :: rest).all (· == c) = true := by
      simp only [List.all_cons, beq_self_eq_true, Bool.true_and, List.all_eq_true, beq_iff_eq]
      exact h
    simp only [this, if_true]
    constructor
    · constructor
      · intro hh; cases hh
      · rintro ⟨x, hx, hne⟩; exact absurd (h x hx) hne
    · exact ⟨fun _ => h, fun _ => rfl⟩
  · have hall : (c :: rest).all (· == c) = false := by
      simp only [List.all_cons, beq_self_eq_true, Bool.true_and]
      rw [Bool.eq_false_iff]
      intro hall
      apply h
      intro x hx
      have := List.all_eq_true.mp hall x hx
      simpa using this
    have hex : ∃ x ∈ rest, x ≠ c := by
      apply Classical.byContradiction
      intro hne
      apply h
      intro x hx
      apply Classical.byContradiction
      intro hxc
      exact hne ⟨x, hx, hxc⟩
    simp only [hall, Bool.false_eq_true, if_false]
    constructor
    · exact ⟨fun _ => hex, fun _ => trivial⟩
    · constructor
      · intro hh; cases hh
      · intro hh; exact absurd hh h

theorem C20_nested_empty : nestedCheck [] = .ok (0, 0) := rfl

/-- row assignment fails iff the vector is shorter than the row, with (MICM Matrix, 1) -/
theorem C20_rowassign_iff (cols len : Nat) :
    (rowAssignCheck cols len = .error (.sys catMatrix 1) ↔ len < cols) ∧ (rowAssignCheck cols len = .ok () ↔ cols ≤ len) := by
  unfold rowAssignCheck
  by_cases h : len < cols
  · simp [h]
  · simp [h]; omega

/-- the two-argument `VectorIndex` is refused iff the matrix has several (or no) blocks, with (MICM Matrix, 4) -/
theorem C20_twoarg_iff (blocks : Nat) :
    (twoArgIndexCheck blocks = .error (.sys catMatrix 4) ↔ blocks ≠ 1) ∧ (twoArgIndexCheck blocks = .ok () ↔ blocks = 1) := by
  unfold twoArgIndexCheck
  by_cases h : blocks = 1
  · simp [h]
  · simp [h]

/-- `WithElement(x, y)` is refused iff an index is out of range, with ElementOutOfRange, and then nothing is inserted -/
theorem C20_builder_element_iff (n : Nat) (s : List Pair) (x y : Nat) :
    (builderWithElement n s x y = .error .elementOutOfRange ↔ (n ≤ x ∨ n ≤ y)) ∧
    (builderWithElement n s x y = .ok (setInsert (x, y) s) ↔ (x < n ∧ y < n)) := by
  unfold builderWithElement
  by_cases h : x ≥ n ∨ y ≥ n
  · have : (decide (x ≥ n) || decide (y ≥ n)) = true := by simpa using h
    simp [this]; omega
  · have : (decide (x ≥ n) || decide (y ≥ n)) = false := by
      rw [Bool.eq_false_iff]; simpa using h
    simp [this]; omega

example : surfaceProcessCheck 3 = .error (.sys catProcess 1) ∧ nestedCheck [2, 2, 3] = .error (.sys catMatrix 2)
    ∧ rowAssignCheck 3 2 = .error (.sys catMatrix 1) ∧ twoArgIndexCheck 2 = .error (.sys catMatrix 4) :=
  ⟨(C20_surface_error_iff 3).1.mpr (by decide), (C20_nested_error_iff 2 [2, 3]).1.mpr ⟨3, by simp, by decide⟩,
   (C20_rowassign_iff 3 2).1.mpr (by decide), (C20_twoarg_iff 2).1.mpr (by decide)⟩

end Micm
#print axioms Micm.C20_surface_error_iff
#print axioms Micm.C20_property_error
#print axioms Micm.C20_nested_error_iff
#print axioms Micm.C20_rowassign_iff
#print axioms Micm.C20_twoarg_iff
#print axioms Micm.C20_builder_element_iff
