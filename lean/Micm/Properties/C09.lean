/-
C09 — linear invariants are conserved (forcing part).

If the weight vector `w` is orthogonal to the stoichiometry of every (resolved) reaction,
`Σ_{p ∈ products r} w p.id * p.yield = Σ_{j ∈ reactants r} w j`, then the forcing update of
`PSTables.addForcingCell` leaves `w · f` unchanged (in particular `w · f(y) = 0` from a zero
forcing vector).  Vocabulary (`RRxn`, `Resolves`, …) as in `Micm/Properties/C01.lean`.
-/
import Micm.Lemmas.ForcingField
import Mathlib.Algebra.Field.Rat

namespace Micm
open Finset

section Conservation
variable {K : Type} [Field K]

/-- `w · S = 0` and all ids `< n = f.size` imply `Σ_{i<n} w i * f'[i] = Σ_{i<n} w i * f[i]`.
    (The id bound is needed: the model drops out-of-range writes, which would break the balance.) -/
theorem C09_forcing_conserved (m : NameMap) (procs : List (Process K)) (t : PSTables K)
    (rxns : List (RRxn K)) (h : buildForcing m procs = .ok t ∨ ProcessSet.build procs m = .ok t)
    (hr : Resolves m procs rxns) (n : Nat)
    (hb : ∀ rx ∈ rxns, (∀ j ∈ rx.1, j < n) ∧ ∀ p ∈ rx.2, p.1 < n)
    (w : Nat → K)
    (hbal : ∀ rx ∈ rxns, (rx.2.map fun p => w p.1 * p.2).sum = (rx.1.map w).sum)
    (k y f : Array K) (hf : f.size = n) :
    ∑ i ∈ range n, w i * rd (t.addForcingCell k y f) i = ∑ i ∈ range n, w i * rd f i := by
  have e : t.addForcingCell k y f = forcingSpec y rxns k.toList f := by
    cases h with
    | inl h => exact buildForcing_ok_addForcingCell h hr k y f
    | inr h => exact ProcessSet.build_ok_addForcingCell h hr k y f
  rw [e]
  exact wsum_forcingSpec w n y rxns k.toList f hf hb hbal

/-- The id bound discharged from the name map (`C01_bounds`). -/
theorem C09_forcing_conserved_of_map (m : NameMap) (procs : List (Process K)) (t : PSTables K)
    (rxns : List (RRxn K)) (h : buildForcing m procs = .ok t ∨ ProcessSet.build procs m = .ok t)
    (hr : Resolves m procs rxns) (n : Nat) (hm : ∀ e ∈ m, e.2 < n)
    (w : Nat → K)
    (hbal : ∀ rx ∈ rxns, (rx.2.map fun p => w p.1 * p.2).sum = (rx.1.map w).sum)
    (k y f : Array K) (hf : f.size = n) :
    ∑ i ∈ range n, w i * rd (t.addForcingCell k y f) i = ∑ i ∈ range n, w i * rd f i :=
  C09_forcing_conserved m procs t rxns h hr n (resolves_bounds hm hr) w hbal k y f hf

/-- `w · f(y) = 0`: the forcing computed into a zero vector is orthogonal to `w`. -/
theorem C09_forcing_orthogonal (m : NameMap) (procs : List (Process K)) (t : PSTables K)
    (rxns : List (RRxn K)) (h : buildForcing m procs = .ok t ∨ ProcessSet.build procs m = .ok t)
    (hr : Resolves m procs rxns) (n : Nat) (hm : ∀ e ∈ m, e.2 < n)
    (w : Nat → K)
    (hbal : ∀ rx ∈ rxns, (rx.2.map fun p => w p.1 * p.2).sum = (rx.1.map w).sum)
    (k y : Array K) :
    ∑ i ∈ range n, w i * rd (t.addForcingCell k y (Array.replicate n 0)) i = 0 := by
  rw [C09_forcing_conserved_of_map m procs t rxns h hr n hm w hbal k y _ (by simp)]
  apply Finset.sum_eq_zero
  intro i _
  have : rd (Array.replicate n (0 : K)) i = 0 := by
    unfold rd
    rw [Array.getD_eq_getD_getElem?, Array.getElem?_replicate]
    split <;> rfl
  rw [this, mul_zero]

end Conservation

/-! ### example: a mechanism with a non-trivial invariant

`s0 → 0.8 s1 + 0.2 s2 ;  s0 + s1 (+ M, parameterized) → s2 ;  s1 + s1 + s0 → s1 + s2`
with `s0 ↦ 0, s1 ↦ 1, s2 ↦ 2` conserves `5·s0 + 4·s1 + 9·s2`.
(The C01 example mechanism, whose last reaction is `s1 + s1 + s0 → s1`, only admits `w = 0`.) -/
namespace C09Ex

def ex9Map : NameMap := [("s0", 0), ("s1", 1), ("s2", 2)]

def ex9Procs : List (Process Rat) :=
  [ { reactants := [⟨"s0", false⟩],
      products := [(⟨"s1", false⟩, 4/5), (⟨"s2", false⟩, 1/5)] },
    { reactants := [⟨"s0", false⟩, ⟨"s1", false⟩, ⟨"M", true⟩],
      products := [(⟨"s2", false⟩, 1)] },
    { reactants := [⟨"s1", false⟩, ⟨"s1", false⟩, ⟨"s0", false⟩],
      products := [(⟨"s1", false⟩, 1), (⟨"s2", false⟩, 1)] } ]

def ex9Rxns : List (RRxn Rat) :=
  [ ([0], [(1, 4/5), (2, 1/5)]), ([0, 1], [(2, 1)]), ([1, 1, 0], [(1, 1), (2, 1)]) ]

def ex9W : Nat → Rat
  | 0 => 5
  | 1 => 4
  | 2 => 9
  | _ => 0

theorem ex9Resolves : Resolves ex9Map ex9Procs ex9Rxns := by unfold Resolves; rfl

theorem ex9Build : ∃ t, ProcessSet.build ex9Procs ex9Map = .ok t :=
  (ProcessSet.build_isOk_iff ex9Map ex9Procs).2 ⟨_, (buildForcing_ok_iff _ _ _).2 ⟨ex9Rxns, ex9Resolves, rfl⟩⟩

theorem ex9MapBound : ∀ e ∈ ex9Map, e.2 < 3 := by decide

theorem ex9Balanced :
    ∀ rx ∈ ex9Rxns, (rx.2.map fun p => ex9W p.1 * p.2).sum = (rx.1.map ex9W).sum := by
  decide +kernel

/-- all hypotheses of `C09_forcing_conserved_of_map` hold; the conclusion written out -/
example (t : PSTables Rat) (h : ProcessSet.build ex9Procs ex9Map = .ok t) (k y : Array Rat) (f0 f1 f2 : Rat) :
    let f' := t.addForcingCell k y #[f0, f1, f2]
    5 * rd f' 0 + 4 * rd f' 1 + 9 * rd f' 2 = 5 * f0 + 4 * f1 + 9 * f2 := by
  have := C09_forcing_conserved_of_map ex9Map ex9Procs t ex9Rxns (.inr h) ex9Resolves 3 ex9MapBound
    ex9W ex9Balanced k y #[f0, f1, f2] rfl
  simpa [Finset.sum_range_succ, ex9W, rd] using this

end C09Ex

end Micm

#print axioms Micm.C09_forcing_conserved
#print axioms Micm.C09_forcing_conserved_of_map
#print axioms Micm.C09_forcing_orthogonal
