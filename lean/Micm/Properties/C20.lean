/-
C20 — invalid configuration/input is rejected with the documented error.

"Building a solver without a system or reactions, with an empty species list, with a reaction naming
an unknown species, or with unused species when that is disallowed … each raise std::system_error
with the documented category and code; rejected setter calls leave the State usable."

Theorems about the model definitions `build` (`Micm/Model/Builder.lean`) and `hStep`/`hRun`
(`Micm/Model/History.lean`).

Vocabulary (defined in `Micm/Lemmas/Builder.lean`, `Micm/Lemmas/BuilderHistory.lean`):
 * `unknownIn names procs : List PSErr`: the errors of all non-parameterized reactant / product
   names that are not in `names`, in source order (processes in order, within a process reactants
   before products); `PSErr.toErr` maps `reactantDoesNotExist ↦ ("MICM Process Set", 1)`,
   `productDoesNotExist ↦ ("MICM Process Set", 2)`.
 * `speciesUsed procs`: all reactant and product names of the reactions (model definition).
 * `tolAssigns sys`: the (key, value) tolerance assignments of `SetAbsoluteTolerances` (see C14).
 * `buildOutcome b : Option Err`: the decision table below (`none` = success).
 * `HOp.isBadSet op`: the operation is a rejected setter call.
-/
import Micm.Lemmas.Builder
import Micm.Lemmas.BuilderHistory

namespace Micm

section Build
variable {α : Type}

/-- the decision table, in the order in which the source performs the checks -/
theorem C20_build_table (b : BuildInput α) :
    buildOutcome b =
      match b.system with
      | none => some (.sys catBuilder 2)                                   -- MissingChemicalSystem
      | some sys =>
        if (b.reactions.getD []).isEmpty then some (.sys catBuilder 3)      -- MissingReactions
        else if sys.stateSize = 0 then some (.sys catBuilder 4)            -- MissingChemicalSpecies
        else match (if b.reorder then (unknownIn sys.uniqueNames (b.reactions.getD [])).head? else none) with
          | some e => some e.toErr                                         -- ProcessSet (in GetSpeciesMap)
          | none =>
            if (!b.ignoreUnused && sys.uniqueNames.any fun s => !(speciesUsed (b.reactions.getD [])).contains s)
            then some (.sys catBuilder 1)                                  -- UnusedSpecies
            else match (unknownIn sys.uniqueNames (b.reactions.getD [])).head? with
              | some e => some e.toErr                                     -- ProcessSet
              | none =>
                if (tolAssigns sys).all (fun kv => sys.uniqueNames.contains kv.1) then none
                else some .outOfRange :=                                   -- `map::at` in SetAbsoluteTolerances
  rfl

variable [OfNat α 0] (dflt : α) (labelsOf : List (Process α) → List String)

/-- `C20_build_errors`: `build` raises exactly the error of the decision table, and succeeds exactly
    when the table says so (exhaustive: every input falls in exactly one row). -/
theorem C20_build_errors (b : BuildInput α) :
    (∀ e, build dflt labelsOf b = .error e ↔ buildOutcome b = some e) ∧
    ((∃ r, build dflt labelsOf b = .ok r) ↔ buildOutcome b = none) := by
  have h := build_outcome dflt labelsOf b
  cases ho : buildOutcome b with
  | some e0 =>
    rw [ho] at h
    simp only [] at h
    rw [h]
    refine ⟨fun e => ?_, ?_⟩
    · constructor
      · intro h'; cases h'; rfl
      · intro h'; cases h'; rfl
    · constructor
      · rintro ⟨r, hr⟩; cases hr
      · intro h'; cases h'
  | none =>
    rw [ho] at h
    obtain ⟨r, hr⟩ := h
    rw [hr]
    refine ⟨fun e => ?_, ?_⟩
    · constructor
      · intro h'; cases h'
      · intro h'; cases h'
    · exact ⟨fun _ => rfl, fun _ => ⟨r, rfl⟩⟩

/-- the ProcessSet errors are ("MICM Process Set", 1) for a reactant and ("MICM Process Set", 2) for
    a product -/
theorem C20_processSet_codes (e : PSErr) :
    (∀ n, e = .reactantDoesNotExist n → e.toErr = .sys "MICM Process Set" 1) ∧
    (∀ n, e = .productDoesNotExist n → e.toErr = .sys "MICM Process Set" 2) :=
  ⟨fun _ h => h ▸ rfl, fun _ h => h ▸ rfl⟩

omit [OfNat α 0] in
/-- there is no unknown species iff every non-parameterized reactant and product name is a unique
    name of the system -/
theorem C20_unknownIn_nil_iff (names : List String) (procs : List (Process α)) :
    unknownIn names procs = [] ↔
      ∀ p ∈ procs, (∀ r ∈ p.reactants, r.param = false → r.name ∈ names) ∧
                   (∀ q ∈ p.products, q.1.param = false → q.1.name ∈ names) :=
  unknownIn_eq_nil_iff names procs

/-! #### the rows of the table as implications (source order) -/

/-- no `System` given: ("MICM Solver Builder", 2) -/
theorem C20_build_missing_system (b : BuildInput α) (hs : b.system = none) :
    build dflt labelsOf b = .error (.sys "MICM Solver Builder" 2) := by
  apply ((C20_build_errors dflt labelsOf b).1 _).2
  unfold buildOutcome
  rw [hs]
  rfl

/-- `SetReactions` not called, or called with an empty list: ("MICM Solver Builder", 3) -/
theorem C20_build_missing_reactions (b : BuildInput α) (sys : SystemDecl α) (hs : b.system = some sys)
    (hr : b.reactions = none ∨ b.reactions = some []) :
    build dflt labelsOf b = .error (.sys "MICM Solver Builder" 3) := by
  apply ((C20_build_errors dflt labelsOf b).1 _).2
  unfold buildOutcome
  rw [hs]
  rcases hr with hr | hr <;> rw [hr] <;> rfl

/-- a system without (non-parameterized) species: ("MICM Solver Builder", 4); in particular
    `DiagonalMarkowitzReorder` is not reached with `order = 0` -/
theorem C20_build_no_species (b : BuildInput α) (sys : SystemDecl α) (hs : b.system = some sys)
    (hr : b.reactions.getD [] ≠ []) (h0 : sys.uniqueNames = []) :
    build dflt labelsOf b = .error (.sys "MICM Solver Builder" 4) := by
  apply ((C20_build_errors dflt labelsOf b).1 _).2
  unfold buildOutcome
  rw [hs]
  have h1 : (b.reactions.getD []).isEmpty = false := by simpa using hr
  have h2 : sys.stateSize = 0 := by rw [sys.stateSize_eq, h0]; rfl
  simp only [h1, h2, Bool.false_eq_true, if_false, if_true]
  rfl

/-- with reordering on, an unknown non-parameterized species is reported from inside
    `GetSpeciesMap` (first in source order), before the unused-species check -/
theorem C20_build_unknown_species_reorder (b : BuildInput α) (sys : SystemDecl α) (hs : b.system = some sys)
    (hr : b.reactions.getD [] ≠ []) (h0 : sys.uniqueNames ≠ []) (hre : b.reorder = true) (e : PSErr)
    (hu : (unknownIn sys.uniqueNames (b.reactions.getD [])).head? = some e) :
    build dflt labelsOf b = .error e.toErr := by
  apply ((C20_build_errors dflt labelsOf b).1 _).2
  unfold buildOutcome
  rw [hs]
  have h1 : (b.reactions.getD []).isEmpty = false := by simpa using hr
  have h2 : ¬ sys.stateSize = 0 := by
    rw [sys.stateSize_eq]; intro h; exact h0 (List.eq_nil_of_length_eq_zero h)
  simp only [h1, h2, hre, hu, Bool.false_eq_true, if_false, if_true]

/-- unused species (some unique name is not named by any reaction) and `ignoreUnused` off:
    ("MICM Solver Builder", 1).  With reordering off this precedes the unknown-species error. -/
theorem C20_build_unused_species (b : BuildInput α) (sys : SystemDecl α) (hs : b.system = some sys)
    (hr : b.reactions.getD [] ≠ []) (h0 : sys.uniqueNames ≠ [])
    (hu : b.reorder = true → unknownIn sys.uniqueNames (b.reactions.getD []) = [])
    (hi : b.ignoreUnused = false) (hx : ∃ s ∈ sys.uniqueNames, s ∉ speciesUsed (b.reactions.getD [])) :
    build dflt labelsOf b = .error (.sys "MICM Solver Builder" 1) := by
  apply ((C20_build_errors dflt labelsOf b).1 _).2
  unfold buildOutcome
  rw [hs]
  have h1 : (b.reactions.getD []).isEmpty = false := by simpa using hr
  have h2 : ¬ sys.stateSize = 0 := by
    rw [sys.stateSize_eq]; intro h; exact h0 (List.eq_nil_of_length_eq_zero h)
  have h3 : (if b.reorder = true then (unknownIn sys.uniqueNames (b.reactions.getD [])).head? else none) = none := by
    cases hre : b.reorder with
    | false => rfl
    | true => rw [hu hre]; rfl
  have h4 : (sys.uniqueNames.any fun s => !(speciesUsed (b.reactions.getD [])).contains s) = true := by
    obtain ⟨s, hs1, hs2⟩ := hx
    rw [List.any_eq_true]
    exact ⟨s, hs1, by simpa using hs2⟩
  simp only [h1, h2, h3, h4, hi, Bool.false_eq_true, if_false, Bool.not_false, Bool.and_self, if_true]
  rfl

/-- an unknown non-parameterized species once the unused-species check has passed (reordering on or
    off): the ProcessSet error of the first unknown name in source order -/
theorem C20_build_unknown_species (b : BuildInput α) (sys : SystemDecl α) (hs : b.system = some sys)
    (hr : b.reactions.getD [] ≠ []) (h0 : sys.uniqueNames ≠ [])
    (hi : b.ignoreUnused = true ∨ ∀ s ∈ sys.uniqueNames, s ∈ speciesUsed (b.reactions.getD [])) (e : PSErr)
    (hu : (unknownIn sys.uniqueNames (b.reactions.getD [])).head? = some e) :
    build dflt labelsOf b = .error e.toErr := by
  apply ((C20_build_errors dflt labelsOf b).1 _).2
  unfold buildOutcome
  rw [hs]
  have h1 : (b.reactions.getD []).isEmpty = false := by simpa using hr
  have h2 : ¬ sys.stateSize = 0 := by
    rw [sys.stateSize_eq]; intro h; exact h0 (List.eq_nil_of_length_eq_zero h)
  have h4 : (!b.ignoreUnused && sys.uniqueNames.any fun s => !(speciesUsed (b.reactions.getD [])).contains s) = false := by
    rcases hi with hi | hi
    · simp [hi]
    · have : (sys.uniqueNames.any fun s => !(speciesUsed (b.reactions.getD [])).contains s) = false := by
        rw [List.any_eq_false]
        intro s hs1
        simpa using hi s hs1
      rw [this, Bool.and_false]
  cases hre : b.reorder <;> simp only [h1, h2, h4, hu, Bool.false_eq_true, if_false, if_true]

/-- all previous checks pass but some species carrying a tolerance has a key that is not a unique
    name (a parameterized species with an "absolute tolerance"): `std::out_of_range` escapes, which
    is not a documented builder error -/
theorem C20_build_tolerance_outOfRange (b : BuildInput α) (sys : SystemDecl α) (hs : b.system = some sys)
    (hr : b.reactions.getD [] ≠ []) (h0 : sys.uniqueNames ≠ [])
    (hu : unknownIn sys.uniqueNames (b.reactions.getD []) = [])
    (hi : b.ignoreUnused = true ∨ ∀ s ∈ sys.uniqueNames, s ∈ speciesUsed (b.reactions.getD []))
    (ht : ∃ kv ∈ tolAssigns sys, kv.1 ∉ sys.uniqueNames) :
    build dflt labelsOf b = .error .outOfRange := by
  apply ((C20_build_errors dflt labelsOf b).1 _).2
  unfold buildOutcome
  rw [hs]
  have h1 : (b.reactions.getD []).isEmpty = false := by simpa using hr
  have h2 : ¬ sys.stateSize = 0 := by
    rw [sys.stateSize_eq]; intro h; exact h0 (List.eq_nil_of_length_eq_zero h)
  have h4 : (!b.ignoreUnused && sys.uniqueNames.any fun s => !(speciesUsed (b.reactions.getD [])).contains s) = false := by
    rcases hi with hi | hi
    · simp [hi]
    · have : (sys.uniqueNames.any fun s => !(speciesUsed (b.reactions.getD [])).contains s) = false := by
        rw [List.any_eq_false]
        intro s hs1
        simpa using hi s hs1
      rw [this, Bool.and_false]
  have h5 : ((tolAssigns sys).all fun kv => sys.uniqueNames.contains kv.1) = false := by
    obtain ⟨kv, hkv, hn⟩ := ht
    rw [List.all_eq_false]
    exact ⟨kv, hkv, by simpa using hn⟩
  cases hre : b.reorder <;>
    simp only [h1, h2, h4, h5, hu, List.head?_nil, Bool.false_eq_true, if_false, if_true]

/-- success, exactly: a system with at least one species, at least one reaction, every
    non-parameterized reactant/product name a unique name of the system, no unused species (or
    unused species ignored), and every tolerance key a unique name -/
theorem C20_build_ok_iff (b : BuildInput α) :
    (∃ r, build dflt labelsOf b = .ok r) ↔
      ∃ sys, b.system = some sys ∧ b.reactions.getD [] ≠ [] ∧ sys.uniqueNames ≠ [] ∧
        unknownIn sys.uniqueNames (b.reactions.getD []) = [] ∧
        (b.ignoreUnused = true ∨ ∀ s ∈ sys.uniqueNames, s ∈ speciesUsed (b.reactions.getD [])) ∧
        (∀ kv ∈ tolAssigns sys, kv.1 ∈ sys.uniqueNames) := by
  rw [(C20_build_errors dflt labelsOf b).2]
  unfold buildOutcome
  cases hs : b.system with
  | none => simp
  | some sys =>
    simp only [Option.some.injEq, exists_eq_left']
    by_cases h1 : (b.reactions.getD []).isEmpty = true
    · have : b.reactions.getD [] = [] := by simpa using h1
      simp [this]
    · have h1' : b.reactions.getD [] ≠ [] := by simpa using h1
      by_cases h2 : sys.stateSize = 0
      · have : sys.uniqueNames = [] := List.eq_nil_of_length_eq_zero (sys.stateSize_eq ▸ h2)
        simp [h1, h2, this]
      · have h2' : sys.uniqueNames ≠ [] := by
          intro h; apply h2; rw [sys.stateSize_eq, h]; rfl
        simp only [h1, h2, Bool.false_eq_true, if_false]
        cases hu : (unknownIn sys.uniqueNames (b.reactions.getD [])).head? with
        | some e =>
          have hne : unknownIn sys.uniqueNames (b.reactions.getD []) ≠ [] := by
            intro h; rw [h] at hu; cases hu
          cases b.reorder <;> simp [hne] <;> split <;> simp
        | none =>
          have he : unknownIn sys.uniqueNames (b.reactions.getD []) = [] := List.head?_eq_none_iff.1 hu
          have h3 : (if b.reorder = true then (none : Option PSErr) else none) = none := by split <;> rfl
          simp only [h3]
          by_cases h4 : (!b.ignoreUnused && sys.uniqueNames.any fun s => !(speciesUsed (b.reactions.getD [])).contains s) = true
          · simp only [h4, if_true]
            simp only [Bool.and_eq_true, Bool.not_eq_true', List.any_eq_true] at h4
            obtain ⟨hi, s, hs1, hs2⟩ := h4
            have hs2' : s ∉ speciesUsed (b.reactions.getD []) := by simpa using hs2
            constructor
            · intro h; cases h
            · rintro ⟨-, -, -, hor, -⟩
              rcases hor with hor | hor
              · rw [hi] at hor; cases hor
              · exact absurd (hor s hs1) hs2'
          · have hi : b.ignoreUnused = true ∨ ∀ s ∈ sys.uniqueNames, s ∈ speciesUsed (b.reactions.getD []) := by
              cases hig : b.ignoreUnused with
              | true => exact .inl rfl
              | false =>
                right
                intro s hs1
                apply Classical.byContradiction
                intro hs2
                apply h4
                simp only [hig, Bool.not_false, Bool.true_and, List.any_eq_true]
                exact ⟨s, hs1, by simpa using hs2⟩
            simp only [h4, Bool.false_eq_true, if_false]
            by_cases h5 : ((tolAssigns sys).all fun kv => sys.uniqueNames.contains kv.1) = true
            · simp only [h5, if_true, true_iff]
              refine ⟨h1', h2', he, hi, fun kv hkv => ?_⟩
              simpa using (List.all_eq_true.1 h5) kv hkv
            · simp only [h5, Bool.false_eq_true, if_false, reduceCtorEq, false_iff]
              rintro ⟨-, -, -, -, ht⟩
              apply h5
              rw [List.all_eq_true]
              intro kv hkv
              simpa using ht kv hkv

/-- the success row with the natural sufficient condition on tolerances (only on non-parameterized
    species) -/
theorem C20_build_ok (b : BuildInput α) (sys : SystemDecl α) (hs : b.system = some sys)
    (hr : b.reactions.getD [] ≠ []) (h0 : sys.uniqueNames ≠ [])
    (hu : unknownIn sys.uniqueNames (b.reactions.getD []) = [])
    (hi : b.ignoreUnused = true ∨ ∀ s ∈ sys.uniqueNames, s ∈ speciesUsed (b.reactions.getD []))
    (ht : TolOnNonParam sys) : ∃ r, build dflt labelsOf b = .ok r :=
  (C20_build_ok_iff dflt labelsOf b).2 ⟨sys, hs, hr, h0, hu, hi, fun _ hkv =>
    (tolAssigns_keys_sublist sys ht).subset (List.mem_map_of_mem hkv)⟩

/-- `build` always returns: `DiagonalMarkowitzReorder` is only reached with `order ≥ 1`.  The only
    possible errors are the five `std::system_error`s of the table and `std::out_of_range`. -/
theorem C20_build_never_hangs (b : BuildInput α) :
    build dflt labelsOf b ≠ .error .hang ∧ build dflt labelsOf b ≠ .error .runtime ∧
    ∀ e, build dflt labelsOf b = .error e →
      (∃ c, c ∈ [1, 2, 3, 4] ∧ e = .sys "MICM Solver Builder" c) ∨
      (∃ c, c ∈ [1, 2] ∧ e = .sys "MICM Process Set" c) ∨ e = .outOfRange := by
  have key : ∀ e, build dflt labelsOf b = .error e →
      (∃ c, c ∈ [1, 2, 3, 4] ∧ e = .sys "MICM Solver Builder" c) ∨
      (∃ c, c ∈ [1, 2] ∧ e = .sys "MICM Process Set" c) ∨ e = .outOfRange := by
    intro e he
    have ho := ((C20_build_errors dflt labelsOf b).1 e).1 he
    have hps : ∀ e' : PSErr, (∃ c, c ∈ [1, 2] ∧ e'.toErr = .sys "MICM Process Set" c) := by
      intro e'
      cases e' with
      | reactantDoesNotExist n => exact ⟨1, by simp, rfl⟩
      | productDoesNotExist n => exact ⟨2, by simp, rfl⟩
    unfold buildOutcome at ho
    split at ho
    · cases ho; exact .inl ⟨2, by simp, rfl⟩
    · split at ho
      · cases ho; exact .inl ⟨3, by simp, rfl⟩
      · split at ho
        · cases ho; exact .inl ⟨4, by simp, rfl⟩
        · split at ho
          · cases ho; exact .inr (.inl (hps _))
          · split at ho
            · cases ho; exact .inl ⟨1, by simp, rfl⟩
            · split at ho
              · cases ho; exact .inr (.inl (hps _))
              · split at ho
                · cases ho
                · cases ho; exact .inr (.inr rfl)
  refine ⟨fun h => ?_, fun h => ?_, key⟩
  · rcases key _ h with ⟨c, -, hc⟩ | ⟨c, -, hc⟩ | hc <;> cases hc
  · rcases key _ h with ⟨c, -, hc⟩ | ⟨c, -, hc⟩ | hc <;> cases hc

end Build

/-! ### rejected setter calls -/
section Setters
variable {σ ρ : Type} (clone : Bool) (kind : TempKind) (fresh : σ) (solveF : σ → σ × ρ)

/-- a rejected setter call on an existing State reports its error code and leaves the whole store
    (this State and every other) unchanged -/
theorem C20_setter_atomic (st : HStore σ) (s code : Nat) (o : HObj σ) (h : st s = some o) :
    hStep clone kind fresh solveF st (.badSet s code) = (st, .err code) :=
  hStep_badSet_some clone kind fresh solveF st s code o h

/-- the store is unchanged also when the slot is empty -/
theorem C20_setter_atomic_store (st : HStore σ) (s code : Nat) :
    (hStep clone kind fresh solveF st (.badSet s code)).1 = st :=
  hStep_badSet_fst clone kind fresh solveF st s code

/-- For every history, deleting all rejected setter calls changes neither the final store nor the
    outputs of the remaining operations (the outputs of `ops` at the positions of the non-rejected
    operations; `hRun` returns one output per operation). -/
theorem C20_rejected_calls_invisible (st : HStore σ) (ops : List (HOp σ)) :
    (hRun clone kind fresh solveF st ops).2.length = ops.length ∧
    (hRun clone kind fresh solveF st (ops.filter fun op => !op.isBadSet)).1
      = (hRun clone kind fresh solveF st ops).1 ∧
    (hRun clone kind fresh solveF st (ops.filter fun op => !op.isBadSet)).2
      = ((ops.zip (hRun clone kind fresh solveF st ops).2).filter fun p => !p.1.isBadSet).map (·.2) := by
  rw [hRun_filter_badSet]
  exact ⟨hRun_length clone kind fresh solveF st ops, rfl, rfl⟩

end Setters

/-! ### examples -/
namespace C20Ex

def exSys : SystemDecl Nat :=
  { gas := [{ name := "B", atol := some 5 }, { name := "A" }, { name := "M", param := true }],
    phases := [("aq", [{ name := "C", atol := some 7 }, { name := "D" }])] }

def exProcs : List (Process Nat) :=
  [ { reactants := [⟨"B", false⟩, ⟨"A", false⟩, ⟨"M", true⟩], products := [(⟨"aq.C", false⟩, 1)] },
    { reactants := [⟨"aq.C", false⟩], products := [(⟨"aq.D", false⟩, 1)] },
    { reactants := [⟨"aq.D", false⟩], products := [(⟨"B", false⟩, 2)] } ]

/-- the success row is inhabited, reordering on and off -/
example (reorder : Bool) :
    ∃ r, build 1000 (fun _ => []) { system := some exSys, reactions := some exProcs, reorder := reorder } = .ok r := by
  apply C20_build_ok 1000 (fun _ => []) _ exSys rfl
  · exact List.cons_ne_nil _ _
  · decide
  · show unknownIn exSys.uniqueNames exProcs = []
    decide
  · right
    show ∀ s ∈ exSys.uniqueNames, s ∈ speciesUsed exProcs
    decide
  · constructor <;> decide

/-- unknown product `aq.E` (and unknown reactant `Z` in a later reaction); `aq.D` unused -/
def badProcs : List (Process Nat) :=
  [ { reactants := [⟨"B", false⟩, ⟨"A", false⟩], products := [(⟨"aq.E", false⟩, 1)] },
    { reactants := [⟨"aq.C", false⟩, ⟨"Z", false⟩], products := [] } ]

def noSpecies : SystemDecl Nat := { gas := [{ name := "M", param := true }], phases := [] }

/-- a parameterized species carrying a tolerance -/
def badTolSys : SystemDecl Nat :=
  { gas := [{ name := "A" }, { name := "M", param := true, atol := some 3 }], phases := [] }

/-- each error row on a concrete input -/
example : buildOutcome ({ system := none, reactions := some exProcs } : BuildInput Nat)
    = some (.sys "MICM Solver Builder" 2) := by decide
example : buildOutcome ({ system := some exSys, reactions := some [] } : BuildInput Nat)
    = some (.sys "MICM Solver Builder" 3) := by decide
example : buildOutcome ({ system := some exSys, reactions := none } : BuildInput Nat)
    = some (.sys "MICM Solver Builder" 3) := by decide
example : buildOutcome ({ system := some noSpecies, reactions := some exProcs } : BuildInput Nat)
    = some (.sys "MICM Solver Builder" 4) := by decide
/-- reordering on reports the unknown species (the first one in source order) … -/
example : buildOutcome ({ system := some exSys, reorder := true, reactions := some badProcs } : BuildInput Nat)
    = some (.sys "MICM Process Set" 2) := by decide
/-- … reordering off reports the unused species first -/
example : buildOutcome ({ system := some exSys, reorder := false, reactions := some badProcs } : BuildInput Nat)
    = some (.sys "MICM Solver Builder" 1) := by decide
example : buildOutcome ({ system := some exSys, reorder := false, ignoreUnused := true,
                          reactions := some badProcs } : BuildInput Nat)
    = some (.sys "MICM Process Set" 2) := by decide
def oneProc : List (Process Nat) := [ { reactants := [⟨"A", false⟩], products := [] } ]
example : buildOutcome ({ system := some badTolSys, reactions := some oneProc } : BuildInput Nat)
    = some .outOfRange := by decide
/-- the model `build` itself on one of them, through `C20_build_errors` -/
example : build 1000 (fun _ => []) ({ system := some exSys, reorder := true, reactions := some badProcs } : BuildInput Nat)
    = .error (.sys "MICM Process Set" 2) :=
  ((C20_build_errors 1000 (fun _ => []) _).1 _).2 (by decide)

/-- a history with rejected calls: the store machine runs, the rejected calls are reported -/
example : (hRun true .rosenbrock (0 : Nat) (fun v => (v + 1, v))
      (fun _ => none) [.new 0, .badSet 0 3, .set 0 (· + 10), .badSet 1 5, .solve 0]).2.length = 5 := by
  rw [(C20_rejected_calls_invisible true .rosenbrock 0 _ _ _).1]
  rfl

end C20Ex

end Micm

#print axioms Micm.C20_build_table
#print axioms Micm.C20_build_errors
#print axioms Micm.C20_processSet_codes
#print axioms Micm.C20_unknownIn_nil_iff
#print axioms Micm.C20_build_missing_system
#print axioms Micm.C20_build_missing_reactions
#print axioms Micm.C20_build_no_species
#print axioms Micm.C20_build_unknown_species_reorder
#print axioms Micm.C20_build_unused_species
#print axioms Micm.C20_build_unknown_species
#print axioms Micm.C20_build_tolerance_outOfRange
#print axioms Micm.C20_build_ok_iff
#print axioms Micm.C20_build_ok
#print axioms Micm.C20_build_never_hangs
#print axioms Micm.C20_setter_atomic
#print axioms Micm.C20_setter_atomic_store
#print axioms Micm.C20_rejected_calls_invisible
