/-
C07 (third part) — `NormalizedError` on flat storage is the logical `NormalizedError`.

`normFlat` (`Micm/Model/FlatKernels3.lean`) models the two overloads of `NormalizedError` loop for
loop on the flat storage of `Y`, `Ynew`, `errors`:
 * row-major (`L = 0`): `for i < nCells·nVars: … atol[i % nVars]`;
 * vector (`L ≥ 1`): the whole groups linearly, `for i < ⌊nCells/L⌋·L·nVars: … atol[(i / L) % nVars]`,
   then the rows of the partial group, `for y < nVars, x < nCells % L: idx = whole + y·L + x, atol[y]`
   (padding lanes are never read).
`normalizedError` (`Micm/Model/Rosenbrock.lean`, the one C07 / C06 / C08 speak of) folds `errTerm`
over `normOrder L nCells nVars` on the logical rows.

`C07_norm_flat_eq_logical`: they are equal on the logical rows `denseRows nCells nVars L D`
(`= ((List.range nCells).map (flatRow ⟨nCells, nVars, L⟩ D)).toArray`) of the flat arrays — the two
folds visit the same terms in the same order (so the statement holds for any carrier, in particular
bit for bit for `Float`: no reassociation of the sum).

Hypotheses: none.  No size hypothesis on `Y`, `Ynew`, `errors`, `atol`, no `0 < nVars`: both sides
read the same slots (`rd` is total) — slot `DenseShape.addr c v` of the data, entry `v` of `atol`
(`i % nVars = v`, resp. `(i / L) % nVars = v`, for the slot `i` of `(c, v)`).

`C07_norm_visits_slots`: the slots visited, in order, are `visitSlots` — exactly the slots of the
logical elements, as for `ForEach` / `Axpy` (C19, dense part).

Proofs: `Micm/Lemmas/Lanes3.lean` (section `Norm`).
-/
import Micm.Lemmas.Lanes3
namespace Micm

section
variable {α : Type} [OfNat α 0] [Add α] [Mul α] [Div α]

example (nCells nVars L : Nat) (D : Array α) :
    denseRows nCells nVars L D = ((List.range nCells).map (flatRow ⟨nCells, nVars, L⟩ D)).toArray := rfl

/-- **The flat norm is the logical norm.**  Both layouts (`L = 0`, every `L ≥ 1`), every cell count
    (also `nCells < L`, `nCells % L ≠ 0`), every number of variables, any carrier. -/
theorem C07_norm_flat_eq_logical (o : Ops α) (cs : Consts α) (L nCells nVars : Nat) (atol : Array α)
    (rtol : α) (Y Yn E : Array α) :
    normFlat o cs L nCells nVars atol rtol Y Yn E
      = normalizedError o cs L nVars atol rtol (denseRows nCells nVars L Y) (denseRows nCells nVars L Yn)
          (denseRows nCells nVars L E) :=
  normFlat_eq_logical o cs L nCells nVars atol rtol Y Yn E

/-- the statement with the container's sizes as hypotheses (they are not needed) -/
theorem C07_norm_flat_eq_logical' (o : Ops α) (cs : Consts α) (L nCells nVars : Nat) (atol : Array α)
    (rtol : α) (Y Yn E : Array α) (_hY : Y.size = (DenseShape.mk nCells nVars L).size)
    (_hYn : Yn.size = (DenseShape.mk nCells nVars L).size) (_hE : E.size = (DenseShape.mk nCells nVars L).size)
    (_hat : atol.size = nVars) (_hn : 0 < nVars) :
    normFlat o cs L nCells nVars atol rtol Y Yn E
      = normalizedError o cs L nVars atol rtol (denseRows nCells nVars L Y) (denseRows nCells nVars L Yn)
          (denseRows nCells nVars L E) :=
  normFlat_eq_logical o cs L nCells nVars atol rtol Y Yn E

/-- the sums themselves (before `sqrt`, `max`): row-major -/
theorem C07_norm_sum_row (o : Ops α) (nCells nVars : Nat) (atol : Array α) (rtol : α) (Y Yn E : Array α) :
    (List.range (nCells * nVars)).foldl (fun acc i =>
        let ymax := cmax o (o.abs (rd Y i)) (o.abs (rd Yn i))
        let eos := rd E i / (rd atol (i % nVars) + rtol * ymax)
        acc + eos * eos) 0
      = (normOrder 0 nCells nVars).foldl (fun acc cv => acc + errTerm o atol rtol
          (denseRows nCells nVars 0 Y) (denseRows nCells nVars 0 Yn) (denseRows nCells nVars 0 E) cv.1 cv.2) 0 :=
  l3_sum_row o nCells nVars atol rtol Y Yn E 0

end

/-- **Same slots, same order.**  The slots `NormalizedError` reads, in its visiting order, are
    `visitSlots`: the addresses of the logical elements, whole groups linearly and then the real
    lanes of the partial group — no padding slot is read. -/
theorem C07_norm_visits_slots (L nCells nVars : Nat) :
    (normOrder L nCells nVars).map (fun cv => (DenseShape.mk nCells nVars L).addr cv.1 cv.2)
      = visitSlots ⟨nCells, nVars, L⟩ :=
  normOrder_map_addr L nCells nVars

/-! ### instance: `L = 3`, 4 cells, 2 variables (one full group + a partial group with one real lane) -/
namespace C07cEx

/-- a toy carrier: `Int` with truncating division, `sqrt = id` -/
def exOps : Ops Int where
  lt a b := decide (a < b)
  le a b := decide (a ≤ b)
  eq a b := a == b
  abs a := Int.ofNat a.natAbs
  sqrt a := a
  pow a _ := a
  isNaN _ := false
  isInf _ := false
  isFinite _ := true
  ofNat n := Int.ofNat n

def exCs : Consts Int := ⟨0, 1, 0, 10⟩

/-- state (2 groups x 2 variables x 3 lanes): cell `c` has `y = (c + 1, -2)`, padding `99` -/
def exY : Array Int := #[1, 2, 3, -2, -2, -2,   4, 99, 99, -2, 99, 99]
def exYn : Array Int := #[2, 1, 3, -3, -1, -2,   5, 99, 99, -2, 99, 99]
/-- errors: cell `c` has `e = (10 (c + 1), 40)`, padding `1000` -/
def exE : Array Int := #[10, 20, 30, 40, 40, 40,   40, 1000, 1000, 40, 1000, 1000]
def exAtol : Array Int := #[1, 2]

example : (DenseShape.mk 4 2 3).size = 12 := by decide

/-- the visiting order: group 0 linearly (variable-major inside the group), then cell 3 -/
example : normOrder 3 4 2 = [(0, 0), (1, 0), (2, 0), (0, 1), (1, 1), (2, 1), (3, 0), (3, 1)] := by decide
example : visitSlots ⟨4, 2, 3⟩ = [0, 1, 2, 3, 4, 5, 6, 9] := by decide
example : denseRows 4 2 3 exY = #[#[1, -2], #[2, -2], #[3, -2], #[4, -2]] := by decide +kernel

/-- both sides of `C07_norm_flat_eq_logical`, evaluated: the padding values `99`, `1000` do not enter -/
example : normFlat exOps exCs 3 4 2 exAtol 1 exY exYn exE = 61 := by decide +kernel
example : normalizedError exOps exCs 3 2 exAtol 1 (denseRows 4 2 3 exY) (denseRows 4 2 3 exYn)
    (denseRows 4 2 3 exE) = 61 := by decide +kernel

/-- row-major layout of the same logical data -/
def exYr : Array Int := #[1, -2, 2, -2, 3, -2, 4, -2]
def exYnr : Array Int := #[2, -3, 1, -1, 3, -2, 5, -2]
def exEr : Array Int := #[10, 40, 20, 40, 30, 40, 40, 40]
example : denseRows 4 2 0 exYr = denseRows 4 2 3 exY := by decide +kernel
example : normFlat exOps exCs 0 4 2 exAtol 1 exYr exYnr exEr = 61 := by decide +kernel

/-- at `Float`: the theorem applies as it stands -/
example (cs : Consts Float) (atol : Array Float) (rtol : Float) (Y Yn E : Array Float) :
    normFlat floatOps cs 3 4 2 atol rtol Y Yn E
      = normalizedError floatOps cs 3 2 atol rtol (denseRows 4 2 3 Y) (denseRows 4 2 3 Yn) (denseRows 4 2 3 E) :=
  C07_norm_flat_eq_logical floatOps cs 3 4 2 atol rtol Y Yn E

end C07cEx

end Micm

#print axioms Micm.C07_norm_flat_eq_logical
#print axioms Micm.C07_norm_flat_eq_logical'
#print axioms Micm.C07_norm_sum_row
#print axioms Micm.C07_norm_visits_slots
