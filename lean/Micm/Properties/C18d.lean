/-
C18 (generated code, end to end) — chaining `C18_jit_forcing_whole` (generated program = vectorised CPU kernel on one
group of `L` cells), `C13_forcing_flat_eq_cell` (flat kernel = per-cell kernel through the address map) and
`C01_forcing_mass_action'` (per-cell kernel = mass-action law of the mechanism the tables were built from):

for every mechanism, every `L ≥ 1`, every cell `c < L` of a JIT solver and every species index `i`, the forcing function
the LLVM backend generates adds to `forcing[c][i]` exactly
  `Σ_r (Σ yields of r's products with id i − multiplicity of i among r's reactants) · k_r[c] · Π_{j ∈ reactants of r} y[c][j]`.
-/
import Micm.Properties.C18b
import Micm.Properties.C13
import Micm.Properties.C01

namespace Micm
set_option linter.unusedSectionVars false

section
variable {K : Type} [Field K]

/-- **the generated forcing function computes the mass-action rate law, cell by cell** -/
theorem C18_jit_forcing_mass_action (m : NameMap) (procs : List (Process K)) (t : PSTables K)
    (h : ProcessSet.build procs m = .ok t) (L nRxn nSpecies : Nat) (hL : 0 < L)
    (hm : ∀ e ∈ m, e.2 < nSpecies) (hlen : min t.nReact.length t.nProd.length ≤ nRxn)
    (Kc Y F buf : Array K) (hb : buf.size = L) (hF : F.size = (DenseShape.mk L nSpecies L).size)
    (c : Nat) (hc : c < L) (i : Nat) (hi : i < nSpecies) :
    rd (flatRow ⟨L, nSpecies, L⟩ ((t.genForcing L).run L ⟨Kc, Y, F, buf, 0⟩).a2 c) i
      = rd (flatRow ⟨L, nSpecies, L⟩ F c) i +
        ((procs.zip (flatRow ⟨L, nRxn, L⟩ Kc c).toList).map fun pk =>
          ((((prodIdsP m pk.1.products).filter (fun p => p.1 = i)).map (·.2)).sum
              - ((reactIdsP m pk.1.reactants).count i : K))
            * (pk.2 * ((reactIdsP m pk.1.reactants).map (rd (flatRow ⟨L, nSpecies, L⟩ Y c))).prod)).sum := by
  have hL0 : L ≠ 0 := by omega
  obtain ⟨hr, hp⟩ := C01_bounds m procs t nSpecies hm (Or.inr h)
  rw [C18_jit_forcing_whole (fun a b => mul_comm a b) t L nRxn nSpecies hL Kc Y F buf hb]
  have hflat : t.addForcingFlatVec L L nRxn nSpecies Kc Y F = t.addForcingFlat L L nRxn nSpecies Kc Y F := by
    simp [PSTables.addForcingFlat, hL0]
  rw [hflat, C13_forcing_flat_eq_cell t L L nRxn nSpecies Kc Y F hF hr hp hlen c hc]
  exact C01_forcing_mass_action' m procs t (Or.inr h) _ _ _ i (by simp [flatRow, hi])

end

#print axioms C18_jit_forcing_mass_action
end Micm
