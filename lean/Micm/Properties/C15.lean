/-
C15 — each reaction gets its own rate constant.

"The rate constant of reaction r in cell c equals the formula of r's type evaluated at cell c's
conditions and r's own custom parameters (looked up by label), multiplied by r's parameterized
reactants; for any mix of types (0, 1 or 2 custom parameters each), every layout and cell count."

The formulas (`RateKind.calc`) are OPAQUE here: every theorem is about the offset walking and holds
for an arbitrary carrier type (no algebra is used).  The formulas themselves are transcribed and
compared numerically by the harness (DESIGN.md §4 C15), not proved.

Model definitions the theorems are about:
* `rateConstGo`, `calculateRateConstants` (`Micm/Model/RateConst.lean`, executed by the driver and
  compared bit-for-bit with the C++ for both layouts);
* `labelsOf` (`GetCustomParameterLabels`), `paramMap` (`custom_rate_parameter_map_`),
  `setCustomRateParameter`/`fillParams` (`State::SetCustomRateParameter`), and
  `calculateRateConstantsVec` (flat-storage transcription of the VECTOR overload of
  `Process::CalculateRateConstants`) in `Micm/Spec/RateFlat.lean`.  These are NOT executed by the
  harness; the flat vector model is a transcription checked only by `C15_vector_eq_rowwise`.

`paramOffset procs r = Σ_{r' < r} procs[r'].kind.nParams`, `nParamsTotal procs = Σ_r nParams`.
Proofs: `Micm/Lemmas/RateAssoc.lean`.
-/
import Micm.Lemmas.RateAssoc
import Micm.Properties.C19
namespace Micm

section
variable {α : Type} [OfNat α 0] [OfNat α 1] [Add α] [Sub α] [Mul α] [Div α] [Neg α]
variable (t : TOps α) (pi av : α)

/-! ## 1. association (row-wise model) -/

/-- one rate constant per reaction; reaction `r` is evaluated on exactly its own parameter slice
    `[off_r, off_r + n_r)` of the cell's parameter row and multiplied by its fixed reactants -/
theorem C15_association (c : Conditions α) (procs : List (RateProc α)) (params : List α) :
    (rateConstGo t pi av c procs params).length = procs.length ∧
    ∀ r (hr : r < procs.length),
      (rateConstGo t pi av c procs params)[r]'(by rw [rateConstGo_length]; exact hr) =
        procs[r].kind.calc t pi av c
            ((params.drop (paramOffset procs r)).take procs[r].kind.nParams)
          * fixedReactants c procs[r].nParamReactants :=
  ⟨rateConstGo_length t pi av c procs params, rateConstGo_getElem t pi av c procs params⟩

/-- shape of `CalculateRateConstants`' result: `cells × reactions` -/
theorem C15_shape (procs : List (RateProc α)) (conds : Array (Conditions α)) (params : Mat α) :
    (calculateRateConstants t pi av procs conds params).size = conds.size ∧
    ∀ c (hc : c < conds.size),
      ((calculateRateConstants t pi av procs conds params)[c]'(by
        rw [calculateRateConstants_size]; exact hc)).size = procs.length :=
  ⟨calculateRateConstants_size t pi av procs conds params,
    calculateRateConstants_row_size t pi av procs conds params⟩

/-- `rate_constants[c][r]` is the formula of `r` at `conditions[c]` on `r`'s slice of
    `custom_rate_parameters[c]`, times `r`'s fixed reactants at `conditions[c]` -/
theorem C15_association_cells (procs : List (RateProc α)) (conds : Array (Conditions α))
    (params : Mat α) (c : Nat) (hc : c < conds.size) (r : Nat) (hr : r < procs.length) :
    ((calculateRateConstants t pi av procs conds params)[c]'(by
        rw [calculateRateConstants_size]; exact hc))[r]'(by
        rw [calculateRateConstants_row_size t pi av procs conds params c hc]; exact hr) =
      procs[r].kind.calc t pi av conds[c]
          (((params.getD c #[]).toList.drop (paramOffset procs r)).take procs[r].kind.nParams)
        * fixedReactants conds[c] procs[r].nParamReactants := by
  simp only [calculateRateConstants_row t pi av procs conds params c hc, List.getElem_toArray]
  exact rateConstGo_getElem t pi av conds[c] procs _ r hr

/-- C13 for rate constants: row `c` of the result depends only on `conditions[c]` and
    `custom_rate_parameters[c]` (not on other cells, nor on the number of cells) -/
theorem C15_cell_independence (procs : List (RateProc α))
    (conds conds' : Array (Conditions α)) (params params' : Mat α)
    (c : Nat) (hc : c < conds.size) (hc' : c < conds'.size)
    (hcond : conds[c] = conds'[c]) (hpar : params.getD c #[] = params'.getD c #[]) :
    (calculateRateConstants t pi av procs conds params)[c]'(by
        rw [calculateRateConstants_size]; exact hc) =
      (calculateRateConstants t pi av procs conds' params')[c]'(by
        rw [calculateRateConstants_size]; exact hc') := by
  rw [calculateRateConstants_row t pi av procs conds params c hc,
    calculateRateConstants_row t pi av procs conds' params' c hc', hcond, hpar]

end

/-! ## 2. labels -/

section
variable {α : Type}

/-- `GetCustomParameterLabels` yields one label per custom-parameter column -/
theorem C15_labels_length (procs : List (RateProc α)) :
    (labelsOf procs).length = nParamsTotal procs ∧
    ∀ r (hr : r < procs.length),
      procs[r].kind.labels.length = procs[r].kind.nParams ∧
      paramOffset procs r + procs[r].kind.nParams ≤ nParamsTotal procs ∧
      paramOffset procs (r + 1) = paramOffset procs r + procs[r].kind.nParams :=
  ⟨labelsOf_length procs, fun r hr =>
    ⟨RateKind.labels_length _, paramOffset_add_le procs r hr, paramOffset_succ procs r hr⟩⟩

/-- the labels of reaction `r` occupy exactly positions `[off_r, off_r + n_r)` of the label list -/
theorem C15_labels_positions (procs : List (RateProc α)) (r : Nat) (hr : r < procs.length) :
    ((labelsOf procs).drop (paramOffset procs r)).take procs[r].kind.nParams =
      procs[r].kind.labels :=
  labelsOf_slice procs r hr

/-- `custom_rate_parameter_map_`: with pairwise distinct labels, `find(label)` returns the
    label's position; an unknown label is not found; whatever it returns points at that label -/
theorem C15_label_map (labels : List String) :
    (labels.Nodup → ∀ j l, labels[j]? = some l → paramMap labels l = some j) ∧
    (∀ l, l ∉ labels → paramMap labels l = none) ∧
    (∀ l j, paramMap labels l = some j → labels[j]? = some l) :=
  ⟨fun hnd j l h => paramMap_nodup labels hnd j l h, paramMap_not_mem labels,
    paramMap_some labels⟩

variable [OfNat α 0]

/-- after any successful sequence of `SetCustomRateParameter(label, values)` calls on a parameter
    matrix with one column per label (pairwise distinct labels), column `k` holds in every cell
    the values most recently passed for the label at position `k` (its initial content if that
    label was never set); the shape is unchanged -/
theorem C15_set_by_label (labels : List String) (hnd : labels.Nodup)
    (sets : List (String × Array α)) (params0 params : Mat α)
    (hrows : ∀ c (hc : c < params0.size), params0[c].size = labels.length)
    (hfill : fillParams labels params0 sets = some params) :
    params.size = params0.size ∧
    (∀ c (hc : c < params.size), params[c].size = labels.length) ∧
    ∀ c, c < params0.size → ∀ k (hk : k < labels.length),
      (params.getD c #[])[k]? =
        match lastSet sets labels[k] with
        | some vals => some (vals.getD c 0)
        | none => (params0.getD c #[])[k]? :=
  fillParams_spec labels hnd sets params0 params hrows hfill

/-- the slice of cell `c`'s parameter row that the offset walk hands to reaction `r` is
    `[v_ℓ(c) for ℓ in r's labels]`, `v_ℓ` = the values most recently set for label `ℓ` -/
theorem C15_labels_reach_their_reaction (procs : List (RateProc α))
    (hnd : (labelsOf procs).Nodup) (sets : List (String × Array α)) (params0 params : Mat α)
    (hrows : ∀ c (hc : c < params0.size), params0[c].size = (labelsOf procs).length)
    (hfill : fillParams (labelsOf procs) params0 sets = some params)
    (c : Nat) (hc : c < params0.size) (r : Nat) (hr : r < procs.length)
    (hset : ∀ l ∈ procs[r].kind.labels, (lastSet sets l).isSome) :
    ((params.getD c #[]).toList.drop (paramOffset procs r)).take procs[r].kind.nParams =
      procs[r].kind.labels.map fun l => ((lastSet sets l).getD #[]).getD c 0 :=
  fillParams_slice procs hnd sets params0 params hrows hfill c hc r hr hset

end

section
variable {α : Type} [OfNat α 0] [OfNat α 1] [Add α] [Sub α] [Mul α] [Div α] [Neg α]
variable (t : TOps α) (pi av : α)

/-- end to end: set parameters by label, then `CalculateRateConstants`: reaction `r` in cell `c`
    is evaluated on the values set for its own labels -/
theorem C15_rate_constant_by_label (procs : List (RateProc α))
    (hnd : (labelsOf procs).Nodup) (sets : List (String × Array α)) (params0 params : Mat α)
    (hrows : ∀ c (hc : c < params0.size), params0[c].size = (labelsOf procs).length)
    (hfill : fillParams (labelsOf procs) params0 sets = some params)
    (conds : Array (Conditions α)) (c : Nat) (hc : c < conds.size) (hc0 : c < params0.size)
    (r : Nat) (hr : r < procs.length)
    (hset : ∀ l ∈ procs[r].kind.labels, (lastSet sets l).isSome) :
    ((calculateRateConstants t pi av procs conds params)[c]'(by
        rw [calculateRateConstants_size]; exact hc))[r]'(by
        rw [calculateRateConstants_row_size t pi av procs conds params c hc]; exact hr) =
      procs[r].kind.calc t pi av conds[c]
          (procs[r].kind.labels.map fun l => ((lastSet sets l).getD #[]).getD c 0)
        * fixedReactants conds[c] procs[r].nParamReactants := by
  rw [C15_association_cells t pi av procs conds params c hc r hr,
    C15_labels_reach_their_reaction procs hnd sets params0 params hrows hfill c hc0 r hr hset]

/-! ## 3. the vector layout on flat storage -/

variable (L : Nat) (conds : Array (Conditions α)) (vcp : Array α)

/-- For every `L ≥ 1`, every cell count (incl. a partial last group), every real cell `c` and
    reaction `r`: the slot `addr c r` of the flat `VectorMatrix<L>` rate-constant storage is in
    range (C19), is the slot of no other (cell, reaction) pair (C19), and after the vector overload
    holds the row-wise value `rateConstGo … conds[c] procs (logical row c of the flat parameter
    storage)` at index `r`.  `vcp` is arbitrary (reads are total); `vrc` has the container's size. -/
theorem C15_vector_eq_rowwise (procs : List (RateProc α)) (hL : 1 ≤ L)
    (vrc : Array α) (hvrc : vrc.size = (DenseShape.mk conds.size procs.length L).size)
    (c : Nat) (hc : c < conds.size) (r : Nat) (hr : r < procs.length) :
    (DenseShape.mk conds.size procs.length L).addr c r <
        (calculateRateConstantsVec t pi av L conds.size procs conds vcp vrc).size ∧
    (∀ c' r', c' < conds.size → r' < procs.length →
        (DenseShape.mk conds.size procs.length L).addr c' r' =
          (DenseShape.mk conds.size procs.length L).addr c r → c' = c ∧ r' = r) ∧
    rd (calculateRateConstantsVec t pi av L conds.size procs conds vcp vrc)
        ((DenseShape.mk conds.size procs.length L).addr c r) =
      (rateConstGo t pi av conds[c] procs
        (logicalRow ⟨conds.size, nParamsTotal procs, L⟩ vcp c))[r]'(by
          rw [rateConstGo_length]; exact hr) := by
  refine ⟨?_, ?_, calculateRateConstantsVec_addr t pi av L conds vcp procs hL vrc hvrc c hc r hr⟩
  · rw [calculateRateConstantsVec_size t pi av L conds vcp procs conds.size hL vrc hvrc, hvrc]
    exact C19_dense_addr_lt _ hc hr
  · intro c' r' hc' hr' h
    exact C19_dense_addr_inj _ hc' hr' hc hr h

/-- the same against `calculateRateConstants` (the executed model): if `params` holds the logical
    rows of the flat parameter storage, the flat result at `addr c r` is `rate_constants[c][r]` -/
theorem C15_vector_eq_calculateRateConstants (procs : List (RateProc α)) (hL : 1 ≤ L)
    (vrc : Array α) (hvrc : vrc.size = (DenseShape.mk conds.size procs.length L).size)
    (params : Mat α)
    (hparams : ∀ c, c < conds.size →
      (params.getD c #[]).toList = logicalRow ⟨conds.size, nParamsTotal procs, L⟩ vcp c)
    (c : Nat) (hc : c < conds.size) (r : Nat) (hr : r < procs.length) :
    rd (calculateRateConstantsVec t pi av L conds.size procs conds vcp vrc)
        ((DenseShape.mk conds.size procs.length L).addr c r) =
      ((calculateRateConstants t pi av procs conds params)[c]'(by
        rw [calculateRateConstants_size]; exact hc))[r]'(by
        rw [calculateRateConstants_row_size t pi av procs conds params c hc]; exact hr) := by
  rw [calculateRateConstantsVec_addr t pi av L conds vcp procs hL vrc hvrc c hc r hr]
  simp only [calculateRateConstants_row t pi av procs conds params c hc, List.getElem_toArray,
    hparams c hc]

/-- nothing else is written: a slot that is not the address of a (real cell, reaction) pair
    (padding lanes of a partial last group) keeps its content, and the size is unchanged -/
theorem C15_vector_frame (procs : List (RateProc α)) (nCells : Nat) (hL : 1 ≤ L)
    (vrc : Array α) (hvrc : vrc.size = (DenseShape.mk nCells procs.length L).size) :
    (calculateRateConstantsVec t pi av L nCells procs conds vcp vrc).size = vrc.size ∧
    ∀ i, (∀ c, c < nCells → ∀ r, r < procs.length →
        i ≠ (DenseShape.mk nCells procs.length L).addr c r) →
      rd (calculateRateConstantsVec t pi av L nCells procs conds vcp vrc) i = rd vrc i :=
  ⟨calculateRateConstantsVec_size t pi av L conds vcp procs nCells hL vrc hvrc,
    calculateRateConstantsVec_frame t pi av L conds vcp procs nCells hL vrc hvrc⟩

end

/-! ## concrete instances -/

section Examples

/-- the mix `[arrhenius, surface "s", userDefined "u", troe]` (0, 2, 1, 0 custom parameters),
    over `Int` so that everything is decidable -/
def exMix : List (RateProc Int) :=
  [⟨.arrhenius 1 0 0 1 0, 0⟩, ⟨.surface "s" 1 1 1, 0⟩, ⟨.userDefined "u" 3, 1⟩,
   ⟨.troe 1 0 0 1 0 0 1 1, 2⟩]

-- offsets 0, 0, 2, 3; three columns in total
example : paramOffset exMix 0 = 0 := by decide
example : paramOffset exMix 1 = 0 := by decide
example : paramOffset exMix 2 = 2 := by decide
example : paramOffset exMix 3 = 3 := by decide
example : (List.range 4).map (paramOffset exMix) = [0, 0, 2, 3] := rfl
example : nParamsTotal exMix = 3 := rfl
example : exMix.map (·.kind.nParams) = [0, 2, 1, 0] := rfl

-- the label list, its distinctness, the label → column map
example : labelsOf exMix =
    ["s.effective radius [m]", "s.particle number concentration [# m-3]", "u"] := by decide
example : (labelsOf exMix).Nodup := by decide
example : paramMap (labelsOf exMix) "u" = some 2 := by decide
example : paramMap (labelsOf exMix) "v" = none := by decide

/-- trivial transcendental stubs (the formulas are opaque for C15) -/
def exTOps : TOps Int := ⟨fun _ => 1, fun _ _ => 1, fun _ => 0, fun _ => 1, fun n => n, fun _ => 1⟩
/-- three cells, air densities 2, 3, 5 -/
def exConds : Array (Conditions Int) := #[⟨1, 1, 2⟩, ⟨1, 1, 3⟩, ⟨1, 1, 5⟩]
/-- calls in an order unrelated to the column order; `"u"` is set twice (last one wins) -/
def exSets : List (String × Array Int) :=
  [("u", #[7, 8, 9]), ("s.particle number concentration [# m-3]", #[1, 2, 3]),
   ("s.effective radius [m]", #[10, 20, 30]), ("u", #[70, 80, 90])]
def exParams : Mat Int := #[#[10, 1, 70], #[20, 2, 80], #[30, 3, 90]]

-- the hypotheses of `C15_labels_reach_their_reaction` / `C15_rate_constant_by_label` hold here
example : fillParams (labelsOf exMix) (Array.replicate 3 (Array.replicate 3 0)) exSets =
    some exParams := by decide +kernel
example : ∀ l ∈ labelsOf exMix, (lastSet exSets l).isSome := by decide +kernel
-- surface: number·r²/(r+1) (integer division), user-defined: 3·u·air, e.g. 9 = 1·100/11, 420 = 3·70·2
example : calculateRateConstants exTOps 1 1 exMix exConds exParams =
    #[#[1, 9, 420, 0], #[1, 38, 720, 0], #[1, 87, 1350, 0]] := by decide +kernel

-- the flat vector model, `L = 2`, 3 cells (one full group + a partial group):
-- parameter storage with `-5` in the padding lanes, rate-constant storage pre-filled with `-1`
def exVcp : Array Int := #[10, 20, 1, 2, 70, 80, 30, -5, 3, -5, 90, -5]
example : (List.range 3).map (logicalRow ⟨3, 3, 2⟩ exVcp) = exParams.toList.map Array.toList := by
  decide +kernel
example : calculateRateConstantsVec exTOps 1 1 2 3 exMix exConds exVcp (Array.replicate 16 (-1)) =
    #[1, 1, 9, 38, 420, 720, 0, 0, 1, -1, 87, -1, 1350, -1, 0, -1] := by decide +kernel

-- `Nodup` is needed: with a repeated label the map keeps the LAST column, so the first of two
-- reactions sharing the label "u" never receives the value (its column stays at the initial 0).
-- The implementation has no duplicate-label check (observation; outside the property's domain).
def exDup : List (RateProc Int) := [⟨.userDefined "u" 1, 0⟩, ⟨.userDefined "u" 1, 0⟩]
example : fillParams (labelsOf exDup) #[#[0, 0]] [("u", #[7])] = some #[#[0, 7]] := by
  decide +kernel

end Examples

#print axioms C15_association
#print axioms C15_shape
#print axioms C15_association_cells
#print axioms C15_cell_independence
#print axioms C15_labels_length
#print axioms C15_labels_positions
#print axioms C15_label_map
#print axioms C15_set_by_label
#print axioms C15_labels_reach_their_reaction
#print axioms C15_rate_constant_by_label
#print axioms C15_vector_eq_rowwise
#print axioms C15_vector_eq_calculateRateConstants
#print axioms C15_vector_frame

end Micm
