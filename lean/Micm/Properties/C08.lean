/-
  C08 — the five Rosenbrock coefficient tables are consistent methods of their documented orders.

  All facts are about the GENERATED constants `Micm.Gen.ros2 … rodas4` (exact rationals of the
  binary64 values in /repo/include/micm/solver/rosenbrock_solver_parameters.hpp); nothing is
  retyped here.  The conversion implementation form → textbook form and the Hairer–Wanner order
  conditions are in `Micm/Spec/OrderConditions.lean`; every `= true` below is decided by the
  kernel on core `Rat` and fails if a coefficient is edited to a wrong value.

  Tolerances: `tenTo k = 10^{-k}`, `tol14 = 1e-14`.
  Not proved here (DESIGN.md §4 C08): the global-accuracy sentence ("a Converged result differs
  from the exact solution by a modest multiple of the tolerance"); it is measured, not proved.
-/
import Micm.Spec.OrderConditions
import Micm.Lemmas.OrderConditionsRos2
import Mathlib.Analysis.Real.Sqrt
import Mathlib.Tactic.Linarith

namespace Micm
open Micm.Gen Micm.OrderCond

/-! ### shapes -/

/-- `a`, `c` have `s(s−1)/2` entries; `m`, `e`, `newF`, `alpha`, `gamma` have `s`; `s ≥ 1`;
    the first stage evaluates the forcing (`newF[0] = true`). -/
theorem C08_stages_consistent :
    stagesConsistent ros2 = true ∧ stagesConsistent ros3 = true ∧ stagesConsistent ros4 = true ∧
    stagesConsistent rodas3 = true ∧ stagesConsistent rodas4 = true := by decide +kernel

/-! ### order conditions: main method up to the documented order, embedded one order lower,
    every residual `≤ 1e-14` in absolute value -/

theorem C08_order_ros2   : orderCheck ros2   2 1 tol14 = true := by decide +kernel
theorem C08_order_ros3   : orderCheck ros3   3 2 tol14 = true := by decide +kernel
theorem C08_order_ros4   : orderCheck ros4   4 3 tol14 = true := by decide +kernel
theorem C08_order_rodas3 : orderCheck rodas3 3 2 tol14 = true := by decide +kernel
theorem C08_order_rodas4 : orderCheck rodas4 4 3 tol14 = true := by decide +kernel

/-- the same with the tightest power of ten that holds for all five sets: `1e-15`
    (largest measured residual: `8.6e-16`, condition `Σb̂ = 1` of the six-stage set) -/
theorem C08_order_tight :
    orderCheck ros2 2 1 (tenTo 15) = true ∧ orderCheck ros3 3 2 (tenTo 15) = true ∧
    orderCheck ros4 4 3 (tenTo 15) = true ∧ orderCheck rodas3 3 2 (tenTo 15) = true ∧
    orderCheck rodas4 4 3 (tenTo 15) = true := by decide +kernel

/-- the documented orders are sharp: some condition of the next order is violated by more than
    `1e-3` — for the main method of the order-2/3 sets (order-5 conditions are not formalised, so
    nothing is claimed about the main methods of `ros4`, `rodas4`) and for every embedded method. -/
theorem C08_order_sharp :
    mainFails ros2 3 (tenTo 3) = true ∧ mainFails ros3 4 (tenTo 3) = true ∧
    mainFails rodas3 4 (tenTo 3) = true ∧
    embFails ros2 2 (tenTo 3) = true ∧ embFails ros3 3 (tenTo 3) = true ∧
    embFails ros4 4 (tenTo 3) = true ∧ embFails rodas3 3 (tenTo 3) = true ∧
    embFails rodas4 4 (tenTo 3) = true := by decide +kernel

/-! ### tabulated `alpha_[i] = Σ_j α_ij`, `gamma_[i] = Σ_j γ_ij` (within `1e-14`) -/

theorem C08_rowsums_ros2   : rowsumCheck ros2   tol14 tol14 = true := by decide +kernel
theorem C08_rowsums_ros3   : rowsumCheck ros3   tol14 tol14 = true := by decide +kernel
theorem C08_rowsums_ros4   : rowsumCheck ros4   tol14 tol14 = true := by decide +kernel
theorem C08_rowsums_rodas3 : rowsumCheck rodas3 tol14 tol14 = true := by decide +kernel
theorem C08_rowsums_rodas4 : rowsumCheck rodas4 tol14 tol14 = true := by decide +kernel

/-- tightest power of ten for all sets: `1e-15` (largest: `8.6e-16`, `alpha_[5]` of `rodas4`);
    `rodas3` agrees exactly. -/
theorem C08_rowsums_tight :
    rowsumCheck ros2 (tenTo 15) (tenTo 15) = true ∧ rowsumCheck ros3 (tenTo 15) (tenTo 15) = true ∧
    rowsumCheck ros4 (tenTo 15) (tenTo 15) = true ∧ rowsumCheck rodas3 0 0 = true ∧
    rowsumCheck rodas4 (tenTo 15) (tenTo 15) = true := by decide +kernel

/-! ### `R(∞) = 1 − bᵀB⁻¹𝟙`  (`rinfCheck t lo hi` : `lo ≤ |R(∞)| ≤ hi`) -/

theorem C08_Rinf_ros2   : rinfCheck ros2   0 tol14 = true := by decide +kernel
theorem C08_Rinf_ros3   : rinfCheck ros3   0 tol14 = true := by decide +kernel
theorem C08_Rinf_rodas3 : rinfCheck rodas3 0 tol14 = true := by decide +kernel
theorem C08_Rinf_rodas4 : rinfCheck rodas4 0 tol14 = true := by decide +kernel
/-- the four-stage set is L-stable only to five digits: `|R(∞)| ≤ 2e-5` -/
theorem C08_Rinf_ros4   : rinfCheck ros4   0 (2 * tenTo 5) = true := by decide +kernel

/-- tightest round bounds: `R(∞) = 0` exactly for `ros3`, `rodas3`, `rodas4`; `≤ 1e-16` for `ros2`
    (measured `−7.6e-17`); `1.5e-5 ≤ |R(∞)| ≤ 1.6e-5` for `ros4` (measured `−1.519e-5`), in
    particular `ros4` is *not* L-stable to `1e-14`. -/
theorem C08_Rinf_tight :
    rinfCheck ros2 0 (tenTo 16) = true ∧ rinfCheck ros3 0 0 = true ∧
    rinfCheck rodas3 0 0 = true ∧ rinfCheck rodas4 0 0 = true ∧
    rinfCheck ros4 (15 * tenTo 6) (16 * tenTo 6) = true := by decide +kernel

/-- the two "stiffly-stable" (RODAS) sets are stiffly accurate, exactly: last row of `A` = `m[0..s−2]`,
    `m[s−1] = 1`, `e = (0,…,0,1)`; the three ROS sets are not. -/
theorem C08_stiffly_accurate :
    stifflyAccurate rodas3 = true ∧ stifflyAccurate rodas4 = true ∧
    stifflyAccurate ros2 = false ∧ stifflyAccurate ros3 = false ∧ stifflyAccurate ros4 = false := by
  decide +kernel

/-! ### meaning of `estimator_of_local_order_` -/

/-- `order = min(main order, embedded order) + 1` with the orders established above
    (`ros2`: 2, `ros3`: 3, `ros4`: 4, `rodas3`: 3, `rodas4`: 4). -/
theorem C08_order_meaning :
    orderMeaning ros2 2 1 = true ∧ orderMeaning ros3 3 2 = true ∧ orderMeaning ros4 4 3 = true ∧
    orderMeaning rodas3 3 2 = true ∧ orderMeaning rodas4 4 3 = true := by decide +kernel

/-! ### the two-stage set: exact identities -/

/-- For the header's formulas `a = 1/g, c = −2/g, m = (3/(2g), 1/(2g)), e = (1/(2g), 1/(2g)), γ = g`
    over any field of characteristic `≠ 2`, the textbook form computed by `toTextbookK` (the same
    function that is evaluated on the generated tables) has `b = (½,½)`, `b̂ = (1,0)`,
    `alpha = (0,1)`, `gamma = (g,−g)`; the order-2 conditions of the main method and the order-1
    condition of the embedded method hold *exactly* for every `g ≠ 0`, and `R(∞) = 0` holds
    iff `2(g−1)² = 1` (which is what `g = 1 + 1/√2` solves). -/
theorem C08_ros2_exact {K : Type} [Field K] (g : K) (hg : g ≠ 0) (h2 : (2 : K) ≠ 0) :
    let T := ros2Textbook g
    T.b = [1 / 2, 1 / 2] ∧ T.bh = [1, 0] ∧ T.al = [0, 1] ∧ T.gs = [g, -g] ∧
    o1 T T.b = 0 ∧ o2 T T.b = 0 ∧ o1 T T.bh = 0 ∧
    (Rinf T T.b = 0 ↔ 2 * (g - 1) ^ 2 = 1) := by
  intro T
  have h := ros2_exact_aux g hg h2
  refine ⟨?_, ?_, ?_, ?_, h⟩ <;> simp only [T, ros2Textbook_eq g hg h2]

/-- the hypotheses are satisfiable by the header's own `g = 1 + 1/√2` over `ℝ` -/
example : ∃ g : ℝ, g = 1 + 1 / Real.sqrt 2 ∧ g ≠ 0 ∧ (2 : ℝ) ≠ 0 ∧ 2 * (g - 1) ^ 2 = 1 := by
  have hs : Real.sqrt 2 ^ 2 = 2 := Real.sq_sqrt (by norm_num)
  have hpos : 0 < Real.sqrt 2 := Real.sqrt_pos.mpr (by norm_num)
  refine ⟨1 + 1 / Real.sqrt 2, rfl, by positivity, by norm_num, ?_⟩
  field_simp
  linarith

/-- link to the generated table: the binary64 constants of `ros2` are the closed forms evaluated
    at `g = ros2.gamma[0]`, and `g` solves `2(g−1)² = 1`, all within `1e-15`
    (largest: defect of the quadratic, `−1.8e-16`). -/
theorem C08_ros2_closed_form :
    allWithin (tenTo 15) (ros2ClosedFormResiduals ros2) = true := by decide +kernel

#print axioms C08_stages_consistent
#print axioms C08_order_ros2
#print axioms C08_order_ros3
#print axioms C08_order_ros4
#print axioms C08_order_rodas3
#print axioms C08_order_rodas4
#print axioms C08_order_tight
#print axioms C08_order_sharp
#print axioms C08_rowsums_ros2
#print axioms C08_rowsums_ros3
#print axioms C08_rowsums_ros4
#print axioms C08_rowsums_rodas3
#print axioms C08_rowsums_rodas4
#print axioms C08_rowsums_tight
#print axioms C08_Rinf_ros2
#print axioms C08_Rinf_ros3
#print axioms C08_Rinf_ros4
#print axioms C08_Rinf_rodas3
#print axioms C08_Rinf_rodas4
#print axioms C08_Rinf_tight
#print axioms C08_stiffly_accurate
#print axioms C08_order_meaning
#print axioms C08_ros2_exact
#print axioms C08_ros2_closed_form

end Micm
