/-
C16 — one solver shared by many threads, each with its own State.
Model theorem: for EVERY schedule (interleaving), each thread's state and results are exactly those
of running its own operations serially; nothing a thread does is visible to another thread.
The theorem's premise is the shape of `runSched`: steps read the shared value and write only the
stepping thread's own state.  That premise about the C++ (no writes to the solver object from
`GetState`, `CalculateRateConstants`, two-argument `Solve`) is validated by the ThreadSanitizer run and
the serial/parallel bitwise comparison of tools/check.py C16 — it is not proved.
-/
import Micm.Model.Concurrency
namespace Micm

variable {S σ ρ ω : Type}

theorem iter_succ' {β : Type} (f : β → β) (n : Nat) (b : β) : iter f (n + 1) b = iter f n (f b) := rfl

/-- after any schedule, thread `i` has performed exactly `count i` steps of its own, from its own
    initial state: no other thread's steps matter, in any order -/
theorem C16_schedule_independence (step : S → σ → ω → σ × ρ) (s : S) (sched : List Nat)
    (ts : Nat → TState σ ρ ω) (i : Nat) :
    runSched step s sched ts i = iter (tstep step s) (sched.count i) (ts i) := by
  induction sched generalizing ts with
  | nil => rfl
  | cons j js ih =>
    simp only [runSched]
    rw [ih]
    by_cases h : j = i
    · subst h; simp [List.count_cons, iter]
    · have h' : ¬ i = j := fun e => h e.symm
      simp [List.count_cons, h, h']

/-- serial execution of one thread's operations -/
def serial (step : S → σ → ω → σ × ρ) (s : S) (t : TState σ ρ ω) : TState σ ρ ω :=
  iter (tstep step s) t.pending.length t

theorem tstep_finished (step : S → σ → ω → σ × ρ) (s : S) (t : TState σ ρ ω) (h : t.pending = []) :
    tstep step s t = t := by
  unfold tstep; rw [h]

theorem iter_finished (step : S → σ → ω → σ × ρ) (s : S) (n : Nat) (t : TState σ ρ ω) (h : t.pending = []) :
    iter (tstep step s) n t = t := by
  induction n with
  | zero => rfl
  | succ n ih => rw [iter_succ', tstep_finished step s t h, ih]

theorem iter_ge_serial (step : S → σ → ω → σ × ρ) (s : S) (n : Nat) (t : TState σ ρ ω)
    (h : t.pending.length ≤ n) : iter (tstep step s) n t = serial step s t := by
  unfold serial
  induction n generalizing t with
  | zero =>
    have : t.pending.length = 0 := Nat.le_zero.mp h
    rw [this]
  | succ n ih =>
    cases hp : t.pending with
    | nil => rw [iter_finished step s _ t hp]; simp [iter]
    | cons op ops =>
      rw [iter_succ']
      have hl : (tstep step s t).pending = ops := by simp [tstep, hp]
      have : (tstep step s t).pending.length ≤ n := by
        rw [hl]; rw [hp] at h; simp at h; omega
      rw [ih _ this, hl]
      simp [iter_succ']

/-- every complete schedule (each thread scheduled at least as often as it has operations)
    gives every thread bit-for-bit its serial outcome -/
theorem C16_complete_schedule_eq_serial (step : S → σ → ω → σ × ρ) (s : S) (sched : List Nat)
    (ts : Nat → TState σ ρ ω) (i : Nat) (h : (ts i).pending.length ≤ sched.count i) :
    runSched step s sched ts i = serial step s (ts i) := by
  rw [C16_schedule_independence, iter_ge_serial step s _ _ h]

/-- non-vacuity: two threads, an arbitrary interleaving -/
example : runSched (fun (s : Nat) (l : Nat) (op : Nat) => (l + s * op, l)) 10 [1, 0, 1, 0, 1]
    (fun i => ⟨i, [1, 2, 3], []⟩) 1 = serial (fun (s : Nat) (l : Nat) (op : Nat) => (l + s * op, l)) 10 ⟨1, [1, 2, 3], []⟩ := by
  apply C16_complete_schedule_eq_serial; decide

end Micm
#print axioms Micm.C16_schedule_independence
#print axioms Micm.C16_complete_schedule_eq_serial
