import Micm.Lemmas.Substitution
import Micm.Spec.DenseLU
import Micm.Lemmas.LUCell
import Micm.Lemmas.LUCellMozart
import Mathlib.Algebra.Field.Rat

/-!
C04 — `Solve` after `Factor` overwrites `b` with the solution of `A x = b` (one cell).

`view p a r c` is the logical matrix held by the rank-indexed array `a` under pattern `p`
(absent elements read as `0`).  The substitution tables are exactly `solverRows Lp Up`.
-/
open Finset
namespace Micm
variable {K : Type} [Field K]

/-- C04 (separate L, U).  If the arrays `L`, `U` hold (through the patterns `Lp`, `Up`) a lower
    triangular matrix with non-zero diagonal (the source divides by `L[i][i]`; after `Factor` it
    is `1`) and an upper triangular matrix with non-zero diagonal, then `solveCell` overwrites `x`
    with `y` such that `(L·U) y = x`, for every right-hand side `x` of the block size. -/
theorem C04_solveCell (Lp Up : Pattern) (L U x : Array K) (n : Nat)
    (hn : Lp.n = n) (hx : x.size = n)
    (hLd : ∀ i, i < n → view Lp L i i ≠ 0)
    (hLu : ∀ i j, i < n → j < n → i < j → view Lp L i j = 0)
    (hUd : ∀ i, i < n → view Up U i i ≠ 0)
    (hUl : ∀ i j, i < n → j < n → j < i → view Up U i j = 0) :
    ∀ i, i < n →
      ∑ j ∈ range n, (∑ k ∈ range n, view Lp L i k * view Up U k j)
        * rd (solveCell (solverRows Lp Up).1 (solverRows Lp Up).2 L U x) j = rd x i :=
  solveCell_correct Lp Up L U x n hn hx hLd hLu hUd hUl

/-- C04 (in place).  The single array `M` holds the strict lower part of `L` (unit diagonal
    implicit: the forward pass does not divide) and `U`; `solveInPlaceCell` overwrites `x` with
    `y` such that `(L·U) y = x`. -/
theorem C04_solveInPlaceCell (P : Pattern) (M x : Array K) (n : Nat)
    (hn : P.n = n) (hx : x.size = n) (hd : ∀ i, i < n → view P M i i ≠ 0) :
    ∀ i, i < n →
      ∑ j ∈ range n, (∑ k ∈ range n, lowerUnit (view P M) i k * upperPart (view P M) k j)
        * rd (solveInPlaceCell (solverRows P P).1 (solverRows P P).2 M x) j = rd x i :=
  solveInPlaceCell_correct P M x n hn hx hd

/-- composed with an LU factorisation of `A` (what C03 delivers): `Factor; Solve` solves `A y = b` -/
theorem C04_factor_solve (Lp Up : Pattern) (L U x : Array K) (n : Nat) (A : Nat → Nat → K)
    (hn : Lp.n = n) (hx : x.size = n)
    (hLU : DenseLU.IsLU n A (view Lp L) (view Up U))
    (hUd : ∀ i, i < n → view Up U i i ≠ 0) :
    ∀ i, i < n →
      ∑ j ∈ range n, A i j
        * rd (solveCell (solverRows Lp Up).1 (solverRows Lp Up).2 L U x) j = rd x i := by
  intro i hi
  rw [← C04_solveCell Lp Up L U x n hn hx
    (fun i hi => by rw [hLU.L_diag i hi]; exact one_ne_zero) hLU.L_up hUd hLU.U_low i hi]
  apply sum_congr rfl
  intro j hj
  rw [hLU.prod i j hi (mem_range.mp hj)]

/-! ### `Factor` followed by `Solve`, for each of the four LU algorithms

`a` holds `A` (pattern `A`), `b` the right-hand side; hypotheses (H1)–(H3) as in C03 and "no zero
pivot" (the diagonal of the computed `U`). Conclusion: `A · x = b` on the block. -/

theorem C04_doolittle {n : Nat} {A Lp Up : Pattern} (h : LUSetup n A Lp Up) (hn : A.n = n)
    (hnL : Lp.n = n) (a l0 u0 b : Array K) (hLs : l0.size = Lp.nnz) (hUs : u0.size = Up.nnz)
    (hb : b.size = n)
    (hpiv : ∀ i, i < n → view Up (doolittleCell (doolittleRows A Lp Up) a (l0, u0)).2 i i ≠ 0) :
    ∀ i, i < n →
      ∑ j ∈ range n, view A a i j *
        rd (solveCell (solverRows Lp Up).1 (solverRows Lp Up).2
          (doolittleCell (doolittleRows A Lp Up) a (l0, u0)).1
          (doolittleCell (doolittleRows A Lp Up) a (l0, u0)).2 b) j = rd b i :=
  solve_of_views Lp Up _ _ b n (view A a) hnL hb (doolittleCell_view h hn a l0 u0 hLs hUs) hpiv

theorem C04_mozart {n : Nat} {A Lp Up : Pattern} (h : MozSetup n A Lp Up) (hn : A.n = n)
    (hnL : Lp.n = n) (a l0 u0 b : Array K) (hLs : l0.size = Lp.nnz) (hUs : u0.size = Up.nnz)
    (hb : b.size = n)
    (hpiv : ∀ i, i < n →
      view Up (mozartCell (mozartInit A Lp Up) (mozartRows A Lp Up) a (l0, u0)).2 i i ≠ 0) :
    ∀ i, i < n →
      ∑ j ∈ range n, view A a i j *
        rd (solveCell (solverRows Lp Up).1 (solverRows Lp Up).2
          (mozartCell (mozartInit A Lp Up) (mozartRows A Lp Up) a (l0, u0)).1
          (mozartCell (mozartInit A Lp Up) (mozartRows A Lp Up) a (l0, u0)).2 b) j = rd b i :=
  solve_of_views Lp Up _ _ b n (view A a) hnL hb (mozartCell_view h hn a l0 u0 hLs hUs) hpiv

theorem C04_doolittleInPlace {n : Nat} {P : Pattern} (h : IPSetup n P) (hn : P.n = n)
    (m0 b : Array K) (hMs : m0.size = P.nnz) (hb : b.size = n)
    (hpiv : ∀ i, i < n → view P (doolittleInPlaceCell (doolittleInPlaceRows P) m0) i i ≠ 0) :
    ∀ i, i < n →
      ∑ j ∈ range n, view P m0 i j *
        rd (solveInPlaceCell (solverRows P P).1 (solverRows P P).2
          (doolittleInPlaceCell (doolittleInPlaceRows P) m0) b) j = rd b i :=
  solve_of_view_inplace P _ b n (view P m0) hn hb (doolittleInPlaceCell_view h hn m0 hMs) hpiv

theorem C04_mozartInPlace {n : Nat} {P : Pattern} (h : IPSetup n P) (hn : P.n = n)
    (m0 b : Array K) (hMs : m0.size = P.nnz) (hb : b.size = n)
    (hpiv : ∀ i, i < n → view P (mozartInPlaceCell (mozartInPlaceRows P) m0) i i ≠ 0) :
    ∀ i, i < n →
      ∑ j ∈ range n, view P m0 i j *
        rd (solveInPlaceCell (solverRows P P).1 (solverRows P P).2
          (mozartInPlaceCell (mozartInPlaceRows P) m0) b) j = rd b i :=
  solve_of_view_inplace P _ b n (view P m0) hn hb (mozartInPlaceCell_view h hn m0 hMs) hpiv

/-! ### the hypotheses are satisfiable: a 3×3 instance with one fill-in element (2,1) -/

def exLp : Pattern := Pattern.mk' 3 false 0 [(0,0),(1,0),(1,1),(2,0),(2,1),(2,2)]
def exUp : Pattern := Pattern.mk' 3 false 0 [(0,0),(0,1),(1,1),(2,2)]
def exL : Array ℚ := #[1, 2, 1, 3, -1, 1]
def exU : Array ℚ := #[2, 1, 5, 7]

example : exLp.n = 3 ∧
    (∀ i, i < 3 → view exLp exL i i ≠ 0) ∧
    (∀ i, i < 3 → ∀ j, j < 3 → i < j → view exLp exL i j = 0) ∧
    (∀ i, i < 3 → view exUp exU i i ≠ 0) ∧
    (∀ i, i < 3 → ∀ j, j < 3 → j < i → view exUp exU i j = 0) := by
  decide +kernel

/-- in-place instance: `M` packs `L` (strict lower) and `U`; b = (1, 2, 3) -/
def exP : Pattern := Pattern.mk' 3 false 0 [(0,0),(0,1),(1,0),(1,1),(2,0),(2,1),(2,2)]
def exM : Array ℚ := #[2, 1, 2, 5, 3, -1, 7]

example : exP.n = 3 ∧ (∀ i, i < 3 → view exP exM i i ≠ 0) := by decide +kernel

/-- and the solver really returns the solution on it: `L·U = [[2,1,0],[4,7,0],[6,-2,7]]` -/
example : solveInPlaceCell (solverRows exP exP).1 (solverRows exP exP).2 exM #[1, 2, 3]
    = #[1/2, 0, 0] := by decide +kernel

end Micm

#print axioms Micm.C04_doolittle
#print axioms Micm.C04_mozart
#print axioms Micm.C04_doolittleInPlace
#print axioms Micm.C04_mozartInPlace
#print axioms Micm.C04_solveCell
#print axioms Micm.C04_solveInPlaceCell
#print axioms Micm.C04_factor_solve
