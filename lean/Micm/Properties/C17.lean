/-
  C17 — States have value semantics.

  Model: `Micm/Model/History.lean` — a store of `State` objects; what is modelled concretely is
  the dynamic kind of the polymorphic member `temporary_variables_` after each construction /
  copy / move (`hStep`, `hRun`).  `clone = true` is the current source (state.hpp:98,123 use
  `other.temporary_variables_->Clone()`), `clone = false` the source before the fix
  (`std::make_unique<TemporaryVariables>(*other.temporary_variables_)`: the base class only).
  `Solve` downcasts the member with `static_cast`; on a wrong dynamic kind the outcome is `ub`.

  Spec: `specStep` / `specRun` — a store of independent plain values (no `temp` at all).

  The numerical content `σ`, the fresh value and the effect `solveF` of `Solve` are arbitrary.
  Histories are arbitrary op lists (ops on a dead slot yield `noState` in both machines, so no
  well-formedness predicate is needed).
-/
import Micm.Lemmas.Special
namespace Micm

variable {σ ρ : Type}

/-- Current source (`clone = true`), every history from the empty store:
    * every live object holds the solver's own kind of temporaries (the invariant),
    * no op yields `ub`,
    * the outputs are those of the abstract store of independent values,
    * the final values are those of the abstract store. -/
theorem C17_value_semantics (kind : TempKind) (fresh : σ) (solveF : σ → σ × ρ) (ops : List (HOp σ)) :
    let r := hRun true kind fresh solveF (fun _ => none) ops
    let sp := specRun fresh solveF (fun _ => none) ops
    (∀ i o, r.1 i = some o → o.temp = kind) ∧
    (∀ out ∈ r.2, out ≠ HOut.ub) ∧
    r.2 = sp.2 ∧
    (∀ i, (r.1 i).map (·.val) = sp.1 i) := by
  obtain ⟨h1, h2, h3⟩ := hRun_refines kind fresh solveF ops (fun _ => none) (HInv_empty kind)
  refine ⟨h1, ?_, h3, fun i => congrFun h2 i⟩
  intro out hout hub
  rw [h3] at hout
  exact specRun_no_ub fresh solveF ops _ out hout hub

/-- The same from any store satisfying the invariant (e.g. any reachable store). -/
theorem C17_value_semantics_from (kind : TempKind) (fresh : σ) (solveF : σ → σ × ρ)
    (st : HStore σ) (hst : ∀ i o, st i = some o → o.temp = kind) (ops : List (HOp σ)) :
    let r := hRun true kind fresh solveF st ops
    let sp := specRun fresh solveF (fun i => (st i).map (·.val)) ops
    (∀ i o, r.1 i = some o → o.temp = kind) ∧
    (∀ out ∈ r.2, out ≠ HOut.ub) ∧
    r.2 = sp.2 ∧
    (∀ i, (r.1 i).map (·.val) = sp.1 i) := by
  obtain ⟨h1, h2, h3⟩ := hRun_refines kind fresh solveF ops st hst
  refine ⟨h1, ?_, h3, fun i => congrFun h2 i⟩
  intro out hout hub
  rw [h3] at hout
  exact specRun_no_ub fresh solveF ops _ out hout hub

/-- A copy is independent of its source.  In any store satisfying the invariant (in particular
    any store reachable from the empty one, by `C17_value_semantics`) with `s` live and `s ≠ d`:
    after `copyConstruct s d` (or `copyAssign s d`), `solve d`
    * returns the result that `solve s` would have returned,
    * leaves `s` (and every slot other than `d`) exactly as it was before the copy,
    * leaves in `d` the value that solving on `s` would have produced. -/
theorem C17_copy_independent (kind : TempKind) (fresh : σ) (solveF : σ → σ × ρ)
    (st : HStore σ) (hst : ∀ i o, st i = some o → o.temp = kind)
    (s d : Nat) (hsd : s ≠ d) (o : HObj σ) (hs : st s = some o)
    (op : HOp σ) (hop : op = .copyConstruct s d ∨ op = .copyAssign s d) :
    let st1 := (hStep true kind fresh solveF st op).1
    let r := hStep true kind fresh solveF st1 (.solve d)
    r.2 = .result (solveF o.val).2 ∧
    r.2 = (hStep true kind fresh solveF st (.solve s)).2 ∧
    r.1 s = some o ∧
    (∀ j, j ≠ d → r.1 j = st j) ∧
    (r.1 d).map (·.val) = some (solveF o.val).1 ∧
    (r.1 d).map (·.val) = ((hStep true kind fresh solveF st (.solve s)).1 s).map (·.val) := by
  have hk := hst s o hs
  rcases hop with rfl | rfl <;>
  · simp only [hStep, hs, copyTemp, if_true, hk, HStore.upd]
    simp [hsd]
    intro j hj; simp [hj]

/-- reachable-store form of `C17_copy_independent` -/
theorem C17_copy_independent_reachable (kind : TempKind) (fresh : σ) (solveF : σ → σ × ρ)
    (pre : List (HOp σ)) (s d : Nat) (hsd : s ≠ d) (o : HObj σ)
    (hs : (hRun true kind fresh solveF (fun _ => none) pre).1 s = some o) :
    let st := (hRun true kind fresh solveF (fun _ => none) pre).1
    let st1 := (hStep true kind fresh solveF st (.copyConstruct s d)).1
    let r := hStep true kind fresh solveF st1 (.solve d)
    r.2 = .result (solveF o.val).2 ∧
    r.2 = (hStep true kind fresh solveF st (.solve s)).2 ∧
    r.1 s = some o ∧
    (r.1 d).map (·.val) = some (solveF o.val).1 := by
  have hinv := (C17_value_semantics kind fresh solveF pre).1
  obtain ⟨h1, h2, h3, _, h5, _⟩ :=
    C17_copy_independent kind fresh solveF _ hinv s d hsd o hs _ (Or.inl rfl)
  exact ⟨h1, h2, h3, h5⟩

/-- The defect that was fixed: with the old copy (`clone = false`) and a Rosenbrock solver,
    `GetState; copy; Solve(copy)` is undefined behaviour (bad downcast of the sliced temporaries). -/
theorem C17_old_copy_is_ub (fresh : σ) (solveF : σ → σ × ρ) :
    (hRun false .rosenbrock fresh solveF (fun _ => none)
      [.new 0, .copyConstruct 0 1, .solve 1]).2 = [.ok, .ok, .ub] := by
  rfl

/-- the same history on the current source is fine -/
example (fresh : σ) (solveF : σ → σ × ρ) :
    (hRun true .rosenbrock fresh solveF (fun _ => none)
      [.new 0, .copyConstruct 0 1, .solve 1]).2 = [.ok, .ok, .result (solveF fresh).2] := by
  rfl

/-- the same holds for backward Euler on the old source -/
theorem C17_old_copy_is_ub_be (fresh : σ) (solveF : σ → σ × ρ) :
    (hRun false .backwardEuler fresh solveF (fun _ => none)
      [.new 0, .copyAssign 0 1, .solve 1]).2 = [.ok, .ok, .ub] := by
  rfl

/-- hypotheses of `C17_copy_independent` are satisfiable: a concrete non-trivial instance
    (`σ = Nat`, `solve` increments and reports the old value) -/
example :
    let solveF : Nat → Nat × Nat := fun v => (v + 1, v)
    let r := hRun true .rosenbrock 7 solveF (fun _ => none)
      [.new 0, .set 0 (· * 2), .copyConstruct 0 1, .solve 1, .solve 1, .solve 0, .moveAssign 1 2, .solve 1, .solve 2]
    (r.1 0).map (·.val) = some 15 ∧ (r.1 1).map (·.val) = none ∧ (r.1 2).map (·.val) = some 17 := by
  decide

#print axioms C17_value_semantics
#print axioms C17_value_semantics_from
#print axioms C17_copy_independent
#print axioms C17_copy_independent_reachable
#print axioms C17_old_copy_is_ub
#print axioms C17_old_copy_is_ub_be

end Micm
