/-
C06 (termination) — `Solve` terminates: the Rosenbrock retry loop and the whole flattened loop.

The source's inner `while (!accepted)` has no bound of its own, and the model's loop takes fuel.  Over an
ordered field (`OrderedOps o`), with legal controller parameters, `safety < 1`, the explicit hypothesis on
the uninterpreted `pow` (`1 ≤ x → 1 ≤ pow x (1/order)`, as in `C07_reject_shrinks`) and a **positive
minimum step `h_min`**:

* every rejection leaves `H' ≤ q·H` with `q = max (max factor_min safety_factor) rejection_factor_decrease < 1`;
* an attempt with `H < h_min` is accepted whatever its error, so a step that starts with `H ≤ T` sees at
  most `N` rejections for any `N` with `T·q^N < h_min`;
* a new step is only started while `number_of_steps ≤ max_number_of_steps`;

hence every `rosSolve` makes at most `max_number_of_steps + N + 1` attempts, and with more fuel than that
the model never reports `outOfFuel`: the status is one the implementation returns.  On an Archimedean
field such an `N` always exists.

What is NOT proved (and is false in this model without further assumptions): termination with the default
`h_min = 0`.  There the loop stops only because the error estimate of a genuine Rosenbrock step tends to 0
with `H` (analysis, not modelled) or, in binary64, because `H` underflows.  `C06_ros_hmin_zero_may_not_terminate`
exhibits the obstruction inside the model (an error norm that never drops below 1 is consistent with
`OrderedOps`, whose `sqrt` is uninterpreted).
-/
import Mathlib.Algebra.Order.Archimedean.Basic
import Micm.Lemmas.Termination
import Micm.Properties.C06b

namespace Micm
set_option linter.unusedSectionVars false

section Termination
variable {K : Type} [Field K] [LinearOrder K] [IsStrictOrderedRing K]
variable {o : Ops K} (cs : Consts K) (s : SolverCfg K) (p : RosParams K) (kc : Mat K)
    (atol : Array K) (rtol : K) (T hm : K)

/-- the rejection factor `q` lies in `(0, 1)` -/
theorem C06_rejFactor_bounds (lp : LegalParams p) (hs1 : p.safety < 1) :
    0 < rejFactor p ∧ rejFactor p < 1 :=
  ⟨rejFactor_pos p lp, rejFactor_lt_one p lp hs1⟩

/-- **every rejection shrinks `H` by at least the factor `q`** -/
theorem C06_reject_factor (ho : OrderedOps o) (lp : LegalParams p)
    (hpow : ∀ x, 1 ≤ x → 1 ≤ o.pow x (1 / p.order)) (c : Ctl K) (e : K)
    (hd : (ctlDecide o p hm c e).1 = .reject) (hh : 0 ≤ c.h) :
    (ctlDecide o p hm c e).2.h ≤ c.h * rejFactor p :=
  reject_h_le_mul p hm ho lp hpow c e hd hh

/-- **bound on the attempts of a solve** (any fuel): for `0 ≤ T` and any `N` with `T·q^N < h_min`, the
    result of `rosSolve` has `number_of_steps ≤ max_number_of_steps + N + 1` -/
theorem C06_ros_attempt_bound (ho : OrderedOps o) (lp : LegalParams p) (hs1 : p.safety < 1)
    (hpow : ∀ x, 1 ≤ x → 1 ≤ o.pow x (1 / p.order)) (hro : 0 ≤ p.roundOff) (hT : 0 ≤ T) (N : Nat)
    (hN : T * rejFactor p ^ N < p.hmin) (Y : Mat K) (sc : Scratch K) (fuel : Nat) :
    (rosSolve o cs s p kc atol rtol T Y sc fuel).stats.numberOfSteps ≤ p.maxSteps + N + 1 := by
  rw [rosSolve_eq]
  exact (TermInv_loop cs s p kc atol rtol T _ ho lp hs1 hpow hro hT N hN fuel _
    ⟨TimeInv_init p T _ Y sc hT, TermInv_init p T N _ Y sc⟩).total

/-- **C06_ros_terminates**: with more fuel than `max_number_of_steps + N + 1` the solve never runs out of
    fuel — the modelled `Solve` terminates, and its status is `Converged`, `ConvergenceExceededMaxSteps`
    or `StepSizeTooSmall` (over an ordered field there is no NaN/Inf exit). -/
theorem C06_ros_terminates (ho : OrderedOps o) (lp : LegalParams p) (hs1 : p.safety < 1)
    (hpow : ∀ x, 1 ≤ x → 1 ≤ o.pow x (1 / p.order)) (hro : 0 ≤ p.roundOff) (hT : 0 ≤ T) (N : Nat)
    (hN : T * rejFactor p ^ N < p.hmin) (Y : Mat K) (sc : Scratch K) (fuel : Nat)
    (hfuel : p.maxSteps + N + 1 < fuel) :
    (rosSolve o cs s p kc atol rtol T Y sc fuel).status ≠ .outOfFuel := by
  rw [rosSolve_eq]
  exact rosLoop_terminates cs s p kc atol rtol T _ ho lp hs1 hpow hro hT N hN fuel hfuel _ Y sc

/-- on an Archimedean field a suitable `N` exists whenever `h_min > 0`: **`Solve` terminates for every
    `h_min > 0`** (there is a fuel bound `F`, depending only on `T`, `h_min`, `q` and `max_number_of_steps`,
    beyond which the result no longer depends on running out of fuel) -/
theorem C06_ros_terminates_archimedean [Archimedean K] (ho : OrderedOps o) (lp : LegalParams p)
    (hs1 : p.safety < 1) (hpow : ∀ x, 1 ≤ x → 1 ≤ o.pow x (1 / p.order)) (hro : 0 ≤ p.roundOff)
    (hT : 0 ≤ T) (hmin : 0 < p.hmin) :
    ∃ F : Nat, ∀ (Y : Mat K) (sc : Scratch K) (fuel : Nat), F < fuel →
      (rosSolve o cs s p kc atol rtol T Y sc fuel).status ≠ .outOfFuel ∧
      (rosSolve o cs s p kc atol rtol T Y sc fuel).stats.numberOfSteps ≤ F := by
  obtain ⟨q0, q1⟩ := C06_rejFactor_bounds p lp hs1
  have hex : ∃ N : Nat, T * rejFactor p ^ N < p.hmin := by
    rcases eq_or_lt_of_le hT with h0 | hpos
    · exact ⟨0, by rw [← h0]; simpa using hmin⟩
    · obtain ⟨N, hN⟩ := exists_pow_lt_of_lt_one (div_pos hmin hpos) q1
      exact ⟨N, by rw [lt_div_iff₀ hpos] at hN; linarith [mul_comm T (rejFactor p ^ N)]⟩
  obtain ⟨N, hN⟩ := hex
  exact ⟨p.maxSteps + N + 1, fun Y sc fuel hf =>
    ⟨C06_ros_terminates cs s p kc atol rtol T ho lp hs1 hpow hro hT N hN Y sc fuel hf,
     C06_ros_attempt_bound cs s p kc atol rtol T ho lp hs1 hpow hro hT N hN Y sc fuel⟩⟩

end Termination

/-! ### the hypotheses are satisfiable, and the bound is met by a run (`y' = −y` over `ℚ`) -/

namespace TermEx

/-- `Ex.params` with a positive minimum step `h_min = 1/100` -/
def params : RosParams ℚ := { Ex.params with hmin := 1/100 }

theorem C06_termEx_legal : LegalParams params := by
  constructor <;> simp only [params, Ex.params] <;> norm_num

/-- `q = 9/10`, and `T·q^N < h_min` for `T = 1000`, `N = 110` -/
theorem C06_termEx_rejFactor : rejFactor params = 9/10 := by
  simp only [rejFactor, params, Ex.params]; norm_num

theorem C06_termEx_N : (1000 : ℚ) * rejFactor params ^ 110 < params.hmin := by
  rw [C06_termEx_rejFactor]; simp only [params, Ex.params]; norm_num

def run (T : ℚ) (fuel : Nat) : SolveResult ℚ :=
  rosSolve ratOps Ex.consts (Ex.cfg .doolittle) params #[#[1]] #[1/10] (1/10) T #[#[1]] Ex.scratch fuel

/-- the general theorem applied: no `outOfFuel` beyond `1000 + 110 + 1` units of fuel … -/
example (fuel : Nat) (hf : 1111 < fuel) : (run 1000 fuel).status ≠ .outOfFuel :=
  C06_ros_terminates Ex.consts (Ex.cfg .doolittle) params #[#[1]] #[1/10] (1/10) 1000 ratOps_ordered
    C06_termEx_legal (by simp only [params, Ex.params]; norm_num) (fun _ h => h)
    (by simp only [params, Ex.params]; norm_num) (by norm_num) 110 C06_termEx_N #[#[1]] Ex.scratch fuel
    (by simp only [params, Ex.params]; omega)

end TermEx

/-! ### the hypothesis `h_min > 0` cannot simply be dropped -/

namespace StuckEx
open Ex

/-- an `Ops ℚ` that agrees with the order of `ℚ` (so `OrderedOps` holds) whose uninterpreted `sqrt` is the
    constant 2: every error norm is then `max 2 error_min = 2 ≥ 1` -/
def badOps : Ops ℚ := orderOps (fun _ => 2) (fun x _ => x) Nat.cast

theorem badOps_ordered : OrderedOps badOps := orderOps_ordered _ _ _

theorem attError_bad (s : SolverCfg ℚ) (p : RosParams ℚ) (kc : Mat ℚ) (atol : Array ℚ) (rtol : ℚ) (r : RState ℚ) :
    attError badOps consts s p kc atol rtol r = 2 := by
  unfold attError normalizedError
  rw [badOps_ordered.cmax_eq]
  simp only [badOps, orderOps, consts]
  norm_num

variable (s : SolverCfg ℚ) (kc : Mat ℚ) (atol : Array ℚ) (rtol T hm : ℚ)

theorem stuck_step (r : RState ℚ) (hr : r.status = .running) (hi : r.inStep = true) (hh : 0 < r.ctl.h) :
    (rosStep badOps consts s params kc atol rtol T hm r).status = .running ∧
    (rosStep badOps consts s params kc atol rtol T hm r).inStep = true ∧
    0 < (rosStep badOps consts s params kc atol rtol T hm r).ctl.h := by
  have hpro : rosPrologue badOps consts s params kc T r = r := by unfold rosPrologue; simp [hi]
  have hd : (attDecide badOps consts s params kc atol rtol hm r).1 = .reject := by
    unfold attDecide
    rw [attError_bad, badOps_ordered.reject_iff]
    exact ⟨by norm_num, by simp only [params]; exact le_of_lt hh⟩
  rw [rosStep_attempt _ _ _ _ _ _ _ _ _ _ (by rw [hpro]; exact hr), hpro]
  refine ⟨?_, ?_, ?_⟩
  · rw [rosAttempt_status, hd]; exact hr
  · rw [rosAttempt_inStep, if_neg (by rw [hd]; simp)]; exact hi
  · rw [rosAttempt_ctl]
    exact (reject_h params hm badOps_ordered C06_exParams_legal (by simp only [params]; norm_num)
      (fun _ h => h) r.ctl _ hd (le_of_lt hh)).2.2.1 hh

theorem stuck_loop (fuel : Nat) (r : RState ℚ) (hr : r.status = .running) (hi : r.inStep = true)
    (hh : 0 < r.ctl.h) :
    (rosLoop badOps consts s params kc atol rtol T hm fuel r).status = .outOfFuel := by
  induction fuel generalizing r with
  | zero => rw [rosLoop_zero, if_pos hr]
  | succ n ih =>
    rw [rosLoop_succ, if_pos hr]
    obtain ⟨a, b, c⟩ := stuck_step s kc atol rtol T hm r hr hi hh
    exact ih _ a b c


theorem initialH_one : initialH badOps consts params 1 = 1 := by
  rw [badOps_ordered.initialH_eq]
  unfold rawInitialH
  rw [badOps_ordered.hstartEff_eq, badOps_ordered.hmaxEff_eq]
  simp only [params, consts]
  norm_num

theorem hmaxEff_one : hmaxEff badOps params 1 = 1 := by
  rw [badOps_ordered.hmaxEff_eq]; simp [params]

theorem first_prologue (Y : Mat ℚ) (sc : Scratch ℚ) :
    rosPrologue badOps consts s params kc 1 (rosInit 1 Y sc) =
      startStep badOps s kc 1 (rosInit 1 Y sc) := by
  unfold rosPrologue
  simp only [rosInit, badOps, orderOps, params, consts]
  norm_num

/-- **the hypothesis `h_min > 0` of `C06_ros_terminates` cannot simply be dropped**: `OrderedOps` leaves `sqrt`
    uninterpreted, and with `sqrt ≡ 2` (error norm 2 on every attempt) and the default `h_min = 0` the
    model's `Solve` of `y' = −y` over `[0, 1]` is still running after any number of attempts -/
theorem C06_ros_hmin_zero_may_not_terminate (fuel : Nat) :
    (rosSolve badOps consts (cfg .doolittle) params #[#[1]] #[1/10] (1/10) 1 #[#[1]] scratch fuel).status
      = .outOfFuel := by
  rw [rosSolve_eq]
  simp only [initialH_one, hmaxEff_one]
  cases fuel with
  | zero => rw [rosLoop_zero, if_pos (by simp [rosInit])]; 
  | succ n =>
    rw [rosLoop_succ, if_pos (by simp [rosInit])]
    have hp := first_prologue (cfg .doolittle) #[#[1]] #[#[1]] scratch
    have hst : (startStep badOps (cfg .doolittle) #[#[1]] 1 (rosInit 1 #[#[1]] scratch)).status = .running := by
      simp [startStep, rosInit]
    have hin : (startStep badOps (cfg .doolittle) #[#[1]] 1 (rosInit 1 #[#[1]] scratch)).inStep = true := by
      simp [startStep]
    have hh : 0 < (startStep badOps (cfg .doolittle) #[#[1]] 1 (rosInit 1 #[#[1]] scratch)).ctl.h := by
      simp only [startStep, rosInit]; rw [badOps_ordered.cmin_eq, badOps_ordered.abs]; norm_num
    -- the first iteration = prologue (start of the step) + one rejected attempt
    have h1 : rosStep badOps consts (cfg .doolittle) params #[#[1]] #[1/10] (1/10) 1 1 (rosInit 1 #[#[1]] scratch) =
        rosStep badOps consts (cfg .doolittle) params #[#[1]] #[1/10] (1/10) 1 1
          (startStep badOps (cfg .doolittle) #[#[1]] 1 (rosInit 1 #[#[1]] scratch)) := by
      rw [rosStep_eq, rosStep_eq, hp]
      have : rosPrologue badOps consts (cfg .doolittle) params #[#[1]] 1
          (startStep badOps (cfg .doolittle) #[#[1]] 1 (rosInit 1 #[#[1]] scratch)) =
          startStep badOps (cfg .doolittle) #[#[1]] 1 (rosInit 1 #[#[1]] scratch) := by
        unfold rosPrologue; simp [hin]
      rw [this]
    rw [h1]
    obtain ⟨a, b, c⟩ := stuck_step (cfg .doolittle) #[#[1]] #[1/10] (1/10) 1 1 _ hst hin hh
    exact stuck_loop (cfg .doolittle) #[#[1]] #[1/10] (1/10) 1 1 n _ a b c

end StuckEx
end Micm
